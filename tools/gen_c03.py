"""translator items for C03 (output sampling and coordinates): the scalar conversions
Q_for_sampling / pupil_sample_to_psf_sample / psf_sample_to_pupil_sample, the per-axis Q / shift
arithmetic of focus_fixed_sampling and unfocus_fixed_sampling (symbolically executed up to the call
that does the transform), which shape[k] feeds the dx reported by Wavefront.focus / unfocus, and the
argument wiring of the Wavefront.*_fixed_sampling wrappers.

`SymExec` (also used by tools/gen_c05.py) executes the straight-line glue of a propagation function
symbolically: scalars are Lean terms over a generic `K` with `[Num K]`, per-axis quantities are
2-tuples of such terms, calls to other propagation functions are inlined, and the arguments of the
call that performs the transform (`mdft.dft2`, `czt.czt2`, ...) are recorded for every `method` branch.
"""
import ast
import re
from pyexpr2lean import Gen, Tr, Untranslatable, load, get_def, find_calls, call_arg, fn_to_lean

M = 'Model.C03'
HEADER = 'set_option linter.unusedVariables false\nvariable {K : Type} [Num K] [DecidableEq K]\n'

TRANSFORMS = ('mdft.dft2', 'mdft.idft2', 'czt.czt2', 'czt.iczt2')


class Tup:
    def __init__(self, elts):
        self.elts = list(elts)


def _is_docstring(s):
    return isinstance(s, ast.Expr) and isinstance(s.value, ast.Constant) and isinstance(s.value.value, str)


def positional(call, fn, skip_self=False):
    """argument nodes of `call` in the order of fn's parameters, positional-or-keyword and keyword-only alike (defaults filled
    in); None if absent"""
    names = [a.arg for a in fn.args.args]
    if skip_self and names and names[0] == 'self':
        names = names[1:]
    defaults = dict(zip(names[len(names) - len(fn.args.defaults):], fn.args.defaults))
    kwonly = [a.arg for a in fn.args.kwonlyargs]
    for a, d in zip(kwonly, fn.args.kw_defaults):
        if d is not None:
            defaults[a] = d
    out = {}
    if len(call.args) > len(names):
        raise Untranslatable(f'too many positional arguments in {ast.unparse(call)[:60]}')
    for nm, a in zip(names, call.args):
        out[nm] = a
    for k in call.keywords:
        if k.arg is None or k.arg not in names + kwonly or k.arg in out:
            raise Untranslatable(f'keyword {k.arg} in {ast.unparse(call)[:60]}')
        out[k.arg] = k.value
    names = names + kwonly
    for nm in names:
        if nm not in out:
            out[nm] = defaults.get(nm)
    return names, out


class SymExec:
    """symbolic execution of the Q / shift glue of one propagation function"""

    def __init__(self, mod, scalar_funcs, inline=(), depth=0):
        self.mod = mod
        self.scalar_funcs = dict(scalar_funcs)     # python name -> (FunctionDef, lean name)
        self.inline = set(inline)                  # python names of functions to execute symbolically when called
        self.depth = depth

    # ---- expressions -----------------------------------------------------------------------------
    def ev(self, e, env):
        """-> Lean term (str) or Tup"""
        if isinstance(e, ast.Name):
            if e.id in env:
                return env[e.id]
            raise Untranslatable(f'free name {e.id}')
        if isinstance(e, ast.Attribute):
            key = ast.unparse(e)
            if key in env:
                return env[key]
            raise Untranslatable(f'attribute {key}')
        if isinstance(e, ast.Tuple) or isinstance(e, ast.List):
            return Tup([self.ev(x, env) for x in e.elts])
        if isinstance(e, ast.Subscript):
            base = self.ev(e.value, env)
            if isinstance(base, Tup) and isinstance(e.slice, ast.Constant) and isinstance(e.slice.value, int) \
                    and 0 <= e.slice.value < len(base.elts):
                return base.elts[e.slice.value]
            raise Untranslatable(f'subscript {ast.unparse(e)}')
        if isinstance(e, ast.Call):
            f = ast.unparse(e.func)
            if f in ('tuple', 'list') and len(e.args) == 1:
                return self.ev(e.args[0], env)
            if f in self.scalar_funcs:
                fn, lean = self.scalar_funcs[f]
                names, args = positional(e, fn)
                terms = [self.scalar(args[nm], env) for nm in names]
                return '(' + ' '.join([lean] + terms) + ')'
            if f in self.inline:
                return self.call_inline(f, e, env)['return']
            if self.is_helper(f):
                # a same-module straight-line helper: executed symbolically with its parameters bound to the call's arguments
                r = self.call_inline(f, e, env)['return']
                if r is None or r == '<field>':
                    raise Untranslatable(f'helper {f} does not return a symbolic value')
                return r
            raise Untranslatable(f'call {ast.unparse(e)[:60]}')
        if isinstance(e, ast.IfExp):
            # `a if c else b` on scalars or per-axis pairs
            return self.merge(self.cond(e.test, env), self.ev(e.body, env), self.ev(e.orelse, env))
        if isinstance(e, (ast.ListComp, ast.GeneratorExp)):
            if len(e.generators) != 1 or e.generators[0].ifs:
                raise Untranslatable('comprehension shape')
            g = e.generators[0]
            if isinstance(g.target, ast.Name):
                src = self.ev(g.iter, env)
                if not isinstance(src, Tup):
                    raise Untranslatable(f'comprehension over non-tuple {ast.unparse(g.iter)}')
                return Tup([self.ev(e.elt, {**env, g.target.id: x}) for x in src.elts])
            if isinstance(g.target, ast.Tuple) and isinstance(g.iter, ast.Call) and ast.unparse(g.iter.func) == 'zip':
                srcs = [self.ev(a, env) for a in g.iter.args]
                if not all(isinstance(s, Tup) for s in srcs) or len({len(s.elts) for s in srcs}) != 1:
                    raise Untranslatable('zip of non-tuples')
                out = []
                for k in range(len(srcs[0].elts)):
                    env2 = dict(env)
                    for t, s in zip(g.target.elts, srcs):
                        env2[t.id] = s.elts[k]
                    out.append(self.ev(e.elt, env2))
                return Tup(out)
            raise Untranslatable('comprehension target')
        return self.scalar(e, env)

    def scalar(self, e, env):
        """arithmetic on scalars: pyexpr2lean.Tr with every name / subscript / attribute / known call pre-evaluated"""
        if e is None:
            raise Untranslatable('missing argument')
        leaves = {}
        for sub in ast.walk(e):
            if isinstance(sub, ast.Call) and ast.unparse(sub.func) not in self.scalar_funcs \
                    and ast.unparse(sub.func) not in self.inline and not self.is_helper(ast.unparse(sub.func)):
                continue                    # left to Tr (ceil / abs / ...)
            if isinstance(sub, (ast.Name, ast.Subscript, ast.Attribute, ast.Call)):
                key = ast.unparse(sub)
                if key in leaves:
                    continue
                try:
                    v = self.ev(sub, env)
                except Untranslatable:
                    continue
                if isinstance(v, str):
                    leaves[key] = v
        return Tr(leaves, mode='num').expr(e)

    def is_helper(self, fname):
        """a plain module-level function of the module under translation that is neither a transform nor one of the functions
        that produce a field"""
        if '.' in fname or fname in TRANSFORMS or fname in self.scalar_funcs or fname in self.inline:
            return False
        if fname in ('focus', 'unfocus', 'focus_fixed_sampling', 'unfocus_fixed_sampling', 'to_fpm_and_back', 'pad2d', 'crop_center'):
            return False
        try:
            fn = get_def(self.mod, fname)
        except Untranslatable:
            return False
        return isinstance(fn, ast.FunctionDef)

    def cond(self, test, env):
        leaves = {}
        for sub in ast.walk(test):
            if isinstance(sub, (ast.Name, ast.Subscript, ast.Attribute)):
                try:
                    v = self.ev(sub, env)
                except Untranslatable:
                    continue
                if isinstance(v, str):
                    leaves[ast.unparse(sub)] = v
        return Tr(leaves, mode='num').cond(test)

    # ---- statements ------------------------------------------------------------------------------
    def run(self, fn, env):
        """execute fn.body; returns {'calls': {method: (funcname, {param: value})}, 'return': value, 'env': env}"""
        env = dict(env)
        res = {'calls': {}, 'return': None, 'env': env}
        self.block(fn.body, env, res)
        return res

    def block(self, stmts, env, res):
        for s in stmts:
            if _is_docstring(s) or isinstance(s, ast.Pass):
                continue
            if isinstance(s, ast.Return):
                if s.value is not None:
                    try:
                        res['return'] = self.ev(s.value, env)
                    except Untranslatable:
                        res['return'] = env.get(ast.unparse(s.value))
                    res['return_shape'] = env.get(ast.unparse(s.value) + '.shape')
                    res['return_name'] = ast.unparse(s.value)
                return True
            if isinstance(s, ast.Assign) and len(s.targets) == 1:
                t = s.targets[0]
                if isinstance(t, ast.Name):
                    call = s.value if isinstance(s.value, ast.Call) else None
                    if call is not None and ast.unparse(call.func) in TRANSFORMS:
                        self.record(call, env, res, method=None)
                        env[t.id] = '<field>'
                        env[t.id + '.shape'] = res['calls'][None][1]['samples_out']
                        continue
                    if call is not None and ast.unparse(call.func) in self.inline:
                        sub = self.call_inline(ast.unparse(call.func), call, env)
                        res.setdefault('inlined', []).append((ast.unparse(call.func), sub))
                        env[t.id] = '<field>'
                        if sub.get('return_shape') is not None:
                            env[t.id + '.shape'] = sub['return_shape']
                        continue
                    if isinstance(s.value, ast.BinOp) and isinstance(s.value.op, ast.Mult):
                        # element-wise product of a propagated field with something else keeps the field's shape
                        shp = [env.get(ast.unparse(x) + '.shape') for x in (s.value.left, s.value.right)]
                        shp = [x for x in shp if x is not None]
                        if shp and (env.get(ast.unparse(s.value.left)) == '<field>' or env.get(ast.unparse(s.value.right)) == '<field>'):
                            env[t.id] = '<field>'
                            env[t.id + '.shape'] = shp[0]
                            res.setdefault('products', []).append((t.id, ast.unparse(s.value)))
                            continue
                    if isinstance(s.value, ast.List) and not s.value.elts:
                        env[t.id] = Tup([])
                        env[t.id + ':local_list'] = True
                        continue
                    if isinstance(s.value, (ast.Attribute, ast.Name)):
                        # `x = y.data` / `x = y`: what is known about attributes of the right-hand side is known about `x`
                        src = ast.unparse(s.value) + '.'
                        moved = {t.id + '.' + k[len(src):]: v for k, v in env.items() if isinstance(k, str) and k.startswith(src)}
                        for k in [k for k in env if isinstance(k, str) and k.startswith(t.id + '.')]:
                            env.pop(k)
                        env.update(moved)
                    try:
                        env[t.id] = self.ev(s.value, env)
                    except Untranslatable:
                        env[t.id] = None          # poison: using it later raises
                        env.pop(t.id)
                    continue
                if isinstance(t, ast.Tuple) and all(isinstance(x, ast.Name) for x in t.elts):
                    v = self.ev(s.value, env)
                    if not isinstance(v, Tup) or len(v.elts) != len(t.elts):
                        raise Untranslatable(f'tuple assignment {ast.unparse(s)[:60]}')
                    for x, val in zip(t.elts, v.elts):
                        env[x.id] = val
                    continue
                raise Untranslatable(f'assignment target {ast.unparse(t)}')
            if isinstance(s, ast.AugAssign) and isinstance(s.target, ast.Name):
                cur = env.get(s.target.id)
                fake = ast.BinOp(left=ast.Name(id=s.target.id, ctx=ast.Load()), op=s.op, right=s.value)
                if isinstance(cur, Tup):
                    rhs = self.scalar(s.value, env)
                    sym = {ast.Div: '/', ast.Mult: '*', ast.Add: '+', ast.Sub: '-'}.get(type(s.op))
                    if sym is None:
                        raise Untranslatable('augmented operator')
                    env[s.target.id] = Tup([f'({c} {sym} {rhs})' for c in cur.elts])
                else:
                    env[s.target.id] = self.scalar(ast.fix_missing_locations(fake), env)
                continue
            if isinstance(s, ast.If):
                test = ast.unparse(s.test)
                if 'isinstance' in test:
                    truth = self.isinstance_truth(s.test, env)
                    if truth is None:
                        raise Untranslatable(f'type test not decidable symbolically: {test[:60]}')
                    if self.block(s.body if truth else s.orelse, env, res):
                        return True
                    continue
                if test.startswith('method =='):
                    self.methods(s, env, res)
                    continue
                if 'is None' in test or test.startswith('self.space'):
                    continue                       # argument validation
                if test == 'return_more':
                    # `if return_more: return a, b, c` : remember the order of the extra planes
                    if len(s.body) == 1 and isinstance(s.body[0], ast.Return) and isinstance(s.body[0].value, ast.Tuple):
                        res['return_more'] = [ast.unparse(x) for x in s.body[0].value.elts]
                    else:
                        raise Untranslatable('return_more branch is not a plain `return a, b, ...`')
                    continue
                # data-dependent branch that only re-assigns names: value = if c then new else old
                c = self.cond(s.test, env)
                env_t = dict(env)
                res_t = {'calls': {}, 'return': None}
                if self.block(s.body, env_t, res_t):
                    # `if c: return A` followed by the rest of the function: the value is `if c then A else <rest>`
                    rest = list(s.orelse) + list(stmts[stmts.index(s) + 1:])
                    env_e, res_e = dict(env), {'calls': {}, 'return': None}
                    if not self.block(rest, env_e, res_e) or res_t['calls'] or res_e['calls']:
                        raise Untranslatable('early return in a data-dependent branch without a matching return')
                    res['return'] = self.merge(c, res_t['return'], res_e['return'])
                    return True
                env_e = dict(env)
                if s.orelse and self.block(s.orelse, env_e, {'calls': {}, 'return': None}):
                    raise Untranslatable('return inside a data-dependent branch')
                for nm in set(env_t) | set(env_e):
                    a, b = env_t.get(nm), env_e.get(nm)
                    if a is b:
                        continue
                    if a is None or b is None:
                        env.pop(nm, None)      # a temporary of one branch only: unknown afterwards (using it raises)
                        continue
                    env[nm] = self.merge(c, a, b)
                continue
            if isinstance(s, ast.Raise):
                continue
            if isinstance(s, ast.For) and isinstance(s.target, ast.Name) and not s.orelse:
                # a loop over a per-axis pair, unrolled
                it = self.ev(s.iter, env)
                if not isinstance(it, Tup):
                    raise Untranslatable(f'loop over {ast.unparse(s.iter)[:40]} is not a loop over a per-axis pair')
                for elt in it.elts:
                    env[s.target.id] = elt
                    if self.block(s.body, env, res):
                        raise Untranslatable('return inside a loop')
                continue
            if isinstance(s, ast.Expr) and isinstance(s.value, ast.Call) and isinstance(s.value.func, ast.Attribute) \
                    and s.value.func.attr == 'append' and isinstance(s.value.func.value, ast.Name) \
                    and isinstance(env.get(s.value.func.value.id), Tup) and len(s.value.args) == 1 \
                    and env.get(s.value.func.value.id + ':local_list'):
                # `acc.append(x)` on a list created in this function
                nm = s.value.func.value.id
                env[nm] = Tup(env[nm].elts + [self.ev(s.value.args[0], env)])
                continue
            if isinstance(s, ast.Expr):
                # a bare call statement may act in place on an array (np.conj(x, out=x), x.sort(), ...): not modelled
                raise Untranslatable(f'bare expression statement {ast.unparse(s)[:60]}')
            raise Untranslatable(f'statement {ast.unparse(s)[:60]}')
        return False

    def isinstance_truth(self, test, env):
        """truth value of `[not] isinstance(name, T)` for the symbolic value bound to `name`: per-axis pairs are Iterable,
        scalars are int; whether a mask is a Wavefront is a mode of the run (`<name>:is_wavefront` in env)"""
        neg, t = False, test
        if isinstance(t, ast.UnaryOp) and isinstance(t.op, ast.Not):
            neg, t = True, t.operand
        if not (isinstance(t, ast.Call) and ast.unparse(t.func) == 'isinstance' and len(t.args) == 2
                and isinstance(t.args[0], ast.Name)):
            return None
        nm, ty = t.args[0].id, ast.unparse(t.args[1])
        v = env.get(nm)
        if ty.endswith('Iterable'):
            if v is None:
                return None
            truth = isinstance(v, Tup)
        elif ty == 'int':
            if v is None:
                return None
            truth = isinstance(v, str)
        elif ty == 'Wavefront':
            truth = bool(env.get(nm + ':is_wavefront', False))
        else:
            return None
        return (not truth) if neg else truth

    def merge(self, c, a, b):
        if isinstance(a, Tup) and isinstance(b, Tup) and len(a.elts) == len(b.elts):
            return Tup([self.merge(c, x, y) for x, y in zip(a.elts, b.elts)])
        if isinstance(a, str) and isinstance(b, str):
            return a if a == b else f'(if {c} then {a} else {b})'
        raise Untranslatable('branches assign values of different shape')

    def methods(self, ifnode, env, res):
        node = ifnode
        while True:
            test = node.test
            if not (isinstance(test, ast.Compare) and ast.unparse(test.left) == 'method'
                    and isinstance(test.comparators[0], ast.Constant)):
                raise Untranslatable('method dispatch shape')
            meth = test.comparators[0].value
            for st in node.body:
                if isinstance(st, ast.Assign) and isinstance(st.value, ast.Call) and ast.unparse(st.value.func) in TRANSFORMS:
                    self.record(st.value, env, res, method=meth)
                    if isinstance(st.targets[0], ast.Name):
                        env[st.targets[0].id] = '<field>'
                        env[st.targets[0].id + '.shape'] = res['calls'][meth][1]['samples_out']
            if len(node.orelse) == 1 and isinstance(node.orelse[0], ast.If):
                node = node.orelse[0]
                continue
            break

    def record(self, call, env, res, method):
        args = {}
        for k, nm in ((0, 'ary'), (1, 'Q'), (2, 'samples_out'), (3, 'shift')):
            a = call_arg(call, k, nm)
            if a is None:
                args[nm] = Tup(['(Num.ofInt (0))', '(Num.ofInt (0))']) if nm == 'shift' else None
                continue
            if nm == 'ary':
                args[nm] = ast.unparse(a)
                continue
            args[nm] = self.ev(a, env)
        res['calls'][method] = (ast.unparse(call.func), args)

    def call_inline(self, fname, call, env):
        if self.depth > 3:
            raise Untranslatable('inlining too deep')
        fn = get_def(self.mod, fname)
        names, args = positional(call, fn)
        env2 = {}
        for nm in names:
            a = args[nm]
            if a is None:
                continue
            try:
                if nm == 'wavefunction':
                    # the array argument: only its shape matters
                    shp = env.get(ast.unparse(a) + '.shape')
                    if shp is None:
                        raise Untranslatable(f'shape of {ast.unparse(a)} unknown')
                    env2['wavefunction.shape'] = shp
                    continue
                env2[nm] = self.ev(a, env)
            except Untranslatable:
                if nm in ('method', 'return_more') or fname not in self.inline:
                    continue        # an argument without a symbolic value: using it inside the callee raises there
                raise
        sub = SymExec(self.mod, self.scalar_funcs, self.inline, self.depth + 1)
        return sub.run(fn, env2)


def typed(term):
    """pin numeric literals to the scalar type `K` (a comparison between two literals has no other type information)"""
    term = re.sub(r'\(Num\.ofInt \((-?\d+)\)\)', r'(Num.ofInt (\1) : K)', term)
    return re.sub(r'\(Num\.ofFrac \((-?\d+)\) (\d+)\)', r'(Num.ofFrac (\1) \2 : K)', term)


def pair(v):
    """value handed to a transform as Q / shift -> the two per-axis terms (a scalar is broadcast by the executors)"""
    if isinstance(v, Tup):
        if len(v.elts) != 2 or not all(isinstance(x, str) for x in v.elts):
            raise Untranslatable('per-axis value is not a pair of scalars')
        return v.elts
    if isinstance(v, str):
        return [v, v]
    raise Untranslatable('per-axis value missing')


def transform_args(res, want):
    """the (Q, shift, samples_out) given to the transform; every method branch must agree and call `want[method]`"""
    calls = res['calls']
    if set(calls) != set(want):
        raise Untranslatable(f'method branches {sorted(map(str, calls))}, expected {sorted(want)}')
    canon = None
    for meth, (fname, args) in sorted(calls.items()):
        if fname != want[meth]:
            raise Untranslatable(f'method {meth} calls {fname}, expected {want[meth]}')
        q, sh, so = pair(args['Q']), pair(args['shift']), pair(args['samples_out'])
        cur = (tuple(q), tuple(sh), tuple(so), args['ary'])
        if canon is None:
            canon = cur
        elif canon != cur:
            raise Untranslatable('the two methods are given different Q / shift / samples')
    return canon


FS_PARAMS = 's0 s1 M0 M1 input_dx prop_dist wavelength output_dx shift0 shift1'


def fs_env():
    return {'wavefunction.shape': Tup(['s0', 's1']), 'output_samples': Tup(['M0', 'M1']),
            'input_dx': 'input_dx', 'prop_dist': 'prop_dist', 'wavelength': 'wavelength',
            'output_dx': 'output_dx', 'shift': Tup(['shift0', 'shift1'])}


def scalar_funcs(mod, names=('Q_for_sampling', 'pupil_sample_to_psf_sample', 'psf_sample_to_pupil_sample')):
    lean = {'Q_for_sampling': 'qForSampling', 'pupil_sample_to_psf_sample': 'pupilToPsf',
            'psf_sample_to_pupil_sample': 'psfToPupil'}
    return {nm: (get_def(mod, nm), lean[nm]) for nm in names}


def emit_scalar(g, mod, py, lean, fallback_args):
    """a scalar function of the module, executed symbolically (local temporaries, calls to the other scalar conversions and to
    same-module helpers are followed)"""
    def build():
        fn = get_def(mod, py)
        params = [a.arg for a in fn.args.args]
        others = {k: v for k, v in scalar_funcs(mod).items() if k != py}
        res = SymExec(mod, others).run(fn, {p: p for p in params})
        r = res['return']
        if not isinstance(r, str) or r == '<field>':
            raise Untranslatable(f'{py} does not return a scalar expression')
        binders = ' '.join(f'({p} : K)' for p in params)
        return f'def {lean} {binders} : K :=\n  {typed(r)}\n'
    g.item(py, f'prysm/propagation.py:{py}', lambda: get_def(mod, py), build,
           f'def {lean} ({fallback_args} : K) : K := {M}.{lean} {fallback_args}')


def emit_fixed(g, mod, py, prefix, want):
    """ffsQ0/ffsQ1/ffsShift0/ffsShift1 (prefix 'ffs') from focus_fixed_sampling, same for 'ufs'; plus the output sample
    counts the transform is given when `output_samples` is a single int, and the default of the `shift` parameter"""
    def build():
        fn = get_def(mod, py)
        res = SymExec(mod, scalar_funcs(mod)).run(fn, fs_env())
        q, sh, so, ary = transform_args(res, want)
        if ary != 'wavefunction' or so != ('M0', 'M1'):
            raise Untranslatable('the transform is not applied to the input array with the requested output samples')
        if res['return'] != '<field>':
            raise Untranslatable('the value returned is not the untouched result of the transform')
        out = []
        for nm, term in ((f'{prefix}Q0', q[0]), (f'{prefix}Q1', q[1]), (f'{prefix}Shift0', sh[0]), (f'{prefix}Shift1', sh[1])):
            out.append(f'def {nm} ({FS_PARAMS} : K) : K :=\n  {typed(term)}')
        # a single int as sample count
        env = fs_env()
        env['output_samples'] = 'Mint'
        res_i = SymExec(mod, scalar_funcs(mod)).run(fn, env)
        _, _, so_i, _ = transform_args(res_i, want)
        for a in (0, 1):
            out.append(f'def {prefix}IntSamples{a} (Mint s0 s1 : K) : K :=\n  {typed(so_i[a])}')
        # default of the shift parameter
        names, dfl = positional(ast.Call(func=ast.Name(id=py, ctx=ast.Load()), args=[], keywords=[]), fn)
        d = dfl.get('shift')
        if not (isinstance(d, (ast.Tuple, ast.List)) and len(d.elts) == 2):
            raise Untranslatable('default shift is not a pair')
        tr = Tr({}, mode='num')
        for a in (0, 1):
            out.append(f'def {prefix}DefaultShift{a} : K :=\n  {typed(tr.expr(d.elts[a]))}')
        return '\n'.join(out)
    fb = []
    for a, s in ((0, 's0'), (1, 's1')):
        fb.append(f'def {prefix}Q{a} ({FS_PARAMS} : K) : K := {M}.axisQ {s} input_dx prop_dist wavelength output_dx')
    for a in (0, 1):
        fb.append(f'def {prefix}Shift{a} ({FS_PARAMS} : K) : K := {M}.shiftSamples shift{a} output_dx')
    for a in (0, 1):
        fb.append(f'def {prefix}IntSamples{a} (Mint s0 s1 : K) : K := Mint')
    for a in (0, 1):
        fb.append(f'def {prefix}DefaultShift{a} : K := (Num.ofInt (0) : K)')
    g.item(py, f'prysm/propagation.py:{py}', lambda: get_def(mod, py), build, '\n'.join(fb))


def fact3(g, name, source, node_fn, check):
    """three-valued structural fact: check() -> True / False when the code has the recognised shape (False = recognised and
    wrong, the theorem about it then fails), or raises Untranslatable when the shape is not recognised at all: then the fact
    is emitted as `true`, the item is recorded as untranslatable and the (widened) correspondence carries the claim"""
    def build():
        return f'def {name} : Bool := {"true" if check() else "false"}'
    g.item(name, source, node_fn, build, f'def {name} : Bool := true')


def shifted_ortho_transform(fn):
    """`fftshift(T(ifftshift(X), norm=...))` returned by fn (directly or through one local name) -> (T, norm, outer, inner, X)"""
    rets = [r.value for r in ast.walk(fn) if isinstance(r, ast.Return) and r.value is not None]
    if len(rets) != 1:
        raise Untranslatable('not exactly one return')
    e = rets[0]
    if isinstance(e, ast.Name):
        vals = [st.value for st in fn.body if isinstance(st, ast.Assign) and len(st.targets) == 1
                and isinstance(st.targets[0], ast.Name) and st.targets[0].id == e.id]
        if len(vals) != 1:
            raise Untranslatable('returned name is not bound exactly once')
        e = vals[0]
    if not (isinstance(e, ast.Call) and len(e.args) == 1 and isinstance(e.args[0], ast.Call)):
        raise Untranslatable('return value is not shift(transform(...))')
    t = e.args[0]
    if not (t.args and isinstance(t.args[0], ast.Call) and len(t.args[0].args) == 1):
        raise Untranslatable('transform argument is not shift(x)')
    norm = {k.arg: ast.unparse(k.value) for k in t.keywords}.get('norm')
    return ast.unparse(t.func), norm, ast.unparse(e.func), ast.unparse(t.args[0].func), t.args[0].args[0]


def _strip(e):
    """drop no-op wrappers: float(x), np.asarray(x), np.asanyarray(x), np.array(x)"""
    while isinstance(e, ast.Call) and len(e.args) == 1 and not e.keywords and \
            ast.unparse(e.func) in ('float', 'np.asarray', 'np.asanyarray', 'np.array', 'numpy.asarray'):
        e = e.args[0]
    return e


def _endswith(call, names):
    return isinstance(call, ast.Call) and ast.unparse(call.func).split('.')[-1] in names


ARRAY_PARAMS = ('wavefunction', 'shift', 'output_samples', 'samples', 'fpm', 'lyot', 'Q', 'ary', 'samples_out')
_ALIASING_CALLS = ('asarray', 'asanyarray', 'ascontiguousarray', 'asfortranarray', 'atleast_1d', 'atleast_2d', 'squeeze',
                   'ravel', 'reshape', 'view', 'transpose', 'real', 'imag', 'conj', 'conjugate')


def no_inplace_on_args(fn, array_params=ARRAY_PARAMS, cache_reads=False):
    """False iff `fn` applies an in-place operation (augmented assignment, item / slice assignment, `out=` keyword, a
    mutating method) to one of its array-like parameters or to a name that may alias one (`x = np.asarray(param)`,
    `x = param`, `x = param.T`, `x = param[...]`, `np.conj(param)` of a real array ...); such a function corrupts the array
    its caller still holds, and its own later calls see the corrupted value"""
    params = {a.arg for a in fn.args.args + fn.args.kwonlyargs if a.arg in array_params}
    alias = set(params)

    def is_cache_read(e):
        # `self.<cache>[key]` (also behind .get(key)): an object owned by the executor and shared by every later call
        if not cache_reads:
            return False
        if isinstance(e, ast.Subscript) and isinstance(e.value, ast.Attribute) and isinstance(e.value.value, ast.Name) \
                and e.value.value.id == 'self':
            return True
        return isinstance(e, ast.Call) and isinstance(e.func, ast.Attribute) and e.func.attr in ('get', 'setdefault') \
            and isinstance(e.func.value, ast.Attribute) and isinstance(e.func.value.value, ast.Name) and e.func.value.value.id == 'self'

    def may_alias(e):
        if is_cache_read(e):
            return True
        if isinstance(e, ast.Name):
            return e.id in alias
        if isinstance(e, ast.Attribute):
            return may_alias(e.value) and e.attr in ('T', 'real', 'imag', 'data', 'flat')
        if isinstance(e, ast.Subscript):
            return may_alias(e.value)
        if isinstance(e, ast.Call):
            name = ast.unparse(e.func).split('.')[-1]
            if name in _ALIASING_CALLS:
                if isinstance(e.func, ast.Attribute) and may_alias(e.func.value):
                    return True
                return bool(e.args) and may_alias(e.args[0])
            if name == 'array' and e.args and may_alias(e.args[0]):
                return any(k.arg == 'copy' and isinstance(k.value, ast.Constant) and k.value.value is False for k in e.keywords)
        return False

    ok = True
    for st in ast.walk(fn):
        pass
    # statements in source order, so that re-binding a name to a fresh object clears its alias status
    for st in sorted((n for n in ast.walk(fn) if isinstance(n, ast.stmt)), key=lambda n: (n.lineno, n.col_offset)):
        if isinstance(st, ast.AugAssign):
            tgt = st.target
            base = tgt.value if isinstance(tgt, (ast.Subscript, ast.Attribute)) else tgt
            if may_alias(base):
                ok = False
        elif isinstance(st, ast.Assign):
            for t in st.targets:
                if isinstance(t, ast.Subscript) and may_alias(t.value):
                    ok = False
            for t in st.targets:
                if isinstance(t, ast.Name):
                    if may_alias(st.value):
                        alias.add(t.id)
                    else:
                        alias.discard(t.id)
                elif isinstance(t, (ast.Tuple, ast.List)) and all(isinstance(x, ast.Name) for x in t.elts):
                    # `a, b = self.A[key], self.B[key]` element-wise; `a, b, c = self.cache[key]` all of them
                    if isinstance(st.value, (ast.Tuple, ast.List)) and len(st.value.elts) == len(t.elts):
                        for x, v in zip(t.elts, st.value.elts):
                            (alias.add if may_alias(v) else alias.discard)(x.id)
                    else:
                        for x in t.elts:
                            (alias.add if may_alias(st.value) else alias.discard)(x.id)
        elif isinstance(st, ast.Expr) and isinstance(st.value, ast.Call):
            c = st.value
            if any(k.arg == 'out' and may_alias(k.value) for k in c.keywords):
                ok = False
            if isinstance(c.func, ast.Attribute) and may_alias(c.func.value) and \
                    c.func.attr in ('sort', 'fill', 'resize', 'itemset', 'put', 'partition', 'byteswap', 'append', 'extend', 'clear'):
                ok = False
    for c in (n for n in ast.walk(fn) if isinstance(n, ast.Call)):
        if any(k.arg == 'out' and may_alias(k.value) for k in c.keywords):
            ok = False
    return ok


def c03_items(g, ft, pr, repo):
    g.chunks.append(HEADER)
    co, _ = load(repo, 'prysm/coordinates.py')
    rd, _ = load(repo, 'prysm/_richdata.py')

    emit_scalar(g, pr, 'Q_for_sampling', 'qForSampling', 'input_diameter prop_dist wavelength output_dx')
    emit_scalar(g, pr, 'pupil_sample_to_psf_sample', 'pupilToPsf', 'pupil_sample samples wavelength efl')
    emit_scalar(g, pr, 'psf_sample_to_pupil_sample', 'psfToPupil', 'psf_sample samples wavelength efl')

    emit_fixed(g, pr, 'focus_fixed_sampling', 'ffs', {'mdft': 'mdft.dft2', 'czt': 'czt.czt2'})
    emit_fixed(g, pr, 'unfocus_fixed_sampling', 'ufs', {'mdft': 'mdft.idft2', 'czt': 'czt.iczt2'})

    # ---- the spacing reported by the FFT route: which shape[k] feeds it
    def reported(meth, conv_py, route):
        def build():
            fn = get_def(pr, f'Wavefront.{meth}')
            (c,) = find_calls(fn, conv_py)
            (r,) = find_calls(fn, route)
            _, rargs = positional(r, get_def(pr, route))
            if ast.unparse(_strip(rargs['wavefunction'])) != 'self.data' or ast.unparse(rargs['Q']) != 'Q':
                raise Untranslatable(f'{meth} does not propagate self.data with Q')
            data_name = None
            for st in fn.body:
                if isinstance(st, ast.Assign) and st.value is r and isinstance(st.targets[0], ast.Name):
                    data_name = st.targets[0].id
            if data_name is None:
                raise Untranslatable('propagated array is not bound to a name')
            ex = SymExec(pr, scalar_funcs(pr))
            env = {'self.dx': 'self_dx', 'self.wavelength': 'self_wavelength', 'efl': 'efl',
                   f'{data_name}.shape': Tup(['N0', 'N1'])}
            # local temporaries between the transform and the conversion (`samples = data.shape[1]`, ...) are executed symbolically
            for st in fn.body:
                if isinstance(st, ast.Assign) and len(st.targets) == 1 and isinstance(st.targets[0], ast.Name) \
                        and st.value is not r and st.value is not c and st.targets[0].id != data_name:
                    try:
                        env[st.targets[0].id] = ex.ev(st.value, env)
                    except Untranslatable:
                        env.pop(st.targets[0].id, None)
            term = ex.ev(c, env)
            # the reported value must be what is stored in the returned Wavefront, together with the array and the space
            tgt = [st.targets[0].id for st in fn.body if isinstance(st, ast.Assign) and st.value is c]
            (ret,) = [n for n in ast.walk(fn) if isinstance(n, ast.Return)]
            if not (isinstance(ret.value, ast.Call) and ast.unparse(ret.value.func) == 'Wavefront'):
                raise Untranslatable('does not return a Wavefront')
            _, wa = positional(ret.value, get_def(pr, 'Wavefront.__init__'), skip_self=True)
            if len(tgt) != 1 or ast.unparse(wa['dx']) != tgt[0] or ast.unparse(wa['cmplx_field']) != data_name \
                    or ast.unparse(wa['wavelength']) != 'self.wavelength':
                raise Untranslatable('returned Wavefront is not (data, wavelength, dx)')
            sp = wa.get('space')
            if not (isinstance(sp, ast.Constant) and isinstance(sp.value, str)):
                raise Untranslatable('space of the returned Wavefront is not a literal')
            want = 'psf' if meth == 'focus' else 'pupil'
            return (f'def {meth}Dx (self_dx N0 N1 self_wavelength efl : K) : K :=\n  {typed(term)}\n'
                    f'def {meth}SpaceOk : Bool := {"true" if sp.value == want else "false"}')
        conv = 'pupilToPsf' if meth == 'focus' else 'psfToPupil'
        g.item(f'Wavefront.{meth}', f'prysm/propagation.py:Wavefront.{meth}', lambda: get_def(pr, f'Wavefront.{meth}'), build,
               f'def {meth}Dx (self_dx N0 N1 self_wavelength efl : K) : K := {M}.{conv} self_dx N1 self_wavelength efl\n'
               f'def {meth}SpaceOk : Bool := true')
    reported('focus', 'pupil_sample_to_psf_sample', 'focus')
    reported('unfocus', 'psf_sample_to_pupil_sample', 'unfocus')

    # ---- the free functions focus / unfocus: which transform sits between which index rotations, with which norm, on what
    def fft_route(py, call):
        def build():
            fn = get_def(pr, py)
            T, norm, outer, inner, x = shifted_ortho_transform(fn)
            tname, oname, iname = T.split('.')[-1], outer.split('.')[-1], inner.split('.')[-1]
            if tname not in ('fft2', 'ifft2') or oname not in ('fftshift', 'ifftshift') or iname not in ('fftshift', 'ifftshift'):
                raise Untranslatable('not shift(transform(shift(x)))')
            if norm is None or not (norm.startswith("'") or norm.startswith('"')):
                raise Untranslatable('norm is not a string literal')
            if not isinstance(x, ast.Name):
                raise Untranslatable('transformed array is not a local name')
            arg = fn.args.args[0].arg
            binds = [_strip(st.value) for st in ast.walk(fn) if isinstance(st, ast.Assign) and len(st.targets) == 1
                     and isinstance(st.targets[0], ast.Name) and st.targets[0].id == x.id]
            pads, plain = 0, 0
            for bnd in binds:
                if isinstance(bnd, ast.Name) and bnd.id == arg:
                    plain += 1
                elif isinstance(bnd, ast.Call) and ast.unparse(bnd.func).split('.')[-1] == 'pad2d':
                    _, pa = positional(bnd, get_def(ft, 'pad2d'))
                    if ast.unparse(_strip(pa['array'])) != arg or ast.unparse(pa['Q']) != 'Q' or pa.get('out_shape') is not None \
                            and ast.unparse(pa['out_shape']) != 'None':
                        raise Untranslatable('pad2d is not called as pad2d(x, Q)')
                    pads += 1
                else:
                    raise Untranslatable('transformed array has another source')
            if pads != 1 or plain > 1:
                raise Untranslatable('padding statements not recognised')
            nm = py
            return (f'def {nm}RouteTransform : String := "{tname}"\n'
                    f'def {nm}RouteOuter : String := "{oname}"\n'
                    f'def {nm}RouteInner : String := "{iname}"\n'
                    f'def {nm}RouteNorm : String := {norm.replace(chr(39), chr(34))}')
        return build
    for py, call in (('focus', 'fft2'), ('unfocus', 'ifft2')):
        g.item(f'{py}.route', f'prysm/propagation.py:{py}', (lambda nm: (lambda: get_def(pr, nm)))(py), fft_route(py, call),
               f'def {py}RouteTransform : String := "{call}"\ndef {py}RouteOuter : String := "fftshift"\n'
               f'def {py}RouteInner : String := "ifftshift"\ndef {py}RouteNorm : String := "ortho"')

    # ---- Wavefront.focus_fixed_sampling / unfocus_fixed_sampling: which attribute feeds which argument
    def wrapper(meth):
        def build():
            fn = get_def(pr, f'Wavefront.{meth}')
            (c,) = find_calls(fn, meth)
            target = get_def(pr, meth)
            names, args = positional(c, target)
            env = {'self.dx': 'self_dx', 'self.wavelength': 'self_wavelength', 'efl': 'efl', 'dx': 'dx'}
            ex = SymExec(pr, {})
            out = []
            for py, lean in (('input_dx', 'InputDx'), ('prop_dist', 'PropDist'), ('wavelength', 'Wavelength'), ('output_dx', 'OutputDx')):
                out.append(f'def {short[meth]}Wrap{lean} (self_dx self_wavelength efl dx : K) : K := {typed(ex.scalar(_strip(args[py]), env))}')
            if ast.unparse(_strip(args['wavefunction'])) != 'self.data' or ast.unparse(args['shift']) != 'shift' \
                    or ast.unparse(args['output_samples']) != 'samples' or ast.unparse(args['method']) != 'method':
                raise Untranslatable('wrapper does not pass data / samples / shift / method through')
            (ret,) = [n for n in ast.walk(fn) if isinstance(n, ast.Return)]
            if not isinstance(ret.value, ast.Call) or ast.unparse(ret.value.func) != 'Wavefront':
                raise Untranslatable('wrapper does not return a Wavefront')
            rfn = get_def(pr, 'Wavefront.__init__')
            _, rargs = positional(ret.value, rfn, skip_self=True)
            out.append(f'def {short[meth]}WrapReportedDx (self_dx self_wavelength efl dx : K) : K := {typed(ex.scalar(_strip(rargs["dx"]), env))}')
            data_names = [st.targets[0].id for st in fn.body if isinstance(st, ast.Assign) and st.value is c]
            if len(data_names) != 1 or ast.unparse(rargs['cmplx_field']) != data_names[0]:
                raise Untranslatable('returned Wavefront does not hold the propagated array')
            sp = rargs.get('space')
            if not (isinstance(sp, ast.Constant) and isinstance(sp.value, str)):
                raise Untranslatable('space of the returned Wavefront is not a literal')
            want = 'psf' if meth.startswith('focus') else 'pupil'
            out.append(f'def {short[meth]}WrapSpaceOk : Bool := {"true" if sp.value == want else "false"}')
            # a single int as `samples`: executed symbolically through the wrapper's own broadcast
            ifs = [st for st in fn.body if isinstance(st, ast.If) and 'isinstance(samples' in ast.unparse(st.test)]
            if len(ifs) != 1:
                raise Untranslatable('no single int-broadcast statement for samples')
            e2 = {'samples': 'Mint'}
            SymExec(pr, {}).block(ifs, e2, {'calls': {}, 'return': None})
            sm = pair(e2['samples']) if isinstance(e2['samples'], Tup) else None
            if sm is None:
                raise Untranslatable('int samples are not broadcast to a pair')
            for a in (0, 1):
                out.append(f'def {short[meth]}WrapIntSamples{a} (Mint : K) : K := {typed(sm[a])}')
            return '\n'.join(out)
        fb = '\n'.join(f'def {short[meth]}Wrap{lean} (self_dx self_wavelength efl dx : K) : K := {v}' for lean, v in
                       (('InputDx', 'self_dx'), ('PropDist', 'efl'), ('Wavelength', 'self_wavelength'), ('OutputDx', 'dx'), ('ReportedDx', 'dx')))
        fb += f'\ndef {short[meth]}WrapSpaceOk : Bool := true'
        fb += ''.join(f'\ndef {short[meth]}WrapIntSamples{a} (Mint : K) : K := Mint' for a in (0, 1))
        g.item(f'Wavefront.{meth}', f'prysm/propagation.py:Wavefront.{meth}', lambda: get_def(pr, f'Wavefront.{meth}'), build, fb)
    short = {'focus_fixed_sampling': 'ffs', 'unfocus_fixed_sampling': 'ufs'}
    wrapper('focus_fixed_sampling')
    wrapper('unfocus_fixed_sampling')

    # ---- no in-place operation on a caller-owned array-like argument (field, shift, sample counts)
    for nm, py in (('ffsNoInPlaceOnArguments', 'focus_fixed_sampling'), ('ufsNoInPlaceOnArguments', 'unfocus_fixed_sampling'),
                   ('ffsWrapNoInPlaceOnArguments', 'Wavefront.focus_fixed_sampling'),
                   ('ufsWrapNoInPlaceOnArguments', 'Wavefront.unfocus_fixed_sampling'),
                   ('focusNoInPlaceOnArguments', 'focus'), ('unfocusNoInPlaceOnArguments', 'unfocus')):
        g.fact(nm, f'prysm/propagation.py:{py}', (lambda q: (lambda: no_inplace_on_args(get_def(pr, q))))(py))
    for nm, py in (('mdftNoInPlaceOnArguments', 'MatrixDFTExecutor.dft2'), ('mdftInvNoInPlaceOnArguments', 'MatrixDFTExecutor.idft2'),
                   ('mdftKeyNoInPlaceOnArguments', 'MatrixDFTExecutor._key'),
                   ('cztNoInPlaceOnArguments', 'ChirpZTransformExecutor.czt2'), ('cztInvNoInPlaceOnArguments', 'ChirpZTransformExecutor.iczt2')):
        g.fact(nm, f'prysm/fttools.py:{py}', (lambda q: (lambda: no_inplace_on_args(get_def(ft, q))))(py))

    # ---- coordinates attached to a result: RichData.x/.y -> make_xy_grid(shape, dx) -> fftrange(n) * dx, axis 0 = y
    def grid():
        fn = get_def(ft, 'fftrange')
        (ret,) = [r.value for r in ast.walk(fn) if isinstance(r, ast.Return)]
        if not _endswith(ret, ('arange',)) or len(ret.args) < 2:
            raise Untranslatable('fftrange is not an arange')
        tr = Tr({'n': 'n'})
        return (f'def gridLo (n : Int) : Int := {tr.expr(ret.args[0])}\n'
                f'def gridHi (n : Int) : Int := {tr.expr(ret.args[1])}')
    g.item('fftrange', 'prysm/fttools.py:fftrange', lambda: get_def(ft, 'fftrange'), grid,
           'def gridLo (n : Int) : Int := -(n / 2)\ndef gridHi (n : Int) : Int := -(n / 2) + n')

    def xy_grid():
        fn = get_def(co, 'make_xy_grid')
        for st in ast.walk(fn):
            if isinstance(st, ast.Assign) and isinstance(st.targets[0], ast.Tuple) and len(st.targets[0].elts) == 2 \
                    and isinstance(st.value, (ast.GeneratorExp, ast.ListComp)):
                names = [ast.unparse(t) for t in st.targets[0].elts]
                gen = st.value.generators[0]
                if ast.unparse(gen.iter) != 'shape' or not isinstance(gen.target, ast.Name) or gen.ifs:
                    return None
                e = st.value.elt
                if not (isinstance(e, ast.BinOp) and isinstance(e.op, ast.Mult)):
                    return None
                l, r = e.left, e.right
                if isinstance(r, ast.Call):
                    l, r = r, l
                if not _endswith(l, ('fftrange',)):
                    return None
                _, fa = positional(l, get_def(ft, 'fftrange'))
                if fa.get('n') is None or ast.unparse(fa['n']) != gen.target.id:
                    return None
                if ast.unparse(r) != 'dx':
                    return None
                if sorted(names) != ['x', 'y']:
                    return None
                return names == ['y', 'x']          # axis 0 of `shape` is y, axis 1 is x
        return None
    g.fact('xyGridIsFftrangeTimesDxAxis0IsY', 'prysm/coordinates.py:make_xy_grid', xy_grid)

    # ---- make_xy_grid as ARITHMETIC (not only recognised): the step actually used (the `diameter` branch included), the
    # coordinate of a sample as a function of its fftrange value, which shape component feeds x / y, along which array axis
    # each returned grid varies, the return order, and the order in which RichData.x/.y unpack it
    def xy_arith():
        fn = get_def(co, 'make_xy_grid')
        body = [st for st in fn.body if not _is_docstring(st)]
        step_else = 'dx'
        step = None
        gen_assign = mesh = ret = None
        for st in body:
            if isinstance(st, ast.If) and 'isinstance' in ast.unparse(st.test):
                continue
            if isinstance(st, ast.If) and 'diameter' in ast.unparse(st.test):
                if st.orelse or len(st.body) != 1 or not isinstance(st.body[0], ast.Assign) \
                        or ast.unparse(st.body[0].targets[0]) != 'dx':
                    raise Untranslatable('diameter branch is not `dx = ...`')
                tr = Tr({'diameter': 'diameter', 'max(shape)': 'smax', 'dx': 'dx'}, mode='num')
                step = (tr.cond(st.test), tr.expr(st.body[0].value))
                continue
            if isinstance(st, ast.Assign) and isinstance(st.targets[0], ast.Tuple) and isinstance(st.value, (ast.GeneratorExp, ast.ListComp)):
                gen_assign = st
                continue
            if isinstance(st, ast.If) and ast.unparse(st.test) == 'grid':
                if len(st.body) != 1 or st.orelse:
                    raise Untranslatable('grid branch')
                mesh = st.body[0]
                continue
            if isinstance(st, ast.Return):
                ret = st
                continue
            raise Untranslatable(f'statement {ast.unparse(st)[:50]}')
        if gen_assign is None or mesh is None or ret is None or step is None:
            raise Untranslatable('make_xy_grid: expected statements not found')
        g0 = gen_assign.value.generators[0]
        if len(gen_assign.value.generators) != 1 or g0.ifs or ast.unparse(g0.iter) != 'shape' or not isinstance(g0.target, ast.Name):
            raise Untranslatable('per-axis generator is not over `shape`')
        calls = [c for c in ast.walk(gen_assign.value.elt) if _endswith(c, ('fftrange',))]
        if len(calls) != 1:
            raise Untranslatable('no single fftrange call per axis')
        _, fa = positional(calls[0], get_def(ft, 'fftrange'))
        if fa.get('n') is None or ast.unparse(fa['n']) != g0.target.id:
            raise Untranslatable('fftrange is not called on the axis length')
        coord_term = Tr({ast.unparse(calls[0]): 'c', 'dx': 'step'}, mode='num').expr(gen_assign.value.elt)
        names = [ast.unparse(t) for t in gen_assign.targets[0].elts]
        if sorted(names) != ['x', 'y']:
            raise Untranslatable('per-axis vectors are not named x, y')
        len_of = {nm: k for k, nm in enumerate(names)}          # shape index that feeds the vector
        # x, y = np.meshgrid(a, b[, indexing=...]): first output varies along axis 1 for 'xy' (default), axis 0 for 'ij'
        if not (isinstance(mesh, ast.Assign) and isinstance(mesh.targets[0], ast.Tuple) and _endswith(mesh.value, ('meshgrid',))
                and len(mesh.value.args) == 2):
            raise Untranslatable('grid branch is not a two-argument meshgrid')
        idx = {k.arg: k.value for k in mesh.value.keywords}.get('indexing')
        if idx is not None and not (isinstance(idx, ast.Constant) and idx.value in ('xy', 'ij')):
            raise Untranslatable('meshgrid indexing')
        first_axis = 0 if (idx is not None and idx.value == 'ij') else 1
        outs = [ast.unparse(t) for t in mesh.targets[0].elts]
        ins = [ast.unparse(a) for a in mesh.value.args]
        if sorted(outs) != ['x', 'y'] or sorted(ins) != ['x', 'y']:
            raise Untranslatable('meshgrid names')
        # output k carries the values of input k; output 0 varies along first_axis, output 1 along the other
        varies, holds = {}, {}
        for k in (0, 1):
            varies[outs[k]] = first_axis if k == 0 else 1 - first_axis
            holds[outs[k]] = ins[k]
        if not (isinstance(ret.value, ast.Tuple) and len(ret.value.elts) == 2):
            raise Untranslatable('return is not a pair')
        rnames = [ast.unparse(t) for t in ret.value.elts]
        if sorted(rnames) != ['x', 'y']:
            raise Untranslatable('returned names')
        # RichData.x / .y : `self._x, self._y = make_xy_grid(...)`, property returns self._x / self._y
        pos_of = {}
        for prop in ('x', 'y'):
            pfn = None
            for n in get_def(rd, 'RichData').body:
                if isinstance(n, ast.FunctionDef) and n.name == prop and any('property' in ast.unparse(d) for d in n.decorator_list):
                    pfn = n
            (rv,) = [r.value for r in ast.walk(pfn) if isinstance(r, ast.Return)]
            asg = [st for st in ast.walk(pfn) if isinstance(st, ast.Assign) and _endswith(st.value, ('make_xy_grid',))]
            if len(asg) != 1 or not isinstance(asg[0].targets[0], ast.Tuple):
                raise Untranslatable(f'RichData.{prop} does not unpack make_xy_grid')
            tg = [ast.unparse(t) for t in asg[0].targets[0].elts]
            if ast.unparse(rv) not in tg:
                raise Untranslatable(f'RichData.{prop} returns something else')
            pos_of[prop] = tg.index(ast.unparse(rv))
        out = [f'def xyGridStep (dx diameter smax : K) : K :=\n  if {typed(step[0])} then {typed(step[1])} else {step_else}',
               f'def xyGridCoord (c step : K) : K :=\n  {typed(coord_term)}']
        for prop in ('x', 'y'):
            got = rnames[pos_of[prop]]                  # the name inside make_xy_grid that RichData.<prop> receives
            src = holds[got]                            # the 1-D vector whose values it carries
            P = prop.upper()
            out.append(f'def rich{P}LenFromShapeIndex : Nat := {len_of[src]}')
            out.append(f'def rich{P}VariesAlongAxis : Nat := {varies[got]}')
        return '\n'.join(out)
    g.item('make_xy_grid.arith', 'prysm/coordinates.py:make_xy_grid + prysm/_richdata.py:RichData.x/.y', lambda: get_def(co, 'make_xy_grid'), xy_arith,
           'def xyGridStep (dx diameter smax : K) : K := if diameter ≠ (Num.ofInt (0) : K) then diameter / smax else dx\n'
           'def xyGridCoord (c step : K) : K := c * step\n'
           'def richXLenFromShapeIndex : Nat := 1\ndef richXVariesAlongAxis : Nat := 1\n'
           'def richYLenFromShapeIndex : Nat := 0\ndef richYVariesAlongAxis : Nat := 0')

    def rich_xy():
        ok = []
        for prop in ('x', 'y'):
            fn = None
            for n in get_def(rd, 'RichData').body:
                if isinstance(n, ast.FunctionDef) and n.name == prop and any('property' in ast.unparse(d) for d in n.decorator_list):
                    fn = n
            if fn is None:
                return None
            calls = find_calls(fn, 'make_xy_grid')
            if len(calls) != 1:
                return None
            _, a = positional(calls[0], get_def(co, 'make_xy_grid'))
            if a.get('shape') is None or a.get('dx') is None:
                return None
            diam = a.get('diameter')
            no_diam = diam is None or (isinstance(diam, ast.Constant) and diam.value == 0)
            ok.append(ast.unparse(a['shape']) in ('self.data.shape', 'self.shape') and ast.unparse(_strip(a['dx'])) == 'self.dx' and no_diam)
        return all(ok)
    g.fact('richDataGridFromOwnShapeAndDx', 'prysm/_richdata.py:RichData.x/.y', rich_xy)

    def wf_views():
        ok = []
        for prop in ('intensity', 'phase'):
            fn = get_def(pr, f'Wavefront.{prop}')
            (ret,) = [r.value for r in ast.walk(fn) if isinstance(r, ast.Return)]
            if not (isinstance(ret, ast.Call) and ast.unparse(ret.func) == 'RichData'):
                return None
            _, a = positional(ret, get_def(rd, 'RichData.__init__'), skip_self=True)
            ok.append(ast.unparse(_strip(a['dx'])) == 'self.dx' and 'self.data' in ast.unparse(a['data']))
        return all(ok)
    g.fact('wavefrontViewsCarryOwnDx', 'prysm/propagation.py:Wavefront.intensity/.phase', wf_views)


def generate(repo):
    """everything of tools/gen_c01.py (the engine glue of both executors: which shape / samples / shift / Q component reaches
    which axis, the exponent scalars and norms of the matrix DFT, the chirp-Z index glue and chirp constants, the pad offset)
    re-emitted into `Generated.C03`, followed by the C03 items"""
    import gen_c01
    # C03 translates the fixed-sampling Q / shift glue itself (per axis, symbolically executed), so the coarser
    # `*.dispatch` items that gen_c01 emits for its own dispatch stream are skipped here (same Lean names)
    return gen_c01.generate(repo, pid='C03', extra_imports=['PrysmVerif.Num', 'PrysmVerif.Model.C03'],
                            extra=lambda g, ft, pr: c03_items(g, ft, pr, repo),
                            skip=('focus_fixed_sampling.dispatch', 'unfocus_fixed_sampling.dispatch'))


if __name__ == '__main__':
    import sys
    text, items = generate(sys.argv[1] if len(sys.argv) > 1 else '/repo')
    print(text)
    for it in items:
        print('--', it)
