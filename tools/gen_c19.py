"""translator items for C19 (ray tracing): spencer_and_murty.reflect / refract / transform_to_*_coords /
intersect / newton_raphson_solve_s / raytrace (call sites), surfaces.Surface.sag_normal,
surface_normal_from_cylindrical_derivatives, conic_sag(_der), off_axis_conic_sag/_der,
coordinates.make_rotation_matrix.

The NumPy code is batched (`(N,3)` arrays, `[:, np.newaxis]` broadcasts, `einsum('ij,ij->i')`); the translator
reads it per ray with a small typed expression language: scalar `K`, vector `V3 K`, matrix `M3 K`.
`np.sqrt` becomes the parameter `sqrt : K → K`; `np.cos(t) / np.sin(t)` become the parameters `cost sint`.
Every divisor met while translating an item is recorded, so that "this expression is evaluated without a
division by zero" can be stated as a theorem (Lean's `x / 0 = 0` would otherwise hide an IEEE `0 * inf`).
"""
import ast
from fractions import Fraction
from pyexpr2lean import Gen, Untranslatable, load, get_def, find_returns, find_calls

M = 'Model.C19'
LITS = {0, 1, 2, 3}
HEADER = ('set_option linter.unusedVariables false\nopen Model.C19\n'
          'variable {K : Type} [Add K] [Sub K] [Mul K] [Div K] [Neg K] [OfNat K 0] [OfNat K 1] [OfNat K 2] [OfNat K 3]\n')


def _n(t):
    return t.replace(' ', '').replace('(', '').replace(')', '').replace('\n', ';')


def has(src, *texts):
    """every text occurs in src, ignoring blanks and parentheses"""
    ns = _n(src)
    return all(_n(t) in ns for t in texts)


# ------------------------------------------------------------------------------------------------
# source normalisation shared by gen_c18 / gen_c19: the translator should not care about maintainer style
# ------------------------------------------------------------------------------------------------
import copy


class _Subst(ast.NodeTransformer):
    def __init__(self, mapping):
        self.mapping = mapping

    def visit_Name(self, node):
        if isinstance(node.ctx, ast.Load) and node.id in self.mapping:
            return copy.deepcopy(self.mapping[node.id])
        return node


def subst(node, mapping):
    """copy of `node` with every loaded Name in `mapping` replaced by the mapped AST"""
    return ast.fix_missing_locations(_Subst(mapping).visit(copy.deepcopy(node)))


def _body(fn):
    return [st for st in fn.body if not (isinstance(st, ast.Expr) and isinstance(st.value, ast.Constant))]


def _module_helpers(mod, exclude=()):
    """same-module functions that are straight-line: (optional) `if c: name = e` / assignments, then one `return e`"""
    out = {}
    for n in mod.body:
        if isinstance(n, ast.FunctionDef) and n.name not in exclude and not n.decorator_list and not n.args.vararg and not n.args.kwarg:
            b = _body(n)
            if b and isinstance(b[-1], ast.Return) and b[-1].value is not None and all(
                    isinstance(st, (ast.Assign, ast.AugAssign)) or (isinstance(st, ast.If) and not st.orelse and all(
                        isinstance(t, (ast.Assign, ast.AugAssign)) for t in st.body)) for st in b[:-1]):
                out[n.name] = n
    return out


def _bind(fn, call):
    """parameter name -> argument AST for `call` of `fn` (positional, keyword, defaults)"""
    params = [a.arg for a in fn.args.args]
    m = {}
    for k, a in enumerate(call.args):
        m[params[k]] = a
    for kw in call.keywords:
        m[kw.arg] = kw.value
    nd = len(fn.args.defaults)
    for k, d in enumerate(fn.args.defaults):
        m.setdefault(params[len(params) - nd + k], d)
    if set(m) != set(params):
        raise Untranslatable(f'cannot bind the arguments of {fn.name}')
    return m


def inline_helpers(fn, mod, only=None, exclude=('_multi_dot',)):
    """copy of `fn` in which calls to same-module straight-line helpers are inlined symbolically:
    * a helper that is a single `return <expr>` is substituted wherever it is called;
    * `target = helper(...)` with a multi-statement helper is replaced by the helper's statements (locals renamed, reassigned
      parameters turned into locals) followed by `target = <returned expression>`.
    `only`: predicate on the helper name (default: private helpers, i.e. names starting with `_`)."""
    helpers = _module_helpers(mod, exclude=set(exclude) | {fn.name})
    only = only or (lambda nm: nm.startswith('_'))
    fn = copy.deepcopy(fn)
    counter = [0]

    class ExprInline(ast.NodeTransformer):
        def visit_Call(self, node):
            self.generic_visit(node)
            if isinstance(node.func, ast.Name) and node.func.id in helpers and only(node.func.id):
                h = helpers[node.func.id]
                b = _body(h)
                if len(b) == 1:
                    return subst(b[0].value, _bind(h, node))
            return node

    def expand(stmts):
        out = []
        for st in stmts:
            if isinstance(st, (ast.For, ast.While, ast.If)):
                st.body = expand(st.body)
                st.orelse = expand(st.orelse)
                out.append(st)
                continue
            call = st.value if isinstance(st, (ast.Assign, ast.Return)) and isinstance(getattr(st, 'value', None), ast.Call) else None
            if call is not None and isinstance(call.func, ast.Name) and call.func.id in helpers and only(call.func.id) \
                    and len(_body(helpers[call.func.id])) > 1:
                h = helpers[call.func.id]
                b = copy.deepcopy(_body(h))
                m = _bind(h, call)
                counter[0] += 1
                stored = {n.id for x in b for n in ast.walk(x) if isinstance(n, ast.Name) and isinstance(n.ctx, ast.Store)}
                ren, pre = {}, []
                for nm in stored:
                    if nm in m and isinstance(m[nm], ast.Name):
                        ren[nm] = m[nm].id          # a reassigned parameter bound to a plain name: work on that name directly
                    else:
                        ren[nm] = f'{nm}__{h.name.strip("_")}{counter[0]}'
                        if nm in m:
                            pre.append(ast.Assign(targets=[ast.Name(id=ren[nm], ctx=ast.Store())], value=m[nm], lineno=st.lineno))
                mapping = {k: v for k, v in m.items() if k not in stored}
                mapping.update({k: ast.Name(id=v, ctx=ast.Load()) for k, v in ren.items()})

                class Ren(ast.NodeTransformer):
                    def visit_Name(self, node):
                        if isinstance(node.ctx, ast.Store) and node.id in ren:
                            return ast.Name(id=ren[node.id], ctx=ast.Store())
                        return node
                body = [ast.fix_missing_locations(Ren().visit(subst(x, mapping))) for x in b]
                ret = body.pop().value
                out += [ast.fix_missing_locations(x) for x in pre] + expand(body)
                new = copy.copy(st)
                new.value = ret
                out.append(ast.fix_missing_locations(new))
                continue
            out.append(st)
        return out

    for _ in range(4):           # helpers calling helpers
        fn = ast.fix_missing_locations(ExprInline().visit(fn))
        fn.body = expand(fn.body)
    return fn


def symexec(stmts, env=None):
    """symbolic execution of straight-line assignments: name -> AST of its final value in terms of the names that are never
    assigned (parameters, results of tuple-unpacked calls).  Conditional expressions are kept; other statements are skipped."""
    env = dict(env or {})
    for st in stmts:
        if isinstance(st, ast.Assign) and len(st.targets) == 1:
            t = st.targets[0]
            if isinstance(t, ast.Name):
                env[t.id] = subst(st.value, env)
            elif isinstance(t, ast.Tuple) and isinstance(st.value, ast.Tuple) and len(t.elts) == len(st.value.elts) \
                    and all(isinstance(e, ast.Name) for e in t.elts):
                vals = [subst(v, env) for v in st.value.elts]
                for e, v in zip(t.elts, vals):
                    env[e.id] = v
            elif isinstance(t, ast.Tuple):
                for e in t.elts:
                    if isinstance(e, ast.Name):
                        env.pop(e.id, None)          # unpacked from a call: stays an opaque name
        elif isinstance(st, ast.AugAssign) and isinstance(st.target, ast.Name):
            cur = env.get(st.target.id, ast.Name(id=st.target.id, ctx=ast.Load()))
            env[st.target.id] = ast.BinOp(left=cur, op=st.op, right=subst(st.value, env))
    return env


def dict_items(fn, name):
    """{key: value AST} of a local dict built as `name = {...}`, `name = dict(k=v)` or `name = dict(); name[k] = v`"""
    out = {}
    for n in ast.walk(fn):
        if isinstance(n, ast.Assign) and len(n.targets) == 1:
            t = n.targets[0]
            if isinstance(t, ast.Name) and t.id == name:
                if isinstance(n.value, ast.Dict):
                    out.update({k.value: v for k, v in zip(n.value.keys, n.value.values) if isinstance(k, ast.Constant)})
                elif isinstance(n.value, ast.Call) and ast.unparse(n.value.func) == 'dict':
                    out.update({k.arg: k.value for k in n.value.keywords})
            elif isinstance(t, ast.Subscript) and ast.unparse(t.value) == name and isinstance(t.slice, ast.Constant):
                out[t.slice.value] = n.value
    return out


def lit(v):
    if isinstance(v, bool):
        raise Untranslatable(f'bool literal {v}')
    if isinstance(v, float) and v == int(v):
        v = int(v)
    if isinstance(v, int):
        if v < 0:
            return f'(-{lit(-v)})'
        if v not in LITS:
            raise Untranslatable(f'literal {v} outside the supported set {sorted(LITS)}')
        return f'({v} : K)'
    if isinstance(v, float):
        fr = Fraction(repr(v))
        return f'({lit(fr.numerator)} / {lit(fr.denominator)})'
    raise Untranslatable(f'literal {v!r}')


class VTr:
    """typed expression translator; env: python text -> (lean term, type) with type in {'s','v','m'}"""

    def __init__(self, env, funcs=None, rowsel=()):
        self.env = dict(env)
        self.rowsel = set(rowsel)      # names of index arrays that merely select the active rays of the batch: x[idx] is x per ray
        self.denoms = []
        self.funcs = dict(funcs or {})     # python callee text -> callable(list of (lean, type), {kw: (lean, type)}) -> (lean, type)

    def expr(self, e):
        key = ast.unparse(e)
        if key in self.env:
            return self.env[key]
        if isinstance(e, ast.Constant):
            return lit(e.value), 's'
        if isinstance(e, ast.Name):
            raise Untranslatable(f'free name {e.id}')
        if isinstance(e, ast.UnaryOp) and isinstance(e.op, ast.USub):
            if isinstance(e.operand, ast.Constant):
                return lit(-e.operand.value), 's'
            x, t = self.expr(e.operand)
            if t == 's':
                return f'(-{x})', 's'
            if t == 'v':
                return f'(V3.smul (-(1 : K)) {x})', 'v'
        if isinstance(e, ast.Subscript):
            return self.subscript(e)
        if isinstance(e, ast.BinOp):
            return self.binop(e)
        if isinstance(e, ast.Call):
            return self.call(e)
        if isinstance(e, ast.Attribute) and e.attr == 'T':
            x, t = self.expr(e.value)
            if t == 'm':
                return f'(M3.transpose {x})', 'm'
        raise Untranslatable(f'expression {key}')

    def subscript(self, e):
        sl = _n(ast.unparse(e.slice))
        x, t = self.expr(e.value)
        if isinstance(e.slice, ast.Name) and e.slice.id in self.rowsel:
            return x, t
        if sl in (':,np.newaxis', '...,np.newaxis'):
            return x, t              # (N,) -> (N,1): broadcast of a per-ray scalar / column view of a per-ray vector
        if t == 'v' and sl in ('...,0', '...,1', '...,2', ':,0', ':,1', ':,2', '0', '1', '2'):
            k = int(sl[-1])
            return f'{x}.{"xyz"[k]}', 's'
        raise Untranslatable(f'subscript {ast.unparse(e)}')

    def binop(self, e):
        op = type(e.op)
        (a, ta), (b, tb) = self.expr(e.left), self.expr(e.right)
        if op in (ast.Add, ast.Sub):
            sym = '+' if op is ast.Add else '-'
            if ta == tb == 's':
                return f'({a} {sym} {b})', 's'
            if ta == tb == 'v':
                return f'(V3.{"add" if op is ast.Add else "sub"} {a} {b})', 'v'
        if op is ast.Mult:
            if ta == tb == 's':
                return f'({a} * {b})', 's'
            if ta == 's' and tb == 'v':
                return f'(V3.smul {a} {b})', 'v'
            if ta == 'v' and tb == 's':
                return f'(V3.smul {b} {a})', 'v'
        if op is ast.Div:
            if tb == 's':
                self.denoms.append(b)
                if ta == 's':
                    return f'({a} / {b})', 's'
                if ta == 'v':
                    return f'(V3.smul ((1 : K) / {b}) {a})', 'v'
        if op is ast.Pow and isinstance(e.right, ast.Constant) and e.right.value == 2 and ta == 's':
            return f'({a} * {a})', 's'
        raise Untranslatable(f'operator {ast.unparse(e)} on types {ta},{tb}')

    def call(self, e):
        f = ast.unparse(e.func)
        if f in self.funcs:
            return self.funcs[f]([self.expr(a) for a in e.args], {k.arg: self.expr(k.value) for k in e.keywords})
        if f == '_multi_dot' and len(e.args) == 2:
            (a, ta), (b, tb) = self.expr(e.args[0]), self.expr(e.args[1])
            if ta == tb == 'v':
                return f'(V3.dot {a} {b})', 's'
        if f in ('np.square', 'truenp.square') and len(e.args) == 1:
            x, t = self.expr(e.args[0])
            if t == 's':
                return f'({x} * {x})', 's'
        if f in ('np.sqrt', 'truenp.sqrt') and len(e.args) == 1:
            x, t = self.expr(e.args[0])
            if t == 's':
                return f'(sqrt {x})', 's'
        if f in ('np.copysign', 'truenp.copysign') and len(e.args) == 2:
            (a, ta), (b, tb) = self.expr(e.args[0]), self.expr(e.args[1])
            if ta == tb == 's':
                return f'(csgn {a} {b})', 's'
        if f in ('np.where', 'truenp.where') and len(e.args) == 3:
            c = e.args[0]
            if isinstance(c, ast.Compare) and len(c.ops) == 1 and isinstance(c.ops[0], (ast.Eq, ast.NotEq)):
                (l, tl), (r, tr_) = self.expr(c.left), self.expr(c.comparators[0])
                (a, ta), (b, tb) = self.expr(e.args[1]), self.expr(e.args[2])
                if tl == tr_ == ta == tb == 's':
                    if isinstance(c.ops[0], ast.NotEq):
                        a, b = b, a
                    return f'(if {l} = {r} then {a} else {b})', 's'
        # np.matmul(R, X[..., np.newaxis]).squeeze(-1)  ==  R applied to each row vector
        if f.endswith('.squeeze') and isinstance(e.func, ast.Attribute) and isinstance(e.func.value, ast.Call) \
                and ast.unparse(e.func.value.func) in ('np.matmul', 'truenp.matmul') and ast.unparse(e.args[0]) == '-1':
            mm = e.func.value
            (m, tm), (v, tv) = self.expr(mm.args[0]), self.expr(mm.args[1])
            if tm == 'm' and tv == 'v' and _n(ast.unparse(mm.args[1])).endswith('[...,np.newaxis]'):
                return f'(M3.mulVec {m} {v})', 'v'
        if f in ('abs', 'np.abs', 'np.absolute', 'truenp.abs', 'np.fabs') and len(e.args) == 1:
            x, t = self.expr(e.args[0])
            if t == 's':
                return f'(absK {x})', 's'
        if f in ('np.broadcast_to', 'truenp.broadcast_to') and len(e.args) == 2:
            return self.expr(e.args[0])          # a per-ray constant broadcast to the batch
        if f in ('np.array', 'np.asarray', 'truenp.array') and len(e.args) == 1 and isinstance(e.args[0], (ast.List, ast.Tuple)) \
                and len(e.args[0].elts) == 1:
            return self.expr(e.args[0].elts[0])   # `np.array([1.0], dtype=...)`: that number
        raise Untranslatable(f'call {ast.unparse(e)}')


def run_block(stmts, tr, on_if=None):
    """straight-line statements -> (list of `let` lines, return node or None).  `on_if(test_text)` -> True (take
    the body), False (skip it), None (unsupported)."""
    lets = []
    for s in stmts:
        if isinstance(s, ast.Expr) and isinstance(s.value, ast.Constant) and isinstance(s.value.value, str):
            continue
        if isinstance(s, ast.Return):
            return lets, s.value
        if isinstance(s, ast.Assign) and len(s.targets) == 1:
            tgt = s.targets[0]
            if isinstance(tgt, ast.Name):
                x, t = tr.expr(s.value)
                nm = tgt.id + '_'
                lets.append(f'let {nm} := {x}')
                tr.env[tgt.id] = (nm, t)
                continue
            if isinstance(tgt, ast.Tuple) and isinstance(s.value, ast.Call) \
                    and ast.unparse(s.value.func) in ('np.atleast_2d',) \
                    and [ast.unparse(t) for t in tgt.elts] == [ast.unparse(a) for a in s.value.args]:
                continue            # `S, r = np.atleast_2d(S, r)`: batch bookkeeping, identity per ray
            if isinstance(tgt, ast.Tuple) and isinstance(s.value, ast.Tuple) and len(tgt.elts) == len(s.value.elts):
                vals = [tr.expr(v) for v in s.value.elts]
                for t_, (x, t) in zip(tgt.elts, vals):
                    nm = t_.id + '_'
                    lets.append(f'let {nm} := {x}')
                    tr.env[t_.id] = (nm, t)
                continue
        if isinstance(s, ast.If) and on_if is not None and not s.orelse:
            take = on_if(ast.unparse(s.test))
            if take is True:
                l2, ret = run_block(s.body, tr, on_if)
                if ret is not None:
                    raise Untranslatable('return inside a conditional block')
                lets += l2
                continue
            if take is False:
                continue
        raise Untranslatable(f'statement {ast.unparse(s)[:70]}')
    return lets, None


def prune(lets, result):
    """keep only the `let`s the result depends on (respecting shadowing)"""
    import re
    ident = re.compile(r'[A-Za-z_][A-Za-z_0-9]*_(?![A-Za-z0-9_])')
    need = set(ident.findall(result))
    kept = []
    for ln in reversed(lets):
        nm, rhs = ln[4:].split(' := ', 1)
        if nm in need:
            kept.append(ln)
            need.discard(nm)
            need |= set(ident.findall(rhs))
    return list(reversed(kept))


def lean_def(name, binders, rtype, lets, result, extra=''):
    lets = prune(lets, result)
    body = ''.join(f'  {ln}\n' for ln in lets) + f'  {result}\n'
    return f'def {name} {extra}{binders} : {rtype} :=\n{body}'


class _Gen(Gen):
    """`VERIF_FORCE_FALLBACK=name1,name2|all` makes the named items untranslatable (testing aid for the fallback texts)"""

    def item(self, name, source, node_fn, build, fallback):
        import os
        forced = os.environ.get('VERIF_FORCE_FALLBACK', '').split(',')
        if name in forced or 'all' in forced:
            def build():      # noqa: F811
                raise Untranslatable('forced by VERIF_FORCE_FALLBACK')
        return super().item(name, source, node_fn, build, fallback)


def generate(repo):
    g = _Gen('C19', imports=['PrysmVerif.Model.C19'], header=HEADER)
    sm, _ = load(repo, 'prysm/x/raytracing/spencer_and_murty.py')
    sf, _ = load(repo, 'prysm/x/raytracing/surfaces.py')
    co, _ = load(repo, 'prysm/coordinates.py')

    # ---------------------------------------------------------------- _multi_dot is the row-wise dot product
    def multi_dot():
        fn = get_def(sm, '_multi_dot')
        (ret,) = find_returns(fn)
        txt = _n(ast.unparse(ret))
        # the docstring announces that the implementation may change: every row-wise dot product spelling is accepted
        ok = {"np.einsum'ij,ij->i',a,b", "np.einsum'ij,ij->i',b,a", 'np.suma*b,axis=1', 'np.sumb*a,axis=1', 'np.suma*b,axis=-1',
              'a*b.sumaxis=1', 'a*b.sumaxis=-1', 'inner1da,b', 'np.matmula[:,None,:],b[:,:,None]', 'np.matmula[:,None,:],b[:,:,None][:,0,0]',
              'np.matmula[:,None,:],b[:,:,None].squeeze'}
        return True if txt in ok else None
    g.fact('multiDotIsRowwiseDot', 'prysm/x/raytracing/spencer_and_murty.py:_multi_dot', multi_dot)

    # ---------------------------------------------------------------- reflect
    def reflect():
        fn = get_def(sm, 'reflect')
        tr = VTr({'S': ('S', 'v'), 'r': ('r', 'v')})
        lets, ret = run_block(fn.body, tr)
        x, t = tr.expr(ret)
        assert t == 'v'
        return lean_def('reflect', '(S r : V3 K)', 'V3 K', lets, x)
    g.item('reflect', 'prysm/x/raytracing/spencer_and_murty.py:reflect', lambda: get_def(sm, 'reflect'), reflect,
           f'def reflect (S r : V3 K) : V3 K := {M}.reflect S r')

    # ---------------------------------------------------------------- refract
    def refract():
        fn = get_def(sm, 'refract')
        tr = VTr({'S': ('S', 'v'), 'r': ('r', 'v'), 'n': ('n', 's'), 'nprime': ('nprime', 's')})
        lets, ret = run_block(fn.body, tr)
        x, t = tr.expr(ret)
        assert t == 'v'
        return lean_def('refract', '(sqrt : K → K) (csgn : K → K → K) (lt : K → K → Bool) (n nprime : K) (S r : V3 K)', 'V3 K', lets, x)
    g.item('refract', 'prysm/x/raytracing/spencer_and_murty.py:refract', lambda: get_def(sm, 'refract'), refract,
           f'def refract (sqrt : K → K) (csgn : K → K → K) (lt : K → K → Bool) (n nprime : K) (S r : V3 K) : V3 K :=\n'
           f'  {M}.refract sqrt lt n nprime S r')

    # ---------------------------------------------------------------- raytrace: what reflect / refract are handed
    def call_sites():
        fn = get_def(sm, 'raytrace')
        (ci,) = find_calls(fn, 'intersect')
        # `Pj, r = intersect(P0, Sj, surf.sag_normal)`
        asg = [n for n in ast.walk(fn) if isinstance(n, ast.Assign) and n.value is ci][0]
        names = [ast.unparse(t) for t in asg.targets[0].elts]
        assert len(names) == 2 and ast.unparse(ci.args[2]) == 'surf.sag_normal'
        pname, rname = names
        (cr,) = find_calls(fn, 'refract')
        (cm,) = find_calls(fn, 'reflect')
        assert len(cr.args) == 4 and len(cm.args) == 2
        # incident direction: the local direction cosines returned by transform_to_local_coords
        (cl,) = find_calls(fn, 'transform_to_local_coords')
        asl = [n for n in ast.walk(fn) if isinstance(n, ast.Assign) and n.value is cl][0]
        sname = ast.unparse(asl.targets[0].elts[1])
        assert ast.unparse(cr.args[2]) == sname and ast.unparse(cm.args[0]) == sname
        tr = VTr({rname: ('g', 'v')})
        a, ta = tr.expr(cr.args[3])
        b, tb = tr.expr(cm.args[1])
        assert ta == tb == 'v'
        return (f'def refractCallNormal (sqrt : K → K) (g : V3 K) : V3 K := {a}\n'
                f'def reflectCallNormal (sqrt : K → K) (g : V3 K) : V3 K := {b}')
    g.item('raytrace.normals', 'prysm/x/raytracing/spencer_and_murty.py:raytrace', lambda: get_def(sm, 'raytrace'),
           call_sites,
           'def refractCallNormal (sqrt : K → K) (g : V3 K) : V3 K := g\n'
           'def reflectCallNormal (sqrt : K → K) (g : V3 K) : V3 K := g')

    def refract_indices():
        fn = get_def(sm, 'raytrace')
        (cr,) = find_calls(fn, 'refract')
        ok = ast.unparse(cr.args[0]) == 'nj' and ast.unparse(cr.args[1]) == 'nprime'
        src = ast.unparse(fn)
        if not (ok and has(src, 'nprime = surf.n(wvl)', 'nj = n_ambient')):
            return None
        # the index after a refracting surface must become the index before the next one
        return True if has(src, 'nj = nprime') else False
    g.fact('refractIndicesThreaded', 'prysm/x/raytracing/spencer_and_murty.py:raytrace', refract_indices)

    def index_after():
        """the refractive index carried to the NEXT surface, per branch of `if surf.typ == REFLECT / elif REFRACT / else`, as
        assigned to `nj` in the branch (no assignment: unchanged)"""
        fn = get_def(sm, 'raytrace')
        loop = [s_ for s_ in fn.body if isinstance(s_, ast.For)][0]
        chains = [s_ for s_ in loop.body if isinstance(s_, ast.If) and 'surf.typ' in ast.unparse(s_.test)]
        if len(chains) != 1:
            raise Untranslatable('raytrace: surface-type dispatch not found')
        for s_ in loop.body:
            if s_ is not chains[0] and any(isinstance(n_, ast.Name) and n_.id == 'nj' and isinstance(n_.ctx, ast.Store) for n_ in ast.walk(s_)):
                raise Untranslatable('raytrace: nj assigned outside the surface-type dispatch')
        env = {'nj': 'nj', 'nprime': 'nprime', 'n_ambient': 'nAmbient', 'surf.n(wvl)': 'nprime'}

        def final(stmts):
            cur = 'nj'
            for st in stmts:
                stores = {n_.id for n_ in ast.walk(st) if isinstance(n_, ast.Name) and isinstance(n_.ctx, ast.Store)}
                if 'nj' in stores:
                    if not (isinstance(st, ast.Assign) and ast.unparse(st.targets[0]) == 'nj' and ast.unparse(st.value) in env):
                        raise Untranslatable(f'raytrace: index update {ast.unparse(st)[:60]}')
                    cur = env[ast.unparse(st.value)]
            return cur
        node, out = chains[0], {}
        while True:
            t = ast.unparse(node.test)
            key = 'reflect' if 'REFLECT' in t.upper() else 'refract' if 'REFRACT' in t.upper() else None
            if key is None or key in out or not t.startswith('surf.typ =='):
                raise Untranslatable(f'raytrace: dispatch test {t}')
            out[key] = final(node.body)
            if len(node.orelse) == 1 and isinstance(node.orelse[0], ast.If) and 'surf.typ' in ast.unparse(node.orelse[0].test):
                node = node.orelse[0]
                continue
            out['else'] = final(node.orelse)
            break
        if set(out) != {'reflect', 'refract', 'else'}:
            raise Untranslatable('raytrace: dispatch branches')
        return ('def indexAfter (isReflect isRefract : Bool) (nAmbient nj nprime : K) : K :=\n'
                f"  if isReflect then {out['reflect']} else if isRefract then {out['refract']} else {out['else']}")
    g.item('raytrace.index', 'prysm/x/raytracing/spencer_and_murty.py:raytrace (index carried to the next surface)',
           lambda: get_def(sm, 'raytrace'), index_after,
           'def indexAfter (isReflect isRefract : Bool) (nAmbient nj nprime : K) : K := if isRefract && !isReflect then nprime else nj')

    def frames_wiring():
        fn = get_def(sm, 'raytrace')
        (cl,) = find_calls(fn, 'transform_to_local_coords')
        (cg,) = find_calls(fn, 'transform_to_global_coords')
        # local leg: (point, surf.P, direction, surf.R); global leg: (point, surf.P, direction, <name>) with <name> = surf.R.T
        if not (len(cl.args) == 4 and ast.unparse(cl.args[1]) == 'surf.P' and len(cg.args) == 4 and ast.unparse(cg.args[1]) == 'surf.P'
                and isinstance(cg.args[3], ast.Name)):
            return None
        if ast.unparse(cl.args[3]) != 'surf.R':
            return False
        rt = cg.args[3].id
        vals = []
        for n in ast.walk(fn):
            if isinstance(n, ast.Assign) and ast.unparse(n.targets[0]) == rt:
                if isinstance(n.value, ast.IfExp):
                    if _n(ast.unparse(n.value.test)) not in ('surf.RisNone', 'surf.RisnotNone'):
                        return None
                    vals += [_n(ast.unparse(n.value.body)), _n(ast.unparse(n.value.orelse))]
                else:
                    vals.append(_n(ast.unparse(n.value)))
        if sorted(vals) == ['None', 'surf.R.T'] or vals == ['surf.R.T']:
            return True
        if 'surf.R' in vals:
            return False        # the global leg is handed the matrix itself: not the inverse rotation
        return None
    g.fact('globalLegUsesTranspose', 'prysm/x/raytracing/spencer_and_murty.py:raytrace', frames_wiring)

    # ---------------------------------------------------------------- frames
    def frame(fname, pre):
        def build():
            fn = inline_helpers(get_def(sm, fname), sm)
            out = []
            for withR in (True, False):
                tr = VTr({'XYZ': ('X', 'v'), 'P': ('P', 'v'), 'S': ('S', 'v'), 'R': ('R', 'm')})
                lets, ret = run_block(fn.body, tr, on_if=lambda t: withR if t == 'R is not None' else None)
                assert isinstance(ret, ast.Tuple) and len(ret.elts) == 2
                (x, tx), (s, ts) = tr.expr(ret.elts[0]), tr.expr(ret.elts[1])
                assert tx == ts == 'v'
                suffix = '' if withR else 'NoR'
                rb = '(R : M3 K) ' if withR else ''
                out.append(lean_def(f'{pre}P{suffix}', f'(P : V3 K) {rb}(X S : V3 K)', 'V3 K', lets, x))
                out.append(lean_def(f'{pre}S{suffix}', f'(P : V3 K) {rb}(X S : V3 K)', 'V3 K', lets, s))
            return '\n'.join(out)
        return build

    def frame_fallback(pre, mp, ms):
        return (f'def {pre}P (P : V3 K) (R : M3 K) (X S : V3 K) : V3 K := {mp} P (some R) X\n'
                f'def {pre}S (P : V3 K) (R : M3 K) (X S : V3 K) : V3 K := {ms} (some R) S\n'
                f'def {pre}PNoR (P : V3 K) (X S : V3 K) : V3 K := {mp} P none X\n'
                f'def {pre}SNoR (P : V3 K) (X S : V3 K) : V3 K := {ms} none S')
    g.item('transform_to_local_coords', 'prysm/x/raytracing/spencer_and_murty.py:transform_to_local_coords',
           lambda: get_def(sm, 'transform_to_local_coords'), frame('transform_to_local_coords', 'toLocal'),
           frame_fallback('toLocal', f'{M}.toLocalP', f'{M}.toLocalS'))
    # the global leg is handed R.T by raytrace (fact above); here R is whatever matrix the function receives
    g.item('transform_to_global_coords', 'prysm/x/raytracing/spencer_and_murty.py:transform_to_global_coords',
           lambda: get_def(sm, 'transform_to_global_coords'), frame('transform_to_global_coords', 'toGlobal'),
           (f'def toGlobalP (P : V3 K) (R : M3 K) (X S : V3 K) : V3 K := V3.add (M3.mulVec R X) P\n'
            f'def toGlobalS (P : V3 K) (R : M3 K) (X S : V3 K) : V3 K := M3.mulVec R S\n'
            f'def toGlobalPNoR (P : V3 K) (X S : V3 K) : V3 K := V3.add X P\n'
            f'def toGlobalSNoR (P : V3 K) (X S : V3 K) : V3 K := S'))

    # ---------------------------------------------------------------- make_rotation_matrix
    def rotation():
        fn = get_def(co, 'make_rotation_matrix')
        src = ast.unparse(fn)
        assert has(src, 'gamma, beta, alpha = zyx')
        env = {}
        for k, ang in (('1', 'alpha'), ('2', 'beta'), ('3', 'gamma')):
            assert has(src, f'cos{k} = truenp.cos({ang})', f'sin{k} = truenp.sin({ang})')
            env[f'cos{k}'] = (f'c{k}', 's')
            env[f'sin{k}'] = (f's{k}', 's')
        mats = {}
        for n in ast.walk(fn):
            if isinstance(n, ast.Assign) and isinstance(n.targets[0], ast.Name) and n.targets[0].id in ('Rx', 'Ry', 'Rz'):
                lst = n.value.args[0]
                rows = []
                for row in lst.elts:
                    cells = [VTr(env).expr(c)[0] for c in row.elts]
                    assert len(cells) == 3
                    rows.append('⟨' + ', '.join(cells) + '⟩')
                assert len(rows) == 3
                mats[n.targets[0].id] = '(⟨' + ', '.join(rows) + '⟩ : M3 K)'
        prod = [n for n in ast.walk(fn) if isinstance(n, ast.Assign) and ast.unparse(n.targets[0]) == 'm'][0].value

        def mm(e):
            if isinstance(e, ast.BinOp) and isinstance(e.op, ast.MatMult):
                return f'(M3.mul {mm(e.left)} {mm(e.right)})'
            return mats[e.id]
        (ret,) = find_returns(fn)
        assert ast.unparse(ret) == 'm'
        return f'def rotation (c1 s1 c2 s2 c3 s3 : K) : M3 K :=\n  {mm(prod)}\n'
    g.item('make_rotation_matrix', 'prysm/coordinates.py:make_rotation_matrix',
           lambda: get_def(co, 'make_rotation_matrix'), rotation,
           f'def rotation (c1 s1 c2 s2 c3 s3 : K) : M3 K := {M}.rotation c1 s1 c2 s2 c3 s3')

    # ---------------------------------------------------------------- Surface.sag_normal
    def sag_normal():
        fn = get_def(sf, 'Surface.sag_normal')
        b = _body(fn)
        first = b[0]
        assert isinstance(first, ast.Assign) and isinstance(first.targets[0], ast.Tuple) and len(first.targets[0].elts) == 3 \
            and ast.unparse(first.value) == 'self.FFp(x, y)'
        zn, fxn, fyn = [e.id for e in first.targets[0].elts]
        env = symexec(b[1:])
        (ret,) = find_returns(fn)
        ret = subst(ret, env)
        assert isinstance(ret, ast.Tuple) and len(ret.elts) == 2 and ast.unparse(ret.elts[0]) == zn
        der = ret.elts[1]
        assert ast.unparse(der.func) in ('np.stack', 'truenp.stack') and ast.unparse(der.keywords[0].value) == '1'
        tr = VTr({fxn: ('fx', 's'), fyn: ('fy', 's')})
        cells = [tr.expr(c)[0] for c in der.args[0].elts]
        assert len(cells) == 3
        return f'def normalOfGrad (fx fy : K) : V3 K := ⟨{cells[0]}, {cells[1]}, {cells[2]}⟩'
    g.item('Surface.sag_normal', 'prysm/x/raytracing/surfaces.py:Surface.sag_normal',
           lambda: get_def(sf, 'Surface.sag_normal'), sag_normal,
           f'def normalOfGrad (fx fy : K) : V3 K := {M}.normalOfGrad fx fy')

    # ---------------------------------------------------------------- polar -> Cartesian gradient
    def cyl():
        fn = get_def(sf, 'surface_normal_from_cylindrical_derivatives')
        tr = VTr({'fp': ('fp', 's'), 'ft': ('ft', 's'), 'r': ('r', 's'),
                  'np.cos(t)': ('cost', 's'), 'np.sin(t)': ('sint', 's')})
        lets, ret = run_block(fn.body, tr)
        assert isinstance(ret, ast.Tuple) and len(ret.elts) == 2
        x, y = tr.expr(ret.elts[0])[0], tr.expr(ret.elts[1])[0]
        den = []
        for d in tr.denoms:
            if d not in den:
                den.append(d)
        b = '[DecidableEq K] (fp ft r cost sint : K)'
        return (lean_def('cylNormalX', b, 'K', lets, x) + '\n' + lean_def('cylNormalY', b, 'K', lets, y) + '\n'
                + lean_def('cylNormalDenoms', b, 'List K', lets, '[' + ', '.join(den) + ']'))
    g.item('surface_normal_from_cylindrical_derivatives',
           'prysm/x/raytracing/surfaces.py:surface_normal_from_cylindrical_derivatives',
           lambda: get_def(sf, 'surface_normal_from_cylindrical_derivatives'), cyl,
           (f'def cylNormalX [DecidableEq K] (fp ft r cost sint : K) : K := ({M}.cylNormalTotal (fun r => decide (r = 0)) fp ft r cost sint).1\n'
            f'def cylNormalY [DecidableEq K] (fp ft r cost sint : K) : K := ({M}.cylNormalTotal (fun r => decide (r = 0)) fp ft r cost sint).2\n'
            f'def cylNormalDenoms [DecidableEq K] (fp ft r cost sint : K) : List K := [if r = 0 then 1 else r]'))

    def conic_ffp():
        fn = get_def(sf, 'Surface.conic')
        ffp = [n for n in fn.body if isinstance(n, ast.FunctionDef) and n.name == 'FFp'][0]
        pm = dict_items(fn, 'params')
        if not (set(pm) >= {'c', 'k'} and ast.unparse(pm['c']) == 'c' and ast.unparse(pm['k']) == 'k'):
            return None
        b = _body(ffp)
        if not (isinstance(b[0], ast.Assign) and has(ast.unparse(b[0]), 'r, t = cart_to_polar(x, y, vec_to_grid=False)')):
            return None
        env = symexec(b[1:])
        (ret,) = find_returns(ffp)
        ret = subst(ret, env)
        # the gradient comes out of one tuple-unpacked call: find it
        calls = [st for st in b if isinstance(st, ast.Assign) and isinstance(st.targets[0], ast.Tuple) and isinstance(st.value, ast.Call)
                 and ast.unparse(st.value.func) == 'surface_normal_from_cylindrical_derivatives']
        if not (isinstance(ret, ast.Tuple) and len(ret.elts) == 3 and len(calls) == 1):
            return None
        gx, gy = [e.id for e in calls[0].targets[0].elts]
        args = [_n(ast.unparse(subst(a, env))) for a in calls[0].value.args]
        z = _n(ast.unparse(ret.elts[0]))
        if [ast.unparse(e) for e in ret.elts[1:]] != [gx, gy]:
            return None
        live_z, live_d = _n("conic_sag(params['c'], params['k'], r * r)"), _n("conic_sag_der(params['c'], params['k'], r)")
        frozen_z, frozen_d = _n('conic_sag(c, k, r * r)'), _n('conic_sag_der(c, k, r)')
        if args[2:] != ['r', 't'] or z not in (live_z, frozen_z) or args[0] not in (live_d, frozen_d):
            return None
        if (z == live_z) != (args[0] == live_d):
            return False        # sag and slope read DIFFERENT copies of (c, k): they disagree once surf.params is modified
        return args[1] == '0'          # a rotationally symmetric surface has no azimuthal derivative
    g.fact('conicUsesSagDerAndZeroAzimuthal', 'prysm/x/raytracing/surfaces.py:Surface.conic', conic_ffp)

    # ---------------------------------------------------------------- conic sag and derivative (phi=None branch)
    def conic():
        out = []
        for fname, lname, args in (('conic_sag', 'conicSag', {'rhosq': ('rhosq', 's')}),
                                   ('conic_sag_der', 'conicSagDer', {'rho': ('rho', 's')})):
            fn = get_def(sf, fname)
            tr = VTr({'c': ('c', 's'), 'kappa': ('kappa', 's'), **args})
            lets, ret = run_block(fn.body, tr, on_if=lambda t: True if t == 'phi is None' else None)
            x, _ = tr.expr(ret)
            arg = list(args)[0]
            out.append(lean_def(lname, f'(sqrt : K → K) (c kappa {arg} : K)', 'K', lets, x))
        return '\n'.join(out)
    g.item('conic_sag', 'prysm/x/raytracing/surfaces.py:conic_sag,conic_sag_der',
           lambda: ast.Module(body=[get_def(sf, 'conic_sag'), get_def(sf, 'conic_sag_der')], type_ignores=[]), conic,
           (f'def conicSag (sqrt : K → K) (c kappa rhosq : K) : K := {M}.conicSag c rhosq (sqrt ({M}.phiSq c kappa rhosq))\n'
            f'def conicSagDer (sqrt : K → K) (c kappa rho : K) : K := {M}.conicSagDer c rho (sqrt ({M}.phiSq c kappa (rho * rho)))'))

    # ---------------------------------------------------------------- phi_spheroid, conic_sag with phi given, and the
    # closure Surface.off_axis_conic.FFp (Cartesian form; the polar form is not translated: fallback = hand model)
    def phi_and_sagphi():
        fn = get_def(sf, 'phi_spheroid')
        tr = VTr({'c': ('c', 's'), 'k': ('k', 's'), 'rhosq': ('rhosq', 's')})
        lets, ret = run_block(fn.body, tr)
        a = lean_def('phiSpheroid', '(sqrt : K → K) (c k rhosq : K)', 'K', lets, tr.expr(ret)[0])
        fn = get_def(sf, 'conic_sag')
        tr = VTr({'c': ('c', 's'), 'kappa': ('kappa', 's'), 'rhosq': ('rhosq', 's'), 'phi': ('phi', 's')})
        lets, ret = run_block(fn.body, tr, on_if=lambda t: False if t == 'phi is None' else None)
        b = lean_def('conicSagPhi', '(c kappa rhosq phi : K)', 'K', lets, tr.expr(ret)[0])
        return a + '\n' + b
    g.item('phi_spheroid', 'prysm/x/raytracing/surfaces.py:phi_spheroid,conic_sag',
           lambda: ast.Module(body=[get_def(sf, 'phi_spheroid'), get_def(sf, 'conic_sag')], type_ignores=[]),
           phi_and_sagphi,
           (f'def phiSpheroid (sqrt : K → K) (c k rhosq : K) : K := sqrt ({M}.phiSq c k rhosq)\n'
            f'def conicSagPhi (c kappa rhosq phi : K) : K := {M}.conicSag c rhosq phi'))

    def offaxis_ffp():
        fn = get_def(sf, 'Surface.off_axis_conic')
        ffp = [n for n in fn.body if isinstance(n, ast.FunctionDef) and n.name == 'FFp'][0]
        assert [a.arg for a in ffp.args.args] == ['x', 'y']
        src = ast.unparse(fn)
        pm = dict_items(fn, 'params')
        assert {k_: ast.unparse(v_) for k_, v_ in pm.items()} == {'c': 'c', 'k': 'k', 'dx': 'dx', 'dy': 'dy'}
        env = {'x': ('x', 's'), 'y': ('y', 's'), "params['c']": ('c', 's'), "params['k']": ('k', 's'),
               "params['dx']": ('dx', 's'), "params['dy']": ('dy', 's')}
        funcs = {'phi_spheroid': lambda a, kw: (f'(phiSpheroid sqrt {a[0][0]} {a[1][0]} {a[2][0]})', 's'),
                 'conic_sag': lambda a, kw: (f'(conicSagPhi {a[0][0]} {a[1][0]} {a[2][0]} {kw["phi"][0]})', 's')}
        tr = VTr(env, funcs)
        stmts = [s for s in ffp.body if not (isinstance(s, ast.If) and isinstance(s.body[0], ast.Raise))]
        lets, ret = run_block(stmts, tr)
        assert isinstance(ret, ast.Tuple) and len(ret.elts) == 3
        b = '(sqrt : K → K) (c k dx dy x y : K)'
        return '\n'.join(lean_def(f'offAxisFFp{nm}', b, 'K', lets, tr.expr(e)[0]) for nm, e in zip('ZXY', ret.elts))
    b = '(sqrt : K → K) (c k dx dy x y : K)'
    g.item('Surface.off_axis_conic.FFp', 'prysm/x/raytracing/surfaces.py:Surface.off_axis_conic',
           lambda: get_def(sf, 'Surface.off_axis_conic'), offaxis_ffp,
           (f'def offAxisFFpZ {b} : K := ({M}.sagGrad sqrt (.offAxis c k dx dy) x y).1\n'
            f'def offAxisFFpX {b} : K := ({M}.sagGrad sqrt (.offAxis c k dx dy) x y).2.1\n'
            f'def offAxisFFpY {b} : K := ({M}.sagGrad sqrt (.offAxis c k dx dy) x y).2.2'))

    # ---------------------------------------------------------------- off-axis conic: aggregate term, sag, derivatives
    def offaxis():
        out = []
        for branch, take in (('Dx', True), ('Dy', False)):
            def on_if(t, take=take):
                if t == 'dy != 0 and dx != 0':
                    return False
                return None
            for fname, lname in (('off_axis_conic_sag', 'offAxisSag'), ('off_axis_conic_der', 'offAxisDer')):
                fn = get_def(sf, fname)
                stmts = []
                for s in fn.body:
                    if isinstance(s, ast.If) and ast.unparse(s.test) == 'dx != 0' and s.orelse:
                        stmts += (s.body if take else s.orelse)
                    else:
                        stmts.append(s)
                tr = VTr({'c': ('c', 's'), 'kappa': ('kappa', 's'), 'r': ('r', 's'),
                          'dx': ('s', 's'), 'dy': ('s', 's'),
                          'np.cos(t)': ('cost', 's'), 'np.sin(t)': ('sint', 's')})
                lets, ret = run_block(stmts, tr, on_if=on_if)
                b = '(sqrt : K → K) (c kappa r cost sint s : K)'
                if isinstance(ret, ast.Tuple):
                    for e, suf in zip(ret.elts, ('R', 'T')):
                        out.append(lean_def(f'{lname}{suf}{branch}', b, 'K', lets, tr.expr(e)[0]))
                else:
                    out.append(lean_def(f'{lname}{branch}', b, 'K', lets, tr.expr(ret)[0]))
        return '\n'.join(out)

    def offaxis_fallback():
        out = []
        for branch, (xs, ys) in (('Dx', ('(r * cost + s)', '(r * sint)')), ('Dy', ('(r * cost)', '(r * sint + s)'))):
            b = '(sqrt : K → K) (c kappa r cost sint s : K)'
            agg = f'({xs} * {xs} + {ys} * {ys})'
            phi = f'(sqrt ({M}.phiSq c kappa {agg}))'
            out.append(f'def offAxisSag{branch} {b} : K := {M}.conicSag c {agg} {phi}')
            out.append(f'def offAxisDerR{branch} {b} : K := (c * {xs} / {phi}) * cost + (c * {ys} / {phi}) * sint')
            out.append(f'def offAxisDerT{branch} {b} : K := r * ((c * {ys} / {phi}) * cost - (c * {xs} / {phi}) * sint)')
        return '\n'.join(out)
    g.item('off_axis_conic', 'prysm/x/raytracing/surfaces.py:off_axis_conic_sag,off_axis_conic_der',
           lambda: ast.Module(body=[get_def(sf, 'off_axis_conic_sag'), get_def(sf, 'off_axis_conic_der')], type_ignores=[]),
           offaxis, offaxis_fallback())

    # ---------------------------------------------------------------- intersection
    def vertex_plane():
        fn = get_def(sm, 'intersect')
        src = ast.unparse(fn)
        assert has(src, 'Z0 = P0[..., 2]', 'm = S[..., 2]', 's0 = -Z0 / m')
        tr = VTr({'P0': ('P0', 'v'), 'S': ('S', 'v')})
        stmts = [s for s in fn.body if isinstance(s, ast.Assign) and ast.unparse(s.targets[0]) in ('Z0', 'm', 's0', 'P1')]
        lets, _ = run_block(stmts, tr)
        (ret,) = find_returns(fn)
        assert ast.unparse(ret) == 'newton_raphson_solve_s(P1, S, FFp, s1, eps, maxiter)'
        return lean_def('toVertexPlane', '(P0 S : V3 K)', 'V3 K', lets, tr.env['P1'][0])
    g.item('intersect', 'prysm/x/raytracing/spencer_and_murty.py:intersect', lambda: get_def(sm, 'intersect'),
           vertex_plane, f'def toVertexPlane (P0 S : V3 K) : V3 K := {M}.toVertexPlane P0 S')

    def newton_start():
        fn = get_def(sm, 'intersect')
        (ret,) = find_returns(fn)
        if not (isinstance(ret, ast.Call) and ast.unparse(ret.func) == 'newton_raphson_solve_s' and len(ret.args) >= 4):
            return None
        a0, a3 = ast.unparse(ret.args[0]), _n(ast.unparse(ret.args[3]))
        if a0 == 'P1' and a3 == 's1':
            return True          # Newton runs in the surface frame from the vertex-plane point, with the caller's guess
        if a0 == 'P0':
            return False         # Newton would run from the (possibly very distant) ray origin: s ~ distance, residual ~ ulp(distance)
        return None
    g.fact('newtonStartsOnVertexPlane', 'prysm/x/raytracing/spencer_and_murty.py:intersect', newton_start)

    def newton():
        fn = get_def(sm, 'newton_raphson_solve_s')
        loop = [n for n in fn.body if isinstance(n, ast.For)][0]
        # the index array of the rays still iterating: `<name> = np.arange(nrays)` before the loop
        act = [st.targets[0].id for st in fn.body if isinstance(st, ast.Assign) and isinstance(st.targets[0], ast.Name)
               and _n(ast.unparse(st.value)) == 'np.arangenrays']
        assert len(act) == 1
        act = act[0]
        # `sag, r = FFp(X, Y)`: the only tuple-unpacked call of the loop
        ffp = [st for st in loop.body if isinstance(st, ast.Assign) and isinstance(st.targets[0], ast.Tuple)
               and isinstance(st.value, ast.Call) and ast.unparse(st.value.func) == 'FFp']
        assert len(ffp) == 1 and len(ffp[0].targets[0].elts) == 2
        sagn, rn = [e.id for e in ffp[0].targets[0].elts]
        k_ffp = loop.body.index(ffp[0])
        env0 = symexec(loop.body[:k_ffp])
        fargs = [subst(a, env0) for a in ffp[0].value.args]
        env = symexec(loop.body[k_ffp + 1:], env0)
        # the point: the first argument pair of FFp are its x and y components
        tr = VTr({'P1': ('P1', 'v'), 'S': ('S', 'v'), 'sj': ('sj', 's'), sagn: ('sag', 's'), rn: ('r', 'v')}, rowsel={act})
        # find the names by their roles: the converged test is the only comparison with `eps`
        conv = [(nm, v) for nm, v in env.items() if isinstance(v, ast.Compare) and 'eps' in ast.unparse(v)]
        assert len(conv) == 1
        convn, cmpv = conv[0]
        assert isinstance(cmpv.ops[0], ast.Lt) and len(cmpv.ops) == 1
        delta_ast, tol_ast = cmpv.left, cmpv.comparators[0]
        # tolerance = eps * np.maximum(1, |Pj|.max(axis=1)) in either order
        assert isinstance(tol_ast, ast.BinOp) and isinstance(tol_ast.op, ast.Mult)
        sc = tol_ast.right if ast.unparse(tol_ast.left) == 'eps' else tol_ast.left
        assert ast.unparse(tol_ast.left) == 'eps' or ast.unparse(tol_ast.right) == 'eps'
        assert isinstance(sc, ast.Call) and ast.unparse(sc.func) in ('np.maximum', 'truenp.maximum') and ast.unparse(sc.args[0]) in ('1', '1.0')
        mx = sc.args[1]
        assert isinstance(mx, ast.Call) and isinstance(mx.func, ast.Attribute) and mx.func.attr == 'max' \
            and _n(ast.unparse(mx.keywords[0].value)) in ('1', '-1') and isinstance(mx.func.value, ast.Call) \
            and ast.unparse(mx.func.value.func) in ('abs', 'np.abs', 'np.absolute')
        point_ast = mx.func.value.args[0]
        Pj, tP = tr.expr(point_ast)
        assert tP == 'v'
        assert tr.expr(fargs[0])[0] == f'{Pj}.x' and tr.expr(fargs[1])[0] == f'{Pj}.y'
        # delta = |s_next - s|
        assert isinstance(delta_ast, ast.Call) and ast.unparse(delta_ast.func) in ('abs', 'np.abs', 'np.absolute')
        diff = delta_ast.args[0]
        assert isinstance(diff, ast.BinOp) and isinstance(diff.op, ast.Sub) and tr.expr(diff.right)[0] == 'sj'
        nxt = diff.left
        assert isinstance(nxt, ast.BinOp) and isinstance(nxt.op, ast.Sub) and tr.expr(nxt.left)[0] == 'sj' \
            and isinstance(nxt.right, ast.BinOp) and isinstance(nxt.right.op, ast.Div)
        F, Fp = tr.expr(nxt.right.left)[0], tr.expr(nxt.right.right)[0]
        snext, delta = tr.expr(nxt)[0], tr.expr(delta_ast)[0]
        # bookkeeping, by role: s[active] = s_next; finished = active[conv]; outputs take the PRE-update point and its normal
        src = _n(ast.unparse(loop))
        nxtn = [nm for nm, v in env.items() if ast.dump(v) == ast.dump(nxt)][0]
        ptn = [nm for nm, v in env.items() if ast.dump(v) == ast.dump(point_ast)][0]
        fin = [nm for nm, v in env.items() if _n(ast.unparse(v)) == _n(f'{act}[{ast.unparse(cmpv)}]')]
        assert len(fin) == 1
        assert _n(f'sj[{act}] = {nxtn}') in src and _n(f'Pj_out[{fin[0]}] = {ptn}[{convn}]') in src \
            and _n(f'r_out[{fin[0]}] = {rn}[{convn}]') in src and _n(f'{act} = {act}[~{convn}]') in src
        b = '(absK : K → K) (P1 S : V3 K) (sj sag : K) (r : V3 K)'
        return (f'def newtonPoint {b} : V3 K := {Pj}\n'
                f'def newtonF {b} : K := {F}\n'
                f'def newtonFp {b} : K := {Fp}\n'
                f'def newtonNext {b} : K := {snext}\n'
                f'def newtonDelta {b} : K := {delta}\n'
                # `np.maximum(1, abs(Pj).max(axis=1))`, read per ray (shape recognised above)
                'def newtonScale (absK : K → K) (maxK : K → K → K) (P : V3 K) : K := '
                'maxK (1 : K) (maxK (maxK (absK P.x) (absK P.y)) (absK P.z))')
    b = '(absK : K → K) (P1 S : V3 K) (sj sag : K) (r : V3 K)'
    g.item('newton_raphson_solve_s', 'prysm/x/raytracing/spencer_and_murty.py:newton_raphson_solve_s',
           lambda: get_def(sm, 'newton_raphson_solve_s'), newton,
           (f'def newtonPoint {b} : V3 K := V3.add P1 (V3.smul sj S)\n'
            f'def newtonF {b} : K := (V3.add P1 (V3.smul sj S)).z - sag\n'
            f'def newtonFp {b} : K := V3.dot S r\n'
            f'def newtonNext {b} : K := sj - ((V3.add P1 (V3.smul sj S)).z - sag) / V3.dot S r\n'
            f'def newtonDelta {b} : K := absK (sj - ((V3.add P1 (V3.smul sj S)).z - sag) / V3.dot S r - sj)\n'
            'def newtonScale (absK : K → K) (maxK : K → K → K) (P : V3 K) : K := '
            'maxK (1 : K) (maxK (maxK (absK P.x) (absK P.y)) (absK P.z))'))

    return g.finish()


if __name__ == '__main__':
    import sys
    text, items = generate(sys.argv[1] if len(sys.argv) > 1 else '/repo')
    print(text)
    for it in items:
        print('--', it)
