"""translator items for C19 (ray tracing): spencer_and_murty.reflect / refract / transform_to_*_coords /
intersect / newton_raphson_solve_s / raytrace (call sites), surfaces.Surface.sag_normal,
surface_normal_from_cylindrical_derivatives, conic_sag(_der), off_axis_conic_sag/_der,
coordinates.make_rotation_matrix.

The NumPy code is batched (`(N,3)` arrays, `[:, np.newaxis]` broadcasts, `einsum('ij,ij->i')`); the translator
reads it per ray with a small typed expression language: scalar `K`, vector `V3 K`, matrix `M3 K`.
`np.sqrt` becomes the parameter `sqrt : K → K`; `np.cos(t) / np.sin(t)` become the parameters `cost sint`.
Every divisor met while translating an item is recorded, so that "this expression is evaluated without a
division by zero" can be stated as a theorem (Lean's `x / 0 = 0` would otherwise hide an IEEE `0 * inf`).
"""
import ast
from fractions import Fraction
from pyexpr2lean import Gen, Untranslatable, load, get_def, find_returns, find_calls

M = 'Model.C19'
LITS = {0, 1, 2, 3}
HEADER = ('set_option linter.unusedVariables false\nopen Model.C19\n'
          'variable {K : Type} [Add K] [Sub K] [Mul K] [Div K] [Neg K] [OfNat K 0] [OfNat K 1] [OfNat K 2] [OfNat K 3]\n')


def _n(t):
    return t.replace(' ', '').replace('(', '').replace(')', '').replace('\n', ';')


def has(src, *texts):
    """every text occurs in src, ignoring blanks and parentheses"""
    ns = _n(src)
    return all(_n(t) in ns for t in texts)


def lit(v):
    if isinstance(v, bool):
        raise Untranslatable(f'bool literal {v}')
    if isinstance(v, float) and v == int(v):
        v = int(v)
    if isinstance(v, int):
        if v < 0:
            return f'(-{lit(-v)})'
        if v not in LITS:
            raise Untranslatable(f'literal {v} outside the supported set {sorted(LITS)}')
        return f'({v} : K)'
    if isinstance(v, float):
        fr = Fraction(repr(v))
        return f'({lit(fr.numerator)} / {lit(fr.denominator)})'
    raise Untranslatable(f'literal {v!r}')


class VTr:
    """typed expression translator; env: python text -> (lean term, type) with type in {'s','v','m'}"""

    def __init__(self, env, funcs=None):
        self.env = dict(env)
        self.denoms = []
        self.funcs = dict(funcs or {})     # python callee text -> callable(list of (lean, type), {kw: (lean, type)}) -> (lean, type)

    def expr(self, e):
        key = ast.unparse(e)
        if key in self.env:
            return self.env[key]
        if isinstance(e, ast.Constant):
            return lit(e.value), 's'
        if isinstance(e, ast.Name):
            raise Untranslatable(f'free name {e.id}')
        if isinstance(e, ast.UnaryOp) and isinstance(e.op, ast.USub):
            if isinstance(e.operand, ast.Constant):
                return lit(-e.operand.value), 's'
            x, t = self.expr(e.operand)
            if t == 's':
                return f'(-{x})', 's'
            if t == 'v':
                return f'(V3.smul (-(1 : K)) {x})', 'v'
        if isinstance(e, ast.Subscript):
            return self.subscript(e)
        if isinstance(e, ast.BinOp):
            return self.binop(e)
        if isinstance(e, ast.Call):
            return self.call(e)
        if isinstance(e, ast.Attribute) and e.attr == 'T':
            x, t = self.expr(e.value)
            if t == 'm':
                return f'(M3.transpose {x})', 'm'
        raise Untranslatable(f'expression {key}')

    def subscript(self, e):
        sl = _n(ast.unparse(e.slice))
        x, t = self.expr(e.value)
        if sl in (':,np.newaxis', '...,np.newaxis'):
            return x, t              # (N,) -> (N,1): broadcast of a per-ray scalar / column view of a per-ray vector
        if t == 'v' and sl in ('...,0', '...,1', '...,2', ':,0', ':,1', ':,2', '0', '1', '2'):
            k = int(sl[-1])
            return f'{x}.{"xyz"[k]}', 's'
        raise Untranslatable(f'subscript {ast.unparse(e)}')

    def binop(self, e):
        op = type(e.op)
        (a, ta), (b, tb) = self.expr(e.left), self.expr(e.right)
        if op in (ast.Add, ast.Sub):
            sym = '+' if op is ast.Add else '-'
            if ta == tb == 's':
                return f'({a} {sym} {b})', 's'
            if ta == tb == 'v':
                return f'(V3.{"add" if op is ast.Add else "sub"} {a} {b})', 'v'
        if op is ast.Mult:
            if ta == tb == 's':
                return f'({a} * {b})', 's'
            if ta == 's' and tb == 'v':
                return f'(V3.smul {a} {b})', 'v'
            if ta == 'v' and tb == 's':
                return f'(V3.smul {b} {a})', 'v'
        if op is ast.Div:
            if tb == 's':
                self.denoms.append(b)
                if ta == 's':
                    return f'({a} / {b})', 's'
                if ta == 'v':
                    return f'(V3.smul ((1 : K) / {b}) {a})', 'v'
        if op is ast.Pow and isinstance(e.right, ast.Constant) and e.right.value == 2 and ta == 's':
            return f'({a} * {a})', 's'
        raise Untranslatable(f'operator {ast.unparse(e)} on types {ta},{tb}')

    def call(self, e):
        f = ast.unparse(e.func)
        if f in self.funcs:
            return self.funcs[f]([self.expr(a) for a in e.args], {k.arg: self.expr(k.value) for k in e.keywords})
        if f == '_multi_dot' and len(e.args) == 2:
            (a, ta), (b, tb) = self.expr(e.args[0]), self.expr(e.args[1])
            if ta == tb == 'v':
                return f'(V3.dot {a} {b})', 's'
        if f in ('np.sqrt', 'truenp.sqrt') and len(e.args) == 1:
            x, t = self.expr(e.args[0])
            if t == 's':
                return f'(sqrt {x})', 's'
        if f in ('np.copysign', 'truenp.copysign') and len(e.args) == 2:
            (a, ta), (b, tb) = self.expr(e.args[0]), self.expr(e.args[1])
            if ta == tb == 's':
                return f'(csgn {a} {b})', 's'
        if f in ('np.where', 'truenp.where') and len(e.args) == 3:
            c = e.args[0]
            if isinstance(c, ast.Compare) and len(c.ops) == 1 and isinstance(c.ops[0], (ast.Eq, ast.NotEq)):
                (l, tl), (r, tr_) = self.expr(c.left), self.expr(c.comparators[0])
                (a, ta), (b, tb) = self.expr(e.args[1]), self.expr(e.args[2])
                if tl == tr_ == ta == tb == 's':
                    if isinstance(c.ops[0], ast.NotEq):
                        a, b = b, a
                    return f'(if {l} = {r} then {a} else {b})', 's'
        # np.matmul(R, X[..., np.newaxis]).squeeze(-1)  ==  R applied to each row vector
        if f.endswith('.squeeze') and isinstance(e.func, ast.Attribute) and isinstance(e.func.value, ast.Call) \
                and ast.unparse(e.func.value.func) in ('np.matmul', 'truenp.matmul') and ast.unparse(e.args[0]) == '-1':
            mm = e.func.value
            (m, tm), (v, tv) = self.expr(mm.args[0]), self.expr(mm.args[1])
            if tm == 'm' and tv == 'v' and _n(ast.unparse(mm.args[1])).endswith('[...,np.newaxis]'):
                return f'(M3.mulVec {m} {v})', 'v'
        if f == 'abs' and len(e.args) == 1:
            x, t = self.expr(e.args[0])
            if t == 's':
                return f'(absK {x})', 's'
        raise Untranslatable(f'call {ast.unparse(e)}')


def run_block(stmts, tr, on_if=None):
    """straight-line statements -> (list of `let` lines, return node or None).  `on_if(test_text)` -> True (take
    the body), False (skip it), None (unsupported)."""
    lets = []
    for s in stmts:
        if isinstance(s, ast.Expr) and isinstance(s.value, ast.Constant) and isinstance(s.value.value, str):
            continue
        if isinstance(s, ast.Return):
            return lets, s.value
        if isinstance(s, ast.Assign) and len(s.targets) == 1:
            tgt = s.targets[0]
            if isinstance(tgt, ast.Name):
                x, t = tr.expr(s.value)
                nm = tgt.id + '_'
                lets.append(f'let {nm} := {x}')
                tr.env[tgt.id] = (nm, t)
                continue
            if isinstance(tgt, ast.Tuple) and isinstance(s.value, ast.Call) \
                    and ast.unparse(s.value.func) in ('np.atleast_2d',) \
                    and [ast.unparse(t) for t in tgt.elts] == [ast.unparse(a) for a in s.value.args]:
                continue            # `S, r = np.atleast_2d(S, r)`: batch bookkeeping, identity per ray
            if isinstance(tgt, ast.Tuple) and isinstance(s.value, ast.Tuple) and len(tgt.elts) == len(s.value.elts):
                vals = [tr.expr(v) for v in s.value.elts]
                for t_, (x, t) in zip(tgt.elts, vals):
                    nm = t_.id + '_'
                    lets.append(f'let {nm} := {x}')
                    tr.env[t_.id] = (nm, t)
                continue
        if isinstance(s, ast.If) and on_if is not None and not s.orelse:
            take = on_if(ast.unparse(s.test))
            if take is True:
                l2, ret = run_block(s.body, tr, on_if)
                if ret is not None:
                    raise Untranslatable('return inside a conditional block')
                lets += l2
                continue
            if take is False:
                continue
        raise Untranslatable(f'statement {ast.unparse(s)[:70]}')
    return lets, None


def prune(lets, result):
    """keep only the `let`s the result depends on (respecting shadowing)"""
    import re
    ident = re.compile(r'[A-Za-z_][A-Za-z_0-9]*_(?![A-Za-z0-9_])')
    need = set(ident.findall(result))
    kept = []
    for ln in reversed(lets):
        nm, rhs = ln[4:].split(' := ', 1)
        if nm in need:
            kept.append(ln)
            need.discard(nm)
            need |= set(ident.findall(rhs))
    return list(reversed(kept))


def lean_def(name, binders, rtype, lets, result, extra=''):
    lets = prune(lets, result)
    body = ''.join(f'  {ln}\n' for ln in lets) + f'  {result}\n'
    return f'def {name} {extra}{binders} : {rtype} :=\n{body}'


class _Gen(Gen):
    """`VERIF_FORCE_FALLBACK=name1,name2|all` makes the named items untranslatable (testing aid for the fallback texts)"""

    def item(self, name, source, node_fn, build, fallback):
        import os
        forced = os.environ.get('VERIF_FORCE_FALLBACK', '').split(',')
        if name in forced or 'all' in forced:
            def build():      # noqa: F811
                raise Untranslatable('forced by VERIF_FORCE_FALLBACK')
        return super().item(name, source, node_fn, build, fallback)


def generate(repo):
    g = _Gen('C19', imports=['PrysmVerif.Model.C19'], header=HEADER)
    sm, _ = load(repo, 'prysm/x/raytracing/spencer_and_murty.py')
    sf, _ = load(repo, 'prysm/x/raytracing/surfaces.py')
    co, _ = load(repo, 'prysm/coordinates.py')

    # ---------------------------------------------------------------- _multi_dot is the row-wise dot product
    def multi_dot():
        fn = get_def(sm, '_multi_dot')
        (ret,) = find_returns(fn)
        txt = _n(ast.unparse(ret))
        # the docstring announces that the implementation may change: every row-wise dot product spelling is accepted
        ok = {"np.einsum'ij,ij->i',a,b", "np.einsum'ij,ij->i',b,a", 'np.suma*b,axis=1', 'np.sumb*a,axis=1', 'np.suma*b,axis=-1',
              'a*b.sumaxis=1', 'a*b.sumaxis=-1', 'inner1da,b', 'np.matmula[:,None,:],b[:,:,None]', 'np.matmula[:,None,:],b[:,:,None][:,0,0]',
              'np.matmula[:,None,:],b[:,:,None].squeeze'}
        return True if txt in ok else None
    g.fact('multiDotIsRowwiseDot', 'prysm/x/raytracing/spencer_and_murty.py:_multi_dot', multi_dot)

    # ---------------------------------------------------------------- reflect
    def reflect():
        fn = get_def(sm, 'reflect')
        tr = VTr({'S': ('S', 'v'), 'r': ('r', 'v')})
        lets, ret = run_block(fn.body, tr)
        x, t = tr.expr(ret)
        assert t == 'v'
        return lean_def('reflect', '(S r : V3 K)', 'V3 K', lets, x)
    g.item('reflect', 'prysm/x/raytracing/spencer_and_murty.py:reflect', lambda: get_def(sm, 'reflect'), reflect,
           f'def reflect (S r : V3 K) : V3 K := {M}.reflect S r')

    # ---------------------------------------------------------------- refract
    def refract():
        fn = get_def(sm, 'refract')
        tr = VTr({'S': ('S', 'v'), 'r': ('r', 'v'), 'n': ('n', 's'), 'nprime': ('nprime', 's')})
        lets, ret = run_block(fn.body, tr)
        x, t = tr.expr(ret)
        assert t == 'v'
        return lean_def('refract', '(sqrt : K → K) (csgn : K → K → K) (lt : K → K → Bool) (n nprime : K) (S r : V3 K)', 'V3 K', lets, x)
    g.item('refract', 'prysm/x/raytracing/spencer_and_murty.py:refract', lambda: get_def(sm, 'refract'), refract,
           f'def refract (sqrt : K → K) (csgn : K → K → K) (lt : K → K → Bool) (n nprime : K) (S r : V3 K) : V3 K :=\n'
           f'  {M}.refract sqrt lt n nprime S r')

    # ---------------------------------------------------------------- raytrace: what reflect / refract are handed
    def call_sites():
        fn = get_def(sm, 'raytrace')
        (ci,) = find_calls(fn, 'intersect')
        # `Pj, r = intersect(P0, Sj, surf.sag_normal)`
        asg = [n for n in ast.walk(fn) if isinstance(n, ast.Assign) and n.value is ci][0]
        names = [ast.unparse(t) for t in asg.targets[0].elts]
        assert len(names) == 2 and ast.unparse(ci.args[2]) == 'surf.sag_normal'
        pname, rname = names
        (cr,) = find_calls(fn, 'refract')
        (cm,) = find_calls(fn, 'reflect')
        assert len(cr.args) == 4 and len(cm.args) == 2
        # incident direction: the local direction cosines returned by transform_to_local_coords
        (cl,) = find_calls(fn, 'transform_to_local_coords')
        asl = [n for n in ast.walk(fn) if isinstance(n, ast.Assign) and n.value is cl][0]
        sname = ast.unparse(asl.targets[0].elts[1])
        assert ast.unparse(cr.args[2]) == sname and ast.unparse(cm.args[0]) == sname
        tr = VTr({rname: ('g', 'v')})
        a, ta = tr.expr(cr.args[3])
        b, tb = tr.expr(cm.args[1])
        assert ta == tb == 'v'
        return (f'def refractCallNormal (sqrt : K → K) (g : V3 K) : V3 K := {a}\n'
                f'def reflectCallNormal (sqrt : K → K) (g : V3 K) : V3 K := {b}')
    g.item('raytrace.normals', 'prysm/x/raytracing/spencer_and_murty.py:raytrace', lambda: get_def(sm, 'raytrace'),
           call_sites,
           'def refractCallNormal (sqrt : K → K) (g : V3 K) : V3 K := g\n'
           'def reflectCallNormal (sqrt : K → K) (g : V3 K) : V3 K := g')

    def refract_indices():
        fn = get_def(sm, 'raytrace')
        (cr,) = find_calls(fn, 'refract')
        ok = ast.unparse(cr.args[0]) == 'nj' and ast.unparse(cr.args[1]) == 'nprime'
        src = ast.unparse(fn)
        if not (ok and has(src, 'nprime = surf.n(wvl)', 'nj = n_ambient')):
            return None
        # the index after a refracting surface must become the index before the next one
        return True if has(src, 'nj = nprime') else False
    g.fact('refractIndicesThreaded', 'prysm/x/raytracing/spencer_and_murty.py:raytrace', refract_indices)

    def frames_wiring():
        fn = get_def(sm, 'raytrace')
        (cl,) = find_calls(fn, 'transform_to_local_coords')
        (cg,) = find_calls(fn, 'transform_to_global_coords')
        # local leg: (point, surf.P, direction, surf.R); global leg: (point, surf.P, direction, <name>) with <name> = surf.R.T
        if not (len(cl.args) == 4 and ast.unparse(cl.args[1]) == 'surf.P' and len(cg.args) == 4 and ast.unparse(cg.args[1]) == 'surf.P'
                and isinstance(cg.args[3], ast.Name)):
            return None
        if ast.unparse(cl.args[3]) != 'surf.R':
            return False
        rt = cg.args[3].id
        vals = [_n(ast.unparse(n.value)) for n in ast.walk(fn) if isinstance(n, ast.Assign) and ast.unparse(n.targets[0]) == rt]
        if sorted(vals) == ['None', 'surf.R.T'] or vals == ['surf.R.T']:
            return True
        if 'surf.R' in vals:
            return False        # the global leg is handed the matrix itself: not the inverse rotation
        return None
    g.fact('globalLegUsesTranspose', 'prysm/x/raytracing/spencer_and_murty.py:raytrace', frames_wiring)

    # ---------------------------------------------------------------- frames
    def frame(fname, pre):
        def build():
            fn = get_def(sm, fname)
            out = []
            for withR in (True, False):
                tr = VTr({'XYZ': ('X', 'v'), 'P': ('P', 'v'), 'S': ('S', 'v'), 'R': ('R', 'm')})
                lets, ret = run_block(fn.body, tr, on_if=lambda t: withR if t == 'R is not None' else None)
                assert isinstance(ret, ast.Tuple) and len(ret.elts) == 2
                (x, tx), (s, ts) = tr.expr(ret.elts[0]), tr.expr(ret.elts[1])
                assert tx == ts == 'v'
                suffix = '' if withR else 'NoR'
                rb = '(R : M3 K) ' if withR else ''
                out.append(lean_def(f'{pre}P{suffix}', f'(P : V3 K) {rb}(X S : V3 K)', 'V3 K', lets, x))
                out.append(lean_def(f'{pre}S{suffix}', f'(P : V3 K) {rb}(X S : V3 K)', 'V3 K', lets, s))
            return '\n'.join(out)
        return build

    def frame_fallback(pre, mp, ms):
        return (f'def {pre}P (P : V3 K) (R : M3 K) (X S : V3 K) : V3 K := {mp} P (some R) X\n'
                f'def {pre}S (P : V3 K) (R : M3 K) (X S : V3 K) : V3 K := {ms} (some R) S\n'
                f'def {pre}PNoR (P : V3 K) (X S : V3 K) : V3 K := {mp} P none X\n'
                f'def {pre}SNoR (P : V3 K) (X S : V3 K) : V3 K := {ms} none S')
    g.item('transform_to_local_coords', 'prysm/x/raytracing/spencer_and_murty.py:transform_to_local_coords',
           lambda: get_def(sm, 'transform_to_local_coords'), frame('transform_to_local_coords', 'toLocal'),
           frame_fallback('toLocal', f'{M}.toLocalP', f'{M}.toLocalS'))
    # the global leg is handed R.T by raytrace (fact above); here R is whatever matrix the function receives
    g.item('transform_to_global_coords', 'prysm/x/raytracing/spencer_and_murty.py:transform_to_global_coords',
           lambda: get_def(sm, 'transform_to_global_coords'), frame('transform_to_global_coords', 'toGlobal'),
           (f'def toGlobalP (P : V3 K) (R : M3 K) (X S : V3 K) : V3 K := V3.add (M3.mulVec R X) P\n'
            f'def toGlobalS (P : V3 K) (R : M3 K) (X S : V3 K) : V3 K := M3.mulVec R S\n'
            f'def toGlobalPNoR (P : V3 K) (X S : V3 K) : V3 K := V3.add X P\n'
            f'def toGlobalSNoR (P : V3 K) (X S : V3 K) : V3 K := S'))

    # ---------------------------------------------------------------- make_rotation_matrix
    def rotation():
        fn = get_def(co, 'make_rotation_matrix')
        src = ast.unparse(fn)
        assert has(src, 'gamma, beta, alpha = zyx')
        env = {}
        for k, ang in (('1', 'alpha'), ('2', 'beta'), ('3', 'gamma')):
            assert has(src, f'cos{k} = truenp.cos({ang})', f'sin{k} = truenp.sin({ang})')
            env[f'cos{k}'] = (f'c{k}', 's')
            env[f'sin{k}'] = (f's{k}', 's')
        mats = {}
        for n in ast.walk(fn):
            if isinstance(n, ast.Assign) and isinstance(n.targets[0], ast.Name) and n.targets[0].id in ('Rx', 'Ry', 'Rz'):
                lst = n.value.args[0]
                rows = []
                for row in lst.elts:
                    cells = [VTr(env).expr(c)[0] for c in row.elts]
                    assert len(cells) == 3
                    rows.append('⟨' + ', '.join(cells) + '⟩')
                assert len(rows) == 3
                mats[n.targets[0].id] = '(⟨' + ', '.join(rows) + '⟩ : M3 K)'
        prod = [n for n in ast.walk(fn) if isinstance(n, ast.Assign) and ast.unparse(n.targets[0]) == 'm'][0].value

        def mm(e):
            if isinstance(e, ast.BinOp) and isinstance(e.op, ast.MatMult):
                return f'(M3.mul {mm(e.left)} {mm(e.right)})'
            return mats[e.id]
        (ret,) = find_returns(fn)
        assert ast.unparse(ret) == 'm'
        return f'def rotation (c1 s1 c2 s2 c3 s3 : K) : M3 K :=\n  {mm(prod)}\n'
    g.item('make_rotation_matrix', 'prysm/coordinates.py:make_rotation_matrix',
           lambda: get_def(co, 'make_rotation_matrix'), rotation,
           f'def rotation (c1 s1 c2 s2 c3 s3 : K) : M3 K := {M}.rotation c1 s1 c2 s2 c3 s3')

    # ---------------------------------------------------------------- Surface.sag_normal
    def sag_normal():
        fn = get_def(sf, 'Surface.sag_normal')
        src = ast.unparse(fn)
        assert has(src, 'z, Fx, Fy = self.FFp(x, y)', 'Fz = np.array([1.0], dtype=config.precision)',
                   'Fz = np.broadcast_to(Fz, Fx.shape)')
        der = [n for n in ast.walk(fn) if isinstance(n, ast.Assign) and ast.unparse(n.targets[0]) == 'der'][0].value
        assert ast.unparse(der.func) == 'np.stack' and ast.unparse(der.keywords[0].value) == '1'
        tr = VTr({'Fx': ('fx', 's'), 'Fy': ('fy', 's'), 'Fz': ('(1 : K)', 's')})
        cells = [tr.expr(c)[0] for c in der.args[0].elts]
        assert len(cells) == 3
        (ret,) = find_returns(fn)
        assert has(ast.unparse(ret), 'z, der')
        return f'def normalOfGrad (fx fy : K) : V3 K := ⟨{cells[0]}, {cells[1]}, {cells[2]}⟩'
    g.item('Surface.sag_normal', 'prysm/x/raytracing/surfaces.py:Surface.sag_normal',
           lambda: get_def(sf, 'Surface.sag_normal'), sag_normal,
           f'def normalOfGrad (fx fy : K) : V3 K := {M}.normalOfGrad fx fy')

    # ---------------------------------------------------------------- polar -> Cartesian gradient
    def cyl():
        fn = get_def(sf, 'surface_normal_from_cylindrical_derivatives')
        tr = VTr({'fp': ('fp', 's'), 'ft': ('ft', 's'), 'r': ('r', 's'),
                  'np.cos(t)': ('cost', 's'), 'np.sin(t)': ('sint', 's')})
        lets, ret = run_block(fn.body, tr)
        assert isinstance(ret, ast.Tuple) and len(ret.elts) == 2
        x, y = tr.expr(ret.elts[0])[0], tr.expr(ret.elts[1])[0]
        den = []
        for d in tr.denoms:
            if d not in den:
                den.append(d)
        b = '[DecidableEq K] (fp ft r cost sint : K)'
        return (lean_def('cylNormalX', b, 'K', lets, x) + '\n' + lean_def('cylNormalY', b, 'K', lets, y) + '\n'
                + lean_def('cylNormalDenoms', b, 'List K', lets, '[' + ', '.join(den) + ']'))
    g.item('surface_normal_from_cylindrical_derivatives',
           'prysm/x/raytracing/surfaces.py:surface_normal_from_cylindrical_derivatives',
           lambda: get_def(sf, 'surface_normal_from_cylindrical_derivatives'), cyl,
           (f'def cylNormalX [DecidableEq K] (fp ft r cost sint : K) : K := ({M}.cylNormalTotal (fun r => decide (r = 0)) fp ft r cost sint).1\n'
            f'def cylNormalY [DecidableEq K] (fp ft r cost sint : K) : K := ({M}.cylNormalTotal (fun r => decide (r = 0)) fp ft r cost sint).2\n'
            f'def cylNormalDenoms [DecidableEq K] (fp ft r cost sint : K) : List K := [if r = 0 then 1 else r]'))

    def conic_ffp():
        fn = get_def(sf, 'Surface.conic')
        ffp = [n for n in fn.body if isinstance(n, ast.FunctionDef) and n.name == 'FFp'][0]
        src = ast.unparse(ffp)
        ok = has(src, 'r, t = cart_to_polar(x, y, vec_to_grid=False)', 'rsq = r * r',
                 "z = conic_sag(params['c'], params['k'], rsq)", "dr = conic_sag_der(params['c'], params['k'], r)",
                 'dx, dy = surface_normal_from_cylindrical_derivatives(dr, 0, r, t)', 'return z, dx, dy')
        return True if ok else None
    g.fact('conicUsesSagDerAndZeroAzimuthal', 'prysm/x/raytracing/surfaces.py:Surface.conic', conic_ffp)

    # ---------------------------------------------------------------- conic sag and derivative (phi=None branch)
    def conic():
        out = []
        for fname, lname, args in (('conic_sag', 'conicSag', {'rhosq': ('rhosq', 's')}),
                                   ('conic_sag_der', 'conicSagDer', {'rho': ('rho', 's')})):
            fn = get_def(sf, fname)
            tr = VTr({'c': ('c', 's'), 'kappa': ('kappa', 's'), **args})
            lets, ret = run_block(fn.body, tr, on_if=lambda t: True if t == 'phi is None' else None)
            x, _ = tr.expr(ret)
            arg = list(args)[0]
            out.append(lean_def(lname, f'(sqrt : K → K) (c kappa {arg} : K)', 'K', lets, x))
        return '\n'.join(out)
    g.item('conic_sag', 'prysm/x/raytracing/surfaces.py:conic_sag,conic_sag_der',
           lambda: ast.Module(body=[get_def(sf, 'conic_sag'), get_def(sf, 'conic_sag_der')], type_ignores=[]), conic,
           (f'def conicSag (sqrt : K → K) (c kappa rhosq : K) : K := {M}.conicSag c rhosq (sqrt ({M}.phiSq c kappa rhosq))\n'
            f'def conicSagDer (sqrt : K → K) (c kappa rho : K) : K := {M}.conicSagDer c rho (sqrt ({M}.phiSq c kappa (rho * rho)))'))

    # ---------------------------------------------------------------- phi_spheroid, conic_sag with phi given, and the
    # closure Surface.off_axis_conic.FFp (Cartesian form; the polar form is not translated: fallback = hand model)
    def phi_and_sagphi():
        fn = get_def(sf, 'phi_spheroid')
        tr = VTr({'c': ('c', 's'), 'k': ('k', 's'), 'rhosq': ('rhosq', 's')})
        lets, ret = run_block(fn.body, tr)
        a = lean_def('phiSpheroid', '(sqrt : K → K) (c k rhosq : K)', 'K', lets, tr.expr(ret)[0])
        fn = get_def(sf, 'conic_sag')
        tr = VTr({'c': ('c', 's'), 'kappa': ('kappa', 's'), 'rhosq': ('rhosq', 's'), 'phi': ('phi', 's')})
        lets, ret = run_block(fn.body, tr, on_if=lambda t: False if t == 'phi is None' else None)
        b = lean_def('conicSagPhi', '(c kappa rhosq phi : K)', 'K', lets, tr.expr(ret)[0])
        return a + '\n' + b
    g.item('phi_spheroid', 'prysm/x/raytracing/surfaces.py:phi_spheroid,conic_sag',
           lambda: ast.Module(body=[get_def(sf, 'phi_spheroid'), get_def(sf, 'conic_sag')], type_ignores=[]),
           phi_and_sagphi,
           (f'def phiSpheroid (sqrt : K → K) (c k rhosq : K) : K := sqrt ({M}.phiSq c k rhosq)\n'
            f'def conicSagPhi (c kappa rhosq phi : K) : K := {M}.conicSag c rhosq phi'))

    def offaxis_ffp():
        fn = get_def(sf, 'Surface.off_axis_conic')
        ffp = [n for n in fn.body if isinstance(n, ast.FunctionDef) and n.name == 'FFp'][0]
        assert [a.arg for a in ffp.args.args] == ['x', 'y']
        src = ast.unparse(fn)
        assert has(src, "params['c'] = c", "params['k'] = k", "params['dx'] = dx", "params['dy'] = dy")
        env = {'x': ('x', 's'), 'y': ('y', 's'), "params['c']": ('c', 's'), "params['k']": ('k', 's'),
               "params['dx']": ('dx', 's'), "params['dy']": ('dy', 's')}
        funcs = {'phi_spheroid': lambda a, kw: (f'(phiSpheroid sqrt {a[0][0]} {a[1][0]} {a[2][0]})', 's'),
                 'conic_sag': lambda a, kw: (f'(conicSagPhi {a[0][0]} {a[1][0]} {a[2][0]} {kw["phi"][0]})', 's')}
        tr = VTr(env, funcs)
        stmts = [s for s in ffp.body if not (isinstance(s, ast.If) and isinstance(s.body[0], ast.Raise))]
        lets, ret = run_block(stmts, tr)
        assert isinstance(ret, ast.Tuple) and len(ret.elts) == 3
        b = '(sqrt : K → K) (c k dx dy x y : K)'
        return '\n'.join(lean_def(f'offAxisFFp{nm}', b, 'K', lets, tr.expr(e)[0]) for nm, e in zip('ZXY', ret.elts))
    b = '(sqrt : K → K) (c k dx dy x y : K)'
    g.item('Surface.off_axis_conic.FFp', 'prysm/x/raytracing/surfaces.py:Surface.off_axis_conic',
           lambda: get_def(sf, 'Surface.off_axis_conic'), offaxis_ffp,
           (f'def offAxisFFpZ {b} : K := ({M}.sagGrad sqrt (.offAxis c k dx dy) x y).1\n'
            f'def offAxisFFpX {b} : K := ({M}.sagGrad sqrt (.offAxis c k dx dy) x y).2.1\n'
            f'def offAxisFFpY {b} : K := ({M}.sagGrad sqrt (.offAxis c k dx dy) x y).2.2'))

    # ---------------------------------------------------------------- off-axis conic: aggregate term, sag, derivatives
    def offaxis():
        out = []
        for branch, take in (('Dx', True), ('Dy', False)):
            def on_if(t, take=take):
                if t == 'dy != 0 and dx != 0':
                    return False
                return None
            for fname, lname in (('off_axis_conic_sag', 'offAxisSag'), ('off_axis_conic_der', 'offAxisDer')):
                fn = get_def(sf, fname)
                stmts = []
                for s in fn.body:
                    if isinstance(s, ast.If) and ast.unparse(s.test) == 'dx != 0' and s.orelse:
                        stmts += (s.body if take else s.orelse)
                    else:
                        stmts.append(s)
                tr = VTr({'c': ('c', 's'), 'kappa': ('kappa', 's'), 'r': ('r', 's'),
                          'dx': ('s', 's'), 'dy': ('s', 's'),
                          'np.cos(t)': ('cost', 's'), 'np.sin(t)': ('sint', 's')})
                lets, ret = run_block(stmts, tr, on_if=on_if)
                b = '(sqrt : K → K) (c kappa r cost sint s : K)'
                if isinstance(ret, ast.Tuple):
                    for e, suf in zip(ret.elts, ('R', 'T')):
                        out.append(lean_def(f'{lname}{suf}{branch}', b, 'K', lets, tr.expr(e)[0]))
                else:
                    out.append(lean_def(f'{lname}{branch}', b, 'K', lets, tr.expr(ret)[0]))
        return '\n'.join(out)

    def offaxis_fallback():
        out = []
        for branch, (xs, ys) in (('Dx', ('(r * cost + s)', '(r * sint)')), ('Dy', ('(r * cost)', '(r * sint + s)'))):
            b = '(sqrt : K → K) (c kappa r cost sint s : K)'
            agg = f'({xs} * {xs} + {ys} * {ys})'
            phi = f'(sqrt ({M}.phiSq c kappa {agg}))'
            out.append(f'def offAxisSag{branch} {b} : K := {M}.conicSag c {agg} {phi}')
            out.append(f'def offAxisDerR{branch} {b} : K := (c * {xs} / {phi}) * cost + (c * {ys} / {phi}) * sint')
            out.append(f'def offAxisDerT{branch} {b} : K := r * ((c * {ys} / {phi}) * cost - (c * {xs} / {phi}) * sint)')
        return '\n'.join(out)
    g.item('off_axis_conic', 'prysm/x/raytracing/surfaces.py:off_axis_conic_sag,off_axis_conic_der',
           lambda: ast.Module(body=[get_def(sf, 'off_axis_conic_sag'), get_def(sf, 'off_axis_conic_der')], type_ignores=[]),
           offaxis, offaxis_fallback())

    # ---------------------------------------------------------------- intersection
    def vertex_plane():
        fn = get_def(sm, 'intersect')
        src = ast.unparse(fn)
        assert has(src, 'Z0 = P0[..., 2]', 'm = S[..., 2]', 's0 = -Z0 / m')
        tr = VTr({'P0': ('P0', 'v'), 'S': ('S', 'v')})
        stmts = [s for s in fn.body if isinstance(s, ast.Assign) and ast.unparse(s.targets[0]) in ('Z0', 'm', 's0', 'P1')]
        lets, _ = run_block(stmts, tr)
        (ret,) = find_returns(fn)
        assert ast.unparse(ret) == 'newton_raphson_solve_s(P1, S, FFp, s1, eps, maxiter)'
        return lean_def('toVertexPlane', '(P0 S : V3 K)', 'V3 K', lets, tr.env['P1'][0])
    g.item('intersect', 'prysm/x/raytracing/spencer_and_murty.py:intersect', lambda: get_def(sm, 'intersect'),
           vertex_plane, f'def toVertexPlane (P0 S : V3 K) : V3 K := {M}.toVertexPlane P0 S')

    def newton_start():
        fn = get_def(sm, 'intersect')
        (ret,) = find_returns(fn)
        if not (isinstance(ret, ast.Call) and ast.unparse(ret.func) == 'newton_raphson_solve_s' and len(ret.args) >= 4):
            return None
        a0, a3 = ast.unparse(ret.args[0]), _n(ast.unparse(ret.args[3]))
        if a0 == 'P1' and a3 == 's1':
            return True          # Newton runs in the surface frame from the vertex-plane point, with the caller's guess
        if a0 == 'P0':
            return False         # Newton would run from the (possibly very distant) ray origin: s ~ distance, residual ~ ulp(distance)
        return None
    g.fact('newtonStartsOnVertexPlane', 'prysm/x/raytracing/spencer_and_murty.py:intersect', newton_start)

    def newton():
        fn = get_def(sm, 'newton_raphson_solve_s')
        loop = [n for n in fn.body if isinstance(n, ast.For)][0]
        want = ('Pj', 'Xj', 'Yj', 'Zj', 'Fj', 'Fpj', 'sjp1', 'delta')
        stmts = [s for s in loop.body if isinstance(s, ast.Assign) and ast.unparse(s.targets[0]) in want]
        assert [ast.unparse(s.targets[0]) for s in stmts] == list(want)
        src = ast.unparse(loop)
        assert has(src, 'sagj, r = FFp(Xj, Yj)', 'scale = np.maximum(1, abs(Pj).max(axis=1))', 'rays_which_converged = delta < eps * scale',
                   'Pj_out[insert_mask] = Pj[rays_which_converged]', 'r_out[insert_mask] = r[rays_which_converged]',
                   'sj[mask] = sjp1')
        env = {'P1[mask]': ('P1', 'v'), 'S_mask': ('S', 'v'), 'sj_bcast': ('sj', 's'), 'sj_mask': ('sj', 's'),
               'sagj': ('sag', 's'), 'r': ('r', 'v')}
        tr = VTr(env)
        lets, _ = run_block(stmts, tr)
        b = '(absK : K → K) (P1 S : V3 K) (sj sag : K) (r : V3 K)'
        return (lean_def('newtonPoint', b, 'V3 K', lets[:1], tr.env['Pj'][0]) + '\n'
                + lean_def('newtonF', b, 'K', lets, tr.env['Fj'][0]) + '\n'
                + lean_def('newtonFp', b, 'K', lets, tr.env['Fpj'][0]) + '\n'
                + lean_def('newtonNext', b, 'K', lets, tr.env['sjp1'][0]) + '\n'
                + lean_def('newtonDelta', b, 'K', lets, tr.env['delta'][0]) + '\n'
                # `np.maximum(1, abs(Pj).max(axis=1))`, read per ray (recognised by the two `has` patterns above)
                + 'def newtonScale (absK : K → K) (maxK : K → K → K) (P : V3 K) : K := '
                  'maxK (1 : K) (maxK (maxK (absK P.x) (absK P.y)) (absK P.z))')
    b = '(absK : K → K) (P1 S : V3 K) (sj sag : K) (r : V3 K)'
    g.item('newton_raphson_solve_s', 'prysm/x/raytracing/spencer_and_murty.py:newton_raphson_solve_s',
           lambda: get_def(sm, 'newton_raphson_solve_s'), newton,
           (f'def newtonPoint {b} : V3 K := V3.add P1 (V3.smul sj S)\n'
            f'def newtonF {b} : K := (V3.add P1 (V3.smul sj S)).z - sag\n'
            f'def newtonFp {b} : K := V3.dot S r\n'
            f'def newtonNext {b} : K := sj - ((V3.add P1 (V3.smul sj S)).z - sag) / V3.dot S r\n'
            f'def newtonDelta {b} : K := absK (sj - ((V3.add P1 (V3.smul sj S)).z - sag) / V3.dot S r - sj)\n'
            'def newtonScale (absK : K → K) (maxK : K → K → K) (P : V3 K) : K := '
            'maxK (1 : K) (maxK (maxK (absK P.x) (absK P.y)) (absK P.z))'))

    return g.finish()


if __name__ == '__main__':
    import sys
    text, items = generate(sys.argv[1] if len(sys.argv) > 1 else '/repo')
    print(text)
    for it in items:
        print('--', it)
