"""translator items for C14 (instrument-file round trips): prysm/io.py Zygo .dat and Code V grid INT codecs and the
Interferogram save/load pair.

What is pulled out of the current source (the glue where the defects live):
  * the 163-row header table of `_zygo_metadata_helper` as (endianness, count, code, lo, hi, default) rows,
  * the fields `write_zygo_dat` overrides and with what,
  * the header keys `read_zygo_dat` takes the shape / scaling from, and the order of its reshape,
  * the flips applied on both sides of both formats, as a (rows, cols) flip state of the row-major buffer
    (`np.flipud` of a 1-D buffer is the reversal of the flat buffer = rows AND columns),
  * the quantisation arithmetic on both sides as rational functions,
  * the truncation repair arithmetic (`backtrack`),
  * the Code V `GRD` token order on both sides, the scale-factor choice, the `NDA` sentinel,
  * the unit conversions of `Interferogram.save_zygo_dat` / `from_zygo_dat`.
"""
import ast
import os
import re
import struct

from pyexpr2lean import (Gen, Tr, Untranslatable, load, get_def, get_const, find_assign, find_assigns,
                         find_calls, call_arg, body_to_lean)

M = 'Model.C14'


# ------------------------------------------------------------------------------------------------
# tiny evaluator for the literal-ish expressions of the header table
# ------------------------------------------------------------------------------------------------
def pyeval(node, env):
    if isinstance(node, ast.Constant):
        return node.value
    if isinstance(node, ast.Name):
        if node.id in env:
            return env[node.id]
        raise Untranslatable(f'free name {node.id} in table')
    if isinstance(node, ast.UnaryOp) and isinstance(node.op, ast.USub):
        return -pyeval(node.operand, env)
    if isinstance(node, ast.BinOp) and isinstance(node.op, (ast.Add, ast.Mult)):
        a, b = pyeval(node.left, env), pyeval(node.right, env)
        return a + b if isinstance(node.op, ast.Add) else a * b
    if isinstance(node, ast.Tuple):
        return tuple(pyeval(e, env) for e in node.elts)
    if isinstance(node, ast.Dict):
        return {pyeval(k, env): pyeval(v, env) for k, v in zip(node.keys, node.values)}
    if isinstance(node, ast.Subscript):
        return pyeval(node.value, env)[pyeval(node.slice, env)]
    raise Untranslatable(f'table expression {ast.unparse(node)[:40]}')


def module_env(mod):
    env = {}
    for n in mod.body:
        if isinstance(n, ast.Assign) and len(n.targets) == 1 and isinstance(n.targets[0], ast.Name):
            try:
                env[n.targets[0].id] = pyeval(n.value, env)
            except Untranslatable:
                pass
    return env


def fbits(x):
    return struct.unpack('<Q', struct.pack('<d', float(x)))[0]


_CMP = {ast.GtE: '.ge', ast.Gt: '.gt', ast.LtE: '.le', ast.Lt: '.lt', ast.Eq: '.eq', ast.NotEq: '.ne'}
_FMT = re.compile(r'^([<>=!@]?)(\d*)([A-Za-z])$')
_CODES = {'H': '.u16', 'I': '.u32', 'f': '.f32', 's': '.str', 'x': '.pad', 'c': '.chr', 'B': '.u8'}


def lean_str(s):
    if not re.fullmatch(r'[A-Za-z0-9_]+', s):
        raise Untranslatable(f'field name {s!r}')
    return '"' + s + '"'


def row_to_lean(name, fmt, lo, hi, dflt):
    m = _FMT.match(fmt)
    if not m or m.group(3) not in _CODES:
        raise Untranslatable(f'struct format {fmt!r}')
    endian = {'>': '.big', '!': '.big', '<': '.little', '': '.native', '=': '.native', '@': '.native'}[m.group(1)]
    count = int(m.group(2)) if m.group(2) else 1
    if isinstance(dflt, bool) or not isinstance(dflt, (int, float, str)):
        raise Untranslatable(f'default of {name}: {dflt!r}')
    if isinstance(dflt, int):
        if dflt < 0:
            raise Untranslatable(f'negative default of {name}')
        d = f'.int {dflt}'
    elif isinstance(dflt, float):
        d = f'.flt {fbits(dflt)}'
    else:
        d = '.bytes [' + ', '.join(str(b) for b in dflt.encode('utf-8')) + ']'
    if not (isinstance(lo, int) and isinstance(hi, int) and lo >= 0 and hi >= 0):
        raise Untranslatable(f'byte range of {name}')
    return f'⟨{lean_str(name)}, {endian}, {count}, {_CODES[m.group(3)]}, {lo}, {hi}, {d}⟩'


# ------------------------------------------------------------------------------------------------
# flip tracking: state of an array = (rows flipped?, cols flipped?, ndim, reshape dims) relative to row-major order
# ------------------------------------------------------------------------------------------------
class St:
    def __init__(self, r=False, c=False, dim=1, dims=None, nresh=0):
        self.r, self.c, self.dim, self.dims, self.nresh = r, c, dim, dims, nresh

    def key(self):
        return (self.r, self.c, self.dim, self.dims, self.nresh)

    def copy(self, **kw):
        s = St(self.r, self.c, self.dim, self.dims, self.nresh)
        for k, v in kw.items():
            setattr(s, k, v)
        return s


_FRESH1D = ('np.frombuffer', 'truenp.frombuffer', 'np.fromstring', 'truenp.fromstring', 'np.fromfile')
_PASS_FUNCS = ('np.copy', 'np.asarray', 'np.array', 'np.ascontiguousarray', 'np.asfortranarray', 'np.around', 'np.round', 'np.rint',
               'np.floor', 'np.ceil', 'np.trunc', 'np.abs', 'np.absolute', 'np.negative', 'np.multiply', 'np.divide', 'np.float64')
_PASS_METHODS = ('astype', 'copy', 'view', 'newbyteorder', 'byteswap')


class FlipTracker:
    """abstract interpretation of the statements of one function over the flip state of named arrays"""

    def __init__(self, init, writer):
        self.env = dict(init)
        self.writer = writer      # writer: flips must happen before any reshape (on the caller's 2-D array)

    def state(self, e):
        """state of an array-valued expression, or None when it does not involve a tracked array"""
        if isinstance(e, ast.Name):
            return self.env.get(e.id)
        if isinstance(e, ast.Call):
            f = ast.unparse(e.func)
            if f in _FRESH1D:
                return St()
            if f in ('np.flipud', 'np.fliplr', 'np.flip', 'truenp.flipud', 'truenp.fliplr') and e.args:
                s = self.state(e.args[0])
                if s is None:
                    return None
                if f.endswith('flip'):
                    raise Untranslatable('np.flip with axis argument')
                return self.flip(s, 'ud' if f.endswith('flipud') else 'lr')
            if f in _PASS_FUNCS and e.args:
                return self.state(e.args[0])
            if isinstance(e.func, ast.Attribute):
                s = self.state(e.func.value)
                if s is None:
                    return None
                meth = e.func.attr
                if meth in _PASS_METHODS:
                    return s
                if meth in ('ravel', 'flatten', 'tobytes'):
                    for k in e.keywords:
                        if k.arg == 'order' and not (isinstance(k.value, ast.Constant) and k.value.value == 'C'):
                            raise Untranslatable('non-C order')
                    return s.copy(dim=1)
                if meth == 'reshape':
                    arg = e.args[0] if len(e.args) == 1 else ast.Tuple(elts=list(e.args))
                    if not isinstance(arg, ast.Tuple) or len(arg.elts) != 2:
                        return None     # not a 2-D map (e.g. the intensity frames): not tracked
                    return s.copy(dim=2, dims=tuple(ast.unparse(x) for x in arg.elts), nresh=s.nresh + 1)
                if meth in ('T', 'transpose', 'swapaxes'):
                    raise Untranslatable('transpose of a tracked array')
                raise Untranslatable(f'method {meth} on a tracked array')
            return None
        if isinstance(e, ast.Attribute):
            s = self.state(e.value)
            if s is not None and e.attr == 'T':
                raise Untranslatable('transpose of a tracked array')
            return None
        if isinstance(e, ast.BinOp):
            a, b = self.state(e.left), self.state(e.right)
            if a is not None and b is not None:
                if a.key() != b.key():
                    raise Untranslatable('binary operation of differently oriented arrays')
                return a
            return a if a is not None else b
        if isinstance(e, ast.Subscript):
            s = self.state(e.value)
            if s is None:
                return None
            sl = e.slice
            parts = list(sl.elts) if isinstance(sl, ast.Tuple) else [sl]
            out = s
            for ax, p in enumerate(parts):
                if isinstance(p, ast.Slice) and p.lower is None and p.upper is None:
                    if p.step is None:
                        continue
                    if ast.unparse(p.step) == '-1':
                        if s.dim == 1:
                            out = self.flip(out, 'ud')
                        else:
                            out = self.flip(out, 'ud' if ax == 0 else 'lr')
                        continue
                raise Untranslatable(f'subscript {ast.unparse(e)[:40]} of a tracked array')
            return out
        return None

    def flip(self, s, which):
        if self.writer and s.nresh:
            raise Untranslatable('flip after a reshape in a writer')
        if s.dim == 1:
            if which == 'lr':
                raise Untranslatable('fliplr of a 1-D array')
            return s.copy(r=not s.r, c=not s.c)       # reversal of the flat buffer
        return s.copy(r=not s.r) if which == 'ud' else s.copy(c=not s.c)

    def run(self, stmts):
        for st in stmts:
            self.stmt(st)

    def merge(self, envs):
        names = set(envs[0])
        for e in envs[1:]:
            names &= set(e)
        out = {}
        for n in names:
            keys = {e[n].key() for e in envs}
            if len(keys) != 1:
                raise Untranslatable(f'{n} has different orientations on different paths')
            out[n] = envs[0][n]
        self.env = out

    def branch(self, blocks):
        base = dict(self.env)
        envs = []
        for b in blocks:
            self.env = dict(base)
            self.run(b)
            envs.append(self.env)
        self.merge(envs)

    def stmt(self, st):
        if isinstance(st, ast.Assign) and len(st.targets) == 1 and isinstance(st.targets[0], ast.Name):
            s = self.state(st.value)
            if s is None:
                self.env.pop(st.targets[0].id, None)
            else:
                self.env[st.targets[0].id] = s
        elif isinstance(st, ast.AugAssign) and isinstance(st.target, ast.Name):
            if self.state(st.value) is not None and st.target.id in self.env:
                raise Untranslatable('augmented assignment mixing tracked arrays')
        elif isinstance(st, ast.If):
            self.branch([st.body, st.orelse or []])
        elif isinstance(st, ast.Try):
            self.branch([st.body] + [h.body for h in st.handlers])
            self.run(st.finalbody)
        elif isinstance(st, ast.With):
            self.run(st.body)
        elif isinstance(st, (ast.For, ast.While)):
            for n in ast.walk(st):
                if isinstance(n, ast.Name) and isinstance(n.ctx, ast.Store) and n.id in self.env:
                    raise Untranslatable('tracked array assigned inside a loop')


def flip_name(s):
    return {(False, False): '.none', (True, False): '.rows', (False, True): '.cols', (True, True): '.both'}[(s.r, s.c)]


# ------------------------------------------------------------------------------------------------
class RTr(Tr):
    """Tr that resolves free local names through their (unique) assignment in the function"""

    def __init__(self, fn, env, mode, consts):
        super().__init__(env, mode)
        self.fn, self.consts, self.depth = fn, consts, 0

    def expr(self, e):
        key = ast.unparse(e)
        if key in self.env:
            return self.env[key]
        if isinstance(e, ast.Name):
            if e.id in self.consts and isinstance(self.consts[e.id], (int, float)) and not isinstance(self.consts[e.id], bool):
                return self.const(self.consts[e.id])
            vs = find_assigns(self.fn, e.id)
            if len(vs) != 1 or self.depth > 12:
                raise Untranslatable(f'name {e.id} has {len(vs)} assignments')
            self.depth += 1
            try:
                return self.expr(vs[0])
            finally:
                self.depth -= 1
        if isinstance(e, ast.Subscript):
            try:
                v = pyeval(e, self.consts)
            except (Untranslatable, KeyError, TypeError):
                raise Untranslatable(f'subscript {key}')
            if isinstance(v, (int, float)) and not isinstance(v, bool):
                return self.const(v)
            raise Untranslatable(f'subscript {key}')
        return super().expr(e)


def meta_key(fn, name):
    """`name = meta['key']` (also inside tuple assignments) -> key"""
    vs = find_assigns(fn, name)
    if len(vs) != 1:
        # header_len, ib may be re-assigned; take the first
        if not vs:
            raise Untranslatable(f'{name} is not assigned')
    v = vs[0]
    if isinstance(v, ast.Subscript) and ast.unparse(v.value) == 'meta' and isinstance(v.slice, ast.Constant):
        return v.slice.value
    raise Untranslatable(f'{name} does not come from the header: {ast.unparse(v)[:40]}')


def fstring_template(node):
    """JoinedStr / concatenation of strings -> template text with {expr} placeholders"""
    if isinstance(node, ast.Constant) and isinstance(node.value, str):
        return node.value
    if isinstance(node, ast.JoinedStr):
        out = ''
        for v in node.values:
            if isinstance(v, ast.Constant):
                out += v.value
            else:
                out += '{' + ast.unparse(v.value) + '}'
        return out
    if isinstance(node, ast.BinOp) and isinstance(node.op, ast.Add):
        return fstring_template(node.left) + fstring_template(node.right)
    if isinstance(node, ast.Name):
        return '{' + node.id + '}'
    raise Untranslatable(f'header text {ast.unparse(node)[:40]}')


def shape_axes(fn, arr):
    """`a, b = <arr>.shape` -> {a: 0, b: 1}; also `a = <arr>.shape[k]`"""
    out = {}
    for n in ast.walk(fn):
        if isinstance(n, ast.Assign) and len(n.targets) == 1:
            t, v = n.targets[0], n.value
            if isinstance(t, ast.Tuple) and ast.unparse(v) == f'{arr}.shape' and len(t.elts) == 2:
                for k, el in enumerate(t.elts):
                    out[el.id] = k
            if isinstance(t, ast.Name) and isinstance(v, ast.Subscript) and ast.unparse(v.value) == f'{arr}.shape' \
                    and isinstance(v.slice, ast.Constant):
                out[t.id] = v.slice.value
    return out


# ------------------------------------------------------------------------------------------------

# ------------------------------------------------------------------------------------------------
# normalisation of the source before the recognisers run: same-module straight-line helpers are inlined, temporaries of a
# call that only name an argument are folded back, and locals are renamed BY ROLE (what they are computed from / used
# for), so that renamed locals, extracted helpers and inlined temporaries leave the translator output unchanged
# ------------------------------------------------------------------------------------------------
import copy


class _Rename(ast.NodeTransformer):
    def __init__(self, m):
        self.m = m

    def visit_Name(self, n):
        if n.id in self.m:
            return ast.copy_location(ast.Name(id=self.m[n.id], ctx=n.ctx), n)
        return n


def rename_locals(fn, mapping):
    """apply {old: new}; a different local already called `new` is moved out of the way first"""
    mapping = {a: b for a, b in mapping.items() if a != b and a is not None}
    if not mapping:
        return fn
    used = {n.id for n in ast.walk(fn) if isinstance(n, ast.Name)} | {a.arg for a in fn.args.args}
    pre = {b: f'{b}__other' for b in mapping.values() if b in used and b not in mapping}
    if any(a.arg in pre or a.arg in mapping for a in fn.args.args):
        pre = {k: v for k, v in pre.items() if k not in {a.arg for a in fn.args.args}}
    fn = copy.deepcopy(fn)
    params = {a.arg for a in fn.args.args}
    if pre:
        for st in fn.body:
            _Rename(pre).visit(st)
    m2 = {a: b for a, b in mapping.items() if a not in params}
    for st in fn.body:
        _Rename(m2).visit(st)
    return fn


def _straight_line(fn):
    """(assignments, return expr) of a helper made of simple assignments and one final return, else None"""
    body = [st for st in fn.body if not (isinstance(st, ast.Expr) and isinstance(st.value, ast.Constant))]
    if not body or not isinstance(body[-1], ast.Return) or body[-1].value is None:
        return None
    for st in body[:-1]:
        if not (isinstance(st, ast.Assign) and len(st.targets) == 1 and isinstance(st.targets[0], ast.Name)):
            return None
    if fn.args.vararg or fn.args.kwarg or fn.args.kwonlyargs:
        return None
    return body[:-1], body[-1].value


def inline_helpers(mod, fn, depth=0):
    """`x = helper(args)` / `x op= helper(args)` / `return helper(args)` with a same-module straight-line helper -> the helper's
    statements (locals prefixed, parameters bound to the arguments) followed by the use of its return expression"""
    helpers = {n.name: n for n in mod.body if isinstance(n, ast.FunctionDef) and n.name != fn.name}
    fn = copy.deepcopy(fn)
    changed = False

    def expand(stmts):
        nonlocal changed
        out = []
        for st in stmts:
            for fld in ('body', 'orelse', 'finalbody'):
                if isinstance(getattr(st, fld, None), list) and getattr(st, fld) and isinstance(getattr(st, fld)[0], ast.stmt):
                    setattr(st, fld, expand(getattr(st, fld)))
            if isinstance(st, ast.Try):
                for h in st.handlers:
                    h.body = expand(h.body)
            val = st.value if isinstance(st, (ast.Assign, ast.AugAssign, ast.Return)) else None
            if isinstance(val, ast.Call) and isinstance(val.func, ast.Name) and val.func.id in helpers and not val.keywords:
                h = helpers[val.func.id]
                sl = _straight_line(h)
                if sl is not None and len(val.args) == len(h.args.args):
                    assigns, ret = sl
                    pre = f'{h.name.lstrip("_")}__'
                    loc = {t.targets[0].id: pre + t.targets[0].id for t in assigns}
                    bind = []
                    for prm, arg in zip(h.args.args, val.args):
                        if isinstance(arg, ast.Name):
                            loc[prm.arg] = arg.id
                        else:
                            loc[prm.arg] = pre + prm.arg
                            bind.append(ast.Assign(targets=[ast.Name(id=pre + prm.arg, ctx=ast.Store())], value=arg, lineno=st.lineno))
                    new = bind + [copy.deepcopy(a) for a in assigns]
                    for a in new[len(bind):]:
                        _Rename(loc).visit(a)
                        a.lineno = st.lineno
                    r = _Rename(loc).visit(copy.deepcopy(ret))
                    st.value = r
                    out.extend(ast.fix_missing_locations(x) for x in new)
                    changed = True
            out.append(st)
        return out
    fn.body = expand(fn.body)
    if changed and depth < 3:
        return inline_helpers(mod, fn, depth + 1)
    return fn


def _assigned_from(fn, pred):
    """names assigned (single Name target) from a value satisfying pred, in source order"""
    out = []
    for n in ast.walk(fn):
        if isinstance(n, ast.Assign) and len(n.targets) == 1 and isinstance(n.targets[0], ast.Name) and pred(n.value):
            out.append((n.lineno, n.targets[0].id))
    return [x for _, x in sorted(out)]


def _first(lst):
    return lst[0] if lst else None


def _unp(e):
    return ast.unparse(e).replace('truenp.', 'np.')


def canon_read_zygo(fn):
    m = {}
    keys = {'wavelength': 'W', 'scale_factor': 'S', 'obliquity_factor': 'O', 'phase_res': 'res', 'cn_width': 'pw', 'cn_height': 'ph',
            'header_size': 'header_len', 'ac_width': 'iw', 'ac_height': 'ih', 'ac_n_buckets': 'ib'}
    metas = _assigned_from(fn, lambda v: isinstance(v, ast.Call) and _unp(v.func).endswith('read_zygo_metadata'))
    meta = _first(metas) or 'meta'
    m[meta] = 'meta'
    for n in ast.walk(fn):
        if isinstance(n, ast.Assign):
            tg, vs = n.targets[0], n.value
            pairs = list(zip(tg.elts, vs.elts)) if isinstance(tg, ast.Tuple) and isinstance(vs, ast.Tuple) and len(tg.elts) == len(vs.elts) \
                else [(tg, vs)]
            for t, v in pairs:
                if isinstance(t, ast.Name) and isinstance(v, ast.Subscript) and _unp(v.value) == meta and isinstance(v.slice, ast.Constant) \
                        and v.slice.value in keys and keys[v.slice.value] not in m.values():
                    m[t.id] = keys[v.slice.value]
    r = _first(_assigned_from(fn, lambda v: isinstance(v, ast.Subscript) and _unp(v.value) == 'ZYGO_PHASE_RES_FACTORS'))
    if r:
        m[r] = 'R'
    c = _first(_assigned_from(fn, lambda v: isinstance(v, ast.Call) and isinstance(v.func, ast.Attribute) and v.func.attr == 'read'))
    if c:
        m[c] = 'contents'
    for n in ast.walk(fn):
        if isinstance(n, ast.Try):
            for st in n.body:
                if isinstance(st, ast.Assign) and isinstance(st.targets[0], ast.Name) and 'frombuffer' in _unp(st.value):
                    m[st.targets[0].id] = 'phase_raw'
    rets = [n.value for n in ast.walk(fn) if isinstance(n, ast.Return) and isinstance(n.value, ast.Dict)]
    if rets:
        for k, v in zip(rets[0].keys, rets[0].values):
            if isinstance(k, ast.Constant) and k.value == 'phase' and isinstance(v, ast.Name):
                m[v.id] = 'phase'
    return rename_locals(fn, m)


def canon_write_zygo(fn):
    m = {}
    ph = fn.args.args[1].arg if len(fn.args.args) > 1 else 'phase'
    x = _first(_assigned_from(fn, lambda v: isinstance(v, ast.Call) and isinstance(v.func, ast.Attribute) and v.func.attr == 'astype'
                              and v.args and _unp(v.args[0]) == 'np.int32'))
    if x:
        m[x] = 'im'
    x = _first(_assigned_from(fn, lambda v: _unp(v) in (f'np.isnan({ph})', f'~np.isfinite({ph})', f'{ph} != {ph}')))
    if x:
        m[x] = 'mask'
    x = _first(_assigned_from(fn, lambda v: isinstance(v, ast.Call) and _unp(v.func).endswith('create_string_buffer')))
    if x:
        m[x] = 'buf'
    x = _first(_assigned_from(fn, lambda v: isinstance(v, ast.Call) and _unp(v.func) == '_zygo_metadata_helper'))
    if x:
        m[x] = 'defaults'
    return rename_locals(fn, m)


def canon_write_codev(fn):
    arr = fn.args.args[0].arg
    m = {}
    x = _first(_assigned_from(fn, lambda v: _unp(v) in (f'np.isnan({arr})', f'~np.isfinite({arr})', f'{arr} != {arr}')))
    if x:
        m[x] = 'NDA_PIX'
    for n in ast.walk(fn):
        if isinstance(n, ast.Assign) and isinstance(n.targets[0], ast.Tuple) and _unp(n.value) == f'{arr}.shape' and len(n.targets[0].elts) == 2:
            a, b = n.targets[0].elts
            if isinstance(a, ast.Name) and isinstance(b, ast.Name):
                m[a.id], m[b.id] = 'n', 'm'
    hd = None
    for n in ast.walk(fn):
        if isinstance(n, ast.Assign) and len(n.targets) == 1 and isinstance(n.targets[0], ast.Name):
            try:
                tpl = fstring_template(n.value)
            except Untranslatable:
                continue
            if 'GRD ' in tpl and 'SSZ' in tpl:
                hd = n.targets[0].id
                mm = re.search(r'SSZ \{(\w+)\}', tpl)
                if mm:
                    m[mm.group(1)] = 'scale'
    if hd:
        m[hd] = 'hdr'
    for n in ast.walk(fn):
        if isinstance(n, ast.Call) and isinstance(n.func, ast.Attribute) and n.func.attr == 'reshape' and n.args \
                and isinstance(n.args[0], ast.Tuple) and len(n.args[0].elts) == 2 and isinstance(n.args[0].elts[0], ast.Name) \
                and 'ravel' in _unp(n.func.value):
            m[n.args[0].elts[0].id] = 'width'
    fn = rename_locals(fn, m)
    if arr != 'array':
        fn = copy.deepcopy(fn)
        for st in fn.body:
            _Rename({arr: 'array'}).visit(st)
    return fn


def canon_read_codev(fn):
    m = {}
    params = _first(_assigned_from(fn, lambda v: isinstance(v, ast.Call) and isinstance(v.func, ast.Attribute) and v.func.attr == 'split'
                                   and not v.args))
    idx = None
    loop = None
    for st in fn.body:
        if isinstance(st, ast.While) and params and re.search(rf"{params}\[(\w+)\]\.upper\(\) == '", _unp(st)):
            loop = st
            idx = re.search(rf"{params}\[(\w+)\]\.upper\(\) == '", _unp(st)).group(1)
    if params:
        m[params] = 'params'
    if idx:
        m[idx] = 'i'
    if loop is not None and isinstance(loop.test, ast.Compare) and isinstance(loop.test.comparators[0], ast.Name):
        m[loop.test.comparators[0].id] = 'l'
    if loop is not None:
        for st in loop.body:
            if not isinstance(st, ast.If):
                continue
            kw = re.search(r"== '(\w+)'", _unp(st.test))
            tg = [x.targets[0].id for x in st.body if isinstance(x, ast.Assign) and isinstance(x.targets[0], ast.Name)]
            if kw and kw.group(1) in ('WVL', 'SSZ', 'NDA') and len(tg) == 1:
                m[tg[0]] = kw.group(1).lower()
            if kw and kw.group(1) == 'GRD' and len(tg) == 2:
                # by the token position each takes, not by statement order
                pos = {}
                for x in st.body:
                    if isinstance(x, ast.Assign) and isinstance(x.targets[0], ast.Name):
                        mm = re.search(r'\+ (\d)\]', _unp(x.value))
                        if mm:
                            pos[int(mm.group(1))] = x.targets[0].id
                if set(pos) == {1, 2}:
                    m[pos[1]], m[pos[2]] = 'GRDTOK1', 'GRDTOK2'
    a = _first(_assigned_from(fn, lambda v: isinstance(v, ast.Call) and _unp(v.func) in ('np.fromstring', 'np.loadtxt', 'np.array')
                              and 'int' in _unp(v)))
    if a:
        m[a] = 'a'
        for n in ast.walk(fn):
            if isinstance(n, ast.Call) and _unp(n.func) == 'np.fromstring' and n.args and isinstance(n.args[0], ast.Name):
                m[n.args[0].id] = 'main_data'
        ndaname = next((k for k, v in m.items() if v == 'nda'), 'nda')
        x = _first(_assigned_from(fn, lambda v: isinstance(v, ast.Compare) and _unp(v.left) == a and _unp(v.comparators[0]) == ndaname))
        if x:
            m[x] = 'mask'
    fn = rename_locals(fn, m)
    # the two GRD values keep the names the reshape uses them under: first token -> `m`, second -> `n`
    return rename_locals(fn, {'GRDTOK1': 'm', 'GRDTOK2': 'n'})


def canon_ifg_load(fn):
    m = {}
    x = _assigned_from(fn, lambda v: isinstance(v, ast.Call) and _unp(v.func) in ('read_zygo_dat', 'read_zygo_datx'))
    for nm in x:
        m[nm] = 'zydat'
    fn = rename_locals(fn, m)
    # fold temporaries that only name an argument of the constructor call back into the call
    fn = copy.deepcopy(fn)
    single = {}
    for st in fn.body:
        if isinstance(st, ast.Assign) and len(st.targets) == 1 and isinstance(st.targets[0], ast.Name) and _unp(st.value).startswith("zydat['"):
            single[st.targets[0].id] = st.value
    calls = [n for n in ast.walk(fn) if isinstance(n, ast.Call) and _unp(n.func) == 'Interferogram']
    for c in calls:
        c.args = [copy.deepcopy(single.get(a.id, a)) if isinstance(a, ast.Name) else a for a in c.args]
        for k in c.keywords:
            if isinstance(k.value, ast.Name) and k.value.id in single:
                k.value = copy.deepcopy(single[k.value.id])
    return fn


class _Gen(Gen):
    def item(self, name, source, node_fn, build, fallback):
        if name in os.environ.get('C14_FORCE_FALLBACK', '').split(','):
            def build():     # noqa: F811  (test hook: exercise the fallback text)
                raise Untranslatable('forced fallback (test)')
        return super().item(name, source, node_fn, build, fallback)


def generate(repo):
    g = _Gen('C14', imports=['PrysmVerif.PyPrelude', 'PrysmVerif.Model.C14'], opens=['Model.C14'])
    io, _ = load(repo, 'prysm/io.py')
    ifg, _ = load(repo, 'prysm/interferogram.py')
    consts = module_env(io)
    _canon = {'read_zygo_dat': canon_read_zygo, 'write_zygo_dat': canon_write_zygo, 'write_codev_gridint': canon_write_codev,
              'read_codev_gridint': canon_read_codev, 'Interferogram.from_zygo_dat': canon_ifg_load}
    _memo = {}
    import pyexpr2lean as _P
    _raw_get_def = _P.get_def

    def get_def(mod, dotted):      # noqa: F811  normalised view of the functions the recognisers look at
        key = (id(mod), dotted)
        if key not in _memo:
            fn = _raw_get_def(mod, dotted)
            if dotted in _canon:
                try:
                    fn = _canon[dotted](inline_helpers(mod, fn))
                except (Untranslatable, KeyError, IndexError, AttributeError, ValueError, TypeError):
                    fn = _raw_get_def(mod, dotted)
            _memo[key] = fn
        return _memo[key]

    # ---- header table
    def table():
        fn = get_def(io, '_zygo_metadata_helper')
        env = dict(consts)
        ret = None
        for st in fn.body:
            if isinstance(st, ast.Assign) and len(st.targets) == 1 and isinstance(st.targets[0], ast.Name):
                env[st.targets[0].id] = pyeval(st.value, env)
            elif isinstance(st, ast.Return):
                ret = st.value
        if not isinstance(ret, ast.Dict):
            raise Untranslatable('helper does not return a dict literal')
        rows = []
        seen = set()
        for k, v in zip(ret.keys, ret.values):
            name = pyeval(k, env)
            if name in seen:
                raise Untranslatable(f'duplicate key {name}')
            seen.add(name)
            fmt, lo, hi, d = pyeval(v, env)
            rows.append('  ' + row_to_lean(name, fmt, lo, hi, d))
        return 'def zygoTable : List Row := [\n' + ',\n'.join(rows) + ']'
    g.item('zygo.table', 'prysm/io.py:_zygo_metadata_helper', lambda: get_def(io, '_zygo_metadata_helper'), table,
           'def zygoTable : List Row := []')

    # ---- constants
    def zconsts():
        inv = consts['ZYGO_INVALID_PHASE']
        res = consts['ZYGO_PHASE_RES_FACTORS']
        assert isinstance(inv, int) and isinstance(res, dict)
        fn = get_def(io, 'write_zygo_dat')
        buf = find_assign(fn, 'buf')
        assert ast.unparse(buf.func).endswith('create_string_buffer')
        hl = pyeval(buf.args[0], consts)
        return (f'def zygoInvalid : Int := {inv}\n'
                f'def zygoPhaseRes : List (Nat × Int) := [' + ', '.join(f'({k}, {v})' for k, v in sorted(res.items())) + ']\n'
                f'def zygoHeaderLen : Nat := {hl}')
    g.item('zygo.constants', 'prysm/io.py:ZYGO_*', lambda: get_const(io, 'ZYGO_PHASE_RES_FACTORS'), zconsts,
           f'def zygoInvalid : Int := {M}.zygoInvalid\ndef zygoPhaseRes : List (Nat × Int) := [(0, 4096), (1, 32768), (2, 131072)]\n'
           f'def zygoHeaderLen : Nat := {M}.headerLen')

    # ---- writer overrides
    def wsets():
        fn = get_def(io, 'write_zygo_dat')
        out = []
        for st in fn.body:
            if isinstance(st, ast.Assign) and len(st.targets) == 1 and isinstance(st.targets[0], ast.Subscript):
                t = st.targets[0]
                if isinstance(t.value, ast.Subscript) and ast.unparse(t.value.value) == 'defaults' \
                        and isinstance(t.value.slice, ast.Constant):
                    if ast.unparse(t.slice) != '3':
                        raise Untranslatable(f'writer edits column {ast.unparse(t.slice)} of the table')
                    out.append((t.value.slice.value, classify_src(fn, st.value)))
        if not out:
            raise Untranslatable('no defaults[...][3] = ... statements')
        return 'def zygoWriterSets : List (String × Src) := [' + ', '.join(f'({lean_str(k)}, {s})' for k, s in out) + ']'

    def classify_src(fn, v):
        if isinstance(v, ast.Constant) and isinstance(v.value, float):
            return f'.constFlt {fbits(v.value)}'
        if isinstance(v, ast.Constant) and isinstance(v.value, int) and not isinstance(v.value, bool) and v.value >= 0:
            return f'.constInt {v.value}'
        if isinstance(v, ast.BinOp) and isinstance(v.op, ast.Div) and isinstance(v.right, ast.Constant) \
                and isinstance(v.left, ast.Name):
            if v.left.id == 'dx' and v.right.value == 1000:
                return '.dxMmToM'
            if v.left.id == 'wavelength' and v.right.value == 1000000:
                return '.wvlUmToM'
        if isinstance(v, ast.Name):
            a = find_assigns(fn, v.id)
            if len(a) == 1 and re.fullmatch(r'(math\.floor|int|np\.floor|round)\((\w+(\.\w+)*)\.timestamp\(\)\)', ast.unparse(a[0])):
                return '.timestamp'
        u = ast.unparse(v)
        if u == 'phase.shape[0]':
            return '.shape 0'
        if u == 'phase.shape[1]':
            return '.shape 1'
        if u in ('phase.size * 4', '4 * phase.size'):
            return '.nbytes'
        raise Untranslatable(f'header value {u[:40]}')
    g.item('zygo.writer_sets', 'prysm/io.py:write_zygo_dat', lambda: get_def(io, 'write_zygo_dat'), wsets,
           f'def zygoWriterSets : List (String × Src) := {M}.writerSets')

    # ---- flips
    def zw_flip():
        fn = get_def(io, 'write_zygo_dat')
        t = FlipTracker({'phase': St(dim=2)}, writer=True)
        t.run(fn.body)
        calls = [c for c in find_calls(fn, 'file.write')]
        if len(calls) != 2:
            raise Untranslatable('expected two file.write calls')
        s = t.state(calls[1].args[0])
        if s is None or s.dim != 1:
            raise Untranslatable('second file.write does not write the flattened map')
        if ast.unparse(calls[0].args[0]) != 'buf':
            raise Untranslatable('first file.write does not write the header buffer')
        return f'def zygoWriteFlip : Flip := {flip_name(s)}'
    g.item('zygo.write_flip', 'prysm/io.py:write_zygo_dat', None, zw_flip, f'def zygoWriteFlip : Flip := {M}.zygoWriteFlip')

    def zr_flip():
        fn = get_def(io, 'read_zygo_dat')
        t = FlipTracker({}, writer=False)
        t.run(fn.body)
        rets = [n.value for n in ast.walk(fn) if isinstance(n, ast.Return)]
        if len(rets) != 1 or not isinstance(rets[0], ast.Dict):
            raise Untranslatable('reader does not return one dict')
        ph = None
        for k, v in zip(rets[0].keys, rets[0].values):
            if isinstance(k, ast.Constant) and k.value == 'phase':
                ph = v
        s = t.state(ph)
        if s is None or s.dim != 2 or s.nresh != 1:
            raise Untranslatable('returned phase is not a once-reshaped buffer')
        keys = [meta_key(fn, d) for d in s.dims]
        return (f'def zygoReadFlip : Flip := {flip_name(s)}\n'
                f'def zygoReadShapeKeys : String × String := ({lean_str(keys[0])}, {lean_str(keys[1])})')
    g.item('zygo.read_flip', 'prysm/io.py:read_zygo_dat', lambda: get_def(io, 'read_zygo_dat'), zr_flip,
           f'def zygoReadFlip : Flip := {M}.zygoReadFlip\ndef zygoReadShapeKeys : String × String := ("cn_height", "cn_width")')

    # ---- quantisation arithmetic
    def zw_pre():
        fn = get_def(io, 'write_zygo_dat')
        im = find_assign(fn, 'im')
        if not (isinstance(im, ast.Call) and isinstance(im.func, ast.Attribute) and im.func.attr == 'astype'
                and ast.unparse(im.args[0]) in ('np.int32', 'truenp.int32')):
            raise Untranslatable('im is not <expr>.astype(np.int32)')
        env = {'phase': 'x', 'wavelength': 'wvl'}
        stored = stored_header_value(fn, 'W')
        if stored is not None:
            env['W'] = stored
        tr = RTr(fn, env, 'rat', consts)
        body = tr.expr(im.func.value)
        marks = [st for st in fn.body if isinstance(st, ast.Assign) and ast.unparse(st.targets[0]) == 'im[mask]']
        if len(marks) != 1 or ast.unparse(find_assign(fn, 'mask')).replace('truenp.', 'np.') not in ('np.isnan(phase)', '~np.isfinite(phase)', 'phase != phase'):
            raise Untranslatable('invalid samples are not marked through im[mask] with mask = isnan(phase)')
        tr2 = RTr(fn, {}, 'int', consts)
        return (f'def zygoWritePre (r32 : Rat → Rat) (x wvl : Rat) : Rat := {body}\n'
                f'def zygoWriterInvalid : Int := {tr2.expr(marks[0].value)}')
    def stored_header_value(fn, name):
        """`name = struct.unpack_from(fmt, buf, lo)[0]` with `fmt, lo = defaults[KEY][:2]`: the value of header field KEY
        as stored (after rounding to the field's format) -> Lean term, else None"""
        vs = find_assigns(fn, name)
        if len(vs) != 1:
            return None
        v = vs[0]
        if not (isinstance(v, ast.Subscript) and ast.unparse(v.slice) == '0' and isinstance(v.value, ast.Call)
                and ast.unparse(v.value.func) == 'struct.unpack_from' and len(v.value.args) == 3
                and ast.unparse(v.value.args[1]) == 'buf'):
            return None
        a, b = ast.unparse(v.value.args[0]), ast.unparse(v.value.args[2])
        key = None
        for n in ast.walk(fn):
            if isinstance(n, ast.Assign) and isinstance(n.targets[0], ast.Tuple) \
                    and [ast.unparse(t) for t in n.targets[0].elts] == [a, b]:
                m = re.fullmatch(r"defaults\['(\w+)'\]\[:2\]", ast.unparse(n.value))
                if m:
                    key = m.group(1)
        if key is None:
            raise Untranslatable(f'{name} is unpacked from the header buffer at an unrecognised place')
        sets = [st.value for st in fn.body if isinstance(st, ast.Assign) and isinstance(st.targets[0], ast.Subscript)
                and ast.unparse(st.targets[0]) == f"defaults['{key}'][3]"]
        if len(sets) != 1:
            raise Untranslatable(f'header field {key} is not set exactly once')
        # the packing loop must come before the read-back
        loops = [st for st in fn.body if isinstance(st, ast.For) and 'struct.pack_into' in ast.unparse(st)]
        if len(loops) != 1 or loops[0].lineno > v.lineno:
            raise Untranslatable('header is read back before it is packed')
        if key != 'wavelength':
            raise Untranslatable(f'{name} read back from field {key}')
        return '(r32 ' + Tr({'wavelength': 'wvl', 'dx': 'dx'}, 'rat').expr(sets[0]) + ')'

    g.item('zygo.write_pre', 'prysm/io.py:write_zygo_dat', None, zw_pre,
           f'def zygoWritePre (r32 : Rat → Rat) (x wvl : Rat) : Rat := {M}.zygoWritePre r32 x wvl\ndef zygoWriterInvalid : Int := {M}.zygoInvalid')

    def zr_value():
        fn = get_def(io, 'read_zygo_dat')
        augs = [n for n in ast.walk(fn) if isinstance(n, ast.AugAssign) and ast.unparse(n.target) == 'phase']
        plain = [n for n in ast.walk(fn) if isinstance(n, ast.Assign) and len(n.targets) == 1 and ast.unparse(n.targets[0]) == 'phase'
                 and isinstance(n.value, ast.BinOp) and isinstance(n.value.op, (ast.Mult, ast.Div))
                 and 'phase' in {x.id for x in ast.walk(n.value) if isinstance(x, ast.Name)}]
        if len(augs) + len(plain) != 1 or (augs and not isinstance(augs[0].op, (ast.Mult, ast.Div))):
            raise Untranslatable('phase is not scaled by exactly one statement')
        if augs:
            scale_expr = ast.BinOp(left=ast.Name(id='phase', ctx=ast.Load()), op=augs[0].op, right=augs[0].value)
            scale_line = augs[0].lineno
        else:
            scale_expr = plain[0].value
            scale_line = plain[0].lineno
        keys = {nm: meta_key(fn, nm) for nm in ('W', 'S', 'O', 'res')}
        if ast.unparse(find_assign(fn, 'R')) != 'ZYGO_PHASE_RES_FACTORS[res]':
            raise Untranslatable('R is not looked up from phase_res')
        tr = RTr(fn, {'W': 'W', 'S': 'S', 'O': 'O', 'R': 'R', 'phase': 'n'}, 'rat', consts)
        body = tr.expr(scale_expr)
        # the invalid test
        tests = [st for st in ast.walk(fn) if isinstance(st, ast.Assign) and isinstance(st.targets[0], ast.Subscript)
                 and ast.unparse(st.targets[0].value) == 'phase' and ast.unparse(st.value) in ('np.nan', 'truenp.nan')]
        if len(tests) != 1:
            raise Untranslatable('no single phase[...] = nan statement')
        cond = tests[0].targets[0].slice
        if not (isinstance(cond, ast.Compare) and len(cond.ops) == 1 and type(cond.ops[0]) in _CMP
                and ast.unparse(cond.left) == 'phase' and ast.unparse(cond.comparators[0]) == 'ZYGO_INVALID_PHASE'):
            raise Untranslatable(f'invalid test {ast.unparse(cond)}')
        invop = _CMP[type(cond.ops[0])]
        if tests[0].lineno > scale_line:
            raise Untranslatable('invalid samples are tested after scaling')
        kl = ', '.join(f'({lean_str(a)}, {lean_str(b)})' for a, b in keys.items())
        return (f'def zygoReadValue (n W S O R : Rat) : Rat := {body}\n'
                f'def zygoReadScaleKeys : List (String × String) := [{kl}]\n'
                f'def zygoReaderInvalidTest : Cmp := {invop}')
    g.item('zygo.read_value', 'prysm/io.py:read_zygo_dat', None, zr_value,
           f'def zygoReadValue (n W S O R : Rat) : Rat := {M}.zygoReadValue n W S O R\n'
           'def zygoReadScaleKeys : List (String × String) := [("W", "wavelength"), ("S", "scale_factor"), '
           '("O", "obliquity_factor"), ("res", "phase_res")]\ndef zygoReaderInvalidTest : Cmp := .ge')

    # ---- truncation repair
    def ztrunc():
        fn = get_def(io, 'read_zygo_dat')
        handlers = [h for n in ast.walk(fn) if isinstance(n, ast.Try) for h in n.handlers]
        if len(handlers) != 1:
            raise Untranslatable('expected one except handler')
        body = handlers[0].body
        h = ast.Module(body=body, type_ignores=[])
        hdr_key, = {meta_key(fn, 'header_len')}
        env = {'len(contents)': 'flen', 'plen': 'plen', 'header_len': 'hdr', 'ilen': 'ilen'}
        tr = RTr(fn, env, 'int', consts)     # the whole function: a local hoisted out of the handler (offset) is followed
        # roles, not names: the zero buffer is the `bytes(<count>)`, the repair count is computed from its length,
        # the extension is `contents[<offset>:] + <zero buffer>`, the tail `<buffer>[-<count>:]` is set to the sentinel
        assigns = [st for st in body if isinstance(st, ast.Assign) and len(st.targets) == 1]
        zb = [st for st in assigns if isinstance(st.value, ast.Call) and ast.unparse(st.value.func) == 'bytes'
              and isinstance(st.targets[0], ast.Name)]
        if len(zb) != 1:
            raise Untranslatable('no single bytes(n) zero buffer in the handler')
        zname = zb[0].targets[0].id
        missing = tr.expr(zb[0].value.args[0])
        tr.env[f'len({zname})'] = 'missing'
        bts = [st for st in assigns if isinstance(st.targets[0], ast.Name) and st is not zb[0]
               and f'len({zname})' in ast.unparse(st.value)]
        if len(bts) != 1:
            raise Untranslatable('no single statement computing the number of samples to invalidate')
        btname = bts[0].targets[0].id
        bt = tr.expr(bts[0].value)
        ext = [st for st in assigns if isinstance(st.value, ast.BinOp) and isinstance(st.value.op, ast.Add)
               and ast.unparse(st.value.right) == zname and isinstance(st.value.left, ast.Subscript)
               and ast.unparse(st.value.left.value) == 'contents' and isinstance(st.value.left.slice, ast.Slice)
               and st.value.left.slice.upper is None and st.value.left.slice.lower is not None]
        if len(ext) != 1:
            raise Untranslatable('the data block is not extended as contents[offset:] + zeros')
        off = tr.expr(ext[0].value.left.slice.lower)
        marks = [st for st in assigns if isinstance(st.targets[0], ast.Subscript) and isinstance(st.targets[0].slice, ast.Slice)
                 and btname in ast.unparse(st.targets[0].slice)]
        if len(marks) != 1 or marks[0].targets[0].slice.upper is not None or marks[0].targets[0].slice.step is not None:
            raise Untranslatable('no single <buffer>[<lower>:] = sentinel statement')
        lower = Tr({btname: 'backtrack'}, 'int').expr(marks[0].targets[0].slice.lower)
        inv = RTr(h, {}, 'int', consts).expr(marks[0].value)
        warn = any(isinstance(st, ast.Expr) and isinstance(st.value, ast.Call)
                   and ast.unparse(st.value.func) in ('warnings.warn', 'warn') for st in body)    # unconditional, top level
        return (f'def zygoMissing (plen flen hdr ilen : Int) : Int := {missing}\n'
                f'def zygoExtOffset (hdr ilen : Int) : Int := {off}\n'
                f'def zygoBacktrack (missing : Int) : Int := {bt}\n'
                f'def zygoTailLower (backtrack : Int) : Int := {lower}\n'
                f'def zygoTailValue : Int := {inv}\n'
                f'def zygoTruncWarns : Bool := {"true" if warn else "false"}\n'
                f'def zygoHeaderLenKey : String := {lean_str(hdr_key)}')
    g.item('zygo.truncation', 'prysm/io.py:read_zygo_dat', None, ztrunc,
           f'def zygoMissing (plen flen hdr ilen : Int) : Int := {M}.modelMissing plen flen hdr ilen\n'
           'def zygoExtOffset (hdr ilen : Int) : Int := hdr + ilen * 2\n'
           f'def zygoBacktrack (missing : Int) : Int := {M}.modelBacktrack missing\n'
           f'def zygoTailLower (backtrack : Int) : Int := {M}.modelTailLower backtrack\n'
           f'def zygoTailValue : Int := {M}.zygoInvalid\n'
           'def zygoTruncWarns : Bool := true\ndef zygoHeaderLenKey : String := "header_size"')

    # ---- file layout: where the intensity and phase blocks start, how long they are, what they hold
    def zlayout():
        fn = get_def(io, 'read_zygo_dat')
        keys = {nm: meta_key(fn, nm) for nm in ('iw', 'ih', 'ib', 'pw', 'ph', 'header_len')}
        # the bucket default: `if ib == c: ib = d` (at most one re-assignment of ib)
        ib_assigns = find_assigns(fn, 'ib')
        ifs = [n for n in ast.walk(fn) if isinstance(n, ast.If) and any(isinstance(x, ast.Name) and x.id == 'ib' for x in ast.walk(n.test))]
        if len(ib_assigns) == 1 and not ifs:
            buckets = 'ib'
        elif len(ib_assigns) == 2 and len(ifs) == 1:
            t = ifs[0]
            if not (isinstance(t.test, ast.Compare) and len(t.test.ops) == 1 and isinstance(t.test.ops[0], ast.Eq)
                    and ast.unparse(t.test.left) == 'ib' and isinstance(t.test.comparators[0], ast.Constant)
                    and isinstance(t.test.comparators[0].value, int) and len(t.body) == 1 and not t.orelse
                    and isinstance(t.body[0], ast.Assign) and ast.unparse(t.body[0].targets[0]) == 'ib'
                    and isinstance(t.body[0].value, ast.Constant) and isinstance(t.body[0].value.value, int)):
                raise Untranslatable(f'bucket default {ast.unparse(t)[:50]}')
            buckets = f'if ib = ({t.test.comparators[0].value} : Int) then ({t.body[0].value.value} : Int) else ib'
        else:
            raise Untranslatable('ib is re-assigned in a way the translator does not understand')
        # RTr: a hoisted local (offset = header_len + ilen * 2, shared by the normal read and the repair) is followed symbolically
        tr = RTr(fn, {'iw': 'iw', 'ih': 'ih', 'ib': '(zygoBuckets ib)', 'pw': 'pw', 'ph': 'ph', 'header_len': 'hdr', 'ilen': 'ilen', 'plen': 'plen'},
                 'int', consts)
        if len(find_assigns(fn, 'ilen')) != 1 or len(find_assigns(fn, 'plen')) != 1:
            raise Untranslatable('ilen / plen are not assigned exactly once')
        ilen = tr.expr(find_assign(fn, 'ilen'))
        plen = tr.expr(find_assign(fn, 'plen'))

        def frombuffer(node):
            """(call node of np.frombuffer, reshape tuple or None) inside an assigned value"""
            calls = [c for c in ast.walk(node) if isinstance(c, ast.Call) and _unp(c.func).endswith('frombuffer')]
            if len(calls) != 1:
                raise Untranslatable('no single frombuffer call')
            rs = [c for c in ast.walk(node) if isinstance(c, ast.Call) and isinstance(c.func, ast.Attribute) and c.func.attr == 'reshape']
            shape = None
            if rs:
                a = rs[0].args[0] if len(rs[0].args) == 1 else ast.Tuple(elts=list(rs[0].args))
                if not isinstance(a, ast.Tuple):
                    raise Untranslatable('reshape argument')
                shape = [ast.unparse(e) for e in a.elts]
            c = calls[0]
            if len(c.args) != 1 or ast.unparse(c.args[0]) != 'contents':
                raise Untranslatable('frombuffer does not read the file contents')
            kw = {k.arg: k.value for k in c.keywords}
            if set(kw) != {'offset', 'count', 'dtype'}:
                raise Untranslatable(f'frombuffer keywords {sorted(kw)}')
            return kw, shape

        def dtype_code(e):
            txt = _unp(e)
            if isinstance(e, ast.Name) and txt not in ('int', 'float'):
                txt = _unp(find_assign(fn, e.id))
            table = {'np.uint16': 'u16native', "np.dtype(np.int32).newbyteorder('>')": 'i32big', "np.dtype('>i4')": 'i32big', "'>i4'": 'i32big',
                     "np.dtype(np.uint16)": 'u16native', "'<u2'": 'u16little', "np.dtype('<u2')": 'u16little'}
            if txt not in table:
                raise Untranslatable(f'dtype {txt}')
            return table[txt]
        ints = [v for v in find_assigns(fn, 'intensity') if 'frombuffer' in _unp(v)]
        if len(ints) != 1:
            raise Untranslatable('intensity is not read by one frombuffer')
        ikw, ishape = frombuffer(ints[0])
        if ishape is None:
            raise Untranslatable('intensity is not reshaped')
        trys = [n for n in ast.walk(fn) if isinstance(n, ast.Try)]
        if len(trys) != 1:
            raise Untranslatable('expected one try block')
        pst = [st for st in trys[0].body if isinstance(st, ast.Assign) and ast.unparse(st.targets[0]) == 'phase_raw']
        if len(pst) != 1:
            raise Untranslatable('phase_raw is not read in the try block')
        pkw, _ = frombuffer(pst[0].value)
        # frame selection
        sel = []
        action = fn.args.args[1].arg if len(fn.args.args) > 1 else 'multi_intensity_action'

        def action_key(e):
            """the compared expression, with a local that only names `<action>.lower()` folded back"""
            if isinstance(e, ast.Name) and e.id != action:
                vs = find_assigns(fn, e.id)
                if len(vs) == 1:
                    return ast.unparse(vs[0])
            return ast.unparse(e)
        for n in ast.walk(fn):
            if isinstance(n, ast.If) and isinstance(n.test, ast.Compare) and len(n.test.ops) == 1 and isinstance(n.test.ops[0], ast.Eq) \
                    and action in action_key(n.test.left) and isinstance(n.test.comparators[0], ast.Constant):
                if action_key(n.test.left) != f'{action}.lower()':
                    raise Untranslatable('frame selection key')
                if len(n.body) != 1 or not isinstance(n.body[0], ast.Assign) or ast.unparse(n.body[0].targets[0]) != 'intensity':
                    raise Untranslatable('frame selection body')
                v = n.body[0].value
                if isinstance(v, ast.Subscript) and ast.unparse(v.value) == 'intensity':
                    try:
                        k = pyeval(v.slice, {})
                    except Exception:
                        raise Untranslatable('frame index')
                    if not isinstance(k, int):
                        raise Untranslatable('frame index')
                    sel.append((n.lineno, n.test.comparators[0].value, f'some ({k} : Int)'))
                elif ast.unparse(v) in ('intensity.mean(axis=0)', 'intensity.mean(0)', 'np.mean(intensity, axis=0)'):
                    sel.append((n.lineno, n.test.comparators[0].value, 'none'))
                else:
                    raise Untranslatable(f'frame selection {ast.unparse(v)}')
        if not sel:
            raise Untranslatable('frame selection chain not recognised')
        sel.sort()
        sl = ', '.join(f'({lean_str(a)}, {b})' for _, a, b in sel)
        kl = ', '.join(f'({lean_str(a)}, {lean_str(b)})' for a, b in keys.items())
        return (f'def zygoBuckets (ib : Int) : Int := {buckets}\n'
                f'def zygoIlen (iw ih ib : Int) : Int := {ilen}\n'
                f'def zygoPlen (pw ph : Int) : Int := {plen}\n'
                f'def zygoIntOffset (hdr : Int) : Int := {tr.expr(ikw["offset"])}\n'
                f'def zygoIntCount (ilen : Int) : Int := {tr.expr(ikw["count"])}\n'
                f'def zygoIntDtype : String := {lean_str(dtype_code(ikw["dtype"]))}\n'
                f'def zygoIntShape : List String := [{", ".join(lean_str(x) for x in ishape)}]\n'
                f'def zygoPhaseOffset (hdr ilen : Int) : Int := {tr.expr(pkw["offset"])}\n'
                f'def zygoPhaseCount (plen : Int) : Int := {tr.expr(pkw["count"])}\n'
                f'def zygoPhaseDtype : String := {lean_str(dtype_code(pkw["dtype"]))}\n'
                f'def zygoFrameSel : List (String × Option Int) := [{sl}]\n'
                f'def zygoLayoutKeys : List (String × String) := [{kl}]')
    g.item('zygo.layout', 'prysm/io.py:read_zygo_dat', None, zlayout,
           f'def zygoBuckets (ib : Int) : Int := {M}.modelBuckets ib\n'
           f'def zygoIlen (iw ih ib : Int) : Int := {M}.modelIlen iw ih ib\n'
           'def zygoPlen (pw ph : Int) : Int := pw * ph\n'
           f'def zygoIntOffset (hdr : Int) : Int := {M}.modelIntOffset hdr\n'
           'def zygoIntCount (ilen : Int) : Int := ilen\n'
           'def zygoIntDtype : String := "u16native"\n'
           'def zygoIntShape : List String := ["ib", "ih", "iw"]\n'
           f'def zygoPhaseOffset (hdr ilen : Int) : Int := {M}.modelPhaseOffset hdr ilen\n'
           'def zygoPhaseCount (plen : Int) : Int := plen\n'
           'def zygoPhaseDtype : String := "i32big"\n'
           f'def zygoFrameSel : List (String × Option Int) := {M}.modelFrameSel\n'
           'def zygoLayoutKeys : List (String × String) := [("iw", "ac_width"), ("ih", "ac_height"), ("ib", "ac_n_buckets"), '
           '("pw", "cn_width"), ("ph", "cn_height"), ("header_len", "header_size")]')

    # ---- Code V: GRD token order
    def cv_grd():
        w = get_def(io, 'write_codev_gridint')
        tpl = fstring_template(find_assign(w, 'hdr'))
        tpl = re.sub(r'\{[^}]*\}(?=[A-Z])', '', tpl)      # optional keyword glued to the next one ({nnb}SSZ)
        toks = tpl.split('\n')[-2].split() if tpl.endswith('\n') else tpl.split('\n')[-1].split()
        if toks[0] != 'GRD':
            raise Untranslatable(f'header line starts with {toks[0]}')
        ax = shape_axes(w, 'array')
        a, b = toks[1].strip('{}'), toks[2].strip('{}')
        if a not in ax or b not in ax:
            raise Untranslatable('GRD values are not array.shape components')
        i = toks.index('WVL')
        wvl = toks[i + 1]
        j = toks.index('NDA')
        nda = int(toks[j + 1])
        k = toks.index('SSZ')
        if toks[k + 1] != '{scale}':
            raise Untranslatable('SSZ is not the scale')
        from fractions import Fraction
        fr = Fraction(wvl)
        marks = [st for st in w.body if isinstance(st, ast.Assign) and ast.unparse(st.targets[0]) == 'array[NDA_PIX]']
        if len(marks) != 1 or ast.unparse(find_assign(w, 'NDA_PIX')).replace('truenp.', 'np.') not in ('np.isnan(array)', '~np.isfinite(array)', 'array != array'):
            raise Untranslatable('invalid samples not marked via array[NDA_PIX]')
        wn = pyeval(marks[0].value, consts)
        r = get_def(io, 'read_codev_gridint')
        rs = find_assigns(r, 'a')
        resh = [v for v in rs if isinstance(v, ast.Call) and isinstance(v.func, ast.Attribute) and v.func.attr == 'reshape']
        if len(resh) != 1:
            raise Untranslatable('reader reshapes a number of times != 1')
        arg = resh[0].args[0] if len(resh[0].args) == 1 else ast.Tuple(elts=list(resh[0].args))
        dims = [ast.unparse(x) for x in arg.elts]
        tokidx = {}
        for nm in dims:
            vs = [v for v in find_assigns(r, nm)]
            vs = [v for v in vs if ast.unparse(v).startswith('int(params[i')]
            if len(vs) != 1:
                raise Untranslatable(f'{nm} is not read from one GRD token')
            mm = re.fullmatch(r'int\(params\[i \+ (\d)\]\)', ast.unparse(vs[0]))
            tokidx[nm] = int(mm.group(1))
        mask = find_assign(r, 'mask')
        if not (isinstance(mask, ast.Compare) and len(mask.ops) == 1 and type(mask.ops[0]) in _CMP
                and ast.unparse(mask.left) == 'a' and ast.unparse(mask.comparators[0]) == 'nda'):
            raise Untranslatable(f'reader mask is {ast.unparse(mask)}')
        maskop = _CMP[type(mask.ops[0])]
        return (f'def cvGrdWriteAxes : Nat × Nat := ({ax[a]}, {ax[b]})\n'
                f'def cvGrdReadToks : Nat × Nat := ({tokidx[dims[0]]}, {tokidx[dims[1]]})\n'
                f'def cvHeaderWvl : Rat := ({fr.numerator} : Rat) / {fr.denominator}\n'
                f'def cvHeaderNDA : Int := {nda}\n'
                f'def cvWriterNDA : Int := {wn}\n'
                f'def cvReaderMaskTest : Cmp := {maskop}')
    g.item('codev.header', 'prysm/io.py:write_codev_gridint+read_codev_gridint', lambda: get_def(io, 'write_codev_gridint'), cv_grd,
           'def cvGrdWriteAxes : Nat × Nat := (1, 0)\ndef cvGrdReadToks : Nat × Nat := (2, 1)\n'
           f'def cvHeaderWvl : Rat := 1\ndef cvHeaderNDA : Int := {M}.cvNDA\ndef cvWriterNDA : Int := {M}.cvNDA\ndef cvReaderMaskTest : Cmp := .eq')

    def cv_flips():
        w = get_def(io, 'write_codev_gridint')
        t = FlipTracker({'array': St(dim=2)}, writer=True)
        t.run(w.body)
        (sv,) = find_calls(w, 'np.savetxt')
        s = t.state(sv.args[1])
        if s is None:
            raise Untranslatable('np.savetxt does not write the tracked array')
        r = get_def(io, 'read_codev_gridint')
        t2 = FlipTracker({}, writer=False)
        t2.run(r.body)
        rets = [n.value for n in ast.walk(r) if isinstance(n, ast.Return)]
        s2 = t2.state(rets[0].elts[0])
        if s2 is None or s2.dim != 2 or s2.nresh != 1:
            raise Untranslatable('reader result is not a once-reshaped buffer')
        return f'def cvWriteFlip : Flip := {flip_name(s)}\ndef cvReadFlip : Flip := {flip_name(s2)}'
    g.item('codev.flips', 'prysm/io.py:write_codev_gridint+read_codev_gridint', lambda: get_def(io, 'read_codev_gridint'), cv_flips,
           f'def cvWriteFlip : Flip := {M}.cvWriteFlip\ndef cvReadFlip : Flip := {M}.cvReadFlip')

    # ---- Code V: scale choice, quantisation
    def cv_scale():
        w = get_def(io, 'write_codev_gridint')
        body = w.body
        first = last = None
        env = {'np.finfo(array.dtype).eps': 'eps'}
        for k, st in enumerate(body):
            if isinstance(st, ast.Assign) and len(st.targets) == 1 and isinstance(st.targets[0], ast.Name):
                u = ast.unparse(st.value)
                if u == 'np.nanmin(array)':
                    env[st.targets[0].id] = 'mn'
                    first = k if first is None else first
                if u == 'np.nanmax(array)':
                    env[st.targets[0].id] = 'mx'
                    first = k if first is None else first
                if st.targets[0].id == 'scale':
                    last = k
        if first is None or last is None or 'mn' not in env.values() or 'mx' not in env.values():
            raise Untranslatable('scale is not computed from nanmin/nanmax')
        stmts = [st for st in body[first:last + 1]
                 if not (isinstance(st, ast.Assign) and ast.unparse(st.value) in ('np.nanmin(array)', 'np.nanmax(array)'))]
        stmts = stmts + [ast.Return(value=ast.Name(id='scale', ctx=ast.Load()))]
        return 'def cvScale (mn mx eps : Rat) : Rat :=\n  ' + body_to_lean(stmts, Tr(env, 'rat'))
    g.item('codev.scale', 'prysm/io.py:write_codev_gridint', None, cv_scale,
           f'def cvScale (mn mx eps : Rat) : Rat := {M}.cvScale mn mx eps')

    def cv_quant():
        w = get_def(io, 'write_codev_gridint')
        cur = 'x'
        rounded = False
        for st in w.body:
            if not (isinstance(st, ast.Assign) and len(st.targets) == 1 and ast.unparse(st.targets[0]) == 'array'):
                continue
            v = st.value
            u = ast.unparse(v)
            if u in ('np.flipud(array)', 'np.fliplr(array)'):
                continue
            if re.fullmatch(r'(true)?np\.(around|round|rint)\(array\)\.astype\((true)?np\.int16\)', u):
                rounded = True
                break
            if isinstance(v, ast.BinOp):
                cur = Tr({'array': cur, 'scale': 's'}, 'rat').expr(v)
                continue
            raise Untranslatable(f'array = {u[:40]} before rounding')
        if not rounded:
            raise Untranslatable('no np.around(array).astype(np.int16)')
        r = get_def(io, 'read_codev_gridint')
        vs = [v for v in find_assigns(r, 'a') if isinstance(v, ast.BinOp) and isinstance(v.op, ast.Mult)]
        if len(vs) != 1 or not ast.unparse(vs[0].left).startswith('a.astype('):
            raise Untranslatable('reader scaling not of the form a.astype(..) * k')
        k = Tr({'wvl': 'wvl', 'ssz': 'ssz'}, 'rat').expr(vs[0].right)
        return (f'def cvWritePre (x s : Rat) : Rat := {cur}\n'
                f'def cvReadValue (n wvl ssz : Rat) : Rat := (n * {k})')
    g.item('codev.quant', 'prysm/io.py:write_codev_gridint+read_codev_gridint', None, cv_quant,
           f'def cvWritePre (x s : Rat) : Rat := {M}.cvWritePre x s\n'
           f'def cvReadValue (n wvl ssz : Rat) : Rat := {M}.cvReadValue n wvl ssz')

    # ---- Code V: the reader's guard against a last number that runs into the end of the file
    def cv_trailing():
        r = get_def(io, 'read_codev_gridint')
        fs = find_calls(r, 'np.fromstring') + find_calls(r, 'truenp.fromstring')
        if len(fs) != 1 or not isinstance(fs[0].args[0], ast.Name):
            raise Untranslatable('data block is not parsed by one np.fromstring(<name>, ...)')
        dname = fs[0].args[0].id
        ifs = [st for st in r.body if isinstance(st, ast.If) and ('isspace' in ast.unparse(st.test) or 'endswith' in ast.unparse(st.test))]
        if not ifs:
            return 'def cvReaderTrailingCheck : Bool := false'      # recognised: there is no such guard
        if len(ifs) != 1:
            raise Untranslatable('several white-space tests')
        st = ifs[0]
        t = st.test
        parts = t.values if isinstance(t, ast.BoolOp) and isinstance(t.op, ast.And) else [t]
        neg = [p for p in parts if isinstance(p, ast.UnaryOp) and isinstance(p.op, ast.Not)
               and ast.unparse(p.operand) == f'{dname}[-1].isspace()']
        guard = [p for p in parts if ast.unparse(p) in (f'len({dname}) > 0', f'{dname}', f'len({dname})', f'{dname} != \'\'')]
        if len(neg) != 1 or len(neg) + len(guard) != len(parts) or not guard:
            raise Untranslatable(f'white-space test {ast.unparse(t)[:60]}')
        warn = any(isinstance(x, ast.Expr) and isinstance(x.value, ast.Call) and ast.unparse(x.value.func) in ('warnings.warn', 'warn')
                   for x in st.body)
        sets = [x for x in st.body if isinstance(x, ast.Assign) and ast.unparse(x.targets[0]) in ('a[-1:]', 'a[-1]')
                and ast.unparse(x.value) == 'nda']
        masks = [x for x in r.body if isinstance(x, ast.Assign) and ast.unparse(x.targets[0]) == 'mask']
        ok = warn and len(sets) == 1 and len(masks) == 1 and masks[0].lineno > st.lineno and not st.orelse
        return f'def cvReaderTrailingCheck : Bool := {"true" if ok else "false"}'
    g.item('codev.trailing', 'prysm/io.py:read_codev_gridint', None, cv_trailing, 'def cvReaderTrailingCheck : Bool := true')

    # ---- Code V: comment lines, title line, header line
    def cv_preamble():
        r = get_def(io, 'read_codev_gridint')
        whiles = [st for st in r.body if isinstance(st, ast.While) and 'startswith' in _unp(st.test)]
        if len(whiles) != 1:
            raise Untranslatable('no single comment loop')
        t = whiles[0].test
        if not (isinstance(t, ast.Call) and isinstance(t.func, ast.Attribute) and t.func.attr == 'startswith' and len(t.args) == 1
                and isinstance(t.args[0], ast.Constant) and isinstance(t.args[0].value, str) and len(t.args[0].value) == 1):
            raise Untranslatable(f'comment test {_unp(t)[:50]}')
        marker = t.args[0].value
        recv = t.func.value
        if isinstance(recv, ast.Name):
            strip, txt = '', recv.id
        elif isinstance(recv, ast.Call) and isinstance(recv.func, ast.Attribute) and recv.func.attr == 'lstrip' and isinstance(recv.func.value, ast.Name):
            txt = recv.func.value.id
            if not recv.args:
                strip = ' \t\n\r\x0b\x0c'
            elif len(recv.args) == 1 and isinstance(recv.args[0], ast.Constant) and isinstance(recv.args[0].value, str):
                strip = recv.args[0].value
            else:
                raise Untranslatable('lstrip argument')
        else:
            raise Untranslatable(f'comment test {_unp(t)[:50]}')
        body = whiles[0].body
        nl = "'\\n'"

        def is_find(e, t=None):
            return ast.unparse(e) == f'{t or txt}.find({nl})'

        def resolves_to_find(e, scope):
            """`e` is txt.find(newline), or a local of `scope` whose (every) assignment is that"""
            if is_find(e):
                return True
            if isinstance(e, ast.Name):
                vs = [st.value for st in scope if isinstance(st, ast.Assign) and len(st.targets) == 1 and ast.unparse(st.targets[0]) == e.id]
                return bool(vs) and all(is_find(v) for v in vs)
            return False

        def past_newline(e, scope):
            """classify a slice bound: 'after' = find+1, 'at' = find, 'wrong' = another offset from find, None = not understood"""
            if resolves_to_find(e, scope):
                return 'at'
            if isinstance(e, ast.BinOp) and isinstance(e.op, (ast.Add, ast.Sub)) and isinstance(e.right, ast.Constant) and resolves_to_find(e.left, scope):
                return 'after' if isinstance(e.op, ast.Add) and e.right.value == 1 else 'wrong'
            if isinstance(e, ast.BinOp) and isinstance(e.op, ast.Add) and isinstance(e.left, ast.Constant) and resolves_to_find(e.right, scope):
                return 'after' if e.left.value == 1 else 'wrong'
            return None
        adv = [st for st in body if isinstance(st, ast.Assign) and ast.unparse(st.targets[0]) == txt]
        if len(adv) != 1 or not (isinstance(adv[0].value, ast.Subscript) and ast.unparse(adv[0].value.value) == txt
                                 and isinstance(adv[0].value.slice, ast.Slice) and adv[0].value.slice.upper is None and adv[0].value.slice.lower is not None):
            raise Untranslatable('comment loop does not advance the text by one slice')
        kind = past_newline(adv[0].value.slice.lower, body)
        if kind is None:
            raise Untranslatable('comment loop advance not understood')
        if not any(isinstance(st, ast.If) and any(isinstance(x, ast.Raise) for x in st.body) for st in body):
            raise Untranslatable('comment loop without the missing-newline guard')
        loop_ok = kind == 'after'           # recognised; `false` only for a recognised different offset
        # after the loop: title = txt[:find]; txt = txt[find+1:]; hdr = txt[:find]; data = txt[find+1:] (names of the temporaries are free)
        after = r.body[r.body.index(whiles[0]) + 1:]
        stop = next((k for k, st in enumerate(after) if isinstance(st, ast.Assign) and '.split()' in ast.unparse(st.value)), None)
        if stop is None:
            raise Untranslatable('header line is not split into tokens')
        seg = after[:stop]
        hdrname = ast.unparse(after[stop].value).replace('.split()', '')
        kinds = []
        for k, st in enumerate(seg):
            if isinstance(st, ast.Assign) and isinstance(st.value, ast.Subscript) and ast.unparse(st.value.value) == txt and isinstance(st.value.slice, ast.Slice):
                sl = st.value.slice
                if sl.step is not None or (sl.lower is None) == (sl.upper is None):
                    raise Untranslatable('preamble slice')
                kd = past_newline(sl.upper if sl.lower is None else sl.lower, seg[:k])
                if kd is None:
                    raise Untranslatable('preamble slice bound not understood')
                kinds.append((ast.unparse(st.targets[0]), 'head' if sl.lower is None else 'tail', kd))
            elif isinstance(st, ast.Assign) and is_find(st.value):
                pass
            elif isinstance(st, ast.If) and all(isinstance(x, ast.Raise) for x in st.body) and not st.orelse:
                pass
            else:
                raise Untranslatable(f'unexpected preamble statement {ast.unparse(st)[:40]}')
        # note: resolves_to_find looks at ALL assignments of the temporary before the use; the text is re-sliced in between,
        # so the order head(title) / tail(txt) / head(hdr) is what makes the second `find` the header's
        shape = [(nm == txt, hd) for nm, hd, _ in kinds]
        if shape != [(False, 'head'), (True, 'tail'), (False, 'head')] or kinds[2][0] != hdrname or kinds[0][0] != 'title':
            raise Untranslatable(f'preamble is not title / advance / header: {[(a_, b_) for a_, b_, _ in kinds]}')
        data = [st for st in after[stop:] if isinstance(st, ast.Assign) and ast.unparse(st.targets[0]) == 'main_data']
        if len(data) != 1 or not (isinstance(data[0].value, ast.Subscript) and ast.unparse(data[0].value.value) == txt
                                  and isinstance(data[0].value.slice, ast.Slice) and data[0].value.slice.upper is None and data[0].value.slice.lower is not None):
            raise Untranslatable('data block slice')
        dk = past_newline(data[0].value.slice.lower, seg)
        if dk is None:
            raise Untranslatable('data block bound not understood')
        split_ok = [kd for _, _, kd in kinds] == ['at', 'after', 'at'] and dk == 'after'
        return (f'def cvCommentStrip : List Nat := [{", ".join(str(c) for c in sorted({ord(ch) for ch in strip}))}]\n'
                f'def cvCommentMarkerCode : Nat := {ord(marker)}\n'
                f'def cvCommentLoopOk : Bool := {"true" if loop_ok else "false"}\n'
                f'def cvTitleHeaderSplit : Bool := {"true" if split_ok else "false"}')
    g.item('codev.preamble', 'prysm/io.py:read_codev_gridint', None, cv_preamble,
           'def cvCommentStrip : List Nat := [9, 32]\ndef cvCommentMarkerCode : Nat := 33\ndef cvCommentLoopOk : Bool := true\n'
           'def cvTitleHeaderSplit : Bool := true')

    # ---- Code V: header keywords the writer can emit / the reader understands
    def cv_tokens():
        r = get_def(io, 'read_codev_gridint')
        loops = [st for st in r.body if isinstance(st, ast.While) and ast.unparse(st.test) in ('i < l', 'i < len(params)')]
        if len(loops) != 1:
            raise Untranslatable('no single header token loop')
        table = []
        body = loops[0].body
        tokname = None
        for k, st in enumerate(body):
            if isinstance(st, ast.Assign) and len(st.targets) == 1 and isinstance(st.targets[0], ast.Name) \
                    and ast.unparse(st.value) == 'params[i].upper()' and tokname is None:
                tokname = st.targets[0].id          # the upper-cased token hoisted into a local
            elif isinstance(st, ast.If):
                cur, last = st, k == len(body) - 1
                while True:
                    tests = [r"params\[i\]\.upper\(\) == '(\w+)'"] + ([rf"{tokname} == '(\w+)'"] if tokname else [])
                    m = next((mm for mm in (re.fullmatch(t, ast.unparse(cur.test)) for t in tests) if mm), None)
                    if not m:
                        raise Untranslatable(f'token test {ast.unparse(cur.test)[:50]}')
                    incs = [x for x in cur.body if isinstance(x, ast.AugAssign) and ast.unparse(x.target) == 'i' and isinstance(x.op, ast.Add)]
                    if len(incs) != 1 or not isinstance(incs[0].value, ast.Constant):
                        raise Untranslatable(f'token {m.group(1)} does not advance by a constant')
                    # after a recognised keyword nothing else of the loop body may run: `continue`, or an if/elif/else chain
                    # that is the last statement of the body and ends in `else: raise`
                    ends_chain = False
                    nxt = None
                    if len(cur.orelse) == 1 and isinstance(cur.orelse[0], ast.If):
                        nxt = cur.orelse[0]
                    elif cur.orelse and not all(isinstance(x, ast.Raise) for x in cur.orelse):
                        raise Untranslatable('else branch of the token chain is not a raise')
                    if not isinstance(cur.body[-1], ast.Continue):
                        c2 = cur
                        while len(c2.orelse) == 1 and isinstance(c2.orelse[0], ast.If):
                            c2 = c2.orelse[0]
                        ends_chain = last and (cur is not st or bool(cur.orelse)) and bool(c2.orelse) and all(isinstance(x, ast.Raise) for x in c2.orelse)
                        if not ends_chain:
                            raise Untranslatable(f'token {m.group(1)} neither continues nor sits in a closing if/elif/else chain')
                    table.append((m.group(1), incs[0].value.value - 1))
                    if nxt is None:
                        break
                    cur = nxt
            elif not isinstance(st, ast.Raise):
                raise Untranslatable('unexpected statement in the token loop')
        w = get_def(io, 'write_codev_gridint')
        typs = None
        for st in w.body:
            if isinstance(st, ast.Assert) and isinstance(st.test, ast.Compare) and ast.unparse(st.test.left) == 'typ' \
                    and isinstance(st.test.ops[0], ast.In):
                typs = [str(x) for x in pyeval(st.test.comparators[0], consts)]
        if not typs:
            raise Untranslatable('no `assert typ in (...)`')
        nnbs = sorted({c.value for v in find_assigns(w, 'nnb')
                       for c in ([v] if isinstance(v, ast.Constant) else [v.body, v.orelse] if isinstance(v, ast.IfExp) else [])
                       if isinstance(c, ast.Constant) and isinstance(c.value, str)})
        if not nnbs:
            raise Untranslatable('nnb keyword strings not found')
        tpl = fstring_template(find_assign(w, 'hdr'))
        line = tpl.split('\n')[-2] if tpl.endswith('\n') else tpl.split('\n')[-1]
        heads = []
        for ty in typs:
            for nb in nnbs:
                txt = line.replace('{typ}', ty).replace('{nnb}', nb)
                txt = re.sub(r'\{[^}]*\}', '#', txt)
                heads.append(txt.split())
        def ll(x):
            return '[' + ', '.join('"' + re.sub(r'[^A-Za-z0-9_.#-]', '?', t) + '"' for t in x) + ']'
        return ('def cvReaderTokens : List (String × Nat) := [' + ', '.join(f'("{k}", {n})' for k, n in table) + ']\n'
                'def cvWriterHeaders : List (List String) := [' + ', '.join(ll(x) for x in heads) + ']')
    g.item('codev.tokens', 'prysm/io.py:write_codev_gridint+read_codev_gridint', None, cv_tokens,
           'def cvReaderTokens : List (String × Nat) := [("GRD", 2), ("WVL", 1), ("SSZ", 1), ("NDA", 1), ("SUR", 0)]\n'
           'def cvWriterHeaders : List (List String) := [["GRD", "#", "#", "SUR", "WVL", "1.0", "SSZ", "#", "NDA", "-32768"]]')

    # ---- Code V: text layout (number of lines must divide the number of samples or the reshape raises)
    def cv_width():
        w = get_def(io, 'write_codev_gridint')
        starts = [v for v in find_assigns(w, 'width') if not ('width' in {x.id for x in ast.walk(v) if isinstance(x, ast.Name)})]
        if len(starts) != 1:
            raise Untranslatable('width has no single initial value')

        def nat(e):
            if isinstance(e, ast.Constant) and isinstance(e.value, int) and e.value >= 0:
                return str(e.value)
            if ast.unparse(e) in ('array.size', 'array.shape[0] * array.shape[1]'):
                return 'size'
            if isinstance(e, ast.Call) and ast.unparse(e.func) in ('min', 'max') and len(e.args) == 2:
                return f'({ast.unparse(e.func)} {nat(e.args[0])} {nat(e.args[1])})'
            raise Untranslatable(f'width start {ast.unparse(e)[:40]}')
        start = nat(starts[0])
        loops = [st for st in w.body if isinstance(st, ast.While) and 'width' in ast.unparse(st.test)]
        if len(loops) > 1:
            raise Untranslatable('several width loops')
        if loops:
            lp = loops[0]
            if ast.unparse(lp.test).replace('(', '').replace(')', '') not in ('array.size % width != 0', 'array.size % width'):
                raise Untranslatable(f'loop test {ast.unparse(lp.test)}')
            if len(lp.body) != 1 or ast.unparse(lp.body[0]) != 'width -= 1':
                raise Untranslatable('loop body is not `width -= 1`')
            term = f'widthSearch size {start} {start}'
        else:
            term = start
        resh = [v for v in find_assigns(w, 'array') if 'reshape' in ast.unparse(v)]
        if len(resh) != 1 or ast.unparse(resh[0]).replace(' ', '') != 'array.ravel().reshape((width,array.size//width))':
            raise Untranslatable('layout reshape changed')
        return f'def cvWidth (size : Nat) : Nat := {term}'
    g.item('codev.layout', 'prysm/io.py:write_codev_gridint', None, cv_width, f'def cvWidth (size : Nat) : Nat := {M}.cvLines size')

    # ---- Interferogram save / load: unit conversions
    def ifg_units():
        w = get_def(io, 'write_zygo_dat')
        sets = {}
        for st in w.body:
            if isinstance(st, ast.Assign) and isinstance(st.targets[0], ast.Subscript):
                t = st.targets[0]
                if isinstance(t.value, ast.Subscript) and ast.unparse(t.value.value) == 'defaults':
                    sets[t.value.slice.value] = st.value
        dxw = Tr({'dx': 'dx'}, 'rat').expr(sets['lateral_resolution'])
        wvw = Tr({'wavelength': 'wvl'}, 'rat').expr(sets['wavelength'])
        ld = get_def(ifg, 'Interferogram.from_zygo_dat')
        calls = find_calls(ld, 'Interferogram')
        if len(calls) != 1:
            raise Untranslatable('from_zygo_dat does not build one Interferogram')
        c = calls[0]
        if ast.unparse(call_arg(c, 0, 'phase')) != "zydat['phase']":      # (temporaries are folded into the call by canon_ifg_load)
            raise Untranslatable('phase is not passed through')
        if ast.unparse(call_arg(c, None, 'meta')) != "zydat['meta']" or ast.unparse(call_arg(c, None, 'wavelength')) != 'None':
            raise Untranslatable('meta / wavelength arguments changed')
        res = [v for v in find_assigns(ld, 'res') if "zydat['meta']['lateral_resolution']" == ast.unparse(v)]
        if len(res) != 1:
            raise Untranslatable('res is not the lateral_resolution header field')
        dxr = Tr({'res': 'res'}, 'rat').expr(call_arg(c, None, 'dx'))
        init = get_def(ifg, 'Interferogram.__init__')
        augs = [n for n in ast.walk(init) if isinstance(n, ast.AugAssign) and ast.unparse(n.target) == 'wavelength']
        if len(augs) != 1 or not isinstance(augs[0].op, ast.Mult):
            raise Untranslatable('__init__ does not rescale the header wavelength once')
        gets = [ast.unparse(v) for v in find_assigns(init, 'wavelength')]
        if not any(x in gets for x in ("meta.get('wavelength', None)", "meta.get('wavelength')", "meta['wavelength']")):
            raise Untranslatable('__init__ does not take the wavelength from meta')
        wvr = Tr({'wavelength': 'w'}, 'rat').expr(ast.BinOp(left=ast.Name(id='wavelength', ctx=ast.Load()), op=ast.Mult(), right=augs[0].value))
        sv = get_def(ifg, 'Interferogram.save_zygo_dat')
        (wc,) = find_calls(sv, 'write_zygo_dat')
        def u(x):
            return None if x is None else ast.unparse(x)
        ok = (u(call_arg(wc, 1, 'phase')) == 'self.data' and u(call_arg(wc, 2, 'dx')) == 'self.dx'
              and u(call_arg(wc, 3, 'wavelength')) == 'self.wavelength')
        return (f'def zygoDxWrite (dx : Rat) : Rat := {dxw}\n'
                f'def zygoWvlWrite (wvl : Rat) : Rat := {wvw}\n'
                f'def ifgDxRead (res : Rat) : Rat := {dxr}\n'
                f'def ifgWvlRead (w : Rat) : Rat := {wvr}\n'
                f'def ifgSavePassesDataDxWavelength : Bool := {"true" if ok else "false"}')
    g.item('ifg.units', 'prysm/interferogram.py:Interferogram.save_zygo_dat+from_zygo_dat+__init__',
           lambda: get_def(ifg, 'Interferogram.from_zygo_dat'), ifg_units,
           'def zygoDxWrite (dx : Rat) : Rat := dx / 1000\ndef zygoWvlWrite (wvl : Rat) : Rat := wvl / 1000000\n'
           'def ifgDxRead (res : Rat) : Rat := res * 1000\ndef ifgWvlRead (w : Rat) : Rat := w * 1000000\n'
           'def ifgSavePassesDataDxWavelength : Bool := true')

    return g.finish()


if __name__ == '__main__':
    import sys
    text, items = generate(sys.argv[1] if len(sys.argv) > 1 else '/repo')
    print(text)
    for it in items:
        print('--', it)
