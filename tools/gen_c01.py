"""translator items for C01 (the three Fourier routes + executor caches) and shared helpers for C02.

What is pulled from the current source (prysm/fttools.py, prysm/propagation.py):
  * _prepare_czt_basis: `start`, both `arange` bounds, the three slice bounds of `h`, the sign with which the shift
    enters the two coordinate vectors, the signs of the three chirps, the `norm` factor;
  * ChirpZTransformExecutor.czt2/_setup_bases: which of shape/samples_out/shift/Q feeds the row and the column
    basis (resolved through the cache-key tuple), the chirp constants as rational functions, the FFT length
    arguments, the key fields, what is read while building, the order of the pipeline, iczt2 = conj.czt2.conj;
  * MatrixDFTExecutor._key/_setup_bases/dft2/idft2: key fields, what is read while building, which tuple component
    feeds X, Y, U, V, the exponent scalars as rational functions, the kernel signs, the normalisation;
  * propagation.focus/unfocus: fftshift(fft2(ifftshift(pad), norm='ortho')) shape, pad offset of pad2d.
"""
import ast
from pyexpr2lean import (Gen, Tr, Untranslatable, load, get_def, find_assign, find_assigns, find_returns,
                         elementwise, comp_parts, find_calls, call_arg)

M = 'Model.C01'


# ------------------------------------------------------------------------------------------------
# small symbolic helpers
# ------------------------------------------------------------------------------------------------
def u(e):
    return ast.unparse(e)


def assigns_in_order(fn):
    """[(target_text, value_node)] for simple and tuple assignments of a function body (all nesting levels), in source order"""
    out = []
    for n in sorted((x for x in ast.walk(fn) if isinstance(x, ast.Assign)), key=lambda x: (x.lineno, x.col_offset)):
        for t in n.targets:
            if isinstance(t, ast.Tuple) and isinstance(n.value, ast.Tuple) and len(t.elts) == len(n.value.elts):
                for a, b in zip(t.elts, n.value.elts):
                    out.append((u(a), b))
            elif isinstance(t, ast.Tuple):
                for k, a in enumerate(t.elts):
                    out.append((u(a), ast.Subscript(value=n.value, slice=ast.Constant(value=k), ctx=ast.Load())))
            else:
                out.append((u(t), n.value))
    return out


class Subst(ast.NodeTransformer):
    def __init__(self, env):
        self.env = env

    def visit_Name(self, node):
        if node.id in self.env:
            return self.env[node.id]
        return node


def resolve(expr, env, depth=8):
    """substitute local names by their defining expressions (env: name -> ast expr), repeatedly"""
    for _ in range(depth):
        new = Subst(env).visit(ast.parse(u(expr), mode='eval').body)
        if u(new) == u(expr):
            break
        expr = new
    return ast.parse(u(expr), mode='eval').body


def local_env(fn, stop_at=None):
    """name -> defining expression, for names assigned exactly once (tuple unpacks become subscripts)"""
    seen = {}
    multi = set(a.arg for a in fn.args.args)       # parameters are never substituted (re-normalisations `x = (x, x)`)
    for name, val in assigns_in_order(fn):
        if name in seen:
            multi.add(name)
        if any(isinstance(x, ast.Name) and x.id == name for x in ast.walk(val)):
            multi.add(name)
        seen[name] = val
    return {k: v for k, v in seen.items() if k not in multi and k.isidentifier()}


def tuple_index(expr, base_names):
    """`shape[1]`-like expression -> (base, index) if base text in base_names"""
    if isinstance(expr, ast.Subscript) and isinstance(expr.slice, ast.Constant) and isinstance(expr.slice.value, int):
        b = u(expr.value)
        if b in base_names:
            return base_names[b], expr.slice.value
    raise Untranslatable(f'not a component of a known tuple: {u(expr)}')


def lean_list(xs):
    return '[' + ', '.join('"%s"' % x for x in xs) + ']'


def config_reads(mod, fn, seen=None):
    """`config.X` attributes read in fn and (transitively) in the module-level functions it calls"""
    seen = seen if seen is not None else set()
    out = set()
    for n in ast.walk(fn):
        if isinstance(n, ast.Attribute) and isinstance(n.value, ast.Name) and n.value.id == 'config':
            out.add(f'config.{n.attr}')
        if isinstance(n, ast.Call) and isinstance(n.func, ast.Name) and n.func.id not in seen:
            seen.add(n.func.id)
            try:
                out |= config_reads(mod, get_def(mod, n.func.id), seen)
            except Untranslatable:
                pass
    return out


def self_reads(fn, exclude):
    """`self.X` attributes loaded in fn, other than the cache dictionaries themselves (hidden state a build could depend on)"""
    out = set()
    for n in ast.walk(fn):
        if isinstance(n, ast.Attribute) and isinstance(n.value, ast.Name) and n.value.id == 'self' \
                and isinstance(n.ctx, ast.Load) and n.attr not in exclude:
            out.add(f'self.{n.attr}')
    return out


def sign_of_augassign(fn, target, operand):
    """-1 if `target -= operand` occurs, +1 if `target += operand`, 0 if neither; Untranslatable if both / other"""
    found = []
    for n in ast.walk(fn):
        if isinstance(n, ast.AugAssign) and u(n.target) == target:
            if u(n.value) != operand:
                raise Untranslatable(f'{target} is modified by {u(n.value)}')
            if isinstance(n.op, ast.Sub):
                found.append(-1)
            elif isinstance(n.op, ast.Add):
                found.append(1)
            else:
                raise Untranslatable(f'{target} modified by operator {type(n.op).__name__}')
    if len(found) > 1:
        raise Untranslatable(f'{target} modified more than once')
    return found[0] if found else 0


def imag_sign(expr, env):
    """sign of the imaginary unit in a product such as `-2j * np.pi / Na * mn * X` or `1j * alpha * h` (after resolving
    local names): returns (+1|-1, magnitude_of_the_literal)"""
    e = resolve(expr, env)
    lits = [n for n in ast.walk(e) if isinstance(n, ast.Constant) and isinstance(n.value, complex)]
    if len(lits) != 1:
        raise Untranslatable(f'expected exactly one imaginary literal in {u(e)}')
    mag = lits[0].value.imag
    # count unary minus signs on the path is overkill: evaluate the product with every non-literal leaf := 1
    class One(ast.NodeTransformer):
        def visit_Name(self, node):
            return ast.Constant(value=1.0)

        def visit_Attribute(self, node):
            return ast.Constant(value=1.0)

        def visit_Call(self, node):
            return ast.Constant(value=1.0)

        def visit_Subscript(self, node):
            return ast.Constant(value=1.0)
    val = eval(compile(ast.fix_missing_locations(ast.Expression(One().visit(e))), '<gen>', 'eval'))
    if not isinstance(val, complex) or val.real != 0 or val.imag == 0:
        raise Untranslatable(f'not a pure imaginary product: {u(e)}')
    return (1 if val.imag > 0 else -1), abs(mag)


# ------------------------------------------------------------------------------------------------
def generate(repo, pid='C01', extra_imports=(), extra_opens=(), extra=None):
    """pid/extra: tools/gen_c02.py re-emits the same items into `Generated.C02` and appends its own"""
    g = Gen(pid, imports=['PrysmVerif.PyPrelude', 'PrysmVerif.Model.C01'] + list(extra_imports),
            opens=['Model.C01'] + list(extra_opens))
    ft, _ = load(repo, 'prysm/fttools.py')
    pr, _ = load(repo, 'prysm/propagation.py')

    # =========================================================================== _prepare_czt_basis
    def czt_glue():
        fn = get_def(ft, '_prepare_czt_basis')
        params = [a.arg for a in fn.args.args]
        if params[:5] != ['N', 'M', 'K', 'shift', 'alpha']:
            raise Untranslatable(f'parameters of _prepare_czt_basis: {params}')
        env = {'N': '(n : Int)', 'M': '(M : Int)', 'K': '(L : Int)'}
        tr = Tr(env)
        start = tr.expr(find_assign(fn, 'start'))
        tr2 = Tr({**env, 'start': 'st'})
        js = find_assigns(fn, 'j')
        if len(js) != 2:
            raise Untranslatable('expected two assignments to j')
        for j in js:
            if not (isinstance(j, ast.Call) and u(j.func).endswith('arange') and len(j.args) >= 2):
                raise Untranslatable(f'j is not an arange: {u(j)}')
        # slice writes to h, in source order
        writes = []
        for n in sorted((x for x in ast.walk(fn) if isinstance(x, ast.Assign)), key=lambda x: x.lineno):
            t = n.targets[0]
            if isinstance(t, ast.Subscript) and u(t.value) == 'h' and isinstance(t.slice, ast.Slice):
                if t.slice.step is not None:
                    raise Untranslatable('strided write to h')
                lo = tr2.expr(t.slice.lower) if t.slice.lower is not None else '(0 : Int)'
                hi = tr2.expr(t.slice.upper) if t.slice.upper is not None else '(L : Int)'
                writes.append((n.lineno, lo, hi, n.value))
        if len(writes) != 3:
            raise Untranslatable(f'expected three slice writes to h, found {len(writes)}')
        (l1, h1lo, h1hi, v1), (l2, h2lo, h2hi, v2), (l3, zlo, zhi, v3) = writes
        if not (isinstance(v3, ast.Constant) and v3.value == 0):
            raise Untranslatable('third write to h is not the zero fill')
        for v in (v1, v2):
            if u(v) not in ('np.pi * (j * j)', 'np.pi * j * j', 'np.pi * j ** 2', 'np.pi * (j ** 2)'):
                raise Untranslatable(f'h segment value {u(v)}')
        # the exponential must sit between the segment writes and the zero fill
        hexp = [n for n in ast.walk(fn) if isinstance(n, ast.Assign) and u(n.targets[0]) == 'h'
                and isinstance(n.value, ast.Call) and u(n.value.func).endswith('exp')]
        if len(hexp) != 1 or not (l2 < hexp[0].lineno < l3):
            raise Untranslatable('h = exp(...) is not between the segment writes and the zero fill')
        j1lo, j1hi = tr2.expr(js[0].args[0]), tr2.expr(js[0].args[1])
        j2lo, j2hi = tr2.expr(js[1].args[0]), tr2.expr(js[1].args[1])
        return (f'def cztGlueGen (n M L : Nat) : CztGlue :=\n'
                f'  let st : Int := {start}\n'
                f'  {{ start := st, j1Lo := {j1lo}, h1Lo := {h1lo}, h1Hi := {h1hi},\n'
                f'    j2Lo := {j2lo}, h2Lo := {h2lo}, h2Hi := {h2hi}, zLo := {zlo}, zHi := {zhi} }}\n'
                f'/-- upper bounds of the two `arange`s (their lengths must match the slices they are written to) -/\n'
                f'def cztJ1Hi (n M L : Nat) : Int :=\n  let st : Int := {start}\n  {j1hi}\n'
                f'def cztJ2Hi (n M L : Nat) : Int :=\n  let st : Int := {start}\n  {j2hi}')
    g.item('czt.glue', 'prysm/fttools.py:_prepare_czt_basis', lambda: get_def(ft, '_prepare_czt_basis'), czt_glue,
           f'def cztGlueGen (n M L : Nat) : CztGlue := {M}.cztGlue n M L\n'
           f'def cztJ1Hi (n M L : Nat) : Int := ({M}.cztGlue n M L).j1Lo + M\n'
           f'def cztJ2Hi (n M L : Nat) : Int := ({M}.cztGlue n M L).j2Lo + n - 1')

    def czt_signs():
        fn = get_def(ft, '_prepare_czt_basis')
        env = local_env(fn)
        if u(env.get('m')) != 'fftrange(M, dtype=dtype)' or u(env.get('n')) != 'fftrange(N, dtype=dtype)':
            raise Untranslatable('m / n are not fftrange(M) / fftrange(N)')
        s_out = sign_of_augassign(fn, 'm', 'shift')
        s_in = sign_of_augassign(fn, 'n', 'shift')
        a, b = find_assign(fn, 'a'), find_assign(fn, 'b')
        for nm, e, v in (('a', a, 'm'), ('b', b, 'n')):
            if not (isinstance(e, ast.Call) and u(e.func).endswith('exp')):
                raise Untranslatable(f'{nm} is not an exponential')
            r = u(resolve(e.args[0], {'prefix': env['prefix']}))
            names = sorted(x.id for x in ast.walk(e.args[0]) if isinstance(x, ast.Name))
            if names != sorted(['prefix', v, v, 'alpha']):
                raise Untranslatable(f'{nm} = exp({u(e.args[0])}) is not prefix * {v} * {v} * alpha')
        sa, maga = imag_sign(a.args[0], {'prefix': env['prefix']})
        sb, magb = imag_sign(b.args[0], {'prefix': env['prefix']})
        hexp = [n for n in ast.walk(fn) if isinstance(n, ast.Assign) and u(n.targets[0]) == 'h'
                and isinstance(n.value, ast.Call) and u(n.value.func).endswith('exp')][0]
        sh, magh = imag_sign(hexp.value.args[0], {})
        names = sorted(x.id for x in ast.walk(hexp.value.args[0]) if isinstance(x, ast.Name))
        if names != ['alpha', 'h'] or (maga, magb, magh) != (1.0, 1.0, 1.0) or 'np.pi' not in u(env['prefix']):
            raise Untranslatable('chirp exponents are not (+-)i*pi*alpha*x^2')
        # norm: b *= alpha / sqrt(alpha)
        nb = [n for n in ast.walk(fn) if isinstance(n, ast.AugAssign) and u(n.target) == 'b']
        ok_norm = len(nb) == 1 and isinstance(nb[0].op, ast.Mult) and u(nb[0].value) in (
            'alpha / np.sqrt(alpha)', 'np.sqrt(alpha)')
        Hs = u(find_assign(fn, 'H'))
        rets = [u(r) for r in find_returns(fn)]
        if not ok_norm or Hs != 'fft.fft(h)' or rets != ['(H, b, a)']:
            # textual facts: an unrecognised shape is "untranslatable" (hand model + widened correspondence), not "false"
            raise Untranslatable(f'norm / return statements not recognised: {[u(n) for n in nb]}, H = {Hs}, return {rets}')
        return (f'def cztShiftSignOut : Int := {s_out}\ndef cztShiftSignIn : Int := {s_in}\n'
                f'def cztChirpSignA : Int := {sa}\ndef cztChirpSignB : Int := {sb}\ndef cztChirpSignH : Int := {sh}\n'
                f'def cztNormIsSqrtAlphaOnB : Bool := {"true" if ok_norm else "false"}\n'
                f'def cztReturnsFftOfH : Bool := {"true" if (Hs == "fft.fft(h)" and rets == ["(H, b, a)"]) else "false"}')
    g.item('czt.signs', 'prysm/fttools.py:_prepare_czt_basis', lambda: get_def(ft, '_prepare_czt_basis'), czt_signs,
           'def cztShiftSignOut : Int := -1\ndef cztShiftSignIn : Int := -1\n'
           'def cztChirpSignA : Int := -1\ndef cztChirpSignB : Int := -1\ndef cztChirpSignH : Int := 1\n'
           'def cztNormIsSqrtAlphaOnB : Bool := true\ndef cztReturnsFftOfH : Bool := true')

    # =========================================================================== ChirpZTransformExecutor
    def czt_key_texts():
        fn = get_def(ft, 'ChirpZTransformExecutor.czt2')
        key = find_assign(fn, 'key')
        if not isinstance(key, ast.Tuple):
            raise Untranslatable('czt2 key is not a tuple literal')
        out = []
        for el in key.elts:
            if isinstance(el, ast.Starred):
                nm = u(el.value)
                out += [f'{nm}[0]', f'{nm}[1]']
            else:
                out.append(u(el))
        return fn, out

    def czt_wiring():
        fn, key = czt_key_texts()
        sb = get_def(ft, 'ChirpZTransformExecutor._setup_bases')
        unpack = [n for n in ast.walk(sb) if isinstance(n, ast.Assign) and isinstance(n.targets[0], ast.Tuple)
                  and u(n.value) == 'key']
        if len(unpack) != 1 or len(unpack[0].targets[0].elts) != len(key):
            raise Untranslatable('key unpacking in _setup_bases does not match the key built in czt2')
        k2 = {u(t): key[i] for i, t in enumerate(unpack[0].targets[0].elts)}     # name in _setup_bases -> text in czt2
        env = local_env(fn)
        bases = {'ary.shape': 'shape', 'samples_out': 'samples', 'shift': 'shift', 'Q': 'Q'}
        calls = find_calls(sb, '_prepare_czt_basis')
        if len(calls) != 2:
            raise Untranslatable('expected two _prepare_czt_basis calls')
        # which call is the row (axis 0) basis: the one whose outputs get [:, np.newaxis]
        assigns = {u(n.targets[0]): n for n in ast.walk(sb) if isinstance(n, ast.Assign) and isinstance(n.value, ast.Call)
                   and u(n.value.func) == '_prepare_czt_basis'}
        rows = {u(n.targets[0]) for n in ast.walk(sb) if isinstance(n, ast.Assign) and isinstance(n.value, ast.Subscript)
                and u(n.value.slice) == '(slice(None, None, None), np.newaxis)' or
                (isinstance(n, ast.Assign) and u(n.value).endswith('[:, np.newaxis]'))}
        out = {}
        for tgt, n in assigns.items():
            names = [u(t) for t in n.targets[0].elts]
            axis = 0 if all(x in rows for x in names) else (1 if not any(x in rows for x in names) else None)
            if axis is None:
                raise Untranslatable('mixed broadcasting of one basis triple')
            c = n.value
            args = [call_arg(c, i, kw) for i, kw in enumerate(['N', 'M', 'K', 'shift', 'alpha', 'dtype', 'norm'])]

            def to_czt2(e):
                return resolve(ast.parse(k2[u(e)], mode='eval').body, env) if u(e) in k2 else None
            a_in, a_out, a_K, a_s, a_al = (to_czt2(a) for a in args[:5])
            if None in (a_in, a_out, a_K, a_s, a_al):
                raise Untranslatable('argument of _prepare_czt_basis is not a key component')
            li = tuple_index(a_in, bases)
            lo = tuple_index(a_out, bases)
            sh = tuple_index(a_s, bases)
            if li[0] != 'shape' or lo[0] != 'samples' or sh[0] != 'shift':
                raise Untranslatable(f'basis arguments come from {li[0]}, {lo[0]}, {sh[0]}')
            scal = {'ary.shape[0]': 'shp0', 'ary.shape[1]': 'shp1', 'Q[0]': 'Q0', 'Q[1]': 'Q1'}
            alpha = Tr(scal, mode='num').expr(a_al)
            if not (isinstance(a_K, ast.Call) and u(a_K.func) == 'next_fast_len'):
                raise Untranslatable('FFT length is not next_fast_len(...)')
            ienv = {'ary.shape[0]': 'm', 'ary.shape[1]': 'n', 'samples_out[0]': 'M', 'samples_out[1]': 'N'}
            klen = Tr(ienv).expr(a_K.args[0])
            names_t = tuple(names)
            out[axis] = dict(w=f'{{ lenIn := {li[1]}, lenOut := {lo[1]}, shift := {sh[1]} }}', alpha=alpha, klen=klen,
                             names=names_t, K=u(args[2]))
        if set(out) != {0, 1}:
            raise Untranslatable('could not identify one row and one column basis')
        # FFT size tuple of fft2 in czt2: (K, L) must be (row length, column length)
        f2 = find_calls(fn, 'fft.fft2')
        if not (len(f2) == 1 and len(f2[0].args) == 2 and isinstance(f2[0].args[1], ast.Tuple) and len(f2[0].args[1].elts) == 2):
            raise Untranslatable('fft2 call of czt2 not recognised')
        size_ok = u(f2[0].args[1]) == f'({k2_inv(k2, out[0]["K"], key)}, {k2_inv(k2, out[1]["K"], key)})'
        txt = []
        for ax, nm in ((0, 'Row'), (1, 'Col')):
            txt.append(f'def czt{nm}Wiring : AxisWiring := {out[ax]["w"]}')
            txt.append(f'def czt{nm}Alpha {{K : Type}} [Num K] (shp0 shp1 Q0 Q1 : K) : K := {out[ax]["alpha"]}')
            txt.append(f'def czt{nm}FftLenArg (m n M N : Int) : Int := {out[ax]["klen"]}')
        txt.append(f'def cztFft2SizeIsRowCol : Bool := {"true" if size_ok else "false"}')
        return '\n'.join(txt)

    def k2_inv(k2, name_in_sb, key):
        return k2[name_in_sb]

    g.item('czt.wiring', 'prysm/fttools.py:ChirpZTransformExecutor.czt2/_setup_bases',
           lambda: get_def(ft, 'ChirpZTransformExecutor'), czt_wiring,
           f'def cztRowWiring : AxisWiring := {M}.wiringAxis0\n'
           'def cztRowAlpha {K : Type} [Num K] (shp0 shp1 Q0 Q1 : K) : K := Num.ofInt 1 / (shp0 * Q0)\n'
           'def cztRowFftLenArg (m n M N : Int) : Int := m + M - 1\n'
           f'def cztColWiring : AxisWiring := {M}.wiringAxis1\n'
           'def cztColAlpha {K : Type} [Num K] (shp0 shp1 Q0 Q1 : K) : K := Num.ofInt 1 / (shp1 * Q1)\n'
           'def cztColFftLenArg (m n M N : Int) : Int := n + N - 1\n'
           'def cztFft2SizeIsRowCol : Bool := true')

    def czt_pipeline():
        fn = get_def(ft, 'ChirpZTransformExecutor.czt2')
        # the statements after the unpacking of the components, normalised
        unp = [n for n in fn.body if isinstance(n, ast.Assign) and u(n.value) == 'self.components[key]']
        if len(unp) != 1:
            raise Untranslatable('components are not unpacked exactly once')
        names = [u(t) for t in unp[0].targets[0].elts]
        if names != ['brow', 'bcol', 'Hrow', 'Hcol', 'arow', 'acol']:
            raise Untranslatable(f'component names {names}')
        sb = get_def(ft, 'ChirpZTransformExecutor._setup_bases')
        stored = [u(n.value) for n in ast.walk(sb) if isinstance(n, ast.Assign) and u(n.targets[0]) == 'self.components[key]']
        if stored != ['(brow, bcol, Hrow, Hcol, arow, acol)']:
            raise Untranslatable(f'components stored as {stored}')
        idx = fn.body.index(unp[0])
        stmts = [u(s) for s in fn.body[idx + 1:] if not (isinstance(s, ast.Expr) and isinstance(s.value, ast.Constant))]
        # accept the two commuting orders of the row/column multiplications
        def canon(ss):
            out = []
            for s in ss:
                s = s.replace('gb = ary * brow', 'gb = ary * bcol#swap')
                out.append(s)
            return out
        want = ['gb = ary * bcol', 'gb *= brow', 'GBhat = fft.fft2(gb, (K, L))', 'GBhat *= Hcol', 'GBhat *= Hrow',
                'gxformed = fft.ifft2(GBhat)', 'gxformed = gxformed[:M, :N]', 'gxformed *= acol', 'gxformed *= arow',
                'return gxformed']
        mult = lambda ss: sorted(s for s in ss if '*=' in s or s.startswith('gb = ary *'))
        order = [s for s in stmts if '*=' not in s and not s.startswith('gb = ary *')]
        worder = [s for s in want if '*=' not in s and not s.startswith('gb = ary *')]
        if order != worder:
            raise Untranslatable(f'pipeline statements {order}')
        mm = mult(stmts)
        ok = sorted(x.replace('gb = ary * ', 'gb *= ') for x in mm) == sorted(x.replace('gb = ary * ', 'gb *= ') for x in mult(want))
        # positions: gb multiplications before fft2, H multiplications between fft2 and ifft2, a after the crop
        pos = {s: i for i, s in enumerate(stmts)}
        def between(s, lo, hi):
            return pos[lo] < pos[s] < pos[hi] if lo else pos[s] < pos[hi]
        try:
            ok = ok and all(pos[s] < pos['GBhat = fft.fft2(gb, (K, L))'] for s in stmts if s.startswith('gb'))
            ok = ok and all(pos['GBhat = fft.fft2(gb, (K, L))'] < pos[s] < pos['gxformed = fft.ifft2(GBhat)']
                            for s in stmts if s.startswith('GBhat *='))
            ok = ok and all(pos['gxformed = gxformed[:M, :N]'] < pos[s] for s in stmts if s.startswith('gxformed *='))
        except KeyError:
            ok = False
        ic = get_def(ft, 'ChirpZTransformExecutor.iczt2')
        body = [u(s) for s in ic.body if not (isinstance(s, ast.Expr) and isinstance(s.value, ast.Constant))]
        ok_i = body == ['if np.iscomplexobj(ary):\n    ary = np.conj(ary)',
                        'xformed = np.conj(self.czt2(ary, Q, samples_out, shift))', 'return xformed']
        if not ok_i:
            raise Untranslatable(f'iczt2 body not recognised: {body}')
        return (f'def cztPipelineIsBluestein : Bool := {"true" if ok else "false"}\n'
                f'def icztIsConjCztConj : Bool := {"true" if ok_i else "false"}')
    g.item('czt.pipeline', 'prysm/fttools.py:ChirpZTransformExecutor.czt2/iczt2',
           lambda: get_def(ft, 'ChirpZTransformExecutor.czt2'), czt_pipeline,
           'def cztPipelineIsBluestein : Bool := true\ndef icztIsConjCztConj : Bool := true')

    def czt_cache():
        fn, key = czt_key_texts()
        sb = get_def(ft, 'ChirpZTransformExecutor._setup_bases')
        unpack = [n for n in ast.walk(sb) if isinstance(n, ast.Assign) and isinstance(n.targets[0], ast.Tuple)
                  and u(n.value) == 'key'][0]
        used = {x.id for x in ast.walk(sb) if isinstance(x, ast.Name) and isinstance(x.ctx, ast.Load)}
        reads = [key[i] for i, t in enumerate(unpack.targets[0].elts) if u(t) in used]
        reads += sorted(config_reads(ft, sb)) + sorted(self_reads(sb, {'components'}))
        # the components are looked up and stored under the key itself
        get = [u(n) for n in ast.walk(fn) if isinstance(n, ast.Subscript) and u(n.value) == 'self.components']
        if set(get) != {'self.components[key]'}:
            raise Untranslatable('components are not indexed by key')
        return (f'def cztKeyFields : List String := {lean_list(key)}\n'
                f'def cztBuildReads : List String := {lean_list(reads)}')
    g.item('czt.cache', 'prysm/fttools.py:ChirpZTransformExecutor', lambda: get_def(ft, 'ChirpZTransformExecutor._setup_bases'),
           czt_cache, 'def cztKeyFields : List String := []\ndef cztBuildReads : List String := []')

    # =========================================================================== MatrixDFTExecutor
    def mdft_cache():
        kf = get_def(ft, 'MatrixDFTExecutor._key')
        (ret,) = find_returns(kf)
        if not isinstance(ret, ast.Tuple):
            raise Untranslatable('_key does not return a tuple literal')
        key = [u(e) for e in ret.elts]
        sb = get_def(ft, 'MatrixDFTExecutor._setup_bases')
        unpack = [n for n in ast.walk(sb) if isinstance(n, ast.Assign) and isinstance(n.targets[0], ast.Tuple)
                  and u(n.value) == 'key']
        if len(unpack) != 1 or len(unpack[0].targets[0].elts) != len(key):
            raise Untranslatable('key unpacking in _setup_bases does not match _key')
        used = {x.id for x in ast.walk(sb) if isinstance(x, ast.Name) and isinstance(x.ctx, ast.Load)}
        reads = [key[i] for i, t in enumerate(unpack[0].targets[0].elts) if u(t) in used]
        for r in sorted(config_reads(ft, sb)) + sorted(self_reads(sb, {'Ein', 'Eout'})):
            if r not in reads:
                reads.append(r)
        # every public entry point builds its key with _key and indexes both caches by it
        for meth in ('dft2', 'idft2'):
            f = get_def(ft, f'MatrixDFTExecutor.{meth}')
            if not find_calls(f, 'self._key') or 'self._setup_bases(key)' not in u(f):
                raise Untranslatable(f'{meth} does not go through _key/_setup_bases')
        return (f'def mdftKeyFields : List String := {lean_list(key)}\n'
                f'def mdftBuildReads : List String := {lean_list(reads)}')
    g.item('mdft.cache', 'prysm/fttools.py:MatrixDFTExecutor._key/_setup_bases',
           lambda: get_def(ft, 'MatrixDFTExecutor._setup_bases'), mdft_cache,
           'def mdftKeyFields : List String := []\ndef mdftBuildReads : List String := []')

    def mdft_wiring():
        sb = get_def(ft, 'MatrixDFTExecutor._setup_bases')
        kf = get_def(ft, 'MatrixDFTExecutor._key')
        (ret,) = find_returns(kf)
        key = [u(e) for e in ret.elts]
        env = local_env(sb)
        unpack = [n for n in ast.walk(sb) if isinstance(n, ast.Assign) and isinstance(n.targets[0], ast.Tuple)
                  and u(n.value) == 'key'][0]
        kname = {u(t): key[i] for i, t in enumerate(unpack.targets[0].elts)}      # Q, shp, samples, shift, fwd
        env = {k: v for k, v in env.items() if k not in kname}
        bases = {k: {'Q': 'Q', 'samples_in': 'shape', 'samples_out': 'samples', 'shift': 'shift'}.get(v) for k, v in kname.items()}
        bases = {k: v for k, v in bases.items() if v}
        # X, Y, U, V = (fftrange(n, ...) for n in (Ma, Na, Mb, Nb))
        gen = [n for n in ast.walk(sb) if isinstance(n, ast.Assign) and isinstance(n.targets[0], ast.Tuple)
               and isinstance(n.value, ast.GeneratorExp)]
        if len(gen) != 1:
            raise Untranslatable('coordinate vectors are not built by one generator expression')
        vec_names = [u(t) for t in gen[0].targets[0].elts]
        ge = gen[0].value
        if not (u(ge.elt).startswith('fftrange(') and isinstance(ge.generators[0].iter, ast.Tuple)):
            raise Untranslatable('coordinate vectors are not fftrange(...) over a tuple of lengths')
        lens = {}
        for nm, le in zip(vec_names, ge.generators[0].iter.elts):
            lens[nm] = tuple_index(resolve(le, env), bases)
        shifts = {}
        for nm in vec_names:
            ops = [n for n in ast.walk(sb) if isinstance(n, ast.AugAssign) and u(n.target) == nm]
            if len(ops) != 1 or not isinstance(ops[0].op, ast.Sub):
                raise Untranslatable(f'{nm} is not modified by exactly one `-= shift[k]`')
            shifts[nm] = tuple_index(ops[0].value, bases)
            if shifts[nm][0] != 'shift':
                raise Untranslatable(f'{nm} shifted by {u(ops[0].value)}')
        # the four exponentials
        exps = {}
        for nm in ('Eout', 'Ein'):
            vals = find_assigns(sb, nm)
            if len(vals) != 2:
                raise Untranslatable(f'{nm} is not assigned in exactly two branches')
            exps[nm] = vals
        ifs = [n for n in ast.walk(sb) if isinstance(n, ast.If) and u(n.test) == 'fwd']
        if len(ifs) != 1:
            raise Untranslatable('no `if fwd:` branch')

        def parse_exp(e):
            """exp(c * outer(A, B)[.T]) -> (sign, scale_expr_without_2pi_i, A, B, transposed)"""
            if not (isinstance(e, ast.Call) and u(e.func).endswith('exp') and len(e.args) == 1):
                raise Untranslatable(f'not an exponential: {u(e)}')
            arg = e.args[0]
            if not (isinstance(arg, ast.BinOp) and isinstance(arg.op, ast.Mult)):
                raise Untranslatable(f'exponent is not a product: {u(arg)}')
            outer, coef = arg.right, arg.left
            transposed = False
            if isinstance(outer, ast.Attribute) and outer.attr == 'T':
                transposed, outer = True, outer.value
            if not (isinstance(outer, ast.Call) and u(outer.func).endswith('outer') and len(outer.args) == 2):
                raise Untranslatable(f'exponent does not end in outer(...): {u(arg)}')
            sgn, mag = imag_sign(coef, {})
            if mag != 2.0 or 'np.pi' not in u(coef):
                raise Untranslatable(f'kernel prefactor is not 2*pi*i: {u(coef)}')
            # scale = coef / (+-2j*pi): replace the imaginary literal by 1 and np.pi by 1
            class Strip(ast.NodeTransformer):
                def visit_Constant(self, node):
                    return ast.Constant(value=1) if isinstance(node.value, complex) else node

                def visit_UnaryOp(self, node):
                    self.generic_visit(node)
                    if isinstance(node.op, ast.USub) and isinstance(node.operand, ast.Constant) and node.operand.value == 1:
                        return ast.Constant(value=1)
                    return node

                def visit_Attribute(self, node):
                    return ast.Constant(value=1) if u(node) == 'np.pi' else node
            scale = Strip().visit(ast.parse(u(coef), mode='eval').body)
            scale = resolve(scale, env)
            senv = {}
            for k, b in bases.items():
                for i in (0, 1):
                    senv[f'{k}[{i}]'] = {'shape': 'shp', 'Q': 'Q'}.get(b, b) + str(i)
            return sgn, Tr(senv, mode='num').expr(scale), u(outer.args[0]), u(outer.args[1]), transposed
        body_f = {u(s.targets[0]): s.value for s in ifs[0].body if isinstance(s, ast.Assign)}
        body_i = {u(s.targets[0]): s.value for s in ifs[0].orelse if isinstance(s, ast.Assign)}
        pf = {k: parse_exp(v) for k, v in body_f.items()}
        pi_ = {k: parse_exp(v) for k, v in body_i.items()}
        for k in ('Eout', 'Ein'):
            if pf[k][1:] != pi_[k][1:] or pf[k][0] != -pi_[k][0]:
                raise Untranslatable(f'forward and inverse {k} differ by more than the sign')
        # dft2: out = Eout @ ary @ Ein : Eout[k, j] so its rows are output samples -> (in, out) vector roles
        for meth in ('dft2', 'idft2'):
            f = get_def(ft, f'MatrixDFTExecutor.{meth}')
            o = u(find_assign(f, 'out')).replace('(', '').replace(')', '')
            if o != 'Eout @ ary @ Ein':
                raise Untranslatable(f'{meth}: out = {o}')
        so, sc_o, A, B, T = pf['Eout']
        # Eout must be (out, in): outer(in_vec, out_vec).T   or outer(out_vec, in_vec)
        in0, out0 = (A, B) if T else (B, A)
        si, sc_i, A, B, T = pf['Ein']
        # Ein must be (in, out): outer(in_vec, out_vec) or outer(out_vec, in_vec).T
        in1, out1 = (B, A) if T else (A, B)
        for (vi, vo) in ((in0, out0), (in1, out1)):
            if lens[vi][0] != 'shape' or lens[vo][0] != 'samples' or shifts[vi] != shifts[vo]:
                raise Untranslatable('a basis pairs vectors of the wrong kind / different shift components')
        w0 = f'{{ lenIn := {lens[in0][1]}, lenOut := {lens[out0][1]}, shift := {shifts[in0][1]} }}'
        w1 = f'{{ lenIn := {lens[in1][1]}, lenOut := {lens[out1][1]}, shift := {shifts[in1][1]} }}'
        # normalisation: Ein *= normy ; Eout *= normx ; normy = sqrt(alphay) ...
        nenv = dict(env)
        norms = {}
        for nm in ('Ein', 'Eout'):
            ops = [n for n in ast.walk(sb) if isinstance(n, ast.AugAssign) and u(n.target) == nm]
            if len(ops) != 1 or not isinstance(ops[0].op, ast.Mult):
                raise Untranslatable(f'{nm} is not scaled exactly once')
            r = resolve(ops[0].value, {k: v for k, v in nenv.items() if k.startswith('norm')})
            if not (isinstance(r, ast.Call) and u(r.func).endswith('sqrt')):
                raise Untranslatable(f'{nm} norm is not a square root: {u(r)}')
            senv = {}
            for k, b in bases.items():
                for i in (0, 1):
                    senv[f'{k}[{i}]'] = {'shape': 'shp', 'Q': 'Q'}.get(b, b) + str(i)
            norms[nm] = Tr(senv, mode='num').expr(resolve(r.args[0], env))
        return (f'def mdftEoutWiring : AxisWiring := {w0}\ndef mdftEinWiring : AxisWiring := {w1}\n'
                f'def mdftEoutScale {{K : Type}} [Num K] (shp0 shp1 Q0 Q1 : K) : K := {sc_o}\n'
                f'def mdftEinScale {{K : Type}} [Num K] (shp0 shp1 Q0 Q1 : K) : K := {sc_i}\n'
                f'def mdftEoutNormSq {{K : Type}} [Num K] (shp0 shp1 Q0 Q1 : K) : K := {norms["Eout"]}\n'
                f'def mdftEinNormSq {{K : Type}} [Num K] (shp0 shp1 Q0 Q1 : K) : K := {norms["Ein"]}\n'
                f'def mdftFwdSign : Int := {so}\ndef mdftFwdSignEin : Int := {si}')
    g.item('mdft.wiring', 'prysm/fttools.py:MatrixDFTExecutor._setup_bases/dft2/idft2',
           lambda: get_def(ft, 'MatrixDFTExecutor._setup_bases'), mdft_wiring,
           f'def mdftEoutWiring : AxisWiring := {M}.wiringAxis0\ndef mdftEinWiring : AxisWiring := {M}.wiringAxis1\n'
           'def mdftEoutScale {K : Type} [Num K] (shp0 shp1 Q0 Q1 : K) : K := Num.ofInt 1 / (shp0 * Q0)\n'
           'def mdftEinScale {K : Type} [Num K] (shp0 shp1 Q0 Q1 : K) : K := Num.ofInt 1 / (shp1 * Q1)\n'
           'def mdftEoutNormSq {K : Type} [Num K] (shp0 shp1 Q0 Q1 : K) : K := Num.ofInt 1 / (shp1 * Q1)\n'
           'def mdftEinNormSq {K : Type} [Num K] (shp0 shp1 Q0 Q1 : K) : K := Num.ofInt 1 / (shp0 * Q0)\n'
           'def mdftFwdSign : Int := -1\ndef mdftFwdSignEin : Int := -1')

    def mdft_fwd_flags():
        vals = {}
        for meth in ('dft2', 'idft2'):
            f = get_def(ft, f'MatrixDFTExecutor.{meth}')
            (c,) = find_calls(f, 'self._key')
            fw = call_arg(c, 4, 'fwd')
            sin = call_arg(c, 0, 'samples_in')
            if not isinstance(fw, ast.Constant) or u(sin) != 'ary.shape':
                raise Untranslatable(f'{meth}: key arguments')
            vals[meth] = fw.value
        return (f'def mdftDft2IsFwd : Bool := {"true" if vals["dft2"] else "false"}\n'
                f'def mdftIdft2IsFwd : Bool := {"true" if vals["idft2"] else "false"}')
    g.item('mdft.fwd', 'prysm/fttools.py:MatrixDFTExecutor.dft2/idft2', lambda: get_def(ft, 'MatrixDFTExecutor.dft2'),
           mdft_fwd_flags, 'def mdftDft2IsFwd : Bool := true\ndef mdftIdft2IsFwd : Bool := false')

    # =========================================================================== FFT route
    fft_route_items(g, ft, pr)
    if extra is not None:
        extra(g, ft, pr)
    return g.finish()


def fft_route_items(g, ft, pr):
    """items shared with C02: pad offset of pad2d, shape of focus / unfocus"""
    Mm = 'Model.C01'

    def pad_off():
        fn = get_def(ft, 'pad2d')
        elem = {'in_shape': 'n', 'out_shape': 'N', 'array.shape': 'n'}
        for _ in range(3):
            for nm in ['shape_diff', 'before', 'dbytwo', 'divby2']:
                if nm not in elem:
                    try:
                        elem[nm] = elementwise(find_assign(fn, nm, which=-1), elem)
                    except Untranslatable:
                        pass
        sl = find_assign(fn, 'slcs')
        elt, binds = comp_parts(sl)
        assert isinstance(elt, ast.Call) and ast.unparse(elt.func) == 'slice' and len(elt.args) == 2
        tr = Tr({k: elem[v] for k, v in binds.items()})
        out_len = elementwise(find_assign(fn, 'out_shape', which=0), {'in_shape': 'n'}, mode='rat', scalars={'Q': 'Q'})
        return (f'def padLo (n N : Int) : Int := {tr.expr(elt.args[0])}\n'
                f'def padHi (n N : Int) : Int := {tr.expr(elt.args[1])}\n'
                f'def padOutLen (n Q : Rat) : Rat := {out_len}')
    g.item('pad2d.slcs', 'prysm/fttools.py:pad2d', lambda: get_def(ft, 'pad2d'), pad_off,
           f'def padLo (n N : Int) : Int := N / 2 - n / 2\ndef padHi (n N : Int) : Int := N / 2 - n / 2 + n\n'
           'def padOutLen (n Q : Rat) : Rat := ((Rat.ceil (n * Q) : Int) : Rat)')

    def route(name, inner):
        def build():
            fn = get_def(pr, name)
            rets = find_returns(fn)
            env = {k: v for k, v in ((nm, val) for nm, val in assigns_in_order(fn)) if k == 'impulse_response'}
            (ret,) = rets
            r = resolve(ret, env)
            want = f"fft.fftshift(fft.{inner}(fft.ifftshift(padded_wavefront), norm='ortho'))"
            shape_ok = u(r) == want
            # padded_wavefront = pad2d(wavefunction, Q) if Q != 1 else wavefunction
            ifs = [n for n in fn.body if isinstance(n, ast.If)]
            pad_ok = len(ifs) == 1 and u(ifs[0].test) == 'Q != 1' and \
                [u(s) for s in ifs[0].body] == ['padded_wavefront = pad2d(wavefunction, Q)'] and \
                [u(s) for s in ifs[0].orelse] == ['padded_wavefront = wavefunction']
            if not pad_ok:
                raise Untranslatable(f'{name}: padding statements not recognised')
            if not (isinstance(r, ast.Call) and u(r.func) in ('fft.fftshift', 'fft.ifftshift')):
                raise Untranslatable(f'{name} does not return a shifted transform: {u(r)}')
            outer = u(r.func).split('.')[-1]
            mid = r.args[0]
            if not (isinstance(mid, ast.Call) and u(mid.func) in ('fft.fft2', 'fft.ifft2')):
                raise Untranslatable(f'{name}: middle operation {u(mid)}')
            nrm = [k.value.value for k in mid.keywords if k.arg == 'norm' and isinstance(k.value, ast.Constant)]
            innr = mid.args[0]
            if not (isinstance(innr, ast.Call) and u(innr.func) in ('fft.fftshift', 'fft.ifftshift')):
                raise Untranslatable(f'{name}: inner operation {u(innr)}')
            nm = name.capitalize()
            return (f'def {name}OuterIsFftshift : Bool := {"true" if outer == "fftshift" else "false"}\n'
                    f'def {name}InnerIsIfftshift : Bool := {"true" if u(innr.func).endswith(".ifftshift") else "false"}\n'
                    f'def {name}UsesOrtho : Bool := {"true" if nrm == ["ortho"] else "false"}\n'
                    f'def {name}Transform : String := "{u(mid.func).split(".")[-1]}"\n'
                    f'def {name}PadsWithPad2dQ : Bool := {"true" if pad_ok else "false"}')
        return build
    def dispatch(name, fwd):
        def build():
            fn = get_def(pr, name)
            cm = find_calls(fn, 'mdft.dft2' if fwd else 'mdft.idft2')
            cc = find_calls(fn, 'czt.czt2' if fwd else 'czt.iczt2')
            if len(cm) != 1 or len(cc) != 1:
                raise Untranslatable(f'{name}: expected one matrix-DFT and one chirp-Z call')
            am = {k.arg: u(k.value) for k in cm[0].keywords}
            ac = {k.arg: u(k.value) for k in cc[0].keywords}
            if cm[0].args or cc[0].args:
                raise Untranslatable(f'{name}: positional engine arguments')
            same = am == ac and set(am) == {'ary', 'Q', 'samples_out', 'shift'}
            return f'def {name}EnginesGetSameArgs : Bool := {"true" if same else "false"}'
        return build
    for name, fwd in (('focus_fixed_sampling', True), ('unfocus_fixed_sampling', False)):
        g.item(f'{name}.dispatch', f'prysm/propagation.py:{name}', (lambda nm: (lambda: get_def(pr, nm)))(name),
               dispatch(name, fwd), f'def {name}EnginesGetSameArgs : Bool := true')

    for name, inner in (('focus', 'fft2'), ('unfocus', 'ifft2')):
        g.item(f'{name}.route', f'prysm/propagation.py:{name}', (lambda nm: (lambda: get_def(pr, nm)))(name), route(name, inner),
               f'def {name}OuterIsFftshift : Bool := true\ndef {name}InnerIsIfftshift : Bool := true\n'
               f'def {name}UsesOrtho : Bool := true\ndef {name}Transform : String := "{inner}"\n'
               f'def {name}PadsWithPad2dQ : Bool := true')


def force_fallbacks():
    """self-test aid: make every item use its fallback text (what the check sees after a refactor the translator does
    not understand); `gen_c01.py --fallbacks <repo>` prints that file, which Props/C01.lean must still build against"""
    import pyexpr2lean as P
    orig = P.Gen.item

    def item(self, name, source, node_fn, build, fallback):
        def bad():
            raise P.Untranslatable('forced fallback')
        return orig(self, name, source, node_fn, bad, fallback)
    P.Gen.item = item


if __name__ == '__main__':
    import sys
    if '--fallbacks' in sys.argv:
        sys.argv.remove('--fallbacks')
        force_fallbacks()
    text, items = generate(sys.argv[1] if len(sys.argv) > 1 else '/repo')
    print(text)
    for it in items:
        print('--', it)
