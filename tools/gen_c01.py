"""translator items for C01 (the three Fourier routes + executor caches) and shared helpers for C02.

What is pulled from the current source (prysm/fttools.py, prysm/propagation.py):
  * _prepare_czt_basis: `start`, both `arange` bounds, the three slice bounds of `h`, the sign with which the shift
    enters the two coordinate vectors, the signs of the three chirps, the `norm` factor;
  * ChirpZTransformExecutor.czt2/_setup_bases: which of shape/samples_out/shift/Q feeds the row and the column
    basis (resolved through the cache-key tuple), the chirp constants as rational functions, the FFT length
    arguments, the key fields, what is read while building, the order of the pipeline, iczt2 = conj.czt2.conj;
  * MatrixDFTExecutor._key/_setup_bases/dft2/idft2: key fields, what is read while building, which tuple component
    feeds X, Y, U, V, the exponent scalars as rational functions, the kernel signs, the normalisation;
  * propagation.focus/unfocus: fftshift(fft2(ifftshift(pad), norm='ortho')) shape, pad offset of pad2d.
"""
import ast
from pyexpr2lean import (Gen, Tr, Untranslatable, load, get_def, find_assign, find_assigns, find_returns,
                         elementwise, comp_parts, find_calls, call_arg, fn_to_lean)

M = 'Model.C01'


# ------------------------------------------------------------------------------------------------
# small symbolic helpers
# ------------------------------------------------------------------------------------------------
def u(e):
    return ast.unparse(e)


def assigns_in_order(fn):
    """[(target_text, value_node)] for simple and tuple assignments of a function body (all nesting levels), in source order"""
    out = []
    for n in sorted((x for x in ast.walk(fn) if isinstance(x, ast.Assign)), key=lambda x: (x.lineno, x.col_offset)):
        for t in n.targets:
            if isinstance(t, ast.Tuple) and isinstance(n.value, ast.Tuple) and len(t.elts) == len(n.value.elts):
                for a, b in zip(t.elts, n.value.elts):
                    out.append((u(a), b))
            elif isinstance(t, ast.Tuple):
                for k, a in enumerate(t.elts):
                    out.append((u(a), ast.Subscript(value=n.value, slice=ast.Constant(value=k), ctx=ast.Load())))
            else:
                out.append((u(t), n.value))
    return out


class Subst(ast.NodeTransformer):
    def __init__(self, env):
        self.env = env

    def visit_Name(self, node):
        if node.id in self.env:
            return self.env[node.id]
        return node


def resolve(expr, env, depth=8):
    """substitute local names by their defining expressions (env: name -> ast expr), repeatedly"""
    for _ in range(depth):
        new = Subst(env).visit(ast.parse(u(expr), mode='eval').body)
        if u(new) == u(expr):
            break
        expr = new
    return ast.parse(u(expr), mode='eval').body


def local_env(fn, stop_at=None):
    """name -> defining expression, for names assigned exactly once (tuple unpacks become subscripts)"""
    seen = {}
    multi = set(a.arg for a in fn.args.args)       # parameters are never substituted (re-normalisations `x = (x, x)`)
    for name, val in assigns_in_order(fn):
        if name in seen:
            multi.add(name)
        if any(isinstance(x, ast.Name) and x.id == name for x in ast.walk(val)):
            multi.add(name)
        seen[name] = val
    return {k: v for k, v in seen.items() if k not in multi and k.isidentifier()}


def tuple_index(expr, base_names):
    """`shape[1]`-like expression -> (base, index) if base text in base_names"""
    if isinstance(expr, ast.Subscript) and isinstance(expr.slice, ast.Constant) and isinstance(expr.slice.value, int):
        b = u(expr.value)
        if b in base_names:
            return base_names[b], expr.slice.value
    raise Untranslatable(f'not a component of a known tuple: {u(expr)}')


def lean_list(xs):
    return '[' + ', '.join('"%s"' % x for x in xs) + ']'


def config_reads(mod, fn, seen=None):
    """`config.X` attributes read in fn and (transitively) in the module-level functions it calls"""
    seen = seen if seen is not None else set()
    out = set()
    for n in ast.walk(fn):
        if isinstance(n, ast.Attribute) and isinstance(n.value, ast.Name) and n.value.id == 'config':
            out.add(f'config.{n.attr}')
        if isinstance(n, ast.Call) and isinstance(n.func, ast.Name) and n.func.id not in seen:
            seen.add(n.func.id)
            try:
                out |= config_reads(mod, get_def(mod, n.func.id), seen)
            except Untranslatable:
                pass
    return out


def self_reads(fn, exclude):
    """`self.X` attributes loaded in fn, other than the cache dictionaries themselves (hidden state a build could depend on)"""
    out = set()
    for n in ast.walk(fn):
        if isinstance(n, ast.Attribute) and isinstance(n.value, ast.Name) and n.value.id == 'self' \
                and isinstance(n.ctx, ast.Load) and n.attr not in exclude:
            out.add(f'self.{n.attr}')
    return out


def sign_of_augassign(fn, target, operand):
    """-1 if `target -= operand` occurs, +1 if `target += operand`, 0 if neither; Untranslatable if both / other"""
    found = []
    for n in ast.walk(fn):
        if isinstance(n, ast.AugAssign) and u(n.target) == target:
            if u(n.value) != operand:
                raise Untranslatable(f'{target} is modified by {u(n.value)}')
            if isinstance(n.op, ast.Sub):
                found.append(-1)
            elif isinstance(n.op, ast.Add):
                found.append(1)
            else:
                raise Untranslatable(f'{target} modified by operator {type(n.op).__name__}')
    if len(found) > 1:
        raise Untranslatable(f'{target} modified more than once')
    return found[0] if found else 0


def imag_sign(expr, env):
    """sign of the imaginary unit in a product such as `-2j * np.pi / Na * mn * X` or `1j * alpha * h` (after resolving
    local names): returns (+1|-1, magnitude_of_the_literal)"""
    e = resolve(expr, env)
    lits = [n for n in ast.walk(e) if isinstance(n, ast.Constant) and isinstance(n.value, complex)]
    if len(lits) != 1:
        raise Untranslatable(f'expected exactly one imaginary literal in {u(e)}')
    mag = lits[0].value.imag
    # count unary minus signs on the path is overkill: evaluate the product with every non-literal leaf := 1
    class One(ast.NodeTransformer):
        def visit_Name(self, node):
            return ast.Constant(value=1.0)

        def visit_Attribute(self, node):
            return ast.Constant(value=1.0)

        def visit_Call(self, node):
            return ast.Constant(value=1.0)

        def visit_Subscript(self, node):
            return ast.Constant(value=1.0)
    val = eval(compile(ast.fix_missing_locations(ast.Expression(One().visit(e))), '<gen>', 'eval'))
    if not isinstance(val, complex) or val.real != 0 or val.imag == 0:
        raise Untranslatable(f'not a pure imaginary product: {u(e)}')
    return (1 if val.imag > 0 else -1), abs(mag)



# ------------------------------------------------------------------------------------------------
# path-specialised sequential symbolic evaluation (renamed locals, aliases, hoisted factors, `x if c else y`, if/else)
# ------------------------------------------------------------------------------------------------
def flatten_mul(e):
    """factors of a product, in any association"""
    if isinstance(e, ast.BinOp) and isinstance(e.op, ast.Mult):
        return flatten_mul(e.left) + flatten_mul(e.right)
    return [e]


def seq_env(stmts, assume=None, stop=(), env=None, on_stmt=None):
    """Walk statements in source order and return {local name: defining expression} in which every EARLIER local has been
    substituted (so renamed locals, aliases, hoisted common factors and re-assignments of a parameter such as `wvl = wvl / 1e3` are
    followed).  `assume(test_node)` -> True / False decides `if` statements and conditional expressions (None: undecided, the
    branches are merged and a name they define differently becomes unknown).  Names in `stop`, and names unpacked from a generator
    expression, stay opaque.  Augmented assignments fold into the expression (`E *= n` -> `E * n`).  `try/except` handlers are
    walked (cache-miss bodies).  `on_stmt(stmt, env)` is called before each statement is processed."""
    env = dict(env or {})
    opaque = set(stop)

    class Sub(ast.NodeTransformer):
        def visit_Name(self, node):
            if isinstance(node.ctx, ast.Load) and node.id in env and node.id not in opaque:
                return ast.parse(u(env[node.id]), mode='eval').body
            return node

        def visit_IfExp(self, node):
            d = assume(node.test) if assume else None
            if d is True:
                return self.visit(node.body)
            if d is False:
                return self.visit(node.orelse)
            return self.generic_visit(node)

    def sub(e):
        return Sub().visit(ast.parse('(' + u(e) + ')', mode='eval').body)

    def run(body):
        nonlocal env
        for st in body:
            if on_stmt:
                on_stmt(st, env)
            if isinstance(st, ast.Assign) and len(st.targets) == 1:
                t = st.targets[0]
                if isinstance(t, ast.Name):
                    if t.id not in opaque:
                        env[t.id] = sub(st.value)
                elif isinstance(t, ast.Tuple) and all(isinstance(x, ast.Name) for x in t.elts):
                    if isinstance(st.value, ast.Tuple) and len(st.value.elts) == len(t.elts):
                        vals = [sub(v) for v in st.value.elts]
                        for x, v in zip(t.elts, vals):
                            if x.id not in opaque:
                                env[x.id] = v
                    elif isinstance(st.value, ast.GeneratorExp):
                        for x in t.elts:
                            opaque.add(x.id)
                            env.pop(x.id, None)
                    else:
                        v = sub(st.value)
                        for k, x in enumerate(t.elts):
                            if x.id not in opaque:
                                env[x.id] = ast.Subscript(value=v, slice=ast.Constant(value=k), ctx=ast.Load())
            elif isinstance(st, ast.AugAssign) and isinstance(st.target, ast.Name):
                nm = st.target.id
                if nm not in opaque:
                    env[nm] = ast.BinOp(left=env.get(nm, ast.Name(id=nm, ctx=ast.Load())), op=st.op, right=sub(st.value))
            elif isinstance(st, ast.If):
                d = assume(st.test) if assume else None
                if d is True:
                    run(st.body)
                elif d is False:
                    run(st.orelse)
                else:
                    before = dict(env)
                    run(st.body)
                    e1 = env
                    env = dict(before)
                    run(st.orelse)
                    e2 = env
                    env = {k: v for k, v in e1.items() if k in e2 and u(e2[k]) == u(v)}
            elif isinstance(st, ast.Try):
                run(st.body)
                for h in st.handlers:
                    run(h.body)
            elif isinstance(st, (ast.For, ast.While, ast.With)):
                for n in ast.walk(st):          # anything assigned inside a loop is unknown afterwards
                    if isinstance(n, ast.Name) and isinstance(n.ctx, ast.Store):
                        env.pop(n.id, None)
    run(stmts)
    return env


def cond_def(fn, name):
    """`name = a if test else b`  or  `if test: name = a / else: name = b`  ->  (test, a, b) as source texts without blanks"""
    for st in fn.body:
        if isinstance(st, ast.Assign) and u(st.targets[0]) == name and isinstance(st.value, ast.IfExp):
            v = st.value
            return u(v.test).replace(' ', ''), u(v.body).replace(' ', ''), u(v.orelse).replace(' ', '')
        if isinstance(st, ast.If) and len(st.body) == 1 and len(st.orelse) == 1 and \
                all(isinstance(x, ast.Assign) and u(x.targets[0]) == name for x in (st.body[0], st.orelse[0])):
            return (u(st.test).replace(' ', ''), u(st.body[0].value).replace(' ', ''), u(st.orelse[0].value).replace(' ', ''))
    raise Untranslatable(f'{name} is not defined by a two-way choice')


def strip_i_pi(e):
    """the coefficient of (+-)i*pi (or 2*i*pi) in a product: imaginary literal -> 1 (its sign and magnitude are read separately by
    imag_sign), np.pi -> 1"""
    class Strip(ast.NodeTransformer):
        def visit_Constant(self, node):
            return ast.Constant(value=1) if isinstance(node.value, complex) else node

        def visit_UnaryOp(self, node):
            self.generic_visit(node)
            if isinstance(node.op, ast.USub) and isinstance(node.operand, ast.Constant) and node.operand.value == 1:
                return ast.Constant(value=1)
            return node

        def visit_Attribute(self, node):
            return ast.Constant(value=1) if u(node) == 'np.pi' else node
    return Strip().visit(ast.parse('(' + u(e) + ')', mode='eval').body)


# ------------------------------------------------------------------------------------------------
def generate(repo, pid='C01', extra_imports=(), extra_opens=(), extra=None, skip=()):
    """pid/extra/skip: tools/gen_c02.py re-emits the items IT NEEDS into `Generated.C02` and appends its own"""
    g = Gen(pid, imports=['PrysmVerif.PyPrelude', 'PrysmVerif.Model.C01'] + list(extra_imports),
            opens=['Model.C01'] + list(extra_opens))
    if pid != 'C01':
        # items that only C01's own theorems consume (re-emitters C02 / C03 would carry them without an obligation)
        skip = tuple(skip) + ('mdft.cache_protocol', 'czt.cache_protocol', 'mdft.key_norm', 'czt.key_norm')
    if skip:
        _item = g.item

        def item(name, *a, **k):
            if name not in skip:
                _item(name, *a, **k)
        g.item = item
    ft, _ = load(repo, 'prysm/fttools.py')
    pr, _ = load(repo, 'prysm/propagation.py')

    # =========================================================================== _prepare_czt_basis
    def czt_glue():
        fn = get_def(ft, '_prepare_czt_basis')
        params = [a.arg for a in fn.args.args]
        if params[:5] != ['N', 'M', 'K', 'shift', 'alpha']:
            raise Untranslatable(f'parameters of _prepare_czt_basis: {params}')
        tr = Tr({'N': '(n : Int)', 'M': '(M : Int)', 'K': '(L : Int)'})
        # the kernel vector: the array whose FFT is returned first
        (ret,) = find_returns(fn)
        if not (isinstance(ret, ast.Tuple) and len(ret.elts) == 3 and all(isinstance(x, ast.Name) for x in ret.elts)):
            raise Untranslatable(f'return value {u(ret)}')
        Hn = ret.elts[0].id
        hv = [v for v in find_assigns(fn, Hn) if isinstance(v, ast.Call) and u(v.func).split('.')[-1] == 'fft' and v.args
              and isinstance(v.args[0], ast.Name)]
        if len(hv) != 1:
            raise Untranslatable(f'{Hn} is not the fft of a named vector')
        hname = hv[0].args[0].id
        writes = []          # (kind, lo, hi, arange-or-None) in source order; locals are followed as of each statement
        state = {'exp_seen': False}

        def on_stmt(st, env):
            if isinstance(st, ast.Assign) and len(st.targets) == 1:
                t = st.targets[0]
                if isinstance(t, ast.Subscript) and isinstance(t.value, ast.Name) and t.value.id == hname and isinstance(t.slice, ast.Slice):
                    if t.slice.step is not None:
                        raise Untranslatable('strided write to the kernel vector')
                    sub_ = lambda e: Subst(env).visit(ast.parse(u(e), mode='eval').body)
                    lo = tr.expr(resolve(sub_(t.slice.lower), {})) if t.slice.lower is not None else '(0 : Int)'
                    hi = tr.expr(resolve(sub_(t.slice.upper), {})) if t.slice.upper is not None else '(L : Int)'
                    val = sub_(st.value)
                    if isinstance(val, ast.Constant) and val.value == 0:
                        writes.append(('zero', lo, hi, None, state['exp_seen']))
                        return
                    fac = flatten_mul(val)
                    ar = [x for x in fac if isinstance(x, ast.Call) and u(x.func).endswith('arange') and len(x.args) >= 2]
                    pis = [x for x in fac if u(x) == 'np.pi']
                    if len(fac) != 3 or len(ar) != 2 or len(pis) != 1 or u(ar[0]) != u(ar[1]):
                        raise Untranslatable(f'kernel segment value is not pi * j * j: {u(st.value)}')
                    writes.append(('seg', lo, hi, (tr.expr(ar[0].args[0]), tr.expr(ar[0].args[1])), state['exp_seen']))
                elif isinstance(t, ast.Name) and t.id == hname and isinstance(st.value, ast.Call) and u(st.value.func).endswith('exp'):
                    state['exp_seen'] = True
        seq_env(fn.body, stop={hname}, on_stmt=on_stmt)
        segs = [w for w in writes if w[0] == 'seg']
        zeros = [w for w in writes if w[0] == 'zero']
        if len(segs) != 2 or len(zeros) != 1 or any(w[4] for w in segs) or not zeros[0][4]:
            raise Untranslatable('expected two segment writes before the exponential and one zero fill after it')
        (_, h1lo, h1hi, (j1lo, j1hi), _), (_, h2lo, h2hi, (j2lo, j2hi), _) = segs
        _, zlo, zhi, _, _ = zeros[0]
        return (f'def cztGlueGen (n M L : Nat) : CztGlue :=\n'
                f'  {{ start := -({j1lo}), j1Lo := {j1lo}, h1Lo := {h1lo}, h1Hi := {h1hi},\n'
                f'    j2Lo := {j2lo}, h2Lo := {h2lo}, h2Hi := {h2hi}, zLo := {zlo}, zHi := {zhi} }}\n'
                f'/-- upper bounds of the two `arange`s (their lengths must match the slices they are written to) -/\n'
                f'def cztJ1Hi (n M L : Nat) : Int := {j1hi}\n'
                f'def cztJ2Hi (n M L : Nat) : Int := {j2hi}')
    g.item('czt.glue', 'prysm/fttools.py:_prepare_czt_basis', lambda: get_def(ft, '_prepare_czt_basis'), czt_glue,
           f'def cztGlueGen (n M L : Nat) : CztGlue := {M}.cztGlue n M L\n'
           f'def cztJ1Hi (n M L : Nat) : Int := ({M}.cztGlue n M L).j1Lo + M\n'
           f'def cztJ2Hi (n M L : Nat) : Int := ({M}.cztGlue n M L).j2Lo + n - 1')

    def czt_signs():
        fn = get_def(ft, '_prepare_czt_basis')
        env = local_env(fn)
        # roles, not names: the function returns (fft of the kernel vector, pre-chirp, post-chirp); the two coordinate vectors
        # are the locals defined as fftrange(M, ...) (output) and fftrange(N, ...) (input)
        (ret,) = find_returns(fn)
        if not (isinstance(ret, ast.Tuple) and len(ret.elts) == 3 and all(isinstance(x, ast.Name) for x in ret.elts)):
            raise Untranslatable(f'return value {u(ret)}')
        Hn, bn, an = (x.id for x in ret.elts)
        hcalls = [v for v in find_assigns(fn, Hn) if isinstance(v, ast.Call) and v.args and isinstance(v.args[0], ast.Name)]
        if len(hcalls) != 1:
            raise Untranslatable(f'{Hn} is not a transform of a named vector')
        hn = hcalls[0].args[0].id
        vec = {}
        for nm, val in env.items():
            t = u(val).replace(' ', '')
            if t.startswith('fftrange(M,') or t == 'fftrange(M)':
                vec['out'] = nm
            if t.startswith('fftrange(N,') or t == 'fftrange(N)':
                vec['in'] = nm
        if set(vec) != {'in', 'out'}:
            raise Untranslatable('coordinate vectors fftrange(M) / fftrange(N) not found')
        s_out = sign_of_augassign(fn, vec['out'], 'shift')
        s_in = sign_of_augassign(fn, vec['in'], 'shift')
        a, b = find_assign(fn, an), find_assign(fn, bn)
        penv = {k: v for k, v in env.items() if k not in (vec['out'], vec['in'], an, bn, hn, Hn)}

        def chirp_of(nm, e, v):
            """exp(<+-1j * np.pi> * v * v * alpha) in any association / with the prefactor held in a local"""
            if not (isinstance(e, ast.Call) and u(e.func).endswith('exp') and len(e.args) == 1):
                raise Untranslatable(f'{nm} is not an exponential')
            r = resolve(e.args[0], penv)
            names = sorted(x.id for x in ast.walk(r) if isinstance(x, ast.Name) and x.id != 'np')
            if names != sorted([v, v, 'alpha']) or 'np.pi' not in u(r):
                raise Untranslatable(f'{nm} = exp({u(r)}) is not (+-i pi) * {v} * {v} * alpha')
            sgn, mag = imag_sign(r, {})
            if mag != 1.0:
                raise Untranslatable(f'{nm}: magnitude of the imaginary prefactor is {mag}')
            return sgn
        sa = chirp_of(an, a, vec['out'])
        sb = chirp_of(bn, b, vec['in'])
        hexp = [n for n in ast.walk(fn) if isinstance(n, ast.Assign) and u(n.targets[0]) == hn
                and isinstance(n.value, ast.Call) and u(n.value.func).endswith('exp')][0]
        rh = resolve(hexp.value.args[0], penv)
        sh, magh = imag_sign(rh, {})
        names = sorted(x.id for x in ast.walk(rh) if isinstance(x, ast.Name) and x.id != 'np')
        if names != sorted(['alpha', hn]) or magh != 1.0:
            raise Untranslatable('kernel exponent is not (+-i) * alpha * h')
        # norm: b *= alpha / sqrt(alpha)
        nb = [n for n in ast.walk(fn) if isinstance(n, ast.AugAssign) and u(n.target) == bn]
        ok_norm = len(nb) == 1 and isinstance(nb[0].op, ast.Mult) and u(nb[0].value).replace(' ', '') in (
            'alpha/np.sqrt(alpha)', 'np.sqrt(alpha)', '(alpha/np.sqrt(alpha))')
        Hs = u(hcalls[0])
        rets = [u(ret)]
        if not ok_norm or Hs.replace(' ', '') not in (f'fft.fft({hn})', f'fft.fft({hn},K)', f'fft.fft({hn},n=K)'):
            # textual facts: an unrecognised shape is "untranslatable" (hand model + widened correspondence), not "false"
            raise Untranslatable(f'norm / return statements not recognised: {[u(n) for n in nb]}, H = {Hs}, return {rets}')
        return (f'def cztSignsGen : CztSigns := {{ shiftOut := {s_out}, shiftIn := {s_in}, chirpA := {sa}, chirpB := {sb}, chirpH := {sh} }}')
    g.item('czt.signs', 'prysm/fttools.py:_prepare_czt_basis', lambda: get_def(ft, '_prepare_czt_basis'), czt_signs,
           f'def cztSignsGen : CztSigns := {M}.cztSignsRef')

    # =========================================================================== ChirpZTransformExecutor
    def czt_key_texts():
        fn = get_def(ft, 'ChirpZTransformExecutor.czt2')
        key = find_assign(fn, 'key')
        if not isinstance(key, ast.Tuple):
            raise Untranslatable('czt2 key is not a tuple literal')
        out = []
        for el in key.elts:
            if isinstance(el, ast.Starred):
                nm = u(el.value)
                out += [f'{nm}[0]', f'{nm}[1]']
            else:
                out.append(u(el))
        return fn, out

    def czt_wiring():
        fn, key = czt_key_texts()
        sb = get_def(ft, 'ChirpZTransformExecutor._setup_bases')
        unpack = [n for n in ast.walk(sb) if isinstance(n, ast.Assign) and isinstance(n.targets[0], ast.Tuple)
                  and u(n.value) == 'key']
        if len(unpack) != 1 or len(unpack[0].targets[0].elts) != len(key):
            raise Untranslatable('key unpacking in _setup_bases does not match the key built in czt2')
        k2 = {u(t): key[i] for i, t in enumerate(unpack[0].targets[0].elts)}     # name in _setup_bases -> text in czt2
        env = local_env(fn)
        bases = {'ary.shape': 'shape', 'samples_out': 'samples', 'shift': 'shift', 'Q': 'Q'}
        calls = find_calls(sb, '_prepare_czt_basis')
        if len(calls) != 2:
            raise Untranslatable('expected two _prepare_czt_basis calls')
        # which call is the row (axis 0) basis: the one whose outputs get [:, np.newaxis]
        assigns = {u(n.targets[0]): n for n in ast.walk(sb) if isinstance(n, ast.Assign) and isinstance(n.value, ast.Call)
                   and u(n.value.func) == '_prepare_czt_basis'}
        rows = {u(n.targets[0]) for n in ast.walk(sb) if isinstance(n, ast.Assign) and isinstance(n.value, ast.Subscript)
                and u(n.value.slice) == '(slice(None, None, None), np.newaxis)' or
                (isinstance(n, ast.Assign) and u(n.value).endswith('[:, np.newaxis]'))}
        out = {}
        for tgt, n in assigns.items():
            names = [u(t) for t in n.targets[0].elts]
            axis = 0 if all(x in rows for x in names) else (1 if not any(x in rows for x in names) else None)
            if axis is None:
                raise Untranslatable('mixed broadcasting of one basis triple')
            c = n.value
            args = [call_arg(c, i, kw) for i, kw in enumerate(['N', 'M', 'K', 'shift', 'alpha', 'dtype', 'norm'])]

            def to_czt2(e):
                return resolve(ast.parse(k2[u(e)], mode='eval').body, env) if u(e) in k2 else None
            a_in, a_out, a_K, a_s, a_al = (to_czt2(a) for a in args[:5])
            if None in (a_in, a_out, a_K, a_s, a_al):
                raise Untranslatable('argument of _prepare_czt_basis is not a key component')
            li = tuple_index(a_in, bases)
            lo = tuple_index(a_out, bases)
            sh = tuple_index(a_s, bases)
            if li[0] != 'shape' or lo[0] != 'samples' or sh[0] != 'shift':
                raise Untranslatable(f'basis arguments come from {li[0]}, {lo[0]}, {sh[0]}')
            scal = {'ary.shape[0]': 'shp0', 'ary.shape[1]': 'shp1', 'Q[0]': 'Q0', 'Q[1]': 'Q1'}
            alpha = Tr(scal, mode='num').expr(a_al)
            if not (isinstance(a_K, ast.Call) and u(a_K.func) == 'next_fast_len'):
                raise Untranslatable('FFT length is not next_fast_len(...)')
            ienv = {'ary.shape[0]': 'm', 'ary.shape[1]': 'n', 'samples_out[0]': 'M', 'samples_out[1]': 'N'}
            klen = Tr(ienv).expr(a_K.args[0])
            names_t = tuple(names)
            out[axis] = dict(w=f'{{ lenIn := {li[1]}, lenOut := {lo[1]}, shift := {sh[1]} }}', alpha=alpha, klen=klen,
                             names=names_t, K=u(args[2]))
        if set(out) != {0, 1}:
            raise Untranslatable('could not identify one row and one column basis')
        # FFT size tuple of fft2 in czt2: (K, L) must be (row length, column length)
        f2 = find_calls(fn, 'fft.fft2')
        if not (len(f2) == 1 and len(f2[0].args) == 2 and isinstance(f2[0].args[1], ast.Tuple) and len(f2[0].args[1].elts) == 2):
            raise Untranslatable('fft2 call of czt2 not recognised')
        size_ok = u(f2[0].args[1]) == f'({k2_inv(k2, out[0]["K"], key)}, {k2_inv(k2, out[1]["K"], key)})'
        txt = []
        for ax, nm in ((0, 'Row'), (1, 'Col')):
            txt.append(f'def czt{nm}Wiring : AxisWiring := {out[ax]["w"]}')
            txt.append(f'def czt{nm}Alpha {{K : Type}} [Num K] (shp0 shp1 Q0 Q1 : K) : K := {out[ax]["alpha"]}')
            txt.append(f'def czt{nm}FftLenArg (m n M N : Int) : Int := {out[ax]["klen"]}')
        txt.append(f'def cztFft2SizeIsRowCol : Bool := {"true" if size_ok else "false"}')
        return '\n'.join(txt)

    def k2_inv(k2, name_in_sb, key):
        return k2[name_in_sb]

    g.item('czt.wiring', 'prysm/fttools.py:ChirpZTransformExecutor.czt2/_setup_bases',
           lambda: get_def(ft, 'ChirpZTransformExecutor'), czt_wiring,
           f'def cztRowWiring : AxisWiring := {M}.wiringAxis0\n'
           'def cztRowAlpha {K : Type} [Num K] (shp0 shp1 Q0 Q1 : K) : K := Num.ofInt 1 / (shp0 * Q0)\n'
           'def cztRowFftLenArg (m n M N : Int) : Int := m + M - 1\n'
           f'def cztColWiring : AxisWiring := {M}.wiringAxis1\n'
           'def cztColAlpha {K : Type} [Num K] (shp0 shp1 Q0 Q1 : K) : K := Num.ofInt 1 / (shp1 * Q1)\n'
           'def cztColFftLenArg (m n M N : Int) : Int := n + N - 1\n'
           'def cztFft2SizeIsRowCol : Bool := true')

    def czt_pipeline():
        fn = get_def(ft, 'ChirpZTransformExecutor.czt2')
        unp = [n for n in fn.body if isinstance(n, ast.Assign) and u(n.value) == 'self.components[key]']
        if len(unp) != 1:
            raise Untranslatable('components are not unpacked exactly once')
        names = [u(t) for t in unp[0].targets[0].elts]
        sb = get_def(ft, 'ChirpZTransformExecutor._setup_bases')
        stored = [n.value for n in ast.walk(sb) if isinstance(n, ast.Assign) and u(n.targets[0]) == 'self.components[key]']
        if len(stored) != 1 or [u(x) for x in stored[0].elts] != names:
            raise Untranslatable('components are stored and unpacked under different names / orders')
        # role of every component name: which basis triple (H, b, a) position it comes from
        role = {}
        for n in ast.walk(sb):
            if isinstance(n, ast.Assign) and isinstance(n.value, ast.Call) and u(n.value.func) == '_prepare_czt_basis':
                for nm, r in zip([u(t) for t in n.targets[0].elts], ('H', 'b', 'a')):
                    role[nm] = r
        if sorted(role.get(nm, '?') for nm in names) != ['H', 'H', 'a', 'a', 'b', 'b']:
            raise Untranslatable(f'component roles {role}')
        idx = fn.body.index(unp[0])
        stages = []
        used = {'b': set(), 'H': set(), 'a': set()}

        def factors(e):
            """names multiplied together in a product expression (any association / order)"""
            if isinstance(e, ast.BinOp) and isinstance(e.op, ast.Mult):
                return factors(e.left) + factors(e.right)
            if isinstance(e, ast.Name):
                return [e.id]
            raise Untranslatable(f'not a product of names: {u(e)}')

        def push(st):
            if not stages or stages[-1] != st:
                stages.append(st)
        cur = None            # name of the array being transformed
        for st in fn.body[idx + 1:]:
            if isinstance(st, ast.Expr) and isinstance(st.value, ast.Constant):
                continue
            if isinstance(st, ast.Return):
                if u(st.value) != cur:
                    raise Untranslatable(f'returns {u(st.value)}, pipeline variable is {cur}')
                continue
            if isinstance(st, ast.AugAssign) and isinstance(st.op, ast.Mult) and isinstance(st.target, ast.Name):
                fs, tgt = factors(st.value), st.target.id
            elif isinstance(st, ast.Assign) and isinstance(st.targets[0], ast.Name) and isinstance(st.value, ast.BinOp) \
                    and isinstance(st.value.op, ast.Mult):
                fs, tgt = factors(st.value), st.targets[0].id
                src = [x for x in fs if x not in role]
                if len(src) != 1 or (cur is not None and src[0] != cur) or (cur is None and src[0] != 'ary'):
                    raise Untranslatable(f'product statement {u(st)}')
                fs = [x for x in fs if x in role]
                cur = tgt
                tgt = None
            elif isinstance(st, ast.Assign) and isinstance(st.targets[0], ast.Name) and isinstance(st.value, (ast.Call, ast.Subscript)):
                # `x = fft.fft2(cur, ...)`, `x = fft.ifft2(cur)`, `x = cur[:M, :N]`, or these nested in one expression
                # (`fft.ifft2(cur)[:M, :N]`): the stages are pushed innermost first
                def apply_expr(e):
                    if isinstance(e, ast.Name):
                        if e.id != cur:
                            raise Untranslatable(f'{u(st)} does not continue the pipeline variable {cur}')
                        return
                    if isinstance(e, ast.Subscript):
                        if u(e.slice).replace(' ', '') not in (':M,:N', '(:M,:N)', '0:M,0:N', '(0:M,0:N)'):
                            raise Untranslatable(f'crop statement {u(st)}')
                        apply_expr(e.value)
                        push('.crop')
                        return
                    if isinstance(e, ast.Call) and e.args:
                        f_ = u(e.func)
                        if f_ == 'fft.fft2':
                            apply_expr(e.args[0])
                            push('.fft')
                            return
                        if f_ == 'fft.ifft2':
                            if len(e.args) != 1 or e.keywords:
                                raise Untranslatable('ifft2 with extra arguments')
                            apply_expr(e.args[0])
                            push('.ifft')
                            return
                        raise Untranslatable(f'call {f_} in the pipeline')
                    raise Untranslatable(f'expression {u(e)[:60]} in the pipeline')
                apply_expr(st.value)
                cur = st.targets[0].id
                continue
            else:
                raise Untranslatable(f'statement {u(st)[:60]}')
            if tgt is not None and tgt != cur:
                raise Untranslatable(f'{u(st)} multiplies {tgt}, pipeline variable is {cur}')
            rs = {role.get(x) for x in fs}
            if len(rs) != 1 or None in rs:
                raise Untranslatable(f'mixed / unknown factors in {u(st)}')
            r = rs.pop()
            used[r] |= set(fs)
            push({'b': '.mulB', 'H': '.mulH', 'a': '.mulA'}[r])
        # every stage must have used both its row and its column factor exactly
        for r in ('b', 'H', 'a'):
            if used[r] != {nm for nm in names if role[nm] == r}:
                raise Untranslatable(f'stage {r} uses factors {sorted(used[r])}')
        ic = get_def(ft, 'ChirpZTransformExecutor.iczt2')
        body = [u(x) for x in ic.body if not (isinstance(x, ast.Expr) and isinstance(x.value, ast.Constant))]
        # `x = <expr>; return x` and `return <expr>` are the same body
        if len(ic.body) >= 2 and isinstance(ic.body[-1], ast.Return) and isinstance(ic.body[-1].value, ast.Name) \
                and isinstance(ic.body[-2], ast.Assign) and len(ic.body[-2].targets) == 1 \
                and u(ic.body[-2].targets[0]) == ic.body[-1].value.id:
            body = body[:-2] + ['return ' + u(ic.body[-2].value)]
        if body != ['if np.iscomplexobj(ary):\n    ary = np.conj(ary)',
                    'return np.conj(self.czt2(ary, Q, samples_out, shift))']:
            raise Untranslatable(f'iczt2 body not recognised: {body}')
        return f'def cztStagesGen : List CztStage := [{", ".join(stages)}]'
    g.item('czt.pipeline', 'prysm/fttools.py:ChirpZTransformExecutor.czt2/iczt2',
           lambda: get_def(ft, 'ChirpZTransformExecutor.czt2'), czt_pipeline,
           f'def cztStagesGen : List CztStage := {M}.cztStagesRef')

    def czt_cache():
        fn, key = czt_key_texts()
        sb = get_def(ft, 'ChirpZTransformExecutor._setup_bases')
        unpack = [n for n in ast.walk(sb) if isinstance(n, ast.Assign) and isinstance(n.targets[0], ast.Tuple)
                  and u(n.value) == 'key'][0]
        used = {x.id for x in ast.walk(sb) if isinstance(x, ast.Name) and isinstance(x.ctx, ast.Load)}
        reads = [key[i] for i, t in enumerate(unpack.targets[0].elts) if u(t) in used]
        reads += sorted(config_reads(ft, sb)) + sorted(self_reads(sb, {'components'}))
        # the components are looked up and stored under the key itself
        get = [u(n) for n in ast.walk(fn) if isinstance(n, ast.Subscript) and u(n.value) == 'self.components']
        if set(get) != {'self.components[key]'}:
            raise Untranslatable('components are not indexed by key')
        return (f'def cztKeyFields : List String := {lean_list(key)}\n'
                f'def cztBuildReads : List String := {lean_list(reads)}')
    g.item('czt.cache', 'prysm/fttools.py:ChirpZTransformExecutor', lambda: get_def(ft, 'ChirpZTransformExecutor._setup_bases'),
           czt_cache, f'def cztKeyFields : List String := {M}.cztKeyFieldsRef\ndef cztBuildReads : List String := {M}.cztKeyFieldsRef')

    # =========================================================================== MatrixDFTExecutor
    def mdft_key_texts():
        kf = get_def(ft, 'MatrixDFTExecutor._key')
        (ret,) = find_returns(kf)
        if isinstance(ret, ast.Name):
            vals = find_assigns(kf, ret.id)
            if len(vals) != 1:
                raise Untranslatable('_key returns a name assigned more than once')
            ret = vals[0]
        if not isinstance(ret, ast.Tuple):
            raise Untranslatable('_key does not return a tuple literal')
        return [u(e) for e in ret.elts]

    def mdft_cache():
        key = mdft_key_texts()
        sb = get_def(ft, 'MatrixDFTExecutor._setup_bases')
        unpack = [n for n in ast.walk(sb) if isinstance(n, ast.Assign) and isinstance(n.targets[0], ast.Tuple)
                  and u(n.value) == 'key']
        if len(unpack) != 1 or len(unpack[0].targets[0].elts) != len(key):
            raise Untranslatable('key unpacking in _setup_bases does not match _key')
        used = {x.id for x in ast.walk(sb) if isinstance(x, ast.Name) and isinstance(x.ctx, ast.Load)}
        reads = [key[i] for i, t in enumerate(unpack[0].targets[0].elts) if u(t) in used]
        for r in sorted(config_reads(ft, sb)) + sorted(self_reads(sb, {'Ein', 'Eout'})):
            if r not in reads:
                reads.append(r)
        # every public entry point builds its key with _key and indexes both caches by it
        for meth in ('dft2', 'idft2'):
            f = get_def(ft, f'MatrixDFTExecutor.{meth}')
            if not find_calls(f, 'self._key') or 'self._setup_bases(key)' not in u(f):
                raise Untranslatable(f'{meth} does not go through _key/_setup_bases')
        return (f'def mdftKeyFields : List String := {lean_list(key)}\n'
                f'def mdftBuildReads : List String := {lean_list(reads)}')
    g.item('mdft.cache', 'prysm/fttools.py:MatrixDFTExecutor._key/_setup_bases',
           lambda: get_def(ft, 'MatrixDFTExecutor._setup_bases'), mdft_cache,
           f'def mdftKeyFields : List String := {M}.mdftKeyFieldsRef\ndef mdftBuildReads : List String := {M}.mdftKeyFieldsRef')

    # =========================================================================== dictionaries of the executors (protocol)
    def cache_proto(cls, gen_name):
        """which dictionaries `_setup_bases` probes / writes on the miss path, which the entry points index after
        `_setup_bases(key)`, which `clear()` re-initialises  ->  a `Proto` value (lists sorted, no duplicates)"""
        def is_empty_dict(v):
            return (isinstance(v, ast.Dict) and not v.keys) or (isinstance(v, ast.Call) and u(v) == 'dict()')

        def self_attr(n):
            if isinstance(n, ast.Attribute) and isinstance(n.value, ast.Name) and n.value.id == 'self':
                return n.attr
            return None

        def build():
            c = get_def(ft, cls)
            meths = {n.name: n for n in c.body if isinstance(n, ast.FunctionDef)}
            for need in ('__init__', '_setup_bases', 'clear'):
                if need not in meths:
                    raise Untranslatable(f'{cls}.{need} not found')
            stores = [self_attr(st.targets[0]) for st in meths['__init__'].body
                      if isinstance(st, ast.Assign) and len(st.targets) == 1 and self_attr(st.targets[0]) and is_empty_dict(st.value)]
            if not stores:
                raise Untranslatable('no dictionary attribute initialised in __init__')

            def sub_of(n, ctxt):
                """self.X[<name>] with X a dictionary of the executor -> (X, name)"""
                if isinstance(n, ast.Subscript) and isinstance(n.ctx, ctxt) and self_attr(n.value) in stores:
                    if not isinstance(n.slice, ast.Name):
                        raise Untranslatable(f'dictionary indexed by an expression: {u(n)}')
                    return self_attr(n.value), n.slice.id
                return None
            sb = meths['_setup_bases']
            kparam = sb.args.args[1].arg
            body = [st for st in sb.body if not (isinstance(st, ast.Expr) and isinstance(st.value, ast.Constant))]
            tries = [st for st in body if isinstance(st, ast.Try)]
            ifs = [st for st in body if isinstance(st, ast.If)
                   and any(isinstance(x, ast.Compare) and any(isinstance(o, (ast.In, ast.NotIn)) for o in x.ops) for x in ast.walk(st.test))]
            if len(tries) == 1 and not ifs:
                t = tries[0]
                if len(t.handlers) != 1 or u(t.handlers[0].type) != 'KeyError' or t.orelse or t.finalbody:
                    raise Untranslatable('try statement of _setup_bases is not `try: ... except KeyError: ...`')
                probe = []
                for st in t.body:
                    if not isinstance(st, ast.Expr) or not sub_of(st.value, ast.Load):
                        raise Untranslatable(f'statement in the probing try body: {u(st)[:60]}')
                    probe.append(sub_of(st.value, ast.Load))
                miss_body = t.handlers[0].body
            elif len(ifs) == 1 and not tries:
                i_ = ifs[0]
                tests = i_.test.values if (isinstance(i_.test, ast.BoolOp) and isinstance(i_.test.op, ast.Or)) else [i_.test]
                probe = []
                for tt in tests:
                    if not (isinstance(tt, ast.Compare) and len(tt.ops) == 1 and isinstance(tt.ops[0], ast.NotIn)
                            and isinstance(tt.left, ast.Name) and self_attr(tt.comparators[0]) in stores):
                        raise Untranslatable(f'probe test not recognised: {u(i_.test)}')
                    probe.append((self_attr(tt.comparators[0]), tt.left.id))
                if i_.orelse:
                    raise Untranslatable('probe `if` has an else branch')
                miss_body = i_.body
            else:
                raise Untranslatable('_setup_bases has no single probe (try/except KeyError or `if key not in ...`)')
            if any(k != kparam for _, k in probe):
                raise Untranslatable('probe does not index by the key parameter')
            writes = []
            for st in miss_body:
                for n in ast.walk(st):
                    w = sub_of(n, ast.Store)
                    if w:
                        # a store nested in a branch / loop of the miss path is conditional: not the protocol of the model
                        if not (isinstance(st, ast.Assign) and any(t_ is n for t_ in st.targets)):
                            raise Untranslatable(f'conditional / nested dictionary store: {u(st)[:60]}')
                        if w[1] != kparam:
                            raise Untranslatable(f'store under another key: {u(st)[:60]}')
                        writes.append(w[0])
            miss_nodes = {id(n) for st in miss_body for n in ast.walk(st)}
            uses = []
            for name, f in meths.items():
                for n in ast.walk(f):
                    if sub_of(n, ast.Store) and id(n) not in miss_nodes:
                        raise Untranslatable(f'{name} stores into a dictionary outside the miss path')
                    if isinstance(n, ast.Delete) and any(self_attr(getattr(t_, 'value', None)) in stores for t_ in n.targets):
                        raise Untranslatable(f'{name} deletes dictionary entries')
                    if isinstance(n, ast.Call) and isinstance(n.func, ast.Attribute) and self_attr(n.func.value) in stores \
                            and n.func.attr in ('pop', 'popitem', 'update', 'setdefault', 'clear') and name != 'clear':
                        raise Untranslatable(f'{name} mutates a dictionary through .{n.func.attr}()')
                    if isinstance(n, ast.Assign) and any(self_attr(t_) in stores for t_ in n.targets) and name not in ('__init__', 'clear'):
                        raise Untranslatable(f'{name} rebinds a dictionary attribute')
                if name in ('__init__', '_setup_bases', 'clear', 'nbytes', '_key'):
                    continue
                loads = [(n.lineno, sub_of(n, ast.Load)) for n in ast.walk(f) if sub_of(n, ast.Load)]
                if not loads:
                    continue
                setups = [(st.lineno, u(st.value.args[0])) for st in f.body if isinstance(st, ast.Expr) and isinstance(st.value, ast.Call)
                          and u(st.value.func) == 'self._setup_bases' and len(st.value.args) == 1]
                for ln, (d, k) in loads:
                    if not any(sl < ln and sk == k for sl, sk in setups):
                        raise Untranslatable(f'{name} indexes {d}[{k}] without a preceding self._setup_bases({k})')
                    # the key variable is assigned once, or is a parameter of a helper (`_adjoint(self, key, ...)`) never re-assigned
                    is_param = k in [a.arg for a in f.args.args]
                    if len(find_assigns(f, k)) != (0 if is_param else 1):
                        raise Untranslatable(f'{name}: key variable {k} assigned more than once')
                    uses.append(d)
            resets = []
            for st in meths['clear'].body:
                if isinstance(st, ast.Expr) and isinstance(st.value, ast.Constant):
                    continue
                if isinstance(st, ast.Assign) and len(st.targets) == 1 and self_attr(st.targets[0]) in stores and is_empty_dict(st.value):
                    resets.append(self_attr(st.targets[0]))
                elif isinstance(st, ast.Expr) and isinstance(st.value, ast.Call) and isinstance(st.value.func, ast.Attribute) \
                        and st.value.func.attr == 'clear' and self_attr(st.value.func.value) in stores and not st.value.args:
                    resets.append(self_attr(st.value.func.value))
                else:
                    raise Untranslatable(f'statement of clear(): {u(st)[:60]}')
            fmt = lambda xs: lean_list(sorted(set(xs)))
            return (f'def {gen_name} : Proto := {{ probe := {fmt(d for d, _ in probe)}, missWrites := {fmt(writes)}, '
                    f'useReads := {fmt(uses)}, clearResets := {fmt(resets)} }}')
        return build
    g.item('mdft.cache_protocol', 'prysm/fttools.py:MatrixDFTExecutor.__init__/_setup_bases/clear/entry points',
           lambda: get_def(ft, 'MatrixDFTExecutor'), cache_proto('MatrixDFTExecutor', 'mdftProtoGen'),
           f'def mdftProtoGen : Proto := {M}.mdftProtoRef')
    g.item('czt.cache_protocol', 'prysm/fttools.py:ChirpZTransformExecutor.__init__/_setup_bases/clear/entry points',
           lambda: get_def(ft, 'ChirpZTransformExecutor'), cache_proto('ChirpZTransformExecutor', 'cztProtoGen'),
           f'def cztProtoGen : Proto := {M}.cztProtoRef')

    # =========================================================================== argument forms -> key components
    def key_norm(fn_name, params, gen_name):
        def build():
            fn = get_def(ft, fn_name)
            rows = []
            for P in params:
                bc = False
                convs = []
                for n in ast.walk(fn):
                    if isinstance(n, ast.If) and u(n.test).replace(' ', '') == f'notisinstance({P},Iterable)':
                        if [u(x).replace(' ', '') for x in n.body] != [f'{P}=({P},{P})'] or n.orelse:
                            raise Untranslatable(f'scalar {P} is not broadcast to ({P}, {P})')
                        bc = True
                    elif isinstance(n, ast.Assign) and len(n.targets) == 1 and u(n.targets[0]) == P:
                        v = n.value
                        if u(v).replace(' ', '') == f'({P},{P})':
                            continue
                        if isinstance(v, ast.Call) and u(v.func) == 'tuple' and len(v.args) == 1:
                            a0 = v.args[0]
                            if u(a0) == P:
                                convs.append('elem')
                                continue
                            if isinstance(a0, ast.GeneratorExp) and len(a0.generators) == 1 and u(a0.generators[0].iter) == P \
                                    and not a0.generators[0].ifs and isinstance(a0.elt, ast.Call) and len(a0.elt.args) == 1 \
                                    and u(a0.elt.args[0]) == u(a0.generators[0].target) and u(a0.elt.func) in ('float', 'int'):
                                convs.append(u(a0.elt.func))
                                continue
                        raise Untranslatable(f'{P} re-assigned in an unrecognised way: {u(n)[:70]}')
                convs = [c for c in convs if c != 'elem'] or ['elem']
                if len(convs) != 1:
                    raise Untranslatable(f'{P} converted more than once: {convs}')
                rows.append(f'⟨"{P}", {"true" if bc else "false"}, "{convs[0]}"⟩')
            return f'def {gen_name} : List ArgNorm := [{", ".join(rows)}]'
        return build
    g.item('mdft.key_norm', 'prysm/fttools.py:MatrixDFTExecutor._key', lambda: get_def(ft, 'MatrixDFTExecutor._key'),
           key_norm('MatrixDFTExecutor._key', ('Q', 'samples_in', 'samples_out', 'shift'), 'mdftKeyNormGen'),
           f'def mdftKeyNormGen : List ArgNorm := {M}.mdftKeyNormRef')
    g.item('czt.key_norm', 'prysm/fttools.py:ChirpZTransformExecutor.czt2', lambda: get_def(ft, 'ChirpZTransformExecutor.czt2'),
           key_norm('ChirpZTransformExecutor.czt2', ('Q', 'samples_out', 'shift'), 'cztKeyNormGen'),
           f'def cztKeyNormGen : List ArgNorm := {M}.cztKeyNormRef')

    def mdft_wiring():
        sb = get_def(ft, 'MatrixDFTExecutor._setup_bases')
        key = mdft_key_texts()
        env = local_env(sb)
        unpack = [n for n in ast.walk(sb) if isinstance(n, ast.Assign) and isinstance(n.targets[0], ast.Tuple)
                  and u(n.value) == 'key'][0]
        kname = {u(t): key[i] for i, t in enumerate(unpack.targets[0].elts)}      # Q, shp, samples, shift, fwd
        env = {k: v for k, v in env.items() if k not in kname}
        bases = {k: {'Q': 'Q', 'samples_in': 'shape', 'samples_out': 'samples', 'shift': 'shift'}.get(v) for k, v in kname.items()}
        bases = {k: v for k, v in bases.items() if v}
        # X, Y, U, V = (fftrange(n, ...) for n in (Ma, Na, Mb, Nb))
        gen = [n for n in ast.walk(sb) if isinstance(n, ast.Assign) and isinstance(n.targets[0], ast.Tuple)
               and isinstance(n.value, ast.GeneratorExp)]
        if len(gen) != 1:
            raise Untranslatable('coordinate vectors are not built by one generator expression')
        vec_names = [u(t) for t in gen[0].targets[0].elts]
        ge = gen[0].value
        if not (u(ge.elt).startswith('fftrange(') and isinstance(ge.generators[0].iter, ast.Tuple)):
            raise Untranslatable('coordinate vectors are not fftrange(...) over a tuple of lengths')
        lens = {}
        for nm, le in zip(vec_names, ge.generators[0].iter.elts):
            lens[nm] = tuple_index(resolve(le, env), bases)
        shifts = {}
        for nm in vec_names:
            ops = [n for n in ast.walk(sb) if isinstance(n, ast.AugAssign) and u(n.target) == nm]
            if len(ops) != 1 or not isinstance(ops[0].op, ast.Sub):
                raise Untranslatable(f'{nm} is not modified by exactly one `-= shift[k]`')
            shifts[nm] = tuple_index(ops[0].value, bases)
            if shifts[nm][0] != 'shift':
                raise Untranslatable(f'{nm} shifted by {u(ops[0].value)}')
        # the bases, specialised to fwd = True / False (an `if fwd:` statement, `x if fwd else y`, a hoisted signed factor ...)
        senv = {}
        for k, b in bases.items():
            for i in (0, 1):
                senv[f'{k}[{i}]'] = {'shape': 'shp', 'Q': 'Q'}.get(b, b) + str(i)

        def decide(val):
            def f_(test):
                t = u(test).replace(' ', '')
                if t == 'fwd':
                    return val
                if t in ('notfwd', 'fwdisFalse', 'fwd==False'):
                    return not val
                return None
            return f_

        def parse_basis(e):
            """exp(c * outer(A, B)[.T]) [* sqrt(n)]  ->  (sign, scale term, A, B, transposed, norm^2 term)"""
            fac = flatten_mul(e)
            exps_ = [x for x in fac if isinstance(x, ast.Call) and u(x.func).endswith('exp') and len(x.args) == 1]
            sq = [x for x in fac if isinstance(x, ast.Call) and u(x.func).endswith('sqrt') and len(x.args) == 1]
            if len(exps_) != 1 or len(sq) != 1 or len(fac) != 2:
                raise Untranslatable(f'basis is not exp(...) * sqrt(...): {u(e)[:90]}')
            afac = flatten_mul(exps_[0].args[0])
            outers = []
            for x in afac:
                y, tr_ = (x.value, True) if (isinstance(x, ast.Attribute) and x.attr == 'T') else (x, False)
                if isinstance(y, ast.Call) and u(y.func).endswith('outer') and len(y.args) == 2:
                    outers.append((x, y, tr_))
            if len(outers) != 1:
                raise Untranslatable(f'exponent has no single outer(...) factor: {u(exps_[0].args[0])[:90]}')
            rest = [x for x in afac if x is not outers[0][0]]
            coef = rest[0]
            for x in rest[1:]:
                coef = ast.BinOp(left=coef, op=ast.Mult(), right=x)
            # division is not a product factor: `c / Na * mn * outer` flattens to [c / Na, mn, outer] - fine
            sgn, mag = imag_sign(coef, {})
            if mag != 2.0 or 'np.pi' not in u(coef):
                raise Untranslatable(f'kernel prefactor is not 2*pi*i: {u(coef)}')
            scale = Tr(senv, mode='num').expr(strip_i_pi(coef))
            _, y, tr_ = outers[0]
            return sgn, scale, u(y.args[0]), u(y.args[1]), tr_, Tr(senv, mode='num').expr(sq[0].args[0])
        parsed = {}
        for val in (True, False):
            e_ = seq_env(sb.body, assume=decide(val), stop=set(kname))
            if 'Eout' not in e_ or 'Ein' not in e_:
                raise Untranslatable('Eout / Ein not defined on the cache-miss path')
            parsed[val] = {k: parse_basis(e_[k]) for k in ('Eout', 'Ein')}
        pf, pi_ = parsed[True], parsed[False]
        for k in ('Eout', 'Ein'):
            if pf[k][1:] != pi_[k][1:] or pf[k][0] != -pi_[k][0]:
                raise Untranslatable(f'forward and inverse {k} differ by more than the sign')
        # dft2: out = Eout @ ary @ Ein : Eout[k, j] so its rows are output samples -> (in, out) vector roles
        for meth in ('dft2', 'idft2'):
            f = get_def(ft, f'MatrixDFTExecutor.{meth}')
            o = u(find_assign(f, 'out')).replace('(', '').replace(')', '')
            if o != 'Eout @ ary @ Ein':
                raise Untranslatable(f'{meth}: out = {o}')
        so, sc_o, A, B, T, nsq_o = pf['Eout']
        # Eout must be (out, in): outer(in_vec, out_vec).T   or outer(out_vec, in_vec)
        in0, out0 = (A, B) if T else (B, A)
        si, sc_i, A, B, T, nsq_i = pf['Ein']
        # Ein must be (in, out): outer(in_vec, out_vec) or outer(out_vec, in_vec).T
        in1, out1 = (B, A) if T else (A, B)
        for (vi, vo) in ((in0, out0), (in1, out1)):
            if lens[vi][0] != 'shape' or lens[vo][0] != 'samples' or shifts[vi] != shifts[vo]:
                raise Untranslatable('a basis pairs vectors of the wrong kind / different shift components')
        w0 = f'{{ lenIn := {lens[in0][1]}, lenOut := {lens[out0][1]}, shift := {shifts[in0][1]} }}'
        w1 = f'{{ lenIn := {lens[in1][1]}, lenOut := {lens[out1][1]}, shift := {shifts[in1][1]} }}'
        norms = {'Eout': nsq_o, 'Ein': nsq_i}
        return (f'def mdftEoutWiring : AxisWiring := {w0}\ndef mdftEinWiring : AxisWiring := {w1}\n'
                f'def mdftEoutScale {{K : Type}} [Num K] (shp0 shp1 Q0 Q1 : K) : K := {sc_o}\n'
                f'def mdftEinScale {{K : Type}} [Num K] (shp0 shp1 Q0 Q1 : K) : K := {sc_i}\n'
                f'def mdftEoutNormSq {{K : Type}} [Num K] (shp0 shp1 Q0 Q1 : K) : K := {norms["Eout"]}\n'
                f'def mdftEinNormSq {{K : Type}} [Num K] (shp0 shp1 Q0 Q1 : K) : K := {norms["Ein"]}\n'
                f'def mdftFwdSign : Int := {so}\ndef mdftFwdSignEin : Int := {si}')
    g.item('mdft.wiring', 'prysm/fttools.py:MatrixDFTExecutor._setup_bases/dft2/idft2',
           lambda: get_def(ft, 'MatrixDFTExecutor._setup_bases'), mdft_wiring,
           f'def mdftEoutWiring : AxisWiring := {M}.wiringAxis0\ndef mdftEinWiring : AxisWiring := {M}.wiringAxis1\n'
           'def mdftEoutScale {K : Type} [Num K] (shp0 shp1 Q0 Q1 : K) : K := Num.ofInt 1 / (shp0 * Q0)\n'
           'def mdftEinScale {K : Type} [Num K] (shp0 shp1 Q0 Q1 : K) : K := Num.ofInt 1 / (shp1 * Q1)\n'
           'def mdftEoutNormSq {K : Type} [Num K] (shp0 shp1 Q0 Q1 : K) : K := Num.ofInt 1 / (shp1 * Q1)\n'
           'def mdftEinNormSq {K : Type} [Num K] (shp0 shp1 Q0 Q1 : K) : K := Num.ofInt 1 / (shp0 * Q0)\n'
           'def mdftFwdSign : Int := -1\ndef mdftFwdSignEin : Int := -1')

    def mdft_fwd_flags():
        vals = {}
        for meth in ('dft2', 'idft2'):
            f = get_def(ft, f'MatrixDFTExecutor.{meth}')
            (c,) = find_calls(f, 'self._key')
            fw = call_arg(c, 4, 'fwd')
            sin = call_arg(c, 0, 'samples_in')
            if not isinstance(fw, ast.Constant) or u(sin) != 'ary.shape':
                raise Untranslatable(f'{meth}: key arguments')
            for pos, kw in ((1, 'Q'), (2, 'samples_out'), (3, 'shift')):
                a_ = call_arg(c, pos, kw)
                if a_ is None or u(a_) != kw:
                    raise Untranslatable(f'{meth}: _key is not handed its own {kw}')
            vals[meth] = fw.value
        return (f'def mdftDft2IsFwd : Bool := {"true" if vals["dft2"] else "false"}\n'
                f'def mdftIdft2IsFwd : Bool := {"true" if vals["idft2"] else "false"}')
    g.item('mdft.fwd', 'prysm/fttools.py:MatrixDFTExecutor.dft2/idft2', lambda: get_def(ft, 'MatrixDFTExecutor.dft2'),
           mdft_fwd_flags, 'def mdftDft2IsFwd : Bool := true\ndef mdftIdft2IsFwd : Bool := false')

    # =========================================================================== FFT route
    fft_route_items(g, ft, pr)
    if extra is not None:
        extra(g, ft, pr)
    return g.finish()


def fft_route_items(g, ft, pr):
    """items shared with C02: pad offset of pad2d, shape of focus / unfocus"""
    Mm = 'Model.C01'

    def pad_off():
        fn = get_def(ft, 'pad2d')
        elem = {'in_shape': 'n', 'out_shape': 'N', 'array.shape': 'n'}
        for _ in range(3):
            for nm in ['shape_diff', 'before', 'dbytwo', 'divby2']:
                if nm not in elem:
                    try:
                        elem[nm] = elementwise(find_assign(fn, nm, which=-1), elem)
                    except Untranslatable:
                        pass
        sl = find_assign(fn, 'slcs')
        elt, binds = comp_parts(sl)
        assert isinstance(elt, ast.Call) and ast.unparse(elt.func) == 'slice' and len(elt.args) == 2
        tr = Tr({k: elem[v] for k, v in binds.items()})
        out_len = elementwise(find_assign(fn, 'out_shape', which=0), {'in_shape': 'n'}, mode='rat', scalars={'Q': 'Q'})
        return (f'def padLo (n N : Int) : Int := {tr.expr(elt.args[0])}\n'
                f'def padHi (n N : Int) : Int := {tr.expr(elt.args[1])}\n'
                f'def padOutLen (n Q : Rat) : Rat := {out_len}')
    g.item('pad2d.slcs', 'prysm/fttools.py:pad2d', lambda: get_def(ft, 'pad2d'), pad_off,
           f'def padLo (n N : Int) : Int := N / 2 - n / 2\ndef padHi (n N : Int) : Int := N / 2 - n / 2 + n\n'
           'def padOutLen (n Q : Rat) : Rat := ((Rat.ceil (n * Q) : Int) : Rat)')

    # ---- purity of the entry points: the array argument is never written to
    def writes_input(fn):
        """list of constructs that write to (or let a library write to) the caller's array: an augmented assignment or a subscript
        store on the array parameter while it still names the caller's object, `out=<param>`, `overwrite_x=True`"""
        args = [a.arg for a in fn.args.args if a.arg != 'self']
        if not args:
            return []
        p0 = args[0]
        found = []
        rebound = False
        # an augmented assignment on ANY parameter updates the caller's object in place when that object is an ndarray
        # (a 0-d array passed for a scalar): only a parameter re-bound by a plain assignment first is safe
        plain = set()
        for st in fn.body:
            for node in ast.walk(st):
                if isinstance(node, ast.AugAssign) and isinstance(node.target, ast.Name) and node.target.id in args[1:] \
                        and node.target.id not in plain:
                    found.append(u(node)[:60])
            if isinstance(st, ast.Assign):
                plain |= {t.id for t in st.targets if isinstance(t, ast.Name)}
        for st in fn.body:           # top-level order: an unconditional plain re-assignment ends the aliasing
            for node in ast.walk(st):
                if isinstance(node, ast.AugAssign) and not rebound:
                    t = node.target
                    if (isinstance(t, ast.Name) and t.id == p0) or \
                            (isinstance(t, ast.Subscript) and isinstance(t.value, ast.Name) and t.value.id == p0):
                        found.append(u(node)[:60])
                if isinstance(node, ast.Assign) and not rebound:
                    for t in node.targets:
                        if isinstance(t, ast.Subscript) and isinstance(t.value, ast.Name) and t.value.id == p0:
                            found.append(u(node)[:60])
                if isinstance(node, ast.Call):
                    for k in node.keywords:
                        if k.arg == 'out' and isinstance(k.value, ast.Name) and k.value.id == p0 and not rebound:
                            found.append(u(node)[:60])
                        if k.arg in ('overwrite_x', 'overwrite_input') and not (isinstance(k.value, ast.Constant) and k.value.value is False):
                            found.append(u(node)[:60])
            if isinstance(st, ast.Assign) and any(isinstance(t, ast.Name) and t.id == p0 for t in st.targets):
                rebound = True
        return found

    def purity(mod, names):
        def check():
            bad = []
            for nm in names:
                bad += [f'{nm}: {x}' for x in writes_input(get_def(mod, nm))]
            return not bad
        return check
    g.fact('fttoolsEntryPointsDoNotWriteInputs', 'prysm/fttools.py:pad2d, dft2, idft2, czt2, iczt2',
           purity(ft, ['pad2d', 'crop_center', 'MatrixDFTExecutor.dft2', 'MatrixDFTExecutor.idft2',
                       'ChirpZTransformExecutor.czt2', 'ChirpZTransformExecutor.iczt2']))
    g.fact('propagationEntryPointsDoNotWriteInputs', 'prysm/propagation.py:focus, unfocus, *_fixed_sampling, angular_spectrum',
           purity(pr, ['focus', 'unfocus', 'focus_fixed_sampling', 'unfocus_fixed_sampling', 'angular_spectrum',
                       'angular_spectrum_transfer_function', 'Q_for_sampling']))

    def route(name):
        def build():
            fn = get_def(pr, name)
            (ret,) = find_returns(fn)
            params = [a.arg for a in fn.args.args]
            if len(params) < 2:
                raise Untranslatable(f'{name}: parameters {params}')
            arr, qn = params[0], params[1]
            # the padded array: the local defined by a two-way choice on `Q != 1` (if/else statement or conditional expression)
            padname = None
            for nm in {x.id for x in ast.walk(fn) if isinstance(x, ast.Name) and isinstance(x.ctx, ast.Store)}:
                try:
                    test, a_, b_ = cond_def(fn, nm)
                except Untranslatable:
                    continue
                if test in (f'{qn}!=1', f'1!={qn}') and a_ in (f'pad2d({arr},{qn})', f'pad2d({arr},Q={qn})') and b_ == arr:
                    padname = nm
                elif test in (f'{qn}==1', f'1=={qn}') and b_ in (f'pad2d({arr},{qn})', f'pad2d({arr},Q={qn})') and a_ == arr:
                    padname = nm
            if padname is None:
                raise Untranslatable(f'{name}: padding statements not recognised')
            r = seq_env(fn.body, stop={padname})
            r = Subst({k: v for k, v in r.items()}).visit(ast.parse(u(ret), mode='eval').body) if isinstance(ret, ast.Name) else ret
            r = ast.parse(u(r), mode='eval').body

            def shift_kind(c):
                if isinstance(c, ast.Call) and u(c.func).split('.')[-1] in ('fftshift', 'ifftshift') and len(c.args) == 1 \
                        and not c.keywords:
                    return u(c.func).split('.')[-1]
                raise Untranslatable(f'{name}: not a plain (i)fftshift call: {u(c)[:60]}')
            outer = shift_kind(r)
            mid = r.args[0]
            if not (isinstance(mid, ast.Call) and u(mid.func).split('.')[-1] in ('fft2', 'ifft2') and len(mid.args) == 1):
                raise Untranslatable(f'{name}: middle operation {u(mid)[:60]}')
            kws = {k.arg: k.value for k in mid.keywords}
            if set(kws) - {'norm'}:
                raise Untranslatable(f'{name}: extra keywords on the transform: {sorted(kws)}')
            if 'norm' in kws and not isinstance(kws['norm'], ast.Constant):
                raise Untranslatable(f'{name}: norm is not a literal')
            normv = kws['norm'].value if 'norm' in kws else None
            if normv not in (None, 'backward', 'ortho'):
                raise Untranslatable(f'{name}: norm={normv!r}')
            inner = shift_kind(mid.args[0])
            if u(mid.args[0].args[0]) != padname:
                raise Untranslatable(f'{name}: transform of {u(mid.args[0].args[0])}')
            b = lambda x: 'true' if x else 'false'
            return (f'def {name}FlagsGen : RouteFlags := {{ innerIsIfftshift := {b(inner == "ifftshift")}, '
                    f'outerIsFftshift := {b(outer == "fftshift")}, ortho := {b(normv == "ortho")}, '
                    f'inverse := {b(u(mid.func).endswith("ifft2"))} }}')
        return build
    for name in ('focus', 'unfocus'):
        g.item(f'{name}.route', f'prysm/propagation.py:{name}', (lambda nm: (lambda: get_def(pr, nm)))(name), route(name),
               f'def {name}FlagsGen : RouteFlags := {Mm}.{name}FlagsRef')

    # ---- fixed-sampling dispatch: Q per axis and shift conversion as rational functions; both engines get the same arguments
    def dispatch(name, fwd):
        def build():
            fn = get_def(pr, name)
            cm = find_calls(fn, 'mdft.dft2' if fwd else 'mdft.idft2')
            cc = find_calls(fn, 'czt.czt2' if fwd else 'czt.iczt2')
            if len(cm) != 1 or len(cc) != 1:
                raise Untranslatable(f'{name}: expected one matrix-DFT and one chirp-Z call')
            params = ['ary', 'Q', 'samples_out', 'shift']

            def kwargs(c):
                d = {}
                for i, a in enumerate(c.args):
                    d[params[i]] = a
                for k in c.keywords:
                    d[k.arg] = k.value
                if set(d) != set(params):
                    raise Untranslatable(f'{name}: engine arguments {sorted(d)}')
                return d
            am, ac = kwargs(cm[0]), kwargs(cc[0])
            same = all(u(am[k]) == u(ac[k]) for k in params)
            if u(am['ary']) != 'wavefunction' or u(am['samples_out']) != 'output_samples':
                raise Untranslatable(f'{name}: ary / samples_out arguments')
            # Q = tuple(Q_for_sampling(input_diameter=s * input_dx, ...) for s in wavefunction.shape)
            qv = find_assigns(fn, 'Q')
            if len(qv) != 1 or u(am['Q']) != 'Q':
                raise Untranslatable(f'{name}: Q is not a single local assignment')
            elt, binds = comp_parts(qv[0])
            if list(binds.values()) != ['wavefunction.shape']:
                raise Untranslatable(f'{name}: Q does not iterate over wavefunction.shape: {binds}')
            svar = list(binds)[0]
            if not (isinstance(elt, ast.Call) and u(elt.func) == 'Q_for_sampling'):
                raise Untranslatable(f'{name}: Q element is not Q_for_sampling(...)')
            qfs = get_def(pr, 'Q_for_sampling')
            qparams = [a.arg for a in qfs.args.args]
            qargs = {}
            for i, a in enumerate(elt.args):
                qargs[qparams[i]] = a
            for k in elt.keywords:
                qargs[k.arg] = k.value
            scal = {svar: 'n', 'input_dx': 'dxin', 'prop_dist': 'efl', 'wavelength': 'wvl', 'output_dx': 'dxout'}
            tr = Tr(scal, mode='num')
            qenv = {k: tr.expr(v) for k, v in qargs.items()}
            if set(qenv) != set(qparams):
                raise Untranslatable(f'{name}: Q_for_sampling arguments {sorted(qenv)}')
            qbody = fn_to_lean(qfs, 'X', qparams, 'K', mode='num')
            qterm = qbody.split(':=', 1)[1].strip()
            # substitute the arguments (parameters appear as bare identifiers in the translated body)
            import re
            for k_, v_ in qenv.items():
                qterm = re.sub(rf'\b{k_}\b', lambda m_: v_, qterm)
            # shift conversion: inside `if shift[0] != 0 or shift[1] != 0:` shift = (shift[0]/output_dx, shift[1]/output_dx)
            sv = find_assigns(fn, 'shift')
            if len(sv) != 1 or not isinstance(sv[0], ast.Tuple) or len(sv[0].elts) != 2 or u(am['shift']) != 'shift':
                raise Untranslatable(f'{name}: shift conversion not recognised')
            sterms = []
            for i, el in enumerate(sv[0].elts):
                sterms.append(Tr({f'shift[{i}]': 's', 'output_dx': 'dxout', 'input_dx': 'dxin'}, mode='num').expr(el))
            guards = [n for n in ast.walk(fn) if isinstance(n, ast.If) and any(isinstance(x, ast.Assign) and u(x.targets[0]) == 'shift'
                                                                             for x in n.body)]
            if len(guards) != 1 or u(guards[0].test).replace(' ', '') not in ('shift[0]!=0orshift[1]!=0', 'shift[1]!=0orshift[0]!=0'):
                raise Untranslatable(f'{name}: guard of the shift conversion not recognised')
            nm = 'ffs' if fwd else 'ufs'
            return (f'/-- `Q` handed to the engines for an axis of `n` samples -/\n'
                    f'def {nm}Q {{K : Type}} [Num K] (n dxin efl wvl dxout : K) : K :=\n  {qterm}\n'
                    f'/-- the two components of the shift handed to the engines (the guard only skips the division of 0 by `output_dx`) -/\n'
                    f'def {nm}Shift0 {{K : Type}} [Num K] (s dxin dxout : K) : K := {sterms[0]}\n'
                    f'def {nm}Shift1 {{K : Type}} [Num K] (s dxin dxout : K) : K := {sterms[1]}\n'
                    f'def {nm}EnginesGetSameArgs : Bool := {"true" if same else "false"}')
        return build
    for name, fwd in (('focus_fixed_sampling', True), ('unfocus_fixed_sampling', False)):
        nm = 'ffs' if fwd else 'ufs'
        g.item(f'{name}.dispatch', f'prysm/propagation.py:{name}', (lambda n_: (lambda: get_def(pr, n_)))(name),
               dispatch(name, fwd),
               f'def {nm}Q {{K : Type}} [Num K] (n dxin efl wvl dxout : K) : K := ((wvl * efl) / (n * dxin)) / dxout\n'
               f'def {nm}Shift0 {{K : Type}} [Num K] (s dxin dxout : K) : K := s / dxout\n'
               f'def {nm}Shift1 {{K : Type}} [Num K] (s dxin dxout : K) : K := s / dxout\n'
               f'def {nm}EnginesGetSameArgs : Bool := true')


def force_fallbacks():
    """self-test aid: make every item use its fallback text (what the check sees after a refactor the translator does
    not understand); `gen_c01.py --fallbacks <repo>` prints that file, which Props/C01.lean must still build against"""
    import pyexpr2lean as P
    orig = P.Gen.item

    def item(self, name, source, node_fn, build, fallback):
        def bad():
            raise P.Untranslatable('forced fallback')
        return orig(self, name, source, node_fn, bad, fallback)
    P.Gen.item = item


if __name__ == '__main__':
    import sys
    if '--fallbacks' in sys.argv:
        sys.argv.remove('--fallbacks')
        force_fallbacks()
    text, items = generate(sys.argv[1] if len(sys.argv) > 1 else '/repo')
    print(text)
    for it in items:
        print('--', it)
