#!/usr/bin/env python3
"""round-2 prompt for an independent agent that writes BEHAVIOUR-PRESERVING refactors for several properties (negative controls)
usage: tools/benign_prompt6.py <worktree> <k-per-property> <Cxx> [<Cxx> ...]"""
import json, sys
wt, k, pids = sys.argv[1], sys.argv[2], sys.argv[3:]
P = {json.loads(l)['id']: json.loads(l) for l in open('/verif/properties.jsonl')}
blocks = []
for pid in pids:
    p = P[pid]
    blocks.append(f"""id: {p['id']}
title: {p['title']}
statement: {p['statement']}
anchors (where the mechanism lives): {json.dumps(p['anchors'].get('mechanism', []))}
observe at: {json.dumps(p['anchors'].get('observe_at', []))}""")
print(f"""You are producing NEGATIVE CONTROLS for a verification effort: realistic refactors of a Python library that do NOT change
behaviour.  You have your own scratch git worktree of the library prysm (numerical optics) at {wt} .  Work ONLY inside {wt} and
{wt}_out (do not read or write /verif or /repo; do not look for any verification machinery; NEVER use `git stash` — save diffs to
files and use `git apply` / `git checkout -- .`).  Python is /venv/bin/python; run things with `cd {wt} && /venv/bin/python ...` and
make sure `import prysm` picks up your worktree (insert os.getcwd() at the front of sys.path in scripts; check `prysm.__file__`).

The code of interest is the code behind these semantic properties (you must NOT break them):

""" + "\n\n".join(blocks) + f"""

Task: for EACH property above produce {k} DIFFERENT refactors of the source code behind it, each of which is the kind of clean-up a
maintainer really makes and is strictly behaviour-preserving for every input (same values bit-for-bit — only exact rewrites; same
exceptions; same dtypes and shapes; no new state; arguments still untouched): e.g. renaming local variables, extracting a local helper
or inlining one, reordering independent statements, rewriting an expression in a form that is exact in floating point (a*b -> b*a,
x - y -> -(y - x), keyword vs positional arguments, a comprehension instead of a loop, tuple unpacking instead of indexing, early return
instead of else, a conditional expression instead of if/else, `np.abs` for `abs`), hoisting a common sub-expression, splitting a long
statement into named steps, adding type hints / comments / docstring edits, replacing a deprecated alias by its modern name.  Make them
touch the lines that implement the mechanism — and prefer the SECONDARY code paths (backprop / adjoint routines, batched branches,
sequence (`*_seq`) forms, rarely used keyword branches, helper routines, consumers of the anchored routines), not only the headline
function; be different in kind from one another; each 3-40 changed lines.

For each property Cxx and each refactor i = 1..{k} deliver, under {wt}_out/ (create it):
  Cxx_b<i>.diff      `git diff` against HEAD (one refactor per diff; reset with `git checkout -- .` between them)
  Cxx_b<i>_demo.py   a standalone program (first lines: `import os, sys; sys.path.insert(0, os.getcwd())`) that evaluates the touched
                     public functions on a broad set of inputs (shapes of every parity, non-square, several dtypes, parameter values,
                     call sequences) and prints as its LAST line a SHA-256 digest of all results (np.ndarray.tobytes of each, plus
                     shapes/dtypes/exception types); it must print THE SAME digest on the untouched tree and with the refactor applied
                     (verify this yourself and record the digest); it will be run as `cd <checkout> && /venv/bin/python <path>/Cxx_b<i>_demo.py`
  Cxx_b<i>.json      {{"property": "Cxx", "what": "<one sentence>", "kind": "<rename|reorder|inline|extract|equivalent-expression|...>",
                       "files": [...], "digest": "<sha256>"}}
Also run the test suite before and after (`/venv/bin/python -m pytest -q -p no:cacheprovider --timeout=900 --continue-on-collection-errors tests prysm 2>&1 | tail -3`
— about 29 tests fail on the untouched tree for lack of network; the failing set must be identical).  Leave the worktree clean.
Final message: one line per refactor.""")
