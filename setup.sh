#!/bin/sh
# offline: regenerate translator output from /repo, build the whole Lean project
cd "$(dirname "$0")" || exit 2
set -e
/venv/bin/python tools/translate_all.py
cd lean
lake build 2>&1 | tail -40
