import PrysmVerif.Wire
import PrysmVerif.Model.C07
open Wire Model.C07

/-!
line protocol (tokens separated by blanks, groups by `|`):

    f <family> <ints…> | <scalar params…> | <points…>      Float  (scalars as IEEE bit patterns)
    q <family> <ints…> | <scalar params…> | <points…>      Rat    (scalars as p/q)
    abc  n | α β          / qabc n | α β                  recurrence coefficients A B C
    fgh n                                                   Qbfs auxiliary f_n g_n h_n (Float)
    q2dabc n m    2D-Q recurrence coefficients A B C (A.3)     q2dgam n m    gamma(n, m)
    q2dFG n m     2D-Q auxiliary F_n^m G_n^m f_n^m g_n^m (Float)

families (ints ; scalar params):  jacobi n ; α β    legendre n    cheby1..4 n    he n    h n    lag n ; α
    d1 n ; a    d2 n ; a    qcon n    xy m n ; y    (Float only:)  qbfs n    zern n m norm ; t    hopkins a b c ; t H
    q2d n m ; t     (the point is the radial coordinate)
-/

def splitBar (t : List String) : List (List String) :=
  let rec go (acc cur : List String) (out : List (List String)) : List String → List (List String)
    | [] => (out ++ [cur])
    | "|" :: r => go acc [] (out ++ [cur]) r
    | s :: r => go acc (cur ++ [s]) out r
  go [] [] [] t

/-- families that need only field arithmetic -/
def evalAlg {K : Type} [Num K] (fam : String) (ip : List Int) (kp : List K) (x : K) : Option K :=
  match fam, ip, kp with
  | "jacobi", [n], [a, b] => some (jacobi n.toNat a b x)
  | "legendre", [n], [] => some (legendre n.toNat x)
  | "cheby1", [n], [] => some (cheby1 n.toNat x)
  | "cheby2", [n], [] => some (cheby2 n.toNat x)
  | "cheby3", [n], [] => some (cheby3 n.toNat x)
  | "cheby4", [n], [] => some (cheby4 n.toNat x)
  | "he", [n], [] => some (hermiteHe n.toNat x)
  | "h", [n], [] => some (hermiteH n.toNat x)
  | "lag", [n], [a] => some (laguerre n.toNat a x)
  | "d1", [n], [a] => some (dickson1 n.toNat a x)
  | "d2", [n], [a] => some (dickson2 n.toNat a x)
  | "qcon", [n], [] => some (qcon n.toNat x)
  | "xy", [m, n], [y] => some (xy m.toNat n.toNat x y)
  | _, _, _ => none

def evalFloat (fam : String) (ip : List Int) (kp : List Float) (x : Float) : Option Float :=
  match fam, ip, kp with
  | "qbfs", [n], [] => some (qbfs Float.sqrt n.toNat x)
  | "zern", [n, m, norm], [t] =>
      let am := Float.ofInt m.natAbs
      let az := if m < 0 then Float.sin (am * t) else Float.cos (Float.ofInt m * t)
      let σ := if norm = 0 then 1.0 else Float.sqrt (zernikeNormSq n.toNat m)
      some (zernike n.toNat m x az σ)
  | "q2d", [n, m], [t] =>
      let am := Float.ofInt m.natAbs
      let az := if m < 0 then Float.sin (am * t) else Float.cos (am * t)
      some (q2d Float.sqrt n.toNat m x az)
  | "hopkins", [a, b, c], [t, H] =>
      let az := if a < 0 then Float.sin (Float.ofInt a.natAbs * t) else Float.cos (Float.ofInt a * t)
      some (hopkins b.toNat c.toNat az x H)
  | _, _, _ => evalAlg fam ip kp x

def step (t : List String) : String :=
  match t with
  | "f" :: fam :: rest =>
    match splitBar rest with
    | [is, ks, xs] =>
      match parseAll? parseInt? is, parseAll? parseFloatBits? ks, parseAll? parseFloatBits? xs with
      | some ip, some kp, some pts =>
        match pts.mapM (evalFloat fam ip kp) with
        | some vs => fmtList fmtFloat vs
        | none => "bad-op"
      | _, _, _ => "bad-op"
    | _ => "bad-op"
  | "q" :: fam :: rest =>
    match splitBar rest with
    | [is, ks, xs] =>
      match parseAll? parseInt? is, parseAll? parseRat? ks, parseAll? parseRat? xs with
      | some ip, some kp, some pts =>
        match pts.mapM (evalAlg (K := Rat) fam ip kp) with
        | some vs => fmtList fmtRat vs
        | none => "bad-op"
      | _, _, _ => "bad-op"
    | _ => "bad-op"
  | ["abc", n, "|", a, b] =>
    match n.toNat?, parseFloatBits? a, parseFloatBits? b with
    | some n, some a, some b => let (A, B, C) := abc n a b; fmtList fmtFloat [A, B, C]
    | _, _, _ => "bad-op"
  | ["qabc", n, "|", a, b] =>
    match n.toNat?, parseRat? a, parseRat? b with
    | some n, some a, some b => let (A, B, C) := abc (K := Rat) n a b; fmtList fmtRat [A, B, C]
    | _, _, _ => "bad-op"
  | ["q2dabc", n, m] =>
    match n.toNat?, m.toNat? with
    | some n, some m => let (A, B, C) := q2dAbcK (Float.ofNat n) (Float.ofNat m); fmtList fmtFloat [A, B, C]
    | _, _ => "bad-op"
  | ["q2dgam", n, m] =>
    match n.toNat?, m.toNat? with
    | some n, some m => fmtList fmtFloat [(q2dGamma n m : Float)]
    | _, _ => "bad-op"
  | ["q2dFG", n, m] =>
    match n.toNat?, m.toNat? with
    | some n, some m => fmtList fmtFloat [(q2dF n m : Float), q2dG n m, q2df Float.sqrt n m, q2dg Float.sqrt n m]
    | _, _ => "bad-op"
  | ["fgh", n] =>
    match n.toNat? with
    | some n => fmtList fmtFloat [qbfsF Float.sqrt n, qbfsG Float.sqrt n, qbfsH n (qbfsF Float.sqrt n)]
    | none => "bad-op"
  | _ => "bad-op"

def main : IO Unit := mainLoop step
