import PrysmVerif.Wire
import PrysmVerif.Model.C20
open Wire Model.C20 Model.C20.Exec

def fmtM (m : M22 C) : String :=
  fmtList fmtFloat [m.a.re, m.a.im, m.b.re, m.b.im, m.c.re, m.c.im, m.d.re, m.d.im]

def parseM : List Float → Option (M22 C)
  | [a, a', b, b', c, c', d, d'] => some ⟨⟨a, a'⟩, ⟨b, b'⟩, ⟨c, c'⟩, ⟨d, d'⟩⟩
  | _ => none

def step (t : List String) : String :=
  match t with
  | op :: rest =>
    match parseAll? parseFloatBits? rest with
    | none => "bad-op"
    | some xs =>
      match op, xs with
      | "rot", [θ] => fmtM (rotF θ)
      | "retarder", [δ, θ] => fmtM (retarderF δ θ)
      | "diatt", [α, θ] => fmtM (diattenuatorF α θ)
      | "vortex", [q, θ, δ, ρ] => fmtM (vortexF q θ δ ρ)
      | "linpol", [φ] => let v := linPolF φ; fmtList fmtFloat [v.x.re, v.x.im, v.y.re, v.y.im]
      | "circpol", [h] => let v := circPolF (h > 0); fmtList fmtFloat [v.x.re, v.x.im, v.y.re, v.y.im]
      | "malus", [θ, φ] => let v := malusF θ φ; fmtList fmtFloat [v.x.re, v.x.im, v.y.re, v.y.im]
      | "mueller", _ =>
        match parseM xs with
        | some J => fmtList fmtFloat (muellerF J ++ [(muellerImF J).foldl (fun m x => if x.abs > m then x.abs else m) 0])
        | none => "bad-op"
      | "pauli", _ =>
        match parseM xs with
        | some J =>
          let cs := (List.range 4).map fun k => pauliCoeff I J k
          fmtList fmtFloat (cs.flatMap fun z => [z.re, z.im])
        | none => "bad-op"
      | _, _ => "bad-op"
  | _ => "bad-op"

def main : IO Unit := mainLoop step
