import PrysmVerif.Wire
import PrysmVerif.Model.C03Exec
open Wire Model.C03 Model.C03.Exec

/-- model of `Wavefront.focus` / `unfocus` on a padded array of `M × N` samples (the shape the implementation actually
transformed; that `pad2d` chooses `ceil(s·Q)` is C04's claim): pad with the origin on the origin, rotate, DFT, rotate back,
ortho scale; the reported spacing comes from axis 1 of the padded array -/
def fftTable (inv : Bool) (m n M N : Nat) (f : Array (Array C)) : Array (Array C) :=
  let e := if inv then eI else eF
  let rows := (Array.range m).map fun j => (Array.range N).map fun l =>
    fftRoute1 e N (padded n N (fun i => getC f j i)) l
  let norm : C := Cx.ofReal (1.0 / Float.sqrt (M.toFloat * N.toFloat))
  (Array.range M).map fun k => (Array.range N).map fun l =>
    norm * fftRoute1 e M (padded m M (fun j => getC rows j l)) k

def step (t : List String) : String :=
  match t with
  | ["q", a, b, c, d] => match floats? [a, b, c, d] with
      | some [D, z, lam, dxo] => fmtFloat (qForSampling D z lam dxo)
      | _ => "bad-op"
  | ["p2s", a, b, c, d] => match floats? [a, b, c, d] with
      | some [x, N, lam, efl] => fmtFloat (pupilToPsf x N lam efl)
      | _ => "bad-op"
  | ["s2p", a, b, c, d] => match floats? [a, b, c, d] with
      | some [x, N, lam, efl] => fmtFloat (psfToPupil x N lam efl)
      | _ => "bad-op"
  | "fs" :: dir :: m :: n :: M :: N :: rest =>
      match m.toNat?, n.toNat?, M.toNat?, N.toNat?, floats? rest with
      | some m, some n, some M, some N, some (dx :: z :: lam :: dxo :: shx :: shy :: data) =>
          if data.length ≠ 2 * m * n then "bad-op" else
          fmtGrid (fixedTable (dir == "inv") m n M N dx z lam dxo shx shy (parseGrid m n data))
      | _, _, _, _, _ => "bad-op"
  | "fspt" :: dir :: m :: n :: M :: N :: k :: l :: rest =>
      match m.toNat?, n.toNat?, M.toNat?, N.toNat?, k.toNat?, l.toNat?, floats? rest with
      | some m, some n, some M, some N, some k, some l, some (dx :: z :: lam :: dxo :: shx :: shy :: data) =>
          if data.length ≠ 2 * m * n then "bad-op" else
          let c := fixedPoint (dir == "inv") m n M N dx z lam dxo shx shy (parseGrid m n data) k l
          s!"{fmtFloat c.re} {fmtFloat c.im}"
      | _, _, _, _, _, _, _ => "bad-op"
  | "fft" :: dir :: m :: n :: M :: N :: rest =>
      match m.toNat?, n.toNat?, M.toNat?, N.toNat?, floats? rest with
      | some m, some n, some M, some N, some (dx :: lam :: efl :: data) =>
          if data.length ≠ 2 * m * n ∨ M < m ∨ N < n then "bad-op" else
          let out := fftTable (dir == "inv") m n M N (parseGrid m n data)
          let rep := if dir == "inv" then psfToPupil dx N.toFloat lam efl else focusDx dx N.toFloat lam efl
          s!"{fmtFloat rep} {fmtGrid out}"
      | _, _, _, _, _ => "bad-op"
  | "F2" :: dir :: m :: n :: rest =>
      -- the 2-D physical integral `Model.C03.F2` itself at continuous output coordinates (eta, xi)
      match m.toNat?, n.toNat?, floats? rest with
      | some m, some n, some (dx :: lam :: z :: eta :: xi :: data) =>
          if data.length ≠ 2 * m * n then "bad-op" else
          let f := parseGrid m n data
          let c : C := F2 (if dir == "inv" then eI else eF) m n dx (1.0 / (lam * z)) (fun j i => getC f j i) eta xi
          s!"{fmtFloat c.re} {fmtFloat c.im}"
      | _, _, _ => "bad-op"
  | ["tilt", n, k] =>
      -- `Model.C03.tilt`: k waves of tilt across the n samples of an axis
      match n.toNat?, floats? [k] with
      | some n, some [k] =>
          " ".intercalate ((List.range n).flatMap fun i =>
            let c : C := tilt eF n k i
            [fmtFloat c.re, fmtFloat c.im])
      | _, _ => "bad-op"
  | _ => "bad-op"

def main : IO Unit := mainLoop step
