import PrysmVerif.Wire
import PrysmVerif.Model.C03
open Wire Model.C03

abbrev C := Cx Float

def twoPi : Float := 6.283185307179586476925286766559

/-- forward kernel `e t = exp(-2πi t)` -/
def eF (t : Float) : C := ⟨Float.cos (twoPi * t), -(Float.sin (twoPi * t))⟩
def eI (t : Float) : C := eF (-t)

def getC (a : Array (Array C)) (j i : Nat) : C := (a.getD j #[]).getD i ⟨0, 0⟩

/-- memoised evaluation of `Model.C03.mdft2`: rows first (`ary @ Ein`), then columns (`Eout @ …`) -/
def table2 (e : Float → C) (m n M N : Nat) (αy αx sy sx : Float) (norm : C) (f : Array (Array C)) : Array (Array C) :=
  let rows := (Array.range m).map fun j => (Array.range N).map fun l => mdft1 e n N αx sx (fun i => getC f j i) l
  (Array.range M).map fun k => (Array.range N).map fun l => norm * mdft1 e m M αy sy (fun j => getC rows j l) k

def parseGrid (m n : Nat) (xs : List Float) : Array (Array C) :=
  let a := xs.toArray
  (Array.range m).map fun j => (Array.range n).map fun i =>
    (⟨a.getD (2 * (j * n + i)) 0, a.getD (2 * (j * n + i) + 1) 0⟩ : C)

def fmtGrid (g : Array (Array C)) : String :=
  " ".intercalate (g.toList.flatMap fun row => row.toList.flatMap fun c => [fmtFloat c.re, fmtFloat c.im])

def floats? (l : List String) : Option (List Float) := l.mapM parseFloatBits?

/-- model of `focus_fixed_sampling` / `unfocus_fixed_sampling` as a table -/
def fixedTable (inv : Bool) (m n M N : Nat) (dx z lam dxo shx shy : Float) (f : Array (Array C)) : Array (Array C) :=
  let αy : Float := axisAlpha m.toFloat dx z lam dxo
  let αx : Float := axisAlpha n.toFloat dx z lam dxo
  table2 (if inv then eI else eF) m n M N αy αx (shiftSamples shy dxo) (shiftSamples shx dxo)
    (Cx.ofReal (Float.sqrt αy * Float.sqrt αx)) f

/-- one point of the table straight from `Model.C03.fixedSampling` (no memoisation), used as a self-check -/
def fixedPoint (inv : Bool) (m n M N : Nat) (dx z lam dxo shx shy : Float) (f : Array (Array C)) (k l : Nat) : C :=
  fixedSampling (if inv then eI else eF) Cx.ofReal Float.sqrt m n M N dx z lam dxo shx shy (fun j i => getC f j i) k l

/-- model of `Wavefront.focus` / `unfocus`: pad (origin on origin), rotate, DFT, rotate back, ortho scale;
reported spacing from axis 1 of the padded array -/
def fftTable (inv : Bool) (m n : Nat) (Q : Float) (f : Array (Array C)) : Nat × Nat × Array (Array C) :=
  let M := if Q == 1.0 then m else padLenF m Q
  let N := if Q == 1.0 then n else padLenF n Q
  let e := if inv then eI else eF
  let rows := (Array.range m).map fun j => (Array.range N).map fun l =>
    fftRoute1 e N (padded n N (fun i => getC f j i)) l
  let norm : C := Cx.ofReal (1.0 / Float.sqrt (M.toFloat * N.toFloat))
  let out := (Array.range M).map fun k => (Array.range N).map fun l =>
    norm * fftRoute1 e M (padded m M (fun j => getC rows j l)) k
  (M, N, out)

def step (t : List String) : String :=
  match t with
  | ["q", a, b, c, d] => match floats? [a, b, c, d] with
      | some [D, z, lam, dxo] => fmtFloat (qForSampling D z lam dxo)
      | _ => "bad-op"
  | ["p2s", a, b, c, d] => match floats? [a, b, c, d] with
      | some [x, N, lam, efl] => fmtFloat (pupilToPsf x N lam efl)
      | _ => "bad-op"
  | ["s2p", a, b, c, d] => match floats? [a, b, c, d] with
      | some [x, N, lam, efl] => fmtFloat (psfToPupil x N lam efl)
      | _ => "bad-op"
  | "fs" :: dir :: m :: n :: M :: N :: rest =>
      match m.toNat?, n.toNat?, M.toNat?, N.toNat?, floats? rest with
      | some m, some n, some M, some N, some (dx :: z :: lam :: dxo :: shx :: shy :: data) =>
          if data.length ≠ 2 * m * n then "bad-op" else
          fmtGrid (fixedTable (dir == "inv") m n M N dx z lam dxo shx shy (parseGrid m n data))
      | _, _, _, _, _ => "bad-op"
  | "fspt" :: dir :: m :: n :: M :: N :: k :: l :: rest =>
      match m.toNat?, n.toNat?, M.toNat?, N.toNat?, k.toNat?, l.toNat?, floats? rest with
      | some m, some n, some M, some N, some k, some l, some (dx :: z :: lam :: dxo :: shx :: shy :: data) =>
          if data.length ≠ 2 * m * n then "bad-op" else
          let c := fixedPoint (dir == "inv") m n M N dx z lam dxo shx shy (parseGrid m n data) k l
          s!"{fmtFloat c.re} {fmtFloat c.im}"
      | _, _, _, _, _, _, _ => "bad-op"
  | "fft" :: dir :: m :: n :: rest =>
      match m.toNat?, n.toNat?, floats? rest with
      | some m, some n, some (Q :: dx :: lam :: efl :: data) =>
          if data.length ≠ 2 * m * n then "bad-op" else
          let (M, N, out) := fftTable (dir == "inv") m n Q (parseGrid m n data)
          let rep := if dir == "inv" then psfToPupil dx N.toFloat lam efl else focusDx dx N.toFloat lam efl
          s!"{M} {N} {fmtFloat rep} {fmtGrid out}"
      | _, _, _ => "bad-op"
  | _ => "bad-op"

def main : IO Unit := mainLoop step
