import PrysmVerif.Wire
import PrysmVerif.Model.C01
open Wire Model.C01

/-! line protocol over `Model.C01` with `R = Float`, `K = Cx Float`,
`e t = exp(∓2πi t)`, `nrm a = √a`.

requests (floats as IEEE bit patterns, arrays row-major as `re im re im …`):
  spec2 <dir> m n M N Qy Qx sy sx <2mn floats>          textbook double sum (the oracle)
  mdft2 <dir> m n M N Qy Qx sx sy <2mn floats>          triple product; shift given as the tuple (shift[0], shift[1])
  czt2  <dir> m n M N K L Qy Qx sx sy <2mn floats>      Bluestein pipeline; iczt = conj ∘ czt ∘ conj when dir = -1
  fft2  <dir> m n M N <2mn floats>                      pad to (M,N) + ifftshift/fft2(ortho)/fftshift
  cztglue n M L                                          the nine integers of the index glue
  cztbasis n M L alpha s                                 h (L values), b (n values), a (M values) of `_prepare_czt_basis`
  cache2 nf stores probe miss use clear (C | K v1 … v_nf)*   several-dictionary machine (lists comma-joined, `-` = empty):
                                                          reply per op `ok|err|c:len,len,…` (distinct keys per dictionary of `stores`)
  cache nf  (C | K v1 … v_nf)*                           executor cache state machine with nf key fields (string values):
                                                         per op `m:<size>` (miss), `h:<size>` (hit) or `c:0` (clear)
reply: 2MN floats (row-major re im), or integers
-/

def twoPi : Float := 6.283185307179586

def eFwd (t : Float) : Cx Float := ⟨Float.cos (twoPi * t), -Float.sin (twoPi * t)⟩
def eInv (t : Float) : Cx Float := ⟨Float.cos (twoPi * t), Float.sin (twoPi * t)⟩
def nrmF (a : Float) : Cx Float := ⟨Float.sqrt a, 0.0⟩

def parseArr (m n : Nat) (l : List Float) : Option (Array (Array (Cx Float))) :=
  if l.length ≠ 2 * m * n then none else
    let a := l.toArray
    some (Array.ofFn (n := m) fun j => Array.ofFn (n := n) fun i =>
      (⟨a.getD (2 * (j.val * n + i.val)) 0.0, a.getD (2 * (j.val * n + i.val) + 1) 0.0⟩ : Cx Float))

def fmtArr (M N : Nat) (f : Nat → Nat → Cx Float) : String :=
  " ".intercalate ((List.range M).flatMap fun k => (List.range N).flatMap fun l =>
    let z := f k l; [fmtFloat z.re, fmtFloat z.im])

def fmtVec (n : Nat) (f : Nat → Cx Float) : String :=
  " ".intercalate ((List.range n).flatMap fun k => let z := f k; [fmtFloat z.re, fmtFloat z.im])

/-- run the cache model on a token stream; `nf` key fields named "0", "1", … -/
partial def cacheRun (nf : Nat) (x : Exec String Nat) (c : Cache String Nat) (toks : List String) (acc : List String) :
    Option (List String) :=
  match toks with
  | [] => some acc.reverse
  | "C" :: rest => cacheRun nf x (runOps x c [Op.clear]) rest ("c:0" :: acc)
  | "K" :: rest =>
    if rest.length < nf then none else
      let vals := (rest.take nf).toArray
      let st : St String := fun name => vals.getD name.toNat! ""
      let before := c.length
      let c' := (callStep x c st).2
      cacheRun nf x c' (rest.drop nf) ((if c'.length = before then s!"h:{c'.length}" else s!"m:{c'.length}") :: acc)
  | _ => none

/-- run the several-dictionary machine (`callStep2`, `runOps2`/`clear2`, `dictLen`) on a token stream -/
partial def cache2Run (nf : Nat) (x : Exec2 String Nat) (stores : List String) (s : Dicts String Nat) (toks : List String)
    (acc : List String) : Option (List String) :=
  let lens := fun (s' : Dicts String Nat) => ",".intercalate (stores.map fun d => toString (dictLen (s' d)))
  match toks with
  | [] => some acc.reverse
  | "C" :: rest => let s' := runOps2 x s [Op.clear]; cache2Run nf x stores s' rest (s!"c:{lens s'}" :: acc)
  | "K" :: rest =>
    if rest.length < nf then none else
      let vals := (rest.take nf).toArray
      let st : St String := fun name => vals.getD name.toNat! ""
      let r := callStep2 x s st
      cache2Run nf x stores r.2 (rest.drop nf) (s!"{if r.1.all Option.isSome then "ok" else "err"}:{lens r.2}" :: acc)
  | _ => none

def parseNames (s : String) : List String := if s = "-" then [] else s.splitOn ","

def step (t : List String) : String :=
  match t with
  | "spec2" :: dir :: m :: n :: M :: N :: rest =>
    match dir.toInt?, m.toNat?, n.toNat?, M.toNat?, N.toNat?, parseAll? parseFloatBits? rest with
    | some dir, some m, some n, some M, some N, some (qy :: qx :: sy :: sx :: data) =>
      match parseArr m n data with
      | some f =>
        let e := if dir < 0 then eFwd else eInv
        fmtArr M N (spec2 e nrmF m n M N (alphaOf m qy) (alphaOf n qx) sy sx (rd2 f))
      | none => "bad-op"
    | _, _, _, _, _, _ => "bad-op"
  | "mdft2" :: dir :: m :: n :: M :: N :: rest =>
    match dir.toInt?, m.toNat?, n.toNat?, M.toNat?, N.toNat?, parseAll? parseFloatBits? rest with
    | some dir, some m, some n, some M, some N, some (qy :: qx :: s0 :: s1 :: data) =>
      match parseArr m n data with
      | some f =>
        let ay := alphaOf m qy
        let ax := alphaOf n qx
        fmtArr M N (mdft2G (-1) (dir < 0) eFwd nrmF wiringAxis0 wiringAxis1 (m, n) (M, N) ay ax ay ax (s0, s1) (rd2 f))
      | none => "bad-op"
    | _, _, _, _, _, _ => "bad-op"
  | "czt2" :: dir :: m :: n :: M :: N :: K' :: L :: rest =>
    match dir.toInt?, m.toNat?, n.toNat?, M.toNat?, N.toNat?, K'.toNat?, L.toNat?, parseAll? parseFloatBits? rest with
    | some dir, some m, some n, some M, some N, some K', some L, some (qy :: qx :: s0 :: s1 :: data) =>
      match parseArr m n data with
      | some f =>
        let out := if dir < 0
          then czt2G cztSignsRef cztStagesRef eFwd nrmF wiringAxis0 wiringAxis1 (cztGlue m M K') (cztGlue n N L)
            (m, n) (M, N) (K', L) (alphaOf m qy) (alphaOf n qx) (s0, s1) f
          else iczt2G Cx.conj cztSignsRef cztStagesRef eFwd nrmF wiringAxis0 wiringAxis1 (cztGlue m M K') (cztGlue n N L)
            (m, n) (M, N) (K', L) (alphaOf m qy) (alphaOf n qx) (s0, s1) f
        fmtArr M N (rd2 out)
      | none => "bad-op"
    | _, _, _, _, _, _, _, _ => "bad-op"
  | "fft2" :: dir :: m :: n :: M :: N :: rest =>
    match dir.toInt?, m.toNat?, n.toNat?, M.toNat?, N.toNat?, parseAll? parseFloatBits? rest with
    | some dir, some m, some n, some M, some N, some data =>
      match parseArr m n data with
      | some f =>
        let fl := if dir < 0 then focusFlagsRef else unfocusFlagsRef
        fmtArr M N (rd2 (fftRoute2G fl eFwd nrmF (m, n) (M, N) (padOffset m M, padOffset n N) f))
      | none => "bad-op"
    | _, _, _, _, _, _ => "bad-op"
  | ["cztglue", n, M, L] =>
    match n.toNat?, M.toNat?, L.toNat? with
    | some n, some M, some L =>
      let g := cztGlue n M L
      s!"{g.start} {g.j1Lo} {g.h1Lo} {g.h1Hi} {g.j2Lo} {g.h2Lo} {g.h2Hi} {g.zLo} {g.zHi}"
    | _, _, _ => "bad-op"
  | ["cztbasis", n, M, L, al, sh] =>
    match n.toNat?, M.toNat?, L.toNat?, parseFloatBits? al, parseFloatBits? sh with
    | some n, some M, some L, some α, some s =>
      fmtVec L (cztHS cztSignsRef eFwd (cztGlue n M L) α) ++ " " ++ fmtVec n (cztBS cztSignsRef eFwd nrmF n α s) ++ " " ++
        fmtVec M (cztAS cztSignsRef eFwd M α s)
    | _, _, _, _, _ => "bad-op"
  | "cache2" :: nf :: stores :: probe :: miss :: use :: clr :: toks =>
    match nf.toNat? with
    | some nf =>
      let fields := (List.range nf).map toString
      let x : Exec2 String Nat := { keyFields := fields, buildReads := fields, build := fun d l => d.length + l.length,
                                    proto := { probe := parseNames probe, missWrites := parseNames miss,
                                               useReads := parseNames use, clearResets := parseNames clr } }
      match cache2Run nf x (parseNames stores) noDicts toks [] with
      | some out => " ".intercalate out
      | none => "bad-op"
    | none => "bad-op"
  | "cache" :: nf :: toks =>
    match nf.toNat? with
    | some nf =>
      let fields := (List.range nf).map toString
      let x : Exec String Nat := { keyFields := fields, buildReads := fields, build := fun l => l.length }
      match cacheRun nf x [] toks [] with
      | some out => " ".intercalate out
      | none => "bad-op"
    | none => "bad-op"
  | _ => "bad-op"

def main : IO Unit := mainLoop step
