import PrysmVerif.Wire
import PrysmVerif.Model.C04
open Wire Model.C04

def step (t : List String) : String :=
  match t with
  | ["pad", n, N] => match n.toInt?, N.toInt? with
      | some n, some N => s!"{padBefore n N} {padAfter n N}"
      | _, _ => "bad-op"
  | ["crop", n, N] => match n.toInt?, N.toInt? with
      | some n, some N => s!"{cropLeft n N}"
      | _, _ => "bad-op"
  | ["fftrange", n] => match n.toInt? with
      | some n => s!"{fftrangeLo n} {fftrangeHi n}"
      | _ => "bad-op"
  | ["centroidref", n] => match n.toInt? with
      | some n => s!"{centroidRef n}"
      | _ => "bad-op"
  | ["ftunit", n] => match n.toInt? with
      | some n => fmtList toString ((List.range n.toNat).map fun (i : Nat) => ftUnitNum n (i : Int))
      | _ => "bad-op"
  | ["ftunit0", n] => match n.toInt? with
      | some n => fmtList toString ((List.range n.toNat).map fun (i : Nat) => ftUnitNumS false n (i : Int))
      | _ => "bad-op"
  | ["grid", m, n, i, j, dx] => match m.toInt?, n.toInt?, i.toInt?, j.toInt?, parseRat? dx with
      | some m, some n, some i, some j, some dx => s!"{fmtRat (gridX m n dx i j)} {fmtRat (gridY m n dx i j)}"
      | _, _, _, _, _ => "bad-op"
  | ["centroid", m, n, p, q, dx] => match m.toInt?, n.toInt?, p.toInt?, q.toInt?, parseRat? dx with
      | some m, some n, some p, some q, some dx =>
          s!"{fmtRat (centroidSpatial dx (p : Rat) m)} {fmtRat (centroidSpatial dx (q : Rat) n)}"
      | _, _, _, _, _ => "bad-op"
  | ["padlen", n, p, q] => match n.toInt?, parseRat? (p ++ "/" ++ q) with
      | some n, some Q => s!"{(padOutLen n Q).num}"
      | _, _ => "bad-op"
  | _ => "bad-op"

def main : IO Unit := mainLoop step
