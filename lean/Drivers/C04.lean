import PrysmVerif.Wire
import PrysmVerif.Model.C04
open Wire Model.C04

def step (t : List String) : String :=
  match t with
  | ["pad", n, N] => match n.toInt?, N.toInt? with
      | some n, some N => s!"{padBefore n N} {padAfter n N}"
      | _, _ => "bad-op"
  | ["crop", n, N] => match n.toInt?, N.toInt? with
      | some n, some N => s!"{cropLeft n N}"
      | _, _ => "bad-op"
  | ["fftrange", n] => match n.toInt? with
      | some n => s!"{fftrangeLo n} {fftrangeHi n}"
      | _ => "bad-op"
  | ["centroidref", n] => match n.toInt? with
      | some n => s!"{centroidRef n}"
      | _ => "bad-op"
  | ["ftunit", n] => match n.toInt? with
      | some n => fmtList toString ((List.range n.toNat).map fun (i : Nat) => ftUnitNum n (i : Int))
      | _ => "bad-op"
  | ["ftunit0", n] => match n.toInt? with
      | some n => fmtList toString ((List.range n.toNat).map fun (i : Nat) => ftUnitNumS false n (i : Int))
      | _ => "bad-op"
  | ["grid", m, n, i, j, dx] => match m.toInt?, n.toInt?, i.toInt?, j.toInt?, parseRat? dx with
      | some m, some n, some i, some j, some dx => s!"{fmtRat (gridX m n dx i j)} {fmtRat (gridY m n dx i j)}"
      | _, _, _, _, _ => "bad-op"
  | ["centroid", m, n, p, q, dx] => match m.toInt?, n.toInt?, p.toInt?, q.toInt?, parseRat? dx with
      | some m, some n, some p, some q, some dx =>
          s!"{fmtRat (centroidSpatial dx (p : Rat) m)} {fmtRat (centroidSpatial dx (q : Rat) n)}"
      | _, _, _, _, _ => "bad-op"
  | ["padlen", n, p, q] => match n.toInt?, parseRat? (p ++ "/" ++ q) with
      | some n, some Q => s!"{(padOutLen n Q).num}"
      | _, _ => "bad-op"
  | ["padsrc", n, N] => match n.toInt?, N.toInt? with
      | some n, some N => fmtList toString ((List.range N.toNat).map fun (i : Nat) => (padSrc n N (i : Int)).getD (-1))
      | _, _ => "bad-op"
  | ["cropsrc", n, N] => match n.toInt?, N.toInt? with
      | some n, some N => fmtList toString ((List.range N.toNat).map fun (i : Nat) => cropSrc n N (i : Int))
      | _, _ => "bad-op"
  | ["shifts", n] => match n.toInt? with
      | some n =>
          let f := (List.range n.toNat).map fun (i : Nat) => rollSrc n (npFftshiftBy n) (i : Int)
          let g := (List.range n.toNat).map fun (i : Nat) => rollSrc n (npIfftshiftBy n) (i : Int)
          fmtList toString (f ++ g)
      | _ => "bad-op"
  | ["fftfreq", n] => match n.toInt? with
      | some n => fmtList toString ((List.range n.toNat).map fun (i : Nat) =>
          fftfreqOf (npFftfreqSplit n) npFftfreqP1Lo (npFftfreqP2Lo n) (i : Int))
      | _ => "bad-op"
  | ["slices", m, n, dx] => match m.toInt?, n.toInt?, parseRat? dx with
      | some m, some n, some dx =>
          let xv := slicesXVec (gridX m n dx)
          let yv := slicesYVec (gridY m n dx)
          let cy := slicesCentreY argminAbs m n xv yv
          let cx := slicesCentreX argminAbs m n xv yv
          let src : Int → Int → Int := fun i j => i * n + j + 1
          let l (k : Int) (f : Int → Int) := fmtList toString ((List.range k.toNat).map fun (i : Nat) => f (i : Int))
          s!"{cy} {cx} | {l n (sliceXTwo src cy cx)} | {l m (sliceYTwo src cy cx)} | {l (n - cx) (sliceXOne src cy cx)} | {l (m - cy) (sliceYOne src cy cx)} | {fmtRat (sliceXOneCoord xv cx 0)} {fmtRat (sliceYOneCoord yv cy 0)}"
      | _, _, _ => "bad-op"
  | ["vec", m, n, k, dx] => match m.toInt?, n.toInt?, k.toInt?, parseRat? dx with
      | some m, some n, some k, some dx => s!"{fmtRat (vecX m n dx k)} {fmtRat (vecY m n dx k)}"
      | _, _, _, _ => "bad-op"
  | ["dxdiam", d, m, n] => match parseRat? d, m.toInt?, n.toInt? with
      | some d, some m, some n => fmtRat (dxOfDiameter d m n)
      | _, _, _ => "bad-op"
  | ["autocrop", c, px] => match c.toInt?, px.toInt? with
      | some c, some px => s!"{autocropLo c px} {autocropHi c px}"
      | _, _ => "bad-op"
  | ["support", m, n, dx] => match m.toInt?, n.toInt?, parseRat? dx with
      | some m, some n, some dx => s!"{fmtRat (supportX m n dx)} {fmtRat (supportY m n dx)}"
      | _, _, _ => "bad-op"
  | ["resample", len, z] => match len.toInt?, parseRat? z with
      | some len, some z => s!"{(resampleOut len z).num}"
      | _, _ => "bad-op"
  | ["polar", m, n] => match m.toInt?, n.toInt? with
      | some m, some n =>
          let shp (ax : Int) : Int := if ax = polarRhoAxis then polarRhoLen m n else polarPhiLen m n
          s!"{shp 0} {shp 1} {polarRhoLen m n}"
      | _, _ => "bad-op"
  | _ => "bad-op"

def main : IO Unit := mainLoop step
