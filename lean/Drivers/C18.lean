import PrysmVerif.Wire
import PrysmVerif.Model.C18
open Wire Model.C18

/-! line protocol driver for C18 (Float / Int instantiation of the model)

  ring k                                     -> q r s  q r s ...
  window c ic s n                            -> lo hi
  hexap nx ny dx rings D gap rot90 m e1..em  -> per included segment: id cx cy ylo yhi xlo xhi
  hexmask rot90 a cx cy margin nx x.. ny y.. -> ny*nx characters (row-major): 0 outside, 1 inside, 2 within margin of the boundary
  compose ny nx k {ylo yhi xlo xhi bits vals}-> ny*nx floats
  circle rho k r..          annulus rin rout k r..      rect w h k (x y)..
  ellipse a b c s k (x y).. vane width k (x y)..        -> k characters 0/1
-/

def w3 : Float := Float.sqrt 3

def pf? (s : String) : Option Float := parseFloatBits? s

def floats (ts : List String) : Option (List Float) := ts.mapM pf?

def truncF (x : Float) : Int := x.toInt64.toInt

def absF (x : Float) : Float := if x < 0 then -x else x

def bit (b : Bool) : String := if b then "1" else "0"

def pairs : List Float → List (Float × Float)
  | x :: y :: r => (x, y) :: pairs r
  | _ => []

def hexap (nx ny : Int) (dx : Float) (rings : Nat) (D gap : Float) (rot90 : Bool) (excl : List Nat) : String :=
  let rseg := circumradius w3 D
  let P := pitch w3 D gap
  let sps := truncF (rseg / dx + Float.ofInt spsOffset)
  let cx := centreIndex nx
  let cy := centreIndex ny
  let segs := segments rings excl
  " ".intercalate <| segs.map fun (id, h) =>
    let c := if id = 0 then ((0 : Float), (0 : Float)) else
      (if rot90 then center90 w3 P (Float.ofInt h.q) (Float.ofInt h.r) else center0 w3 P (Float.ofInt h.q) (Float.ofInt h.r))
    let icx := truncF (c.1 / dx)
    let icy := truncF (c.2 / dx)
    s!"{id} {fmtFloat c.1} {fmtFloat c.2} {windowLo cy icy sps ny} {windowHi cy icy sps ny} {windowLo cx icx sps nx} {windowHi cx icx sps nx}"

def hexmask (rot90 : Bool) (a cx cy margin : Float) (xs ys : List Float) : String :=
  String.join <| ys.map fun y => String.join <| xs.map fun x =>
    let t := slabs rot90 w3 (x - cx) (y - cy)
    let d := min (min (a - absF t.1) (a - absF t.2.1)) (a - absF t.2.2)
    if absF d < margin then "2" else if d > 0 then "1" else "0"

/-- parse `k` segments: ylo yhi xlo xhi bits vals -/
def parseSegs : Nat → List String → Option (List (Seg Float))
  | 0, _ => some []
  | k + 1, ylo :: yhi :: xlo :: xhi :: bits :: rest => do
      let ylo ← ylo.toInt?
      let yhi ← yhi.toInt?
      let xlo ← xlo.toInt?
      let xhi ← xhi.toInt?
      let wdt := (xhi - xlo).toNat
      let cnt := (yhi - ylo).toNat * wdt
      let vals ← floats (rest.take cnt)
      let barr := bits.toList.toArray
      let varr := vals.toArray
      let g : Seg Float := ⟨ylo, yhi, xlo, xhi,
        fun i j => barr.getD (i.toNat * wdt + j.toNat) '0' == '1',
        fun i j => varr.getD (i.toNat * wdt + j.toNat) 0⟩
      let gs ← parseSegs k (rest.drop cnt)
      pure (g :: gs)
  | _, _ => none

def step (t : List String) : String :=
  let r : Option String := match t with
    | ["ring", k] => do
        let k ← k.toNat?
        pure (" ".intercalate ((hexRing k).map fun h => s!"{h.q} {h.r} {h.s}"))
    | ["window", c, ic, s, n] => do
        let c ← c.toInt?
        let ic ← ic.toInt?
        let s ← s.toInt?
        let n ← n.toInt?
        pure s!"{windowLo c ic s n} {windowHi c ic s n}"
    | "hexap" :: nx :: ny :: dx :: rings :: D :: gap :: rot :: _m :: ex => do
        let nx ← nx.toInt?
        let ny ← ny.toInt?
        let dx ← pf? dx
        let rings ← rings.toNat?
        let D ← pf? D
        let gap ← pf? gap
        let ex ← ex.mapM (·.toNat?)
        pure (hexap nx ny dx rings D gap (rot == "1") ex)
    | "hexmask" :: rot :: a :: cx :: cy :: margin :: nx :: rest => do
        let a ← pf? a
        let cx ← pf? cx
        let cy ← pf? cy
        let margin ← pf? margin
        let nx ← nx.toNat?
        let xs ← floats (rest.take nx)
        let ys ← floats ((rest.drop (nx + 1)))
        pure (hexmask (rot == "1") a cx cy margin xs ys)
    | "compose" :: ny :: nx :: k :: rest => do
        let ny ← ny.toNat?
        let nx ← nx.toNat?
        let k ← k.toNat?
        let gs ← parseSegs k rest
        let out := compose (fun _ _ => (0 : Float)) gs
        pure (" ".intercalate ((List.range ny).flatMap fun (i : Nat) => (List.range nx).map fun (j : Nat) => fmtFloat (out (i : Int) (j : Int))))
    | "circle" :: rho :: _k :: rs => do
        let rho ← pf? rho
        let rs ← floats rs
        pure (String.join (rs.map fun r => bit (decide (circle rho r))))
    | "annulus" :: rin :: rout :: _k :: rs => do
        let rin ← pf? rin
        let rout ← pf? rout
        let rs ← floats rs
        pure (String.join (rs.map fun r => bit (decide (annulus rin rout r))))
    | "rect" :: w :: h :: _k :: ps => do
        let w ← pf? w
        let h ← pf? h
        let ps ← floats ps
        pure (String.join ((pairs ps).map fun (x, y) => bit (decide (rectangle w h x y))))
    | "ellipse" :: a :: b :: c :: s :: _k :: ps => do
        let a ← pf? a
        let b ← pf? b
        let c ← pf? c
        let s ← pf? s
        let ps ← floats ps
        pure (String.join ((pairs ps).map fun (x, y) => bit (decide (ellipse a b c s x y))))
    | "vane" :: w :: _k :: ps => do
        let w ← pf? w
        let ps ← floats ps
        pure (String.join ((pairs ps).map fun (x, y) => bit (decide (vane absF w x y))))
    | "keyseg" :: pi :: rin :: rout :: lo :: hi :: _k :: ps => do
        let pi ← pf? pi
        let rin ← pf? rin
        let rout ← pf? rout
        let lo ← pf? lo
        let hi ← pf? hi
        let ps ← floats ps
        pure (String.join ((pairs ps).map fun (r, t) => bit (decide (keySegment pi rin rout lo hi r t))))
    | "claim" :: bs => do
        let ms := bs.map (· == "1")
        let r := claims claimStep false ms
        pure (String.join (r.1.map bit) ++ " " ++ bit r.2)
    | _ => none
  r.getD "bad-op"

def main : IO Unit := mainLoop step
