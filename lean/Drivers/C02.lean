import PrysmVerif.Wire
import PrysmVerif.Model.C02
open Wire Model.C01 Model.C02

/-! line protocol over `Model.C02` (and the routes of `Model.C01`) with `R = Float`, `K = Cx Float`.

requests (floats as IEEE bit patterns, arrays row-major `re im …`):
  fft2 <dir> m n M N <data>                        padded FFT route (focus dir=-1, unfocus dir=1)
  pad m n M N <data>                               constant-0 pad with the model offset
  funf m n <data>                                  unfocus(focus(f))
  rtmdft m n M N Qy Qx s0 s1 <data>                idft2(dft2(f, Q, (M,N), shift), 1, (m,n), shift)
  rtczt m n M N K1 L1 K2 L2 Qy Qx s0 s1 <data>     iczt2(czt2(f, …), …)
  dftband m n M N Qy Qx s0 s1 <data>               dft2 only (for the energy)
  asptf m n wvl dx z                               transfer function
  asp m n wvl dx z <data>                          angular_spectrum(f, wvl, dx, z, Q=1)
  asptfb m n <tf> <data>                           angular_spectrum(f, tf=tf)
  fftfreq n                                        fftfreq(n)·n as integers
reply: floats (row-major re im) / integers -/

def twoPi : Float := 6.283185307179586
def eFwd (t : Float) : Cx Float := ⟨Float.cos (twoPi * t), -Float.sin (twoPi * t)⟩
def eInv (t : Float) : Cx Float := ⟨Float.cos (twoPi * t), Float.sin (twoPi * t)⟩
def nrmF (a : Float) : Cx Float := ⟨Float.sqrt a, 0.0⟩

def parseArr (m n : Nat) (l : List Float) : Option (Array (Array (Cx Float))) :=
  if l.length ≠ 2 * m * n then none else
    let a := l.toArray
    some (Array.ofFn (n := m) fun j => Array.ofFn (n := n) fun i =>
      (⟨a.getD (2 * (j.val * n + i.val)) 0.0, a.getD (2 * (j.val * n + i.val) + 1) 0.0⟩ : Cx Float))

def fmtArr (M N : Nat) (f : Nat → Nat → Cx Float) : String :=
  " ".intercalate ((List.range M).flatMap fun k => (List.range N).flatMap fun l =>
    let z := f k l; [fmtFloat z.re, fmtFloat z.im])

def step (t : List String) : String :=
  match t with
  | "fft2" :: dir :: m :: n :: M :: N :: rest =>
    match dir.toInt?, m.toNat?, n.toNat?, M.toNat?, N.toNat?, parseAll? parseFloatBits? rest with
    | some dir, some m, some n, some M, some N, some data =>
      match parseArr m n data with
      | some f =>
        let fl := if dir < 0 then focusFlagsRef else unfocusFlagsRef
        fmtArr M N (rd2 (fftRoute2G fl eFwd nrmF (m, n) (M, N) (padOffset m M, padOffset n N) f))
      | none => "bad-op"
    | _, _, _, _, _, _ => "bad-op"
  | "pad" :: m :: n :: M :: N :: rest =>
    match m.toNat?, n.toNat?, M.toNat?, N.toNat?, parseAll? parseFloatBits? rest with
    | some m, some n, some M, some N, some data =>
      match parseArr m n data with
      | some f => fmtArr M N (rd2 (pad2 (m, n) (M, N) (padOffset m M, padOffset n N) f))
      | none => "bad-op"
    | _, _, _, _, _ => "bad-op"
  | "funf" :: m :: n :: rest =>
    match m.toNat?, n.toNat?, parseAll? parseFloatBits? rest with
    | some m, some n, some data =>
      match parseArr m n data with
      | some f => fmtArr m n (rd2 (fftRoute2G unfocusFlagsRef eFwd nrmF (m, n) (m, n) (0, 0)
          (fftRoute2G focusFlagsRef eFwd nrmF (m, n) (m, n) (0, 0) f)))
      | none => "bad-op"
    | _, _, _ => "bad-op"
  | "rtmdft" :: m :: n :: M :: N :: rest =>
    match m.toNat?, n.toNat?, M.toNat?, N.toNat?, parseAll? parseFloatBits? rest with
    | some m, some n, some M, some N, some (qy :: qx :: s0 :: s1 :: data) =>
      match parseArr m n data with
      | some f =>
        fmtArr m n (mdftRoundTripG (-1) true false wiringAxis0 wiringAxis1 eFwd nrmF (m, n) (M, N)
          (alphaOf m qy) (alphaOf n qx) (alphaOf M 1.0) (alphaOf N 1.0) (s0, s1) (rd2 f))
      | none => "bad-op"
    | _, _, _, _, _ => "bad-op"
  | "dftband" :: m :: n :: M :: N :: rest =>
    match m.toNat?, n.toNat?, M.toNat?, N.toNat?, parseAll? parseFloatBits? rest with
    | some m, some n, some M, some N, some (qy :: qx :: s0 :: s1 :: data) =>
      match parseArr m n data with
      | some f =>
        let ay := alphaOf m qy
        let ax := alphaOf n qx
        fmtArr M N (mdft2G (-1) true eFwd nrmF wiringAxis0 wiringAxis1 (m, n) (M, N) ay ax ay ax (s0, s1) (rd2 f))
      | none => "bad-op"
    | _, _, _, _, _ => "bad-op"
  | "rtczt" :: m :: n :: M :: N :: K1 :: L1 :: K2 :: L2 :: rest =>
    match m.toNat?, n.toNat?, M.toNat?, N.toNat?, K1.toNat?, L1.toNat?, K2.toNat?, L2.toNat?, parseAll? parseFloatBits? rest with
    | some m, some n, some M, some N, some K1, some L1, some K2, some L2, some (qy :: qx :: s0 :: s1 :: data) =>
      match parseArr m n data with
      | some f =>
        let F := czt2G cztSignsRef cztStagesRef eFwd nrmF wiringAxis0 wiringAxis1 (cztGlue m M K1) (cztGlue n N L1)
          (m, n) (M, N) (K1, L1) (alphaOf m qy) (alphaOf n qx) (s0, s1) f
        fmtArr m n (rd2 (iczt2G Cx.conj cztSignsRef cztStagesRef eFwd nrmF wiringAxis0 wiringAxis1 (cztGlue M m K2)
          (cztGlue N n L2) (M, N) (m, n) (K2, L2) (alphaOf M 1.0) (alphaOf N 1.0) (s0, s1) F))
      | none => "bad-op"
    | _, _, _, _, _, _, _, _, _ => "bad-op"
  | ["asptf", m, n, wvl, dx, z] =>
    match m.toNat?, n.toNat?, parseFloatBits? wvl, parseFloatBits? dx, parseFloatBits? z with
    | some m, some n, some wvl, some dx, some z => fmtArr m n (aspTf2G aspCoefRef (-1) (-1) 0 1 eFwd (m, n) wvl dx z)
    | _, _, _, _, _ => "bad-op"
  | "asp" :: m :: n :: rest =>
    match m.toNat?, n.toNat?, parseAll? parseFloatBits? rest with
    | some m, some n, some (wvl :: dx :: z :: data) =>
      match parseArr m n data with
      | some f => fmtArr m n (rd2 (aspApplyG aspOpFlagsRef eFwd nrmF (m, n) (aspTf2G aspCoefRef (-1) (-1) 0 1 eFwd (m, n) wvl dx z) f))
      | none => "bad-op"
    | _, _, _ => "bad-op"
  | "asptfb" :: m :: n :: rest =>
    -- the precomputed-`tf=` branch: first the transfer function (2mn floats), then the field (2mn floats)
    match m.toNat?, n.toNat?, parseAll? parseFloatBits? rest with
    | some m, some n, some data =>
      match parseArr m n (data.take (2 * m * n)), parseArr m n (data.drop (2 * m * n)) with
      | some tf, some f => fmtArr m n (rd2 (aspApplyG aspOpFlagsRef eFwd nrmF (m, n) (rd2 tf) f))
      | _, _ => "bad-op"
    | _, _, _ => "bad-op"
  | ["fftfreq", n] =>
    match n.toNat? with
    | some n => fmtList toString ((List.range n).map fun k => fftfreqNum n k)
    | none => "bad-op"
  | _ => "bad-op"

def main : IO Unit := mainLoop step
