import PrysmVerif.Wire
import PrysmVerif.Model.C09
open Wire Model.C10 Model.C10.Rd Model.C09

structure QBlock (K : Type) where
  cosv : K
  sinv : K
  a : List K
  b : List K
  f : List K
  g : List K

def qblock {K : Type} (sc : Sc K) : M (QBlock K) := do
  let c ← num sc; let s ← num sc
  let a ← nums sc; let b ← nums sc; let f ← nums sc; let g ← nums sc
  pure ⟨c, s, a, b, f, g⟩

def fnOf {K : Type} [Num K] (l : List K) : Nat → K := fun i => nth l i
/-- a number sequence as constant polynomials -/
def fnP {K : Type} [Num K] (l : List K) : Nat → Poly K := fun i => Poly.C (nth l i)
def cP {K : Type} [Num K] (l : List K) : List (Poly K) := l.map Poly.C

def flat {α : Type} (l : List (List α)) : List α := l.foldr (· ++ ·) []

def handle {K : Type} [Num K] [BEq K] (sc : Sc K) (op : String) : M String := do
  match op with
  | "jder" =>
    let j ← nat; let al ← num sc; let be ← num sc; let x ← num sc; let s ← nums sc; done
    let rows := jacobiSumClenshawDer s al be x j
    let formal := (List.range (j+1)).map fun jj =>
      formalDer (fun X => jacobiSumExplicit (cP s) (Poly.C al) (Poly.C be) X) jj x
    pure (out sc (flat rows) ++ " | " ++ out sc formal)
  | "qbfsder" =>
    let j ← nat; let x ← num sc; let cs ← nums sc; let f ← nums sc; let g ← nums sc; let h ← nums sc; done
    let rows := clenshawQbfsDer (fnOf f) (fnOf g) (fnOf h) cs x j
    -- d^jj/dx^jj of Σ c_n Q_n(x)   (no u²(1-u²) prefix), Q_n from the value routine's recurrence
    let formal := (List.range (j+1)).map fun jj =>
      formalDer (fun X => wsum (qbfsQ (fnP f) (fnP g) (fnP h) (qbfsFam.p X)) 0 (cP cs)) jj x
    pure (out sc (flat rows) ++ " | " ++ out sc formal)
  | "q2dder" =>
    let j ← nat; let m ← nat; let x ← num sc; let cs ← nums sc; let f ← nums sc; let g ← nums sc; done
    let rows := clenshawQ2dDer (fnOf f) (fnOf g) m cs x j
    let reads := rows.map (q2dRead m)
    let formal := (List.range (j+1)).map fun jj =>
      formalDer (fun X => q2dRadialExplicit (fnP f) (fnP g) m (cP cs) X) jj x
    pure (out sc (flat rows) ++ " | " ++ out sc reads ++ " | " ++ out sc formal)
  | "fam" =>
    let kind ← tok; let n ← nat
    match kind with
    | "he" => let x ← num sc; done
              pure (out sc [heDer n x, famDer heFam n x, heFam.p x n])
    | "h" => let x ← num sc; done
             pure (out sc [hDer n x, famDer hFam n x, hFam.p x n])
    | "lag" => let al ← num sc; let x ← num sc; done
               pure (out sc [lagDer n al x, famDer (lagFam al) n x, (lagFam al).p x n])
    | "jac" => let al ← num sc; let be ← num sc; let x ← num sc; done
               pure (out sc [jacobiDer n al be x,
                             formalDer (fun X => jacobi n (Poly.C al) (Poly.C be) X) 1 x, jacobi n al be x])
    | _ => failure
  | "zern" =>
    let n ← nat; let m ← int; let r ← num sc; let c ← num sc; let s ← num sc; let zn ← num sc; done
    let d := zernikeDer n m r c s zn
    let e := zernikeDerFormal n m r c s zn
    pure (out sc [d.1, d.2, e.1, e.2])
  | "zzqbfs" =>
    let u ← num sc; let cs ← nums sc; let f ← nums sc; let g ← nums sc; let h ← nums sc; done
    let z := zzQbfs (fnOf f) (fnOf g) (fnOf h) cs u
    let sag := fun (U : Poly K) => qbfsSag (fnP f) (fnP g) (fnP h) (cP cs) U
    pure (out sc [z.1, z.2, formalDer sag 0 u, formalDer sag 1 u])
  | "zzqcon" =>
    let u ← num sc; let cs ← nums sc; done
    let z := zzQcon cs u
    let sag := fun (U : Poly K) => qconSag (cP cs) U
    pure (out sc [z.1, z.2, formalDer sag 0 u, formalDer sag 1 u])
  | "zzq2d" =>
    let u ← num sc; let cm0 ← nums sc; let f ← nums sc; let g ← nums sc; let h ← nums sc
    let nb ← nat; let bl ← rep (qblock sc) nb
    let na ← nat; let nbb ← nat; done
    let z0 : K := Num.ofInt 0
    let blk := fun (m : Nat) => bl.getD (m-1) ⟨z0, z0, [], [], [], []⟩
    let fq := fun m => fnOf (blk m).f
    let gq := fun m => fnOf (blk m).g
    let cosm := fun m => (blk m).cosv
    let sinm := fun m => (blk m).sinv
    let ams := (bl.take na).map (·.a)
    let bms := (bl.take nbb).map (·.b)
    let z := zzQ2d (fnOf f) (fnOf g) (fnOf h) fq gq cosm sinm cm0 ams bms u
    -- formal d/du with cos(mt), sin(mt) held fixed
    let sagU := fun (U : Poly K) =>
      q2dSagOfU (fnP f) (fnP g) (fnP h) (fun m => fnP (blk m).f) (fun m => fnP (blk m).g)
        (fun m => Poly.C (cosm m)) (fun m => Poly.C (sinm m)) (cP cm0) (ams.map cP) (bms.map cP) U
    -- d/dt: cos(mt) -> -m sin(mt), sin(mt) -> m cos(mt); the m = 0 part does not depend on t
    let dtF := q2dSagExplicit (fnOf f) (fnOf g) (fnOf h) fq gq
        (fun m => Num.ofInt (-(m : Int)) * sinm m) (fun m => Num.ofInt m * cosm m) [] ams bms u
    pure (out sc [z.1, z.2.1, z.2.2, formalDer sagU 0 u, formalDer sagU 1 u, dtF])
  | "surf" =>
    let kind ← tok
    match kind with
    | "conic" =>   -- c kappa rho phi
      let c ← num sc; let _k ← num sc; let rho ← num sc; let phi ← num sc; done
      pure (out sc [conicSag c (rho * rho) phi, conicSagDer c rho phi])
    | "dircos" =>
      let c ← num sc; let k ← num sc; let rho ← num sc; let phi ← num sc; done
      pure (out sc [dirCosDer c k rho phi])
    | "oac" =>     -- c kappa r s ct ctp phi psi
      let c ← num sc; let k ← num sc; let r ← num sc; let s ← num sc; let ct ← num sc; let ctp ← num sc
      let phi ← num sc; let psi ← num sc; done
      let d := oacDer c k r s ct ctp phi
      let e := oacSigmaInvDer c k r s ct ctp phi psi
      pure (out sc [oacAgg r s ct, conicSag c (oacAgg r s ct) phi, d.1, d.2, oacSigma phi psi, e.1, e.2])
    | "asm" =>
      let a ← rep (num sc) 10; done
      let g := fun i => nth a i
      let z := q2dAndDer (g 0) (g 1) (g 2) (g 3) (g 4) (g 5) (g 6) (g 7) (g 8) (g 9)
      pure (out sc [z.1, z.2.1, z.2.2])
    | _ => failure
  | _ => failure

def step (t : List String) : String :=
  match t with
  | "f" :: op :: rest => (run (handle scFloat op) rest).getD "bad-op"
  | "q" :: op :: rest => (run (handle scRat op) rest).getD "bad-op"
  | _ => "bad-op"

def main : IO Unit := mainLoop step
