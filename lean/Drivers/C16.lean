import PrysmVerif.Wire
import PrysmVerif.Model.C16
open Wire Model.C16

/-! line protocol over the C16 model: exposure on IEEE doubles (same operations in the same order as
the implementation, so DN are compared exactly), binning / tiling / Bayer on exact rationals -/

def flrF (x : Float) : Int := Int.ofNat x.floor.toUInt64.toNat

def parseFloats (l : List String) : Option (Array Float) := (l.mapM parseFloatBits?).map List.toArray
def parseRats (l : List String) : Option (Array Rat) := (l.mapM parseRat?).map List.toArray
def parseNats (l : List String) : Option (List Nat) := l.mapM String.toNat?

def parseCfa : String → Option Cfa
  | "rggb" => some .rggb
  | "bggr" => some .bggr
  | _ => none

def fmtRats (a : Array Rat) : String := fmtList fmtRat a.toList

def fn2 (n : Nat) (d : Array Rat) (off : Nat) : Nat → Nat → Rat := fun j i => d[off + j * n + i]!

def tab2 (m n : Nat) (f : Nat → Nat → Rat) : Array Rat :=
  Array.ofFn (n := m * n) fun t => f (t.val / n) (t.val % n)

def planeIdx : Plane → Nat
  | .r => 0 | .g1 => 1 | .g2 => 2 | .b => 3

def gainOf (w : Array Rat) : Gain → Rat
  | .wr => w[0]! | .wg1 => w[1]! | .wg2 => w[2]! | .wb => w[3]!

def gain3Of (w : Array Rat) : Gain3 → Rat
  | .wr => w[0]! | .wg => w[1]! | .wb => w[2]!

def chanIdx : Chan → Nat
  | .red => 0 | .green => 1 | .blue => 2

/-- pairs `(max, saturation)` from a flat array -/
def pairsOf (v : Array Rat) : List (Rat × Rat) :=
  (List.range (v.size / 2)).map fun k => (v[2 * k]!, v[2 * k + 1]!)

def step (t : List String) : String :=
  match t with
  | "deinterlace" :: cs :: ms :: ns :: rest =>
      match parseCfa cs, ms.toNat?, ns.toNat?, parseRats rest with
      | some cfa, some m, some n, some v =>
          if v.size != m * n then "bad-op" else
          let img := fn2 n v 0
          fmtList (fun ch => fmtRats (tab2 (m / 2) (n / 2) (deinterlace siteSlices (decompSite cfa) deinterlaceGreen img ch)))
            [Chan.red, Chan.green, Chan.blue]
      | _, _, _, _ => "bad-op"
  | "postscale" :: ms :: ns :: rest =>
      -- postscale m n wr wg wb <red plane> <green plane> <blue plane>
      match ms.toNat?, ns.toNat?, parseRats rest with
      | some m, some n, some v =>
          if v.size != 3 + 3 * m * n then "bad-op" else
          let rgb : Chan → Nat → Nat → Rat := fun ch => fn2 n v (3 + chanIdx ch * m * n)
          fmtList (fun ch => fmtRats (tab2 m n (postscale postscaleGain (gain3Of v) rgb ch))) [Chan.red, Chan.green, Chan.blue]
      | _, _, _ => "bad-op"
  | "exposeshape" :: fs :: rest =>
      match fs.toNat?, parseNats rest with
      | some fr, some shape => fmtList toString (exposeOutShape fr shape)
      | _, _ => "bad-op"
  | "binview" :: ds :: rest =>
      -- binview d s1..sd f1..fd : shapes of the bindown view and of the tile broadcast
      match ds.toNat?, parseNats rest with
      | some d, some v =>
          if v.length != 2 * d then "bad-op" else
          let sh := (v.take d).map Int.ofNat
          let f := (v.drop d).map Int.ofNat
          fmtList toString (binViewShape sh f ++ tileViewShape sh f)
      | _, _ => "bad-op"
  | "saferatio" :: rest =>
      -- saferatio max1 sat1 max2 sat2 ... : the descaling ratio of the safe white balance after all planes
      match parseRats rest with
      | some v => if v.size % 2 != 0 then "bad-op" else fmtRat (safeRatio safeStep (pairsOf v) 1)
      | none => "bad-op"
  | "expose" :: bs :: ns :: rest =>
      -- expose bits n t dc bias fwc gain img[n] dcnu[n] prnu[n]
      match bs.toInt?, ns.toNat?, parseFloats rest with
      | some bits, some n, some d =>
          if d.size != 5 + 3 * n then "bad-op" else
          let (tt, dc, bias, fwc, gain) := (d[0]!, d[1]!, d[2]!, d[3]!, d[4]!)
          fmtList toString ((List.range n).map fun i =>
            expose flrF d[5 + i]! tt dc d[5 + n + i]! d[5 + 2 * n + i]! bias fwc gain bits)
      | _, _, _ => "bad-op"
  | ["castbits", bs] =>
      match bs.toInt? with
      | some bits => s!"{castBits bits} {adcCap bits}"
      | none => "bad-op"
  | "bin" :: mode :: ds :: rest =>
      match ds.toNat? with
      | some d =>
          match parseNats (rest.take (2 * d)), parseRats (rest.drop (2 * d)) with
          | some sf, some v =>
              let shape := sf.take d
              let f := sf.drop d
              if v.size != prodL shape then "bad-op" else fmtRats (binND shape f v (mode == "avg"))
          | _, _ => "bad-op"
      | none => "bad-op"
  | "tile" :: mode :: ds :: rest =>
      match ds.toNat? with
      | some d =>
          match parseNats (rest.take (2 * d)), parseRats (rest.drop (2 * d)) with
          | some sf, some v =>
              let oshape := sf.take d
              let f := sf.drop d
              if v.size != prodL oshape then "bad-op" else fmtRats (tileND oshape f v (mode == "sum"))
          | _, _ => "bad-op"
      | none => "bad-op"
  | "decomp" :: cs :: ms :: ns :: rest =>
      match parseCfa cs, ms.toNat?, ns.toNat?, parseRats rest with
      | some cfa, some m, some n, some v =>
          if v.size != m * n then "bad-op" else
          let img := fn2 n v 0
          fmtList (fun p => fmtRats (tab2 (m / 2) (n / 2) (decomposite siteSlices (decompSite cfa) img p))) Plane.all
      | _, _, _, _ => "bad-op"
  | "recomp" :: cs :: ms :: ns :: rest =>
      -- planes of shape (m, n) each; mosaic of shape (2m, 2n)
      match parseCfa cs, ms.toNat?, ns.toNat?, parseRats rest with
      | some cfa, some m, some n, some v =>
          if v.size != 4 * m * n then "bad-op" else
          let planes : Plane → Nat → Nat → Rat := fun p => fn2 n v (planeIdx p * m * n)
          fmtRats (tab2 (2 * m) (2 * n) fun R C => (recomposite siteSlices (recompPlane cfa) planes R C).getD 0)
      | _, _, _, _ => "bad-op"
  | "composite" :: cs :: ms :: ns :: rest =>
      match parseCfa cs, ms.toNat?, ns.toNat?, parseRats rest with
      | some cfa, some m, some n, some v =>
          if v.size != 4 * m * n then "bad-op" else
          let planes : Plane → Nat → Nat → Rat := fun p => fn2 n v (planeIdx p * m * n)
          fmtRats (tab2 m n fun R C => (composite siteSlices (recompPlane cfa) planes R C).getD 0)
      | _, _, _, _ => "bad-op"
  | "prescale" :: cs :: ms :: ns :: rest =>
      match parseCfa cs, ms.toNat?, ns.toNat?, parseRats rest with
      | some cfa, some m, some n, some v =>
          if v.size != 4 + m * n then "bad-op" else
          let img := fn2 n v 4
          fmtRats (tab2 m n fun R C =>
            match siteAt siteSlices R C with
            | some s => img R C * gainOf v (prescaleGain cfa s)
            | none => 0)
      | _, _, _, _ => "bad-op"
  | "malvar" :: cs :: ms :: ns :: rest =>
      match parseCfa cs, ms.toNat?, ns.toNat?, parseRats rest with
      | some cfa, some m, some n, some v =>
          if v.size != m * n then "bad-op" else
          let img := fn2 n v 0
          fmtList (fun ch => fmtRats (tab2 m n (malvar siteSlices (malvarSrc cfa) m n img ch))) [Chan.red, Chan.green, Chan.blue]
      | _, _, _, _ => "bad-op"
  | _ => "bad-op"

def main : IO Unit := mainLoop step
