import PrysmVerif.Wire
import PrysmVerif.Model.C19
open Wire Model.C19

/-! line protocol driver for C19 (Float instantiation of the model)

  reflect  S(3) r(3)                      -> S'(3)
  refract  n n' S(3) r(3)                 -> S'(3)
  rot      z y x   (radians)              -> 9 floats (row-major), the model of make_rotation_matrix
  sag      <shape> x y                    -> z Fx Fy
  cyl      fp ft r t                      -> x y   (polar route with the on-axis point handled)
  offpolar c k r t s which(0: shift in x, 1: shift in y) -> sag d/dr d/dt of the shifted parent conic in polar form
  local    P(3) <rot> X(3) S(3)           -> Xl(3) Sl(3)
  global   P(3) <rot> X(3) S(3)           -> Xg(3) Sg(3)
  trace    k <surface>*k P(3) S(3) n0     -> per surface: Pg(3) Sg(3) Ploc(3) Sloc(3) r(3) Sout(3) | fail

  <shape>   := plane | conic c k | offaxis c k dx dy
  <rot>     := R0 | R1 m00 .. m22
  <surface> := (refl|refr|eval) P(3) <rot> <shape> n
-/

abbrev P (α : Type) := List String → Option (α × List String)

def pf : P Float
  | t :: ts => (parseFloatBits? t).map fun x => (x, ts)
  | [] => none

def pv : P (V3 Float) := fun ts => do
  let (x, ts) ← pf ts
  let (y, ts) ← pf ts
  let (z, ts) ← pf ts
  pure (⟨x, y, z⟩, ts)

def prot : P (Option (M3 Float))
  | "R0" :: ts => some (none, ts)
  | "R1" :: ts => do
      let (a, ts) ← pv ts
      let (b, ts) ← pv ts
      let (c, ts) ← pv ts
      pure (some ⟨a, b, c⟩, ts)
  | _ => none

def pshape : P (Shape Float)
  | "plane" :: ts => some (.plane, ts)
  | "conic" :: ts => do
      let (c, ts) ← pf ts
      let (k, ts) ← pf ts
      pure (.conic c k, ts)
  | "offaxis" :: ts => do
      let (c, ts) ← pf ts
      let (k, ts) ← pf ts
      let (dx, ts) ← pf ts
      let (dy, ts) ← pf ts
      pure (.offAxis c k dx dy, ts)
  | _ => none

def pkind : P Kind
  | "refl" :: ts => some (.reflect, ts)
  | "refr" :: ts => some (.refract, ts)
  | "eval" :: ts => some (.eval, ts)
  | _ => none

def psurf : P (Surface Float) := fun ts => do
  let (k, ts) ← pkind ts
  let (p, ts) ← pv ts
  let (r, ts) ← prot ts
  let (sh, ts) ← pshape ts
  let (n, ts) ← pf ts
  pure (⟨k, p, r, sh, n⟩, ts)

def pmany {α} (p : P α) : Nat → P (List α)
  | 0, ts => some ([], ts)
  | k + 1, ts => do
      let (a, ts) ← p ts
      let (as, ts) ← pmany p k ts
      pure (a :: as, ts)

def fv (v : V3 Float) : String := s!"{fmtFloat v.x} {fmtFloat v.y} {fmtFloat v.z}"

def flt (a b : Float) : Bool := a < b

/-- `np.finfo(float64).eps * 100` -/
def epsDefault : Float := 2.220446049250313e-16 * 100

def step (t : List String) : String :=
  let r : Option String := match t with
    | "reflect" :: ts => do
        let (S, ts) ← pv ts
        let (r, _) ← pv ts
        pure (fv (reflect S r))
    | "refract" :: ts => do
        let (n, ts) ← pf ts
        let (n', ts) ← pf ts
        let (S, ts) ← pv ts
        let (r, _) ← pv ts
        pure (fv (refract Float.sqrt flt n n' S r))
    | "rot" :: ts => do
        let (z, ts) ← pf ts
        let (y, ts) ← pf ts
        let (x, _) ← pf ts
        let m := rotation (Float.cos x) (Float.sin x) (Float.cos y) (Float.sin y) (Float.cos z) (Float.sin z)
        pure s!"{fv m.r0} {fv m.r1} {fv m.r2}"
    | "sag" :: ts => do
        let (sh, ts) ← pshape ts
        let (x, ts) ← pf ts
        let (y, _) ← pf ts
        let (z, fx, fy) := sagGrad Float.sqrt sh x y
        pure s!"{fmtFloat z} {fmtFloat fx} {fmtFloat fy}"
    | "cyl" :: ts => do
        let (fp, ts) ← pf ts
        let (ft, ts) ← pf ts
        let (r, ts) ← pf ts
        let (t, _) ← pf ts
        let (x, y) := cylNormalTotal (fun r => r == 0) fp ft r (Float.cos t) (Float.sin t)
        pure s!"{fmtFloat x} {fmtFloat y}"
    | "hit" :: ts => do
        let (c, ts) ← pf ts
        let (k, ts) ← pf ts
        let (P, ts) ← pv ts
        let (S, _) ← pv ts
        pure s!"{fmtFloat (conicHitS Float.sqrt c k P S)} {fv (conicHit Float.sqrt c k P S)}"
    | "offpolar" :: ts => do
        let (c, ts) ← pf ts
        let (k, ts) ← pf ts
        let (r, ts) ← pf ts
        let (t, ts) ← pf ts
        let (s, ts) ← pf ts
        let ct := Float.cos t
        let st := Float.sin t
        let sh : Shape Float := if ts == ["0"] then .offAxis c k s 0 else .offAxis c k 0 s
        let (z, fx, fy) := sagGrad Float.sqrt sh (r * ct) (r * st)
        pure s!"{fmtFloat z} {fmtFloat (fx * ct + fy * st)} {fmtFloat (r * (fy * ct - fx * st))}"
    | "local" :: ts => do
        let (p, ts) ← pv ts
        let (r, ts) ← prot ts
        let (x, ts) ← pv ts
        let (s, _) ← pv ts
        pure s!"{fv (toLocalP p r x)} {fv (toLocalS r s)}"
    | "global" :: ts => do
        let (p, ts) ← pv ts
        let (r, ts) ← prot ts
        let (x, ts) ← pv ts
        let (s, _) ← pv ts
        pure s!"{fv (toGlobalP p r x)} {fv (toGlobalS r s)}"
    | "trace" :: k :: ts => do
        let k ← k.toNat?
        let (sfs, ts) ← pmany psurf k ts
        let (p, ts) ← pv ts
        let (s, ts) ← pv ts
        let (n0, _) ← pf ts
        match trace Float.sqrt flt epsDefault 100 sfs p s n0 with
        | none => pure "fail"
        | some hs => pure (" ".intercalate (hs.map fun h =>
            s!"{fv h.Pg} {fv h.Sg} {fv h.Ploc} {fv h.Sloc} {fv h.r} {fv h.Sout}"))
    | _ => none
  r.getD "bad-op"

def main : IO Unit := mainLoop step
