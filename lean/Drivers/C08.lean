import PrysmVerif.Wire
import PrysmVerif.Model.C08
open Wire Model.C07 Model.C08

/-!
line protocol (groups separated by `|`):

    s  <family> | <scalar params…> | <orders…> | <x>      Float sweep  -> rows, or `none`
    qs <family> | <scalar params…> | <orders…> | <x>      Rat sweep
    t  | <x> | j1 k1 j2 k2 …                              Float table look-up over jacobiRec 0 k x  -> values or `none`
    bc | <shape a…> | <shape b…>                          broadcast shape or `none`
    src | <shape…> | <idx…>                               source multi-index under broadcasting
    good N rank                                           goodCsShape

families: jacobi ; α β   he   h   lag ; α   d1 ; a   d2 ; a   jacder ; α β   heder   hder   (Float only:) qbfs
-/

def splitBar (t : List String) : List (List String) :=
  let rec go (cur : List String) (out : List (List String)) : List String → List (List String)
    | [] => (out ++ [cur])
    | "|" :: r => go [] (out ++ [cur]) r
    | s :: r => go (cur ++ [s]) out r
  go [] [] t

def sweepAlg {K : Type} [Num K] (fam : String) (kp : List K) (ns : List Nat) (x : K) : Option (Option (List K)) :=
  match fam, kp with
  | "jacobi", [a, b] => some (sweep (jacobiRec a b x) ns)
  | "he", [] => some (sweep (heRec x) ns)
  | "h", [] => some (sweep (hRec x) ns)
  | "lag", [a] => some (sweep (lagRec a x) ns)
  | "d1", [a] => some (sweep (dickRec (nat 2) a x) ns)
  | "d2", [a] => some (sweep (dickRec (nat 1) a x) ns)
  | "jacder", [a, b] => some (sweep (jacobiDerRec a b x) ns)
  | "heder", [] => some (sweep (heDerRec x) ns)
  | "hder", [] => some (sweep (hDerRec x) ns)
  | _, _ => none

def sweepFloat (fam : String) (kp : List Float) (ns : List Nat) (x : Float) : Option (Option (List Float)) :=
  match fam, kp with
  | "qbfs", [] => some (sweep (qbfsRec Float.sqrt x) ns)
  | _, _ => sweepAlg fam kp ns x

def pairsOf : List Nat → Option (List (Nat × Nat))
  | [] => some []
  | a :: b :: r => (pairsOf r).map ((a, b) :: ·)
  | _ => none

def fmtShape (o : Option (List Nat)) : String :=
  match o with
  | none => "none"
  | some l => "shape " ++ fmtList toString l

def step (t : List String) : String :=
  match t with
  | "s" :: fam :: rest =>
    match splitBar rest with
    | [_, ks, ns, [x]] =>
      match parseAll? parseFloatBits? ks, parseAll? parseNat? ns, parseFloatBits? x with
      | some kp, some ns, some x =>
        match sweepFloat fam kp ns x with
        | some (some vs) => "rows " ++ fmtList fmtFloat vs
        | some none => "none"
        | none => "bad-op"
      | _, _, _ => "bad-op"
    | _ => "bad-op"
  | "qs" :: fam :: rest =>
    match splitBar rest with
    | [_, ks, ns, [x]] =>
      match parseAll? parseRat? ks, parseAll? parseNat? ns, parseRat? x with
      | some kp, some ns, some x =>
        match sweepAlg (K := Rat) fam kp ns x with
        | some (some vs) => "rows " ++ fmtList fmtRat vs
        | some none => "none"
        | none => "bad-op"
      | _, _, _ => "bad-op"
    | _ => "bad-op"
  | "t" :: rest =>
    match splitBar rest with
    | [_, [x], ps] =>
      match parseFloatBits? x, (parseAll? parseNat? ps).bind pairsOf with
      | some x, some pairs =>
        match tableSeq (fun am => jacobiRec (nat 0) (nat am) x) pairs with
        | some vs => "rows " ++ fmtList fmtFloat vs
        | none => "none"
      | _, _ => "bad-op"
    | _ => "bad-op"
  | "bc" :: rest =>
    match splitBar rest with
    | [_, a, b] =>
      match parseAll? parseNat? a, parseAll? parseNat? b with
      | some a, some b => fmtShape (bcShape a b)
      | _, _ => "bad-op"
    | _ => "bad-op"
  | "src" :: rest =>
    match splitBar rest with
    | [_, a, b] =>
      match parseAll? parseNat? a, parseAll? parseNat? b with
      | some sh, some idx => "idx " ++ fmtList toString (bcSrc sh idx)
      | _, _ => "bad-op"
    | _ => "bad-op"
  | ["good", n, r] =>
    match n.toNat?, r.toNat? with
    | some n, some r => fmtShape (some (goodCsShape n r))
    | _, _ => "bad-op"
  | _ => "bad-op"

def main : IO Unit := mainLoop step
