import PrysmVerif.Wire
import PrysmVerif.Model.C15
open Wire Model.C15

/-! line protocol over the C15 model, scalars = IEEE doubles -/

def twoPi : Float := 6.283185307179586476925286766559
def piF : Float := 3.14159265358979323846264338327950288

/-- forward twiddle `exp(-2πi t/n)` -/
def tw (n t : Nat) : Cx Float :=
  let a := twoPi * (Float.ofNat t) / (Float.ofNat n)
  ⟨Float.cos a, -(Float.sin a)⟩

def absC (z : Cx Float) : Float := Float.sqrt (z.re * z.re + z.im * z.im)
def argC (z : Cx Float) : Float := Float.atan2 z.im z.re

def ops : FOps (Img (Cx Float)) (Nat × Nat) :=
  imgOps tw (fun k => 1.0 / Float.ofNat k) absC argC

def sincF (x : Float) : Float := if x == 0.0 then 1.0 else Float.sin (piF * x) / (piF * x)

/-- `jinc(x) = J1(x)/x` by its power series `Σ (-1)^k (x/2)^(2k) / (2 · k! (k+1)!)` (60 terms: exact to rounding for |x| ≤ 8,
the harness keeps pinhole radii that small), 0.5 at 0 -/
def jincF (x : Float) : Float := Id.run do
  let q := (x / 2.0) * (x / 2.0)
  let mut term : Float := 0.5
  let mut s : Float := 0.5
  for k in [1:60] do
    term := -(term * q) / (Float.ofNat k * Float.ofNat (k + 1))
    s := s + term
  return s

def parseFloats (l : List String) : Option (Array Float) := (l.mapM parseFloatBits?).map List.toArray

def realImg (m n : Nat) (d : Array Float) (off : Nat) : Img (Cx Float) :=
  Img.tab m n fun j i => Cx.ofReal d[off + j * n + i]!

def cplxImg (m n : Nat) (d : Array Float) (off : Nat) : Img (Cx Float) :=
  Img.tab m n fun j i => ⟨d[off + 2 * (j * n + i)]!, d[off + 2 * (j * n + i) + 1]!⟩

def fmtRe (a : Img (Cx Float)) : String := fmtList fmtFloat (a.d.toList.map (·.re))
def fmtC (a : Img (Cx Float)) : String := fmtList (fun z : Cx Float => fmtFloat z.re ++ " " ++ fmtFloat z.im) a.d.toList

def fn2 (a : Img (Cx Float)) : Nat → Nat → Cx Float := fun j i => a.get j i

def onesImg (m n : Nat) : Img (Cx Float) := Img.tab m n fun _ _ => Cx.ofReal 1.0

/-- frequency grid value `forward_ft_unit(dx, n, shift)[i]` -/
def freq (n : Nat) (shift : Bool) (dx : Float) (i : Nat) : Float :=
  Float.ofInt (ftUnitNum n shift i) / (Float.ofNat n * dx)

/-- one analytic transfer function on the grid of the chosen convention -/
def tfGrid (m n : Nat) (shift : Bool) (dx : Float) (kind : String) (p1 p2 : Float) : Option (Img (Cx Float)) :=
  let mk (f : Float → Float → Float) : Img (Cx Float) :=
    Img.tab m n fun j i => Cx.ofReal (f (freq n shift dx i) (freq m shift dx j))
  match kind with
  | "jitter" => some (mk fun fx fy => jitterFt Float.exp piF (Float.sqrt (fx * fx + fy * fy)) p1)
  | "smear" => some (mk fun fx fy => smearFt sincF fx fy p1 p2 (p1 != 0.0) (p2 != 0.0))
  | "pixel" => some (mk fun fx fy => pixelFt sincF fx fy p1 p2)
  | "olpf" => some (mk fun fx fy => olpfFt Float.cos fx fy p1 p2)
  | "slit" => some (mk fun fx fy => slitFt sincF fx fy p1 p2 (p1 != 0.0) (p2 != 0.0))
  | "pinhole" => some (mk fun fx fy => pinholeFt jincF piF (Float.sqrt (fx * fx + fy * fy)) p1)
  | "fx" => some (mk fun fx _ => 1.0 / (1.0 + p1 * fx * fx + p2 * fx))
  | "fy" => some (mk fun _ fy => 1.0 / (1.0 + p1 * fy * fy + p2 * fy))
  | "ft" => some (mk fun fx fy => 1.0 + p1 * Float.cos (Float.atan2 fy fx) + p2 * Float.sin (Float.atan2 fy fx))
  | "phase" => some (Img.tab m n fun j i =>
      let t := twoPi * (p1 * freq n shift dx i + p2 * freq m shift dx j)
      (⟨Float.cos t, -(Float.sin t)⟩ : Cx Float))
  | "const" => some (mk fun _ _ => p1)
  | "noarg" => some (mk fun _ _ => p1)
  | _ => none

def parseCalls : Nat → List String → Option (List (String × Float × Float) × List String)
  | 0, rest => some ([], rest)
  | k+1, kind :: a :: b :: rest => do
      let x ← parseFloatBits? a
      let y ← parseFloatBits? b
      let (cs, r) ← parseCalls k rest
      some ((kind, x, y) :: cs, r)
  | _, _ => none

def step (t : List String) : String :=
  match t with
  | "longexp" :: rest =>
      -- longexp Cn z f lambdabar h nu1 nu2 ... : longexposure_otf at each frequency
      match parseFloats rest with
      | some d =>
          if d.size < 5 then "bad-op" else
          fmtList fmtFloat ((d.toList.drop 5).map fun nu => longExposureOtf Float.exp Float.pow piF nu d[0]! d[1]! d[2]! d[3]! d[4]!)
      | none => "bad-op"
  | "komogorov" :: rest =>
      match parseFloats rest with
      | some d => if d.size < 1 then "bad-op" else fmtList fmtFloat ((d.toList.drop 1).map fun r => komogorov Float.pow r d[0]!)
      | none => "bad-op"
  | "estcn" :: rest =>
      match parseFloats rest with
      | some d => if d.size != 3 then "bad-op" else fmtFloat (estimateCn d[0]! d[1]! d[2]!)
      | none => "bad-op"
  | "difflim" :: rest =>
      -- difflim fno wavelength f1 f2 ... : diffraction_limited_mtf at each frequency
      match parseFloats rest with
      | some d =>
          if d.size < 2 then "bad-op" else
          fmtList fmtFloat ((d.toList.drop 2).map fun f => difflimMtf Float.acos Float.sqrt Float.abs piF f d[1]! d[0]!)
      | none => "bad-op"
  | "conv" :: ms :: ns :: rest =>
      match ms.toNat?, ns.toNat?, parseFloats rest with
      | some m, some n, some d =>
          if d.size != 2 * m * n then "bad-op" else
          let o := realImg m n d 0
          let h := realImg m n d (m * n)
          let direct : Img (Cx Float) := Img.tab m n fun p q => conv2 m n (fn2 o) (fn2 h) p q
          let route := conv ops o h
          fmtRe direct ++ " " ++ fmtRe route
      | _, _, _ => "bad-op"
  | "tf" :: sh :: ms :: ns :: ks :: rest =>
      match sh.toNat?, ms.toNat?, ns.toNat?, ks.toNat?, parseFloats rest with
      | some sh, some m, some n, some k, some d =>
          if d.size != m * n + 2 * k * m * n then "bad-op" else
          let shift := sh != 0
          let o := realImg m n d 0
          let tfs := (List.range k).map fun r => cplxImg m n d (m * n + 2 * r * m * n)
          let route := applyTF ops shift o tfs
          -- direct: circular convolution of the object with the inverse transform of the product
          let prod := tfs.foldl ops.mul (onesImg m n)
          let T0 := if shift then ops.ifftshift prod else prod
          let g := ops.ifft2 T0
          let direct : Img (Cx Float) := Img.tab m n fun p q => cconv2 m n (fn2 o) (fn2 g) p q
          fmtRe route ++ " " ++ fmtRe direct
      | _, _, _, _, _ => "bad-op"
  | "tfcall" :: sh :: ms :: ns :: dxs :: ks :: rest =>
      match sh.toNat?, ms.toNat?, ns.toNat?, parseFloatBits? dxs, ks.toNat? with
      | some sh, some m, some n, some dx, some k =>
          match parseCalls k rest with
          | some (calls, rest') =>
              match parseFloats rest', calls.mapM (fun c => tfGrid m n (sh != 0) dx c.1 c.2.1 c.2.2) with
              | some d, some tfs =>
                  if d.size != m * n then "bad-op" else
                  fmtRe (applyTF ops (sh != 0) (realImg m n d 0) tfs)
              | _, _ => "bad-op"
          | none => "bad-op"
      | _, _, _, _, _ => "bad-op"
  | "mtf" :: ms :: ns :: rest =>
      match ms.toNat?, ns.toNat?, parseFloats rest with
      | some m, some n, some d =>
          if d.size != m * n then "bad-op" else
          let p := realImg m n d 0
          let c : Nat × Nat := ((mtfCentre m).toNat, (mtfCentre n).toNat)
          let tot : Cx Float := total m n (fn2 p)
          -- direct formula: Σ psf[j,i] ζm^((j-cm)(k-cm)) ζn^((i-cn)(l-cn)) / Σ psf
          let direct : Img (Cx Float) := Img.tab m n fun k l =>
            (Num.sumTo m fun j => Num.sumTo n fun i =>
              p.get j i * (tw m ((subMod m j c.1 * subMod m k c.1) % m) * tw n ((subMod n i c.2 * subMod n l c.2) % n))) / tot
          fmtRe (mtf ops p c) ++ " " ++ fmtRe (ptf ops p c) ++ " " ++ fmtC (otf ops p c) ++ " " ++ fmtC direct
      | _, _, _ => "bad-op"
  | ["idx", ns] =>
      match ns.toNat? with
      | some n =>
          let r := List.range n
          s!"{origin n} | {fmtList toString (r.map (ifftshiftSrc n))} | {fmtList toString (r.map (fftshiftSrc n))} | " ++
          s!"{fmtList toString (r.map (ftUnitNum n true))} | {fmtList toString (r.map (ftUnitNum n false))}"
      | none => "bad-op"
  | _ => "bad-op"

def main : IO Unit := mainLoop step
