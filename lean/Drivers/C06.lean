import PrysmVerif.Wire
import PrysmVerif.Model.C06
open Wire Model.C06

/-! line-protocol driver over the C06 model, evaluated in `Float` (see harness/c06.py for the requests) -/

def twoPi : Float := 6.283185307179586

def cxOfList (l : Array Float) (off : Nat) (n : Nat) : Mat (Cx Float) :=
  fun i j => ⟨l.getD (off + 2 * (i * n + j)) 0.0, l.getD (off + 2 * (i * n + j) + 1) 0.0⟩

def reOfList (l : Array Float) (off : Nat) : Vec Float := fun i => l.getD (off + i) 0.0

def fmtCx (m n : Nat) (a : Mat (Cx Float)) : String :=
  " ".intercalate ((List.range (m * n)).map fun t =>
    let v := a (t / n) (t % n)
    fmtFloat v.re ++ " " ++ fmtFloat v.im)

def fmtRe (n : Nat) (a : Vec Float) : String :=
  " ".intercalate ((List.range n).map fun t => fmtFloat (a t))

def nats? (l : List String) : Option (List Nat) := l.mapM String.toNat?
def floats? (l : List String) : Option (Array Float) := (l.mapM parseFloatBits?).map List.toArray

def actEval (kind : String) (a x0 y0 x : Float) : Option (Float × Float) :=
  match kind with
  | "tanh" => some (tanhFwd Float.exp a x0 y0 x, tanhBack Float.exp a x0 y0 x)
  | "arctan" => some (arctanFwd Float.atan a x0 y0 x, arctanBack a x0 x)
  | "softplus" => some (softplusFwd Float.exp Float.log a x0 y0 x, softplusBack Float.exp a x0 x)
  | "sigmoid" => some (sigmoidFwd Float.exp a x0 y0 x, sigmoidBack Float.exp a x0 y0 x)
  | _ => none

def step (t : List String) : String :=
  match t with
  | "mdftbp" :: sg :: a :: b :: c :: d :: rest =>
    match sg.toInt?, nats? [a, b, c, d], floats? rest with
    | some sg, some [m, n, M, N], some f =>
      if f.size ≠ 4 + 2 * M * N then "bad-op" else
      let y := cxOfList f 4 N
      fmtCx m n (mdftBackT Float.cos Float.sin Float.sqrt twoPi (Float.ofInt sg) m n M N f[0]! f[1]! f[2]! f[3]! y).fn
    | _, _, _ => "bad-op"
  | "fixedbp" :: sg :: a :: b :: c :: d :: rest =>
    match sg.toInt?, nats? [a, b, c, d], floats? rest with
    | some sg, some [m, n, M, N], some f =>
      if f.size ≠ 6 + 2 * M * N then "bad-op" else
      let y := cxOfList f 6 N
      fmtCx m n (fixedBackT Float.cos Float.sin Float.sqrt twoPi (Float.ofInt sg) m n M N
        f[0]! f[1]! f[2]! f[3]! f[4]! f[5]! y).fn
    | _, _, _ => "bad-op"
  | "fpmbp" :: a :: b :: c :: d :: rest =>
    match nats? [a, b, c, d], floats? rest with
    | some [p0, p1, M0, M1], some f =>
      if f.size ≠ 6 + 2 * M0 * M1 + 2 * p0 * p1 then "bad-op" else
      let mask := cxOfList f 6 M1
      let y := cxOfList f (6 + 2 * M0 * M1) p1
      fmtCx p0 p1 (fpmBackFullT Float.cos Float.sin Float.sqrt twoPi p0 p1 M0 M1 f[0]! f[1]! f[2]! f[3]! f[4]! f[5]! mask y).fn
    | _, _ => "bad-op"
  | "babbp" :: a :: b :: c :: d :: rest =>
    match nats? [a, b, c, d], floats? rest with
    | some [p0, p1, M0, M1], some f =>
      if f.size ≠ 4 + 2 * M0 * M1 + 4 * p0 * p1 then "bad-op" else
      let fpm := cxOfList f 4 M1
      let lyot := cxOfList f (4 + 2 * M0 * M1) p1
      let y := cxOfList f (4 + 2 * M0 * M1 + 2 * p0 * p1) p1
      fmtCx p0 p1 (babinetBackFullT Float.cos Float.sin Float.sqrt twoPi p0 p1 M0 M1 f[0]! f[1]! f[2]! f[3]! fpm lyot y).fn
    | _, _ => "bad-op"
  | "intbp" :: a :: rest =>
    match a.toNat?, floats? rest with
    | some n, some f =>
      if f.size ≠ 3 * n then "bad-op" else
      let E := cxOfList f n n
      fmtCx 1 n (fun _ j => intensityBack (f.getD j 0.0) (E 0 j))
    | _, _ => "bad-op"
  | "phasebp" :: a :: rest =>
    match a.toNat?, floats? rest with
    | some n, some f =>
      if f.size ≠ 1 + 4 * n then "bad-op" else
      let gb := cxOfList f 1 n
      let g := cxOfList f (1 + 2 * n) n
      fmtRe n (fun j => phaseBack f[0]! (gb 0 j) (g 0 j))
    | _, _ => "bad-op"
  | "modesbp" :: a :: b :: c :: rest =>
    match nats? [a, b, c], floats? rest with
    | some [k, m, n], some f =>
      if f.size ≠ k * m * n + m * n then "bad-op" else
      let modes : Nat → Mat Float := fun l i j => f.getD (l * m * n + i * n + j) 0.0
      let d : Mat Float := fun i j => f.getD (k * m * n + i * n + j) 0.0
      fmtRe k (modalBack m n modes d)
    | _, _ => "bad-op"
  | "softmaxbp" :: a :: rest =>
    match a.toNat?, floats? rest with
    | some n, some f =>
      if f.size ≠ 2 * n then "bad-op" else fmtRe n (softmaxBack n (reOfList f 0) (reOfList f n))
    | _, _ => "bad-op"
  | "softmaxfwd" :: a :: rest =>
    match a.toNat?, floats? rest with
    | some n, some f =>
      if f.size ≠ n then "bad-op" else fmtRe n (softmaxFwd Float.exp n (reOfList f 0))
    | _, _ => "bad-op"
  | "gumbelbp" :: a :: rest =>
    match a.toNat?, floats? rest with
    | some n, some f =>
      if f.size ≠ 1 + 2 * n then "bad-op" else fmtRe n (gumbelBack f[0]! n (reOfList f 1) (reOfList f (1 + n)))
    | _, _ => "bad-op"
  | "encbp" :: a :: rest =>       -- tau (0 = plain softmax estimator), gbar, levels, s
    match a.toNat?, floats? rest with
    | some n, some f =>
      if f.size ≠ 2 + 2 * n then "bad-op" else
      let s := reOfList f (2 + n)
      let est : Vec Float → Vec Float := if f[0]! == 0.0 then softmaxBack n s else gumbelBack f[0]! n s
      fmtRe n (encoderBack est (reOfList f 2) f[1]!)
    | _, _ => "bad-op"
  | ["act", kind, a, x0, y0, x] =>
    match floats? [a, x0, y0, x] with
    | some f => match actEval kind f[0]! f[1]! f[2]! f[3]! with
      | some (v, d) => fmtFloat v ++ " " ++ fmtFloat d
      | none => "bad-op"
    | none => "bad-op"
  | "sgfwd" :: a :: rest =>
    match a.toNat?, floats? rest with
    | some n, some f => if f.size ≠ n then "bad-op" else fmtRe n (diffFwd n (reOfList f 0))
    | _, _ => "bad-op"
  | "sgbp" :: a :: rest =>
    match a.toNat?, floats? rest with
    | some n, some f => if f.size ≠ n then "bad-op" else fmtRe n (diffBack n (reOfList f 0))
    | _, _ => "bad-op"
  | "mse" :: a :: rest =>
    match a.toNat?, floats? rest with
    | some n, some f =>
      if f.size ≠ 2 * n then "bad-op" else
      fmtFloat (mseCost n (reOfList f 0) (reOfList f n)) ++ " " ++ fmtRe n (mseGrad n (reOfList f 0) (reOfList f n))
    | _, _ => "bad-op"
  | "bgie" :: a :: rest =>
    match a.toNat?, floats? rest with
    | some n, some f =>
      if f.size ≠ 2 * n then "bad-op" else
      fmtFloat (bgieCost n (reOfList f 0) (reOfList f n)) ++ " " ++ fmtRe n (bgieGrad n (reOfList f 0) (reOfList f n))
    | _, _ => "bad-op"
  | "nll" :: a :: rest =>
    match a.toNat?, floats? rest with
    | some n, some f =>
      if f.size ≠ 2 * n then "bad-op" else
      fmtFloat (nllCost Float.log n (reOfList f 0) (reOfList f n)) ++ " " ++ fmtRe n (nllGrad n (reOfList f 0) (reOfList f n))
    | _, _ => "bad-op"
  | "fixedfwd" :: sg :: a :: b :: c :: d :: rest =>      -- forward model of focus / unfocus_fixed_sampling
    match sg.toInt?, nats? [a, b, c, d], floats? rest with
    | some sg, some [m, n, M, N], some f =>
      if f.size ≠ 6 + 2 * m * n then "bad-op" else
      let x := cxOfList f 6 n
      let bs := mdftBases Float.cos Float.sin Float.sqrt twoPi (Float.ofInt sg) m n M N
        (fixedQ (Float.ofNat m) f[0]! f[1]! f[2]! f[3]!) (fixedQ (Float.ofNat n) f[0]! f[1]! f[2]! f[3]!) (f[4]! / f[3]!) (f[5]! / f[3]!)
      let eo := Tab.ofFn M m bs.1
      let ei := Tab.ofFn n N bs.2
      let t := Tab.ofFn M n (matmul m eo.fn x)
      fmtCx M N (matmul n t.fn ei.fn)
    | _, _, _ => "bad-op"
  | "fpmfwd" :: a :: b :: c :: d :: rest =>                  -- forward model of to_fpm_and_back
    match nats? [a, b, c, d], floats? rest with
    | some [p0, p1, M0, M1], some f =>
      if f.size ≠ 6 + 2 * M0 * M1 + 2 * p0 * p1 then "bad-op" else
      let mask := cxOfList f 6 M1
      let x := cxOfList f (6 + 2 * M0 * M1) p1
      let dx := f[0]!; let efl := f[1]!; let wl := f[2]!; let fdx := f[3]!; let sx := f[4]!; let sy := f[5]!
      let b1 := mdftBases Float.cos Float.sin Float.sqrt twoPi 1.0 p0 p1 M0 M1
        (fixedQ (Float.ofNat p0) dx efl wl fdx) (fixedQ (Float.ofNat p1) dx efl wl fdx) (sx / fdx) (sy / fdx)
      let b2 := mdftBases Float.cos Float.sin Float.sqrt twoPi (-1.0) M0 M1 p0 p1
        (fixedQ (Float.ofNat M0) fdx efl wl dx) (fixedQ (Float.ofNat M1) fdx efl wl dx) (sx * dx / fdx / dx) (sy * dx / fdx / dx)
      let eo1 := Tab.ofFn M0 p0 b1.1
      let ei1 := Tab.ofFn p1 M1 b1.2
      let t1 := Tab.ofFn M0 p1 (matmul p0 eo1.fn x)
      let A := Tab.ofFn M0 M1 (hadamard (matmul p1 t1.fn ei1.fn) mask)
      let eo2 := Tab.ofFn p0 M0 b2.1
      let ei2 := Tab.ofFn M1 p1 b2.2
      let t2 := Tab.ofFn M0 p1 (matmul M1 A.fn ei2.fn)
      fmtCx p0 p1 (matmul M0 eo2.fn t2.fn)
    | _, _ => "bad-op"
  | "tripbp" :: a :: b :: c :: d :: rest =>       -- M m n N | Eo (M×m) | Ei (n×N) | y (M×N)  ->  Eoᴴ (y Eiᴴ)
    match nats? [a, b, c, d], floats? rest with
    | some [M, m, n, N], some f =>
      if f.size ≠ 2 * (M * m + n * N + M * N) then "bad-op" else
      let Eo := cxOfList f 0 m
      let Ei := cxOfList f (2 * M * m) N
      let y := cxOfList f (2 * M * m + 2 * n * N) N
      fmtCx m n (dftBackT M m n N Eo y Ei).fn
    | _, _ => "bad-op"
  | "fpmbpm" :: a :: b :: c :: d :: rest =>       -- p0 p1 M0 M1 | Eo1 (M0×p0) Ei1 (p1×M1) mask Eo2 (p0×M0) Ei2 (M1×p1) y
    match nats? [a, b, c, d], floats? rest with
    | some [p0, p1, M0, M1], some f =>
      if f.size ≠ 2 * (M0 * p0 + p1 * M1 + M0 * M1 + p0 * M0 + M1 * p1 + p0 * p1) then "bad-op" else
      let o1 := 2 * M0 * p0
      let o2 := o1 + 2 * p1 * M1
      let o3 := o2 + 2 * M0 * M1
      let o4 := o3 + 2 * p0 * M0
      let o5 := o4 + 2 * M1 * p1
      fmtCx p0 p1 (fpmBackT p0 p1 M0 M1 (cxOfList f 0 p0) (cxOfList f o1 M1) (cxOfList f o2 M1)
        (cxOfList f o3 M0) (cxOfList f o4 p1) (cxOfList f o5 p1)).fn
    | _, _ => "bad-op"
  | "babbpm" :: a :: b :: c :: d :: rest =>       -- as fpmbpm, then lyot (p0×p1), then y
    match nats? [a, b, c, d], floats? rest with
    | some [p0, p1, M0, M1], some f =>
      if f.size ≠ 2 * (M0 * p0 + p1 * M1 + M0 * M1 + p0 * M0 + M1 * p1 + 2 * p0 * p1) then "bad-op" else
      let o1 := 2 * M0 * p0
      let o2 := o1 + 2 * p1 * M1
      let o3 := o2 + 2 * M0 * M1
      let o4 := o3 + 2 * p0 * M0
      let o5 := o4 + 2 * M1 * p1
      let o6 := o5 + 2 * p0 * p1
      fmtCx p0 p1 (babinetBackT p0 p1 M0 M1 (cxOfList f 0 p0) (cxOfList f o1 M1) (cxOfList f o2 M1)
        (cxOfList f o3 M0) (cxOfList f o4 p1) (cxOfList f o5 p1) (cxOfList f o6 p1)).fn
    | _, _ => "bad-op"
  | "resbp" :: a :: b :: c :: d :: rest =>       -- m n M N | cb | G1 (m×m) G2 (n×n) Eo (M×m) Ei (n×N) y (M×N)   fourier_resample_backprop
    match nats? [a, b, c, d], floats? rest with
    | some [m, n, M, N], some f =>
      if f.size ≠ 1 + 2 * (m * m + n * n + M * m + n * N + M * N) then "bad-op" else
      let o1 := 1 + 2 * m * m
      let o2 := o1 + 2 * n * n
      let o3 := o2 + 2 * M * m
      let o4 := o3 + 2 * n * N
      let r := resampleBackT Cx.conj m n M N (m - m / 2) (n - n / 2) (m / 2) (n / 2)
        (cxOfList f 1 m) (cxOfList f o1 n) (cxOfList f o2 m) (cxOfList f o3 N) (Cx.ofReal f[0]!) (cxOfList f o4 N)
      -- the routine returns the real part (`.real`)
      " ".intercalate ((List.range (m * n)).map fun t => fmtFloat (r.fn (t / n) (t % n)).re)
    | _, _ => "bad-op"
  | "mcost" :: kind :: a :: b :: rest =>       -- kind cnt n | idx (cnt positions) | x (n) d (n)  -> masked cost, scattered gradient (n)
    match nats? [a, b] with
    | some [cnt, n] =>
      match nats? (rest.take cnt), floats? (rest.drop cnt) with
      | some il, some f =>
        if il.length ≠ cnt ∨ f.size ≠ 2 * n then "bad-op" else
        let ia := il.toArray
        let idx : Nat → Nat := fun k => ia.getD k 0
        let x := compress idx (reOfList f 0)
        let dd := compress idx (reOfList f n)
        match kind with
        | "mse" => fmtFloat (mseCost cnt x dd) ++ " " ++ fmtRe n (scatterMask cnt idx (mseGrad cnt x dd))
        | "bgie" => fmtFloat (bgieCost cnt x dd) ++ " " ++ fmtRe n (scatterMask cnt idx (bgieGrad cnt x dd))
        | "nll" => fmtFloat (nllCost Float.log cnt x dd) ++ " " ++ fmtRe n (scatterMask cnt idx (nllGrad cnt x dd))
        | _ => "bad-op"
      | _, _ => "bad-op"
    | _ => "bad-op"
  | "dmbpi" :: rest =>       -- m n k loy sty lox stx M N mode oy ox | scale | H (m×n complex) | y (M×N real)
    match nats? (rest.take 12), floats? (rest.drop 12) with
    | some [m, n, k, loy, sty, lox, stx, M, N, mode, oy, ox], some f =>
      if f.size ≠ 1 + 2 * m * n + M * N then "bad-op" else
      let H := cxOfList f 1 n
      let y : Mat Float := fun i j => if i < M ∧ j < N then f.getD (1 + 2 * m * n + i * N + j) 0.0 else 0.0
      let r := dmBackGivenT Float.cos Float.sin twoPi m n k loy sty lox stx M N mode (oy : Int) (ox : Int) f[0]! H y
      " ".intercalate ((List.range (k * k)).map fun t => fmtFloat (r.fn (t / k) (t % k)))
    | _, _ => "bad-op"
  | "dmbp" :: a :: b :: c :: d :: e :: g :: h :: rest =>     -- m n k skx sky M N | sx sy scale | ifn | y
    match nats? [a, b, c, d, e, g, h], floats? rest with
    | some [m, n, k, skx, sky, M, N], some f =>
      if f.size ≠ 3 + m * n + M * N then "bad-op" else
      let ifn : Mat Float := fun i j => f.getD (3 + i * n + j) 0.0
      let y : Mat Float := fun i j => if i < M ∧ j < N then f.getD (3 + m * n + i * N + j) 0.0 else 0.0
      let r := dmBackT Float.cos Float.sin twoPi m n k skx sky M N f[0]! f[1]! f[2]! ifn y
      " ".intercalate ((List.range (k * k)).map fun t => fmtFloat (r.fn (t / k) (t % k)))
    | _, _ => "bad-op"
  | _ => "bad-op"

def main : IO Unit := mainLoop step
