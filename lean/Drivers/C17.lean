import PrysmVerif.Wire
import PrysmVerif.Model.C17
open Wire Model.C17 Model.C17.Exec

/-- `n.re n.im d` triples -/
def parseLayers : List Float → Option (List (C × Float))
  | [] => some []
  | a :: b :: d :: rest => (parseLayers rest).map fun l => ((⟨a, b⟩, d) :: l)
  | _ => none

def step (t : List String) : String :=
  match t with
  | ["fresnel", n0, n1, th0] =>
    match parseFloatBits? n0, parseFloatBits? n1, parseFloatBits? th0 with
    | some n0, some n1, some th0 =>
      let (rs, ts, rp, tp) := fresnel4 n0 n1 th0
      fmtList fmtFloat [rs, ts, rp, tp]
    | _, _, _ => "bad-op"
  | "stack" :: pol :: n0 :: aoi :: lam :: rest =>
    match parseFloatBits? n0, parseFloatBits? aoi, parseFloatBits? lam, parseAll? parseFloatBits? rest with
    | some n0, some aoi, some lam, some xs =>
      match parseLayers xs with
      | some ls =>
        if pol ≠ "p" ∧ pol ≠ "s" then "bad-op" else
        let (r, t) := stackRT (pol == "p") n0 aoi lam ls
        fmtList fmtFloat [r.re, r.im, t.re, t.im]
      | none => "bad-op"
    | _, _, _, _ => "bad-op"
  | "ravel" :: nd :: rest =>
    match parseAll? String.toNat? (nd :: rest) with
    | some (nd :: xs) =>
      if xs.length ≠ 2 * nd then "bad-op" else
      let shape := xs.take nd
      let idx := xs.drop nd
      let b := ravel shape idx
      toString b ++ " " ++ " ".intercalate ((unravel shape b).map toString) ++ " " ++ toString (bsize shape)
    | _ => "bad-op"
  | _ => "bad-op"

def main : IO Unit := mainLoop step
