import PrysmVerif.Wire
def main : IO Unit := Wire.mainLoop fun _ => "bad-op"
