import PrysmVerif.Wire
import PrysmVerif.Model.C03Exec
open Wire Model.C03 Model.C05 Model.C03.Exec

def step (t : List String) : String :=
  match t with
  | "fs" :: dir :: m :: n :: M :: N :: rest =>
      match m.toNat?, n.toNat?, M.toNat?, N.toNat?, floats? rest with
      | some m, some n, some M, some N, some (dx :: z :: lam :: dxo :: shx :: shy :: data) =>
          if data.length ≠ 2 * m * n then "bad-op" else
          fmtGrid (fixedTable (dir == "inv") m n M N dx z lam dxo shx shy (parseGrid m n data))
      | _, _, _, _, _ => "bad-op"
  | "ex" :: dir :: m :: n :: M :: N :: rest =>
      match m.toNat?, n.toNat?, M.toNat?, N.toNat?, floats? rest with
      | some m, some n, some M, some N, some (Qy :: Qx :: sx :: sy :: data) =>
          if data.length ≠ 2 * m * n then "bad-op" else
          fmtGrid (execTable (dir == "inv") m n M N Qy Qx sx sy (parseGrid m n data))
      | _, _, _, _, _ => "bad-op"
  | "fpm" :: m :: n :: My :: Mx :: rest =>
      match m.toNat?, n.toNat?, My.toNat?, Mx.toNat?, floats? rest with
      | some m, some n, some My, some Mx, some (dx :: efl :: lam :: fdx :: shx :: shy :: data) =>
          if data.length ≠ 2 * m * n + 2 * My * Mx then "bad-op" else
          let f := parseGrid m n (data.take (2 * m * n))
          let mask := parseGrid My Mx (data.drop (2 * m * n))
          fmtGrid (fpmTable m n My Mx dx efl lam fdx shx shy mask f)
      | _, _, _, _, _ => "bad-op"
  | "fpmpt" :: m :: n :: My :: Mx :: j :: i :: rest =>
      match m.toNat?, n.toNat?, My.toNat?, Mx.toNat?, j.toNat?, i.toNat?, floats? rest with
      | some m, some n, some My, some Mx, some j, some i, some (dx :: efl :: lam :: fdx :: shx :: shy :: data) =>
          if data.length ≠ 2 * m * n + 2 * My * Mx then "bad-op" else
          let f := parseGrid m n (data.take (2 * m * n))
          let mask := parseGrid My Mx (data.drop (2 * m * n))
          let c := fpmPoint m n My Mx dx efl lam fdx shx shy mask f j i
          s!"{fmtFloat c.re} {fmtFloat c.im}"
      | _, _, _, _, _, _, _ => "bad-op"
  | "emb" :: m :: n :: m' :: n' :: rest =>
      -- `Model.C05.embed`: the zero-pad embedding the pad-invariance theorems are about
      match m.toNat?, n.toNat?, m'.toNat?, n'.toNat?, floats? rest with
      | some m, some n, some m', some n', some data =>
          if data.length ≠ 2 * m * n ∨ m' < m ∨ n' < n then "bad-op" else
          let f := parseGrid m n data
          fmtGrid ((Array.range m').map fun j => (Array.range n').map fun i =>
            (embed m n m' n' (fun a b => getC f a b) j i : C))
      | _, _, _, _, _ => "bad-op"
  | "bab" :: m :: n :: My :: Mx :: rest =>
      match m.toNat?, n.toNat?, My.toNat?, Mx.toNat?, floats? rest with
      | some m, some n, some My, some Mx, some (dx :: efl :: lam :: fdx :: data) =>
          if data.length ≠ 4 * m * n + 2 * My * Mx then "bad-op" else
          let f := parseGrid m n (data.take (2 * m * n))
          let mask := parseGrid My Mx ((data.drop (2 * m * n)).take (2 * My * Mx))
          let lyot := parseGrid m n (data.drop (2 * m * n + 2 * My * Mx))
          fmtGrid (babTable m n My Mx dx efl lam fdx lyot mask f)
      | _, _, _, _, _ => "bad-op"
  | "babpt" :: m :: n :: My :: Mx :: j :: i :: rest =>
      match m.toNat?, n.toNat?, My.toNat?, Mx.toNat?, j.toNat?, i.toNat?, floats? rest with
      | some m, some n, some My, some Mx, some j, some i, some (dx :: efl :: lam :: fdx :: data) =>
          if data.length ≠ 4 * m * n + 2 * My * Mx then "bad-op" else
          let f := parseGrid m n (data.take (2 * m * n))
          let mask := parseGrid My Mx ((data.drop (2 * m * n)).take (2 * My * Mx))
          let lyot := parseGrid m n (data.drop (2 * m * n + 2 * My * Mx))
          let c := babPoint m n My Mx dx efl lam fdx lyot mask f j i
          s!"{fmtFloat c.re} {fmtFloat c.im}"
      | _, _, _, _, _, _, _ => "bad-op"
  | _ => "bad-op"

def main : IO Unit := mainLoop step
