import PrysmVerif.Wire
import PrysmVerif.Model.C10
open Wire Model.C10 Model.C10.Rd

/-- per-azimuthal-order block of a 2D-Q request: `cos sin  na a…  nb b…  nf f…  ng g…` -/
structure QBlock (K : Type) where
  cosv : K
  sinv : K
  a : List K
  b : List K
  f : List K
  g : List K

def qblock {K : Type} (sc : Sc K) : M (QBlock K) := do
  let c ← num sc; let s ← num sc
  let a ← nums sc; let b ← nums sc; let f ← nums sc; let g ← nums sc
  pure ⟨c, s, a, b, f, g⟩

def fnOf {K : Type} [Num K] (l : List K) : Nat → K := fun i => nth l i

def handle {K : Type} [Num K] [BEq K] (sc : Sc K) (op : String) : M String := do
  match op with
  | "jsum" =>
    let al ← num sc; let be ← num sc; let x ← num sc; let s ← nums sc; done
    pure (out sc [jacobiSumClenshaw s al be x, jacobiSumExplicit s al be x])
  | "qbfs" =>
    let x ← num sc; let cs ← nums sc; let f ← nums sc; let g ← nums sc; let h ← nums sc; done
    pure (out sc [clenshawQbfs (fnOf f) (fnOf g) (fnOf h) cs x, qbfsSumExplicit (fnOf f) (fnOf g) (fnOf h) cs x])
  | "q2d" =>
    let m ← nat; let x ← num sc; let cs ← nums sc; let f ← nums sc; let g ← nums sc; done
    let al := clenshawQ2d (fnOf f) (fnOf g) m cs x
    pure (out sc ([q2dRead m al, q2dRadialExplicit (fnOf f) (fnOf g) m cs x] ++ al))
  | "q2dsag" =>
    let u ← num sc; let cm0 ← nums sc; let f ← nums sc; let g ← nums sc; let h ← nums sc
    let nb ← nat; let bl ← rep (qblock sc) nb
    let na ← nat; let nbb ← nat; done   -- how many of the blocks are present in ams / bms
    let fq := fun m => fnOf ((bl.getD (m-1) ⟨Num.ofInt 0, Num.ofInt 0, [], [], [], []⟩).f)
    let gq := fun m => fnOf ((bl.getD (m-1) ⟨Num.ofInt 0, Num.ofInt 0, [], [], [], []⟩).g)
    let cosm := fun m => (bl.getD (m-1) ⟨Num.ofInt 0, Num.ofInt 0, [], [], [], []⟩).cosv
    let sinm := fun m => (bl.getD (m-1) ⟨Num.ofInt 0, Num.ofInt 0, [], [], [], []⟩).sinv
    let ams := (bl.take na).map (·.a)
    let bms := (bl.take nbb).map (·.b)
    pure (out sc [q2dSag (fnOf f) (fnOf g) (fnOf h) fq gq cosm sinm cm0 ams bms u,
                  q2dSagExplicit (fnOf f) (fnOf g) (fnOf h) fq gq cosm sinm cm0 ams bms u])
  | "pack" =>
    let n ← nat
    let ent ← rep (do let a ← nat; let b ← int; let c ← num sc; pure ((a, b), c)) n; done
    let p := pack ent
    let showL := fun (l : List K) => s!"{l.length}" ++ (if l.isEmpty then "" else " " ++ out sc l)
    pure (showL p.1 ++ s!" | {p.2.1.length} | " ++ " ; ".intercalate (p.2.1.map showL) ++ " | " ++
          " ; ".intercalate (p.2.2.map showL))
  | "tdot" =>
    let k ← nat; let size ← nat; let w ← rep (num sc) k
    let modes ← rep (rep (num sc) size) k; done
    pure (out sc (tensordot modes w size) ++ " | " ++ out sc (sumLoop size modes w))
  | "lstsq" =>
    let k ← nat; let size ← nat
    let mask ← rep (do let b ← nat; pure (b == 1)) size
    let data ← rep (num sc) size
    let modes ← rep (rep (num sc) size) k; done
    match lstsqNormal modes data mask with
    | none => pure "rankdef"
    | some c =>
      let res := normalResidual modes data mask c
      let okNormal := res.all (fun r => r == Num.ofInt 0)
      pure (out sc c ++ (if okNormal then " | normal-equations-hold" else " | normal-equations-VIOLATED"))
  | _ => failure

def step (t : List String) : String :=
  match t with
  | "f" :: op :: rest => (run (handle scFloat op) rest).getD "bad-op"
  | "q" :: op :: rest => (run (handle scRat op) rest).getD "bad-op"
  | _ => "bad-op"

def main : IO Unit := mainLoop step
