import PrysmVerif.Wire
import PrysmVerif.Model.C11
open Wire Model.C11

/-- forward map of a convention by name -/
def fwd? (c : String) : Option (Int → Int × Int) :=
  match c with
  | "ansi" => some ansiJToNm
  | "noll" => some nollToNm
  | "fringe" => some fringeToNm
  | "xy" => some xyJToMn
  | _ => none

/-- inverse map of a convention by name -/
def inv? (c : String) : Option (Int → Int → Int) :=
  match c with
  | "ansi" => some nmToAnsiJ
  | "noll" => some nmToNoll
  | "fringe" => some nmToFringe
  | "xy" => some mnToXyJ
  | _ => none

def fmtPair (p : Int × Int) : String := s!"{p.1} {p.2}"

/-- `sweep conv lo hi` : the pairs of every index in `[lo, hi)`, blank separated on one line -/
def sweep (f : Int → Int × Int) (lo hi : Int) : String := Id.run do
  let mut out : String := ""
  let n := (hi - lo).toNat
  for k in [0:n] do
    let p := f (lo + (k : Int))
    if k > 0 then out := out.push ' '
    out := out ++ toString p.1
    out := out.push ' '
    out := out ++ toString p.2
  return out

def pairsOf : List Int → List (Int × Int)
  | a :: b :: rest => (a, b) :: pairsOf rest
  | _ => []

def step (t : List String) : String :=
  match t with
  | ["fwd", c, j] => match fwd? c, j.toInt? with
      | some f, some j => fmtPair (f j)
      | _, _ => "bad-op"
  | ["inv", c, a, b] => match inv? c, a.toInt?, b.toInt? with
      | some f, some a, some b => toString (f a b)
      | _, _, _ => "bad-op"
  | ["sweep", c, lo, hi] => match fwd? c, lo.toInt?, hi.toInt? with
      | some f, some lo, some hi => sweep f lo hi
      | _, _, _ => "bad-op"
  | "fwds" :: c :: js => match fwd? c, parseAll? parseInt? js with
      | some f, some js => fmtList fmtPair (js.map f)
      | _, _ => "bad-op"
  | "invs" :: c :: ab => match inv? c, parseAll? parseInt? ab with
      | some f, some l =>
          let rec go : List Int → List String
            | a :: b :: rest => toString (f a b) :: go rest
            | _ => []
          " ".intercalate (go l)
      | _, _ => "bad-op"
  | "namekeys" :: nm => match parseAll? parseInt? nm with
      | some l =>
          " ".intercalate ((pairsOf l).map fun p =>
            let k := nameKey p.1 p.2; s!"{k.1} {k.2.1} {k.2.2.1} {k.2.2.2} {nameWords k.1}")
      | _ => "bad-op"
  | "group" :: nm => match parseAll? parseInt? nm with
      | some l =>
          " ".intercalate ((groupByKey (pairsOf l)).map fun g =>
            s!"{g.1.1} {g.1.2} {g.2.length} " ++ " ".intercalate (g.2.map toString))
      | _ => "bad-op"
  | ["valid", n, m] => match n.toInt?, m.toInt? with
      | some n, some m => if Valid n m then "1" else "0"
      | _, _ => "bad-op"
  | _ => "bad-op"

def main : IO Unit := mainLoop step
