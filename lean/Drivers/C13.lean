import PrysmVerif.Wire
import PrysmVerif.Model.C13
open Wire Model.C13

/-!
Line protocol of the C13 model (floats travel as IEEE bit patterns):

  psd m n dx  h[m*n] w[m*n]                     -> m*n floats (row major): Model.C13.psd
  psdrot pre post m n dx  h[m*n] w[m*n]         -> same with explicit rotations (none|fftshift|ifftshift)
  brms m n dy dx flow fhigh  r[m*n] p[m*n]      -> brmsSq
  brmsr m n flow fhigh  r[m*n] p[m*n]           -> stepAxis0 stepAxis1 brmsSqOfR
  brms1 n flow fhigh  r[n] p[n]                 -> stepAxis1D brms1SqOfR   (1-D r / psd)
  trapz n d  y[n]                               -> trapz
  rotsrc kind n                                 -> n ints
  fftfreq n                                     -> n ints (fftfreq(n) * n)
  shown kind n                                  -> n ints (frequency numerator displayed at each position)
  axis n                                        -> n ints (numerator of the returned axis)
  rescale rho k  z[k]                           -> rms(z)  rescaled z[k]
-/

def twoPi : Float := 6.283185307179586476925286766559

def parseRot? : String → Option Rot
  | "none" => some .none
  | "fftshift" => some .fftshift
  | "ifftshift" => some .ifftshift
  | _ => none

def grid (a : Array Float) (off n : Nat) : Nat → Nat → Float := fun i j => a.getD (off + i * n + j) 0.0

def fltLt (a b : Float) : Bool := a < b

def ints (n : Nat) (f : Int → Int) : String :=
  fmtList toString ((List.range n).map fun (i : Nat) => f (i : Int))

def psdReply (pre post : Rot) (m n : Nat) (dx : Float) (a : Array Float) : String :=
  let h := grid a 0 n
  let w := grid a (m * n) n
  fmtList fmtFloat ((List.range (m * n)).map fun q =>
    psdRot pre post Float.cos Float.sin twoPi m n dx h w (q / n) (q % n))

def step (t : List String) : String :=
  match t with
  | "psd" :: m :: n :: dx :: rest =>
    match m.toNat?, n.toNat?, parseFloatBits? dx, parseAll? parseFloatBits? rest with
    | some m, some n, some dx, some vs =>
      if vs.length = 2 * m * n ∧ 0 < m * n then psdReply .fftshift .fftshift m n dx vs.toArray else "bad-op"
    | _, _, _, _ => "bad-op"
  | "psdrot" :: pre :: post :: m :: n :: dx :: rest =>
    match parseRot? pre, parseRot? post, m.toNat?, n.toNat?, parseFloatBits? dx, parseAll? parseFloatBits? rest with
    | some pre, some post, some m, some n, some dx, some vs =>
      if vs.length = 2 * m * n ∧ 0 < m * n then psdReply pre post m n dx vs.toArray else "bad-op"
    | _, _, _, _, _, _ => "bad-op"
  | "brms" :: m :: n :: rest =>
    match m.toNat?, n.toNat?, parseAll? parseFloatBits? rest with
    | some m, some n, some (dy :: dx :: flow :: fhigh :: vs) =>
      if vs.length = 2 * m * n then
        let a := vs.toArray
        fmtFloat (brmsSq fltLt m n dy dx flow fhigh (grid a 0 n) (grid a (m * n) n))
      else "bad-op"
    | _, _, _ => "bad-op"
  | "brmsr" :: m :: n :: rest =>
    match m.toNat?, n.toNat?, parseAll? parseFloatBits? rest with
    | some m, some n, some (flow :: fhigh :: vs) =>
      if vs.length = 2 * m * n ∧ 0 < m * n then
        let a := vs.toArray
        let r := grid a 0 n
        fmtList fmtFloat [stepAxis0 Float.abs m n r, stepAxis1 Float.abs m n r,
          brmsSqOfR fltLt Float.abs m n flow fhigh r (grid a (m * n) n)]
      else "bad-op"
    | _, _, _ => "bad-op"
  | "brms1" :: n :: rest =>
    match n.toNat?, parseAll? parseFloatBits? rest with
    | some n, some (flow :: fhigh :: vs) =>
      if vs.length = 2 * n ∧ 0 < n then
        let a := vs.toArray
        let r : Nat → Float := fun i => a.getD i 0.0
        let p : Nat → Float := fun i => a.getD (n + i) 0.0
        fmtList fmtFloat [stepAxis1D Float.abs n r, brms1SqOfR fltLt Float.abs n flow fhigh r p]
      else "bad-op"
    | _, _ => "bad-op"
  | "trapz" :: n :: d :: rest =>
    match n.toNat?, parseFloatBits? d, parseAll? parseFloatBits? rest with
    | some n, some d, some vs =>
      if vs.length = n then
        let a := vs.toArray
        fmtFloat (trapz n d fun i => a.getD i 0.0)
      else "bad-op"
    | _, _, _ => "bad-op"
  | ["rotsrc", k, n] => match parseRot? k, n.toNat? with
      | some k, some n => ints n (rotSrc k (n : Int))
      | _, _ => "bad-op"
  | ["fftfreq", n] => match n.toNat? with
      | some n => ints n (fftfreqNum (n : Int))
      | _ => "bad-op"
  | ["shown", k, n] => match parseRot? k, n.toNat? with
      | some k, some n => ints n (shownFreqNum k (n : Int))
      | _, _ => "bad-op"
  | ["axis", n] => match n.toNat? with
      | some n => ints n (axisFreqNum (n : Int))
      | _ => "bad-op"
  | "rescale" :: rho :: k :: rest =>
    match parseFloatBits? rho, k.toNat?, parseAll? parseFloatBits? rest with
    | some rho, some k, some vs =>
      if vs.length = k ∧ 0 < k then
        let a := vs.toArray
        let zr := Float.sqrt (meanSq k fun i => a.getD i 0.0)
        fmtList fmtFloat (zr :: (List.range k).map fun i => rescale rho zr (a.getD i 0.0))
      else "bad-op"
    | _, _, _ => "bad-op"
  | _ => "bad-op"

def main : IO Unit := mainLoop step
