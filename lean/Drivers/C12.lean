import PrysmVerif.Wire
import PrysmVerif.Model.C12
open Wire Model.C12

/-! line protocol over the C12 model (Float).  Requests:
  hist <rows> <cols> <dx> <latcaled 0|1> { <method> <arg> <shape_r> <shape_c> <off_r> <off_c> }*
        -> per step: rows cols dx lat  xp xr xc xo xsp  yp yr yc yo ysp  rp tp   (steps joined by " | ")
  stats <v>*            -> nvalid mean meanSq var sa pv
  piston <v>*           -> <v>*
  tilt <rows> <cols> <xo> <xsp> <yo> <ysp> <v>*   -> c1 c2 <v>*
  power <rows> <cols> <v>*                         -> c1 c2 <v>*
  crop <rows> <cols> <v>*                          -> none | r0 r1 c0 c1
  effs <method>                                    -> repr of the hand-written effect list
floats travel as IEEE bit patterns; NaN = invalid sample. -/

def optOf (x : Float) : Option Float := if x.isNaN then none else some x
def nan : Float := 0.0 / 0.0
def fmtOpt (o : Option Float) : String := fmtFloat (o.getD nan)

def fmtAxis (o : Option (Axis Float)) : String :=
  match o with
  | none => s!"0 0 0 {fmtFloat 0.0} {fmtFloat 0.0}"
  | some a => s!"1 {a.rows} {a.cols} {fmtFloat a.o} {fmtFloat a.sp}"

def fmtState (s : State Float) : String :=
  s!"{s.rows} {s.cols} {fmtFloat s.dx} {if s.latcaled then 1 else 0} {fmtAxis s.x} {fmtAxis s.y} " ++
  s!"{if s.r.isSome then 1 else 0} {if s.t.isSome then 1 else 0}"

def zeroAxis : Axis Float := ⟨0, 0, 0.0, 0.0⟩

partial def histLoop (s : State Float) (acc : List String) : List String → Option (List String)
  | [] => some acc.reverse
  | name :: a :: sr :: sc :: or_ :: oc :: rest =>
    match methodEffs name, parseFloatBits? a, sr.toNat?, sc.toNat?, or_.toNat?, oc.toNat? with
    | some effs, some a, some sr, some sc, some or_, some oc =>
      let env : Env Float := ⟨fun _ => a, fun _ => (sr, sc), fun _ => (or_, oc), zeroAxis, ⟨zeroAxis, zeroAxis⟩⟩
      let s' := run env s effs
      histLoop s' (fmtState s' :: acc) rest
    | _, _, _, _, _, _ => none
  | _ => none

def floats? (l : List String) : Option (List Float) := l.mapM parseFloatBits?

def absF (x : Float) : Float := x.abs

def scatter (d : List (Option Float)) (vals : List Float) : List (Option Float) :=
  let rec go : List (Option Float) → List Float → List (Option Float)
    | [], _ => []
    | none :: d, vs => none :: go d vs
    | some _ :: d, v :: vs => some v :: go d vs
    | some x :: d, [] => some x :: go d []
  go d vals

/-- (a, b, z) triples of the valid samples, row-major; `a i j`, `b i j` are the column functions -/
def triples (rows cols : Nat) (a b : Nat → Nat → Float) (d : List (Option Float)) : List (Float × Float × Float) :=
  let idx := (List.range (rows * cols)).map fun k => (k / cols, k % cols)
  (idx.zip d).filterMap fun (ij, v) => v.map fun z => (a ij.1 ij.2, b ij.1 ij.2, z)

def linspace (n j : Nat) : Float :=
  if n ≤ 1 then -1.0 else -1.0 + 2.0 * j.toFloat / (n - 1).toFloat

def step (t : List String) : String :=
  match t with
  | "hist" :: rows :: cols :: dx :: lat :: ops =>
    match rows.toNat?, cols.toNat?, parseFloatBits? dx, lat.toNat? with
    | some rows, some cols, some dx, some lat =>
      let s0 : State Float := ⟨rows, cols, dx, lat != 0, none, none, none, none, fun _ => 0.0⟩
      match histLoop s0 [] ops with
      | some out => " | ".intercalate out
      | none => "bad-op"
    | _, _, _, _ => "bad-op"
  | "stats" :: vs =>
    match floats? vs with
    | some vs =>
      let l := validOf (vs.map optOf)
      s!"{l.length} {fmtFloat (mean l)} {fmtFloat (meanSq l)} {fmtFloat (var l)} {fmtFloat (saWith absF l)} {fmtFloat (pv l)}"
    | none => "bad-op"
  | "piston" :: vs =>
    match floats? vs with
    | some vs => fmtList fmtOpt (removePiston (vs.map optOf))
    | none => "bad-op"
  | "tilt" :: rows :: cols :: xo :: xsp :: yo :: ysp :: vs =>
    match rows.toNat?, cols.toNat?, floats? [xo, xsp, yo, ysp], floats? vs with
    | some rows, some cols, some [xo, xsp, yo, ysp], some vs =>
      let d := vs.map optOf
      let tr := triples rows cols (fun _ j => xo + j.toFloat * xsp) (fun i _ => yo + i.toFloat * ysp) d
      let c := fit2 tr
      let out := scatter d ((removeBoth tr).map fun p => p.2.2)
      s!"{fmtFloat c.1} {fmtFloat c.2} " ++ fmtList fmtOpt out
    | _, _, _, _ => "bad-op"
  | "power" :: rows :: cols :: vs =>
    match rows.toNat?, cols.toNat?, floats? vs with
    | some rows, some cols, some vs =>
      let d := vs.map optOf
      let rho2 := fun (i j : Nat) => linspace cols j * linspace cols j + linspace rows i * linspace rows i
      let tr := triples rows cols rho2 (fun _ _ => 1.0) d
      let c := fit2 tr
      let out := scatter d ((removeFirst tr).map fun p => p.2.2)
      s!"{fmtFloat c.1} {fmtFloat c.2} " ++ fmtList fmtOpt out
    | _, _, _ => "bad-op"
  | "crop" :: rows :: cols :: vs =>
    match rows.toNat?, cols.toNat?, floats? vs with
    | some rows, some cols, some vs =>
      let arr := (vs.map fun x => !x.isNaN).toArray
      let v := fun (i j : Nat) => arr.getD (i * cols + j) false
      match cropBox v rows cols with
      | none => "none"
      | some (r0, r1, c0, c1) => s!"{r0} {r1} {c0} {c1}"
    | _, _, _ => "bad-op"
  | ["effs", name] =>
    match methodEffs name with
    | some effs => ((toString (repr effs)).replace "\n" " ")
    | none => "bad-op"
  | _ => "bad-op"

def main : IO Unit := mainLoop step
