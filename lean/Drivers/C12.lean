import PrysmVerif.Wire
import PrysmVerif.Model.C12
open Wire Model.C12

/-! line protocol over the C12 model (Float).  Requests:
  hist <rows> <cols> <dx> <latcaled 0|1> { <method> <arg> <shape_r> <shape_c> <off_r> <off_c> }*
        -> per step: rows cols dx lat  xp xr xc xo xsp  yp yr yc yo ysp  rp tp   (steps joined by " | ")
  histg ... { <ntokens> <effect tokens>* <arg> <shape_r> <shape_c> <off_r> <off_c> }*   same, each operation carrying the effect
        list to execute (the harness sends the lists translated from the current source)
  stats <v>*            -> nvalid mean meanSq var sa pv
  piston <v>*           -> <v>*
  tilt <rows> <cols> <xo> <xsp> <yo> <ysp> <v>*   -> c1 c2 <v>*
  power <rows> <cols> <v>*                         -> c1 c2 <v>*
  crop <rows> <cols> <v>*                          -> none | r0 r1 c0 c1
  effs <method>                                    -> repr of the hand-written effect list
floats travel as IEEE bit patterns; non-finite (NaN, +inf, -inf) = invalid sample. -/

def optOf (x : Float) : Option Float := if x.isFinite then some x else none
def nan : Float := 0.0 / 0.0
def fmtOpt (o : Option Float) : String := fmtFloat (o.getD nan)

def fmtAxis (o : Option (Axis Float)) : String :=
  match o with
  | none => s!"0 0 0 {fmtFloat 0.0} {fmtFloat 0.0}"
  | some a => s!"1 {a.rows} {a.cols} {fmtFloat a.o} {fmtFloat a.sp}"

def fmtState (s : State Float) : String :=
  s!"{s.rows} {s.cols} {fmtFloat s.dx} {if s.latcaled then 1 else 0} {fmtAxis s.x} {fmtAxis s.y} " ++
  s!"{if s.r.isSome then 1 else 0} {if s.t.isSome then 1 else 0}"

def zeroAxis : Axis Float := ⟨0, 0, 0.0, 0.0⟩

partial def histLoop (s : State Float) (acc : List String) : List String → Option (List String)
  | [] => some acc.reverse
  | name :: a :: sr :: sc :: or_ :: oc :: rest =>
    match methodEffs name, parseFloatBits? a, sr.toNat?, sc.toNat?, or_.toNat?, oc.toNat? with
    | some effs, some a, some sr, some sc, some or_, some oc =>
      let env : Env Float := ⟨fun _ => a, fun _ => (sr, sc), fun _ => (or_, oc), zeroAxis, ⟨zeroAxis, zeroAxis⟩⟩
      let s' := run env s effs
      histLoop s' (fmtState s' :: acc) rest
    | _, _, _, _, _, _ => none
  | _ => none

/-! effect lists sent over the wire (the harness sends the lists the TRANSLATOR read off the current source) -/
def parseXY? : String → Option XY
  | "x" => some .x | "y" => some .y | _ => none
def parseRT? : String → Option RT
  | "r" => some .r | "t" => some .t | _ => none
def parseW? : String → Option DataW
  | "arith" => some .arith | "setInvalid" => some .setInvalid | "setValue" => some .setValue | "replace" => some .replace
  | _ => none
def parseVal? : List String → Option (Val × List String)
  | "one" :: r => some (.one, r)
  | "dx" :: r => some (.dx, r)
  | "arg" :: n :: r => n.toNat?.map fun n => (.arg n, r)
  | "saved" :: n :: r => n.toNat?.map fun n => (.saved n, r)
  | _ => none

partial def parseEff? : List String → Option (Eff × List String)
  | "dataReshape" :: n :: r => n.toNat?.map fun n => (.dataReshape n, r)
  | "dataWrite" :: w :: r => (parseW? w).map fun w => (.dataWrite w, r)
  | "setDx" :: r => (parseVal? r).map fun (v, r) => (.setDx v, r)
  | "saveDx" :: n :: r => n.toNat?.map fun n => (.saveDx n, r)
  | "setLatcaled" :: b :: r => some (.setLatcaled (b == "true"), r)
  | "fillXY" :: c :: r => (parseXY? c).map fun c => (.fillXY c, r)
  | "fillRT" :: c :: r => (parseRT? c).map fun c => (.fillRT c, r)
  | "freshXY" :: r => some (.freshXY, r)
  | "freshRT" :: r => some (.freshRT, r)
  | "reslice" :: c :: n :: r => do let c ← parseXY? c; let n ← n.toNat?; pure (.reslice c n, r)
  | "resliceP" :: c :: n :: r => do let c ← parseRT? c; let n ← n.toNat?; pure (.resliceP c n, r)
  | "scale" :: c :: r => do let c ← parseXY? c; let (v, r) ← parseVal? r; pure (.scale c v, r)
  | "center" :: c :: r => (parseXY? c).map fun c => (.center c, r)
  | "clearXY" :: c :: r => (parseXY? c).map fun c => (.clearXY c, r)
  | "clearRT" :: c :: r => (parseRT? c).map fun c => (.clearRT c, r)
  | "opaqueXY" :: c :: r => (parseXY? c).map fun c => (.opaqueXY c, r)
  | "opaqueRT" :: c :: r => (parseRT? c).map fun c => (.opaqueRT c, r)
  | "guardXY" :: c :: r => do let c ← parseXY? c; let (e, r) ← parseEff? r; pure (.guardXY c e, r)
  | "guardRT" :: c :: r => do let c ← parseRT? c; let (e, r) ← parseEff? r; pure (.guardRT c e, r)
  | _ => none

partial def parseEffs? (acc : List Eff) : List String → Option (List Eff)
  | [] => some acc.reverse
  | toks => match parseEff? toks with
    | some (e, r) => parseEffs? (e :: acc) r
    | none => none

/-- like `histLoop`, but every operation carries its own effect list: `<ntokens> <tokens>* <arg> <sr> <sc> <or> <oc>` -/
partial def histgLoop (s : State Float) (acc : List String) : List String → Option (List String)
  | [] => some acc.reverse
  | n :: rest =>
    match n.toNat? with
    | none => none
    | some n =>
      match parseEffs? [] (rest.take n), rest.drop n with
      | some effs, a :: sr :: sc :: or_ :: oc :: rest' =>
        match parseFloatBits? a, sr.toNat?, sc.toNat?, or_.toNat?, oc.toNat? with
        | some a, some sr, some sc, some or_, some oc =>
          let env : Env Float := ⟨fun _ => a, fun _ => (sr, sc), fun _ => (or_, oc), zeroAxis, ⟨zeroAxis, zeroAxis⟩⟩
          let s' := run env s effs
          histgLoop s' (fmtState s' :: acc) rest'
        | _, _, _, _, _ => none
      | _, _ => none

def floats? (l : List String) : Option (List Float) := l.mapM parseFloatBits?

def absF (x : Float) : Float := x.abs

def scatter (d : List (Option Float)) (vals : List Float) : List (Option Float) :=
  let rec go : List (Option Float) → List Float → List (Option Float)
    | [], _ => []
    | none :: d, vs => none :: go d vs
    | some _ :: d, v :: vs => some v :: go d vs
    | some x :: d, [] => some x :: go d []
  go d vals

/-- (a, b, z) triples of the valid samples, row-major; `a i j`, `b i j` are the column functions -/
def triples (rows cols : Nat) (a b : Nat → Nat → Float) (d : List (Option Float)) : List (Float × Float × Float) :=
  let idx := (List.range (rows * cols)).map fun k => (k / cols, k % cols)
  (idx.zip d).filterMap fun (ij, v) => v.map fun z => (a ij.1 ij.2, b ij.1 ij.2, z)

def linspace (n j : Nat) : Float :=
  if n ≤ 1 then -1.0 else -1.0 + 2.0 * j.toFloat / (n - 1).toFloat

def step (t : List String) : String :=
  match t with
  | "hist" :: rows :: cols :: dx :: lat :: ops =>
    match rows.toNat?, cols.toNat?, parseFloatBits? dx, lat.toNat? with
    | some rows, some cols, some dx, some lat =>
      let s0 : State Float := ⟨rows, cols, dx, lat != 0, none, none, none, none, fun _ => 0.0⟩
      match histLoop s0 [] ops with
      | some out => " | ".intercalate out
      | none => "bad-op"
    | _, _, _, _ => "bad-op"
  | "histg" :: rows :: cols :: dx :: lat :: ops =>
    match rows.toNat?, cols.toNat?, parseFloatBits? dx, lat.toNat? with
    | some rows, some cols, some dx, some lat =>
      let s0 : State Float := ⟨rows, cols, dx, lat != 0, none, none, none, none, fun _ => 0.0⟩
      match histgLoop s0 [] ops with
      | some out => " | ".intercalate out
      | none => "bad-op"
    | _, _, _, _ => "bad-op"
  | "stats" :: vs =>
    match floats? vs with
    | some vs =>
      let l := validOf (vs.map optOf)
      s!"{l.length} {fmtFloat (mean l)} {fmtFloat (meanSq l)} {fmtFloat (var l)} {fmtFloat (saWith absF l)} {fmtFloat (pv l)}"
    | none => "bad-op"
  | "piston" :: vs =>
    match floats? vs with
    | some vs => fmtList fmtOpt (removePiston (vs.map optOf))
    | none => "bad-op"
  | "tilt" :: rows :: cols :: xo :: xsp :: yo :: ysp :: vs =>
    match rows.toNat?, cols.toNat?, floats? [xo, xsp, yo, ysp], floats? vs with
    | some rows, some cols, some [xo, xsp, yo, ysp], some vs =>
      let d := vs.map optOf
      let tr := triples rows cols (fun _ j => xo + j.toFloat * xsp) (fun i _ => yo + i.toFloat * ysp) d
      let c := fit2 tr
      let out := scatter d ((removeBoth tr).map fun p => p.2.2)
      s!"{fmtFloat c.1} {fmtFloat c.2} " ++ fmtList fmtOpt out
    | _, _, _, _ => "bad-op"
  | "power" :: rows :: cols :: vs =>
    match rows.toNat?, cols.toNat?, floats? vs with
    | some rows, some cols, some vs =>
      let d := vs.map optOf
      let rho2 := fun (i j : Nat) => linspace cols j * linspace cols j + linspace rows i * linspace rows i
      let tr := triples rows cols rho2 (fun _ _ => 1.0) d
      let c := fit2 tr
      let out := scatter d ((removeFirst tr).map fun p => p.2.2)
      s!"{fmtFloat c.1} {fmtFloat c.2} " ++ fmtList fmtOpt out
    | _, _, _ => "bad-op"
  | "crop" :: rows :: cols :: vs =>
    match rows.toNat?, cols.toNat?, floats? vs with
    | some rows, some cols, some vs =>
      let arr := (vs.map fun x => x.isFinite).toArray
      let v := fun (i j : Nat) => arr.getD (i * cols + j) false
      match cropBox v rows cols with
      | none => "none"
      | some (r0, r1, c0, c1) => s!"{r0} {r1} {c0} {c1}"
    | _, _, _ => "bad-op"
  | ["effs", name] =>
    match methodEffs name with
    | some effs => ((toString (repr effs)).replace "\n" " ")
    | none => "bad-op"
  | _ => "bad-op"

def main : IO Unit := mainLoop step
