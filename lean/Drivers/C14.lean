import PrysmVerif.Wire
import PrysmVerif.Model.C14
import PrysmVerif.Generated.C14
/-!
Line-protocol driver for C14.  All codec logic is `Model.C14`; the only thing taken from `Generated.C14` is the
header table (data: 163 rows of format/offset/default) — the harness validates every row of it against the run-time
`_zygo_metadata_helper()` / `struct` through the `zrow` request.
-/
open Wire Model.C14

def hexDigit (n : Nat) : Char := if n < 10 then Char.ofNat (48 + n) else Char.ofNat (87 + n)
def hexOf (bytes : List Nat) : String :=
  String.ofList (bytes.flatMap fun b => [hexDigit (b / 16 % 16), hexDigit (b % 16)])

def hexVal (c : Char) : Nat :=
  let n := c.toNat
  if 48 ≤ n ∧ n ≤ 57 then n - 48 else if 97 ≤ n ∧ n ≤ 102 then n - 87 else 0

def unhex (s : String) : List Nat :=
  let rec go : List Char → List Nat
    | a :: b :: rest => (hexVal a * 16 + hexVal b) :: go rest
    | _ => []
  go s.toList

def table : List Row := Generated.C14.zygoTable

def fmtRead (r : Option (Nat × Nat × Float × Float × List Float × Bool)) : String :=
  match r with
  | none => "none"
  | some (h, w, lat, wvl, vals, warned) =>
    s!"{h} {w} {fmtFloat lat} {fmtFloat wvl} {fmtFloat (lat * 1000.0)} {fmtFloat (wvl * 1000000.0)} {if warned then 1 else 0} "
      ++ fmtList fmtFloat vals

def step (t : List String) : String :=
  match t with
  | "zfile" :: h :: w :: dx :: wvl :: ts :: vals =>
    match h.toNat?, w.toNat?, parseFloatBits? dx, parseFloatBits? wvl, ts.toNat?, parseAll? parseFloatBits? vals with
    | some h, some w, some dx, some wvl, some ts, some vals =>
      if vals.length ≠ h * w then "bad-op" else hexOf (zygoFile table writerSets ⟨h, w, dx, wvl, ts⟩ vals)
    | _, _, _, _, _, _ => "bad-op"
  | ["zread", p, hex] => fmtRead (zygoRead (p == "1") (unhex hex))
  | "ztrunc" :: p :: hex :: ks =>
    match parseAll? parseNat? ks with
    | some ks =>
      let f := unhex hex
      " | ".intercalate (ks.map fun k => fmtRead (zygoRead (p == "1") (f.take k)))
    | none => "bad-op"
  | ["zreadl", p, mia, hex] =>
    match modelFrameSel.find? (fun q => q.1 == mia) with
    | none => "bad-op"
    | some (_, sel) =>
      match zygoReadL (p == "1") sel (unhex hex) with
      | none => "none"
      | some (h, w, lat, wvl, vals, warned, ib, ih, iw, fr) =>
        fmtRead (some (h, w, lat, wvl, vals, warned)) ++ s!" ; {ib} {ih} {iw} " ++ fmtList fmtFloat fr
  | "ztruncl" :: p :: mia :: hex :: ks =>
    match parseAll? parseNat? ks, modelFrameSel.find? (fun q => q.1 == mia) with
    | some ks, some (_, sel) =>
      let f := unhex hex
      " | ".intercalate (ks.map fun k =>
        match zygoReadL (p == "1") sel (f.take k) with
        | none => "none"
        | some (h, w, lat, wvl, vals, warned, _, _, _, _) => fmtRead (some (h, w, lat, wvl, vals, warned)))
    | _, _ => "bad-op"
  | ["cvpre", hex] =>
    match cvPreamble ((unhex hex).map Char.ofNat) with
    | none => "none"
    | some (title, hdr, data) => s!"{hexOf (title.map Char.toNat)} {hexOf (hdr.map Char.toNat)} {data.length} ."
  | ["zmeta", hex] =>
    let f := unhex hex
    " ".intercalate ((table.filter (fun r => !r.isPad)).map fun r =>
      match r.code with
      | .str | .chr => s!"{r.name}=s{hexOf (stripNul (fileSlice f r.lo r.hi))}"
      | .f32 => s!"{r.name}=f{r.unpack f}"
      | _ => s!"{r.name}=i{r.unpack f}")
  | ["zrows"] => toString table.length
  | ["zrow", i] =>
    match i.toNat? with
    | some i =>
      match table[i]? with
      | some r => s!"{r.name} {r.lo} {r.hi} {r.size} {if r.isPad then 1 else 0} {hexOf (r.packDflt r.dflt)}"
      | none => "bad-op"
    | none => "bad-op"
  | "cvw" :: f4 :: h :: w :: vals =>
    match h.toNat?, w.toNat?, parseAll? parseFloatBits? vals with
    | some h, some w, some vals =>
      if vals.length ≠ h * w then "bad-op" else
      let (scale, counts) := cvWriteF h w vals (if f4 == "1" then 1.1920928955078125e-07 else 2.220446049250313e-16)
      let (t1, t2) := cvHeaderDims h w
      s!"{fmtFloat scale} {t1} {t2} {cvLines (h * w)} " ++ fmtList toString counts
    | _, _, _ => "bad-op"
  | "cvr" :: p :: t1 :: t2 :: wvl :: ssz :: nda :: ends :: ints =>
    match t1.toNat?, t2.toNat?, parseFloatBits? wvl, parseFloatBits? ssz, nda.toInt?, parseAll? parseInt? ints with
    | some t1, some t2, some wvl, some ssz, some nda, some ints =>
      match cvReadF (p == "1") t1 t2 wvl ssz nda (ends == "1") ints with
      | none => "none"
      | some (h, w, vals, warned) => s!"{h} {w} {if warned then 1 else 0} " ++ fmtList fmtFloat vals
    | _, _, _, _, _, _ => "bad-op"
  | _ => "bad-op"

def main : IO Unit := mainLoop step
