import PrysmVerif.Num
import PrysmVerif.Model.C13

namespace Generated.C13

def psdPreRot : Model.C13.Rot := Model.C13.Rot.fftshift
def psdPostRot : Model.C13.Rot := Model.C13.Rot.fftshift

def psdCoef {K : Type} [Num K] (S2 dx : K) : K := ((S2 * ((Num.ofInt (1)) / dx)) * ((Num.ofInt (1)) / dx))

def psdUxShapeAxis : Nat := 1
def psdUyShapeAxis : Nat := 0

def broadcastXAlongRowsYAlongColumns : Bool := true

def brmsIntegrations : Nat := 2
def brmsIntAxis : Nat → Nat
  | 0 => 0
  | 1 => 0
  | _ => 0
def brmsStepAxis : Nat → Nat
  | 0 => 0
  | 1 => 1
  | _ => 0
def brmsStepLag : Nat → Int
  | 0 => (-1 : Int)
  | 1 => (-1 : Int)
  | _ => 0

def brmsCentre (s : Int) : Int := (s / (2 : Int))

def brmsLowCmp : Model.C13.Cmp := Model.C13.Cmp.lt
def brmsHighCmp : Model.C13.Cmp := Model.C13.Cmp.gt

def brmsIntegratorPortable : Bool := true

def brmsPeriodEdgesAreReciprocals : Bool := true

def synthScale {K : Type} [Num K] (rho zrms : K) : K := (rho / zrms)
def synthRescale {K : Type} [Num K] (rho zrms z : K) : K := (z * (synthScale rho zrms))

def synthRmsOfMaskedSurfaceThenScale : Bool := true

def rmsIsSqrtMeanSquareOfFiniteSamples : Bool := true

def interferogramPsdDelegates : Bool := true

def interferogramBrmsPassesPsdRAndData : Bool := true

def interferogramRenderDelegates : Bool := true

end Generated.C13

