/-!
# `Num` — the arithmetic signature shared by every executable model

Core Lean only (no Mathlib).  The same model definition is
* run on `Float` (IEEE double; compared with NumPy by the correspondence harness),
* run on `Rat` (exact),
* reasoned about over any Mathlib `Field` (instance in `PrysmVerif/Lemmas/NumField.lean`).
-/

class Num (K : Type) extends Add K, Sub K, Mul K, Div K, Neg K where
  ofInt : Int → K

instance : Num Float := { ofInt := fun i => Float.ofInt i }
instance : Num Rat := { ofInt := fun i => (i : Rat) }

namespace Num
variable {K : Type} [Num K]

/-- `ofRat p q = p / q` in `K` (float literals of the source are read as exact rationals). -/
def ofFrac (p : Int) (q : Nat) : K := Num.ofInt p / Num.ofInt (q : Int)

def zero : K := Num.ofInt 0
def one : K := Num.ofInt 1

/-- `Σ_{i<n} f i`, structural recursion (proved equal to `Finset.sum (range n)` in `Lemmas/Sum.lean`). -/
def sumTo : Nat → (Nat → K) → K
  | 0, _ => Num.ofInt 0
  | n+1, f => sumTo n f + f n

/-- `x ^ n` by repeated multiplication. -/
def npow (x : K) : Nat → K
  | 0 => Num.ofInt 1
  | n+1 => npow x n * x

end Num

/-- Complex numbers as pairs over `K` (for the Float / Rat drivers). -/
structure Cx (K : Type) where
  re : K
  im : K
deriving Repr

namespace Cx
variable {K : Type} [Num K]
instance : Add (Cx K) := ⟨fun a b => ⟨a.re + b.re, a.im + b.im⟩⟩
instance : Sub (Cx K) := ⟨fun a b => ⟨a.re - b.re, a.im - b.im⟩⟩
instance : Neg (Cx K) := ⟨fun a => ⟨-a.re, -a.im⟩⟩
instance : Mul (Cx K) := ⟨fun a b => ⟨a.re * b.re - a.im * b.im, a.re * b.im + a.im * b.re⟩⟩
def conj (a : Cx K) : Cx K := ⟨a.re, -a.im⟩
def normSq (a : Cx K) : K := a.re * a.re + a.im * a.im
instance : Div (Cx K) := ⟨fun a b =>
  let d := normSq b
  ⟨(a.re * b.re + a.im * b.im) / d, (a.im * b.re - a.re * b.im) / d⟩⟩
def ofReal (x : K) : Cx K := ⟨x, Num.ofInt 0⟩
def smul (x : K) (a : Cx K) : Cx K := ⟨x * a.re, x * a.im⟩
instance : Num (Cx K) := { ofInt := fun i => ⟨Num.ofInt i, Num.ofInt 0⟩ }
end Cx
