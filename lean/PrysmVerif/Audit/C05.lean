import PrysmVerif.Props.C05
#print axioms C05.gen_fwd_leg
#print axioms C05.gen_back_leg
#print axioms C05.gen_structure
#print axioms C05.fpm_back_shift_eq_fwd
#print axioms C05.fpm_legs_same_alpha
#print axioms C05.axisAlpha_indep
#print axioms C05.axisAlpha_eq
#print axioms C05.spec_linear
#print axioms C05.spec_pad_invariant
#print axioms C05.spec_transpose
#print axioms C05.mdft2_transpose_covariant
#print axioms C05.spec_separable
#print axioms C05.babinet_additive
#print axioms C05.fpm_mask_smul
#print axioms C05.babinet_complement
#print axioms C05.fpm_linear_in_field
#print axioms C05.fpm_allpass_identity
