import PrysmVerif.Wire
import PrysmVerif.Model.C05
import PrysmVerif.Model.C01
/-!
# C03 / C05 — `Float` instantiation of the models and memoised (table) evaluation, shared by the two drivers (core Lean only)

The tables are built by applying the 1-D model `Model.C03.mdft1` to rows, then to columns — exactly the separable
composition that defines `Model.C03.mdft2`; the drivers also expose single points computed straight from the
definitions (`fixedSampling`, `toFpmAndBack`) so that the harness can check the memoisation against them.
-/
namespace Model.C03.Exec
open Wire Model.C03 Model.C05

abbrev C := Cx Float

def twoPi : Float := 6.283185307179586476925286766559

/-- forward kernel `e t = exp(-2πi t)` -/
def eF (t : Float) : C := ⟨Float.cos (twoPi * t), -(Float.sin (twoPi * t))⟩
def eI (t : Float) : C := eF (-t)

def getC (a : Array (Array C)) (j i : Nat) : C := Model.C01.rd2 a j i

section generic
variable {R V : Type} [Num R] [Num V]

/-- memoised evaluation of `Model.C03.mdft2`: rows first (`ary @ Ein`), then columns (`Eout @ …`); generic in the scalars so
that `Lemmas/C03Exec.lean` can prove `rd2 (table2G …) k l = mdft2 … k l` (the table the drivers print IS the model) -/
def table2G (e : R → V) (m n M N : Nat) (αy αx sy sx : R) (norm : V) (f : Array (Array V)) : Array (Array V) :=
  let rows := Model.C01.tab2 m N fun j l => mdft1 e n N αx sx (fun i => Model.C01.rd2 f j i) l
  Model.C01.tab2 M N fun k l => norm * mdft1 e m M αy sy (fun j => Model.C01.rd2 rows j l) k

/-- `Model.C03.fixedSampling` as a table -/
def fixedTableG (e : R → V) (ofR : R → V) (sqrt : R → R) (m n M N : Nat) (dx z lam dxo shx shy : R) (f : Array (Array V)) :
    Array (Array V) :=
  let αy : R := axisAlpha (Num.ofInt (m : Int)) dx z lam dxo
  let αx : R := axisAlpha (Num.ofInt (n : Int)) dx z lam dxo
  table2G e m n M N αy αx (shiftSamples shy dxo) (shiftSamples shx dxo) (ofR (sqrt αy * sqrt αx)) f

/-- `Model.C05.toFpmAndBack` as a table: forward table, mask product, return table -/
def fpmTableG (e : R → V) (ofR : R → V) (sqrt : R → R) (m n My Mx : Nat) (dx efl lam fdx shx shy : R)
    (mask f : Array (Array V)) : Array (Array V) :=
  let atFpm := fixedTableG e ofR sqrt m n My Mx dx efl lam fdx shx shy f
  let after := Model.C01.tab2 My Mx fun k l => Model.C01.rd2 atFpm k l * Model.C01.rd2 mask k l
  let αy' : R := axisAlpha (Num.ofInt (My : Int)) fdx efl lam dx
  let αx' : R := axisAlpha (Num.ofInt (Mx : Int)) fdx efl lam dx
  table2G (fun t => e (-t)) My Mx m n αy' αx' (fpmBackShift shy dx fdx) (fpmBackShift shx dx fdx)
    (ofR (sqrt αy' * sqrt αx')) after
/-- `Model.C05.babinet` as a table: complement of the mask, `fpmTableG` without shift, difference, Lyot stop -/
def babTableG (e : R → V) (ofR : R → V) (sqrt : R → R) (m n My Mx : Nat) (dx efl lam fdx : R)
    (lyot mask f : Array (Array V)) : Array (Array V) :=
  let comp : Array (Array V) := Model.C01.tab2 My Mx fun k l => (Num.ofInt 1 : V) - Model.C01.rd2 mask k l
  let back := fpmTableG e ofR sqrt m n My Mx dx efl lam fdx (Num.ofInt 0) (Num.ofInt 0) comp f
  Model.C01.tab2 m n fun j i => Model.C01.rd2 lyot j i * (Model.C01.rd2 f j i - Model.C01.rd2 back j i)

end generic

def table2 (e : Float → C) (m n M N : Nat) (αy αx sy sx : Float) (norm : C) (f : Array (Array C)) : Array (Array C) :=
  table2G e m n M N αy αx sy sx norm f

def parseGrid (m n : Nat) (xs : List Float) : Array (Array C) :=
  let a := xs.toArray
  (Array.range m).map fun j => (Array.range n).map fun i =>
    (⟨a.getD (2 * (j * n + i)) 0, a.getD (2 * (j * n + i) + 1) 0⟩ : C)

def fmtGrid (g : Array (Array C)) : String :=
  " ".intercalate (g.toList.flatMap fun row => row.toList.flatMap fun c => [fmtFloat c.re, fmtFloat c.im])

def floats? (l : List String) : Option (List Float) := l.mapM parseFloatBits?

/-- model of `focus_fixed_sampling` / `unfocus_fixed_sampling` as a table -/
def fixedTable (inv : Bool) (m n M N : Nat) (dx z lam dxo shx shy : Float) (f : Array (Array C)) : Array (Array C) :=
  fixedTableG (if inv then eI else eF) Cx.ofReal Float.sqrt m n M N dx z lam dxo shx shy f

/-- one point straight from `Model.C03.fixedSampling` (no memoisation) -/
def fixedPoint (inv : Bool) (m n M N : Nat) (dx z lam dxo shx shy : Float) (f : Array (Array C)) (k l : Nat) : C :=
  fixedSampling (if inv then eI else eF) Cx.ofReal Float.sqrt m n M N dx z lam dxo shx shy (fun j i => getC f j i) k l

/-- executor level: `dft2 / idft2 / czt2 / iczt2 (ary, Q=(Qy,Qx), samples_out=(M,N), shift=(sx,sy))` -/
def execTable (inv : Bool) (m n M N : Nat) (Qy Qx sx sy : Float) (f : Array (Array C)) : Array (Array C) :=
  let αy : Float := 1.0 / (m.toFloat * Qy)
  let αx : Float := 1.0 / (n.toFloat * Qx)
  table2 (if inv then eI else eF) m n M N αy αx sy sx (Cx.ofReal (Float.sqrt αy * Float.sqrt αx)) f

/-- model of `to_fpm_and_back` as a table -/
def fpmTable (m n My Mx : Nat) (dx efl lam fdx shx shy : Float) (mask f : Array (Array C)) : Array (Array C) :=
  fpmTableG eF Cx.ofReal Float.sqrt m n My Mx dx efl lam fdx shx shy mask f

/-- one point straight from `Model.C05.toFpmAndBack` -/
def fpmPoint (m n My Mx : Nat) (dx efl lam fdx shx shy : Float) (mask f : Array (Array C)) (j i : Nat) : C :=
  toFpmAndBack eF Cx.ofReal Float.sqrt m n My Mx dx efl lam fdx shx shy (fun k l => getC mask k l) (fun a b => getC f a b) j i

/-- model of `Wavefront.babinet` as a table (`Lemmas/C03Exec.lean: babTableG_eq` proves it is `Model.C05.babinet`) -/
def babTable (m n My Mx : Nat) (dx efl lam fdx : Float) (lyot mask f : Array (Array C)) : Array (Array C) :=
  babTableG eF Cx.ofReal Float.sqrt m n My Mx dx efl lam fdx lyot mask f

/-- one point straight from `Model.C05.babinet` -/
def babPoint (m n My Mx : Nat) (dx efl lam fdx : Float) (lyot mask f : Array (Array C)) (j i : Nat) : C :=
  Model.C05.babinet eF Cx.ofReal Float.sqrt m n My Mx dx efl lam fdx (fun a b => getC lyot a b) (fun k l => getC mask k l)
    (fun a b => getC f a b) j i

end Model.C03.Exec
