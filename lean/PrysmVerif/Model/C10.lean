import PrysmVerif.Num
import PrysmVerif.Wire
/-!
# C10 — fast modal sums (Clenshaw, change of basis, per-m accumulation, packing, tensordot, lstsq)

Hand-written executable model, core Lean only.  Everything is generic in the scalar type through
`Num K` (runs on `Float` and on `Rat`; reasoned about over a field in `Lemmas/C10*.lean`).

Conventions.  A *three-term family* `F : Fam K` is

    p_0 = F.p0                      p_{-1} = 0
    p_{n+1} = (F.a n * x + F.b n) * p_n - F.c n * p_{n-1} + F.e n

* Jacobi `P_n^{(α,β)}`     : `a,b,c n = recurrence_abc(n, α, β)`, `e = 0`, `p0 = 1`
* Qbfs auxiliary `P_n`     : `a = -4, b = 2, c = 1`, `e 0 = 2` (because `P_1 = 6 - 8x`), `p0 = 2`
* 2D-Q auxiliary `P_n^m`   : `a n = B, b n = A, c n = C` of `abc_q2d_clenshaw(n, m)`, `p0 = 1/2`, and for
                             `m = 1` the constant `e 2 = -2/5` (Forbes B.7: `P_3` is not on the recurrence)

prysm's Clenshaw sweeps are `α_n = s_n + (a_n x + b_n) α_{n+1} - c_{n+1} α_{n+2}` in all three places.
-/
namespace Model.C10
variable {K : Type} [Num K]
open Num

/-- first element or `0` (an `α` beyond the top of the table is zero) -/
def hd (l : List K) : K := l.headD (ofInt 0)
/-- `l[i]` or `0` -/
def nth (l : List K) (i : Nat) : K := l.getD i (ofInt 0)

structure Fam (K : Type) where
  a : Nat → K
  b : Nat → K
  c : Nat → K
  e : Nat → K
  p0 : K

/-- `(p_n, p_{n+1})` -/
def Fam.pair (F : Fam K) (x : K) : Nat → K × K
  | 0 => (F.p0, (F.a 0 * x + F.b 0) * F.p0 + F.e 0)
  | n+1 =>
    let r := F.pair x n
    (r.2, (F.a (n+1) * x + F.b (n+1)) * r.2 - F.c (n+1) * r.1 + F.e (n+1))

/-- `p_n(x)` -/
def Fam.p (F : Fam K) (x : K) (n : Nat) : K := (F.pair x n).1

/-- explicit sum `Σ_i l[i] * q (k+i)` of a coefficient list against any sequence `q` -/
def wsum (q : Nat → K) : Nat → List K → K
  | _, [] => ofInt 0
  | k, s :: rest => s * q k + wsum q (k+1) rest

/-- Clenshaw's downward sweep over the coefficient suffix that starts at order `k`:
returns `[α_k, α_{k+1}, …]` (same length as the suffix) -/
def alphas (F : Fam K) (x : K) : Nat → List K → List K
  | _, [] => []
  | k, s :: rest =>
    let r := alphas F x (k+1) rest
    (s + (F.a k * x + F.b k) * hd r - F.c (k+1) * hd r.tail) :: r

/-- `Σ_i F.e (k+i) * t[i]` -/
def esum (F : Fam K) : Nat → List K → K
  | _, [] => ofInt 0
  | k, t :: rest => F.e k * t + esum F (k+1) rest

/-- the value a Clenshaw sweep stands for: `α_0 p_0 + Σ_n e_n α_{n+1}` -/
def clenshawVal (F : Fam K) (al : List K) : K :=
  match al with
  | [] => ofInt 0
  | a0 :: tl => a0 * F.p0 + esum F 0 tl

/-! ## Jacobi -/

/-- `recurrence_abc(n, α, β)` of `prysm/polynomials/jacobi.py` (both branches) -/
def jacABC [BEq K] (n : Nat) (al be : K) : K × K × K :=
  let N : K := ofInt n
  let s := al + be
  if n == 0 && (s == ofInt 0 || s == ofInt (-1)) then
    (ofFrac 1 2 * (al + be) + ofInt 1, ofFrac 1 2 * (al - be), ofInt 1)
  else
    let A := ((ofInt 2 * N + al + be + ofInt 1) * (ofInt 2 * N + al + be + ofInt 2)) /
             (ofInt 2 * (N + ofInt 1) * (N + al + be + ofInt 1))
    let B := ((npow al 2 - npow be 2) * (ofInt 2 * N + al + be + ofInt 1)) /
             (ofInt 2 * (N + ofInt 1) * (N + al + be + ofInt 1) * (ofInt 2 * N + al + be))
    let C := ((N + al) * (N + be) * (ofInt 2 * N + al + be + ofInt 2)) /
             ((N + ofInt 1) * (N + al + be + ofInt 1) * (ofInt 2 * N + al + be))
    (A, B, C)

def jacFam [BEq K] (al be : K) : Fam K where
  a n := (jacABC n al be).1
  b n := (jacABC n al be).2.1
  c n := (jacABC n al be).2.2
  e _ := ofInt 0
  p0 := ofInt 1

/-- `jacobi(n, α, β, x)` exactly as the source computes it (explicit `P_0`, `P_1`, recurrence from 2) -/
def jacobiPair [BEq K] (al be x : K) : Nat → K × K
  | 0 => (ofInt 1, al + ofInt 1 + (al + be + ofInt 2) * ((x - ofInt 1) / ofInt 2))
  | n+1 =>
    let r := jacobiPair al be x n
    let t := jacABC (n+1) al be
    (r.2, (t.1 * x + t.2.1) * r.2 - t.2.2 * r.1)

def jacobi [BEq K] (n : Nat) (al be x : K) : K := (jacobiPair al be x n).1

/-- `jacobi_sum_clenshaw(s, α, β, x)` : `alphas[0]` (zero for an empty `s`) -/
def jacobiSumClenshaw [BEq K] (s : List K) (al be x : K) : K := hd (alphas (jacFam al be) x 0 s)

/-- the explicit sum `Σ s_n P_n^{(α,β)}(x)` with the value routine's polynomials -/
def jacobiSumExplicit [BEq K] (s : List K) (al be x : K) : K := wsum (fun n => jacobi n al be x) 0 s

/-! ## Qbfs -/

/-- auxiliary polynomials of Qbfs: `P_0 = 2`, `P_1 = 6 - 8x`, `P_{n+1} = (2 - 4x) P_n - P_{n-1}` -/
def qbfsFam : Fam K where
  a _ := ofInt (-4)
  b _ := ofInt 2
  c _ := ofInt 1
  e n := if n == 0 then ofInt 2 else ofInt 0
  p0 := ofInt 2

/-- back substitution of `change_basis_Qbfs_to_Pn` on the suffix starting at order `k`:
`b_k = (c_k - g_k b_{k+1} - h_k b_{k+2}) / f_k` -/
def cobQbfs (f g h : Nat → K) : Nat → List K → List K
  | _, [] => []
  | k, c :: rest =>
    let r := cobQbfs f g h (k+1) rest
    ((c - g k * hd r - h k * hd r.tail) / f k) :: r

/-- `Q_n` of the value routine `Qbfs`: `(Q_n, Q_{n+1})` with
`Q_n = (P_n - g_{n-1} Q_{n-1} - h_{n-2} Q_{n-2}) / f_n`  (any auxiliary sequence `P`) -/
def qbfsQPair (f g h : Nat → K) (P : Nat → K) : Nat → K × K
  | 0 => (P 0 / f 0, (P 1 - g 0 * (P 0 / f 0)) / f 1)
  | n+1 =>
    let r := qbfsQPair f g h P n
    (r.2, (P (n+2) - g (n+1) * r.2 - h n * r.1) / f (n+2))

def qbfsQ (f g h : Nat → K) (P : Nat → K) (n : Nat) : K := (qbfsQPair f g h P n).1

/-- `clenshaw_qbfs(cs, usq)` : `usq (1-usq) * 2 (α_0 + α_1)` over the changed basis -/
def clenshawQbfs (f g h : Nat → K) (cs : List K) (x : K) : K :=
  let al := alphas qbfsFam x 0 (cobQbfs f g h 0 cs)
  (x * (ofInt 1 - x)) * (ofInt 2 * (nth al 0 + nth al 1))

/-- `Σ c_n · usq(1-usq) Q_n(usq)` with `Q_n` from the value routine's recurrence -/
def qbfsSumExplicit (f g h : Nat → K) (cs : List K) (x : K) : K :=
  (x * (ofInt 1 - x)) * wsum (qbfsQ f g h (qbfsFam.p x)) 0 cs

/-! ## 2D-Q -/

/-- `abc_q2d(n, m)` -/
def abcQ2d (n m : Int) : K × K × K :=
  let D : K := ofInt ((4 * n ^ 2 - 1) * (m + n - 2) * (m + 2 * n - 3))
  let A : K := ofInt ((2 * n - 1) * (m + 2 * n - 2) * (4 * n * (m + n - 2) + (m - 3) * (2 * m - 1))) / D
  let B : K := ofInt (-2 * (2 * n - 1) * (m + 2 * n - 3) * (m + 2 * n - 2) * (m + 2 * n - 1)) / D
  let C : K := ofInt (n * (2 * n - 3) * (m + 2 * n - 1) * (2 * m + 2 * n - 3)) / D
  (A, B, C)

/-- `abc_q2d_clenshaw(n, m)` : five patched entries, `abc_q2d` elsewhere -/
def abcQ2dClenshaw (n m : Int) : K × K × K :=
  if m == 1 && n == 0 then (ofInt 2, ofInt (-1), ofInt 0)
  else if m == 1 && n == 1 then (ofFrac (-4) 3, ofFrac (-8) 3, ofFrac (-11) 3)
  else if m == 1 && n == 2 then (ofFrac 9 5, ofFrac (-24) 5, ofInt 0)
  else if m == 2 && n == 0 then (ofInt 3, ofInt (-2), ofInt 0)
  else if m == 3 && n == 0 then (ofInt 5, ofInt (-4), ofInt 0)
  else abcQ2d n m

/-- the five patched entries of `abc_q2d_clenshaw` as a table `(n, m) ↦ (A, B, C)` of fractions -/
def q2dPatchTable : List ((Int × Int) × ((Int × Nat) × (Int × Nat) × (Int × Nat))) :=
  [((0, 1), ((2, 1), (-1, 1), (0, 1))), ((1, 1), ((-4, 3), (-8, 3), (-11, 3))),
   ((2, 1), ((9, 5), (-24, 5), (0, 1))), ((0, 2), ((3, 1), (-2, 1), (0, 1))), ((0, 3), ((5, 1), (-4, 1), (0, 1)))]

/-- first entry of a patch table listed under `(n, m)` -/
def lookupNM {α : Type} : List ((Int × Int) × α) → Int → Int → Option α
  | [], _, _ => none
  | ((a, b), v) :: t, n, m => if n = a ∧ m = b then some v else lookupNM t n m

/-- `abc_q2d_clenshaw` read from a patch table: the listed entry if `(n, m)` is listed, `abc_q2d` otherwise -/
def abcOfTable (tbl : List ((Int × Int) × ((Int × Nat) × (Int × Nat) × (Int × Nat)))) (n m : Int) : K × K × K :=
  match lookupNM tbl n m with
  | some t => (ofFrac t.1.1 t.1.2, ofFrac t.2.1.1 t.2.1.2, ofFrac t.2.2.1 t.2.2.2)
  | none => abcQ2d n m

/-- auxiliary family of the 2D-Q polynomials of azimuthal order `m ≥ 1` (`A + B x` in Forbes' order) -/
def q2dFam (m : Nat) : Fam K where
  a n := (abcQ2dClenshaw (K := K) n m).2.1
  b n := (abcQ2dClenshaw (K := K) n m).1
  c n := (abcQ2dClenshaw (K := K) n m).2.2
  e n := if m == 1 && n == 2 then ofFrac (-2) 5 else ofInt 0
  p0 := ofFrac 1 2

/-- the auxiliary polynomials as the value routine `Q2d` builds them: explicit `P_0..P_1`
(`P_0..P_3` for `m = 1`), then `P_n = (A + B x) P_{n-1} - C P_{n-2}` with `abc_q2d(n-1, m)` -/
def q2dPPair (m : Nat) (x : K) : Nat → K × K
  | 0 => (ofFrac 1 2,
          if m == 1 then ofInt 1 - x / ofInt 2
          else (ofInt m - ofFrac 1 2) + (ofInt 1 - ofInt m) * x)
  | n+1 =>
    let r := q2dPPair m x n
    let nxt :=
      if m == 1 && n == 0 then (ofInt 3 - x * (ofInt 12 - ofInt 8 * x)) / ofInt 6
      else if m == 1 && n == 1 then (ofInt 5 - x * (ofInt 60 - x * (ofInt 120 - ofInt 64 * x))) / ofInt 10
      else
        let t := abcQ2d (K := K) (n+1) m
        (t.1 + t.2.1 * x) * r.2 - t.2.2 * r.1
    (r.2, nxt)

def q2dP (m : Nat) (x : K) (n : Nat) : K := (q2dPPair m x n).1

/-- back substitution of `change_of_basis_Q2d_to_Pnm`: `d_k = (c_k - g_k d_{k+1}) / f_k` -/
def cobQ2d (f g : Nat → K) : Nat → List K → List K
  | _, [] => []
  | k, c :: rest =>
    let r := cobQ2d f g (k+1) rest
    ((c - g k * hd r) / f k) :: r

/-- `Q_n^m` radial part of the value routine: `Q_0 = P_0 / f_0`, `Q_n = (P_n - g_{n-1} Q_{n-1}) / f_n` -/
def q2dQ (f g : Nat → K) (P : Nat → K) : Nat → K
  | 0 => P 0 / f 0
  | n+1 => (P (n+1) - g n * q2dQ f g P n) / f (n+1)

/-- `clenshaw_q2d(cns, m, usq)` : the `alphas` array over the changed basis -/
def clenshawQ2d (f g : Nat → K) (m : Nat) (cs : List K) (x : K) : List K :=
  alphas (q2dFam m) x 0 (cobQ2d f g 0 cs)

/-- what `compute_z_zprime_Q2d` reads off the `alphas` of one coefficient list of length `N+1`:
`0.5 α_0`, minus `2/5 α_3` if `m = 1` and `N > 2`; `0` for an empty list -/
def q2dRead (m : Nat) (al : List K) : K :=
  if al.length == 0 then ofInt 0
  else if m == 1 && al.length > 3 then ofFrac 1 2 * nth al 0 - ofFrac 2 5 * nth al 3
  else ofFrac 1 2 * nth al 0

/-- radial sum of one azimuthal order: `Σ_n c_n Q_n^m(x)` by Clenshaw -/
def q2dRadial (f g : Nat → K) (m : Nat) (cs : List K) (x : K) : K := q2dRead m (clenshawQ2d f g m cs x)

def q2dRadialExplicit (f g : Nat → K) (m : Nat) (cs : List K) (x : K) : K :=
  wsum (q2dQ f g (q2dP m x)) 0 cs

/-- sag of `compute_z_zprime_Q2d`: Qbfs part plus, for every azimuthal order `m = 1, 2, …` present in
either list, `u^m (cos(mt) Σ a^m_n Q^m_n + sin(mt) Σ b^m_n Q^m_n)`; an absent or empty list counts as zero.
`fq gq m` are the `f_q2d(·, m)`, `g_q2d(·, m)` sequences, `cosm m = cos(m t)`, `sinm m = sin(m t)`. -/
def q2dSagFrom (fq gq : Nat → Nat → K) (cosm sinm : Nat → K) (u : K) : Nat → List (List K) → List (List K) → K
  | _, [], [] => ofInt 0
  | m, a :: as, [] =>
      npow u m * (cosm m * q2dRadial (fq m) (gq m) m a (u * u)) + q2dSagFrom fq gq cosm sinm u (m+1) as []
  | m, [], b :: bs =>
      npow u m * (sinm m * q2dRadial (fq m) (gq m) m b (u * u)) + q2dSagFrom fq gq cosm sinm u (m+1) [] bs
  | m, a :: as, b :: bs =>
      npow u m * (cosm m * q2dRadial (fq m) (gq m) m a (u * u) + sinm m * q2dRadial (fq m) (gq m) m b (u * u))
        + q2dSagFrom fq gq cosm sinm u (m+1) as bs

def q2dSag (f g h : Nat → K) (fq gq : Nat → Nat → K) (cosm sinm : Nat → K)
    (cm0 : List K) (ams bms : List (List K)) (u : K) : K :=
  (if cm0.length == 0 then ofInt 0 else clenshawQbfs f g h cm0 (u * u)) + q2dSagFrom fq gq cosm sinm u 1 ams bms

/-- the explicit double sum `Σ_{(n,m)} c_{nm} Q_n^m(u, t)` -/
def q2dSagExplicitFrom (fq gq : Nat → Nat → K) (cosm sinm : Nat → K) (u : K) : Nat → List (List K) → List (List K) → K
  | _, [], [] => ofInt 0
  | m, a :: as, [] =>
      npow u m * cosm m * q2dRadialExplicit (fq m) (gq m) m a (u * u) + q2dSagExplicitFrom fq gq cosm sinm u (m+1) as []
  | m, [], b :: bs =>
      npow u m * sinm m * q2dRadialExplicit (fq m) (gq m) m b (u * u) + q2dSagExplicitFrom fq gq cosm sinm u (m+1) [] bs
  | m, a :: as, b :: bs =>
      npow u m * cosm m * q2dRadialExplicit (fq m) (gq m) m a (u * u)
        + npow u m * sinm m * q2dRadialExplicit (fq m) (gq m) m b (u * u)
        + q2dSagExplicitFrom fq gq cosm sinm u (m+1) as bs

def q2dSagExplicit (f g h : Nat → K) (fq gq : Nat → Nat → K) (cosm sinm : Nat → K)
    (cm0 : List K) (ams bms : List (List K)) (u : K) : K :=
  qbfsSumExplicit f g h cm0 (u * u) + q2dSagExplicitFrom fq gq cosm sinm u 1 ams bms

/-! ## `Q2d_nm_c_to_a_b` : densification per azimuthal order -/

/-- coefficient of mode `(n, m)` in a sparse list: the LAST entry for that pair wins, `0` if absent -/
def coefOf (inp : List ((Nat × Int) × K)) (n : Nat) (m : Int) : K :=
  match inp with
  | [] => ofInt 0
  | ((n', m'), c) :: rest =>
    if (rest.any fun e => e.1.1 == n && e.1.2 == m) then coefOf rest n m
    else if n' == n && m' == m then c else coefOf rest n m

/-- number of radial orders to allocate for azimuthal order `m`: `1 + max n` over its entries, `0` if none -/
def radLen (inp : List ((Nat × Int) × K)) (m : Int) : Nat :=
  inp.foldl (fun acc e => if e.1.2 == m then max acc (e.1.1 + 1) else acc) 0

/-- largest `|m|` over the entries with `m ≠ 0` (`0` if none) -/
def maxAbsM (inp : List ((Nat × Int) × K)) : Nat :=
  inp.foldl (fun acc e => max acc e.1.2.natAbs) 0

def dense (inp : List ((Nat × Int) × K)) (m : Int) : List K :=
  (List.range (radLen inp m)).map fun n => coefOf inp n m

/-- `(cms, ac_ret, bc_ret)` -/
def pack (inp : List ((Nat × Int) × K)) : List K × List (List K) × List (List K) :=
  (dense inp 0,
   (List.range (maxAbsM inp)).map (fun (i : Nat) => dense inp ((i : Int) + 1)),
   (List.range (maxAbsM inp)).map (fun (i : Nat) => dense inp (-((i : Int) + 1))))

/-- read mode `(n, m)` back out of the packed structure -/
def unpack (p : List K × List (List K) × List (List K)) (n : Nat) (m : Int) : K :=
  if m == 0 then nth p.1 n
  else if m > 0 then nth (p.2.1.getD (m.natAbs - 1) []) n
  else nth (p.2.2.getD (m.natAbs - 1) []) n

/-! ## `sum_of_2d_modes` : tensordot over the mode axis (arrays flattened) -/

def vadd : List K → List K → List K
  | a :: as, b :: bs => (a + b) :: vadd as bs
  | _, _ => []

def vscale (w : K) (v : List K) : List K := v.map fun a => a * w

/-- index definition of `np.tensordot(modes, weights, axes=(0,0))`: `out[i] = Σ_k modes[k][i] * w[k]` -/
def tensordot (modes : List (List K)) (w : List K) (size : Nat) : List K :=
  (List.range size).map fun i => wsum (fun k => nth w k) 0 (modes.map fun mo => nth mo i)

/-- the explicit loop `acc = 0; for k: acc += w[k] * modes[k]` -/
def sumLoop (size : Nat) : List (List K) → List K → List K
  | mo :: ms, wk :: ws => vadd (vscale wk mo) (sumLoop size ms ws)
  | _, _ => List.replicate size (ofInt 0)

/-! ## `lstsq` : masked least squares through the normal equations (exact on `Rat`) -/

def dot : List K → List K → K
  | a :: as, b :: bs => a * b + dot as bs
  | _, _ => ofInt 0

/-- keep the entries whose mask bit is set (`data[mask]`, `modes[:, mask.ravel()]`) -/
def maskSel {α : Type} : List Bool → List α → List α
  | true :: ms, a :: as => a :: maskSel ms as
  | false :: ms, _ :: as => maskSel ms as
  | _, _ => []

/-- one Gauss–Jordan step on an augmented system: pick the first row with a non-zero entry in column `j`,
normalise it, eliminate the column everywhere else; `none` if the column is zero (rank deficient) -/
def gjStep [BEq K] (j : Nat) (done todo : List (List K)) : Option (List (List K) × List (List K)) :=
  match todo.partition (fun r => !(nth r j == ofInt 0)) with
  | ([], _) => none
  | (piv :: others, zeros) =>
    let pj := nth piv j
    let pr := piv.map (· / pj)
    let elim := fun (r : List K) =>
      let f := nth r j
      (r.zip pr).map fun (a, b) => a - f * b
    some (done.map elim ++ [pr], (others ++ zeros).map elim)

def gjSolve [BEq K] (k : Nat) (rows : List (List K)) : Option (List K) :=
  let rec go (fuel j : Nat) (done todo : List (List K)) : Option (List K) :=
    match fuel with
    | 0 => some (done.map fun r => nth r k)
    | fuel+1 =>
      match gjStep j done todo with
      | none => none
      | some (d, t) => go fuel (j+1) d t
  go k 0 [] rows

/-- `lstsq(modes, data)` : `mask` marks the finite samples; solves `(AᵀA) c = Aᵀ d` on the kept samples;
`none` when the kept design matrix is rank deficient -/
def lstsqNormal [BEq K] (modes : List (List K)) (data : List K) (mask : List Bool) : Option (List K) :=
  let cols := modes.map (maskSel mask)
  let d := maskSel mask data
  let rows := cols.map fun ci => cols.map (fun cj => dot ci cj) ++ [dot ci d]
  gjSolve cols.length rows

/-- left-hand sides `Σ_i M_k[i] (Σ_j w_j M_j[i] - d[i])` of the normal equations on the kept samples: all zero iff `w` solves them -/
def normalResidual (modes : List (List K)) (data : List K) (mask : List Bool) (w : List K) : List K :=
  let cols := modes.map (maskSel mask)
  let d := maskSel mask data
  let fit := (List.range d.length).map fun i => wsum (fun k => nth w k) 0 (cols.map fun c => nth c i)
  let res := (fit.zip d).map fun (a, b) => a - b
  cols.map fun c => dot c res

/-! ## token reader shared by the C09 / C10 drivers -/
namespace Rd

/-- how a scalar type travels over the wire -/
structure Sc (K : Type) where
  parse : String → Option K
  fmt : K → String

def scFloat : Sc Float := ⟨Wire.parseFloatBits?, Wire.fmtFloat⟩
def scRat : Sc Rat := ⟨Wire.parseRat?, Wire.fmtRat⟩

abbrev M := StateT (List String) Option

def tok : M String := fun s => match s with
  | [] => none
  | t :: rest => some (t, rest)

def nat : M Nat := do let t ← tok; (t.toNat? : Option Nat)
def int : M Int := do let t ← tok; (t.toInt? : Option Int)
def num {K : Type} (sc : Sc K) : M K := do let t ← tok; (sc.parse t : Option K)

def rep {α : Type} (p : M α) : Nat → M (List α)
  | 0 => pure []
  | n+1 => do let a ← p; let r ← rep p n; pure (a :: r)

/-- `n v_1 … v_n` -/
def nums {K : Type} (sc : Sc K) : M (List K) := do let n ← nat; rep (num sc) n

def done : M Unit := fun s => match s with
  | [] => some ((), [])
  | _ => none

def run {α : Type} (p : M α) (toks : List String) : Option α := (p toks).map (·.1)

def out {K : Type} (sc : Sc K) (l : List K) : String := " ".intercalate (l.map sc.fmt)

end Rd

end Model.C10
