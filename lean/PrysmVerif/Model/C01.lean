import PrysmVerif.Num
/-!
# C01 — hand-written executable model of the three Fourier routes and of the executor caches
(core Lean only)

Two scalar types: `R` (coordinates, `Q`, shifts, `alpha`; `Float` in the driver) and `K` (field values;
`Cx Float` in the driver).  The transcendental operations are PARAMETERS:

* `e : R → K`   the Fourier kernel, read as `e t = exp(-2πi t)` (forward transforms) or `exp(+2πi t)`
                (inverse transforms).  Only `e (a+b) = e a * e b`, `e 0 = 1`, `e k = 1` (k ∈ ℤ) and, for the
                FFT-based convolution, root-of-unity orthogonality are used by the theorems.
* `nrm : R → K` the energy normalisation, read as `nrm a = sqrt a`.

Arrays are `Array K`, written by `tab` and read by `rd` (out-of-range reads give 0 and are never relied
upon).  Sums are `Num.sumTo`.
-/
namespace Model.C01

variable {R K : Type} [Num R] [Num K]

/-! ## arrays -/

def tab (n : Nat) (f : Nat → K) : Array K := Array.ofFn (n := n) (fun i => f i.val)
def rd (a : Array K) (i : Nat) : K := a.getD i (Num.ofInt 0)
def tab2 (m n : Nat) (f : Nat → Nat → K) : Array (Array K) := Array.ofFn (n := m) (fun j => tab n (f j.val))
def rd2 (a : Array (Array K)) (j i : Nat) : K := rd (a.getD j #[]) i

/-! ## grids: `fftrange(n)[j] = j - n//2`, minus the shift -/

/-- origin index `n // 2` -/
def cen (n : Nat) : Int := (n : Int) / 2

/-- `fftrange(n)[j]` as a scalar -/
def xc (n j : Nat) : R := Num.ofInt ((j : Int) - cen n)

/-- `alpha = 1 / (n * Q)` -/
def alphaOf (n : Nat) (Q : R) : R := Num.ofInt 1 / (Num.ofInt (n : Int) * Q)

/-! ## the textbook sum on the grid that `Q` (through `α = 1/(nQ)`), `M` and the shift `s` define -/

/-- `spec1[k] = √α · Σ_{j<n} g[j] · e(α · (j - n//2) · (k - M//2 - s))` -/
def spec1 (e : R → K) (nrm : R → K) (n M : Nat) (α s : R) (g : Nat → K) (k : Nat) : K :=
  nrm α * Num.sumTo n (fun j => g j * e (α * (xc n j * (xc M k - s))))

/-- separable 2-D sum: axis 0 (rows, "y") uses `(m, M, αy, sy)`, axis 1 (columns, "x") `(n, N, αx, sx)` -/
def spec2 (e : R → K) (nrm : R → K) (m n M N : Nat) (αy αx sy sx : R) (f : Nat → Nat → K) (k l : Nat) : K :=
  spec1 e nrm m M αy sy (fun j => spec1 e nrm n N αx sx (f j) l) k

/-! ## matrix DFT: the triple product `Eout @ f @ Ein` with the bases as `_setup_bases` builds them -/

/-- which component of the 2-tuples `shape`, `samples_out`, `shift` feeds the basis of an axis -/
structure AxisWiring where
  lenIn : Nat
  lenOut : Nat
  shift : Nat
deriving DecidableEq, Repr

def sel {α : Type} (i : Nat) (p : α × α) : α := if i = 0 then p.1 else p.2

/-- the wiring of the repaired source: rows use `shape[0], samples[0], shift[1]`; columns `shape[1], samples[1], shift[0]` -/
def wiringAxis0 : AxisWiring := { lenIn := 0, lenOut := 0, shift := 1 }
def wiringAxis1 : AxisWiring := { lenIn := 1, lenOut := 1, shift := 0 }

/-- one element of a basis matrix: the shift is subtracted from the input AND the output coordinate vector -/
def basisEl (e : R → K) (n M : Nat) (α s : R) (k j : Nat) : K :=
  e (α * ((xc n j - s) * (xc M k - s)))

/-- 1-D matrix DFT (one factor of the triple product, with its share of the normalisation) -/
def mdft1 (e : R → K) (nrm : R → K) (n M : Nat) (α s : R) (g : Nat → K) (k : Nat) : K :=
  nrm α * Num.sumTo n (fun j => g j * basisEl e n M α s k j)

/-- `MatrixDFTExecutor.dft2 / idft2`: `out[k,l] = Σ_j Σ_i Eout[k,j] f[j,i] Ein[i,l]`.
`sc0`/`sc1`: the scalars multiplying `outer(Y,V)` / `outer(X,U)` in the exponents; `a0`/`a1`: `alphay`/`alphax`
of the normalisation; `Eout` carries `normx = √alphax`, `Ein` carries `normy = √alphay` (as in the source). -/
def mdft2 (e : R → K) (nrm : R → K) (w0 w1 : AxisWiring) (shp samples : Nat × Nat) (sc0 sc1 a0 a1 : R)
    (shift : R × R) (f : Nat → Nat → K) (k l : Nat) : K :=
  let m := sel w0.lenIn shp
  let M := sel w0.lenOut samples
  let sy := sel w0.shift shift
  let n := sel w1.lenIn shp
  let N := sel w1.lenOut samples
  let sx := sel w1.shift shift
  Num.sumTo shp.1 (fun j => Num.sumTo shp.2 (fun i =>
    (basisEl e m M sc0 sy k j * nrm a1) * f j i * (basisEl e n N sc1 sx l i * nrm a0)))

/-! ## chirp-Z (Bluestein) -/

/-- `exp(-iπ α x²) = e(α x² / 2)` -/
def chirp (e : R → K) (α x : R) : K := e ((α * (x * x)) / Num.ofInt 2)

/-- `exp(+iπ α j²) = e(-(α j²)/2)` -/
def hval (e : R → K) (α : R) (j : Int) : K := e (-((α * (Num.ofInt j * Num.ofInt j)) / Num.ofInt 2))

/-- `start` of `_prepare_czt_basis`: minus the lag between the two origins -/
def cztStart (n M : Nat) : Int := -(cen n - cen M)

/-- the index glue of `_prepare_czt_basis` (each field is regenerated from the source by the translator) -/
structure CztGlue where
  start : Int          -- `start`
  j1Lo : Int           -- first `arange` lower bound
  h1Lo : Int           -- `h[h1Lo:h1Hi] = π j²`
  h1Hi : Int
  j2Lo : Int           -- second `arange` lower bound
  h2Lo : Int           -- `h[h2Lo:h2Hi] = π j²`
  h2Hi : Int
  zLo : Int            -- `h[zLo:zHi] = 0` after the exponential
  zHi : Int
deriving DecidableEq, Repr

/-- the glue of the repaired source, input length `n`, output length `M`, FFT length `L` -/
def cztGlue (n M L : Nat) : CztGlue :=
  let st := cztStart n M
  { start := st, j1Lo := -st, h1Lo := 0, h1Hi := M, j2Lo := -st - n + 1, h2Lo := (L : Int) - n + 1, h2Hi := L,
    zLo := M, zHi := (L : Int) - n + 1 }

/-- the kernel vector `h` (before its FFT), element `t`, following the order of the writes in the source:
zeros; first segment; second segment (overwrites); exponential; zero gap (overwrites). -/
def cztH (e : R → K) (gl : CztGlue) (α : R) (t : Nat) : K :=
  let ti : Int := t
  if gl.zLo ≤ ti ∧ ti < gl.zHi then Num.ofInt 0
  else if gl.h2Lo ≤ ti ∧ ti < gl.h2Hi then hval e α (gl.j2Lo + (ti - gl.h2Lo))
  else if gl.h1Lo ≤ ti ∧ ti < gl.h1Hi then hval e α (gl.j1Lo + (ti - gl.h1Lo))
  else hval e α 0

/-- post-chirp `a[k]`, pre-chirp `b[j]` (with `norm=True`: `b *= √α`) -/
def cztA (e : R → K) (M : Nat) (α s : R) (k : Nat) : K := chirp e α (xc M k - s)
def cztB (e : R → K) (nrm : R → K) (n : Nat) (α s : R) (j : Nat) : K := chirp e α (xc n j - s) * nrm α

/-- unnormalised DFT of length `L` (contract of `scipy.fft.fft`): `X[q] = Σ_t x[t] e(t q / L)` -/
def dftL (e : R → K) (L : Nat) (x : Nat → K) (q : Nat) : K :=
  Num.sumTo L (fun t => x t * e ((Num.ofInt (t : Int) * Num.ofInt (q : Int)) / Num.ofInt (L : Int)))

/-- inverse DFT of length `L` (contract of `scipy.fft.ifft`): `x[t] = (1/L) Σ_q X[q] e(-(t q / L))` -/
def idftL (e : R → K) (L : Nat) (X : Nat → K) (t : Nat) : K :=
  (Num.ofInt 1 / Num.ofInt (L : Int)) *
    Num.sumTo L (fun q => X q * e (-((Num.ofInt (t : Int) * Num.ofInt (q : Int)) / Num.ofInt (L : Int))))

/-- circular convolution of length `L`: `(x ⊛ y)[k] = Σ_t x[t] y[(k - t) mod L]` -/
def circConv (L : Nat) (x y : Nat → K) (k : Nat) : K :=
  Num.sumTo L (fun t => x t * y ((((k : Int) - (t : Int)) % (L : Int)).toNat))

/-- 1-D chirp-Z transform, convolution written as a sum -/
def czt1Conv (e : R → K) (nrm : R → K) (gl : CztGlue) (n M L : Nat) (α s : R) (g : Nat → K) (k : Nat) : K :=
  circConv L (fun j => if j < n then g j * cztB e nrm n α s j else Num.ofInt 0) (cztH e gl α) k * cztA e M α s k

/-- 1-D chirp-Z transform as the source computes it: `ifft(fft(g·b, L) · fft(h))[:M] · a` -/
def czt1 (e : R → K) (nrm : R → K) (gl : CztGlue) (n M L : Nat) (α s : R) (g : Array K) : Array K :=
  let gb := tab L (fun j => if j < n then rd g j * cztB e nrm n α s j else Num.ofInt 0)
  let h := tab L (cztH e gl α)
  let GB := tab L (dftL e L (rd gb))
  let H := tab L (dftL e L (rd h))
  let GBH := tab L (fun q => rd GB q * rd H q)
  let x := tab L (idftL e L (rd GBH))
  tab M (fun k => rd x k * cztA e M α s k)

/-- `fft2(x, (K, L))`: iterated 1-D transforms, last axis first (what `scipy.fft.fft2` does) -/
def dft2KL (e : R → K) (K' L : Nat) (x : Array (Array K)) : Array (Array K) :=
  let rows := tab2 K' L (fun p q => dftL e L (rd2 x p) q)
  tab2 K' L (fun p q => dftL e K' (fun u => rd2 rows u q) p)

def idft2KL (e : R → K) (K' L : Nat) (X : Array (Array K)) : Array (Array K) :=
  let rows := tab2 K' L (fun p q => idftL e L (rd2 X p) q)
  tab2 K' L (fun p q => idftL e K' (fun u => rd2 rows u q) p)

/-- `ChirpZTransformExecutor.czt2` as the source computes it.  `w0`/`w1`: which tuple components feed the
row / column bases; `gl0`/`gl1`: index glue per axis; `KL`: FFT lengths; `α0`, `α1`: the chirp constants
handed to the row / column basis. -/
def czt2 (e : R → K) (nrm : R → K) (w0 w1 : AxisWiring) (gl0 gl1 : CztGlue) (shp samples KL : Nat × Nat)
    (α0 α1 : R) (shift : R × R) (f : Array (Array K)) : Array (Array K) :=
  let m := sel w0.lenIn shp
  let M := sel w0.lenOut samples
  let sy := sel w0.shift shift
  let n := sel w1.lenIn shp
  let N := sel w1.lenOut samples
  let sx := sel w1.shift shift
  let K' := KL.1
  let L := KL.2
  -- gb = ary * bcol * brow, zero-padded to (K, L) by fft2
  let gb := tab2 K' L (fun p q => if p < shp.1 ∧ q < shp.2
      then (rd2 f p q * cztB e nrm n α1 sx q) * cztB e nrm m α0 sy p else Num.ofInt 0)
  let Hrow := tab K' (dftL e K' (cztH e gl0 α0))
  let Hcol := tab L (dftL e L (cztH e gl1 α1))
  let GB := dft2KL e K' L gb
  let GBH := tab2 K' L (fun p q => (rd2 GB p q * rd Hcol q) * rd Hrow p)
  let x := idft2KL e K' L GBH
  tab2 samples.1 samples.2 (fun k l => (rd2 x k l * cztA e N α1 sx l) * cztA e M α0 sy k)

/-- element-wise map of a 2-D array -/
def mapArr2 (cj : K → K) (a : Array (Array K)) : Array (Array K) := a.map (fun r => r.map cj)

/-- `ChirpZTransformExecutor.iczt2`: `conj(czt2(conj(ary)))` (`cj` = complex conjugation) -/
def iczt2 (cj : K → K) (e : R → K) (nrm : R → K) (w0 w1 : AxisWiring) (gl0 gl1 : CztGlue) (shp samples KL : Nat × Nat)
    (α0 α1 : R) (shift : R × R) (f : Array (Array K)) : Array (Array K) :=
  mapArr2 cj (czt2 e nrm w0 w1 gl0 gl1 shp samples KL α0 α1 shift (mapArr2 cj f))

/-! ## FFT route: `fftshift(fft2(ifftshift(pad2d(x)), norm='ortho'))` -/

/-- constant-mode pad of a vector of length `n` into length `N'`, data starting at `off` -/
def padv (n : Nat) (off : Int) (x : Nat → K) (t : Nat) : K :=
  if off ≤ (t : Int) ∧ (t : Int) < off + n then x (((t : Int) - off).toNat) else Num.ofInt 0

/-- pad offset of the repaired `pad2d`: `N'//2 - n//2` -/
def padOffset (n N' : Nat) : Int := cen N' - cen n

/-- `ifftshift`: `y[t] = x[(t + N//2) mod N]` -/
def ifftshiftv (N' : Nat) (x : Nat → K) (t : Nat) : K := x ((t + N' / 2) % N')

/-- `fftshift`: `y[t] = x[(t - N//2) mod N]` -/
def fftshiftv (N' : Nat) (x : Nat → K) (t : Nat) : K := x ((t + (N' - N' / 2)) % N')

/-- 1-D FFT route with `norm='ortho'` -/
def fftRoute1 (e : R → K) (nrm : R → K) (n N' : Nat) (off : Int) (x : Array K) : Array K :=
  let xp := tab N' (padv n off (rd x))
  let y := tab N' (ifftshiftv N' (rd xp))
  let Y := tab N' (fun q => nrm (Num.ofInt 1 / Num.ofInt (N' : Int)) * dftL e N' (rd y) q)
  tab N' (fftshiftv N' (rd Y))

/-- 2-D FFT route (`propagation.focus` with `e = exp(-2πi·)`, `propagation.unfocus` with `e = exp(+2πi·)`) -/
def fftRoute2 (e : R → K) (nrm : R → K) (shp out : Nat × Nat) (off : Int × Int) (f : Array (Array K)) :
    Array (Array K) :=
  let xp := tab2 out.1 out.2 (fun u v => padv shp.1 off.1 (fun j => padv shp.2 off.2 (rd2 f j) v) u)
  let y := tab2 out.1 out.2 (fun u v => ifftshiftv out.1 (fun u' => ifftshiftv out.2 (rd2 xp u') v) u)
  let rows := tab2 out.1 out.2 (fun p q => nrm (Num.ofInt 1 / Num.ofInt (out.2 : Int)) * dftL e out.2 (rd2 y p) q)
  let Y := tab2 out.1 out.2 (fun p q => nrm (Num.ofInt 1 / Num.ofInt (out.1 : Int)) * dftL e out.1 (fun u => rd2 rows u q) p)
  tab2 out.1 out.2 (fun k l => fftshiftv out.1 (fun k' => fftshiftv out.2 (rd2 Y k') l) k)


/-! ## the same routes with the signs, stage order and flags of the source as PARAMETERS

The translator regenerates these parameters from the current source (`Generated.C01.cztSignsGen`, `cztStagesGen`,
`focusFlagsGen`, `unfocusFlagsGen`, `mdftFwdSign`, …); the property theorems are stated over the parameterised routes
applied to the generated values, and the driver runs the parameterised routes at the reference values below. -/

/-- kernel with an explicit sign: `exp(s·2πi t) = e(−s·t)` when `e t = exp(−2πi t)`; `s = −1` is the forward kernel -/
def kernS (s : Int) (e : R → K) (t : R) : K := e (Num.ofInt (-s) * t)

/-- signs found in `_prepare_czt_basis`: `m -= shift` ↦ `shiftOut = −1`, `n -= shift` ↦ `shiftIn = −1`;
`a = exp(sA·iπ·α·m²)`, `b = exp(sB·iπ·α·n²)`, `h = exp(sH·i·α·π j²)` -/
structure CztSigns where
  shiftOut : Int
  shiftIn : Int
  chirpA : Int
  chirpB : Int
  chirpH : Int
deriving DecidableEq, Repr

def cztSignsRef : CztSigns := { shiftOut := -1, shiftIn := -1, chirpA := -1, chirpB := -1, chirpH := 1 }

/-- `exp(sg·iπ α x²) = e(−sg·α x²/2)` -/
def chirpS (sg : Int) (e : R → K) (α x : R) : K := kernS sg e ((α * (x * x)) / Num.ofInt 2)

def cztAS (sg : CztSigns) (e : R → K) (M : Nat) (α s : R) (k : Nat) : K :=
  chirpS sg.chirpA e α (xc M k + Num.ofInt sg.shiftOut * s)

def cztBS (sg : CztSigns) (e : R → K) (nrm : R → K) (n : Nat) (α s : R) (j : Nat) : K :=
  chirpS sg.chirpB e α (xc n j + Num.ofInt sg.shiftIn * s) * nrm α

/-- the kernel vector with the sign of its exponent as a parameter (same order of writes as `cztH`) -/
def cztHS (sg : CztSigns) (e : R → K) (gl : CztGlue) (α : R) (t : Nat) : K :=
  let ti : Int := t
  let hv := fun (j : Int) => chirpS sg.chirpH e α (Num.ofInt j)
  if gl.zLo ≤ ti ∧ ti < gl.zHi then Num.ofInt 0
  else if gl.h2Lo ≤ ti ∧ ti < gl.h2Hi then hv (gl.j2Lo + (ti - gl.h2Lo))
  else if gl.h1Lo ≤ ti ∧ ti < gl.h1Hi then hv (gl.j1Lo + (ti - gl.h1Lo))
  else hv 0

/-- the statements of `czt2` after the components are unpacked, in source order -/
inductive CztStage where
  | mulB    -- `gb = ary * bcol; gb *= brow`
  | fft     -- `GBhat = fft.fft2(gb, (K, L))`
  | mulH    -- `GBhat *= Hcol; GBhat *= Hrow`
  | ifft    -- `gxformed = fft.ifft2(GBhat)`
  | crop    -- `gxformed = gxformed[:M, :N]`
  | mulA    -- `gxformed *= acol; gxformed *= arow`
deriving DecidableEq, Repr

def cztStagesRef : List CztStage := [.mulB, .fft, .mulH, .ifft, .crop, .mulA]

/-- `czt2` as an interpreter over the stage list -/
def czt2G (sg : CztSigns) (stages : List CztStage) (e : R → K) (nrm : R → K) (w0 w1 : AxisWiring) (gl0 gl1 : CztGlue)
    (shp samples KL : Nat × Nat) (α0 α1 : R) (shift : R × R) (f : Array (Array K)) : Array (Array K) :=
  let m := sel w0.lenIn shp
  let M := sel w0.lenOut samples
  let sy := sel w0.shift shift
  let n := sel w1.lenIn shp
  let N := sel w1.lenOut samples
  let sx := sel w1.shift shift
  let step := fun (x : Array (Array K)) (st : CztStage) =>
    match st with
    | .mulB => tab2 shp.1 shp.2 (fun p q => (rd2 x p q * cztBS sg e nrm n α1 sx q) * cztBS sg e nrm m α0 sy p)
    | .fft => dft2KL e KL.1 KL.2 x
    | .mulH => tab2 KL.1 KL.2 (fun p q => (rd2 x p q * dftL e KL.2 (cztHS sg e gl1 α1) q) * dftL e KL.1 (cztHS sg e gl0 α0) p)
    | .ifft => idft2KL e KL.1 KL.2 x
    | .crop => tab2 samples.1 samples.2 (rd2 x)
    | .mulA => tab2 samples.1 samples.2 (fun k l => (rd2 x k l * cztAS sg e N α1 sx l) * cztAS sg e M α0 sy k)
  stages.foldl step f

def iczt2G (cj : K → K) (sg : CztSigns) (stages : List CztStage) (e : R → K) (nrm : R → K) (w0 w1 : AxisWiring)
    (gl0 gl1 : CztGlue) (shp samples KL : Nat × Nat) (α0 α1 : R) (shift : R × R) (f : Array (Array K)) : Array (Array K) :=
  mapArr2 cj (czt2G sg stages e nrm w0 w1 gl0 gl1 shp samples KL α0 α1 shift (mapArr2 cj f))

/-- `dft2` / `idft2` with the kernel sign of the forward branch and the `fwd` flag of the entry point as parameters -/
def mdft2G (fwdSign : Int) (isFwd : Bool) (e : R → K) (nrm : R → K) (w0 w1 : AxisWiring) (shp samples : Nat × Nat)
    (sc0 sc1 a0 a1 : R) (shift : R × R) (f : Nat → Nat → K) (k l : Nat) : K :=
  mdft2 (kernS (if isFwd then fwdSign else -fwdSign) e) nrm w0 w1 shp samples sc0 sc1 a0 a1 shift f k l

/-- what the translator reads off `propagation.focus` / `unfocus` -/
structure RouteFlags where
  innerIsIfftshift : Bool
  outerIsFftshift : Bool
  ortho : Bool
  inverse : Bool      -- `ifft2` rather than `fft2`
deriving DecidableEq, Repr

def focusFlagsRef : RouteFlags := { innerIsIfftshift := true, outerIsFftshift := true, ortho := true, inverse := false }
def unfocusFlagsRef : RouteFlags := { innerIsIfftshift := true, outerIsFftshift := true, ortho := true, inverse := true }

def shiftG (isFftshift : Bool) (N' : Nat) (x : Nat → K) (t : Nat) : K :=
  if isFftshift then fftshiftv N' x t else ifftshiftv N' x t

/-- scale of one axis: `norm='ortho'` ↦ `√(1/N)`; otherwise `1` (forward) or `1/N` (inverse) -/
def normG (fl : RouteFlags) (nrm : R → K) (N' : Nat) : K :=
  if fl.ortho then nrm (Num.ofInt 1 / Num.ofInt (N' : Int))
  else if fl.inverse then Num.ofInt 1 / Num.ofInt (N' : Int) else Num.ofInt 1

/-- the padded FFT route with its flags as parameters; `e` is always the FORWARD kernel `exp(−2πi·)` -/
def fftRoute2G (fl : RouteFlags) (e : R → K) (nrm : R → K) (shp out : Nat × Nat) (off : Int × Int) (f : Array (Array K)) :
    Array (Array K) :=
  let ker : R → K := if fl.inverse then (fun t => e (-t)) else e
  let xp := tab2 out.1 out.2 (fun u v => padv shp.1 off.1 (fun j => padv shp.2 off.2 (rd2 f j) v) u)
  let y := tab2 out.1 out.2 (fun u v => shiftG (!fl.innerIsIfftshift) out.1 (fun u' => shiftG (!fl.innerIsIfftshift) out.2 (rd2 xp u') v) u)
  let rows := tab2 out.1 out.2 (fun p q => normG fl nrm out.2 * dftL ker out.2 (rd2 y p) q)
  let Y := tab2 out.1 out.2 (fun p q => normG fl nrm out.1 * dftL ker out.1 (fun u => rd2 rows u q) p)
  tab2 out.1 out.2 (fun k l => shiftG fl.outerIsFftshift out.1 (fun k' => shiftG fl.outerIsFftshift out.2 (rd2 Y k') l) k)

/-- reference lists for the cache model (what the repaired source keys on / reads while building) -/
def mdftKeyFieldsRef : List String := ["Q", "samples_in", "samples_out", "shift", "fwd", "config.precision"]
def cztKeyFieldsRef : List String :=
  ["m", "n", "M", "N", "K", "L", "alphay", "alphax", "shift[0]", "shift[1]", "dtype", "True"]

/-! ## executor caches as a state machine

A call reads a *state* (its arguments and the global configuration) — an assignment of values to named
fields.  The cache key is the list of the values of `keyFields`; on a miss the basis is built as SOME
function `build` of the values of `buildReads` (whatever the source reads while building).  -/

abbrev St (V : Type) := String → V

structure Exec (V B : Type) where
  keyFields : List String
  buildReads : List String
  build : List V → B

abbrev Cache (V B : Type) := List (List V × B)

def lookup {V B : Type} [DecidableEq V] (c : Cache V B) (key : List V) : Option B :=
  match c with
  | [] => none
  | (k, b) :: rest => if k = key then some b else lookup rest key

inductive Op (V : Type) where
  | call (st : St V)     -- a transform call made in state `st` (arguments + configuration)
  | clear                -- `executor.clear()`

/-- one call: returns the basis actually used and the new cache -/
def callStep {V B : Type} [DecidableEq V] (x : Exec V B) (c : Cache V B) (st : St V) : B × Cache V B :=
  let key := x.keyFields.map st
  match lookup c key with
  | some b => (b, c)
  | none => let b := x.build (x.buildReads.map st); (b, (key, b) :: c)

def runOps {V B : Type} [DecidableEq V] (x : Exec V B) (c : Cache V B) : List (Op V) → Cache V B
  | [] => c
  | Op.call st :: rest => runOps x (callStep x c st).2 rest
  | Op.clear :: rest => runOps x [] rest

/-! ## the executors' dictionaries as a state machine (several dictionaries, one probe)

`MatrixDFTExecutor` keeps TWO dictionaries (`Ein`, `Eout`); `_setup_bases` probes only some of them in its `try:`, writes
some of them on the `KeyError` path, the entry points index some of them afterwards, and `clear()` re-initialises some of
them.  `Proto` records which (extracted from the source by the translator); the machine below executes exactly that
protocol: a call returns, per dictionary it indexes, what the lookup gives (`none` = `KeyError` raised to the caller). -/

structure Proto where
  probe : List String        -- dictionaries indexed under the key in the `try:` of `_setup_bases`
  missWrites : List String   -- dictionaries assigned under the key on the `KeyError` path
  useReads : List String     -- dictionaries indexed under the key by the entry points after `_setup_bases(key)`
  clearResets : List String  -- dictionaries re-initialised by `clear()`
deriving DecidableEq, Repr

def mdftProtoRef : Proto :=
  { probe := ["Ein"], missWrites := ["Ein", "Eout"], useReads := ["Ein", "Eout"], clearResets := ["Ein", "Eout"] }
def cztProtoRef : Proto :=
  { probe := ["components"], missWrites := ["components"], useReads := ["components"], clearResets := ["components"] }

/-- the protocol is sound: something is probed; whatever a call indexes is written on a miss; `clear()` either leaves every
indexed dictionary alone or also forgets a probed one (so that the next call rebuilds) -/
def Proto.WF (p : Proto) : Prop :=
  p.probe ≠ [] ∧ (∀ d ∈ p.useReads, d ∈ p.missWrites) ∧
  ((∀ d ∈ p.useReads, d ∉ p.clearResets) ∨ (∃ q ∈ p.probe, q ∈ p.clearResets))

instance (p : Proto) : Decidable p.WF := by unfold Proto.WF; exact inferInstance

structure Exec2 (V B : Type) where
  keyFields : List String
  buildReads : List String
  build : String → List V → B      -- what the miss path stores in each dictionary
  proto : Proto

abbrev Dicts (V B : Type) := String → Cache V B

def noDicts {V B : Type} : Dicts V B := fun _ => []

def hasKey {V B : Type} [DecidableEq V] (c : Cache V B) (k : List V) : Bool := (lookup c k).isSome

/-- `_setup_bases(key)`: when every probed dictionary has the key nothing happens, else the miss path stores under the key -/
def setup2 {V B : Type} [DecidableEq V] (x : Exec2 V B) (s : Dicts V B) (st : St V) : Dicts V B :=
  if x.proto.probe.all (fun p => hasKey (s p) (x.keyFields.map st)) then s
  else fun d => if d ∈ x.proto.missWrites then (x.keyFields.map st, x.build d (x.buildReads.map st)) :: s d else s d

/-- one call of an entry point: `_setup_bases(key)` then the lookups (`none` = `KeyError`) -/
def callStep2 {V B : Type} [DecidableEq V] (x : Exec2 V B) (s : Dicts V B) (st : St V) : List (Option B) × Dicts V B :=
  (x.proto.useReads.map (fun d => lookup (setup2 x s st d) (x.keyFields.map st)), setup2 x s st)

def clear2 {V B : Type} (x : Exec2 V B) (s : Dicts V B) : Dicts V B :=
  fun d => if d ∈ x.proto.clearResets then [] else s d

def runOps2 {V B : Type} [DecidableEq V] (x : Exec2 V B) (s : Dicts V B) : List (Op V) → Dicts V B
  | [] => s
  | Op.call st :: rest => runOps2 x (callStep2 x s st).2 rest
  | Op.clear :: rest => runOps2 x (clear2 x s) rest

/-- number of distinct keys held by a dictionary (what `len(executor.Ein)` shows) -/
def dictLen {V B : Type} [DecidableEq V] (c : Cache V B) : Nat := (c.map Prod.fst).eraseDups.length

/-! ## `_key` / the head of `czt2`: how the argument FORMS are normalised before they enter the cache key -/

/-- one parameter: `broadcast` = `if not isinstance(p, Iterable): p = (p, p)`; `conv` = the conversion applied to each element
(`"float"`, `"int"`, or `"elem"`: elements as given) -/
structure ArgNorm where
  param : String
  broadcast : Bool
  conv : String
deriving DecidableEq, Repr

/-- an argument as the caller hands it over: one value, or a pair (tuple / list / array of two) -/
inductive Arg (V : Type) where
  | scalar (v : V)
  | pair (a b : V)

/-- the sampling an argument denotes: a scalar stands for both axes -/
def Arg.den {V : Type} : Arg V → V × V
  | .scalar v => (v, v)
  | .pair a b => (a, b)

/-- the normalised key component (`none`: a scalar that is not broadcast cannot be unpacked — `TypeError`) -/
def normArg {V : Type} (conv : String → V → V) (a : ArgNorm) : Arg V → Option (V × V)
  | .scalar v => if a.broadcast then some (conv a.conv v, conv a.conv v) else none
  | .pair x y => some (conv a.conv x, conv a.conv y)

def mdftKeyNormRef : List ArgNorm :=
  [⟨"Q", true, "float"⟩, ⟨"samples_in", true, "int"⟩, ⟨"samples_out", true, "int"⟩, ⟨"shift", true, "elem"⟩]
def cztKeyNormRef : List ArgNorm := [⟨"Q", true, "float"⟩, ⟨"samples_out", true, "int"⟩, ⟨"shift", true, "elem"⟩]

end Model.C01
