import PrysmVerif.Model.C07
/-!
# C08 — hand-written model of the `*_seq` control flow (core Lean only)

* `Rec` / `sweep`: one forward pass of a recurrence to `ns[-1]`, writing row `min_i` of `out` whenever the
  running order equals `ns[min_i]` — the control flow shared by `jacobi_seq`, `hermite_*_seq`,
  `laguerre_seq`, `dickson*_seq`, `Qbfs_seq` and the `*_der_seq` sweeps.
* `tableSeq`: per-`|m|` tables filled by a sweep over `0..max`, then indexed by the requested pairs in
  the requested order (`zernike_nm_seq`, `Q2d_seq`, `xy_seq`).
* `bcSrc` / `bcShape`: NumPy's broadcasting rule on shapes and multi-indices (align trailing axes).
-/
namespace Model.C08
open Model.C07

/-- a family evaluated by a forward recurrence: state at order 0, transition `i ↦ i+1`, read-out at order `i` -/
structure Rec (S K : Type) where
  init : S
  next : Nat → S → S
  read : Nat → S → K

namespace Rec
variable {S K : Type}
def stateAt (r : Rec S K) : Nat → S
  | 0 => r.init
  | i+1 => r.next i (r.stateAt i)
/-- the single-order function of the family -/
def eval (r : Rec S K) (n : Nat) : K := r.read n (r.stateAt n)
end Rec

/-- `if ns[min_i] == i: out[min_i] = v; min_i += 1`.  Rows are written in the order `0,1,2,…`, so the
    written part of `out` is a list that grows; `st = (rows written so far, min_i)`.  Reading `ns[min_i]`
    past the end never happens in the code (it returns first); the total model makes it a no-op. -/
def emit {K : Type} (ns : List Nat) (i : Nat) (v : K) (st : List K × Nat) : List K × Nat :=
  if ns[st.2]? = some i then (st.1 ++ [v], st.2 + 1) else st

/-- `return out`: a value only when every row has been written (`np.empty` rows are garbage otherwise) -/
def finish {K : Type} (ns : List Nat) (st : List K × Nat) : Option (List K) :=
  if st.2 = ns.length then some st.1 else none

/-- `for i in i0 .. i0+fuel-1`: emit the read-out, advance the recurrence -/
def sweepLoop {S K : Type} (r : Rec S K) (ns : List Nat) : Nat → Nat → S → List K × Nat → List K × Nat
  | 0, _, _, st => st
  | fuel+1, i, s, st => sweepLoop r ns fuel (i+1) (r.next i s) (emit ns i (r.read i s) st)

/-- the whole `*_seq`: `none` when `ns` is empty (the code raises `IndexError`) or a row stays unwritten -/
def sweep {S K : Type} (r : Rec S K) (ns : List Nat) : Option (List K) :=
  match ns.getLast? with
  | none => none
  | some mx => finish ns (sweepLoop r ns (mx+1) 0 r.init ([], 0))

/-! ## literal reading of the array `out` (used by the statement-level translation of the `*_seq` bodies) -/

/-- `out = np.empty((len(ns), …))`: one entry per row, `none` = not yet written (garbage) -/
abbrev Rows (K : Type) := List (Option K)
def emptyRows {K : Type} (n : Nat) : Rows K := List.replicate n none
/-- `out[k] = v` -/
def setRow {K : Type} (out : Rows K) (k : Nat) (v : K) : Rows K := out.set k (some v)
/-- `return out`: a value only when every row has been written -/
def finishRows {K : Type} (out : Rows K) : Option (List K) := out.mapM id
/-- `ns[-1]` -/
def lastOrder (ns : List Nat) : Int := ((ns.getLastD 0 : Nat) : Int)

/-- kind of a NumPy dtype, as far as storing the values of a recurrence is concerned -/
inductive DKind | bool | int | float | complex
deriving DecidableEq, Repr
/-- `np.result_type(x, 1.0)`: what the coordinate dtype becomes when it meets a Python float -/
def DKind.withFloat : DKind → DKind
  | .bool => .float
  | .int => .float
  | k => k
/-- can an array of this kind hold the (floating-point) values of a polynomial without truncation? -/
def DKind.holdsFloats : DKind → Bool
  | .float => true
  | .complex => true
  | _ => false

/-- entry `j` of the table `dickson<k>_seq(arange(0, max+1), a, x)` (what `xy_seq` reads) -/
def seqEntry1 {K : Type} [Num K] (j : Int) (a x : K) : K := Model.C07.dickson1 j.toNat a x
def seqEntry2 {K : Type} [Num K] (j : Int) (a x : K) : K := Model.C07.dickson2 j.toNat a x

/-! ## the families as `Rec`s -/
section families
variable {K : Type} [Num K]

def jacobiRec (α β x : K) : Rec (K × K) K :=
  { init := (nat 1, jacP1 α β x), next := fun i p => (p.2, jacStep (i+1) α β x p.2 p.1), read := fun _ p => p.1 }
def heRec (x : K) : Rec (K × K) K :=
  { init := (nat 1, x), next := fun i p => (p.2, x * p.2 - nat (i+1) * p.1), read := fun _ p => p.1 }
def hRec (x : K) : Rec (K × K) K :=
  { init := (nat 1, nat 2 * x), next := fun i p => (p.2, nat 2 * x * p.2 - nat 2 * nat (i+1) * p.1),
    read := fun _ p => p.1 }
def lagRec (α x : K) : Rec (K × K) K :=
  { init := (nat 1, α + nat 1 - x),
    next := fun i p =>
      let k : K := nat (i+1)
      (p.2, nat 1 / (k + nat 1) * ((α + nat 2 * k + nat 1 - x) * p.2 - (α + k) * p.1)),
    read := fun _ p => p.1 }
def dickRec (p0 a x : K) : Rec (K × K) K :=
  { init := (p0, x), next := fun _ p => (p.2, x * p.2 - a * p.1), read := fun _ p => p.1 }

/-- `jacobi_der_seq`: order `i` is `½(i+α+β+1) · P_{i−1}^{(α+1,β+1)}`; the state carries `(P_{i−1}, P_i)` of the
    shifted family (with `P_{−1} := 0`) -/
def jacobiDerRec (α β x : K) : Rec (K × K) K :=
  let a1 := α + nat 1
  let b1 := β + nat 1
  { init := (nat 0, nat 1),
    next := fun i p => (p.2, if i = 0 then jacP1 a1 b1 x else jacStep i a1 b1 x p.2 p.1),
    read := fun i p => if i = 0 then nat 0 else p.1 * (Num.ofFrac 1 2 * (nat i + α + β + nat 1)) }
/-- `hermite_He_der_seq`: order `i` is `i · He_{i−1}` -/
def heDerRec (x : K) : Rec (K × K) K :=
  { init := (nat 0, nat 1), next := fun i p => (p.2, if i = 0 then x else x * p.2 - nat i * p.1),
    read := fun i p => nat i * p.1 }
/-- `hermite_H_der_seq`: order `i` is `2i · H_{i−1}` -/
def hDerRec (x : K) : Rec (K × K) K :=
  { init := (nat 0, nat 1),
    next := fun i p => (p.2, if i = 0 then nat 2 * x else nat 2 * x * p.2 - nat 2 * nat i * p.1),
    read := fun i p => nat 2 * nat i * p.1 }

def qbfsRec (sqrt : K → K) (x : K) : Rec (Nat × K × K × K × K) K :=
  let rho := x * x
  { init := (0, qbfsPQ sqrt rho 0),
    next := fun _ s =>
      let n := s.1
      let p2 := (nat 2 - nat 4 * rho) * s.2.2.1 - s.2.1
      (n+1, s.2.2.1, p2, s.2.2.2.2,
        (p2 - qbfsG sqrt (n+1) * s.2.2.2.2 - qbfsH n (qbfsF sqrt n) * s.2.2.2.1) * (nat 1 / qbfsF sqrt (n+2))),
    read := fun _ s => s.2.2.2.1 * (rho * (nat 1 - rho)) }

end families

/-! ## two-index families: per-`|m|` tables, then look-up in the requested order -/

/-- largest first index requested for the second index `k` (0 when none) -/
def maxFor (pairs : List (Nat × Nat)) (k : Nat) : Nat :=
  pairs.foldl (fun acc p => if p.2 = k then max acc p.1 else acc) 0

/-- `tbl k` is the sweep over `0..maxFor pairs k` of the family with second index `k`;
    each requested `(j, k)` reads entry `j` of table `k`.  `none` if any look-up misses. -/
def tableSeq {S K : Type} (fam : Nat → Rec S K) (pairs : List (Nat × Nat)) : Option (List K) :=
  pairs.mapM fun p =>
    match sweep (fam p.2) (List.range (maxFor pairs p.2 + 1)) with
    | none => none
    | some row => row[p.1]?

/-! ## NumPy broadcasting on shapes -/

/-- broadcast two shapes, trailing axes aligned; `none` when some axis pair is incompatible -/
def bcShape (a b : List Nat) : Option (List Nat) :=
  let n := max a.length b.length
  let a' := List.replicate (n - a.length) 1 ++ a
  let b' := List.replicate (n - b.length) 1 ++ b
  (List.zip a' b').mapM fun (p, q) => if p = q then some p else if p = 1 then some q else if q = 1 then some p else none

/-- the multi-index of the operand of shape `sh` that feeds output multi-index `idx`
    (leading output axes the operand lacks are dropped; size-1 axes are pinned to 0) -/
def bcSrc (sh idx : List Nat) : List Nat :=
  let idx' := idx.drop (idx.length - sh.length)
  (List.zip sh idx').map fun (d, i) => if d = 1 then 0 else i

/-- shape of the per-order constants that scales mode `k` by `c_k` for a coordinate array of rank `rank` -/
def goodCsShape (N rank : Nat) : List Nat := N :: List.replicate rank 1

end Model.C08
