/-!
# C19 — hand-written model of the Spencer & Murty ray trace (core Lean only)

Scalars are any type with the field operations and the literals `0 1 2` (so the same definitions run on
`Float`, on `Rat`, and are reasoned about over a Mathlib field without any instance bridging).
`sqrt` is a parameter everywhere; comparisons needed by the Newton loop are parameters (`lt`).

Vectors are `V3 K`; a surface frame is a position `P` and an optional rotation `R` (row-major `M3 K`).
The surface shapes are the ones `prysm.x.raytracing.surfaces.Surface` builds: plane, conic (sphere is the
conic with `κ = 0`), off-axis conic (the parent conic evaluated at shifted coordinates).

The model computes surface gradients in Cartesian form (`∂z/∂x = c x / φ`), which is the mathematical
gradient and has no singularity on the axis; `cylNormal` is the polar route the code takes (kept here so
the two can be proved equal off the axis, and so that the on-axis value is stated explicitly).
-/
namespace Model.C19

structure V3 (K : Type) where
  x : K
  y : K
  z : K
deriving Repr

/-- row-major 3×3 matrix -/
structure M3 (K : Type) where
  r0 : V3 K
  r1 : V3 K
  r2 : V3 K
deriving Repr

section
variable {K : Type} [Add K] [Sub K] [Mul K] [Div K] [Neg K] [OfNat K 0] [OfNat K 1] [OfNat K 2]

namespace V3
def add (a b : V3 K) : V3 K := ⟨a.x + b.x, a.y + b.y, a.z + b.z⟩
def sub (a b : V3 K) : V3 K := ⟨a.x - b.x, a.y - b.y, a.z - b.z⟩
def smul (k : K) (a : V3 K) : V3 K := ⟨k * a.x, k * a.y, k * a.z⟩
def dot (a b : V3 K) : K := a.x * b.x + a.y * b.y + a.z * b.z
def cross (a b : V3 K) : V3 K := ⟨a.y * b.z - a.z * b.y, a.z * b.x - a.x * b.z, a.x * b.y - a.y * b.x⟩
def normSq (a : V3 K) : K := dot a a
end V3

namespace M3
def mulVec (m : M3 K) (v : V3 K) : V3 K := ⟨V3.dot m.r0 v, V3.dot m.r1 v, V3.dot m.r2 v⟩
def transpose (m : M3 K) : M3 K :=
  ⟨⟨m.r0.x, m.r1.x, m.r2.x⟩, ⟨m.r0.y, m.r1.y, m.r2.y⟩, ⟨m.r0.z, m.r1.z, m.r2.z⟩⟩
def col0 (m : M3 K) : V3 K := ⟨m.r0.x, m.r1.x, m.r2.x⟩
def col1 (m : M3 K) : V3 K := ⟨m.r0.y, m.r1.y, m.r2.y⟩
def col2 (m : M3 K) : V3 K := ⟨m.r0.z, m.r1.z, m.r2.z⟩
def mul (a b : M3 K) : M3 K :=
  ⟨⟨V3.dot a.r0 b.col0, V3.dot a.r0 b.col1, V3.dot a.r0 b.col2⟩,
   ⟨V3.dot a.r1 b.col0, V3.dot a.r1 b.col1, V3.dot a.r1 b.col2⟩,
   ⟨V3.dot a.r2 b.col0, V3.dot a.r2 b.col1, V3.dot a.r2 b.col2⟩⟩
def one : M3 K := ⟨⟨1, 0, 0⟩, ⟨0, 1, 0⟩, ⟨0, 0, 1⟩⟩
end M3

/-! ## reflection and refraction (`spencer_and_murty.reflect / refract`) -/

/-- mirror reflection about the plane normal to `r` (any non-zero `r`; the code divides by `r·r`) -/
def reflect (S r : V3 K) : V3 K :=
  V3.sub S (V3.smul (2 * (V3.dot S r / V3.dot r r)) r)

/-- vector form of Snell's law for a normal `r` of ANY non-zero length (`μ = n/n'`, `ρ = r·r`,
`c = r·S`):  `S' = (±√(ρ − μ²(ρ − c²)) / ρ) r + μ (S − (c/ρ) r)`, the sign being that of `c`.  With `ρ = 1` this is Spencer & Murty's
formula `√(1 − μ²(1 − cos²I)) r + μ (S − cos I · r)`. -/
def refract (sqrt : K → K) (lt : K → K → Bool) (n n' : K) (S r : V3 K) : V3 K :=
  let mu := n / n'
  let rho := V3.dot r r
  let c := V3.dot r S
  let σ := sqrt (rho - mu * mu * (rho - c * c))
  -- the root carries the sign of `r·S`: the refracted ray continues through the surface whichever way it is crossed
  let σ' := if lt c 0 then -σ else σ
  V3.add (V3.smul (σ' / rho) r)
         (V3.smul mu (V3.sub S (V3.smul (c / rho) r)))

/-- Spencer & Murty's formula as printed, valid for a UNIT normal only -/
def refractUnit (sqrt : K → K) (n n' : K) (S r : V3 K) : V3 K :=
  let mu := n / n'
  let c := V3.dot r S
  V3.add (V3.smul (sqrt (1 - mu * mu * (1 - c * c))) r) (V3.smul mu (V3.sub S (V3.smul c r)))

/-! ## frames (`transform_to_local_coords / transform_to_global_coords`) -/

def toLocalP (P : V3 K) (R : Option (M3 K)) (X : V3 K) : V3 K :=
  match R with
  | none => V3.sub X P
  | some R => M3.mulVec R (V3.sub X P)

def toLocalS (R : Option (M3 K)) (S : V3 K) : V3 K :=
  match R with
  | none => S
  | some R => M3.mulVec R S

/-- `raytrace` hands `R.T` to `transform_to_global_coords` -/
def toGlobalP (P : V3 K) (R : Option (M3 K)) (X : V3 K) : V3 K :=
  match R with
  | none => V3.add X P
  | some R => V3.add (M3.mulVec (M3.transpose R) X) P

def toGlobalS (R : Option (M3 K)) (S : V3 K) : V3 K :=
  match R with
  | none => S
  | some R => M3.mulVec (M3.transpose R) S

/-- `coordinates.make_rotation_matrix`: `Rx · Ry · Rz` with `(c1,s1) = cos/sin α` (about x), `(c2,s2)` about y,
`(c3,s3)` about z -/
def rotX (c s : K) : M3 K := ⟨⟨1, 0, 0⟩, ⟨0, c, -s⟩, ⟨0, s, c⟩⟩
def rotY (c s : K) : M3 K := ⟨⟨c, 0, s⟩, ⟨0, 1, 0⟩, ⟨-s, 0, c⟩⟩
def rotZ (c s : K) : M3 K := ⟨⟨c, -s, 0⟩, ⟨s, c, 0⟩, ⟨0, 0, 1⟩⟩
def rotation (c1 s1 c2 s2 c3 s3 : K) : M3 K := M3.mul (M3.mul (rotX c1 s1) (rotY c2 s2)) (rotZ c3 s3)

/-! ## surfaces -/

/-- `φ² = 1 − (1+κ) c² ρ²` -/
def phiSq (c k rhosq : K) : K := 1 - (1 + k) * (c * c) * rhosq

/-- conic sag `z = c ρ² / (1 + φ)` -/
def conicSag (c rhosq phi : K) : K := (c * rhosq) / (1 + phi)

/-- radial derivative `dz/dρ = c ρ / φ` -/
def conicSagDer (c rho phi : K) : K := (c * rho) / phi

/-- the polar route of `surface_normal_from_cylindrical_derivatives` OFF the axis (`r ≠ 0`),
`(cost, sint) = (cos t, sin t)` -/
def cylNormal (fp ft r cost sint : K) : K × K :=
  (fp * cost - ft / r * sint, fp * sint + ft / r * cost)

/-- the same with the on-axis point handled: `ft / r` is evaluated with `r ↦ 1` where `r = 0`
(`ft = 0` there for every differentiable surface) -/
def cylNormalTotal (isZero : K → Bool) (fp ft r cost sint : K) : K × K :=
  let rr := if isZero r then 1 else r
  (fp * cost - ft / rr * sint, fp * sint + ft / rr * cost)

/-- `Surface.sag_normal`: the vector handed to the tracer is `(−F_x, −F_y, 1)` -/
def normalOfGrad (fx fy : K) : V3 K := ⟨-fx, -fy, 1⟩

inductive Shape (K : Type) where
  | plane : Shape K
  | conic (c k : K) : Shape K
  | offAxis (c k dx dy : K) : Shape K
deriving Repr

/-- sag and gradient `(z, F_x, F_y)` at local `(x, y)`, Cartesian form -/
def sagGrad (sqrt : K → K) : Shape K → K → K → K × K × K
  | .plane, _, _ => (0, 0, 0)
  | .conic c k, x, y =>
      let rsq := x * x + y * y
      let phi := sqrt (phiSq c k rsq)
      (conicSag c rsq phi, c * x / phi, c * y / phi)
  | .offAxis c k dx dy, x, y =>
      let xs := x + dx
      let ys := y + dy
      let rsq := xs * xs + ys * ys
      let phi := sqrt (phiSq c k rsq)
      (conicSag c rsq phi, c * xs / phi, c * ys / phi)

def sagNormal (sqrt : K → K) (sh : Shape K) (x y : K) : K × V3 K :=
  let (z, fx, fy) := sagGrad sqrt sh x y
  (z, normalOfGrad fx fy)

/-! ## intersection (`intersect`, `newton_raphson_solve_s`) -/

/-- step to the plane `z = 0` of the local frame: `P1 = P0 + (−Z0/m) S` -/
def toVertexPlane (P0 S : V3 K) : V3 K := V3.add P0 (V3.smul (-P0.z / S.z) S)

/-- one Newton update: returns `(P_j, r_j, s_{j+1})` -/
def newtonStep (sqrt : K → K) (sh : Shape K) (P1 S : V3 K) (sj : K) : V3 K × V3 K × K :=
  let Pj := V3.add P1 (V3.smul sj S)
  let (sag, r) := sagNormal sqrt sh Pj.x Pj.y
  let Fj := Pj.z - sag
  let Fpj := V3.dot S r
  (Pj, r, sj - Fj / Fpj)

/-- `max(1, |x|, |y|, |z|)`: the convergence tolerance is relative to the size of the point beyond one unit -/
def newtonScale (lt : K → K → Bool) (P : V3 K) : K :=
  let ab := fun (v : K) => if lt v 0 then -v else v
  let mx := fun (a b : K) => if lt a b then b else a
  mx 1 (mx (mx (ab P.x) (ab P.y)) (ab P.z))

/-- Newton iteration with the code's stopping rule `|s_{j+1} − s_j| < eps · max(1, |P_j|_∞)`; returns the point and
normal of the iteration that converged (`none` when `fuel` runs out: the code writes NaN) -/
def newton (sqrt : K → K) (lt : K → K → Bool) (sh : Shape K) (P1 S : V3 K) (eps : K) :
    Nat → K → Option (V3 K × V3 K)
  | 0, _ => none
  | fuel + 1, sj =>
      let (Pj, r, sj1) := newtonStep sqrt sh P1 S sj
      let d := sj1 - sj
      let ad := if lt d 0 then -d else d
      if lt ad (eps * newtonScale lt Pj) then some (Pj, r) else newton sqrt lt sh P1 S eps fuel sj1

def intersect (sqrt : K → K) (lt : K → K → Bool) (sh : Shape K) (P0 S : V3 K) (eps : K) (maxiter : Nat) :
    Option (V3 K × V3 K) :=
  newton sqrt lt sh (toVertexPlane P0 S) S eps maxiter 0

/-! ## closed-form ray / conic intersection (what the Newton iteration must converge to) -/

/-- implicit equation of the conic of revolution: `G(P) = c(x² + y²) − 2z + (1+κ) c z²` (`G = 0` on the surface) -/
def conicImplicit (c k : K) (P : V3 K) : K := c * (P.x * P.x + P.y * P.y) - 2 * P.z + (1 + k) * c * (P.z * P.z)

/-- along the ray `P + s S`:  `G = A s² + 2 B s + C` -/
def conicA (c k : K) (S : V3 K) : K := c * (S.x * S.x + S.y * S.y + (1 + k) * (S.z * S.z))
def conicB (c k : K) (P S : V3 K) : K := c * (P.x * S.x + P.y * S.y + (1 + k) * (P.z * S.z)) - S.z
def conicC (c k : K) (P : V3 K) : K := conicImplicit c k P

/-- the root that tends to `−C/(2B)` as the curvature vanishes (the intersection next to the vertex for a ray travelling towards
`+z`), in the cancellation-free form `s = C / (√(B² − AC) − B)`; for a plane (`c = 0`) it is `−P.z/S.z` -/
def conicHitS (sqrt : K → K) (c k : K) (P S : V3 K) : K :=
  let A := conicA c k S
  let B := conicB c k P S
  let C := conicC c k P
  C / (sqrt (B * B - A * C) - B)

def conicHit (sqrt : K → K) (c k : K) (P S : V3 K) : V3 K := V3.add P (V3.smul (conicHitS sqrt c k P S) S)

/-! ## the trace -/

inductive Kind where
  | reflect | refract | eval
deriving Repr, DecidableEq

structure Surface (K : Type) where
  kind : Kind
  P : V3 K
  R : Option (M3 K)
  shape : Shape K
  /-- index after the surface (refracting surfaces only) -/
  n : K

/-- one surface: `(P, S, n)` global in, `(P', S', n')` global out, plus the local hit point, local incident
direction and the normal vector the code works with (for the property predicates) -/
structure Hit (K : Type) where
  Pg : V3 K
  Sg : V3 K
  n : K
  Ploc : V3 K
  Sloc : V3 K
  r : V3 K
  Sout : V3 K

def traceOne (sqrt : K → K) (lt : K → K → Bool) (eps : K) (maxiter : Nat)
    (sf : Surface K) (P S : V3 K) (n : K) : Option (Hit K) :=
  let P0 := toLocalP sf.P sf.R P
  let S0 := toLocalS sf.R S
  match intersect sqrt lt sf.shape P0 S0 eps maxiter with
  | none => none
  | some (Pj, r) =>
      let (S1, n1) := match sf.kind with
        | .reflect => (reflect S0 r, n)
        | .refract => (refract sqrt lt n sf.n S0 r, sf.n)
        | .eval => (S0, n)
      some ⟨toGlobalP sf.P sf.R Pj, toGlobalS sf.R S1, n1, Pj, S0, r, S1⟩

def trace (sqrt : K → K) (lt : K → K → Bool) (eps : K) (maxiter : Nat) :
    List (Surface K) → V3 K → V3 K → K → Option (List (Hit K))
  | [], _, _, _ => some []
  | sf :: rest, P, S, n =>
      match traceOne sqrt lt eps maxiter sf P S n with
      | none => none
      | some h =>
          match trace sqrt lt eps maxiter rest h.Pg h.Sg h.n with
          | none => none
          | some hs => some (h :: hs)

end
end Model.C19
