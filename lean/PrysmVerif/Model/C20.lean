import PrysmVerif.Num
/-!
# C20 — hand-written model of `prysm.x.polarization` (core Lean only)

2×2 Jones matrices over any `K` with `[Num K]`.  `cos θ`, `sin θ` are parameters `c s`; `e^{iδ}` is `u`;
`cos(δ/2)`, `sin(δ/2)` are `ch sh`; `-i` is `mI`, `i` is `I`.  The driver instantiates `K = Cx Float`.
-/
namespace Model.C20

/-- a 2×2 matrix `[[a, b], [c, d]]` -/
structure M22 (K : Type) where
  a : K
  b : K
  c : K
  d : K

variable {K : Type} [Num K]

namespace M22
def zero : M22 K := ⟨Num.ofInt 0, Num.ofInt 0, Num.ofInt 0, Num.ofInt 0⟩
def one : M22 K := ⟨Num.ofInt 1, Num.ofInt 0, Num.ofInt 0, Num.ofInt 1⟩
def mul (x y : M22 K) : M22 K :=
  ⟨x.a * y.a + x.b * y.c, x.a * y.b + x.b * y.d, x.c * y.a + x.d * y.c, x.c * y.b + x.d * y.d⟩
def add (x y : M22 K) : M22 K := ⟨x.a + y.a, x.b + y.b, x.c + y.c, x.d + y.d⟩
def smul (k : K) (x : M22 K) : M22 K := ⟨k * x.a, k * x.b, k * x.c, k * x.d⟩
def transpose (x : M22 K) : M22 K := ⟨x.a, x.c, x.b, x.d⟩
def map {α β : Type} (f : α → β) (x : M22 α) : M22 β := ⟨f x.a, f x.b, f x.c, f x.d⟩
/-- entry `(i, j)`, `i j ∈ {0, 1}` -/
def get (x : M22 K) (i j : Nat) : K :=
  match i, j with
  | 0, 0 => x.a
  | 0, _ => x.b
  | _, 0 => x.c
  | _, _ => x.d
/-- overwrite entry `(i, j)` (the effect of `jones[..., i, j] = v`) -/
def set (x : M22 K) (i j : Nat) (v : K) : M22 K :=
  match i, j with
  | 0, 0 => { x with a := v }
  | 0, _ => { x with b := v }
  | _, 0 => { x with c := v }
  | _, _ => { x with d := v }
end M22

/-- `jones_rotation_matrix(θ)` -/
def rot (c s : K) : M22 K := ⟨c, s, -s, c⟩

/-- `R(-θ) · core · R(θ)` -/
def sandwich (c s : K) (core : M22 K) : M22 K := ((rot c (-s)).mul core).mul (rot c s)

def retarder (u c s : K) : M22 K := sandwich c s ⟨Num.ofInt 1, Num.ofInt 0, Num.ofInt 0, u⟩
def diattenuator (α c s : K) : M22 K := sandwich c s ⟨Num.ofInt 1, Num.ofInt 0, Num.ofInt 0, α⟩
def polarizer (c s : K) : M22 K := diattenuator (Num.ofInt 0) c s

/-- Mawet et al. (2009) eq. 7: `sin(δ/2) [[c, s], [s, -c]] - i cos(δ/2) 1`, `c s = cos, sin (charge·θ)`,
rotated by `(cr, sr)` -/
def vortex (mI ch sh c s cr sr : K) : M22 K :=
  sandwich cr sr ((M22.smul sh ⟨c, s, s, -c⟩).add ⟨mI * ch, Num.ofInt 0, Num.ofInt 0, mI * ch⟩)

/-! ## Jones vectors -/
/-- a Jones vector `(x, y)` -/
structure V2 (K : Type) where
  x : K
  y : K

namespace V2
def zero : V2 K := ⟨Num.ofInt 0, Num.ofInt 0⟩
/-- overwrite component `i` (the effect of `pol_vector[i] = v`, `pol_vector[..., i, 0] = v`) -/
def set (v : V2 K) (i : Nat) (e : K) : V2 K :=
  match i with
  | 0 => { v with x := e }
  | _ => { v with y := e }
def smul (k : K) (v : V2 K) : V2 K := ⟨k * v.x, k * v.y⟩
end V2

/-- `J · v` -/
def M22.mulVec (m : M22 K) (v : V2 K) : V2 K := ⟨m.a * v.x + m.b * v.y, m.c * v.x + m.d * v.y⟩

/-- `linear_pol_vector`: `(cos φ, sin φ)` -/
def linPol (c s : K) : V2 K := ⟨c, s⟩
/-- `circular_pol_vector`: `(1, ±i)/√2`, `r2 = √2` -/
def circPol (I r2 : K) (left : Bool) : V2 K := ⟨Num.ofInt 1 / r2, (if left then I else -I) / r2⟩

/-! ## Pauli basis -/
def pauli (I : K) : Nat → M22 K
  | 0 => ⟨Num.ofInt 1, Num.ofInt 0, Num.ofInt 0, Num.ofInt 1⟩
  | 1 => ⟨Num.ofInt 1, Num.ofInt 0, Num.ofInt 0, Num.ofInt (-1)⟩
  | 2 => ⟨Num.ofInt 0, Num.ofInt 1, Num.ofInt 1, Num.ofInt 0⟩
  | _ => ⟨Num.ofInt 0, -I, I, Num.ofInt 0⟩

def pauliCoeff (I : K) (J : M22 K) : Nat → K
  | 0 => (J.a + J.d) / Num.ofInt 2
  | 1 => (J.a - J.d) / Num.ofInt 2
  | 2 => (J.b + J.c) / Num.ofInt 2
  | _ => I * (J.b - J.c) / Num.ofInt 2

/-! ## 4×4 matrices as functions on `{0,1,2,3}²` (Mueller calculus) -/
abbrev M44 (K : Type) := Nat → Nat → K

def sum4 (f : Nat → K) : K := f 0 + f 1 + f 2 + f 3
def mul44 (x y : M44 K) : M44 K := fun i j => sum4 fun k => x i k * y k j
/-- Kronecker product, row index `2 i + j` (NumPy's `kron`) -/
def kron (x y : M22 K) : M44 K := fun r c => x.get (r / 2) (c / 2) * y.get (r % 2) (c % 2)

/-- the matrix `U` of `jones_to_mueller` before the `1/√2` scaling -/
def muellerU (I : K) : M44 K := fun r c =>
  match r, c with
  | 0, 0 => Num.ofInt 1 | 0, 3 => Num.ofInt 1
  | 1, 0 => Num.ofInt 1 | 1, 3 => Num.ofInt (-1)
  | 2, 1 => Num.ofInt 1 | 2, 2 => Num.ofInt 1
  | 3, 1 => I | 3, 2 => -I
  | _, _ => Num.ofInt 0

/-- `U (J̄ ⊗ J) U⁻¹` with `U⁻¹ = Uᴴ / 2` (the scaling by `1/√2` cancels); `conj` is a parameter -/
def muellerC (conj : K → K) (I : K) (J : M22 K) : M44 K :=
  let U := muellerU I
  let Uinv : M44 K := fun r c => conj (U c r) / Num.ofInt 2
  mul44 (mul44 U (kron (J.map conj) J)) Uinv

/-- `jones_adapter`: the scalar propagator applied to each of the four components, reassembled in place -/
def adapter {α β : Type} (prop : α → β) (J : M22 α) : M22 β := J.map prop

/-! ## execution on complex doubles (driver only) -/
namespace Exec
abbrev C := Cx Float
def re (x : Float) : C := ⟨x, 0⟩
def I : C := ⟨0, 1⟩
def mI : C := ⟨0, -1⟩
def expI (δ : Float) : C := ⟨Float.cos δ, Float.sin δ⟩

def rotF (θ : Float) : M22 C := rot (re (Float.cos θ)) (re (Float.sin θ))
def retarderF (δ θ : Float) : M22 C := retarder (expI δ) (re (Float.cos θ)) (re (Float.sin θ))
def diattenuatorF (α θ : Float) : M22 C := diattenuator (re α) (re (Float.cos θ)) (re (Float.sin θ))
def vortexF (charge θ δ ρ : Float) : M22 C :=
  vortex mI (re (Float.cos (δ / 2))) (re (Float.sin (δ / 2))) (re (Float.cos (θ * charge))) (re (Float.sin (θ * charge)))
    (re (Float.cos ρ)) (re (Float.sin ρ))
def muellerF (J : M22 C) : List Float :=
  let M := muellerC Cx.conj I J
  (List.range 16).map fun k => (M (k / 4) (k % 4)).re
def muellerImF (J : M22 C) : List Float :=
  let M := muellerC Cx.conj I J
  (List.range 16).map fun k => (M (k / 4) (k % 4)).im
def linPolF (φ : Float) : V2 C := linPol (re (Float.cos φ)) (re (Float.sin φ))
def circPolF (left : Bool) : V2 C := circPol I (re (Float.sqrt 2)) left
/-- polariser at `θ` applied to light linearly polarised at `φ` -/
def malusF (θ φ : Float) : V2 C := (diattenuatorF 0 θ).mulVec (linPolF φ)
end Exec

end Model.C20
