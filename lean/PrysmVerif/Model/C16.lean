import PrysmVerif.Num
/-!
# C16 — hand-written executable model of the sensor chain (core Lean only)

* `exposePre` / `expose` : the noise-free value of `Detector.expose` for one pixel: signal + dark,
  PRNU, bias, full-well clip, gain scale, ADC clip, unsigned cast (`⌊x⌋ mod 2^w`).
* `binSrc` / `tileSrc` : per-axis index maps of `bindown` / `tile` (block bijection `(i, j) ↦ i·f + j`),
  and their N-D row-major execution on flat arrays.
* Bayer: colour sites as `(start, step)` slices, decomposition / recomposition / compositing tables,
  Malvar demosaicking with `reflect` boundary handling.
-/
namespace Model.C16

/-! ## Detector.expose, one pixel, noise sources off -/

/-- ADC ceiling: the largest code an ADC of `bits` bits produces -/
def adcCap (bits : Int) : Int := 2 ^ bits.toNat - 1

/-- width of the unsigned container the DN are cast to (0: `ValueError`) -/
def castBits (bits : Int) : Int :=
  if bits ≤ 8 then 8 else if bits ≤ 16 then 16 else if bits ≤ 32 then 32 else 0

/-- unsigned cast of an integral value: `z mod 2^w` -/
def castU (w : Int) (z : Int) : Int := z % 2 ^ w.toNat

section expose
variable {K : Type} [Num K] [LT K] [DecidableLT K]

/-- clip from above, as the masked assignment `x[x > a] = a` does it -/
def clipAbove (x a : K) : K := if x > a then a else x

/-- clip from below at zero, as `x[x < 0] = 0` -/
def clipBelow0 (x : K) : K := if x < Num.ofInt 0 then Num.ofInt 0 else x

/-- value handed to the integer cast, for an ADC ceiling `cap`.  `dcnu`, `prnu` are 1 when the maps are absent. -/
def exposePreCap (cap : Int) (img t dc dcnu prnu bias fwc gain : K) : K :=
  let electrons := img * t + dc * t * dcnu
  let shot := electrons * prnu
  let input := shot + Num.ofInt 0 + bias
  let input := clipAbove input fwc
  let output := input * (Num.ofInt 1 / gain)
  clipAbove (clipBelow0 output) (Num.ofInt cap)

/-- value handed to the integer cast -/
def exposePre (img t dc dcnu prnu bias fwc gain : K) (bits : Int) : K :=
  exposePreCap (adcCap bits) img t dc dcnu prnu bias fwc gain

/-- the DN of one pixel; `flr` is the floor function of `K` -/
def expose (flr : K → Int) (img t dc dcnu prnu bias fwc gain : K) (bits : Int) : Int :=
  castU (castBits bits) (flr (exposePre img t dc dcnu prnu bias fwc gain bits))

end expose

/-! ## bindown / tile -/

/-- source index of block `i`, offset `j` along an axis binned by `f` -/
def binSrc (f i j : Nat) : Nat := i * f + j

/-- source index of output sample `k` along an axis tiled by `f` -/
def tileSrc (f k : Nat) : Nat := k / f

def binOutLen (s f : Int) : Int := Int.fdiv s f
def tileOutLen (s f : Int) : Int := s * f

/-- row-major flat index -/
def ravel : List Nat → List Nat → Nat
  | _ :: ss, i :: is => i * ss.foldl (· * ·) 1 + ravel ss is
  | _, _ => 0

/-- row-major multi-index -/
def unravel : List Nat → Nat → List Nat
  | [], _ => []
  | _ :: ss, k => let p := ss.foldl (· * ·) 1; (k / p) :: unravel ss (k % p)

def prodL (l : List Nat) : Nat := l.foldl (· * ·) 1

section nd
variable {K : Type} [Num K]

/-- total of an N-D array given as a function of its multi-index (`shape` = list of axis lengths) -/
def totL : List Nat → (List Nat → K) → K
  | [], x => x []
  | s :: ss, x => Num.sumTo s fun a => totL ss fun t => x (a :: t)

/-- `bindown(x, f, 'sum')` at output multi-index `i`: the sum over the block offsets `j < f` on every axis of the
source samples `i·f + j` -/
def binL : List Nat → (List Nat → K) → List Nat → K
  | [], x, _ => x []
  | f :: fs, x, i => Num.sumTo f fun j => binL fs (fun t => x (binSrc f (i.headD 0) j :: t)) i.tail

/-- the output multi-index that a tiled sample `k` is copied from: `k / f` on every axis -/
def tileIdx (f k : List Nat) : List Nat := List.zipWith tileSrc f k

/-- `tile(y, f, 'avg')` at multi-index `k` -/
def tileL (f : List Nat) (y : List Nat → K) : List Nat → K := fun k => y (tileIdx f k)

variable [Inhabited K]

/-- `bindown(x, f, mode)` on a flat row-major array of shape `shape` (each `f` divides its axis): `binL` read through
the row-major index maps -/
def binND (shape f : List Nat) (x : Array K) (avg : Bool) : Array K :=
  let oshape := List.zipWith (· / ·) shape f
  let nb := prodL f
  Array.ofFn (n := prodL oshape) fun t =>
    let tot := binL f (fun k => x[ravel shape k]!) (unravel oshape t.val)
    if avg then tot / Num.ofInt (nb : Int) else tot

/-- `tile(y, f, scaling)` on a flat row-major array of shape `oshape`: `tileL` read through the row-major index maps -/
def tileND (oshape f : List Nat) (y : Array K) (sumScaling : Bool) : Array K :=
  let shape := List.zipWith (· * ·) oshape f
  let sf : K := Num.ofInt 1 / Num.ofInt (prodL f : Int)
  Array.ofFn (n := prodL shape) fun t =>
    let v := tileL f (fun i => y[ravel oshape i]!) (unravel shape t.val)
    if sumScaling then v * sf else v

end nd

/-! ## Bayer mosaics -/

inductive Site | tl | tr | bl | br
  deriving DecidableEq, Repr, Inhabited
inductive Plane | r | g1 | g2 | b
  deriving DecidableEq, Repr, Inhabited
inductive Chan | red | green | blue
  deriving DecidableEq, Repr, Inhabited
inductive Cfa | rggb | bggr
  deriving DecidableEq, Repr, Inhabited
/-- what a demosaicked sample is copied from: the raw mosaic or one of the four filtered images -/
inductive Src | img | gest | c1 | c2 | c3
  deriving DecidableEq, Repr, Inhabited
inductive Gain | wr | wg1 | wg2 | wb
  deriving DecidableEq, Repr, Inhabited
/-- the three gains of `wb_postscale` -/
inductive Gain3 | wr | wg | wb
  deriving DecidableEq, Repr, Inhabited

/-- `slice(start, None, step)` -/
structure Slc where
  start : Nat
  step : Nat
  deriving DecidableEq, Repr

def Slc.idx (s : Slc) (i : Nat) : Nat := s.start + s.step * i
def Slc.mem (s : Slc) (k : Nat) : Bool := s.start ≤ k && (k - s.start) % s.step == 0
def Slc.pos (s : Slc) (k : Nat) : Nat := (k - s.start) / s.step

def Site.all : List Site := [.tl, .tr, .bl, .br]
def Plane.all : List Plane := [.r, .g1, .g2, .b]

/-- the four colour-site slices `(rows, columns)` -/
def siteSlices : Site → Slc × Slc
  | .tl => (⟨0, 2⟩, ⟨0, 2⟩)
  | .tr => (⟨0, 2⟩, ⟨1, 2⟩)
  | .bl => (⟨1, 2⟩, ⟨0, 2⟩)
  | .br => (⟨1, 2⟩, ⟨1, 2⟩)

/-- which site each plane is read from (`decomposite_bayer`) -/
def decompSite : Cfa → Plane → Site
  | .rggb, .r => .tl | .rggb, .g1 => .tr | .rggb, .g2 => .bl | .rggb, .b => .br
  | .bggr, .b => .tl | .bggr, .g1 => .tr | .bggr, .g2 => .bl | .bggr, .r => .br

/-- which plane is written to each site (`recomposite_bayer`, `composite_bayer`) -/
def recompPlane : Cfa → Site → Plane
  | .rggb, .tl => .r | .rggb, .tr => .g1 | .rggb, .bl => .g2 | .rggb, .br => .b
  | .bggr, .tl => .b | .bggr, .tr => .g1 | .bggr, .bl => .g2 | .bggr, .br => .r

/-- white-balance gain applied at each site (`wb_prescale`) -/
def prescaleGain : Cfa → Site → Gain
  | .rggb, .tl => .wr | .rggb, .tr => .wg1 | .rggb, .bl => .wg2 | .rggb, .br => .wb
  | .bggr, .tl => .wb | .bggr, .tr => .wg1 | .bggr, .bl => .wg2 | .bggr, .br => .wr

/-- white-balance gain applied to each channel of a demosaicked image (`wb_postscale`) -/
def postscaleGain : Chan → Gain3
  | .red => .wr | .green => .wg | .blue => .wb

def Plane.gain : Plane → Gain
  | .r => .wr | .g1 => .wg1 | .g2 => .wg2 | .b => .wb

def Plane.chan : Plane → Chan
  | .r => .red | .g1 => .green | .g2 => .green | .b => .blue

/-- source of each demosaicked channel at each site (`demosaic_malvar`) -/
def malvarSrc : Cfa → Chan → Site → Src
  | _, .green, .tl => .gest | _, .green, .br => .gest | _, .green, .tr => .img | _, .green, .bl => .img
  | .rggb, .red, .tl => .img | .rggb, .red, .tr => .c1 | .rggb, .red, .bl => .c2 | .rggb, .red, .br => .c3
  | .rggb, .blue, .tl => .c3 | .rggb, .blue, .tr => .c2 | .rggb, .blue, .bl => .c1 | .rggb, .blue, .br => .img
  | .bggr, .blue, .tl => .img | .bggr, .blue, .tr => .c1 | .bggr, .blue, .bl => .c2 | .bggr, .blue, .br => .c3
  | .bggr, .red, .tl => .c3 | .bggr, .red, .tr => .c2 | .bggr, .red, .bl => .c1 | .bggr, .red, .br => .img

/-- the site that contains sample `(R, C)` according to a slice table -/
def siteAt (sl : Site → Slc × Slc) (R C : Nat) : Option Site :=
  Site.all.find? fun s => (sl s).1.mem R && (sl s).2.mem C

section bayer
variable {α : Type}

/-- `decomposite_bayer`: plane `p` as a dense array -/
def decomposite (sl : Site → Slc × Slc) (dt : Plane → Site) (img : Nat → Nat → α) (p : Plane) : Nat → Nat → α :=
  fun i j => img ((sl (dt p)).1.idx i) ((sl (dt p)).2.idx j)

/-- `recomposite_bayer`: the mosaic rebuilt from four dense planes -/
def recomposite (sl : Site → Slc × Slc) (rt : Site → Plane) (planes : Plane → Nat → Nat → α) : Nat → Nat → Option α :=
  fun R C => (siteAt sl R C).map fun s => planes (rt s) ((sl s).1.pos R) ((sl s).2.pos C)

/-- `composite_bayer`: the mosaic picked from four full-resolution planes -/
def composite (sl : Site → Slc × Slc) (rt : Site → Plane) (planes : Plane → Nat → Nat → α) : Nat → Nat → Option α :=
  fun R C => (siteAt sl R C).map fun s => planes (rt s) R C

end bayer

/-! ### shapes of the views of `bindown` / `tile`, mode tables, output shape of `expose` -/

/-- `tuple(chain(*zip(a, b)))` -/
def interleave {α : Type} : List α → List α → List α
  | a :: as, b :: bs => a :: b :: interleave as bs
  | _, _ => []

/-- shape of the intermediate view of `bindown`: `(s₀//f₀, f₀, s₁//f₁, f₁, …)` -/
def binViewShape (shape f : List Int) : List Int := interleave (List.zipWith binOutLen shape f) f

/-- shape the array is broadcast to in `tile`: `(s₀, f₀, s₁, f₁, …)` -/
def tileViewShape (shape f : List Int) : List Int := interleave shape f

/-- accepted spellings of `mode` in `bindown` (sorted) and whether each takes the mean (else the sum) -/
def binModes : List (String × Bool) := [("average", true), ("avg", true), ("mean", true), ("sum", false)]

/-- accepted spellings of `scaling` in `tile` (sorted) and whether each divides by the product of the factors -/
def tileModes : List (String × Bool) := [("average", false), ("avg", false), ("mean", false), ("sum", true)]

/-- shape of what `Detector.expose` returns: `(frames, *image.shape)`, the leading axis squeezed for one frame -/
def exposeOutShape (frames : Nat) (shape : List Nat) : List Nat := if frames = 1 then shape else frames :: shape

/-! ### de-interlacing demosaick and white-balance post-scaling -/

/-- the green sample of `demosaic_deinterlace`: the mean of the two green planes -/
def deinterlaceGreen {K : Type} [Num K] (g1 g2 : K) : K := (g1 + g2) / Num.ofInt 2

/-- `demosaic_deinterlace`: channel `ch` of the half-resolution image at `(i, j)` -/
def deinterlace (sl : Site → Slc × Slc) (dt : Plane → Site) (green : Rat → Rat → Rat) (img : Nat → Nat → Rat)
    (ch : Chan) (i j : Nat) : Rat :=
  match ch with
  | .red => decomposite sl dt img .r i j
  | .green => green (decomposite sl dt img .g1 i j) (decomposite sl dt img .g2 i j)
  | .blue => decomposite sl dt img .b i j

/-- `wb_postscale` without limiting: every channel multiplied by its own gain -/
def postscale (gt : Chan → Gain3) (gain : Gain3 → Rat) (rgb : Chan → Nat → Nat → Rat) (ch : Chan) (i j : Nat) : Rat :=
  rgb ch i j * gain (gt ch)

/-! ### Malvar demosaicking -/

def kernelGAtRB : List (List Rat) :=
  [[0, 0, -1, 0, 0], [0, 0, 2, 0, 0], [-1, 2, 4, 2, -1], [0, 0, 2, 0, 0], [0, 0, -1, 0, 0]]
def kernelRAtGInRB : List (List Rat) :=
  [[0, 0, 1/2, 0, 0], [0, -1, 0, -1, 0], [-1, 4, 5, 4, -1], [0, -1, 0, -1, 0], [0, 0, 1/2, 0, 0]]
def kernelRAtGInBR : List (List Rat) :=
  [[0, 0, -1, 0, 0], [0, -1, 4, -1, 0], [1/2, 0, 5, 0, 1/2], [0, -1, 4, -1, 0], [0, 0, -1, 0, 0]]
def kernelRAtBInBB : List (List Rat) :=
  [[0, 0, -3/2, 0, 0], [0, 2, 0, 2, 0], [-3/2, 0, 6, 0, -3/2], [0, 2, 0, 2, 0], [0, 0, -3/2, 0, 0]]
def malvarDivisor : Rat := 8

/-- the FIR kernel behind each filtered image -/
def srcKernel : Src → Option (List (List Rat))
  | .gest => some kernelGAtRB | .c1 => some kernelRAtGInRB | .c2 => some kernelRAtGInBR | .c3 => some kernelRAtBInBB
  | .img => none

def kernelSum (k : List (List Rat)) : Rat := (k.map fun row => row.foldl (· + ·) 0).foldl (· + ·) 0

def kernelAt (k : List (List Rat)) (a b : Nat) : Rat := (k.getD a []).getD b 0

/-- index reflection of `scipy.ndimage` mode `reflect` (`d c b a | a b c d | d c b a`), for `-n ≤ k < 2n` -/
def reflectIdx (n : Nat) (k : Int) : Nat :=
  if k < 0 then (-k - 1).toNat else if k ≥ n then (2 * (n : Int) - k - 1).toNat else k.toNat

/-- boundary rules of `scipy.ndimage` filters -/
inductive BMode | reflect | constant | nearest | mirror | wrap
  deriving DecidableEq, Repr, Inhabited

/-- `ndimage.convolve(img, k / div)` with the default `reflect` mode, 5×5 kernel -/
def convolve5 (m n : Nat) (img : Nat → Nat → Rat) (k : List (List Rat)) (div : Rat) (R C : Nat) : Rat :=
  Num.sumTo 5 fun a => Num.sumTo 5 fun b =>
    -- convolution: kernel flipped, output[R,C] = Σ k[a,b] · img[R + 2 - a, C + 2 - b]
    kernelAt k a b / div * img (reflectIdx m ((R : Int) + 2 - a)) (reflectIdx n ((C : Int) + 2 - b))

/-- the same filter with an arbitrary index-extension rule `bidx len k` in place of `reflect` -/
def convolve5B (bidx : Nat → Int → Nat) (m n : Nat) (img : Nat → Nat → Rat) (k : List (List Rat)) (div : Rat) (R C : Nat) : Rat :=
  Num.sumTo 5 fun a => Num.sumTo 5 fun b =>
    kernelAt k a b / div * img (bidx m ((R : Int) + 2 - a)) (bidx n ((C : Int) + 2 - b))

/-- `demosaic_malvar`: channel `ch` at `(R, C)` -/
def malvar (sl : Site → Slc × Slc) (tbl : Chan → Site → Src) (m n : Nat) (img : Nat → Nat → Rat) (ch : Chan) (R C : Nat) : Rat :=
  match siteAt sl R C with
  | none => 0
  | some s =>
    match srcKernel (tbl ch s) with
    | none => img R C
    | some k => convolve5 m n img k malvarDivisor R C

/-! ### safe white-balance limiting -/
section safe
variable {K : Type} [Num K] [LT K] [DecidableLT K]

/-- one step of the limiting loop: the running descaling ratio after looking at a plane with maximum `mx`
and saturation level `sat` -/
def safeStep (ratio mx sat : K) : K :=
  if (mx / sat > Num.ofInt 1 ∧ mx / sat > ratio) then mx / sat else ratio

/-- the descaling ratio after all planes `(max, saturation)` -/
def safeRatio (step : K → K → K → K) : List (K × K) → K → K
  | [], r => r
  | (mx, sat) :: rest, r => safeRatio step rest (step r mx sat)

end safe

end Model.C16
