import PrysmVerif.Num
/-!
# C15 — hand-written executable model of image formation (core Lean only)

* `FOps` : the array operations that `prysm.convolution` / `prysm.otf` call, as an abstract signature.
  The pipelines (`conv`, `applyTF`, `transformPsf`, `mtf`, `ptf`, `otf`) are written once against it;
  the translator regenerates the same pipelines from the source (`Generated/C15.lean`).
  `FOps` is instantiated (a) by the mathematical DFT on `ZMod m × ZMod n` in `Lemmas/C15Ops.lean`
  (theorems), (b) by direct O(N²) DFT sums on `Float` arrays below (driver).
* index maps of the cyclic rotations and of the centred circular convolution on `Nat` indices;
* the direct double sums (`conv2`, `cconv2`) the pipelines are proved equal to.

Axis 0 = rows (length `m`), axis 1 = columns (length `n`); origin of an axis of length `n` is `n / 2`.
-/
namespace Model.C15

/-! ## index maps -/

def origin (n : Nat) : Nat := n / 2

/-- `ifftshift x [i] = x [ifftshiftSrc n i]` (roll by `-(n//2)`) -/
def ifftshiftSrc (n i : Nat) : Nat := (i + n / 2) % n

/-- `fftshift x [i] = x [fftshiftSrc n i]` (roll by `+(n//2)`) -/
def fftshiftSrc (n i : Nat) : Nat := (i + (n - n / 2)) % n

/-- `(p - q) mod n` on naturals -/
def subMod (n p q : Nat) : Nat := (p + (n - q % n)) % n

/-- index of the PSF sample that multiplies object sample `q` in image sample `p`:
`(p - q + n//2) mod n` -/
def convSrc (n p q : Nat) : Nat := (p + n / 2 + (n - q % n)) % n

/-- `n·d·fftfreq(n, d)[k]` -/
def fftfreqNum (n k : Nat) : Int := if k < (n + 1) / 2 then (k : Int) else (k : Int) - (n : Int)

/-- `n·dx·forward_ft_unit(dx, n, shift)[i]` -/
def ftUnitNum (n : Nat) (shift : Bool) (i : Nat) : Int :=
  if shift then fftfreqNum n (fftshiftSrc n i) else fftfreqNum n i

/-- reference sample of `mtf_from_psf` & co. -/
def mtfCentre (s : Int) : Int := s / 2

/-! ## the pipelines over abstract array operations -/

/-- array operations named as in the source (`A` arrays, `I` array indices) -/
structure FOps (A I : Type) where
  fft2 : A → A
  ifft2 : A → A
  fftshift : A → A
  ifftshift : A → A
  mul : A → A → A
  real : A → A
  abs : A → A
  angle : A → A
  /-- `a / a[idx]` -/
  divAt : A → I → A

section pipelines
variable {A I : Type} (P : FOps A I)

/-- `prysm.convolution.conv` -/
def conv (obj psf : A) : A :=
  P.real (P.fftshift (P.ifft2 (P.mul (P.fft2 (P.ifftshift obj)) (P.fft2 (P.ifftshift psf)))))

/-- spectrum of the object in the chosen convention -/
def tfPre (shift : Bool) (obj : A) : A :=
  if shift then P.fftshift (P.fft2 (P.ifftshift obj)) else P.fft2 obj

def tfStep (O tf : A) : A := P.mul O tf

def tfPost (shift : Bool) (O : A) : A :=
  if shift then P.real (P.fftshift (P.ifft2 (P.ifftshift O))) else P.real (P.ifft2 O)

/-- `prysm.convolution.apply_transfer_functions` with the transfer functions already evaluated to arrays -/
def applyTF (shift : Bool) (obj : A) (tfs : List A) : A :=
  tfPost P shift (tfs.foldl (tfStep P) (tfPre P shift obj))

/-- `prysm.otf.transform_psf` -/
def transformPsf (psf : A) : A := P.fftshift (P.fft2 (P.ifftshift psf))

def mtf (psf : A) (c : I) : A := P.divAt (P.abs (transformPsf P psf)) c
def ptf (psf : A) (c : I) : A := P.angle (P.divAt (transformPsf P psf) c)
def otf (psf : A) (c : I) : A := P.divAt (transformPsf P psf) c

end pipelines

/-! ## direct sums on functional arrays (the specification side) -/
section direct
variable {K : Type} [Num K]

/-- centred circular convolution, direct double sum: `Σ_{j,i} o[j,i] · h[p-j+m//2, q-i+n//2]` -/
def conv2 (m n : Nat) (o h : Nat → Nat → K) (p q : Nat) : K :=
  Num.sumTo m fun j => Num.sumTo n fun i => o j i * h (convSrc m p j) (convSrc n q i)

/-- circular convolution with the origin at `[0,0]` -/
def cconv2 (m n : Nat) (o h : Nat → Nat → K) (p q : Nat) : K :=
  Num.sumTo m fun j => Num.sumTo n fun i => o j i * h (subMod m p j) (subMod n q i)

/-- total of an array -/
def total (m n : Nat) (o : Nat → Nat → K) : K :=
  Num.sumTo m fun j => Num.sumTo n fun i => o j i

end direct


/-! ## analytic transfer functions (`degredations.py`, `detector.py`); `exp`, `sinc`, `cos`, `π` are parameters -/
section tfs
variable {K : Type} [Num K]

/-- `jitter_ft(fr, scale) = exp(-2 (π·scale·fr)²)` -/
def jitterFt (exp : K → K) (pi fr scale : K) : K :=
  let core := (pi * scale) * fr
  exp (Num.ofInt (-2) * (core * core))

/-- `smear_ft(fx, fy, width, height)`; `wnz`/`hnz` = "width ≠ 0" / "height ≠ 0" -/
def smearFt (sinc : K → K) (fx fy width height : K) (wnz hnz : Bool) : K :=
  (if wnz then sinc (fx * width) else Num.ofInt 1) * (if hnz then sinc (fy * height) else Num.ofInt 1)

def pixelFt (sinc : K → K) (fx fy width_x width_y : K) : K := sinc (fx * width_x) * sinc (fy * width_y)

def olpfFt (cos : K → K) (fx fy width_x width_y : K) : K :=
  cos ((Num.ofInt 2 * width_x) * fx) * cos ((Num.ofInt 2 * width_y) * fy)

/-- `objects.slit_ft(width_x, width_y, fx, fy)`; `hasx`/`hasy` = "width_x is not None" / "width_y is not None"
(crossed slits: the SUM of the two sinc's; one slit: its sinc) -/
def slitFt (sinc : K → K) (fx fy width_x width_y : K) (hasx hasy : Bool) : K :=
  if hasx && hasy then sinc (fx * width_x) + sinc (fy * width_y)
  else if hasx && !hasy then sinc (fx * width_x) else sinc (fy * width_y)

/-- `objects.pinhole_ft(radius, fr) = jinc(fr · (radius · 2π))` -/
def pinholeFt (jinc : K → K) (pi fr radius : K) : K := jinc (fr * ((radius * Num.ofInt 2) * pi))

/-- `otf._difflim_mtf_core(ν) = (2/π)·(arccos ν − ν·sqrt(1 − ν²))` -/
def difflimCore (arccos sqrt : K → K) (pi nu : K) : K :=
  (Num.ofInt 2 / pi) * (arccos nu - nu * sqrt (Num.ofInt 1 - nu * nu))

/-- the normalised frequency of `otf.diffraction_limited_mtf(fno, wavelength, frequencies)`: `|f / extinction|` with
`extinction = 1 / (wavelength/1000 · fno)` [cy/mm], values above 1 clamped to 1 -/
def difflimNu [LT K] [DecidableLT K] (abs : K → K) (f wavelength fno : K) : K :=
  let extinction := Num.ofInt 1 / (wavelength / Num.ofInt 1000 * fno)
  let nu := abs (f / extinction)
  if nu > Num.ofInt 1 then Num.ofInt 1 else nu

/-- `diffraction_limited_mtf(fno, wavelength, frequencies)` at one frequency -/
def difflimMtf [LT K] [DecidableLT K] (arccos sqrt abs : K → K) (pi f wavelength fno : K) : K :=
  difflimCore arccos sqrt pi (difflimNu abs f wavelength fno)

/-- `otf.longexposure_otf(nu, Cn, z, f, lambdabar, h_z_by_r) = exp(−2π² h Cn² · z f^{5/3}/λ³ · ν^{5/3})` after the unit
conversions `ν/10³`, `f/10³`, `λ/10⁶`; `rpow` is the real power, `5/3` its exponent -/
def longExposureOtf (exp : K → K) (rpow : K → K → K) (pi nu Cn z f lambdabar h : K) : K :=
  let nu' := nu / Num.ofInt 1000
  let f' := f / Num.ofInt 1000
  let lam := lambdabar / Num.ofInt 1000000
  let power := Num.ofInt 5 / Num.ofInt 3
  let const1 := -(pi * pi) * Num.ofInt 2 * h * (Cn * Cn)
  let const2 := z * rpow f' power / (lam * lam * lam)
  exp (const1 * const2 * rpow nu' power)

/-- `otf.komogorov(r, r0) = 6.88 (r/r0)^{5/3}` -/
def komogorov (rpow : K → K → K) (r r0 : K) : K := Num.ofFrac 172 25 * rpow (r / r0) (Num.ofInt 5 / Num.ofInt 3)

/-- `otf.estimate_Cn(P, T, Ct) = (79 P / T²) Ct² 10⁻¹²` -/
def estimateCn (P T Ct : K) : K := (Num.ofInt 79 * P / (T * T)) * (Ct * Ct) * Num.ofFrac 1 1000000000000

end tfs

/-! ## materialised arrays and the O(N²) DFT instance of `FOps` (driver) -/

structure Img (K : Type) where
  m : Nat
  n : Nat
  d : Array K

namespace Img
variable {K : Type}

def get [Inhabited K] (a : Img K) (j i : Nat) : K := a.d[j * a.n + i]!

def tab (m n : Nat) (f : Nat → Nat → K) : Img K :=
  ⟨m, n, Array.ofFn (n := m * n) fun t => f (t.val / n) (t.val % n)⟩

def map {L : Type} (f : K → L) (a : Img K) : Img L := ⟨a.m, a.n, a.d.map f⟩

end Img

section floatops
variable {K : Type} [Num K] [Inhabited K]

instance : Inhabited (Cx K) := ⟨⟨default, default⟩⟩

/-- DFT sum with twiddle table `w n t = ζ_n^t` (`t` already reduced mod `n`) -/
def dft2 (w : Nat → Nat → Cx K) (a : Img (Cx K)) : Img (Cx K) :=
  let m := a.m
  let n := a.n
  -- separable: columns first, then rows
  let b : Img (Cx K) := Img.tab m n fun j l =>
    Num.sumTo n fun i => a.get j i * w n ((i * l) % n)
  Img.tab m n fun k l =>
    Num.sumTo m fun j => b.get j l * w m ((j * k) % m)

def rollBy (src0 src1 : Nat → Nat → Nat) (a : Img K) : Img K :=
  Img.tab a.m a.n fun j i => a.get (src0 a.m j) (src1 a.n i)

/-- `FOps` on materialised complex arrays; `w` the forward twiddles, `scale = 1/(m n)`, `absf`, `argf`
are supplied by the driver (`Float.sqrt`, `Float.atan2`) -/
def imgOps (w : Nat → Nat → Cx K) (inv : Nat → K) (absf : Cx K → K) (argf : Cx K → K) :
    FOps (Img (Cx K)) (Nat × Nat) where
  fft2 := dft2 w
  ifft2 a :=
    let wc : Nat → Nat → Cx K := fun n t => Cx.conj (w n t)
    (dft2 wc a).map fun z => Cx.smul (inv (a.m * a.n)) z
  fftshift := rollBy fftshiftSrc fftshiftSrc
  ifftshift := rollBy ifftshiftSrc ifftshiftSrc
  mul a b := Img.tab a.m a.n fun j i => a.get j i * b.get j i
  real a := a.map fun z => Cx.ofReal z.re
  abs a := a.map fun z => Cx.ofReal (absf z)
  angle a := a.map fun z => Cx.ofReal (argf z)
  divAt a c := let z := a.get c.1 c.2; a.map fun x => x / z

end floatops

end Model.C15
