import PrysmVerif.Model.C03
/-!
# C05 — hand-written model of `to_fpm_and_back` on top of the transforms of `Model.C03` (core Lean only)

The metamorphic relations of C05 (linearity, pad-embedding invariance, transpose covariance) are statements
about `Model.C03.mdft1 / mdft2 / fixedSampling`; this file adds the mask-and-return path.
-/
namespace Model.C05
open Model.C03

section
variable {R V : Type} [Num R] [Num V]

/-- a field embedded in a larger zero array with the origin on the origin, both axes -/
def embed (m n m' n' : Nat) (f : Nat → Nat → V) (j i : Nat) : V :=
  padded m m' (fun j0 => padded n n' (f j0) i) j

/-- focus to the mask grid (`My × Mx` samples, constants `αy αx`, shift `(sy, sx)` in mask samples, norm `nf`),
multiply by the mask, return to the `m × n` pupil grid with the inverse kernel and the return leg's own
constants `αy' αx' sy' sx' nb` -/
def maskAndBack (e : R → V) (m n My Mx : Nat) (αy αx sy sx : R) (nf : V) (αy' αx' sy' sx' : R) (nb : V)
    (mask : Nat → Nat → V) (f : Nat → Nat → V) (j i : Nat) : V :=
  mdft2 (fun t => e (-t)) My Mx m n αy' αx' sy' sx' nb
    (fun k l => mdft2 e m n My Mx αy αx sy sx nf f k l * mask k l) j i

/-- `propagation.to_fpm_and_back(wavefunction, dx, efl, wavelength, fpm, fpm_dx, shift)`: the forward leg is
`focus_fixed_sampling(…, dx, efl, λ, fpm_dx, fpm.shape, shift)`, the return leg is
`unfocus_fixed_sampling(…, fpm_dx, efl, λ, dx, wavefunction.shape, shift·dx/fpm_dx)` -/
def toFpmAndBack (e : R → V) (ofR : R → V) (sqrt : R → R) (m n My Mx : Nat) (dx efl lam fpmDx shx shy : R)
    (mask : Nat → Nat → V) (f : Nat → Nat → V) (j i : Nat) : V :=
  let αy : R := axisAlpha (Num.ofInt (m : Int)) dx efl lam fpmDx
  let αx : R := axisAlpha (Num.ofInt (n : Int)) dx efl lam fpmDx
  let αy' : R := axisAlpha (Num.ofInt (My : Int)) fpmDx efl lam dx
  let αx' : R := axisAlpha (Num.ofInt (Mx : Int)) fpmDx efl lam dx
  maskAndBack e m n My Mx αy αx (shiftSamples shy fpmDx) (shiftSamples shx fpmDx) (ofR (sqrt αy * sqrt αx))
    αy' αx' (fpmBackShift shy dx fpmDx) (fpmBackShift shx dx fpmDx) (ofR (sqrt αy' * sqrt αx')) mask f j i

/-- `Wavefront.babinet(efl, lyot, fpm, fpm_dx)` (no mask shift): the field at the Lyot plane is the incoming field minus what
returns through the COMPLEMENT `1 - fpm` of the mask; the Lyot stop multiplies it -/
def babinet (e : R → V) (ofR : R → V) (sqrt : R → R) (m n My Mx : Nat) (dx efl lam fpmDx : R)
    (lyot mask : Nat → Nat → V) (f : Nat → Nat → V) (j i : Nat) : V :=
  lyot j i * (f j i - toFpmAndBack e ofR sqrt m n My Mx dx efl lam fpmDx (Num.ofInt 0) (Num.ofInt 0)
    (fun k l => Num.ofInt 1 - mask k l) f j i)
end

end Model.C05
