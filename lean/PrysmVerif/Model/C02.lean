import PrysmVerif.Model.C01
/-!
# C02 — hand-written executable model: energy, padding, round trips, angular-spectrum transfer function
(core Lean only; builds on the routes of `Model.C01`)
-/
namespace Model.C02
open Model.C01

variable {R K : Type} [Num R] [Num K]

/-! ## energy `Σ x · conj x` (`cj` = complex conjugation) -/

def energy1 (cj : K → K) (n : Nat) (g : Nat → K) : K := Num.sumTo n (fun j => g j * cj (g j))

def energy2 (cj : K → K) (m n : Nat) (f : Nat → Nat → K) : K :=
  Num.sumTo m (fun j => Num.sumTo n (fun i => f j i * cj (f j i)))

/-! ## `pad2d` (constant mode, value 0): the data on an index interval per axis, zero elsewhere -/

def pad2 (shp out : Nat × Nat) (off : Int × Int) (f : Array (Array K)) : Array (Array K) :=
  tab2 out.1 out.2 (fun u v => padv shp.1 off.1 (fun j => padv shp.2 off.2 (rd2 f j) v) u)

/-! ## round trips -/

/-- `unfocus(focus(f, Q=1), Q=1)`: forward route with kernel `e`, backward with the reflected kernel -/
def focusUnfocus (e : R → K) (nrm : R → K) (shp : Nat × Nat) (f : Array (Array K)) : Array (Array K) :=
  fftRoute2 (fun t => e (-t)) nrm shp shp (0, 0) (fftRoute2 e nrm shp shp (0, 0) f)

/-- `idft2(dft2(f, Q, (M,N), shift), Q', (m,n), shift)` with the wiring of the repaired source; `αy`, `αx` are the
constants of the forward leg, `βy`, `βx` those of the return leg -/
def mdftRoundTrip (e : R → K) (nrm : R → K) (shp samples : Nat × Nat) (αy αx βy βx : R) (shift : R × R)
    (f : Nat → Nat → K) (j i : Nat) : K :=
  mdft2 (fun t => e (-t)) nrm wiringAxis0 wiringAxis1 samples shp βy βx βy βx shift
    (fun k l => mdft2 e nrm wiringAxis0 wiringAxis1 shp samples αy αx αy αx shift f k l) j i

/-- the same round trip with the kernel sign, the `fwd` flags of `dft2` / `idft2` and the wiring as parameters -/
def mdftRoundTripG (fwdSign : Int) (dftIsFwd idftIsFwd : Bool) (w0 w1 : AxisWiring) (e : R → K) (nrm : R → K)
    (shp samples : Nat × Nat) (αy αx βy βx : R) (shift : R × R) (f : Nat → Nat → K) (j i : Nat) : K :=
  mdft2G fwdSign idftIsFwd e nrm w0 w1 samples shp βy βx βy βx shift
    (fun k l => mdft2G fwdSign dftIsFwd e nrm w0 w1 shp samples αy αx αy αx shift f k l) j i

/-! ## angular spectrum -/

/-- `fftfreq(n, d)[k] · (n d)`: `0, 1, …, (n−1)//2, −(n//2), …, −1` -/
def fftfreqNum (n k : Nat) : Int := if k < (n + 1) / 2 then (k : Int) else (k : Int) - (n : Int)

def aspFreq (s : Nat) (dx : R) (k : Nat) : R := Num.ofInt (fftfreqNum s k) / (Num.ofInt (s : Int) * dx)

/-- the real number `c(z)·k²` whose character is the transfer function: `exp(−iπ λ z k²) = e(λ z k² / 2)`, `λ` in mm -/
def aspArg (wvl z kk : R) : R := (((wvl / Num.ofInt 1000) * z) * kk) / Num.ofInt 2

def aspTf1 (e : R → K) (s : Nat) (wvl dx z : R) (k : Nat) : K :=
  e (aspArg wvl z (aspFreq s dx k * aspFreq s dx k))

/-- `angular_spectrum_transfer_function(samples, wvl, dx, z) = outer(tfy, tfx)`, `ky ↔ samples[0]`, `kx ↔ samples[1]` -/
def aspTf2 (e : R → K) (shape : Nat × Nat) (wvl dx z : R) (p q : Nat) : K :=
  aspTf1 e shape.1 wvl dx z p * aspTf1 e shape.2 wvl dx z q

/-- `ifft2(fft2(f) · tf)` -/
def aspApply (e : R → K) (shape : Nat × Nat) (tf : Nat → Nat → K) (f : Array (Array K)) : Array (Array K) :=
  let F := dft2KL e shape.1 shape.2 f
  let G := tab2 shape.1 shape.2 (fun p q => rd2 F p q * tf p q)
  idft2KL e shape.1 shape.2 G

/-- `angular_spectrum(field, wvl, dx, z, Q=1)` -/
def asp (e : R → K) (shape : Nat × Nat) (wvl dx z : R) (f : Array (Array K)) : Array (Array K) :=
  aspApply e shape (aspTf2 e shape wvl dx z) f

/-! ### the same with what the translator reads off the source as PARAMETERS -/

/-- `exp(sg·iπ·coef(wvl,z)·k²)` for one axis; `coef` is the generated coefficient of `π k²` -/
def aspTf1G (coef : R → R → R) (sg : Int) (e : R → K) (s : Nat) (wvl dx z : R) (k : Nat) : K :=
  kernS sg e ((coef wvl z * (aspFreq s dx k * aspFreq s dx k)) / Num.ofInt 2)

/-- `outer(tfy, tfx)`: `rowsIdx`/`colsIdx` say which component of `samples` gives the rows / columns -/
def aspTf2G (coef : R → R → R) (sgRows sgCols : Int) (rowsIdx colsIdx : Nat) (e : R → K) (shape : Nat × Nat)
    (wvl dx z : R) (p q : Nat) : K :=
  aspTf1G coef sgRows e (sel rowsIdx shape) wvl dx z p * aspTf1G coef sgCols e (sel colsIdx shape) wvl dx z q

/-- reference coefficient of `π k²`: `(λ/1000)·z` (wavelength µm → mm) -/
def aspCoefRef (wvl z : R) : R := (wvl / Num.ofInt 1000) * z

/-- `norm=` keywords of the `fft2` / `ifft2` calls of one branch of `angular_spectrum` -/
structure AspOpFlags where
  fwdOrtho : Bool
  invOrtho : Bool
deriving DecidableEq, Repr

def aspOpFlagsRef : AspOpFlags := { fwdOrtho := false, invOrtho := false }

/-- `ifft2(fft2(f, norm?) · tf, norm?)`: an `ortho` forward transform divides by `√(K L)`, an `ortho` inverse multiplies by it -/
def aspApplyG (fl : AspOpFlags) (e : R → K) (nrm : R → K) (shape : Nat × Nat) (tf : Nat → Nat → K) (f : Array (Array K)) :
    Array (Array K) :=
  let c : K := nrm (Num.ofInt 1 / Num.ofInt (shape.1 : Int)) * nrm (Num.ofInt 1 / Num.ofInt (shape.2 : Int))
  let y := aspApply e shape tf f
  let y := if fl.fwdOrtho then tab2 shape.1 shape.2 (fun j i => c * rd2 y j i) else y
  if fl.invOrtho then tab2 shape.1 shape.2 (fun j i => rd2 y j i / c) else y

/-- `angular_spectrum(field, wvl, dx, z, Q)` with `Q ≠ 1`: the field is zero-padded to `out` first (and not cropped back) -/
def aspPadded (e : R → K) (shp out : Nat × Nat) (off : Int × Int) (wvl dx z : R) (f : Array (Array K)) : Array (Array K) :=
  asp e out wvl dx z (pad2 shp out off f)

end Model.C02
