import PrysmVerif.Model.C01
/-!
# C02 — hand-written executable model: energy, padding, round trips, angular-spectrum transfer function
(core Lean only; builds on the routes of `Model.C01`)
-/
namespace Model.C02
open Model.C01

variable {R K : Type} [Num R] [Num K]

/-! ## energy `Σ x · conj x` (`cj` = complex conjugation) -/

def energy1 (cj : K → K) (n : Nat) (g : Nat → K) : K := Num.sumTo n (fun j => g j * cj (g j))

def energy2 (cj : K → K) (m n : Nat) (f : Nat → Nat → K) : K :=
  Num.sumTo m (fun j => Num.sumTo n (fun i => f j i * cj (f j i)))

/-! ## `pad2d` (constant mode, value 0): the data on an index interval per axis, zero elsewhere -/

def pad2 (shp out : Nat × Nat) (off : Int × Int) (f : Array (Array K)) : Array (Array K) :=
  tab2 out.1 out.2 (fun u v => padv shp.1 off.1 (fun j => padv shp.2 off.2 (rd2 f j) v) u)

/-! ## round trips -/

/-- `unfocus(focus(f, Q=1), Q=1)`: forward route with kernel `e`, backward with the reflected kernel -/
def focusUnfocus (e : R → K) (nrm : R → K) (shp : Nat × Nat) (f : Array (Array K)) : Array (Array K) :=
  fftRoute2 (fun t => e (-t)) nrm shp shp (0, 0) (fftRoute2 e nrm shp shp (0, 0) f)

/-- `idft2(dft2(f, Q, (M,N), shift), Q', (m,n), shift)` with the wiring of the repaired source; `αy`, `αx` are the
constants of the forward leg, `βy`, `βx` those of the return leg -/
def mdftRoundTrip (e : R → K) (nrm : R → K) (shp samples : Nat × Nat) (αy αx βy βx : R) (shift : R × R)
    (f : Nat → Nat → K) (j i : Nat) : K :=
  mdft2 (fun t => e (-t)) nrm wiringAxis0 wiringAxis1 samples shp βy βx βy βx shift
    (fun k l => mdft2 e nrm wiringAxis0 wiringAxis1 shp samples αy αx αy αx shift f k l) j i

/-! ## angular spectrum -/

/-- `fftfreq(n, d)[k] · (n d)`: `0, 1, …, (n−1)//2, −(n//2), …, −1` -/
def fftfreqNum (n k : Nat) : Int := if k < (n + 1) / 2 then (k : Int) else (k : Int) - (n : Int)

def aspFreq (s : Nat) (dx : R) (k : Nat) : R := Num.ofInt (fftfreqNum s k) / (Num.ofInt (s : Int) * dx)

/-- the real number `c(z)·k²` whose character is the transfer function: `exp(−iπ λ z k²) = e(λ z k² / 2)`, `λ` in mm -/
def aspArg (wvl z kk : R) : R := (((wvl / Num.ofInt 1000) * z) * kk) / Num.ofInt 2

def aspTf1 (e : R → K) (s : Nat) (wvl dx z : R) (k : Nat) : K :=
  e (aspArg wvl z (aspFreq s dx k * aspFreq s dx k))

/-- `angular_spectrum_transfer_function(samples, wvl, dx, z) = outer(tfy, tfx)`, `ky ↔ samples[0]`, `kx ↔ samples[1]` -/
def aspTf2 (e : R → K) (shape : Nat × Nat) (wvl dx z : R) (p q : Nat) : K :=
  aspTf1 e shape.1 wvl dx z p * aspTf1 e shape.2 wvl dx z q

/-- `ifft2(fft2(f) · tf)` -/
def aspApply (e : R → K) (shape : Nat × Nat) (tf : Nat → Nat → K) (f : Array (Array K)) : Array (Array K) :=
  let F := dft2KL e shape.1 shape.2 f
  let G := tab2 shape.1 shape.2 (fun p q => rd2 F p q * tf p q)
  idft2KL e shape.1 shape.2 G

/-- `angular_spectrum(field, wvl, dx, z, Q=1)` -/
def asp (e : R → K) (shape : Nat × Nat) (wvl dx z : R) (f : Array (Array K)) : Array (Array K) :=
  aspApply e shape (aspTf2 e shape wvl dx z) f

/-- `angular_spectrum(field, wvl, dx, z, Q)` with `Q ≠ 1`: the field is zero-padded to `out` first (and not cropped back) -/
def aspPadded (e : R → K) (shp out : Nat × Nat) (off : Int × Int) (wvl dx z : R) (f : Array (Array K)) : Array (Array K) :=
  asp e out wvl dx z (pad2 shp out off f)

end Model.C02
