/-!
# C18 — hand-written model of segmented apertures and mask primitives (core Lean only)

* cube coordinates, the ring walk of `segmented.hex_ring`, ids and exclusion of `_composite_hexagonal_aperture`;
* hexagon centres (`hex_to_xy`) and the regular hexagon as the intersection of three slabs, with `w` for `√3`;
* the clamp arithmetic of `_local_window`;
* composition of per-segment OPD as a sum over windows;
* mask primitives (`geometry.circle / annulus / rectangle / rotated_ellipse / spider`) as predicates.

Scalars: any type with the field operations and the literals `0 1 2 3` (Float, Rat, any Mathlib field).
-/
namespace Model.C18

/-! ## cube coordinates and rings -/

structure Hex where
  q : Int
  r : Int
  s : Int
deriving Repr, DecidableEq

def Hex.add (a b : Hex) : Hex := ⟨a.q + b.q, a.r + b.r, a.s + b.s⟩

/-- `segmented.hex_dirs` -/
def hexDirs : List Hex := [⟨1, 0, -1⟩, ⟨1, -1, 0⟩, ⟨0, -1, 1⟩, ⟨-1, 0, 1⟩, ⟨-1, 1, 0⟩, ⟨0, 1, -1⟩]

/-- emit `n` tiles starting at `t`, stepping by `d`; returns the tiles and the tile reached -/
def walkSide (add : Hex → Hex → Hex) (d : Hex) : Nat → Hex → List Hex × Hex
  | 0, t => ([], t)
  | n + 1, t =>
      let (l, e) := walkSide add d n (add t d)
      (t :: l, e)

/-- the double loop of `hex_ring`: for every direction in turn, `len` tiles -/
def walkRing (add : Hex → Hex → Hex) : List Hex → Nat → Hex → List Hex
  | [], _, _ => []
  | d :: ds, len, t =>
      let (l, e) := walkSide add d len t
      l ++ walkRing add ds len e

/-- `for _ in range(n): results.append(results.pop(0))` -/
def roll {α : Type} : Nat → List α → List α
  | 0, l => l
  | _ + 1, [] => []
  | n + 1, a :: l => roll n (l ++ [a])

/-- `segmented.hex_ring(k)` -/
def hexRing (k : Nat) : List Hex :=
  roll k (walkRing Hex.add hexDirs k ⟨-(k : Int), (k : Int), 0⟩)

def Hex.norm (h : Hex) : Int := max (max h.q.natAbs h.r.natAbs) h.s.natAbs

/-- segment ids of ring `i ≥ 1`: `1 + 3 i (i−1) … 3 i (i+1)` (ids are assigned before exclusion) -/
def ringFirstId (i : Nat) : Nat := 1 + 3 * i * (i - 1)

/-- all `(id, hex)` pairs of an aperture with `rings` rings, centre first -/
def allSegments (rings : Nat) : List (Nat × Hex) :=
  (0, (⟨0, 0, 0⟩ : Hex)) ::
    ((List.range rings).map fun j =>
      let i := j + 1
      (List.range (6 * i)).zip (hexRing i) |>.map fun (p : Nat × Hex) => (ringFirstId i + p.1, p.2)).flatten

def segments (rings : Nat) (exclude : List Nat) : List (Nat × Hex) :=
  (allSegments rings).filter fun p => !exclude.contains p.1

/-! ## the window clamp of `_local_window` (one axis) -/

/-- the two `if`s of the source in sequence: first raise to 0, then lower to `n` -/
def clamp (v n : Int) : Int :=
  let v := if v < 0 then 0 else v
  if v > n then n else v

/-- `samples_per_seg = int(rseg/dx + spsOffset)`; the window is `[c + ic − s, c + ic + s)` -/
def spsOffset : Int := 2

/-- index the code takes for the array centre: `int(ceil(n/2))` -/
def centreIndex (n : Int) : Int := -((-n) / 2)

/-- `c` = index the code takes for the array centre, `ic = int(center/dx)`, `s` = samples per segment,
`n` = axis length -/
def windowLo (c ic s n : Int) : Int := clamp (c + ic - s) n
def windowHi (c ic s n : Int) : Int := clamp (c + ic - s + 2 * s) n

section scalar
variable {K : Type} [Add K] [Sub K] [Mul K] [Div K] [Neg K] [OfNat K 0] [OfNat K 1] [OfNat K 2] [OfNat K 3]

/-! ## centres and hexagons (`w` stands for `√3`) -/

/-- `hex_to_xy` for `rot = 90` (flat-top hexagons: a vertex on the x axis) -/
def center90 (w radius q r : K) : K × K := (3 / 2 * q * radius, (1 / (2 / w) * q + w * r) * radius)

/-- `hex_to_xy` for the other orientation (pointy-top) -/
def center0 (w radius q r : K) : K × K := ((w * q + 1 / (2 / w) * r) * radius, 3 / 2 * r * radius)

/-- circumradius, pitch radius and apothem from the flat-to-flat diameter and the edge-to-edge gap -/
def circumradius (w diameter : K) : K := diameter * (2 / w) / 2
def pitch (w diameter gap : K) : K := circumradius w diameter + gap * (2 / w) / 2
def apothem (w diameter : K) : K := circumradius w diameter * w / 2

/-- projections of `p − c` on the three slab normals of the `rot = 90` hexagon:
`(0,1)`, `(w/2, 1/2)`, `(w/2, −1/2)` -/
def slabs90 (w dx dy : K) : K × K × K := (dy, w / 2 * dx + dy / 2, w / 2 * dx - dy / 2)

/-- `rot = 0`: normals `(1,0)`, `(1/2, w/2)`, `(1/2, −w/2)` -/
def slabs0 (w dx dy : K) : K × K × K := (dx, dx / 2 + w / 2 * dy, dx / 2 - w / 2 * dy)

def slabs (rot90 : Bool) (w dx dy : K) : K × K × K := if rot90 then slabs90 w dx dy else slabs0 w dx dy

/-- closed regular hexagon with apothem `a` centred at `(cx, cy)`: the intersection of three slabs -/
@[reducible] def inSlabs [LE K] (a : K) (t : K × K × K) : Prop :=
  (-a ≤ t.1 ∧ t.1 ≤ a) ∧ (-a ≤ t.2.1 ∧ t.2.1 ≤ a) ∧ (-a ≤ t.2.2 ∧ t.2.2 ≤ a)

@[reducible] def inHex [LE K] (rot90 : Bool) (w a cx cy px py : K) : Prop := inSlabs a (slabs rot90 w (px - cx) (py - cy))

/-- vertices `regular_polygon(6, ρ, center, rotation = 90)` hands to qhull: `ρ (sin, cos)(k·60° + 90°) + centre` -/
def hexVertices90 (w radius x0 y0 : K) : List (K × K) :=
  [(radius * 1 + x0, radius * 0 + y0), (radius * (1 / 2) + x0, radius * (-(w / 2)) + y0),
   (radius * (-(1 / 2)) + x0, radius * (-(w / 2)) + y0), (radius * (-1) + x0, radius * 0 + y0),
   (radius * (-(1 / 2)) + x0, radius * (w / 2) + y0), (radius * (1 / 2) + x0, radius * (w / 2) + y0)]

/-- the same for `rotation = 0` -/
def hexVertices0 (w radius x0 y0 : K) : List (K × K) :=
  [(radius * 0 + x0, radius * 1 + y0), (radius * (w / 2) + x0, radius * (1 / 2) + y0),
   (radius * (w / 2) + x0, radius * (-(1 / 2)) + y0), (radius * 0 + x0, radius * (-1) + y0),
   (radius * (-(w / 2)) + x0, radius * (-(1 / 2)) + y0), (radius * (-(w / 2)) + x0, radius * (1 / 2) + y0)]

/-! ## composition of per-segment OPD -/

/-- one segment as the composer sees it: window `[ylo,yhi) × [xlo,xhi)`, local mask and local tile
(`Σ_k c_k B_k`), both indexed from the window corner -/
structure Seg (K : Type) where
  ylo : Int
  yhi : Int
  xlo : Int
  xhi : Int
  mask : Int → Int → Bool
  tile : Int → Int → K

def Seg.contrib (g : Seg K) (i j : Int) : K :=
  if g.ylo ≤ i ∧ i < g.yhi ∧ g.xlo ≤ j ∧ j < g.xhi then
    (if g.mask (i - g.ylo) (j - g.xlo) then g.tile (i - g.ylo) (j - g.xlo) else 0)
  else 0

/-- `compose_opd`: `out[win] += tile * mask` for every segment in turn -/
def compose (out0 : Int → Int → K) : List (Seg K) → Int → Int → K
  | [], i, j => out0 i j
  | g :: gs, i, j => compose (fun a b => out0 a b + g.contrib a b) gs i j

end scalar

/-! ## mask primitives as predicates (`geometry.py`) -/
section prims
variable {K : Type} [LE K] [LT K] [Add K] [Sub K] [Mul K] [Div K] [Neg K] [OfNat K 0] [OfNat K 1] [OfNat K 2]

@[reducible] def circle (radius r : K) : Prop := r ≤ radius
@[reducible] def annulus (rin rout r : K) : Prop := r ≥ rin ∧ r ≤ rout
/-- `rectangle(width, x, y, height, angle=0)`: half-widths -/
@[reducible] def rectangle (width height x y : K) : Prop := (y ≤ height ∧ y ≥ -height) ∧ (x ≤ width ∧ x ≥ -width)
/-- `rotated_ellipse`: `(c, s) = (cos A, sin A)`, `A = −angle`; inside iff the quadratic form is `≤ 1` -/
@[reducible] def ellipse (a b c s x y : K) : Prop :=
  ¬ ((x * c + y * s) * (x * c + y * s) / (a * a) + (x * s - y * c) * (x * s - y * c) / (b * b) > 1)
/-- one vane of `spider` in the vane's own frame: blocked iff `x > 0 ∧ |y| < width/2` -/
@[reducible] def vane (absK : K → K) (width x y : K) : Prop := x > 0 ∧ absK y < width / 2

/-- one keystone segment (`_composite_keystone_aperture`, branch without wrap-around): the ring
`circle(rin) XOR circle(rout)` intersected with the open angular interval `(lo, hi)` -/
@[reducible] def keySector (rin rout lo hi r t : K) : Prop :=
  ((r ≤ rin ∧ ¬ r ≤ rout) ∨ (¬ r ≤ rin ∧ r ≤ rout)) ∧ (t > lo ∧ t < hi)

/-- the angular mask of one keystone INCLUDING the two wrap-around branches of the source (`pi` stands for `np.pi`,
`t = arctan2(y, x) ∈ [−π, π]`): interval straddling `π` → also `t < hi − 2π`; interval beyond `π` → shifted by `−2π` -/
@[reducible] def keyAng (pi lo hi t : K) : Prop :=
  ((lo < pi ∧ hi > pi) ∧ ((t > lo ∧ t < hi) ∨ t < hi - 2 * pi)) ∨
  (¬ (lo < pi ∧ hi > pi) ∧
    (((lo ≥ pi ∧ hi > pi) ∧ (t > lo - 2 * pi ∧ t < hi - 2 * pi)) ∨
     (¬ (lo ≥ pi ∧ hi > pi) ∧ (t > lo ∧ t < hi))))

/-- a whole keystone segment mask, `arc & ang_mask` with the wrap-around branches -/
@[reducible] def keySegment (pi rin rout lo hi r t : K) : Prop :=
  ((r ≤ rin ∧ ¬ r ≤ rout) ∨ (¬ r ≤ rin ∧ r ≤ rout)) ∧ keyAng pi lo hi t

end prims

/-! ## first-claim ownership of samples (`local_mask &= ~mask[local_window]; mask[local_window] |= local_mask`) -/

/-- one segment at one sample: `prev` = the aperture mask so far, `m` = the segment's polygon mask;
returns (the local mask stored for the segment, the aperture mask afterwards) -/
def claimStep (prev m : Bool) : Bool × Bool :=
  let l := m && !prev
  (l, prev || l)

/-- all segments in construction order at one sample: the stored local-mask values and the final aperture mask -/
def claims (step : Bool → Bool → Bool × Bool) : Bool → List Bool → List Bool × Bool
  | prev, [] => ([], prev)
  | prev, m :: ms =>
      let r := step prev m
      let rest := claims step r.2 ms
      (r.1 :: rest.1, rest.2)

section keyangles
variable {K : Type} [Add K] [Sub K] [Mul K] [Div K] [Neg K] [OfNat K 0] [OfNat K 1] [OfNat K 2] [OfNat K 360]
/-- start angle of keystone `k` of a ring of `nseg` keystones rotated by `rot` degrees: `radians(k·(360/nseg) + rot) − π`
(`rad` stands for `np.radians`) -/
def keyAngle (rad : K → K) (pi k nseg rot : K) : K := rad (k * (360 / nseg) + rot) - pi
/-- angular width of one keystone -/
def keyArc (rad : K → K) (nseg : K) : K := rad (360 / nseg)
/-- `rotation_per_ring = None` means one arc -/
def keyDefaultRot (nseg : K) : K := 360 / nseg
end keyangles

section keyradii
variable {K : Type} [Add K]
/-- ring radii: `inner = previous outer + gap`, `outer = inner + ring width` -/
def keyInner (outerPrev gap : K) : K := outerPrev + gap
def keyOuter (inner width : K) : K := inner + width
end keyradii

end Model.C18
