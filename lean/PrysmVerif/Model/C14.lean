import PrysmVerif.PyPrelude
/-!
# C14 — hand-written model of the instrument-file codecs (core Lean only)

Numbers, bytes and index permutations.  `struct.pack`/text formatting are trusted; everything the
property depends on that is *arithmetic* is here:

* fixed-width integer encodings (little/big endian, two's complement),
* the Zygo header as a table of `(format, lo, hi)` rows written onto a zeroed 834-byte buffer,
* quantisation: Zygo `trunc(x / q)` with an invalid sentinel, Code V `round(x * s)` with `NDA`,
* orientation: flips as permutations of the row-major index,
* truncation: the file is a byte list, `take k` for every `k`, and the reader's zero-extension.

A byte is a `Nat` (`< 256` where it matters); a file is a `List Nat`.
-/
namespace Model.C14

/-! ## fixed-width integers -/

/-- `k` little-endian base-256 digits of `u` -/
def encLE : Nat → Nat → List Nat
  | 0, _ => []
  | k+1, u => (u % 256) :: encLE k (u / 256)

/-- value of a little-endian digit list -/
def decLE : List Nat → Nat
  | [] => 0
  | b :: bs => b + 256 * decLE bs

def encBE (k u : Nat) : List Nat := (encLE k u).reverse
def decBE (l : List Nat) : Nat := decLE l.reverse

/-- two's complement, 32 bit -/
def toU32 (v : Int) : Nat := (v % 4294967296).toNat
def ofU32 (u : Nat) : Int := if u < 2147483648 then (u : Int) else (u : Int) - 4294967296

/-- `struct.pack('>i', v)` / `astype('>i4').tobytes()` of one sample -/
def be32 (v : Int) : List Nat := encBE 4 (toU32 v)
/-- `np.frombuffer(..., dtype='>i4')` of four bytes -/
def de32 (l : List Nat) : Int := ofU32 (decBE l)

/-- two's complement, 16 bit (Code V samples are `int16`) -/
def toU16 (v : Int) : Nat := (v % 65536).toNat
def ofU16 (u : Nat) : Int := if u < 32768 then (u : Int) else (u : Int) - 65536

/-! ## the Zygo header table -/

/-- element type of a `struct` format: `H`/`I` unsigned ints, `f` float32, `s` bytes, `x` pad, `c` char, `B` uint8 -/
inductive Code | u16 | u32 | f32 | str | pad | chr | u8
deriving DecidableEq, Repr

/-- byte order prefix of a `struct` format -/
inductive Endian | big | little | native
deriving DecidableEq, Repr

def Code.unit : Code → Nat
  | .u16 => 2 | .u32 => 4 | .f32 => 4 | .str => 1 | .pad => 1 | .chr => 1 | .u8 => 1

/-- default value of a header field, as the writer hands it to `struct.pack_into` -/
inductive Dflt
  | int (v : Nat)
  | flt (bits : Nat)          -- IEEE-754 bit pattern of the Python double
  | bytes (b : List Nat)      -- utf-8 bytes of the Python string
deriving DecidableEq, Repr

/-- one row of `_zygo_metadata_helper()` -/
structure Row where
  name : String
  endian : Endian
  count : Nat
  code : Code
  lo : Nat
  hi : Nat
  dflt : Dflt
deriving DecidableEq, Repr

/-- `struct.calcsize(fmt)` -/
def Row.size (r : Row) : Nat := r.count * r.code.unit

def Row.isPad (r : Row) : Bool := r.code == .pad

/-- length of the header buffer (`ctypes.create_string_buffer(834)`) -/
def headerLen : Nat := 834

/-- `(byte order, count, code, lo, hi)` of the row called `name` -/
def fieldSpec (table : List Row) (name : String) : Option (Endian × Nat × Code × Nat × Nat) :=
  (table.find? (fun r => r.name == name)).map fun r => (r.endian, r.count, r.code, r.lo, r.hi)

/-- default of the row called `name`, when it is an integer -/
def fieldIntDflt (table : List Row) (name : String) : Option Nat :=
  match table.find? (fun r => r.name == name) with
  | some ⟨_, _, _, _, _, _, .int v⟩ => some v
  | _ => none

/-- pairwise disjoint byte ranges -/
def disjointRows : List Row → Bool
  | [] => true
  | r :: rs => rs.all (fun s => r.hi ≤ s.lo || s.hi ≤ r.lo) && disjointRows rs

/-- every row lies inside the buffer and its byte range has the size of its format -/
def rowsWellFormed (rows : List Row) : Bool :=
  rows.all fun r => r.lo ≤ r.hi && r.hi ≤ headerLen && r.hi - r.lo == r.size

/-- a byte buffer as a function of the offset; `struct.pack_into(fmt, buf, lo, v)` -/
def writeAt (buf : Nat → Nat) (lo : Nat) (bytes : List Nat) : Nat → Nat :=
  fun i => if lo ≤ i ∧ i < lo + bytes.length then bytes.getD (i - lo) 0 else buf i

/-- all fields written one after the other onto a buffer -/
def writeAll (buf : Nat → Nat) : List (Nat × List Nat) → Nat → Nat
  | [] => buf
  | (lo, b) :: rest => writeAll (writeAt buf lo b) rest

/-- `buf[lo:hi]` -/
def slice (buf : Nat → Nat) (lo hi : Nat) : List Nat := (List.range (hi - lo)).map fun i => buf (lo + i)

/-- `struct.pack` of an `s` field: truncate to `count` bytes, pad with NUL -/
def packStr (count : Nat) (b : List Nat) : List Nat := (List.range count).map fun i => b.getD i 0

def f32Bits (x : Float) : Nat := x.toFloat32.toBits.toNat

/-- bytes of one unsigned/float payload in the row's byte order (`native` = little on every supported host; only `B`, `c`, `s`, `x` use it) -/
def packNum (e : Endian) (size v : Nat) : List Nat :=
  match e with
  | .big => encBE size v
  | _ => encLE size v

def unpackNum (e : Endian) (l : List Nat) : Nat :=
  match e with
  | .big => decBE l
  | _ => decLE l

/-- `struct.pack(fmt, default)` before fitting to the field size -/
def Row.rawDflt (r : Row) (d : Dflt) : List Nat :=
  match r.code, d with
  | .u16, .int v => packNum r.endian 2 v
  | .u32, .int v => packNum r.endian 4 v
  | .u8, .int v => packNum r.endian 1 v
  | .f32, .flt bits => packNum r.endian 4 (f32Bits (Float.ofBits (UInt64.ofNat bits)))
  | .f32, .int v => packNum r.endian 4 (f32Bits (Float.ofNat v))
  | .str, .bytes b => b
  | .chr, .bytes b => b
  | _, _ => []

/-- `struct.pack(fmt, default)`: exactly `calcsize(fmt)` bytes (strings are truncated / NUL padded) -/
def Row.packDflt (r : Row) (d : Dflt) : List Nat := packStr r.size (r.rawDflt d)

/-- what the writer puts into the fields it overrides -/
inductive Src
  | keep                      -- the table's default
  | constInt (v : Nat)
  | constFlt (bits : Nat)
  | dxMmToM                   -- `dx / 1e3`
  | wvlUmToM                  -- `wavelength / 1e6`
  | timestamp
  | shape (axis : Nat)        -- `phase.shape[axis]`
  | nbytes                    -- `phase.size * 4`
deriving DecidableEq, Repr

/-- arguments of one `write_zygo_dat` call -/
structure WArgs where
  h : Nat
  w : Nat
  dx : Float
  wvl : Float
  ts : Nat

/-- bytes the writer hands to `struct.pack_into` for a field, before fitting to the field size -/
def Src.raw (a : WArgs) (r : Row) : Src → List Nat
  | .keep => r.rawDflt r.dflt
  | .constInt v => r.rawDflt (.int v)
  | .constFlt b => r.rawDflt (.flt b)
  | .dxMmToM => packNum r.endian 4 (f32Bits (a.dx / 1000.0))
  | .wvlUmToM => packNum r.endian 4 (f32Bits (a.wvl / 1000000.0))
  | .timestamp => r.rawDflt (.int a.ts)
  | .shape ax => r.rawDflt (.int (if ax = 0 then a.h else a.w))
  | .nbytes => r.rawDflt (.int (a.h * a.w * 4))

/-- exactly `calcsize(fmt)` bytes -/
def Row.payload (r : Row) (a : WArgs) (s : Src) : List Nat := packStr r.size (s.raw a r)

/-- the writer's overrides (hand model; `Generated.C14.zygoWriterSets` is proved equal) -/
def writerSets : List (String × Src) :=
  [("scale_factor", .constFlt 0x3FF0000000000000), ("obliquity_factor", .constFlt 0x3FF0000000000000),
   ("lateral_resolution", .dxMmToM), ("timestamp", .timestamp), ("cn_width", .shape 1), ("cn_height", .shape 0),
   ("cn_n_bytes", .nbytes), ("wavelength", .wvlUmToM), ("phase_res", .constInt 1)]

def lookupSrc (sets : List (String × Src)) (name : String) : Src :=
  match sets.find? (fun p => p.1 == name) with
  | some p => p.2
  | none => .keep

/-- the 834 header bytes of a written file -/
def headerBytes (table : List Row) (sets : List (String × Src)) (a : WArgs) : List Nat :=
  let fields := (table.filter (fun r => !r.isPad)).map fun r => (r.lo, r.payload a (lookupSrc sets r.name))
  slice (writeAll (fun _ => 0) fields) 0 headerLen

/-! ## orientation: flips of a row-major `h × w` array as index maps -/

inductive Flip | none | rows | cols | both
deriving DecidableEq, Repr

/-- `out[i] = in[flipIdx k h w i]` (flat row-major indices); `both` is the reversal of the flat buffer -/
def flipIdx (k : Flip) (h w i : Nat) : Nat :=
  match k with
  | .none => i
  | .rows => (h - 1 - i / w) * w + i % w
  | .cols => (i / w) * w + (w - 1 - i % w)
  | .both => h * w - 1 - i

/-- the writer (`np.flipud` of the 2-D map, C-order bytes) and a correct reader -/
def zygoWriteFlip : Flip := .rows
def zygoReadFlip : Flip := .rows
def cvWriteFlip : Flip := .rows
def cvReadFlip : Flip := .rows

/-- apply an index map to a list -/
def permute {α} (d : α) (l : List α) (f : Nat → Nat) : List α :=
  let a := l.toArray      -- O(1) indexing for the driver; `a.getD i d = l.getD i d`
  (List.range l.length).map fun i => a.getD (f i) d

/-! ## Zygo samples -/

def zygoInvalid : Int := 2147483640

/-- `ZYGO_PHASE_RES_FACTORS[1]` -/
def phaseRes1 : Int := 32768

/-- python `int()`/`astype(int)` on a rational: truncation toward zero, as an `Int` -/
def truncRat (x : Rat) : Int := if x < 0 then Rat.ceil x else Rat.floor x

/-- comparison operators of the source (`phase >= ZYGO_INVALID_PHASE`, `a == nda`) -/
inductive Cmp | ge | gt | le | lt | eq | ne
deriving DecidableEq, Repr

def Cmp.holds (c : Cmp) (a b : Int) : Bool :=
  match c with
  | .ge => decide (b ≤ a) | .gt => decide (b < a) | .le => decide (a ≤ b) | .lt => decide (a < b)
  | .eq => decide (a = b) | .ne => decide (a ≠ b)

/-- exact (rational) counts: `trunc(x / q)`, `none` = invalid sample -/
def zygoEncode (q : Rat) : Option Rat → Int
  | none => zygoInvalid
  | some x => truncRat (x / q)

/-- the reader's invalid test and scaling, with the comparison and the sentinel of the source as parameters -/
def zygoDecodeG (cmp : Cmp) (inv : Int) (q : Rat) (n : Int) : Option Rat := if cmp.holds n inv then none else some ((n : Rat) * q)
def zygoDecode (q : Rat) (n : Int) : Option Rat := zygoDecodeG .ge zygoInvalid q n

/-- the writer's pre-quantisation arithmetic, `phase/1e9*(1/sf)` with `sf = (W*S*O)/R`; `W` is the wavelength as the
header stores it: `r32 (wavelength/1e6)`, `r32` = rounding to a 32-bit float (any function, in the theorems) -/
def zygoWritePre (r32 : Rat → Rat) (x wvl : Rat) : Rat :=
  x / 1000000000 * (1 / ((r32 (wvl / 1000000) * 1 * 1) / 32768))

/-- the reader's scaling, `n * (sf*1e9)` with `sf = (W*S*O)/R` from the header -/
def zygoReadValue (n W S O R : Rat) : Rat := n * ((W * S * O) / R * 1000000000)

/-- IEEE double version of the writer's arithmetic (three operations + cast), NaN ↦ sentinel -/
def zygoCountF (wvl x : Float) : Int :=
  if x.isNaN then zygoInvalid
  else
    let W := (wvl / 1000000.0).toFloat32.toFloat
    let sf := (W * 1.0 * 1.0) / 32768.0
    (x / 1000000000.0 * (1.0 / sf)).toInt64.toInt

/-- IEEE version of the reader's arithmetic; `W` is the float32 read from the header.  `prec32`: `config.precision = 32`,
the samples are cast to float32 first and compared / scaled in float32 -/
def zygoValueF (prec32 : Bool) (W S O R : Float) (n : Int) : Float :=
  if prec32 then
    let x := Float32.ofInt n
    if x ≥ Float32.ofInt zygoInvalid then (0.0 / 0.0) else (x * ((W * S * O) / R * 1000000000.0).toFloat32).toFloat
  else if zygoInvalid ≤ n then (0.0 / 0.0) else Float.ofInt n * ((W * S * O) / R * 1000000000.0)

/-- body of the file: samples in file order, big-endian `int32` -/
def bodyBytes (samples : List Int) : List Nat := samples.flatMap be32

/-- sample `j` of the data block at byte offset `off`; bytes past the end read as zero (the reader's zero-extension) -/
def sampleAt (f : List Nat) (off : Nat) : Int :=
  de32 [f.getD off 0, f.getD (off + 1) 0, f.getD (off + 2) 0, f.getD (off + 3) 0]

/-- `sampleAt` on an array -/
def sampleAtA (a : Array Nat) (off : Nat) : Int :=
  de32 [a.getD off 0, a.getD (off + 1) 0, a.getD (off + 2) 0, a.getD (off + 3) 0]

/-- number of bytes the reader appends: `plen*4 - (len(contents) - (header_len + ilen*2))` -/
def modelMissing (plen flen hdr ilen : Int) : Int := plen * 4 - (flen - (hdr + ilen * 2))
/-- number of trailing samples the reader invalidates: `math.ceil(len(missing_buf)/4)` -/
def modelBacktrack (missing : Int) : Int := pyCeilDiv missing 4

/-- lower bound of the slice the reader overwrites with the sentinel: `phase_raw[-backtrack:]` -/
def modelTailLower (backtrack : Int) : Int := -backtrack

/-- first index of the Python slice `x[lo:]` of a length-`n` buffer -/
def sliceStart (n : Nat) (lo : Int) : Nat := if lo < 0 then (n + lo).toNat else min lo.toNat n

/-- the reader's counts in file order for a file of `f.length` bytes that declares `n` samples, with the truncation
arithmetic of the source as parameters (`missingF plen flen hdr ilen`, `backtrackF missing`, lower slice bound `tailF backtrack`, the sentinel);
`none` = the reader raises (header or intensity block incomplete) -/
def readCountsG (missingF : Int → Int → Int → Int → Int) (backtrackF : Int → Int) (tailF : Int → Int) (inv : Int)
    (f : List Nat) (n : Nat) : Option (List Int) :=
  if f.length < headerLen then none
  else
    let a := f.toArray      -- O(1) indexing for the driver
    let missing : Int := missingF n f.length headerLen 0
    if missing ≤ 0 then some ((List.range n).map fun j => sampleAtA a (headerLen + 4 * j))
    else
      let start := sliceStart n (tailF (backtrackF missing))
      some ((List.range n).map fun j => if start ≤ j then inv else sampleAtA a (headerLen + 4 * j))

/-- … with the hand model's arithmetic (what the driver runs) -/
def readCounts (f : List Nat) (n : Nat) : Option (List Int) := readCountsG modelMissing modelBacktrack modelTailLower zygoInvalid f n

/-- was the truncation branch (warning) taken? -/
def readWarns (f : List Nat) (n : Nat) : Bool := headerLen ≤ f.length && f.length < headerLen + 4 * n

/-- `file_contents[lo:hi]` (bytes past the end of a short file read as zero; the reader raises before using them) -/
def fileSlice (f : List Nat) (lo hi : Nat) : List Nat := (List.range (hi - lo)).map fun i => f.getD (lo + i) 0

/-- `struct.unpack(fmt, file_contents[lo:hi])[0]` for the numeric formats: the unsigned value / the float32 bit pattern -/
def Row.unpack (r : Row) (f : List Nat) : Nat := unpackNum r.endian (fileSlice f r.lo r.hi)

/-- bytes of an `s` field with the trailing NULs stripped (`.rstrip('\x00')`) -/
def stripNul (l : List Nat) : List Nat := (l.reverse.dropWhile (· == 0)).reverse

/-- header fields the reader uses (offsets are proved to be those of the generated table) -/
def hdrU16 (f : List Nat) (lo : Nat) : Nat := decBE [f.getD lo 0, f.getD (lo + 1) 0]
def hdrU32 (f : List Nat) (lo : Nat) : Nat := decBE [f.getD lo 0, f.getD (lo + 1) 0, f.getD (lo + 2) 0, f.getD (lo + 3) 0]
def hdrF32 (f : List Nat) (lo : Nat) : Float := (Float32.ofBits (UInt32.ofNat (hdrU32 f lo))).toFloat

def offWidth : Nat := 68
def offHeight : Nat := 70
def offScale : Nat := 164
def offWvl : Nat := 168
def offObliq : Nat := 176
def offLatRes : Nat := 184
def offPhaseRes : Nat := 218

/-- the whole written file -/
def zygoFile (table : List Row) (sets : List (String × Src)) (a : WArgs) (vals : List Float) : List Nat :=
  let counts := vals.map (zygoCountF a.wvl)
  let fileOrder := permute 0 counts (flipIdx zygoWriteFlip a.h a.w)
  headerBytes table sets a ++ bodyBytes fileOrder

/-- the reader on a (possibly truncated) file: `(h, w, lateral_resolution, wavelength, values in output order, warned)` -/
def zygoRead (prec32 : Bool) (f : List Nat) : Option (Nat × Nat × Float × Float × List Float × Bool) :=
  let w := hdrU16 f offWidth
  let h := hdrU16 f offHeight
  match readCounts f (h * w) with
  | none => none
  | some counts =>
    let W := hdrF32 f offWvl
    let S := hdrF32 f offScale
    let O := hdrF32 f offObliq
    let res := hdrU16 f offPhaseRes
    let R : Float := if res = 0 then 4096.0 else if res = 1 then 32768.0 else 131072.0
    let out := permute 0 counts (flipIdx zygoReadFlip h w)
    some (h, w, hdrF32 f offLatRes, W, out.map (zygoValueF prec32 W S O R), readWarns f (h * w))

/-! ## general file layout: `header_size` bytes of header, an intensity block of `ilen` native (little-endian) `uint16`
(`ilen = ac_width * ac_height * max(ac_n_buckets, 1)`), then the phase block.  The library's writer leaves the intensity
block empty (`zygo_written_layout`), instrument files do not. -/

/-- `if ib == 0: ib = 1` -/
def modelBuckets (ib : Int) : Int := if ib = 0 then 1 else ib
/-- `ilen = iw * ih * ib` (after the bucket default) -/
def modelIlen (iw ih ib : Int) : Int := iw * ih * modelBuckets ib
/-- byte offset of the intensity block: `offset=header_len` -/
def modelIntOffset (hdr : Int) : Int := hdr
/-- byte offset of the phase block: `offset=header_len + ilen * 2` -/
def modelPhaseOffset (hdr ilen : Int) : Int := hdr + ilen * 2
/-- `multi_intensity_action` ↦ frame selection: `none` = mean over the frames, `some k` = frame with Python index `k` -/
def modelFrameSel : List (String × Option Int) := [("avg", none), ("first", some 0), ("last", some (-1))]

/-- the reader's counts for a file with a `hdr`-byte header and `ilen` intensity samples, truncation arithmetic of the
source as parameters (as `readCountsG`); `none` = the reader raises (header or intensity block incomplete) -/
def readCountsAtG (missingF : Int → Int → Int → Int → Int) (backtrackF : Int → Int) (tailF : Int → Int) (inv : Int)
    (hdr ilen : Nat) (f : List Nat) (n : Nat) : Option (List Int) :=
  let off := hdr + ilen * 2
  if f.length < off then none
  else
    let a := f.toArray
    let missing : Int := missingF n f.length hdr ilen
    if missing ≤ 0 then some ((List.range n).map fun j => sampleAtA a (off + 4 * j))
    else
      let start := sliceStart n (tailF (backtrackF missing))
      some ((List.range n).map fun j => if start ≤ j then inv else sampleAtA a (off + 4 * j))

def readCountsAt (hdr ilen : Nat) (f : List Nat) (n : Nat) : Option (List Int) :=
  readCountsAtG modelMissing modelBacktrack modelTailLower zygoInvalid hdr ilen f n

def readWarnsAt (hdr ilen : Nat) (f : List Nat) (n : Nat) : Bool :=
  hdr + ilen * 2 ≤ f.length && f.length < hdr + ilen * 2 + 4 * n

/-- intensity sample `i` (native = little-endian `uint16`) of the block at byte offset `hdr` -/
def intensityAt (f : List Nat) (hdr i : Nat) : Nat := decLE [f.getD (hdr + 2 * i) 0, f.getD (hdr + 2 * i + 1) 0]

/-- bytes of an intensity block -/
def intensityBytes (v : List Nat) : List Nat := v.flatMap (encLE 2)

/-- the frame the reader returns: `sel = none`: mean over the `ib` frames (float64), `some k`: frame `k` (Python index) -/
def selectFrame (sel : Option Int) (ib px : Nat) (raw : Array Nat) : List Float :=
  match sel with
  | some k =>
    let fr : Nat := if k < 0 then (ib + k).toNat else k.toNat
    (List.range px).map fun i => Float.ofNat (raw.getD (fr * px + i) 0)
  | none =>
    (List.range px).map fun i =>
      Float.ofNat ((List.range ib).foldl (fun acc b => acc + raw.getD (b * px + i) 0) 0) / Float.ofNat ib

/-- `ZYGO_PHASE_RES_FACTORS`: phase-resolution code of the header ↦ counts per wave factor -/
def modelPhaseRes : List (Nat × Int) := [(0, 4096), (1, 32768), (2, 131072)]
/-- `ZYGO_PHASE_RES_FACTORS[res]`; `none` = `KeyError` (the reader rejects the file) -/
def phaseResOf (table : List (Nat × Int)) (res : Nat) : Option Int := (table.find? (fun p => p.1 == res)).map (·.2)

def offHeaderSize : Nat := 6
def offAcWidth : Nat := 52
def offAcHeight : Nat := 54
def offAcBuckets : Nat := 56

/-- the reader with the layout taken from the header (`header_size`, `ac_width`, `ac_height`, `ac_n_buckets`):
`(h, w, lateral_resolution, wavelength, values, warned, (frames, ih, iw, selected intensity frame))` -/
def zygoReadL (prec32 : Bool) (sel : Option Int) (f : List Nat) :
    Option (Nat × Nat × Float × Float × List Float × Bool × Nat × Nat × Nat × List Float) :=
  if f.length < headerLen then none else
  let w := hdrU16 f offWidth
  let h := hdrU16 f offHeight
  let hdr := hdrU32 f offHeaderSize
  let iw := hdrU16 f offAcWidth
  let ih := hdrU16 f offAcHeight
  let ib := (modelBuckets (hdrU16 f offAcBuckets)).toNat
  let ilen := (modelIlen iw ih (hdrU16 f offAcBuckets)).toNat
  match readCountsAt hdr ilen f (h * w), phaseResOf modelPhaseRes (hdrU16 f offPhaseRes) with
  | none, _ => none
  | _, none => none
  | some counts, some Ri =>
    let W := hdrF32 f offWvl
    let S := hdrF32 f offScale
    let O := hdrF32 f offObliq
    let R : Float := Float.ofInt Ri
    let out := permute 0 counts (flipIdx zygoReadFlip h w)
    let raw := ((List.range ilen).map (intensityAt f hdr)).toArray
    some (h, w, hdrF32 f offLatRes, W, out.map (zygoValueF prec32 W S O R), readWarnsAt hdr ilen f (h * w),
          ib, ih, iw, selectFrame sel ib (ih * iw) raw)

/-! ## Code V grid INT -/

def cvNDA : Int := -32768

/-- the scale factor (integers per µm): the largest magnitude maps to 32767 -/
def cvScale (mn mx eps : Rat) : Rat :=
  let a := if mn < 0 then -mn else mn
  let b := if mx < 0 then -mx else mx
  let peak := max a b
  if peak < eps then 32767 / 1 else 32767 / peak

/-- writer: nm → µm → counts (before rounding) -/
def cvWritePre (x s : Rat) : Rat := x / 1000 * s
/-- reader: counts → nm -/
def cvReadValue (n wvl ssz : Rat) : Rat := n * (1000 * wvl / ssz)

def cvEncode (s : Rat) : Option Rat → Int
  | none => cvNDA
  | some x => pyRoundRat (cvWritePre x s)

def cvDecode (wvl ssz : Rat) (n : Int) : Option Rat := if n = cvNDA then none else some (cvReadValue n wvl ssz)

/-- `GRD <a> <b>`: the reader reshapes to `(b, a)`, so a correct writer emits `(cols, rows)` -/
def cvHeaderDims (h w : Nat) : Nat × Nat := (w, h)
def cvReadShape (tok1 tok2 : Nat) : Nat × Nat := (tok2, tok1)

/-- the divisor search of the writer's text layout: `while size % width != 0: width -= 1` (fuel = the start value) -/
def widthSearch (size : Nat) : Nat → Nat → Nat
  | 0, width => width
  | fuel+1, width => if width ≤ 1 then width else if size % width = 0 then width else widthSearch size fuel (width - 1)

/-- number of text lines `np.savetxt` writes: the largest divisor of `size` that is `≤ 585` -/
def cvLines (size : Nat) : Nat := widthSearch size 585 585

/-- does a reader with this keyword table (keyword, number of values) accept this header token list? -/
def acceptsHeader (table : List (String × Nat)) : Nat → List String → Bool
  | _, [] => true
  | 0, _ => false
  | fuel+1, kw :: rest =>
    match table.find? (fun p => p.1 == kw) with
    | some p => rest.length ≥ p.2 && acceptsHeader table fuel (rest.drop p.2)
    | none => false

/-- round half to even on a double (`np.around`), exact for `|x| < 2^52` -/
def roundHalfEvenF (x : Float) : Float :=
  let f := x.floor
  let d := x - f
  if d < 0.5 then f else if d > 0.5 then f + 1.0
  else if (f / 2.0).floor * 2.0 == f then f else f + 1.0

def fmin (a b : Float) : Float := if b < a then b else a
def fmax (a b : Float) : Float := if a < b then b else a

/-- IEEE double version of the writer's arithmetic: `(scale, counts in map order)`; input values in nm, row-major -/
def cvCountsF (vals : List Float) (eps : Float := 2.220446049250313e-16) : Float × List Int :=
  let um := vals.map (· / 1000.0)
  let valid := um.filter (fun x => !x.isNaN)
  let mn := valid.foldl fmin (valid.headD (0.0 / 0.0))      -- `np.nanmin` of an all-NaN map is NaN
  let mx := valid.foldl fmax (valid.headD (0.0 / 0.0))
  let peak0 := fmax mn.abs mx.abs
  let peak := if peak0 < eps then 1.0 else peak0      -- `np.finfo(array.dtype).eps`
  let scale := 32767.0 / peak
  (scale, um.map fun x => if x.isNaN then cvNDA else (roundHalfEvenF (x * scale)).toInt64.toInt)

/-- the writer: `(scale, counts in file order)` -/
def cvWriteF (h w : Nat) (vals : List Float) (eps : Float := 2.220446049250313e-16) : Float × List Int :=
  let (scale, counts) := cvCountsF vals eps
  (scale, permute 0 counts (flipIdx cvWriteFlip h w))

/-- the reader on the integers of the data block: `ends` = the block ends in white space; when it does not, the last
number may have lost digits and is replaced by `nda` (with a warning).  Result: `(rows, cols, integers in map order, warned)` -/
def cvReadInts (tok1 tok2 : Nat) (nda : Int) (ends : Bool) (ints : List Int) : Option (Nat × Nat × List Int × Bool) :=
  let (h, w) := cvReadShape tok1 tok2
  let ints' := if ends || ints.isEmpty then ints else ints.dropLast ++ [nda]
  if ints'.length ≠ h * w then none
  else some (h, w, permute 0 ints' (flipIdx cvReadFlip h w), !ends && !ints.isEmpty)

/-- IEEE version of the reader's scaling (`prec32`: `config.precision = 32`, the arithmetic is done in float32) -/
def cvValueF (prec32 : Bool) (wvl ssz : Float) (nda : Int) (n : Int) : Float :=
  if n = nda then (0.0 / 0.0)
  else if prec32 then (Float32.ofInt n * (1000.0 * wvl / ssz).toFloat32).toFloat
  else Float.ofInt n * (1000.0 * wvl / ssz)

def cvReadF (prec32 : Bool) (tok1 tok2 : Nat) (wvl ssz : Float) (nda : Int) (ends : Bool) (ints : List Int) :
    Option (Nat × Nat × List Float × Bool) :=
  (cvReadInts tok1 tok2 nda ends ints).map fun (h, w, l, warned) => (h, w, l.map (cvValueF prec32 wvl ssz nda), warned)

/-! ## Code V data block as text: numbers separated by white space, no count, no trailer -/

def isWS (c : Char) : Bool := c == ' ' || c == '\n' || c == '\t' || c == '\r'

/-- `str.split()`: maximal runs of non-blank characters (`cur` = the run being read) -/
def splitWS : List Char → List Char → List (List Char)
  | [], cur => if cur.isEmpty then [] else [cur]
  | c :: cs, cur => if isWS c then (if cur.isEmpty then splitWS cs [] else cur :: splitWS cs []) else splitWS cs (cur ++ [c])

def endsWS (t : List Char) : Bool := match t.getLast? with | some c => isWS c | none => true

/-- what `np.savetxt` writes for the integer tokens: every token followed by a newline -/
def cvDataText (toks : List (List Char)) : List Char := toks.flatMap (· ++ ['\n'])

/-- the reader on the text of the data block (`parse` = text → integer, trusted) -/
def cvReadText (tok1 tok2 : Nat) (nda : Int) (parse : List Char → Int) (t : List Char) : Option (Nat × Nat × List Int × Bool) :=
  cvReadInts tok1 tok2 nda (endsWS t) ((splitWS t []).map parse)

/-! ## Code V preamble: comment lines, title line, header line -/

/-- `txt.lstrip(strip).startswith(marker)` -/
def isBangG (strip : List Char) (marker : Char) (t : List Char) : Bool :=
  match t.dropWhile (fun c => strip.contains c) with
  | c :: _ => c == marker
  | [] => false

/-- `txt[txt.find('\n')+1:]`; `none` when there is no newline (the reader raises) -/
def dropLine : List Char → Option (List Char)
  | [] => none
  | c :: r => if c = '\n' then some r else dropLine r

/-- `txt[:txt.find('\n')]` -/
def takeLine : List Char → List Char
  | [] => []
  | c :: r => if c = '\n' then [] else c :: takeLine r

/-- the reader's comment loop: while the text (after leading `strip` characters) starts with the marker, skip one line -/
def skipCommentsG (strip : List Char) (marker : Char) : Nat → List Char → Option (List Char)
  | 0, t => some t
  | f + 1, t =>
    if isBangG strip marker t then
      match dropLine t with
      | none => none
      | some r => skipCommentsG strip marker f r
    else some t

/-- the preamble of the Code V reader: skip comment lines, then title line, then header line; `none` = raises -/
def cvPreambleG (strip : List Char) (marker : Char) (t : List Char) : Option (List Char × List Char × List Char) :=
  match skipCommentsG strip marker (t.length + 1) t with
  | none => none
  | some t1 =>
    match dropLine t1 with
    | none => none
    | some t2 => some (takeLine t1, takeLine t2, (dropLine t2).getD [])

/-- the characters `lstrip` removes before the comment test, as a sorted set (the order of the source's string is immaterial) -/
def cvStripChars : List Char := ['\t', ' ']
def cvCommentMarker : Char := '!'
def cvPreamble (t : List Char) := cvPreambleG cvStripChars cvCommentMarker t
end Model.C14
