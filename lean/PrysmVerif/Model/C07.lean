import PrysmVerif.Num
/-!
# C07 — hand-written executable models of the polynomial families (core Lean only)

Every definition is written once against `[Num K]`, so the same text runs on `Float` (compared with NumPy
by the harness), on `Rat` (exact), and is reasoned about over a Mathlib field (`Lemmas/C07*.lean`).

The models follow what the code *does* (a three-term recurrence carried as a pair `(p_n, p_{n+1})`);
`Props/C07.lean` proves that this is what the textbook definitions say.
-/
namespace Model.C07

variable {K : Type} [Num K]

/-- the integer `n` as a scalar (Python `int` meeting a `float`/array) -/
@[inline] def nat (n : Nat) : K := Num.ofInt (n : Int)
@[inline] def int (n : Int) : K := Num.ofInt n

/-- Python `for i in range(lo, hi): s = f i s` -/
def forRange {σ : Type} (lo hi : Int) (f : Int → σ → σ) (s : σ) : σ :=
  go (hi - lo).toNat lo s
where
  go : Nat → Int → σ → σ
    | 0, _, s => s
    | k+1, i, s => go k (i + 1) (f i s)

/-! ## Jacobi (DLMF 18.9.1–2; `P_0 = 1`, `P_1` from 18.5.7) -/

/-- `recurrence_abc n α β`, general branch: `P_{n+1} = (A_n x + B_n) P_n − C_n P_{n−1}` -/
def abcK (nn α β : K) : K × K × K :=
  let two : K := nat 2
  let s := two * nn + α + β
  let A := ((s + nat 1) * (s + two)) / (two * (nn + nat 1) * (nn + α + β + nat 1))
  let B := ((α * α - β * β) * (s + nat 1)) / (two * (nn + nat 1) * (nn + α + β + nat 1) * s)
  let C := ((nn + α) * (nn + β) * (s + two)) / ((nn + nat 1) * (nn + α + β + nat 1) * s)
  (A, B, C)

def abc (n : Nat) (α β : K) : K × K × K := abcK (nat n) α β

/-- the `n = 0`, `α+β ∈ {0,−1}` branch of `recurrence_abc` (removable singularity of the general form) -/
def abc0 (α β : K) : K × K × K :=
  (Num.ofFrac 1 2 * (α + β) + nat 1, Num.ofFrac 1 2 * (α - β), nat 1)

def jacP1 (α β x : K) : K := α + nat 1 + (α + β + nat 2) * ((x - nat 1) / nat 2)

/-- `P_{n+1}` from `P_n` (`pm1`) and `P_{n−1}` (`pm2`) -/
def jacStep (n : Nat) (α β x pm1 pm2 : K) : K :=
  let (A, B, C) := abc n α β
  (A * x + B) * pm1 - C * pm2

/-- `(P_n, P_{n+1})` -/
def jacPair (α β x : K) : Nat → K × K
  | 0 => (nat 1, jacP1 α β x)
  | n+1 => let p := jacPair α β x n; (p.2, jacStep (n+1) α β x p.2 p.1)

def jacobi (n : Nat) (α β x : K) : K := (jacPair α β x n).1

def legendre (n : Nat) (x : K) : K := jacobi n (nat 0) (nat 0) x

/-! ## Chebyshev of the four kinds, as the code builds them: normalised Jacobi `(±½, ±½)` -/
def half : K := Num.ofFrac 1 2
def mhalf : K := Num.ofFrac (-1) 2

def cheby1 (n : Nat) (x : K) : K := jacobi n mhalf mhalf x * (nat 1 / jacobi n mhalf mhalf (nat 1))
def cheby2 (n : Nat) (x : K) : K := jacobi n half half x * ((nat n + nat 1) / jacobi n half half (nat 1))
def cheby3 (n : Nat) (x : K) : K := jacobi n mhalf half x * (nat 1 / jacobi n mhalf half (nat 1))
def cheby4 (n : Nat) (x : K) : K :=
  jacobi n half mhalf x * ((nat 2 * nat n + nat 1) / jacobi n half mhalf (nat 1))

/-! ## Hermite (probabilists' `He`, physicists' `H`) -/
def hePair (x : K) : Nat → K × K
  | 0 => (nat 1, x)
  | n+1 => let p := hePair x n; (p.2, x * p.2 - nat (n+1) * p.1)
def hermiteHe (n : Nat) (x : K) : K := (hePair x n).1

def hPair (x : K) : Nat → K × K
  | 0 => (nat 1, nat 2 * x)
  | n+1 => let p := hPair x n; (p.2, nat 2 * x * p.2 - nat 2 * nat (n+1) * p.1)
def hermiteH (n : Nat) (x : K) : K := (hPair x n).1

/-! ## generalized Laguerre (DLMF 18.9.13: `(n+1) L_{n+1} = (2n+α+1−x) L_n − (n+α) L_{n−1}`) -/
def lagPair (α x : K) : Nat → K × K
  | 0 => (nat 1, α + nat 1 - x)
  | n+1 =>
    let p := lagPair α x n
    let k : K := nat (n+1)
    (p.2, nat 1 / (k + nat 1) * ((α + nat 2 * k + nat 1 - x) * p.2 - (α + k) * p.1))
def laguerre (n : Nat) (α x : K) : K := (lagPair α x n).1

/-! ## Dickson (first kind `D_0 = 2`, second kind `E_0 = 1`; `p_{n+2} = x p_{n+1} − a p_n`) -/
def dickPair (p0 : K) (a x : K) : Nat → K × K
  | 0 => (p0, x)
  | n+1 => let p := dickPair p0 a x n; (p.2, x * p.2 - a * p.1)
def dickson1 (n : Nat) (a x : K) : K := (dickPair (nat 2) a x n).1
def dickson2 (n : Nat) (a x : K) : K := (dickPair (nat 1) a x n).1

/-- `kronecker(i, j)` meeting scalars -/
def kroneckerK (i j : Int) : K := if i = j then nat 1 else nat 0

/-! ## Zernike: `R_n^m(r) = r^{|m|} P^{(0,|m|)}_{(n−|m|)/2}(2r²−1)`; norm² `= 2(n+1)/(1+δ_{m0})` -/
def zernikeNormSq (n : Nat) (m : Int) : K :=
  nat 2 * (nat n + nat 1) / (nat 1 + (if m = 0 then nat 1 else nat 0))

def zernikeRadial (n : Nat) (m : Int) (r : K) : K :=
  let am := m.natAbs
  jacobi ((n - am) / 2) (nat 0) (nat am) (nat 2 * (r * r) - nat 1)

/-- `az` is the azimuthal factor: `cos(mθ)` for `m > 0`, `sin(|m|θ)` for `m < 0` (ignored for `m = 0`);
    `σ` is `sqrt (zernikeNormSq n m)` (or `1` for `norm=False`).  Transcendentals are parameters. -/
def zernike (n : Nat) (m : Int) (r az σ : K) : K :=
  if m = 0 then zernikeRadial n m r * σ
  else zernikeRadial n m r * (Num.npow r m.natAbs * az) * σ

/-! ## XY monomials, Hopkins terms, Qcon -/
def xy (m n : Nat) (x y : K) : K := Num.npow x m * Num.npow y n

/-- `az = cos(aθ)` (`a ≥ 0`) or `sin(|a|θ)` (`a < 0`) -/
def hopkins (b c : Nat) (az r H : K) : K := az * Num.npow r b * Num.npow H c

def qcon (n : Nat) (x : K) : K := jacobi n (nat 0) (nat 4) (nat 2 * (x * x) - nat 1) * Num.npow x 4

/-! ## Qbfs (Forbes 2010): auxiliary `f, g, h` (with `sqrt` as a parameter) and the sag polynomials -/

/-- state after `k` steps: `(f_k, f_{k+1}, g_k)`;  `h_k = −(k+2)(k+1) / (2 f_k)` -/
def qbfsH (k : Nat) (fk : K) : K := -(nat (k+2) * nat (k+1)) / (nat 2 * fk)

def qbfsFG (sqrt : K → K) : Nat → K × K × K
  | 0 => (nat 2, sqrt (nat 19) / nat 2, Num.ofFrac (-1) 2)
  | k+1 =>
    let s := qbfsFG sqrt k        -- (f_k, f_{k+1}, g_k)
    let hk := qbfsH k s.1
    let gk1 := -(nat 1 + s.2.2 * hk) / s.2.1
    -- f_{k+2} = sqrt((k+2)(k+3) + 3 − g_{k+1}² − h_k²)
    (s.2.1, sqrt (nat (k+2) * nat (k+3) + nat 3 - gk1 * gk1 - hk * hk), gk1)

def qbfsF (sqrt : K → K) (n : Nat) : K := (qbfsFG sqrt n).1
def qbfsG (sqrt : K → K) (n : Nat) : K := (qbfsFG sqrt n).2.2
/-- `f_qbfs(n)`, `g_qbfs(n)`, `h_qbfs(n)` with Python `int` arguments -/
def qbfsFi (sqrt : K → K) (n : Int) : K := qbfsF sqrt n.toNat
def qbfsGi (sqrt : K → K) (n : Int) : K := qbfsG sqrt n.toNat
def qbfsHi (sqrt : K → K) (n : Int) : K := qbfsH n.toNat (qbfsF sqrt n.toNat)

/-- `(P_n, P_{n+1}, Q_n, Q_{n+1})` in `ρ = x²`: `P_{n+1} = (2−4ρ)P_n − P_{n−1}`,
    `Q_{n+1} = (P_{n+1} − g_n Q_n − h_{n−1} Q_{n−1}) / f_{n+1}` -/
def qbfsPQ (sqrt : K → K) (rho : K) : Nat → K × K × K × K
  | 0 => (nat 2, nat 6 - nat 8 * rho, nat 1, nat 1 / sqrt (nat 19) * (nat 13 - nat 16 * rho))
  | n+1 =>
    let s := qbfsPQ sqrt rho n     -- (P_n, P_{n+1}, Q_n, Q_{n+1})
    let p2 := (nat 2 - nat 4 * rho) * s.2.1 - s.1
    let g := qbfsG sqrt (n+1)
    let h := qbfsH n (qbfsF sqrt n)
    let f := qbfsF sqrt (n+2)
    (s.2.1, p2, s.2.2.2, (p2 - g * s.2.2.2 - h * s.2.2.1) * (nat 1 / f))

def qbfs (sqrt : K → K) (n : Nat) (x : K) : K :=
  let rho := x * x
  (qbfsPQ sqrt rho n).2.2.1 * (rho * (nat 1 - rho))

end Model.C07
