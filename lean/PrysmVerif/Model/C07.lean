import PrysmVerif.Num
/-!
# C07 — hand-written executable models of the polynomial families (core Lean only)

Every definition is written once against `[Num K]`, so the same text runs on `Float` (compared with NumPy
by the harness), on `Rat` (exact), and is reasoned about over a Mathlib field (`Lemmas/C07*.lean`).

The models follow what the code *does* (a three-term recurrence carried as a pair `(p_n, p_{n+1})`);
`Props/C07.lean` proves that this is what the textbook definitions say.
-/
namespace Model.C07

variable {K : Type} [Num K]

/-- the integer `n` as a scalar (Python `int` meeting a `float`/array) -/
@[inline] def nat (n : Nat) : K := Num.ofInt (n : Int)
@[inline] def int (n : Int) : K := Num.ofInt n

/-- Python `for i in range(lo, hi): s = f i s` -/
def forRange {σ : Type} (lo hi : Int) (f : Int → σ → σ) (s : σ) : σ :=
  go (hi - lo).toNat lo s
where
  go : Nat → Int → σ → σ
    | 0, _, s => s
    | k+1, i, s => go k (i + 1) (f i s)

/-! ## Jacobi (DLMF 18.9.1–2; `P_0 = 1`, `P_1` from 18.5.7) -/

/-- `recurrence_abc n α β`, general branch: `P_{n+1} = (A_n x + B_n) P_n − C_n P_{n−1}` -/
def abcK (nn α β : K) : K × K × K :=
  let two : K := nat 2
  let s := two * nn + α + β
  let A := ((s + nat 1) * (s + two)) / (two * (nn + nat 1) * (nn + α + β + nat 1))
  let B := ((α * α - β * β) * (s + nat 1)) / (two * (nn + nat 1) * (nn + α + β + nat 1) * s)
  let C := ((nn + α) * (nn + β) * (s + two)) / ((nn + nat 1) * (nn + α + β + nat 1) * s)
  (A, B, C)

def abc (n : Nat) (α β : K) : K × K × K := abcK (nat n) α β

/-- the `n = 0`, `α+β ∈ {0,−1}` branch of `recurrence_abc` (removable singularity of the general form) -/
def abc0 (α β : K) : K × K × K :=
  (Num.ofFrac 1 2 * (α + β) + nat 1, Num.ofFrac 1 2 * (α - β), nat 1)

def jacP1 (α β x : K) : K := α + nat 1 + (α + β + nat 2) * ((x - nat 1) / nat 2)

/-- `P_{n+1}` from `P_n` (`pm1`) and `P_{n−1}` (`pm2`) -/
def jacStep (n : Nat) (α β x pm1 pm2 : K) : K :=
  let (A, B, C) := abc n α β
  (A * x + B) * pm1 - C * pm2

/-- `(P_n, P_{n+1})` -/
def jacPair (α β x : K) : Nat → K × K
  | 0 => (nat 1, jacP1 α β x)
  | n+1 => let p := jacPair α β x n; (p.2, jacStep (n+1) α β x p.2 p.1)

def jacobi (n : Nat) (α β x : K) : K := (jacPair α β x n).1

def legendre (n : Nat) (x : K) : K := jacobi n (nat 0) (nat 0) x

/-! ## Chebyshev of the four kinds, as the code builds them: normalised Jacobi `(±½, ±½)` -/
def half : K := Num.ofFrac 1 2
def mhalf : K := Num.ofFrac (-1) 2

def cheby1 (n : Nat) (x : K) : K := jacobi n mhalf mhalf x * (nat 1 / jacobi n mhalf mhalf (nat 1))
def cheby2 (n : Nat) (x : K) : K := jacobi n half half x * ((nat n + nat 1) / jacobi n half half (nat 1))
def cheby3 (n : Nat) (x : K) : K := jacobi n mhalf half x * (nat 1 / jacobi n mhalf half (nat 1))
def cheby4 (n : Nat) (x : K) : K :=
  jacobi n half mhalf x * ((nat 2 * nat n + nat 1) / jacobi n half mhalf (nat 1))

/-! ## Hermite (probabilists' `He`, physicists' `H`) -/
def hePair (x : K) : Nat → K × K
  | 0 => (nat 1, x)
  | n+1 => let p := hePair x n; (p.2, x * p.2 - nat (n+1) * p.1)
def hermiteHe (n : Nat) (x : K) : K := (hePair x n).1

def hPair (x : K) : Nat → K × K
  | 0 => (nat 1, nat 2 * x)
  | n+1 => let p := hPair x n; (p.2, nat 2 * x * p.2 - nat 2 * nat (n+1) * p.1)
def hermiteH (n : Nat) (x : K) : K := (hPair x n).1

/-! ## generalized Laguerre (DLMF 18.9.13: `(n+1) L_{n+1} = (2n+α+1−x) L_n − (n+α) L_{n−1}`) -/
def lagPair (α x : K) : Nat → K × K
  | 0 => (nat 1, α + nat 1 - x)
  | n+1 =>
    let p := lagPair α x n
    let k : K := nat (n+1)
    (p.2, nat 1 / (k + nat 1) * ((α + nat 2 * k + nat 1 - x) * p.2 - (α + k) * p.1))
def laguerre (n : Nat) (α x : K) : K := (lagPair α x n).1

/-! ## Dickson (first kind `D_0 = 2`, second kind `E_0 = 1`; `p_{n+2} = x p_{n+1} − a p_n`) -/
def dickPair (p0 : K) (a x : K) : Nat → K × K
  | 0 => (p0, x)
  | n+1 => let p := dickPair p0 a x n; (p.2, x * p.2 - a * p.1)
def dickson1 (n : Nat) (a x : K) : K := (dickPair (nat 2) a x n).1
def dickson2 (n : Nat) (a x : K) : K := (dickPair (nat 1) a x n).1

/-- `kronecker(i, j)` meeting scalars -/
def kroneckerK (i j : Int) : K := if i = j then nat 1 else nat 0

/-! ## Zernike: `R_n^m(r) = r^{|m|} P^{(0,|m|)}_{(n−|m|)/2}(2r²−1)`; norm² `= 2(n+1)/(1+δ_{m0})` -/
def zernikeNormSq (n : Nat) (m : Int) : K :=
  nat 2 * (nat n + nat 1) / (nat 1 + (if m = 0 then nat 1 else nat 0))

def zernikeRadial (n : Nat) (m : Int) (r : K) : K :=
  let am := m.natAbs
  jacobi ((n - am) / 2) (nat 0) (nat am) (nat 2 * (r * r) - nat 1)

/-- `az` is the azimuthal factor: `cos(mθ)` for `m > 0`, `sin(|m|θ)` for `m < 0` (ignored for `m = 0`);
    `σ` is `sqrt (zernikeNormSq n m)` (or `1` for `norm=False`).  Transcendentals are parameters. -/
def zernike (n : Nat) (m : Int) (r az σ : K) : K :=
  if m = 0 then zernikeRadial n m r * σ
  else zernikeRadial n m r * (Num.npow r m.natAbs * az) * σ

/-! ## XY monomials, Hopkins terms, Qcon -/
def xy (m n : Nat) (x y : K) : K := Num.npow x m * Num.npow y n

/-- `az = cos(aθ)` (`a ≥ 0`) or `sin(|a|θ)` (`a < 0`) -/
def hopkins (b c : Nat) (az r H : K) : K := az * Num.npow r b * Num.npow H c

def qcon (n : Nat) (x : K) : K := jacobi n (nat 0) (nat 4) (nat 2 * (x * x) - nat 1) * Num.npow x 4

/-! ## Qbfs (Forbes 2010): auxiliary `f, g, h` (with `sqrt` as a parameter) and the sag polynomials -/

/-- state after `k` steps: `(f_k, f_{k+1}, g_k)`;  `h_k = −(k+2)(k+1) / (2 f_k)` -/
def qbfsH (k : Nat) (fk : K) : K := -(nat (k+2) * nat (k+1)) / (nat 2 * fk)

def qbfsFG (sqrt : K → K) : Nat → K × K × K
  | 0 => (nat 2, sqrt (nat 19) / nat 2, Num.ofFrac (-1) 2)
  | k+1 =>
    let s := qbfsFG sqrt k        -- (f_k, f_{k+1}, g_k)
    let hk := qbfsH k s.1
    let gk1 := -(nat 1 + s.2.2 * hk) / s.2.1
    -- f_{k+2} = sqrt((k+2)(k+3) + 3 − g_{k+1}² − h_k²)
    (s.2.1, sqrt (nat (k+2) * nat (k+3) + nat 3 - gk1 * gk1 - hk * hk), gk1)

def qbfsF (sqrt : K → K) (n : Nat) : K := (qbfsFG sqrt n).1
def qbfsG (sqrt : K → K) (n : Nat) : K := (qbfsFG sqrt n).2.2
/-- `f_qbfs(n)`, `g_qbfs(n)`, `h_qbfs(n)` with Python `int` arguments -/
def qbfsFi (sqrt : K → K) (n : Int) : K := qbfsF sqrt n.toNat
def qbfsGi (sqrt : K → K) (n : Int) : K := qbfsG sqrt n.toNat
def qbfsHi (sqrt : K → K) (n : Int) : K := qbfsH n.toNat (qbfsF sqrt n.toNat)

/-- `(P_n, P_{n+1}, Q_n, Q_{n+1})` in `ρ = x²`: `P_{n+1} = (2−4ρ)P_n − P_{n−1}`,
    `Q_{n+1} = (P_{n+1} − g_n Q_n − h_{n−1} Q_{n−1}) / f_{n+1}` -/
def qbfsPQ (sqrt : K → K) (rho : K) : Nat → K × K × K × K
  | 0 => (nat 2, nat 6 - nat 8 * rho, nat 1, nat 1 / sqrt (nat 19) * (nat 13 - nat 16 * rho))
  | n+1 =>
    let s := qbfsPQ sqrt rho n     -- (P_n, P_{n+1}, Q_n, Q_{n+1})
    let p2 := (nat 2 - nat 4 * rho) * s.2.1 - s.1
    let g := qbfsG sqrt (n+1)
    let h := qbfsH n (qbfsF sqrt n)
    let f := qbfsF sqrt (n+2)
    (s.2.1, p2, s.2.2.2, (p2 - g * s.2.2.2 - h * s.2.2.1) * (nat 1 / f))

def qbfs (sqrt : K → K) (n : Nat) (x : K) : K :=
  let rho := x * x
  (qbfsPQ sqrt rho n).2.2.1 * (rho * (nat 1 - rho))

/-! ## 2D-Q (Forbes 2012, Opt. Express 20(3) 2483, appendix A): `A,B,C` (A.3), `γ`, `F` (A.13), `G` (A.15), `f,g` (A.18),
    auxiliary polynomials `P_n^m` (A.4–A.6 seeds) and `Q_n^m = (P_n^m − g_{n−1}^m Q_{n−1}^m) / f_n^m` -/

/-- `abc_q2d(n, m)`: Forbes (A.3), `n` and `m` read as scalars -/
def q2dAbcK (n m : K) : K × K × K :=
  let two : K := nat 2
  let D := (nat 4 * (n * n) - nat 1) * (m + n - two) * (m + two * n - nat 3)
  let A := ((two * n - nat 1) * (m + two * n - two)) * (nat 4 * n * (m + n - two) + (m - nat 3) * (two * m - nat 1)) / D
  let B := (Num.ofInt (-2) * (two * n - nat 1) * (m + two * n - nat 3) * (m + two * n - two) * (m + two * n - nat 1)) / D
  let C := (n * (two * n - nat 3) * (m + two * n - nat 1) * (two * m + two * n - nat 3)) / D
  (A, B, C)

/-- `k!` and `k!!` as scalars (`scipy.special.factorial`, `factorial2` at non-negative integers) -/
def factK : Nat → K
  | 0 => nat 1
  | k+1 => nat (k+1) * factK k
def fact2K : Nat → K
  | 0 => nat 1
  | 1 => nat 1
  | k+2 => nat (k+2) * fact2K k
def factI (k : Int) : K := factK k.toNat
def fact2I (k : Int) : K := fact2K k.toNat

/-- `gamma(1, m)` of `prysm.mathops` for `m ≥ 2`: `3/8` at `m = 2`, then `γ_1^m = (2m−1)/(2(m−2)) · γ_1^{m−1}` -/
def q2dGamma1 : Nat → K
  | 0 => Num.ofFrac 3 8
  | 1 => Num.ofFrac 3 8
  | 2 => Num.ofFrac 3 8
  | m+3 => nat (2 * (m+2) + 1) / nat (2 * (m+1)) * q2dGamma1 (m+2)

/-- `gamma(n, m)` of `prysm.mathops` for `n ≥ 1`, `m ≥ 2`: `γ_n^m = n(2m+2n−3) / ((m+n−3)(2n−1)) · γ_{n−1}^m`
    (the Python function does not terminate for `n = 0`; the value given here for `n = 0` is never read) -/
def q2dGamma : Nat → Nat → K
  | 0, _ => nat 1
  | 1, m => q2dGamma1 m
  | n+2, m =>
    (nat (n+2) * (nat 2 * nat m + nat 2 * nat (n+2) - nat 3)) / ((nat m + nat (n+2) - nat 3) * (nat 2 * nat (n+2) - nat 1))
      * q2dGamma (n+1) m
def q2dGammaI (n m : Int) : K := q2dGamma n.toNat m.toNat

/-- `G_q2d(n, m)`: Forbes (A.15) -/
def q2dG (n m : Nat) : K :=
  let N : K := nat n
  let Mk : K := nat m
  if n = 0 then fact2K (2 * m - 1) / (Num.npow (nat 2) (m + 1) * factK (m - 1))
  else if m = 1 then
    -((nat 2 * (N * N) - nat 1) * (N * N - nat 1)) / (nat 8 * (nat 4 * (N * N) - nat 1)) - Num.ofFrac 1 24 * kroneckerK n 1
  else
    -((nat 2 * N * (Mk + N - nat 1) - Mk) * ((N + nat 1) * (nat 2 * Mk + nat 2 * N - nat 1)))
        / (((Mk + nat 2 * N - nat 2) * (Mk + nat 2 * N - nat 1)) * ((Mk + nat 2 * N) * (nat 2 * N + nat 1)))
      * q2dGamma n m

/-- `F_q2d(n, m)`: Forbes (A.13) -/
def q2dF (n m : Nat) : K :=
  let N : K := nat n
  let Mk : K := nat m
  if n = 0 ∧ m = 1 then Num.ofFrac 1 4
  else if n = 0 then Mk * Mk * fact2K (2 * m - 3) / (Num.npow (nat 2) (m + 1) * factK (m - 1))
  else if m = 1 then
    (nat 4 * ((N - nat 1) * (N - nat 1)) * (N * N) + nat 1) / (nat 8 * ((nat 2 * N - nat 1) * (nat 2 * N - nat 1)))
      + Num.ofFrac 11 32 * kroneckerK n 1
  else
    let χ := Mk + N - nat 2
    (nat 2 * N * χ * (nat 3 - nat 5 * Mk + nat 4 * N * χ) + Mk * Mk * (nat 3 - Mk + nat 4 * N * χ))
        / (((Mk + nat 2 * N - nat 3) * (Mk + nat 2 * N - nat 2)) * ((Mk + nat 2 * N - nat 1) * (nat 2 * N - nat 1)))
      * q2dGamma n m

/-- `(f_n^m, g_n^m)` (A.18): `f_0 = sqrt F_0`, `g_n = G_n / f_n`, `f_{n+1} = sqrt(F_{n+1} − g_n²)` -/
def q2dFG (sqrt : K → K) (m : Nat) : Nat → K × K
  | 0 => let f := sqrt (q2dF 0 m); (f, q2dG 0 m / f)
  | n+1 =>
    let s := q2dFG sqrt m n
    let f := sqrt (q2dF (n+1) m - s.2 * s.2)
    (f, q2dG (n+1) m / f)
def q2df (sqrt : K → K) (n m : Nat) : K := (q2dFG sqrt m n).1
def q2dg (sqrt : K → K) (n m : Nat) : K := (q2dFG sqrt m n).2
/-- `f_q2d(n, m)`, `g_q2d(n, m)` with Python `int` arguments -/
def q2dfI (sqrt : K → K) (n m : Int) : K := q2df sqrt n.toNat m.toNat
def q2dgI (sqrt : K → K) (n m : Int) : K := q2dg sqrt n.toNat m.toNat
def q2dFI (n m : Int) : K := q2dF n.toNat m.toNat
def q2dGI (n m : Int) : K := q2dG n.toNat m.toNat

/-- `P_1^m(x)`: `1 − x/2` for `m = 1`, `(m − ½) + (1 − m) x` otherwise (A.5, A.6) -/
def q2dP1 (m : Nat) (x : K) : K :=
  if m = 1 then nat 1 - x / nat 2 else (nat m - Num.ofFrac 1 2) + (nat 1 - nat m) * x

/-- `P_{k+2}^m` from `P_k^m` (`pk`) and `P_{k+1}^m` (`pk1`): the hand-seeded `P_2^1`, `P_3^1` (A.6), otherwise (A.2) with `abc(k+1, m)` -/
def q2dPnext (m k : Nat) (x pk pk1 : K) : K :=
  if m = 1 ∧ k = 0 then (nat 3 - x * (nat 12 - nat 8 * x)) / nat 6
  else if m = 1 ∧ k = 1 then (nat 5 - x * (nat 60 - x * (nat 120 - nat 64 * x))) / nat 10
  else
    let t := q2dAbcK (nat (k+1)) (nat m)
    (t.1 + t.2.1 * x) * pk1 - t.2.2 * pk

/-- `(P_n^m, P_{n+1}^m, Q_n^m)` in `x = u²` -/
def q2dPQ (sqrt : K → K) (m : Nat) (x : K) : Nat → K × K × K
  | 0 => (Num.ofFrac 1 2, q2dP1 m x, nat 1 / (nat 2 * q2df sqrt 0 m))
  | k+1 =>
    let s := q2dPQ sqrt m x k
    (s.2.1, q2dPnext m k x s.1 s.2.1, (s.2.1 - q2dg sqrt k m * s.2.2) * (nat 1 / q2df sqrt (k+1) m))

/-- the radial factor `Q_n^m(x)` (without `u^m`), `m ≥ 1` -/
def q2dRadial (sqrt : K → K) (n m : Nat) (x : K) : K := (q2dPQ sqrt m x n).2.2

/-- `Q2d(n, m, r, t)`: `Qbfs(n, r)` for `m = 0`; otherwise `Q_n^{|m|}(r²) · r^{|m|} · az` with `az = cos(mθ)` (`m > 0`) or
    `sin(|m|θ)` (`m < 0`) supplied by the caller -/
def q2d (sqrt : K → K) (n : Nat) (m : Int) (r az : K) : K :=
  if m = 0 then qbfs sqrt n r
  else q2dRadial sqrt n m.natAbs (r * r) * (Num.npow r m.natAbs * az)

end Model.C07
