import PrysmVerif.PyPrelude
/-!
# C11 — hand-written model of the Zernike / XY single-index conventions (core Lean only)

Two layers:

* `Model.C11.Py` : the small run-time the translator output (`Generated/C11.lean`) is written against —
  exact integer meaning of `np.ceil(np.sqrt(.))`, Python list indexing (negative indices, `IndexError`
  as `none`), `for … in range`, fuel-bounded `while`.
* the **closed forms** of the index maps (what the conventions *are*), written independently of the
  source: block index by `Nat.sqrt`, position inside the block, sign / parity rule.

All maps take and return Python ints (`Int`).  They are total; the conventions' index sets are
`j ≥ 0` (ANSI) and `j ≥ 1` (Noll, Fringe, XY).
-/
namespace Model.C11

/-! ## exact square-root helpers -/

/-- exact `⌈√j⌉` -/
def ceilSqrt (j : Nat) : Nat :=
  let s := Nat.sqrt j
  if s * s = j then s else s + 1

/-- `np.ceil(np.sqrt(x))` on a Python int `x ≥ 0`, as the exact integer it denotes -/
def pyCeilSqrt (x : Int) : Int := (ceilSqrt x.toNat : Int)

/-- triangular number `d(d+1)/2` -/
def tri (d : Int) : Int := d * (d + 1) / 2

/-- triangular root: the largest `d` with `d(d+1)/2 ≤ t` -/
def triRoot (t : Nat) : Nat := (Nat.sqrt (8 * t + 1) - 1) / 2

/-- `abs` as the translator writes it -/
def iabs (m : Int) : Int := if m < 0 then -m else m

/-- valid Zernike order pair: `n ≥ |m|`, `n - |m|` even -/
def Valid (n m : Int) : Prop := iabs m ≤ n ∧ (n - iabs m) % 2 = 0

instance (n m : Int) : Decidable (Valid n m) := by unfold Valid; infer_instance

/-! ## closed forms of the conventions -/

/-- ANSI: row `n` holds `j = n(n+1)/2 … n(n+1)/2 + n`, `m = -n, -n+2, …, n` -/
def ansiJToNm (j : Int) : Int × Int :=
  let n : Int := triRoot j.toNat
  (n, 2 * j - n * (n + 2))

def nmToAnsiJ (n m : Int) : Int := (n * (n + 2) + m) / 2

/-- Fringe: block `k² < j ≤ (k+1)²` holds the orders with `n + |m| = 2k`, by increasing `n`,
    cosine (`m ≥ 0`) before sine -/
def fringeToNm (j : Int) : Int × Int :=
  let k : Int := pyCeilSqrt j - 1
  let r : Int := j - k * k - 1
  let n := k + r / 2
  let m := (2 * k - n) * (1 - 2 * (r % 2))
  (n, m)

def nmToFringe (n m : Int) : Int :=
  let am := iabs m
  let h := 1 + (n + am) / 2
  h * h - 2 * am - (if 0 ≤ m then 1 else 0) + 1

/-- Noll: row `n` holds `j = n(n+1)/2 + 1 … n(n+1)/2 + n + 1`, `|m|` non-decreasing along the row
    (`0,2,2,4,4,…` or `1,1,3,3,…`), odd `j` ↦ sine (`m < 0`), even `j` ↦ cosine (`m > 0`) -/
def nollToNm (j : Int) : Int × Int :=
  let n : Int := triRoot (j - 1).toNat
  let p : Int := j - 1 - tri n
  let a : Int := if n % 2 = 0 then 2 * ((p + 1) / 2) else 2 * (p / 2) + 1
  (n, if j % 2 = 1 then -a else a)

/-- the inverse of the Noll map (prysm has none; this is the published rule
    `j = n(n+1)/2 + |m| + {0,1}` with the parity of `j` fixed by the sign of `m`) -/
def nmToNoll (n m : Int) : Int :=
  let a := iabs m
  let base := tri n + a
  if m = 0 then tri n + 1
  else if (0 < m ↔ base % 2 = 0) then base else base + 1

/-- XY (Code V order with piston first): degree `d = a + b` block, `x^d` first, `y^d` last -/
def xyJToMn (j : Int) : Int × Int :=
  let d : Int := triRoot (j - 1).toNat
  let p : Int := j - 1 - tri d
  (d - p, p)

def mnToXyJ (a b : Int) : Int := tri (a + b) + b + 1

/-! ## names of the orders and pairing of the ±m terms (session 3) -/

/-- ordinal ("Primary" = 1, "Secondary" = 2, …) of a non-rotationally-symmetric term, `_name_accessor` for `m ≠ 0`:
    the position of `n` in the column `|m|` (`n = |m|, |m|+2, …`), except that the odd columns start counting at `n = 3`
    (`n = 1` is tilt, so primary coma is `(3, ±1)`; prysm counts every odd column like the coma column) -/
def nameAccessor (n m : Int) : Int :=
  if m % 2 = 1 then (n - 1) / 2 else (n - iabs m) / 2 + 1

/-- ordinal of a spherical term `(n, 0)`, `n ≥ 4` (`Primary Spherical` is `n = 4`) -/
def sphericalAccessor (n : Int) : Int := n / 2 - 1

/-- structure of `nm_to_name (n, m)`: (kind, ordinal, |m| of the name table, suffix) with
    kind 0 `Piston`, 1 `Tilt`, 2 `Defocus`, 3 `<ordinal> Spherical`, 4 `<ordinal> <name of |m|> <suffix>`;
    suffix 0 `X`, 1 `Y`, 2 `00°`, 3 `45°`, 4 none -/
def nameKey (n m : Int) : Int × Int × Int × Int :=
  if n = 0 then (0, 0, 0, 4)
  else if n = 1 then (1, 0, 1, if 0 ≤ m then 0 else 1)
  else if m = 0 then (if n = 2 then (2, 0, 0, 4) else (3, sphericalAccessor n, 0, 4))
  else (4, nameAccessor n m, iabs m, (if m % 2 = 1 then 0 else 2) + (if 0 ≤ m then 0 else 1))

/-- number of blank-separated words of a name, by kind (`Piston`, `Tilt X`, `Defocus`, `<ordinal> Spherical`,
    `<ordinal> <column word> <suffix>`); the ordinal and column words contain no blank (`names_words_have_no_blank`) -/
def nameWords (kind : Int) : Int :=
  if kind = 0 then 1 else if kind = 1 then 2 else if kind = 2 then 1 else if kind = 3 then 2 else 3

/-- key under which `zernikes_to_magnitude_angle_nmkey` collects the `+m` and `-m` terms -/
def magangKey (n m : Int) : Int × Int := (n, iabs m)

/-- the `magangKey`s of a coefficient list in order of first appearance (the insertion order of the `defaultdict`) -/
def firstKeys : List (Int × Int) → List (Int × Int)
  | [] => []
  | p :: rest => magangKey p.1 p.2 :: (firstKeys rest).filter (fun k => k ≠ magangKey p.1 p.2)

/-- the positions of the list whose term has key `k`, ascending (the order in which `append` sees them: the first member of
    a pair is the first argument of `arctan2`) -/
def positionsOf (l : List (Int × Int)) (k : Int × Int) : List Nat :=
  (List.range l.length).filter fun i => match l[i]? with
    | some p => magangKey p.1 p.2 = k
    | none => false

/-- what `zernikes_to_magnitude_angle_nmkey` groups: one entry per key, in order of first appearance, with the positions of its terms
    (written as a specification — quadratic — not as the dict algorithm) -/
def groupByKey (l : List (Int × Int)) : List ((Int × Int) × List Nat) :=
  (firstKeys l).map fun k => (k, positionsOf l k)

/-! ## run-time of the translated Python fragments -/
namespace Py

/-- Python `int(x)` on an exact rational: truncation toward zero -/
def int (x : Rat) : Int := if x < 0 then Rat.ceil x else Rat.floor x

/-- `np.mod(a, b)` / Python `a % b` on exact rationals (floored) -/
def modQ (a b : Rat) : Rat := a - b * ((Rat.floor (a / b) : Int) : Rat)

/-- Python `l[i]` on a list: negative `i` counts from the end; out of range ↦ `none` (`IndexError`) -/
def idx (l : List Int) (i : Int) : Option Int :=
  if 0 ≤ i then l[i.toNat]?
  else if -(l.length : Int) ≤ i then l[((l.length : Int) + i).toNat]?
  else none

/-- `for i in range(n): s = body i s` (`none` propagates) -/
def forAux {σ : Type} (body : Int → σ → Option σ) : Nat → Int → σ → Option σ
  | 0, _, s => some s
  | k + 1, i, s => (body i s).bind (forAux body k (i + 1))

def forRange {σ : Type} (n : Int) (body : Int → σ → Option σ) (s : σ) : Option σ :=
  forAux body n.toNat 0 s

/-- `while cond s: s = body s`, at most `fuel` iterations; `none` when the fuel runs out
    (that this never happens for inputs in scope is a theorem of `Props/C11.lean`) -/
def whileFuel {σ : Type} (cond : σ → Bool) (body : σ → Option σ) : Nat → σ → Option σ
  | 0, s => if cond s then none else some s
  | fuel + 1, s => if cond s then (body s).bind (whileFuel cond body fuel) else some s

end Py

end Model.C11
