import PrysmVerif.Num
/-!
# C13 — hand-written model of `prysm.interferogram.psd / bandlimited_rms / render_synthetic_surface`
(core Lean only)

Axis 0 = rows (length `m`, "y"), axis 1 = columns (length `n`, "x").  Arrays are functions
`Nat → Nat → K`; only the indices `i < m`, `j < n` are read.  The scalar type is any `[Num K]`:
the driver runs the definitions on `Float`, the theorems of `Props/C13.lean` are about the same
definitions over `ℝ`.  `cos`, `sin` and `2π` enter as parameters (`c s : K → K`, `twoPi : K`).
-/
namespace Model.C13

/-! ## index maps (exact integers) -/

/-- `fftfreq(n, d)[k] * (n d)` for `0 ≤ k < n` -/
def fftfreqNum (n k : Int) : Int := if k < (n + 1) / 2 then k else k - n

/-- the three things `psd` can do to an axis around the FFT -/
inductive Rot where
  | none | fftshift | ifftshift
  deriving DecidableEq, Repr

/-- index map of a rotation of a length-`n` axis: `out[i] = in[rotSrc R n i]`.
`fftshift` is `roll(+n//2)`, `ifftshift` is `roll(-(n//2))`. -/
def rotSrc : Rot → Int → Int → Int
  | .none, _, i => i
  | .fftshift, n, i => (i - n / 2) % n
  | .ifftshift, n, i => (i + n / 2) % n

/-- numerator of the frequency of the sample displayed at position `i` when the FFT output is
rotated by `R` (times `n dx`) -/
def shownFreqNum (R : Rot) (n i : Int) : Int := fftfreqNum n (rotSrc R n i)

/-- numerator of the returned axis `forward_ft_unit(dx, n)[i] = fftshift(fftfreq(n, dx))[i]` (times `n dx`) -/
def axisFreqNum (n i : Int) : Int := i - n / 2

/-- array index (as `Nat`) read by a rotation; total (out-of-range only for `n = 0`) -/
def rotIdx (R : Rot) (n i : Nat) : Nat := (rotSrc R (n : Int) (i : Int)).toNat

variable {K : Type} [Num K]

/-! ## the 2-D DFT as the plain double sum, and the PSD -/

/-- `2π (k i / m + l j / n)` -/
def dftAngle (twoPi : K) (m n k l i j : Nat) : K :=
  twoPi * (Num.ofInt ((k * i : Nat) : Int) / Num.ofInt (m : Int) + Num.ofInt ((l * j : Nat) : Int) / Num.ofInt (n : Int))

/-- real part of `Σ_{i<m, j<n} x[i,j] exp(-2πi (k i/m + l j/n))` -/
def dftRe (c : K → K) (twoPi : K) (m n : Nat) (x : Nat → Nat → K) (k l : Nat) : K :=
  Num.sumTo m fun i => Num.sumTo n fun j => x i j * c (dftAngle twoPi m n k l i j)

/-- imaginary part of the same sum -/
def dftIm (s : K → K) (twoPi : K) (m n : Nat) (x : Nat → Nat → K) (k l : Nat) : K :=
  Num.sumTo m fun i => Num.sumTo n fun j => -(x i j * s (dftAngle twoPi m n k l i j))

/-- `|DFT x|²[k,l]` -/
def dftPow (c s : K → K) (twoPi : K) (m n : Nat) (x : Nat → Nat → K) (k l : Nat) : K :=
  let a := dftRe c twoPi m n x k l
  let b := dftIm s twoPi m n x k l
  a * a + b * b

/-- `S2 = Σ w²` -/
def winS2 (m n : Nat) (w : Nat → Nat → K) : K :=
  Num.sumTo m fun i => Num.sumTo n fun j => w i j * w i j

/-- `coef = S2 · fs · fs`, `fs = 1/dx` -/
def psdCoef (S2 dx : K) : K :=
  let fs := Num.ofInt 1 / dx
  S2 * fs * fs

/-- `psd` with the rotations as parameters:
`rot_post(|DFT(rot_pre(h·w))|²) / (S2 · fs²)`, sample `[i, j]` of the returned array -/
def psdRot (pre post : Rot) (c s : K → K) (twoPi : K) (m n : Nat) (dx : K) (h w : Nat → Nat → K)
    (i j : Nat) : K :=
  let x : Nat → Nat → K := fun a b => h (rotIdx pre m a) (rotIdx pre n b) * w (rotIdx pre m a) (rotIdx pre n b)
  dftPow c s twoPi m n x (rotIdx post m i) (rotIdx post n j) / psdCoef (winS2 m n w) dx

/-- the PSD as it must be: the spectrum is `fftshift`-ed so that it sits on the returned axes -/
def psd (c s : K → K) (twoPi : K) (m n : Nat) (dx : K) (h w : Nat → Nat → K) (i j : Nat) : K :=
  psdRot .fftshift .fftshift c s twoPi m n dx h w i j

/-- frequency attached to position `i` of an axis of `n` samples spaced `dx`: `(i - n//2) / (n dx)` -/
def axisFreq (n : Nat) (dx : K) (i : Nat) : K :=
  Num.ofInt (axisFreqNum n i) / (Num.ofInt (n : Int) * dx)

/-! ## trapezoid integration and the band-limited mean square -/

/-- `trapezoid(y, dx=d)` of `n` samples: `Σ_{i<n-1} d (y[i+1] + y[i]) / 2`  (`0` for `n ≤ 1`) -/
def trapz (n : Nat) (d : K) (y : Nat → K) : K :=
  Num.sumTo (n - 1) fun i => d * (y (i + 1) + y i) / Num.ofInt 2

/-- integrate over axis 0 (length `m`, step `dy`), then over what was axis 1 (length `n`, step `dx`) -/
def trapz2 (m n : Nat) (dy dx : K) (P : Nat → Nat → K) : K :=
  trapz n dx fun j => trapz m dy fun i => P i j

/-- `work = psd.copy(); work[r < flow] = 0; work[r > fhigh] = 0` (band closed at both ends);
the comparisons are passed in as decidable relations so that the same definition runs on `Float`
and is reasoned about over `ℝ` -/
def bandMask (lt : K → K → Bool) (flow fhigh : K) (r P : Nat → Nat → K) (i j : Nat) : K :=
  if lt (r i j) flow then Num.ofInt 0 else if lt fhigh (r i j) then Num.ofInt 0 else P i j

/-- comparison kinds that may appear in `work[r <cmp> edge] = 0` -/
inductive Cmp where
  | lt | le | gt | ge
  deriving DecidableEq, Repr

/-- `a <cmp> b`, everything expressed through the one strict comparison `lt` -/
def Cmp.test (lt : K → K → Bool) : Cmp → K → K → Bool
  | .lt, a, b => lt a b
  | .le, a, b => !(lt b a)
  | .gt, a, b => lt b a
  | .ge, a, b => !(lt a b)

/-- the band mask with the two comparison kinds as parameters (what the translator reads off the source):
`work[r <lo> flow] = 0; work[r <hi> fhigh] = 0` -/
def bandMaskGen (lo hi : Cmp) (lt : K → K → Bool) (flow fhigh : K) (r P : Nat → Nat → K) (i j : Nat) : K :=
  if lo.test lt (r i j) flow then Num.ofInt 0 else if hi.test lt (r i j) fhigh then Num.ofInt 0 else P i j

/-- square of `bandlimited_rms` given the two integration steps -/
def brmsSq (lt : K → K → Bool) (m n : Nat) (dy dx flow fhigh : K) (r P : Nat → Nat → K) : K :=
  trapz2 m n dy dx (bandMask lt flow fhigh r P)

/-- Python index `k - 1` into an axis of length `n` (wraps to the last sample for `k = 0`) -/
def pyPrev (n k : Nat) : Nat := (((k : Int) - 1) % (n : Int)).toNat

/-- step along axis 0 as the code measures it: `|r[c0-1, c1] - r[c0, c1]|`, `c = shape // 2` -/
def stepAxis0 (absf : K → K) (m n : Nat) (r : Nat → Nat → K) : K :=
  absf (r (pyPrev m (m / 2)) (n / 2) - r (m / 2) (n / 2))

/-- step along axis 1: `|r[c0, c1-1] - r[c0, c1]|` -/
def stepAxis1 (absf : K → K) (m n : Nat) (r : Nat → Nat → K) : K :=
  absf (r (m / 2) (pyPrev n (n / 2)) - r (m / 2) (n / 2))

/-- square of `bandlimited_rms(r, psd, flow=, fhigh=)` with the steps measured from `r`,
each integration using the step of the axis it runs along -/
def brmsSqOfR (lt : K → K → Bool) (absf : K → K) (m n : Nat) (flow fhigh : K) (r P : Nat → Nat → K) : K :=
  brmsSq lt m n (stepAxis0 absf m n r) (stepAxis1 absf m n r) flow fhigh r P

/-! ## the 1-D form of `bandlimited_rms` (`r`, `psd` one-dimensional: the `r.ndim != 2` branch) -/

/-- the band mask on a 1-D axis (the 2-D mask read on a single column) -/
def bandMask1 (lt : K → K → Bool) (flow fhigh : K) (r P : Nat → K) (i : Nat) : K :=
  bandMask lt flow fhigh (fun a _ => r a) (fun a _ => P a) i 0

/-- square of the 1-D `bandlimited_rms` given the integration step -/
def brms1Sq (lt : K → K → Bool) (n : Nat) (d flow fhigh : K) (r P : Nat → K) : K :=
  trapz n d (bandMask1 lt flow fhigh r P)

/-- step of a 1-D axis as the code measures it: `|r[c-1] - r[c]|`, `c = n // 2` -/
def stepAxis1D (absf : K → K) (n : Nat) (r : Nat → K) : K :=
  absf (r (pyPrev n (n / 2)) - r (n / 2))

/-- square of `bandlimited_rms(r, psd, flow=, fhigh=)` for 1-D `r`, `psd`, the step measured from `r` -/
def brms1SqOfR (lt : K → K → Bool) (absf : K → K) (n : Nat) (flow fhigh : K) (r P : Nat → K) : K :=
  brms1Sq lt n (stepAxis1D absf n r) flow fhigh r P

/-! ## RMS rescale of a synthesised surface -/

/-- `z *= rms / z_rms` -/
def rescale (rho zrms z : K) : K := z * (rho / zrms)

/-- mean square over the first `n` entries of a list of valid samples -/
def meanSq (n : Nat) (z : Nat → K) : K := (Num.sumTo n fun i => z i * z i) / Num.ofInt (n : Int)

end Model.C13
