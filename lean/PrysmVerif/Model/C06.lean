import PrysmVerif.Num
import PrysmVerif.PyPrelude
/-!
# C06 — hand-written executable model of the reverse-mode ("backprop") companions (core Lean only)

Conventions.  `C` is the scalar type of the arrays (complex numbers for the optical nodes, reals for the
optimisation-toolkit nodes), `K` the type of real parameters.  Arrays are total functions of their
indices (`Nat → C`, `Nat → Nat → C`) together with explicit extents; only the values inside the extents
matter.  `conj : C → C` is complex conjugation (`id` for real arrays).  Sums are `Num.sumTo`.

The inner product is `⟨a, b⟩ = Σ conj(a) · b`.  A backprop routine `B` is right for a linear forward
routine `A` iff `⟨y, A x⟩ = ⟨B y, x⟩` for all `x, y`.
-/
set_option linter.unusedVariables false
namespace Model.C06
open Num

abbrev Vec (C : Type) := Nat → C
abbrev Mat (C : Type) := Nat → Nat → C

section linear
variable {C : Type} [Num C]

/-- a tabulated `m × n` array (row major).  The pure definitions below are functions of the indices; the
driver evaluates the `…T` variants, which materialise every intermediate array once (`Tab.ofFn`) so that the
interpreted model stays polynomial-time.  Inside the extents a table returns exactly the tabulated function
(`Tab.fn_ofFn` in `Lemmas/C06Basic.lean`). -/
structure Tab (C : Type) where
  m : Nat
  n : Nat
  a : Array C

def Tab.ofFn (m n : Nat) (f : Mat C) : Tab C :=
  ⟨m, n, Array.ofFn (n := m * n) fun (t : Fin (m * n)) => f (t.val / n) (t.val % n)⟩

def Tab.fn (t : Tab C) : Mat C := fun i j => if i < t.m ∧ j < t.n then t.a.getD (i * t.n + j) (Num.ofInt 0) else Num.ofInt 0

/-- `⟨a, b⟩ = Σ_{i<n} conj(a i) · b i` -/
def ip (conj : C → C) (n : Nat) (a b : Vec C) : C := sumTo n fun i => conj (a i) * b i

/-- `⟨a, b⟩` for `m × n` arrays -/
def ip2 (conj : C → C) (m n : Nat) (a b : Mat C) : C :=
  sumTo m fun i => sumTo n fun j => conj (a i j) * b i j

/-- `A @ B` with inner extent `k` -/
def matmul (k : Nat) (A B : Mat C) : Mat C := fun i j => sumTo k fun l => A i l * B l j

/-- `A.T.conj()` -/
def conjT (conj : C → C) (A : Mat C) : Mat C := fun i j => conj (A j i)

/-- element-wise product -/
def hadamard (A B : Mat C) : Mat C := fun i j => A i j * B i j

/-- `MatrixDFTExecutor.dft2`: `Eout @ ary @ Ein`; `Eo : M×m`, `f : m×n`, `Ei : n×N` -/
def dft2 (M m n N : Nat) (Eo f Ei : Mat C) : Mat C :=
  matmul n (matmul m Eo f) Ei

/-- `MatrixDFTExecutor.idft2`: `Eout @ (ary @ Ein)` -/
def idft2 (M m n N : Nat) (Eo f Ei : Mat C) : Mat C :=
  matmul m Eo (matmul n f Ei)

/-- `dft2_backprop` / `idft2_backprop`: `Eout.T.conj() @ (fbar @ Ein.T.conj())`; `y : M×N`, result `m×n` -/
def dftBack (conj : C → C) (M m n N : Nat) (Eo y Ei : Mat C) : Mat C :=
  matmul M (conjT conj Eo) (matmul N y (conjT conj Ei))

/-- `to_fpm_and_back` as an operator: focus leg (bases `Eo1 : M0×p0`, `Ei1 : p1×M1`), mask (`M0×M1`),
return leg (bases `Eo2 : p0×M0`, `Ei2 : M1×p1`) -/
def fpmFwd (p0 p1 M0 M1 : Nat) (Eo1 Ei1 mask Eo2 Ei2 x : Mat C) : Mat C :=
  idft2 p0 M0 M1 p1 Eo2 (hadamard (dft2 M0 p0 p1 M1 Eo1 x Ei1) mask) Ei2

/-- `to_fpm_and_back_backprop` as an operator.  `sign` and `conjMask` are the two facts the translator
reads off the source: the factor in front of the result and whether the mask is conjugated. -/
def fpmBack (conj : C → C) (sign : C) (conjMask : Bool) (p0 p1 M0 M1 : Nat)
    (Eo1 Ei1 mask Eo2 Ei2 y : Mat C) : Mat C :=
  let mk : Mat C := fun i j => if conjMask then conj (mask i j) else mask i j
  let eb : Mat C := dftBack conj p0 M0 M1 p1 Eo2 y Ei2
  let inter : Mat C := fun i j => sign * eb i j * mk i j
  dftBack conj M0 p0 p1 M1 Eo1 inter Ei1

/-- `Wavefront.babinet`: `x ↦ L ⊙ (x − T x)` -/
def babinetFwd (T : Mat C → Mat C) (L x : Mat C) : Mat C := fun i j => L i j * (x i j - T x i j)

/-- `Wavefront.babinet_backprop`: `cbar = conj L ⊙ y`, result `cbar + coef · B cbar`
(`coef` is read off the source; the adjoint needs `coef = −1` when `B = Tᴴ`) -/
def babinetBack (conj : C → C) (coef : C) (B : Mat C → Mat C) (L y : Mat C) : Mat C :=
  let cbar : Mat C := fun i j => conj (L i j) * y i j
  fun i j => cbar i j + coef * B cbar i j

/-- constant-mode pad along one axis: `n → N` samples, data placed at offset `off` -/
def pad1 (n : Nat) (off : Int) (x : Vec C) : Vec C :=
  fun I => if off ≤ (I : Int) ∧ (I : Int) < off + n then x ((I : Int) - off).toNat else Num.ofInt 0

/-- crop along one axis: output sample `i` is source sample `i + off` -/
def crop1 (off : Int) (y : Vec C) : Vec C := fun i => y ((i : Int) + off).toNat

/-- scatter a small array onto a strided lattice (`poke_arr[lo:hi:step] = act`), zero elsewhere -/
def scatter1 (k : Nat) (lo step : Nat) (a : Vec C) : Vec C :=
  fun I => if lo ≤ I ∧ (I - lo) % step = 0 ∧ (I - lo) / step < k then a ((I - lo) / step) else Num.ofInt 0

/-- gather from the lattice (`arr[lo:hi:step]`) -/
def gather1 (lo step : Nat) (y : Vec C) : Vec C := fun i => y (lo + i * step)

/-- apply a 1-D operator to every row (axis 1) / every column (axis 0) of a 2-D array -/
def mapRows (A : Vec C → Vec C) (x : Mat C) : Mat C := fun i => A (x i)
def mapCols (A : Vec C → Vec C) (x : Mat C) : Mat C := fun i j => A (fun i' => x i' j) i

/-- 2-D versions: the same 1-D index map on each axis (axis 1 first, then axis 0) -/
def pad2 (m n : Nat) (oy ox : Int) (x : Mat C) : Mat C := mapCols (pad1 m oy) (mapRows (pad1 n ox) x)
def crop2 (oy ox : Int) (y : Mat C) : Mat C := mapRows (crop1 ox) (mapCols (crop1 oy) y)
def scatter2 (ky kx loy stepy lox stepx : Nat) (a : Mat C) : Mat C :=
  mapCols (scatter1 ky loy stepy) (mapRows (scatter1 kx lox stepx) a)
def gather2 (loy stepy lox stepx : Nat) (y : Mat C) : Mat C :=
  mapRows (gather1 lox stepx) (mapCols (gather1 loy stepy) y)

/-- Fourier filtering `x ↦ G1 @ (H ⊙ (F1 @ x @ F2)) @ G2` (with `F` the DFT matrices and `G` their
inverses this is `ifft2(fft2(x) * H)`, the core of `apply_transfer_functions(shift=False)`) -/
def filter2 (m n : Nat) (F1 F2 G1 G2 H x : Mat C) : Mat C :=
  idft2 m m n n G1 (hadamard (dft2 m m n n F1 x F2) H) G2

/-- `DM.render` without rotation / resampling as an operator on the actuator array: scatter onto the lattice,
Fourier-filter with `H`, scale by the real factor `c` (`2·obliquity` or `1`), then pad to the output size … -/
def dmRenderPad (ky kx loy sty lox stx m n : Nat) (oy ox : Int) (F1 F2 G1 G2 H : Mat C) (c : C) (a : Mat C) : Mat C :=
  pad2 m n oy ox (fun i j => c * filter2 m n F1 F2 G1 G2 H (scatter2 ky kx loy sty lox stx a) i j)

/-- … and `render_backprop` for that geometry: crop, scale, filter with `conj H`, gather -/
def dmBackPad (conj : C → C) (loy sty lox stx m n : Nat) (oy ox : Int) (F1 F2 G1 G2 H : Mat C) (c : C) (y : Mat C) : Mat C :=
  gather2 loy sty lox stx (filter2 m n F1 F2 G1 G2 (fun i j => conj (H i j)) (fun i j => c * crop2 oy ox y i j))

/-- the cropping geometry (output `M × N` smaller than the influence-function grid `m × n`) -/
def dmRenderCrop (ky kx loy sty lox stx m n : Nat) (oy ox : Int) (F1 F2 G1 G2 H : Mat C) (c : C) (a : Mat C) : Mat C :=
  crop2 oy ox (fun i j => c * filter2 m n F1 F2 G1 G2 H (scatter2 ky kx loy sty lox stx a) i j)

def dmBackCrop (conj : C → C) (loy sty lox stx m n M N : Nat) (oy ox : Int) (F1 F2 G1 G2 H : Mat C) (c : C) (y : Mat C) : Mat C :=
  gather2 loy sty lox stx (filter2 m n F1 F2 G1 G2 (fun i j => conj (H i j)) (fun i j => c * pad2 M N oy ox y i j))

/-- the adjoint of each array operation of `DM.render`, by the tag the translator gives it -/
def dmAdjointOf (step : String) : String :=
  if step = "scatter" then "gather" else if step = "filter" then "filter_conj"
  else if step = "warp_proj" then "warp_invproj" else if step = "scale" then "scale"
  else if step = "resample" then "resample_adj" else if step = "resize" then "resize" else "?"

/-- the modal sum `w ↦ Σ_k w_k M_k` and its companion `d ↦ (Σ_ij M_k[i,j] d[i,j])_k` -/
def modalSum (k : Nat) (modes : Nat → Mat C) (w : Vec C) : Mat C :=
  fun i j => sumTo k fun l => modes l i j * w l
def modalBack (m n : Nat) (modes : Nat → Mat C) (d : Mat C) : Vec C :=
  fun l => sumTo m fun i => sumTo n fun j => modes l i j * d i j

/-- `SpatialGradient2D.forward_*` along one axis: `out[i] = x[i+1] − x[i]` for `1 ≤ i ≤ n−2`, else `0` -/
def diffFwd (n : Nat) (x : Vec C) : Vec C :=
  fun i => if 1 ≤ i ∧ i + 1 < n then x (i + 1) - x i else Num.ofInt 0

/-- its adjoint: `y[j−1]` arrives at `j` (for `2 ≤ j ≤ n−1`), `−y[j]` stays at `j` (for `1 ≤ j ≤ n−2`) -/
def diffBack (n : Nat) (y : Vec C) : Vec C :=
  fun j => (if 2 ≤ j ∧ j < n then y (j - 1) else Num.ofInt 0) - (if 1 ≤ j ∧ j + 1 < n then y j else Num.ofInt 0)

/-! ### NumPy slice-assignment interpreter (for the translated `SpatialGradient2D` bodies) -/

/-- one statement `out[tlo:thi] (=|+=|-=) Σ sign · src[lo:hi]`; `op = 0` assign, `1` add, `-1` subtract -/
structure SgUpd where
  op : Int
  tlo : Int
  thi : Int
  terms : List (Int × Int × Int)

/-- Python slice bound normalisation for an axis of length `n`: negative bounds count from the end, then clamp -/
def pyBound (n : Nat) (b : Int) : Int :=
  let b' := if b < 0 then b + n else b
  if b' < 0 then 0 else if b' > n then n else b'

/-- value of `Σ sign · src[lo:hi]` at offset `k` into the slice -/
def sgRhs (n : Nat) (x : Vec C) (terms : List (Int × Int × Int)) (k : Int) : C :=
  terms.foldl (fun acc t => acc + Num.ofInt t.1 * x (pyBound n t.2.1 + k).toNat) (Num.ofInt 0)

/-- run the statements in order on a zero-initialised output (`np.zeros_like`) -/
def sgApply (n : Nat) (upds : List SgUpd) (x : Vec C) : Vec C :=
  upds.foldl (fun (out : Vec C) u =>
    fun j =>
      let lo := pyBound n u.tlo
      let hi := pyBound n u.thi
      if lo ≤ (j : Int) ∧ (j : Int) < hi then
        let r := sgRhs n x u.terms ((j : Int) - lo)
        if u.op = 0 then r else if u.op = 1 then out j + r else out j - r
      else out j) (fun _ => Num.ofInt 0)

/-! ### `fourier_resample` / `fourier_resample_backprop` (prysm/fttools.py, prysm/x/dm.py) -/

/-- source index of `np.roll(x, s)` along an axis of length `n`, for `0 ≤ s ≤ n`: `out[i] = x[(i − s) mod n]`
(`fftshift` rolls by `n // 2`, `ifftshift` by `n − n // 2`) -/
def rollIdx (n s i : Nat) : Nat := if i < s then i + n - s else i - s

/-- roll both axes of an `m × n` array -/
def roll2 (m n sy sx : Nat) (x : Mat C) : Mat C := fun i j => x (rollIdx m sy i) (rollIdx n sx j)

/-- `fourier_resample` as a complex-linear operator: roll (`ifftshift`), `fft2` (`F1 @ · @ F2`), roll (`fftshift`),
`mdft.idft2` with the bases `Eo : M×m`, `Ei : n×N`, scale by `c`; the roll amounts are parameters (translated from the source) -/
def resampleFwd (m n M N preY preX postY postX : Nat) (F1 F2 Eo Ei : Mat C) (c : C) (f : Mat C) : Mat C :=
  fun i j => c * idft2 M m n N Eo (roll2 m n postY postX (dft2 m m n n F1 (roll2 m n preY preX f) F2)) Ei i j

/-- `fourier_resample_backprop`: `idft2_backprop`, roll, `ifft2` (`G1 @ (· @ G2)`), roll, scale by `c` -/
def resampleBack (conj : C → C) (m n M N preY preX postY postX : Nat) (G1 G2 Eo Ei : Mat C) (c : C) (y : Mat C) : Mat C :=
  fun i j => c * roll2 m n postY postX (idft2 m m n n G1 (roll2 m n preY preX (dftBack conj M m n N Eo y Ei)) G2) i j

/-- `.real` of an array, written with the conjugation only: `(x + conj x) / 2` (over `ℂ` this is `Re x`) -/
def realPart (conj : C → C) (x : Mat C) : Mat C := fun i j => (x i j + conj (x i j)) / Num.ofInt 2

/-- the adjoint of each array operation of `fourier_resample`, by the tag the translator gives it
(`fft2ᴴ = size · ifft2`: the size factor is accounted for by the translated scale factors) -/
def resampleAdjointOf (step : String) : String :=
  if step = "ifftshift" then "fftshift" else if step = "fftshift" then "ifftshift"
  else if step = "fft2" then "ifft2" else if step = "idft2" then "idft2_backprop"
  else if step = "real" then "real" else if step = "scale" then "scale" else "?"

/-- the tabulated pipeline the driver runs for `fourier_resample_backprop` -/
def resampleBackT (conj : C → C) (m n M N preY preX postY postX : Nat) (G1 G2 Eo Ei : Mat C) (c : C) (y : Mat C) : Tab C :=
  let t0 := Tab.ofFn M n (matmul N y (conjT conj Ei))
  let t1 := Tab.ofFn m n (matmul M (conjT conj Eo) t0.fn)
  let t2 := Tab.ofFn m n (roll2 m n preY preX t1.fn)
  let t3 := Tab.ofFn m n (matmul n t2.fn G2)
  let t4 := Tab.ofFn m n (matmul m G1 t3.fn)
  Tab.ofFn m n fun i j => c * roll2 m n postY postX t4.fn i j

end linear

/-! ## nodes with real parameters -/
section realnodes
variable {K : Type} [Num K]

/-- `Q_for_sampling` -/
def qForSampling (inputDiameter propDist wavelength outputDx : K) : K :=
  (wavelength * propDist) / inputDiameter / outputDx

/-- per-axis Q of `focus_fixed_sampling` / `unfocus_fixed_sampling` for an input axis of `s` samples -/
def fixedQ (s inputDx propDist wavelength outputDx : K) : K :=
  qForSampling (s * inputDx) propDist wavelength outputDx

/-- `exp(-2πi t)` from `cos`, `sin` -/
def cis (cosf sinf : K → K) (twoPi t : K) : Cx K := ⟨cosf (twoPi * t), -(sinf (twoPi * t))⟩

/-- centred coordinate `j − n//2 − shift` -/
def coord (n j : Nat) (shift : K) : K := Num.ofInt ((j : Int) - ((n / 2 : Nat) : Int)) - shift

/-- `MatrixDFTExecutor._setup_bases`, `Eout` (`Nb × Na`): `Eout[k, j] = scale · e(σ · Y_j V_k / (Na Q))`,
`σ = 1` forward, `−1` inverse; `shift` is `shift[1]` for axis 0 -/
def basisOut (cosf sinf : K → K) (twoPi sigma : K) (Na Nb : Nat) (Q shift scale : K) : Mat (Cx K) :=
  fun k j => Cx.smul scale (cis cosf sinf twoPi
    (sigma * (coord Na j shift * coord Nb k shift) / (Num.ofInt (Na : Int) * Q)))

/-- `Ein` (`Ma × Mb`): `Ein[i, l] = scale · e(σ · X_i U_l / (Ma Q))`; `shift` is `shift[0]` for axis 1 -/
def basisIn (cosf sinf : K → K) (twoPi sigma : K) (Ma Mb : Nat) (Q shift scale : K) : Mat (Cx K) :=
  fun i l => Cx.smul scale (cis cosf sinf twoPi
    (sigma * (coord Ma i shift * coord Mb l shift) / (Num.ofInt (Ma : Int) * Q)))

/-- the bases of a matrix DFT with input `(m, n)`, output `(M, N)`, per-axis `(Qy, Qx)`, shift `(sx, sy)` in
output samples; `Eout` carries `sqrt(1/(n Qx))`, `Ein` carries `sqrt(1/(m Qy))` as in the source -/
def mdftBases (cosf sinf sqrtf : K → K) (twoPi sigma : K) (m n M N : Nat) (Qy Qx sx sy : K) :
    Mat (Cx K) × Mat (Cx K) :=
  let normy := sqrtf (Num.ofInt 1 / (Num.ofInt (m : Int) * Qy))
  let normx := sqrtf (Num.ofInt 1 / (Num.ofInt (n : Int) * Qx))
  (basisOut cosf sinf twoPi sigma m M Qy sy normx,
   basisIn cosf sinf twoPi sigma n N Qx sx normy)

/-- `dft2_backprop(y, Q, samples_in=(m,n), shift)` (σ = 1) / `idft2_backprop` (σ = −1) -/
def mdftBack (cosf sinf sqrtf : K → K) (twoPi sigma : K) (m n M N : Nat) (Qy Qx sx sy : K)
    (y : Mat (Cx K)) : Mat (Cx K) :=
  let b := mdftBases cosf sinf sqrtf twoPi sigma m n M N Qy Qx sx sy
  dftBack Cx.conj M m n N b.1 y b.2

/-- forward counterparts (used by the driver for the operator-level checks) -/
def mdftFwd (cosf sinf sqrtf : K → K) (twoPi sigma : K) (m n M N : Nat) (Qy Qx sx sy : K)
    (x : Mat (Cx K)) : Mat (Cx K) :=
  let b := mdftBases cosf sinf sqrtf twoPi sigma m n M N Qy Qx sx sy
  dft2 M m n N b.1 x b.2

/-- `focus_fixed_sampling_backprop(y, input_dx, prop_dist, wavelength, output_dx, (m,n), shift)` (σ = 1) and
`unfocus_fixed_sampling_backprop` (σ = −1): the forward's per-axis Q and `shift / output_dx` -/
def fixedBack (cosf sinf sqrtf : K → K) (twoPi sigma : K) (m n M N : Nat)
    (inputDx propDist wavelength outputDx sx sy : K) (y : Mat (Cx K)) : Mat (Cx K) :=
  mdftBack cosf sinf sqrtf twoPi sigma m n M N
    (fixedQ (Num.ofInt (m : Int)) inputDx propDist wavelength outputDx)
    (fixedQ (Num.ofInt (n : Int)) inputDx propDist wavelength outputDx)
    (sx / outputDx) (sy / outputDx) y

/-- `to_fpm_and_back_backprop`: pupil `(p0,p1)`, mask `(M0,M1)`; out with `shift`, back with `shift·dx/fpm_dx` -/
def fpmBackFull (cosf sinf sqrtf : K → K) (twoPi : K) (p0 p1 M0 M1 : Nat)
    (dx efl wavelength fpmDx sx sy : K) (mask y : Mat (Cx K)) : Mat (Cx K) :=
  let eb := fixedBack cosf sinf sqrtf twoPi (Num.ofInt (-1)) M0 M1 p0 p1 fpmDx efl wavelength dx
              (sx * dx / fpmDx) (sy * dx / fpmDx) y
  let inter : Mat (Cx K) := fun i j => eb i j * Cx.conj (mask i j)
  fixedBack cosf sinf sqrtf twoPi (Num.ofInt 1) p0 p1 M0 M1 dx efl wavelength fpmDx sx sy inter

/-- `to_fpm_and_back` itself with the same bases (the forward operator whose adjoint `fpmBackFull` must be) -/
def fpmFwdFull (cosf sinf sqrtf : K → K) (twoPi : K) (p0 p1 M0 M1 : Nat)
    (dx efl wavelength fpmDx sx sy : K) (mask x : Mat (Cx K)) : Mat (Cx K) :=
  let b1 := mdftBases cosf sinf sqrtf twoPi (Num.ofInt 1) p0 p1 M0 M1
    (fixedQ (Num.ofInt (p0 : Int)) dx efl wavelength fpmDx) (fixedQ (Num.ofInt (p1 : Int)) dx efl wavelength fpmDx)
    (sx / fpmDx) (sy / fpmDx)
  let b2 := mdftBases cosf sinf sqrtf twoPi (Num.ofInt (-1)) M0 M1 p0 p1
    (fixedQ (Num.ofInt (M0 : Int)) fpmDx efl wavelength dx) (fixedQ (Num.ofInt (M1 : Int)) fpmDx efl wavelength dx)
    (sx * dx / fpmDx / dx) (sy * dx / fpmDx / dx)
  fpmFwd p0 p1 M0 M1 b1.1 b1.2 mask b2.1 b2.2 x

/-- `babinet_backprop` (no shift): `cbar − T^H cbar`, `cbar = conj(L) ⊙ y`, mask `1 − fpm` -/
def babinetBackFull (cosf sinf sqrtf : K → K) (twoPi : K) (p0 p1 M0 M1 : Nat)
    (dx efl wavelength fpmDx : K) (fpm lyot y : Mat (Cx K)) : Mat (Cx K) :=
  let one : Cx K := ⟨Num.ofInt 1, Num.ofInt 0⟩
  let cbar : Mat (Cx K) := fun i j => Cx.conj (lyot i j) * y i j
  let t := fpmBackFull cosf sinf sqrtf twoPi p0 p1 M0 M1 dx efl wavelength fpmDx (Num.ofInt 0) (Num.ofInt 0)
              (fun i j => one - fpm i j) cbar
  fun i j => cbar i j - t i j

/-! ### tabulated variants run by the driver (same stages, every intermediate array materialised once) -/

def dftBackT (M m n N : Nat) (Eo y Ei : Mat (Cx K)) : Tab (Cx K) :=
  let t := Tab.ofFn M n (matmul N y (conjT Cx.conj Ei))
  Tab.ofFn m n (matmul M (conjT Cx.conj Eo) t.fn)

def mdftBackT (cosf sinf sqrtf : K → K) (twoPi sigma : K) (m n M N : Nat) (Qy Qx sx sy : K)
    (y : Mat (Cx K)) : Tab (Cx K) :=
  let b := mdftBases cosf sinf sqrtf twoPi sigma m n M N Qy Qx sx sy
  let eo := Tab.ofFn M m b.1
  let ei := Tab.ofFn n N b.2
  dftBackT M m n N eo.fn y ei.fn

def fixedBackT (cosf sinf sqrtf : K → K) (twoPi sigma : K) (m n M N : Nat)
    (inputDx propDist wavelength outputDx sx sy : K) (y : Mat (Cx K)) : Tab (Cx K) :=
  mdftBackT cosf sinf sqrtf twoPi sigma m n M N
    (fixedQ (Num.ofInt (m : Int)) inputDx propDist wavelength outputDx)
    (fixedQ (Num.ofInt (n : Int)) inputDx propDist wavelength outputDx)
    (sx / outputDx) (sy / outputDx) y

def fpmBackFullT (cosf sinf sqrtf : K → K) (twoPi : K) (p0 p1 M0 M1 : Nat)
    (dx efl wavelength fpmDx sx sy : K) (mask y : Mat (Cx K)) : Tab (Cx K) :=
  let eb := fixedBackT cosf sinf sqrtf twoPi (Num.ofInt (-1)) M0 M1 p0 p1 fpmDx efl wavelength dx
              (sx * dx / fpmDx) (sy * dx / fpmDx) y
  let inter := Tab.ofFn M0 M1 fun i j => eb.fn i j * Cx.conj (mask i j)
  fixedBackT cosf sinf sqrtf twoPi (Num.ofInt 1) p0 p1 M0 M1 dx efl wavelength fpmDx sx sy inter.fn

def babinetBackFullT (cosf sinf sqrtf : K → K) (twoPi : K) (p0 p1 M0 M1 : Nat)
    (dx efl wavelength fpmDx : K) (fpm lyot y : Mat (Cx K)) : Tab (Cx K) :=
  let one : Cx K := ⟨Num.ofInt 1, Num.ofInt 0⟩
  let cbar := Tab.ofFn p0 p1 fun i j => Cx.conj (lyot i j) * y i j
  let t := fpmBackFullT cosf sinf sqrtf twoPi p0 p1 M0 M1 dx efl wavelength fpmDx (Num.ofInt 0) (Num.ofInt 0)
              (fun i j => one - fpm i j) cbar.fn
  Tab.ofFn p0 p1 fun i j => cbar.fn i j - t.fn i j

/-- mask-and-back adjoint with explicit basis matrices (the forward's own bases), tabulated: `fpmBack Cx.conj 1 true` -/
def fpmBackT (p0 p1 M0 M1 : Nat) (Eo1 Ei1 mask Eo2 Ei2 y : Mat (Cx K)) : Tab (Cx K) :=
  let eb := dftBackT p0 M0 M1 p1 Eo2 y Ei2
  let inter := Tab.ofFn M0 M1 fun i j => eb.fn i j * Cx.conj (mask i j)
  dftBackT M0 p0 p1 M1 Eo1 inter.fn Ei1

/-- Babinet adjoint with explicit bases: `cbar − B(cbar)`, `cbar = conj(L) ⊙ y`, `mask` is the array the forward
multiplied by (i.e. `1 − fpm`) -/
def babinetBackT (p0 p1 M0 M1 : Nat) (Eo1 Ei1 mask Eo2 Ei2 lyot y : Mat (Cx K)) : Tab (Cx K) :=
  let cbar := Tab.ofFn p0 p1 fun i j => Cx.conj (lyot i j) * y i j
  let t := fpmBackT p0 p1 M0 M1 Eo1 Ei1 mask Eo2 Ei2 cbar.fn
  Tab.ofFn p0 p1 fun i j => cbar.fn i j - t.fn i j

/-- `DM.render_backprop` given the forward's own ingredients: transfer function `H`, lattice `(lo, step)` per axis,
resize mode (`0` none, `1` crop at `(oy, ox)`, `2` pad at `(oy, ox)`), real scale; DFT sums written out -/
def dmBackGivenT (cosf sinf : K → K) (twoPi : K) (m n k loy sty lox stx M N mode : Nat) (oy ox : Int) (scale : K)
    (H : Mat (Cx K)) (y : Mat K) : Tab K :=
  let one : K := Num.ofInt 1
  let F1 := Tab.ofFn m m fun j l => cis cosf sinf twoPi (Num.ofInt (((j * l) % m : Nat) : Int) / Num.ofInt (m : Int))
  let F2 := Tab.ofFn n n fun j l => cis cosf sinf twoPi (Num.ofInt (((j * l) % n : Nat) : Int) / Num.ofInt (n : Int))
  let yr0 : Mat K := if mode = 1 then crop2 oy ox y else if mode = 2 then pad2 M N oy ox y else y
  let yr := Tab.ofFn m n fun i j => Cx.ofReal (scale * yr0 i j)
  let u1 := Tab.ofFn m n (matmul m F1.fn yr.fn)
  let Y := Tab.ofFn m n (matmul n u1.fn F2.fn)
  let Z := Tab.ofFn m n fun i j => Y.fn i j * Cx.conj (H i j)
  let v1 := Tab.ofFn m n (matmul m (fun i j => Cx.conj (F1.fn i j)) Z.fn)
  let W := Tab.ofFn m n (matmul n v1.fn (fun i j => Cx.conj (F2.fn i j)))
  let norm : K := one / (Num.ofInt (m : Int) * Num.ofInt (n : Int))
  Tab.ofFn k k fun i j => norm * (W.fn (loy + i * sty) (lox + j * stx)).re

/-! ### `DM.render_backprop` (no rotation, `upsample = 1`) with every step modelled: lattice indices, transfer
function `fft2(ifftshift(ifn))·ramps`, crop/pad offsets, DFT sums -/

/-- `fftfreq(n)[k]·n` -/
def fftfreqNum (n k : Nat) : Int := if k < (n + 1) / 2 then (k : Int) else (k : Int) - (n : Int)

/-- the unnormalised DFT matrix `F[j,k] = exp(-2πi·σ·jk/n)` -/
def dftMat (cosf sinf : K → K) (twoPi sigma : K) (n : Nat) : Mat (Cx K) :=
  fun j k => cis cosf sinf twoPi (sigma * Num.ofInt (((j * k) % n : Nat) : Int) / Num.ofInt (n : Int))

/-- first index of the actuator lattice along an axis with origin `c`, `k` actuators, spacing `skip`
(`prepare_actuator_lattice`: `c + (-k // 2)·skip + (skip // 2 if k even)`) -/
def latticeLo (c k skip : Nat) : Int :=
  (c : Int) + ((-(k : Int)) / 2) * (skip : Int) + (if k % 2 = 0 then ((skip / 2 : Nat) : Int) else 0)

/-- crop (`M ≥ m`) or pad (`M < m`) the upstream gradient `y : M × N` to the working grid `m × n`, origin on origin;
the decision looks at axis 0 only, as the source does -/
def dmResize (m n M N : Nat) (y : Mat K) : Mat K :=
  if M > m then crop2 ((M / 2 : Nat) - (m / 2 : Nat) : Int) ((N / 2 : Nat) - (n / 2 : Nat) : Int) y
  else if M < m then pad2 M N ((m / 2 : Nat) - (M / 2 : Nat) : Int) ((n / 2 : Nat) - (N / 2 : Nat) : Int) y
  else y

def dmBackT (cosf sinf : K → K) (twoPi : K) (m n k skx sky M N : Nat) (sx sy scale : K)
    (ifn y : Mat K) : Tab K :=
  let one : K := Num.ofInt 1
  let F1 := Tab.ofFn m m (dftMat cosf sinf twoPi one m)
  let F2 := Tab.ofFn n n (dftMat cosf sinf twoPi one n)
  -- transfer function: fft2(ifftshift(ifn)) times the two shift ramps
  let sh := Tab.ofFn m n fun i j => Cx.ofReal (ifn ((i + m / 2) % m) ((j + n / 2) % n))
  let t1 := Tab.ofFn m n (matmul m F1.fn sh.fn)
  let H0 := Tab.ofFn m n (matmul n t1.fn F2.fn)
  let H := Tab.ofFn m n fun i j =>
    H0.fn i j * cis cosf sinf twoPi (Num.ofInt (fftfreqNum n j) / Num.ofInt (n : Int) * sx)
             * cis cosf sinf twoPi (Num.ofInt (fftfreqNum m i) / Num.ofInt (m : Int) * sy)
  -- upstream gradient on the working grid, scaled
  let yr := Tab.ofFn m n fun i j => Cx.ofReal (scale * dmResize m n M N y i j)
  let u1 := Tab.ofFn m n (matmul m F1.fn yr.fn)
  let Y := Tab.ofFn m n (matmul n u1.fn F2.fn)
  let Z := Tab.ofFn m n fun i j => Y.fn i j * Cx.conj (H.fn i j)
  let v1 := Tab.ofFn m n (matmul m (fun i j => Cx.conj (F1.fn i j)) Z.fn)
  let W := Tab.ofFn m n (matmul n v1.fn (fun i j => Cx.conj (F2.fn i j)))
  let norm : K := one / (Num.ofInt (m : Int) * Num.ofInt (n : Int))
  let loy := (latticeLo (m / 2) k sky).toNat
  let lox := (latticeLo (n / 2) k skx).toNat
  Tab.ofFn k k fun i j => norm * (W.fn (loy + i * sky) (lox + j * skx)).re

/-- `Wavefront.intensity_backprop`: `Gbar = 2 · Ibar · E` -/
def intensityBack (Ibar : K) (E : Cx K) : Cx K := Cx.smul (Num.ofInt 2 * Ibar) E

/-- `Wavefront.from_amp_and_phase_backprop_phase`: `k · Im(gbar · conj g)` -/
def phaseBack (k : K) (gbar g : Cx K) : K := k * (gbar * Cx.conj g).im

/-- `Re⟨a, b⟩ = a.re b.re + a.im b.im`: how a complex gradient pairs with a perturbation -/
def reDot (a b : Cx K) : K := a.re * b.re + a.im * b.im

/-- softmax over `n` levels -/
def softmaxFwd (ex : K → K) (n : Nat) (x : Vec K) : Vec K :=
  fun i => ex (x i) / sumTo n fun j => ex (x j)

/-- `Softmax.backprop`: `s ⊙ (g − ⟨g, s⟩)` -/
def softmaxBack (n : Nat) (s g : Vec K) : Vec K :=
  fun j => s j * (g j - sumTo n fun i => g i * s i)

/-- `GumbelSoftmax.backprop`: the softmax VJP divided by the temperature -/
def gumbelBack (tau : K) (n : Nat) (s g : Vec K) : Vec K := fun j => softmaxBack n s g j / tau

/-- `DiscreteEncoder.forward` for one variable: `Σ_k s_k ℓ_k`; `backprop`: estimator VJP of `g · ℓ` -/
def encoderFwd (n : Nat) (levels s : Vec K) : K := sumTo n fun k => s k * levels k
def encoderBack (estBack : Vec K → Vec K) (levels : Vec K) (g : K) : Vec K :=
  estBack (fun k => g * levels k)

/-- activations: `forward` and `backprop` (= derivative of forward at its argument) -/
def tanhFwd (ex : K → K) (a x0 y0 x : K) : K :=
  Num.ofInt 2 / (Num.ofInt 1 + ex (Num.ofInt (-2) * a * (x - x0))) - Num.ofInt 1 + y0
def tanhBack (ex : K → K) (a x0 y0 x : K) : K :=
  let fx := tanhFwd ex a x0 y0 x - y0
  a * (Num.ofInt 1 - fx * fx)
def arctanFwd (atn : K → K) (a x0 y0 x : K) : K := atn (a * (x - x0)) + y0
def arctanBack (a x0 x : K) : K :=
  let u := (x - x0) * a
  a * (Num.ofInt 1 / (u * u + Num.ofInt 1))
def softplusFwd (ex lg : K → K) (a x0 y0 x : K) : K := lg (Num.ofInt 1 + ex (a * (x - x0))) + y0
def softplusBack (ex : K → K) (a x0 x : K) : K :=
  a * (Num.ofInt 1 / (Num.ofInt 1 + ex (-a * (x - x0))))
def sigmoidFwd (ex : K → K) (a x0 y0 x : K) : K :=
  Num.ofInt 1 / (Num.ofInt 1 + ex (-a * (x - x0))) + y0
def sigmoidBack (ex : K → K) (a x0 y0 x : K) : K :=
  let s := sigmoidFwd ex a x0 y0 x - y0
  a * s * (Num.ofInt 1 - s)

/-! ### cost functions (vectors of `n` kept samples; masking = compress, then scatter the gradient) -/

def mean (n : Nat) (v : Vec K) : K := (sumTo n v) / Num.ofInt (n : Int)

/-- `mean_square_error`: `cost = Σ (M−D)² / n`, `grad = 2 (M−D) / n` -/
def mseCost (n : Nat) (M D : Vec K) : K :=
  (sumTo n fun i => (M i - D i) * (M i - D i)) * (Num.ofInt 1 / Num.ofInt (n : Int))
def mseGrad (n : Nat) (M D : Vec K) : Vec K :=
  fun i => Num.ofInt 2 * (Num.ofInt 1 / Num.ofInt (n : Int)) * (M i - D i)

/-- `bias_and_gain_invariant_error`: least-squares gain `α` and bias `β`, `R = 1/ΣD²`,
`cost = R Σ (αI + β − D)²`, `grad = 2 R α (αI + β − D)` -/
def bgieAlpha (n : Nat) (I D : Vec K) : K :=
  let mI := mean n I
  let mD := mean n D
  (sumTo n fun i => (I i - mI) * (D i - mD)) / (sumTo n fun i => (I i - mI) * (I i - mI))
def bgieBeta (n : Nat) (I D : Vec K) : K := mean n fun i => D i - bgieAlpha n I D * I i
def bgieR (n : Nat) (D : Vec K) : K := Num.ofInt 1 / sumTo n fun i => D i * D i
def bgieResid (n : Nat) (I D : Vec K) : Vec K := fun i => (bgieAlpha n I D * I i + bgieBeta n I D) - D i
def bgieCost (n : Nat) (I D : Vec K) : K :=
  bgieR n D * sumTo n fun i => bgieResid n I D i * bgieResid n I D i
def bgieGrad (n : Nat) (I D : Vec K) : Vec K :=
  fun i => Num.ofInt 2 * bgieR n D * bgieAlpha n I D * bgieResid n I D i

/-- `negative_loglikelihood`: `cost = −(1/n) Σ (ŷ log y + (1−ŷ) log(1−y))`, `grad = (−ŷ/y + (1−ŷ)/(1−y))/n` -/
def nllCost (lg : K → K) (n : Nat) (y yhat : Vec K) : K :=
  -(Num.ofInt 1 / Num.ofInt (n : Int)) *
    sumTo n fun i => yhat i * lg (y i) + (Num.ofInt 1 - yhat i) * lg (Num.ofInt 1 - y i)
def nllGrad (n : Nat) (y yhat : Vec K) : Vec K :=
  fun i => (-(yhat i) / y i + (Num.ofInt 1 - yhat i) / (Num.ofInt 1 - y i)) * (Num.ofInt 1 / Num.ofInt (n : Int))

/-! ### masked cost functions: `x[mask]` (compress) before the cost, `g2[mask] = g` (scatter into zeros) after -/

/-- `x[mask]`: the `k`-th kept sample is `x[idx k]` (`idx` enumerates the True positions of the mask) -/
def compress (idx : Nat → Nat) (x : Vec K) : Vec K := fun k => x (idx k)

/-- `g2 = zeros; g2[mask] = g`: position `i` receives the gradient of the kept sample that sits there, else zero -/
def scatterMask (cnt : Nat) (idx : Nat → Nat) (g : Vec K) : Vec K :=
  fun i => sumTo cnt fun k => if idx k = i then g k else Num.ofInt 0

end realnodes

end Model.C06
