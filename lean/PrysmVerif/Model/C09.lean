import PrysmVerif.Model.C10
/-!
# C09 — derivative routines

Hand-written executable model, core Lean only.

* the Clenshaw derivative table of `jacobi_sum_clenshaw_der`, `clenshaw_qbfs_der`, `clenshaw_q2d_der`
  (`derRow`, `derTable`), generic in the three-term family `Model.C10.Fam`;
* the closed forms the `*_der` routines return (`heDer`, `hDer`, `lagDer`, `jacobiDer`, `zernikeDer`,
  the sag-and-slope assemblies `zzQbfs`, `zzQcon`, `zzQ2d`);
* an exact *formal derivative* oracle: `Poly K` (coefficient lists) carries a `Num` structure, so every
  value routine of the model can be run on the indeterminate `X`, differentiated coefficient-wise and
  evaluated — no finite differences anywhere.
-/
namespace Model.C09
open Num Model.C10
variable {K : Type} [Num K]

/-! ## Clenshaw derivative table -/

/-- one row of the derivative table over the suffix starting at order `k`.  `prev` is the previous row
(`α^{(j-1)}_k, α^{(j-1)}_{k+1}, …`); the result is `α^{(j)}_k, …` with
`α^{(j)}_n = j a_n α^{(j-1)}_{n+1} + (a_n x + b_n) α^{(j)}_{n+1} - c_{n+1} α^{(j)}_{n+2}` -/
def derRow (F : Fam K) (x : K) (j : Nat) : Nat → List K → List K
  | _, [] => []
  | k, _ :: prest =>
    let r := derRow F x j (k+1) prest
    (ofInt j * F.a k * hd prest + (F.a k * x + F.b k) * hd r - F.c (k+1) * hd r.tail) :: r

/-- rows `0..j` of the table (`alphas[jj]`, each of length `len s`) -/
def derTable (F : Fam K) (x : K) (s : List K) : Nat → List K
  | 0 => alphas F x 0 s
  | j+1 => derRow F x (j+1) 0 (derTable F x s j)

/-- `jacobi_sum_clenshaw_der(s, α, β, x, j)[jj]` for `jj = 0..j` -/
def jacobiSumClenshawDer [BEq K] (s : List K) (al be x : K) (j : Nat) : List (List K) :=
  (List.range (j+1)).map (derTable (jacFam al be) x s)

/-- `clenshaw_qbfs_der(cs, usq, j)[jj]` -/
def clenshawQbfsDer (f g h : Nat → K) (cs : List K) (x : K) (j : Nat) : List (List K) :=
  (List.range (j+1)).map (derTable qbfsFam x (cobQbfs f g h 0 cs))

/-- `clenshaw_q2d_der(cns, m, usq, j)[jj]` -/
def clenshawQ2dDer (f g : Nat → K) (m : Nat) (cs : List K) (x : K) (j : Nat) : List (List K) :=
  (List.range (j+1)).map (derTable (q2dFam m) x (cobQ2d f g 0 cs))

/-! ## Hermite, Laguerre, Jacobi: families and the closed forms their `_der` routines return -/

/-- probabilists' Hermite: `He_{n+1} = x He_n - n He_{n-1}` -/
def heFam : Fam K where
  a _ := ofInt 1
  b _ := ofInt 0
  c n := ofInt n
  e _ := ofInt 0
  p0 := ofInt 1

/-- physicists' Hermite: `H_{n+1} = 2x H_n - 2n H_{n-1}` -/
def hFam : Fam K where
  a _ := ofInt 2
  b _ := ofInt 0
  c n := ofInt (2 * n)
  e _ := ofInt 0
  p0 := ofInt 1

/-- generalised Laguerre: `(n+1) L_{n+1} = (α + 2n + 1 - x) L_n - (α + n) L_{n-1}` -/
def lagFam (al : K) : Fam K where
  a n := ofInt (-1) / ofInt (n+1)
  b n := (al + ofInt (2 * n + 1)) / ofInt (n+1)
  c n := (al + ofInt n) / ofInt (n+1)
  e _ := ofInt 0
  p0 := ofInt 1

/-- `hermite_He_der(n, x) = n He_{n-1}(x)` (`0` at `n = 0`) -/
def heDer (n : Nat) (x : K) : K :=
  match n with
  | 0 => ofInt 0
  | k+1 => ofInt (k+1) * heFam.p x k

/-- `hermite_H_der(n, x) = 2n H_{n-1}(x)` -/
def hDer (n : Nat) (x : K) : K :=
  match n with
  | 0 => ofInt 0
  | k+1 => ofInt (2 * (k+1)) * hFam.p x k

/-- `laguerre_der(n, α, x) = -L_{n-1}^{(α+1)}(x)` -/
def lagDer (n : Nat) (al x : K) : K :=
  match n with
  | 0 => ofInt 0
  | k+1 => -((lagFam (al + ofInt 1)).p x k)

/-- `jacobi_der(n, α, β, x) = (n+α+β+1)/2 · P_{n-1}^{(α+1,β+1)}(x)` -/
def jacobiDer [BEq K] (n : Nat) (al be x : K) : K :=
  match n with
  | 0 => ofInt 0
  | k+1 => (ofFrac 1 2 * (ofInt (k+1) + al + be + ofInt 1)) * jacobi k (al + ofInt 1) (be + ofInt 1) x

/-! ## sequence forms (`*_der_seq`): the sweeps as the source runs them -/

/-- locals `(Pnm2, Pnm1)` of `hermite_He_der_seq` on entry to iteration `nn = k + 3` -/
def heSeqState (x : K) : Nat → K × K
  | 0 => (x, x * x - ofInt 1)
  | k+1 => let r := heSeqState x k; (r.2, x * r.2 - (ofInt (k+3) - ofInt 1) * r.1)

/-- row of `hermite_He_der_seq` for order `n`: explicit `0, 1, 2x`, then `nn · Pnm1` inside the loop -/
def heDerSeqRow (n : Nat) (x : K) : K :=
  match n with
  | 0 => ofInt 0
  | 1 => ofInt 1
  | 2 => ofInt 2 * x
  | k+3 => ofInt (k+3) * (heSeqState x k).2

/-- locals `(Pnm2, Pnm1)` of `hermite_H_der_seq` on entry to iteration `nn = k + 3` -/
def hSeqState (x : K) : Nat → K × K
  | 0 => (ofInt 2 * x, ofInt 4 * (x * x) - ofInt 2)
  | k+1 => let r := hSeqState x k; (r.2, ofInt 2 * x * r.2 - (ofInt 2 * (ofInt (k+3) - ofInt 1)) * r.1)

/-- row of `hermite_H_der_seq` for order `n`: explicit `0, 2, 4·(2x)`, then `2 nn · Pnm1` inside the loop -/
def hDerSeqRow (n : Nat) (x : K) : K :=
  match n with
  | 0 => ofInt 0
  | 1 => ofInt 2
  | 2 => ofInt 4 * (ofInt 2 * x)
  | k+3 => ofInt 2 * ofInt (k+3) * (hSeqState x k).2

/-- locals `(Pnm1, Pn)` of `jacobi_der_seq` on entry to iteration `i = k + 3` (polynomials of shape `(α+1, β+1)`) -/
def jacSeqState [BEq K] (al be x : K) : Nat → K × K
  | 0 =>
    let a1 := al + ofInt 1
    let b1 := be + ofInt 1
    let p1 := a1 + ofInt 1 + (a1 + b1 + ofInt 2) * ((x - ofInt 1) / ofInt 2)
    let t := jacABC 1 a1 b1
    (p1, (t.1 * x + t.2.1) * p1 - t.2.2)
  | k+1 =>
    let r := jacSeqState al be x k
    let t := jacABC (k+2) (al + ofInt 1) (be + ofInt 1)
    (r.2, (t.1 * x + t.2.1) * r.2 - t.2.2 * r.1)

/-- row of `jacobi_der_seq` for order `n`: explicit orders 0, 1, 2, 3, then `Pnm1 · ½(i+α+β+1)` after the shift inside the loop -/
def jacobiDerSeqRow [BEq K] (n : Nat) (al be x : K) : K :=
  match n with
  | 0 => ofInt 0
  | 1 => ofFrac 1 2 * (ofInt 1 + al + be + ofInt 1)
  | 2 => (jacSeqState al be x 0).1 * (ofFrac 1 2 * (ofInt 2 + al + be + ofInt 1))
  | k+3 => (jacSeqState al be x k).2 * (ofFrac 1 2 * (ofInt (k+3) + al + be + ofInt 1))

/-! ## polynomials as coefficient lists (the formal-derivative oracle) -/

structure Poly (K : Type) where
  c : List K

namespace Poly

def addL : List K → List K → List K
  | a :: as, b :: bs => (a + b) :: addL as bs
  | [], bs => bs
  | as, [] => as

def scaleL (k : K) (l : List K) : List K := l.map (k * ·)

def mulL : List K → List K → List K
  | [], _ => []
  | a :: as, q => addL (scaleL a q) (ofInt 0 :: mulL as q)

def derivL : List K → List K
  | [] => []
  | _ :: as => (as.zipIdx).map fun (a, i) => ofInt (i+1) * a

def evalL (x : K) : List K → K
  | [] => ofInt 0
  | a :: as => a + x * evalL x as

def X : Poly K := ⟨[ofInt 0, ofInt 1]⟩
def C (k : K) : Poly K := ⟨[k]⟩
def deriv (p : Poly K) : Poly K := ⟨derivL p.c⟩
def eval (p : Poly K) (x : K) : K := evalL x p.c
def iterDeriv (p : Poly K) : Nat → Poly K
  | 0 => p
  | j+1 => deriv (iterDeriv p j)

/-- ring operations; `p / q` is only ever used with a constant polynomial `q` (the value routines
divide by numbers only) and is then `p` scaled by `1 / q` -/
instance : Num (Poly K) where
  add p q := ⟨addL p.c q.c⟩
  sub p q := ⟨addL p.c (scaleL (ofInt (-1)) q.c)⟩
  mul p q := ⟨mulL p.c q.c⟩
  neg p := ⟨scaleL (ofInt (-1)) p.c⟩
  div p q := ⟨scaleL (ofInt 1 / hd q.c) p.c⟩
  ofInt i := ⟨[ofInt i]⟩

/-- structural equality of coefficient lists (used on constants only) -/
instance [BEq K] : BEq (Poly K) := ⟨fun p q => p.c == q.c⟩

end Poly

/-- `d^j/dx^j` of `f`, evaluated at `x`, where `f` is any routine of the model run on the indeterminate -/
def formalDer (f : Poly K → Poly K) (j : Nat) (x : K) : K := ((f Poly.X).iterDeriv j).eval x

/-- lift a family to polynomial coefficients -/
def _root_.Model.C10.Fam.lift (F : Fam K) : Fam (Poly K) where
  a n := Poly.C (F.a n)
  b n := Poly.C (F.b n)
  c n := Poly.C (F.c n)
  e n := Poly.C (F.e n)
  p0 := Poly.C F.p0

/-- `d^j/dx^j Σ s_n p_n(x)` by formal differentiation of the explicit sum -/
def famSumDer (F : Fam K) (s : List K) (j : Nat) (x : K) : K :=
  formalDer (fun X => wsum (F.lift.p X) 0 (s.map Poly.C)) j x

/-- `d/dx p_n(x)` by formal differentiation -/
def famDer (F : Fam K) (n : Nat) (x : K) : K := formalDer (fun X => F.lift.p X n) 1 x

/-! ## Zernike -/

/-- radial polynomial of the Zernike `(n, m)` as the value routine builds it:
`r^{|m|} · P_{(n-|m|)/2}^{(0,|m|)}(2r² - 1)` -/
def zernikeRadial [BEq K] (n am : Nat) (r : K) : K :=
  npow r am * jacobi ((n - am) / 2) (ofInt 0) (ofInt am) (ofInt 2 * npow r 2 - ofInt 1)

/-- `zernike_nm_der(n, m, r, t, norm)` : `(dZ/dr, dZ/dt)`; `cosmt = cos(|m| t)`, `sinmt = sin(|m| t)`,
`znorm` the normalisation constant (1 when `norm=False`) -/
def zernikeDer [BEq K] (n : Nat) (m : Int) (r cosmt sinmt znorm : K) : K × K :=
  let am := m.natAbs
  let nj := (n - am) / 2
  let x := ofInt 2 * npow r 2 - ofInt 1
  let dv := (ofInt 4 * r) * jacobiDer nj (ofInt 0) (ofInt am) x
  if m == 0 then (dv * znorm, ofInt 0)
  else
    let v := jacobi nj (ofInt 0) (ofInt am) x
    let u := npow r am
    let du := ofInt am * npow r (am - 1)
    let dr := v * du + u * dv
    if m < 0 then (dr * sinmt * znorm, ofInt am * cosmt * u * v * znorm)
    else (dr * cosmt * znorm, (-(ofInt m)) * sinmt * u * v * znorm)

/-- the same two derivatives from the definition: `Z = znorm · R(r) · cos(mt)` (`sin(|m|t)` for `m < 0`),
with `dR/dr` obtained by formal differentiation -/
def zernikeDerFormal [BEq K] (n : Nat) (m : Int) (r cosmt sinmt znorm : K) : K × K :=
  let am := m.natAbs
  let R := zernikeRadial n am r
  let dR := formalDer (fun X => zernikeRadial n am X) 1 r
  if m == 0 then (znorm * dR, ofInt 0)
  else if m < 0 then (znorm * dR * sinmt, znorm * R * (ofInt am * cosmt))
  else (znorm * dR * cosmt, znorm * R * (ofInt (-am) * sinmt))

/-! ## sag and slope assemblies -/

/-- core of `compute_z_zprime_Qbfs`: `(S, S')` assembled from rows 0 and 1 of the derivative table of the
auxiliary family over the already changed basis `bs` -/
def zzQbfsB (bs : List K) (u : K) : K × K :=
  let x := u * u
  let a0 := derTable qbfsFam x bs 0
  let a1 := derTable qbfsFam x bs 1
  let S := ofInt 2 * (nth a0 0 + nth a0 1)
  let Sp := (nth a1 0 + nth a1 1) * ofInt 4 * u
  let prefix_ := x * (ofInt 1 - x)
  let dprefix := ofInt 2 * u - ofInt 4 * (x * u)
  (S * prefix_, prefix_ * Sp + S * dprefix)

/-- `compute_z_zprime_Qbfs(coefs, u, usq)` -/
def zzQbfs (f g h : Nat → K) (cs : List K) (u : K) : K × K := zzQbfsB (cobQbfs f g h 0 cs) u

/-- sag of a Qbfs departure as a function of `u`, from the value routine's polynomials -/
def qbfsSag (f g h : Nat → K) (cs : List K) (u : K) : K := qbfsSumExplicit f g h cs (u * u)

/-- core of `compute_z_zprime_Qcon` over any family `G` (the source uses Jacobi `(0, 4)`) -/
def zzQconG (G : Fam K) (cs : List K) (u : K) : K × K :=
  let usq := u * u
  let x := ofInt 2 * usq - ofInt 1
  let S := nth (derTable G x cs 0) 0
  let Sp := nth (derTable G x cs 1) 0 * ofInt 4 * u
  let prefix_ := usq * usq
  let dprefix := ofInt 4 * (usq * u)
  (S * prefix_, prefix_ * Sp + S * dprefix)

/-- `compute_z_zprime_Qcon(coefs, u, usq)` -/
def zzQcon [BEq K] (cs : List K) (u : K) : K × K := zzQconG (jacFam (ofInt 0) (ofInt 4)) cs u

/-- sag of a Qcon departure: `u⁴ Σ c_n P_n^{(0,4)}(2u² - 1)` -/
def qconSag [BEq K] (cs : List K) (u : K) : K :=
  npow u 4 * wsum (fun n => jacobi n (ofInt 0) (ofInt 4) (ofInt 2 * (u * u) - ofInt 1)) 0 cs

/-- one azimuthal order of `compute_z_zprime_Q2d` over any auxiliary family `G` and already changed bases
`da` (cosine), `db` (sine): `(sag term, radial slope term, azimuthal slope term)` -/
def q2dTermB (G : Fam K) (m : Nat) (c s : K) (da db : List K) (u : K) : K × K × K :=
  let x := u * u
  let Sa := q2dRead m (derTable G x da 0)
  let Sb := q2dRead m (derTable G x db 0)
  let Spa := q2dRead m (derTable G x da 1)
  let Spb := q2dRead m (derTable G x db 1)
  let um := npow u m
  let umm1 := npow u (m - 1)
  let twousq := ofInt 2 * x
  let aterm := c * (twousq * Spa + ofInt m * Sa)
  let bterm := s * (twousq * Spb + ofInt m * Sb)
  (um * (c * Sa + s * Sb), umm1 * (aterm + bterm), ofInt m * um * (-Sa * s + Sb * c))

/-- radial and azimuthal slope contribution of one azimuthal order `m` with cosine list `a` and sine list `b`
(either may be empty) -/
def q2dSlopeTerm (fq gq : Nat → Nat → K) (cosm sinm : Nat → K) (u : K) (m : Nat) (a b : List K) : K × K :=
  let t := q2dTermB (q2dFam m) m (cosm m) (sinm m) (cobQ2d (fq m) (gq m) 0 a) (cobQ2d (fq m) (gq m) 0 b) u
  (t.2.1, t.2.2)

/-- per-`m` accumulation of the slopes in `compute_z_zprime_Q2d`, every combination of present / absent /
empty cosine and sine lists -/
def q2dSlopeFrom (fq gq : Nat → Nat → K) (cosm sinm : Nat → K) (u : K) : Nat → List (List K) → List (List K) → K × K
  | _, [], [] => (ofInt 0, ofInt 0)
  | m, a :: as, [] =>
    let t := q2dSlopeTerm fq gq cosm sinm u m a []
    let r := q2dSlopeFrom fq gq cosm sinm u (m+1) as []
    (t.1 + r.1, t.2 + r.2)
  | m, [], b :: bs =>
    let t := q2dSlopeTerm fq gq cosm sinm u m [] b
    let r := q2dSlopeFrom fq gq cosm sinm u (m+1) [] bs
    (t.1 + r.1, t.2 + r.2)
  | m, a :: as, b :: bs =>
    let t := q2dSlopeTerm fq gq cosm sinm u m a b
    let r := q2dSlopeFrom fq gq cosm sinm u (m+1) as bs
    (t.1 + r.1, t.2 + r.2)

/-- `compute_z_zprime_Q2d(cm0, ams, bms, u, t)` : `(z, dz/du, dz/dt)` -/
def zzQ2d (f g h : Nat → K) (fq gq : Nat → Nat → K) (cosm sinm : Nat → K)
    (cm0 : List K) (ams bms : List (List K)) (u : K) : K × K × K :=
  let z0 := if cm0.length == 0 then (ofInt 0, ofInt 0) else zzQbfs f g h cm0 u
  let s := q2dSlopeFrom fq gq cosm sinm u 1 ams bms
  (z0.1 + q2dSagFrom fq gq cosm sinm u 1 ams bms, z0.2 + s.1, s.2)

/-- the sag `Σ c_{nm} Q_n^m(u, t)` as a function of `u` (cos/sin of `m t` held fixed) -/
def q2dSagOfU (f g h : Nat → K) (fq gq : Nat → Nat → K) (cosm sinm : Nat → K)
    (cm0 : List K) (ams bms : List (List K)) (u : K) : K :=
  q2dSagExplicit f g h fq gq cosm sinm cm0 ams bms u

/-! ## conic base surfaces and the Q-freeform assembly of `x/raytracing/surfaces.py`
(square roots are supplied by the caller: `phi = √(phiRad …)`, `psi = √(psiRad …)`) -/

/-- radicand of `phi`: `1 - (1+κ) c² q` (`q` = squared radial distance from the conic's axis) -/
def phiRad (c kappa q : K) : K := ofInt 1 - (ofInt 1 + kappa) * (c * c) * q
/-- radicand of the second radical of `off_axis_conic_sigma`: `1 - κ c² q` -/
def psiRad (c kappa q : K) : K := ofInt 1 - kappa * (c * c) * q

/-- `sphere_sag`, `conic_sag`, `off_axis_conic_sag`: `c q / (1 + φ)` -/
def conicSag (c q phi : K) : K := c * q / (ofInt 1 + phi)
/-- `sphere_sag_der`, `conic_sag_der`: `c ρ / φ` -/
def conicSagDer (c rho phi : K) : K := c * rho / phi
/-- `der_direction_cosine_spheroid`: `d/dρ (1/φ) = (1+k) c² ρ / φ³` -/
def dirCosDer (c k rho phi : K) : K := (c * c) * (ofInt 1 + k) * rho / (phi * phi * phi)

/-- squared distance from the conic's axis of the point `(r, t)` of a section shifted by `s` along x (`ct = cos t`)
or along y (`ct = sin t`): `r² + 2 s r ct + s²` -/
def oacAgg (r s ct : K) : K := r * r + ofInt 2 * s * r * ct + s * s

/-- `off_axis_conic_der`: `(∂z/∂r, ∂z/∂t)`; `ctp = d(ct)/dt` (`-sin t` resp. `cos t`) -/
def oacDer (c kappa r s ct ctp phi : K) : K × K :=
  let A := oacAgg r s ct
  let Ar := ofInt 2 * r + ofInt 2 * s * ct
  let Ath := r * s * ctp
  let c3 := c * c * c
  let p1 := ofInt 1 + phi
  (c * Ar / p1 + c3 * (ofInt 1 + kappa) * Ar * A / ((ofInt 2 * phi) * (p1 * p1)),
   c * (ofInt 2 * Ath) / p1 + c3 * (ofInt 1 + kappa) * Ath * A / (phi * (p1 * p1)))

/-- `off_axis_conic_sigma = φ / ψ` -/
def oacSigma (phi psi : K) : K := phi / psi

/-- `off_axis_conic_sigma_der`: `(∂/∂r, ∂/∂t)` of `1/σ = ψ/φ` -/
def oacSigmaInvDer (c kappa r s ct ctp phi psi : K) : K × K :=
  let Ar := ofInt 2 * r + ofInt 2 * s * ct
  let Ath := r * s * ctp
  let csq := c * c
  let phi3 := phi * phi * phi
  (csq * (ofInt 1 + kappa) * Ar * psi / (ofInt 2 * phi3) - csq * kappa * Ar / (ofInt 2 * phi * psi),
   csq * (ofInt 1 + kappa) * Ath * psi / phi3 - csq * kappa * Ath / (phi * psi))

/-- `Q2d_and_der`: `z σ⁻¹ + base` and its two slopes by the product rule (`zr` is `dz/du`, `u = ρ / Rn`) -/
def q2dAndDer (sigInv z zr zt sr st base br bt Rn : K) : K × K × K :=
  (z * sigInv + base, (sigInv * (zr / Rn) + z * sr) + br, (sigInv * zt + z * st) + bt)

end Model.C09
