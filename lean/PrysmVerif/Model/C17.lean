import PrysmVerif.Num
/-!
# C17 — hand-written model of `prysm.thinfilm` (core Lean only)

Scalars live in any `K` with `[Num K]`: the driver runs the model on `Cx Float` (complex doubles), the
theorems of `Props/C17.lean` reason about it over `ℝ`/`ℂ`/any field.  Transcendental functions never appear:
`cos θ`, `sin β`, `cos β` and `-i` are parameters (`cost`, `sinb`, `cosb`, `mI`).

Conventions of the source (BYU optics book, 2015 ed., eqs 4.49–4.62):
* a layer of index `n`, internal angle `θ`, phase thickness `β = 2π n d cos θ / λ` has the characteristic matrix
  `[[cos β, -i sin β / η], [-i η sin β, cos β]]` with tilted admittance `η_s = n cos θ`, `η_p = n / cos θ`;
* `A = (1 / 2 n₀ cos θ₀) · T₂ · (M₁ M₂ … M_k) · T₄`, `r = A₁₀ / A₀₀`, `t = 1 / A₀₀`;
* the exit medium is the LAST layer of the stack (its index and angle feed `T₄`), and that layer's own
  characteristic matrix is part of the product as well.
-/
namespace Model.C17

/-- a 2×2 matrix `[[a, b], [c, d]]` -/
structure M22 (K : Type) where
  a : K
  b : K
  c : K
  d : K

variable {K : Type} [Num K]

namespace M22
def one : M22 K := ⟨Num.ofInt 1, Num.ofInt 0, Num.ofInt 0, Num.ofInt 1⟩
def mul (x y : M22 K) : M22 K :=
  ⟨x.a * y.a + x.b * y.c, x.a * y.b + x.b * y.d, x.c * y.a + x.d * y.c, x.c * y.b + x.d * y.d⟩
def smul (k : K) (x : M22 K) : M22 K := ⟨k * x.a, k * x.b, k * x.c, k * x.d⟩
def neg (x : M22 K) : M22 K := ⟨-x.a, -x.b, -x.c, -x.d⟩
end M22

/-- `reduce(np.matmul, [M₁, …, M_k])` = `((M₁ M₂) M₃) …` (identity for the empty list) -/
def prod : List (M22 K) → M22 K
  | [] => M22.one
  | m :: ms => ms.foldl M22.mul m

/-! ## closed-form Fresnel coefficients (`c0 = cos θ₀`, `c1 = cos θ₁`) -/
def fresnelRs (n0 n1 c0 c1 : K) : K := (n0 * c0 - n1 * c1) / (n0 * c0 + n1 * c1)
def fresnelTs (n0 n1 c0 c1 : K) : K := (Num.ofInt 2 * n0 * c0) / (n0 * c0 + n1 * c1)
/-- the library's sign convention: `r_p = (n₀ cos θ₁ - n₁ cos θ₀) / (n₀ cos θ₁ + n₁ cos θ₀)` -/
def fresnelRp (n0 n1 c0 c1 : K) : K := (n0 * c1 - n1 * c0) / (n0 * c1 + n1 * c0)
def fresnelTp (n0 n1 c0 c1 : K) : K := (Num.ofInt 2 * n0 * c0) / (n0 * c1 + n1 * c0)

/-- Snell: `sin θ₁ = n₀ / n₁ · sin θ₀` -/
def snellSin (n0 n1 s0 : K) : K := n0 / n1 * s0

/-! ## characteristic matrices -/
/-- phase thickness `β = (2π n / λ) d cos θ` -/
def beta (pi lam d n cost : K) : K := (Num.ofInt 2 * pi * n) / lam * d * cost

def layerP (mI sinb cosb cost n : K) : M22 K :=
  ⟨cosb, mI * sinb * cost / n, mI * n * sinb / cost, cosb⟩

def layerS (mI sinb cosb cost n : K) : M22 K :=
  ⟨cosb, mI * sinb / (cost * n), mI * n * sinb * cost, cosb⟩

/-! ## the matrix `A` and the total coefficients -/
def amatP (n0 cost0 : K) (M : M22 K) (ne coste : K) : M22 K :=
  ((M22.smul (Num.ofInt 1 / (Num.ofInt 2 * n0 * cost0)) ⟨n0, cost0, n0, -cost0⟩).mul M).mul
    ⟨coste, Num.ofInt 0, ne, Num.ofInt 0⟩

def amatS (n0 cost0 : K) (M : M22 K) (ne coste : K) : M22 K :=
  ((M22.smul (Num.ofInt 1 / (Num.ofInt 2 * n0 * cost0))
      ⟨n0 * cost0, Num.ofInt 1, n0 * cost0, Num.ofInt (-1)⟩).mul M).mul
    ⟨Num.ofInt 1, Num.ofInt 0, ne * coste, Num.ofInt 0⟩

def rtot (A : M22 K) : K := A.c / A.a
def ttot (A : M22 K) : K := Num.ofInt 1 / A.a

/-! ## batch plumbing of `multilayer_stack_rt` (index maps of `reshape` / `moveaxis`; C order) -/
/-- number of elements of a shape -/
def bsize : List Nat → Nat
  | [] => 1
  | s :: ss => s * bsize ss
/-- `np.ravel_multi_index(idx, shape)` (row-major) -/
def ravel : List Nat → List Nat → Nat
  | _ :: ss, i :: is => i * bsize ss + ravel ss is
  | _, _ => 0
/-- `np.unravel_index(b, shape)` (row-major) -/
def unravel : List Nat → Nat → List Nat
  | [], _ => []
  | _ :: ss, b => (b / bsize ss) :: unravel ss (b % bsize ss)
/-- `np.moveaxis(a.reshape((k, -1)), 1, 0)[b, j]` for `a` of shape `(k, *bs)` -/
def batchIn {α : Type} (bs : List Nat) (a : Nat → List Nat → α) (b j : Nat) : α := a j (unravel bs b)
/-- `rflat.reshape(bs)[idx]` -/
def batchOut {α : Type} (bs : List Nat) (rflat : Nat → α) (idx : List Nat) : α := rflat (ravel bs idx)

/-! ## the executable pipeline on complex doubles (driver only) -/
namespace Exec
abbrev C := Cx Float

def cabs (z : C) : Float := Float.sqrt (z.re * z.re + z.im * z.im)

/-- principal square root, cancellation-free: the smaller component is obtained from `2 · re · im = z.im` -/
def csqrt (z : C) : C :=
  let m := cabs z
  if m == 0 then ⟨0, 0⟩
  else if z.re ≥ 0 then
    let t := Float.sqrt ((m + z.re) / 2)
    ⟨t, z.im / (2 * t)⟩
  else
    let t := Float.sqrt ((m - z.re) / 2)
    ⟨z.im.abs / (2 * t), if z.im < 0 then -t else t⟩

def csin (z : C) : C := ⟨Float.sin z.re * Float.cosh z.im, Float.cos z.re * Float.sinh z.im⟩
def ccos (z : C) : C := ⟨Float.cos z.re * Float.cosh z.im, -(Float.sin z.re * Float.sinh z.im)⟩

def pi : Float := 3.141592653589793
def mI : C := ⟨0, -1⟩
def re (x : Float) : C := ⟨x, 0⟩

/-- `cos θ_j` from Snell's law, `cos(arcsin z) = √(1 - z²)` (principal branches) -/
def cosFromSnell (n0 : Float) (s0 : Float) (n : C) : C :=
  let s := snellSin (re n0) n (re s0)
  csqrt (re 1 - s * s)

/-- `(r, t)` of `multilayer_stack_rt(stack, λ, pol, aoi, n0)`; `aoi` in radians; layers `(n, d)`, `n` complex -/
def stackRT (isP : Bool) (n0 aoi lam : Float) (layers : List (C × Float)) : C × C :=
  let s0 := Float.sin aoi
  let c0 := Float.cos aoi
  let ms := layers.map fun (n, d) =>
    let ct := cosFromSnell n0 s0 n
    let b := beta (re pi) (re lam) (re d) n ct
    if isP then layerP mI (csin b) (ccos b) ct n else layerS mI (csin b) (ccos b) ct n
  let (ne, ce) := match layers.getLast? with
    | some (n, _) => (n, cosFromSnell n0 s0 n)
    | none => (re n0, re c0)
  let A := if isP then amatP (re n0) (re c0) (prod ms) ne ce else amatS (re n0) (re c0) (prod ms) ne ce
  (rtot A, ttot A)

/-- the four Fresnel coefficients at an interface, refraction angle from Snell's law (real, below TIR) -/
def fresnel4 (n0 n1 th0 : Float) : Float × Float × Float × Float :=
  let c0 := Float.cos th0
  let s1 := snellSin n0 n1 (Float.sin th0)
  let c1 := Float.sqrt (1 - s1 * s1)
  (fresnelRs n0 n1 c0 c1, fresnelTs n0 n1 c0 c1, fresnelRp n0 n1 c0 c1, fresnelTp n0 n1 c0 c1)

end Exec
end Model.C17
