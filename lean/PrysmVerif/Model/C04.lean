import PrysmVerif.PyPrelude
/-!
# C04 — hand-written model of the origin convention (core Lean only)

Axis length `n`, target length `N`; the origin of an axis of length `n` is index `n / 2`
(`Int` `/` is floor division for a positive divisor, i.e. Python's `n // 2`).
-/
namespace Model.C04

def origin (n : Int) : Int := n / 2

/-- `fftrange n = arange(lo, hi)` -/
def fftrangeLo (n : Int) : Int := -(n / 2)
def fftrangeHi (n : Int) : Int := -(n / 2) + n

/-- number of samples inserted before the data by `pad2d` (both branches) -/
def padBefore (n N : Int) : Int := N / 2 - n / 2
def padAfter (n N : Int) : Int := (N - n) - padBefore n N

/-- first source index kept by `crop_center` -/
def cropLeft (n N : Int) : Int := n / 2 - N / 2

/-- default output length of `pad2d`: `ceil(n * Q)` -/
def padOutLen (n Q : Rat) : Rat := ((Rat.ceil (n * Q) : Int) : Rat)

/-- reference index of `psf.centroid` -/
def centroidRef (n : Int) : Int := n / 2

/-- `fftfreq(n, d)[k] * (n d)` for `0 ≤ k < n` -/
def fftfreqNum (n k : Int) : Int := if k < (n + 1) / 2 then k else k - n

/-- `fftshift` of a length-`n` vector: `out[i] = in[(i - n/2) mod n]` -/
def fftshiftSrc (n i : Int) : Int := (i - n / 2) % n

/-- numerator of `forward_ft_unit(dx, n)[i]` (times `n dx`) -/
def ftUnitNum (n i : Int) : Int := fftfreqNum n (fftshiftSrc n i)

/-- index map of a constant-mode pad: where does output sample `i` come from? -/
def padSrc (n N i : Int) : Option Int :=
  if padBefore n N ≤ i ∧ i < padBefore n N + n then some (i - padBefore n N) else none

/-- index map of a crop: output sample `i` comes from source sample `i + cropLeft` -/
def cropSrc (n N i : Int) : Int := i + cropLeft n N

/-! ## NumPy helpers `fftfreq` / `fftshift` / `ifftshift` (the constants are re-read from NumPy's own source by the translator) -/

/-- `np.fft.fftfreq(n)` numerators: `results[:split] = arange(p1lo, ..)`, `results[split:] = arange(p2lo, ..)` -/
def fftfreqOf (split p1lo p2lo : Int) (k : Int) : Int := if k < split then p1lo + k else p2lo + (k - split)
def npFftfreqSplit (n : Int) : Int := (n - 1) / 2 + 1
def npFftfreqP1Lo : Int := 0
def npFftfreqP2Lo (n : Int) : Int := -(n / 2)
def npFftshiftBy (dim : Int) : Int := dim / 2
def npIfftshiftBy (dim : Int) : Int := -(dim / 2)
/-- `np.roll(x, s)` on an axis of length `n`: `out[i] = x[(i - s) mod n]` -/
def rollSrc (n s i : Int) : Int := (i - s) % n

/-- `forward_ft_unit(dx, n, shift)[i] * (n dx)` -/
def ftUnitNumS (shift : Bool) (n i : Int) : Int := if shift then ftUnitNum n i else fftfreqNum n i

/-! ## grids: `make_xy_grid`, `RichData.x / y`, `Slices` -/

/-- sample `i` of `fftrange(s) * dx` -/
def gridElem (s i : Int) (dx : Rat) : Rat := ((fftrangeLo s + i : Int) : Rat) * dx
/-- `make_xy_grid((m, n), dx=dx)`: first / second returned array at `[i, j]` -/
def gridX (_m n : Int) (dx : Rat) (_i j : Int) : Rat := gridElem n j dx
def gridY (m _n : Int) (dx : Rat) (i _j : Int) : Rat := gridElem m i dx
/-- `make_xy_grid((m, n), dx=dx, grid=False)`: first / second returned vector at `[k]` -/
def vecX (_m n : Int) (dx : Rat) (k : Int) : Rat := gridElem n k dx
def vecY (m _n : Int) (dx : Rat) (k : Int) : Rat := gridElem m k dx
/-- `dx` used when `diameter=` is given -/
def dxOfDiameter (d : Rat) (m n : Int) : Rat := d / ((max m n : Int) : Rat)

/-- `RichData.slices`: the 1-D vectors handed to `Slices` (`x[0]`, `y[..., 0]`) -/
def slicesXVec (X : Int → Int → Rat) (j : Int) : Rat := X 0 j
def slicesYVec (Y : Int → Int → Rat) (i : Int) : Rat := Y i 0
/-- `Slices.__init__`: centre indices; `am v len` stands for `np.argmin(abs(v))` of a vector of length `len` -/
def slicesCentreY (am : (Int → Rat) → Int → Int) (m _n : Int) (_xv yv : Int → Rat) : Int := am yv m
def slicesCentreX (am : (Int → Rat) → Int → Int) (_m n : Int) (xv _yv : Int → Rat) : Int := am xv n
/-- `Slices.x` / `.y` data (two-sided: whole row / column through the centre; one-sided: from the centre on) -/
def sliceXTwo {α : Type} (src : Int → Int → α) (cy _cx : Int) (j : Int) : α := src cy j
def sliceYTwo {α : Type} (src : Int → Int → α) (_cy cx : Int) (i : Int) : α := src i cx
def sliceXOne {α : Type} (src : Int → Int → α) (cy cx : Int) (j : Int) : α := src cy (cx + j)
def sliceYOne {α : Type} (src : Int → Int → α) (cy cx : Int) (i : Int) : α := src (cy + i) cx
def sliceXOneCoord (xv : Int → Rat) (cx : Int) (j : Int) : Rat := xv (cx + j)
def sliceYOneCoord (yv : Int → Rat) (cy : Int) (i : Int) : Rat := yv (cy + i)

/-! ## centroid -/

/-- one component of `psf.centroid(unit='spatial')` given that axis' centre of mass `com` (in samples) -/
def centroidSpatial (dx com : Rat) (n : Int) : Rat := dx * (com - ((centroidRef n : Int) : Rat))

/-! ## windows and lengths derived from the origin convention elsewhere -/

/-- `psf.autocrop(data, px)`: the window `[lo, hi)` cut around the integer centroid index `c` of one axis -/
def autocropLo (c px : Int) : Int := c - px / 2
def autocropHi (c px : Int) : Int := c - px / 2 + px
/-- `RichData.support_x` / `support_y`: columns (axis 1) span x, rows (axis 0) span y -/
def supportX (_m n : Int) (dx : Rat) : Rat := (n : Rat) * dx
def supportY (m _n : Int) (dx : Rat) : Rat := (m : Rat) * dx
/-- `fourier_resample(f, zoom)`: output length of an axis of length `len` zoomed by `z` (`int(len * z)`) -/
def resampleOut (len : Int) (z : Rat) : Rat := pyTruncRat ((len : Rat) * z)

/-- `uniform_cart_to_polar(x, y, data)` returns an array with phi along axis 0 (`len(y)` samples) and rho along axis 1
(`len(x)` samples, starting at radius 0) -/
def polarRhoAxis : Int := 1
def polarPhiAxis : Int := 0
def polarRhoLen (_m n : Int) : Int := n
def polarPhiLen (m _n : Int) : Int := m

/-! ## executable forms used only by the driver (index maps as lists, argmin over exact rationals) -/

/-- first index of a minimal `|v k|`, `0 ≤ k < len` (what `np.argmin(abs(v))` returns on exact data) -/
def argminAbs (v : Int → Rat) (len : Int) : Int :=
  let a (x : Rat) : Rat := if x < 0 then -x else x
  (List.range len.toNat).foldl (fun (best : Int) (k : Nat) => if a (v (k : Int)) < a (v best) then (k : Int) else best) 0

end Model.C04
