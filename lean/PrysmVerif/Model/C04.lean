import PrysmVerif.PyPrelude
/-!
# C04 — hand-written model of the origin convention (core Lean only)

Axis length `n`, target length `N`; the origin of an axis of length `n` is index `n / 2`
(`Int` `/` is floor division for a positive divisor, i.e. Python's `n // 2`).
-/
namespace Model.C04

def origin (n : Int) : Int := n / 2

/-- `fftrange n = arange(lo, hi)` -/
def fftrangeLo (n : Int) : Int := -(n / 2)
def fftrangeHi (n : Int) : Int := -(n / 2) + n

/-- number of samples inserted before the data by `pad2d` (both branches) -/
def padBefore (n N : Int) : Int := N / 2 - n / 2
def padAfter (n N : Int) : Int := (N - n) - padBefore n N

/-- first source index kept by `crop_center` -/
def cropLeft (n N : Int) : Int := n / 2 - N / 2

/-- default output length of `pad2d`: `ceil(n * Q)` -/
def padOutLen (n Q : Rat) : Rat := ((Rat.ceil (n * Q) : Int) : Rat)

/-- reference index of `psf.centroid` -/
def centroidRef (n : Int) : Int := n / 2

/-- `fftfreq(n, d)[k] * (n d)` for `0 ≤ k < n` -/
def fftfreqNum (n k : Int) : Int := if k < (n + 1) / 2 then k else k - n

/-- `fftshift` of a length-`n` vector: `out[i] = in[(i - n/2) mod n]` -/
def fftshiftSrc (n i : Int) : Int := (i - n / 2) % n

/-- numerator of `forward_ft_unit(dx, n)[i]` (times `n dx`) -/
def ftUnitNum (n i : Int) : Int := fftfreqNum n (fftshiftSrc n i)

/-- index map of a constant-mode pad: where does output sample `i` come from? -/
def padSrc (n N i : Int) : Option Int :=
  if padBefore n N ≤ i ∧ i < padBefore n N + n then some (i - padBefore n N) else none

/-- index map of a crop: output sample `i` comes from source sample `i + cropLeft` -/
def cropSrc (n N i : Int) : Int := i + cropLeft n N

end Model.C04
