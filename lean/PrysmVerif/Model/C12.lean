import PrysmVerif.Num
/-!
# C12 — hand-written model of `prysm.interferogram.Interferogram` (core Lean only)

Part A: the coordinate caches as a state machine that *interprets effect lists* (the same effect
language the translator `tools/gen_c12.py` emits from the source), and a small static analyser
(`astep` / `WellBehaved`) over effect lists.  `Props/C12.lean` proves the analyser sound: a well-behaved
effect list preserves the coherence invariant for every state, every argument value, every slice.

Part B: the value level on small arrays (`Option K` for NaN): validity, statistics, piston / tilt /
power removal by the normal equations, bounding-box crop.
-/
namespace Model.C12

/-! ## Part A — effect language -/

inductive XY | x | y deriving DecidableEq, Repr
inductive RT | r | t deriving DecidableEq, Repr

/-- scalar expressions that occur in the coordinate glue -/
inductive Val
  | one                -- the literal `1.0`
  | dx                 -- `self.dx` evaluated now
  | arg (i : Nat)      -- the i-th argument of the public method
  | saved (i : Nat)    -- a value of `self.dx` saved earlier (call-by-value argument of an inlined self-call)
  deriving DecidableEq, Repr

/-- kinds of writes to `self.data` that keep its shape -/
inductive DataW
  | arith        -- `self.data -= e`, `self.data[m] -= e` : elementwise arithmetic on the stored samples
  | setInvalid   -- `self.data[idx] = nan`
  | setValue     -- `self.data[idx] = v`
  | replace      -- `self.data = <new array of the same shape>`
  deriving DecidableEq, Repr

inductive Eff
  | dataReshape (k : Nat)          -- `self.data = <array of a new shape>` : slice no. `k` of the old data, or a pad
  | dataWrite (w : DataW)
  | setDx (v : Val)
  | saveDx (i : Nat)
  | setLatcaled (b : Bool)
  | fillXY (c : XY)                -- property read `self.x` / `self.y` (populates BOTH when `_c is None`)
  | fillRT (c : RT)                -- property read `self.r` / `self.t` (reads x, y and populates BOTH when `_c is None`)
  | freshXY                        -- `self.x, self.y = make_xy_grid(self.data.shape, dx=self.dx)`
  | freshRT                        -- `self._r, self._t = cart_to_polar(self.x, self.y)`
  | reslice (c : XY) (k : Nat)     -- `self.c = <c>[slice k]`
  | resliceP (c : RT) (k : Nat)
  | scale (c : XY) (v : Val)       -- `self.c *= v`
  | center (c : XY)                -- `self.c -= <c>[shape//2]`
  | clearXY (c : XY)               -- `self._c = None`
  | clearRT (c : RT)
  | opaqueXY (c : XY)              -- any other write
  | opaqueRT (c : RT)
  | guardXY (c : XY) (e : Eff)     -- `if self._c is not None: e`
  | guardRT (c : RT) (e : Eff)
  deriving DecidableEq, Repr

/-! ## concrete semantics -/

/-- a Cartesian coordinate array is an affine grid: `value(i,j) = o + idx * sp`
    (`idx = j` for `x`, `idx = i` for `y`) on `rows × cols` samples -/
structure Axis (K : Type) where
  rows : Nat
  cols : Nat
  o : K
  sp : K

/-- a polar coordinate array is `hypot` / `arctan2` (elementwise) of the two Cartesian arrays recorded here -/
structure Polar (K : Type) where
  sx : Axis K
  sy : Axis K

structure State (K : Type) where
  rows : Nat
  cols : Nat
  dx : K
  latcaled : Bool
  x : Option (Axis K)
  y : Option (Axis K)
  r : Option (Polar K)
  t : Option (Polar K)
  saved : Nat → K

/-- everything a method call is parameterised by -/
structure Env (K : Type) where
  arg : Nat → K
  shape : Nat → Nat × Nat      -- shape of the array produced by reshape / slice no. k
  off : Nat → Nat × Nat        -- (first row, first column) of slice no. k
  junkA : Axis K               -- what an opaque write stores
  junkP : Polar K

variable {K : Type} [Num K]

def getXY (s : State K) : XY → Option (Axis K)
  | .x => s.x
  | .y => s.y

def setXY (s : State K) (c : XY) (v : Option (Axis K)) : State K :=
  match c with
  | .x => { s with x := v }
  | .y => { s with y := v }

def getRT (s : State K) : RT → Option (Polar K)
  | .r => s.r
  | .t => s.t

def setRT (s : State K) (c : RT) (v : Option (Polar K)) : State K :=
  match c with
  | .r => { s with r := v }
  | .t => { s with t := v }

/-- `make_xy_grid(shape, dx)`: `fftrange(n) * dx` per axis -/
def freshAxis (s : State K) : XY → Axis K
  | .x => ⟨s.rows, s.cols, Num.ofInt (-((s.cols / 2 : Nat) : Int)) * s.dx, s.dx⟩
  | .y => ⟨s.rows, s.cols, Num.ofInt (-((s.rows / 2 : Nat) : Int)) * s.dx, s.dx⟩

def resliceAxis (env : Env K) (c : XY) (k : Nat) (a : Axis K) : Axis K :=
  let first : Nat := match c with
    | .x => (env.off k).2
    | .y => (env.off k).1
  ⟨(env.shape k).1, (env.shape k).2, a.o + Num.ofInt (first : Int) * a.sp, a.sp⟩

def reslicePolar (env : Env K) (k : Nat) (p : Polar K) : Polar K :=
  ⟨resliceAxis env .x k p.sx, resliceAxis env .y k p.sy⟩

def evalV (env : Env K) (s : State K) : Val → K
  | .one => Num.ofInt 1
  | .dx => s.dx
  | .arg i => env.arg i
  | .saved i => s.saved i

def scaleAxis (v : K) (a : Axis K) : Axis K := ⟨a.rows, a.cols, a.o * v, a.sp * v⟩

/-- `c -= c[shape // 2]` (the index is taken from the DATA shape, as `recenter` does) -/
def centerAxis (s : State K) (c : XY) (a : Axis K) : Axis K :=
  let idx : Nat := match c with
    | .x => s.cols / 2
    | .y => s.rows / 2
  ⟨a.rows, a.cols, a.o - (a.o + Num.ofInt (idx : Int) * a.sp), a.sp⟩

/-- the `x` / `y` getter: when the cache is empty BOTH Cartesian caches are regenerated -/
def fillXY (s : State K) (c : XY) : State K :=
  match getXY s c with
  | some _ => s
  | none => { s with x := some (freshAxis s .x), y := some (freshAxis s .y) }

/-- `cart_to_polar(self.x, self.y)` stored in both polar caches -/
def storePolar (s : State K) : State K :=
  let s1 := fillXY s .x
  let s2 := fillXY s1 .y
  match s2.x, s2.y with
  | some a, some b => { s2 with r := some ⟨a, b⟩, t := some ⟨a, b⟩ }
  | _, _ => s2

def step (env : Env K) (s : State K) : Eff → State K
  | .dataReshape k => { s with rows := (env.shape k).1, cols := (env.shape k).2 }
  | .dataWrite _ => s
  | .setDx v => { s with dx := evalV env s v }
  | .saveDx i => { s with saved := fun j => if j = i then s.dx else s.saved j }
  | .setLatcaled b => { s with latcaled := b }
  | .fillXY c => fillXY s c
  | .fillRT c =>
      match getRT s c with
      | some _ => s
      | none => storePolar s
  | .freshXY => { s with x := some (freshAxis s .x), y := some (freshAxis s .y) }
  | .freshRT => storePolar s
  | .reslice c k => setXY s c ((getXY s c).map (resliceAxis env c k))
  | .resliceP c k => setRT s c ((getRT s c).map (reslicePolar env k))
  | .scale c v => setXY s c ((getXY s c).map (scaleAxis (evalV env s v)))
  | .center c => setXY s c ((getXY s c).map (centerAxis s c))
  | .clearXY c => setXY s c none
  | .clearRT c => setRT s c none
  | .opaqueXY c => setXY s c (some env.junkA)
  | .opaqueRT c => setRT s c (some env.junkP)
  | .guardXY c e => if (getXY s c).isSome then step env s e else s
  | .guardRT c e => if (getRT s c).isSome then step env s e else s

def run (env : Env K) (s : State K) (effs : List Eff) : State K := effs.foldl (step env) s

/-! ## the static analyser over effect lists -/

inductive AVal | unknown | one | entry | arg (i : Nat) deriving DecidableEq, Repr
inductive AShape | entry | resh (k : Nat) deriving DecidableEq, Repr

/-- what is known about a Cartesian cache: `none` = certainly empty; `st pres sh sp` = (certainly present
    if `pres`) and, if present, of shape `sh` and spacing `sp`; `bad` = nothing known -/
inductive AC | none | st (pres : Bool) (sh : AShape) (sp : AVal) | bad deriving DecidableEq, Repr

/-- what is known about a polar cache: `rel px py` = if present, it was computed from arrays `X, Y` such that
    the current `x` is `X` (resliced by `px` if given) and the current `y` is `Y` (resliced by `py` if given) -/
inductive AP | none | rel (px py : Option Nat) | bad deriving DecidableEq, Repr

structure Abs where
  shape : AShape
  dx : AVal
  saved : List (Nat × AVal)
  x : AC
  y : AC
  r : AP
  t : AP
  link : Bool      -- `_x is None ↔ _y is None`
  linkP : Bool     -- `_r is None ↔ _t is None`
  fail : Bool      -- an unsupported construct was met
  deriving DecidableEq, Repr

def ainit : Abs :=
  { shape := .entry, dx := .entry, saved := [], x := .st false .entry .entry, y := .st false .entry .entry,
    r := .rel none none, t := .rel none none, link := true, linkP := true, fail := false }

def lookupA : List (Nat × AVal) → Nat → AVal
  | [], _ => .unknown
  | (j, v) :: rest, i => if j = i then v else lookupA rest i

def aeval (A : Abs) : Val → AVal
  | .one => .one
  | .dx => A.dx
  | .arg i => .arg i
  | .saved i => lookupA A.saved i

def amul : AVal → AVal → AVal
  | .one, w => w
  | v, .one => v
  | _, _ => .unknown

def agetC (A : Abs) : XY → AC
  | .x => A.x
  | .y => A.y

def asetC (A : Abs) (c : XY) (v : AC) : Abs :=
  match c with
  | .x => { A with x := v }
  | .y => { A with y := v }

def agetP (A : Abs) : RT → AP
  | .r => A.r
  | .t => A.t

def asetP (A : Abs) (c : RT) (v : AP) : Abs :=
  match c with
  | .r => { A with r := v }
  | .t => { A with t := v }

def otherXY : XY → XY
  | .x => .y
  | .y => .x

def otherRT : RT → RT
  | .r => .t
  | .t => .r

def joinC : AC → AC → AC
  | .st p sh sp, .st p' sh' sp' => if sh = sh' ∧ sp = sp' then .st (p && p') sh sp else .bad
  | .none, .none => .none
  | _, _ => .bad
def joinP (a b : AP) : AP := if a = b then a else .bad

/-- keep a polar fact only if the cache is certainly empty -/
def spoilP : AP → AP
  | .none => .none
  | _ => .bad

def spoilRT (A : Abs) : Abs := { A with r := spoilP A.r, t := spoilP A.t }

def markPres : AC → AC
  | .st _ sh sp => .st true sh sp
  | a => a

/-- the Cartesian caches of `B`, joined with those of `A` (the scalar part of `A` is kept) -/
def joinCaches (A B : Abs) : Abs :=
  { A with x := joinC A.x B.x, y := joinC A.y B.y, r := joinP A.r B.r, t := joinP A.t B.t,
           link := A.link && B.link, linkP := A.linkP && B.linkP, fail := A.fail || B.fail }

/-- the other Cartesian cache after a getter ran: unchanged if the read cache was present, regenerated otherwise -/
def afillOther (A : Abs) : AC → AC
  | .st p sh sp => if sh = A.shape ∧ sp = A.dx then .st (p || A.link) sh sp else .bad
  | _ => .bad

def afillXY (A : Abs) (c : XY) : Abs :=
  let fresh := AC.st true A.shape A.dx
  match agetC A c with
  | .none =>
      -- certainly empty: both regenerated
      spoilRT { A with x := fresh, y := fresh, link := true }
  | .st true _ _ => A
  | .st false sh sp =>
      if sh = A.shape ∧ sp = A.dx then
        asetC (asetC A (otherXY c) (afillOther A (agetC A (otherXY c)))) c fresh
      else { A with fail := true }
  | .bad => { A with fail := true }

def astorePolar (A : Abs) : Abs :=
  let A2 := afillXY (afillXY A .x) .y
  { A2 with r := .rel none none, t := .rel none none, linkP := true }

def resliceRel (c : XY) (k : Nat) : AP → AP
  | .none => .none
  | .rel px py =>
      match c with
      | .x => if px = none then .rel (some k) py else .bad
      | .y => if py = none then .rel px (some k) else .bad
  | .bad => .bad

/-- is `e` a transformation `Option.map f` of a Cartesian cache? -/
def isMapXY : Eff → Bool
  | .reslice _ _ => true
  | .scale _ _ => true
  | .center _ => true
  | _ => false

def isMapRT : Eff → Bool
  | .resliceP _ _ => true
  | _ => false

/-- is `e` a getter read of a Cartesian / polar cache? (a no-op when that cache is populated) -/
def isFillXY : Eff → Bool
  | .fillXY _ => true
  | _ => false

def isFillRT : Eff → Bool
  | .fillRT _ => true
  | _ => false

def astep (A : Abs) : Eff → Abs
  | .dataReshape k => { A with shape := .resh k }
  | .dataWrite _ => A
  | .setDx v => { A with dx := aeval A v }
  | .saveDx i => { A with saved := (i, A.dx) :: A.saved }
  | .setLatcaled _ => A
  | .fillXY c => afillXY A c
  | .fillRT c =>
      match agetP A c with
      | .none => astorePolar A
      | _ => joinCaches A (astorePolar A)
  | .freshXY => spoilRT { A with x := .st true A.shape A.dx, y := .st true A.shape A.dx, link := true }
  | .freshRT => astorePolar A
  | .reslice c k =>
      let a' := match agetC A c with
        | .st p _ sp => AC.st p (.resh k) sp
        | a => a
      let A1 := asetC A c a'
      { A1 with r := resliceRel c k A.r, t := resliceRel c k A.t }
  | .resliceP c k =>
      let p' := match agetP A c with
        | .rel (some kx) (some ky) => if kx = k ∧ ky = k then AP.rel none none else AP.bad
        | .rel _ _ => AP.bad
        | p => p
      asetP A c p'
  | .scale c v =>
      let a' := match agetC A c with
        | .st p sh sp => AC.st p sh (amul sp (aeval A v))
        | a => a
      spoilRT (asetC A c a')
  | .center _ => spoilRT A
  | .clearXY c => spoilRT { asetC A c .none with link := decide (agetC A (otherXY c) = .none) }
  | .clearRT c => { asetP A c .none with linkP := decide (agetP A (otherRT c) = .none) }
  | .opaqueXY c => spoilRT { asetC A c .bad with link := false }
  | .opaqueRT c => { asetP A c .bad with linkP := false }
  | .guardXY c e =>
      if agetC A c = .none then A
      else if A.link && isMapXY e then astep A e
      else if A.link && isFillXY e then A      -- guard true ⇒ both Cartesian caches populated ⇒ the getter does nothing
      else { A with fail := true }
  | .guardRT c e =>
      if agetP A c = .none then A
      else if A.linkP && isMapRT e then astep A e
      else if A.linkP && isFillRT e then A
      else { A with fail := true }

def okC (A : Abs) : AC → Bool
  | .none => true
  | .st _ sh sp => decide (sh = A.shape) && decide (sp = A.dx) && decide (sp ≠ .unknown)
  | .bad => false

def okP : AP → Bool
  | .none => true
  | .rel none none => true
  | _ => false

def accept (A : Abs) : Bool :=
  !A.fail && okC A A.x && okC A A.y && okP A.r && okP A.t && A.link && A.linkP

/-- the table-level condition: the analyser accepts the effect list -/
def WellBehaved (effs : List Eff) : Bool := accept (effs.foldl astep ainit)

/-- nothing known about the caches (the state a constructor starts from) -/
def aunknown : Abs :=
  { shape := .entry, dx := .entry, saved := [], x := .bad, y := .bad, r := .bad, t := .bad,
    link := false, linkP := false, fail := false }

/-- the table-level condition for a constructor: the analyser accepts the list starting from NO knowledge -/
def WellBehavedInit (effs : List Eff) : Bool := accept (effs.foldl astep aunknown)

/-- data writes of an effect (looking through guards) -/
def dataEffect : Eff → Option (Option DataW)    -- none: no data write; some none: reshape; some (some w)
  | .dataReshape _ => some none
  | .dataWrite w => some (some w)
  | .guardXY _ e => dataEffect e
  | .guardRT _ e => dataEffect e
  | _ => none

/-- the method writes `self.data` only through elementwise arithmetic -/
def KeepsValidity (effs : List Eff) : Bool :=
  effs.all fun e => match dataEffect e with
    | none => true
    | some (some .arith) => true
    | _ => false

/-- what one shape-keeping write to `self.data` does to one stored sample (`none` = NaN): `sel` says whether the
    sample is addressed by the write, `f` is the arithmetic update, `v` the stored value -/
def writeSample (w : DataW) (sel : Bool) (f : K → K) (v : Option K) (d : Option K) : Option K :=
  match w with
  | .arith => if sel then d.map f else d
  | .setInvalid => if sel then none else d
  | .setValue => if sel then v else d
  | .replace => v

/-- the stored sample after one effect (reshapes are not sample-wise and are excluded by `KeepsValidity`) -/
def sampleStep (d : Option K) (e : Eff × Bool × (K → K) × Option K) : Option K :=
  match dataEffect e.1 with
  | some (some w) => writeSample w e.2.1 e.2.2.1 e.2.2.2 d
  | _ => d

/-! ## the hand-written effect table (what the driver executes; compared with the real object) -/

def stripEffs : List Eff :=
  [.setDx .one, .freshXY, .clearRT .r, .clearRT .t, .setLatcaled false]

def latcalEffs (v : Val) : List Eff :=
  stripEffs ++ [.fillXY .x, .scale .x v, .fillXY .y, .scale .y v, .setDx v, .setLatcaled true]

def methodEffs : String → Option (List Eff)
  | "read_x" => some [.fillXY .x]
  | "read_y" => some [.fillXY .y]
  | "read_r" => some [.fillRT .r]
  | "read_t" => some [.fillRT .t]
  | "crop" => some [.dataReshape 0,
                    .guardXY .x (.reslice .x 0), .guardXY .x (.fillXY .y), .guardXY .x (.reslice .y 0),
                    .guardRT .r (.resliceP .r 0), .guardRT .r (.fillRT .t), .guardRT .r (.resliceP .t 0)]
  | "crop_noop" => some []
  | "pad" => some ([.dataReshape 0, .saveDx 0] ++ latcalEffs (.saved 0))
  | "mask" => some [.dataWrite .setInvalid]
  | "fill" => some [.dataWrite .setValue]
  | "spike_clip" => some [.dataWrite .setInvalid]
  | "remove_piston" => some [.dataWrite .arith]
  | "remove_tiptilt" => some [.fillXY .x, .fillXY .y, .dataWrite .arith]
  | "remove_power" => some [.dataWrite .arith]
  | "recenter" => some [.fillXY .x, .fillXY .x, .center .x, .fillXY .y, .fillXY .y, .center .y,
                        .clearRT .r, .clearRT .t]
  | "latcal" => some (latcalEffs (.arg 0))
  | "strip_latcal" => some stripEffs
  | "filter" => some [.fillRT .r, .dataWrite .replace]
  | _ => none

/-! ## Part B — value level -/

def lsum : List K → K
  | [] => Num.ofInt 0
  | v :: l => v + lsum l

def lenK (l : List K) : K := Num.ofInt (l.length : Int)

/-- the valid (non-NaN) samples -/
def validOf (d : List (Option K)) : List K := d.filterMap id

def mean (l : List K) : K := lsum l / lenK l
def meanSq (l : List K) : K := lsum (l.map fun v => v * v) / lenK l
/-- `np.std(...)**2` -/
def var (l : List K) : K := meanSq (l.map fun v => v - mean l)
/-- `Sa` with the absolute value as a parameter -/
def saWith (abs : K → K) (l : List K) : K := lsum (l.map fun v => abs (v - mean l)) / lenK l

def lmax [LT K] [DecidableLT K] : List K → K
  | [] => Num.ofInt 0
  | [v] => v
  | v :: l => let m := lmax l; if m < v then v else m
def lmin [LT K] [DecidableLT K] : List K → K
  | [] => Num.ofInt 0
  | [v] => v
  | v :: l => let m := lmin l; if v < m then v else m
def pv [LT K] [DecidableLT K] (l : List K) : K := lmax l - lmin l

/-- `remove_piston` -/
def removePiston (d : List (Option K)) : List (Option K) :=
  let m := mean (validOf d)
  d.map (Option.map fun v => v - m)

/-- sums entering the 2-column normal equations; a sample is `(a, b, z)` -/
structure Sums (K : Type) where
  aa : K
  ab : K
  bb : K
  az : K
  bz : K

def sums (l : List (K × K × K)) : Sums K :=
  { aa := lsum (l.map fun p => p.1 * p.1), ab := lsum (l.map fun p => p.1 * p.2.1),
    bb := lsum (l.map fun p => p.2.1 * p.2.1), az := lsum (l.map fun p => p.1 * p.2.2),
    bz := lsum (l.map fun p => p.2.1 * p.2.2) }

/-- least-squares coefficients of `z ≈ α a + β b` (Cramer's rule on the normal equations) -/
def fit2 (l : List (K × K × K)) : K × K :=
  let S := sums l
  let det := S.aa * S.bb - S.ab * S.ab
  ((S.az * S.bb - S.bz * S.ab) / det, (S.aa * S.bz - S.ab * S.az) / det)

/-- `remove_tiptilt`: both fitted columns are subtracted -/
def removeBoth (l : List (K × K × K)) : List (K × K × K) :=
  let c := fit2 l
  l.map fun p => (p.1, p.2.1, p.2.2 - c.1 * p.1 - c.2 * p.2.1)

/-- `remove_power`: columns `(ρ², 1)`, only the first fitted column is subtracted -/
def removeFirst (l : List (K × K × K)) : List (K × K × K) :=
  let c := fit2 l
  l.map fun p => (p.1, p.2.1, p.2.2 - c.1 * p.1)

/-! ### bounding-box crop on a validity matrix `v : row → col → Bool` of size `rows × cols` -/

/-- `a.argmax()` of a boolean vector: index of the first `true`, `0` if there is none -/
def argmaxB (l : List Bool) : Nat := if l.any id then l.findIdx id else 0

def rowAny (v : Nat → Nat → Bool) (rows cols : Nat) : List Bool :=
  (List.range rows).map fun i => (List.range cols).any fun j => v i j
def colAny (v : Nat → Nat → Bool) (rows cols : Nat) : List Bool :=
  (List.range cols).map fun j => (List.range rows).any fun i => v i j

/-- `(r0, r1, c0, c1)`: the rows `[r0, r1)` and columns `[c0, c1)` kept by `Interferogram.crop`;
    `none` when the method returns early (nothing to trim, or no valid sample at all) -/
def cropBox (v : Nat → Nat → Bool) (rows cols : Nat) : Option (Nat × Nat × Nat × Nat) :=
  let rl := rowAny v rows cols
  let cl := colAny v rows cols
  let left := argmaxB rl
  let right := argmaxB rl.reverse
  let top := argmaxB cl
  let bottom := argmaxB cl.reverse
  if left = 0 ∧ right = 0 ∧ top = 0 ∧ bottom = 0 then none
  else some (left, rows - right, top, cols - bottom)

/-! ### the slice arithmetic of `Interferogram.crop` (integers; `left/right` = leading / trailing all-invalid ROWS,
`top/bottom` = leading / trailing all-invalid COLUMNS, as the source names them) -/

/-- NumPy's normalisation of one slice bound `v` on an axis of length `n` (step 1): negative counts from the end, clamp -/
def normIdx (n v : Int) : Int := if v < 0 then max (n + v) 0 else min v n

/-- the window `Interferogram.crop` must keep: rows `[left, rows - right)`, columns `[top, cols - bottom)` -/
def cropRowLo (left _right _top _bottom _rows _cols : Int) : Int := left
def cropRowHi (_left right _top _bottom rows _cols : Int) : Int := rows - right
def cropColLo (_left _right top _bottom _rows _cols : Int) : Int := top
def cropColHi (_left _right _top bottom _rows cols : Int) : Int := cols - bottom

end Model.C12
