import PrysmVerif.Num
/-!
# C03 — hand-written model: sampling arithmetic of the propagation routes and the Fourier sums (core Lean only)

Conventions.  Axis 0 = rows = "y", axis 1 = columns = "x".  The origin of an axis of `n` samples is index
`n / 2`.  Coordinates live in `R`, field values in `V`; the Fourier kernel is a parameter `e : R → V`, read as
`e t = exp(-2πi t)` (forward).  The inverse transforms use `fun t => e (-t)`.
Everything is written against `[Num R] [Num V]`, so the same definitions run on `Float`/`Cx Float` in the
driver and are reasoned about over Mathlib fields (`Lemmas/C03Basic.lean`).
-/
namespace Model.C03

section scalar
variable {K : Type} [Num K]

/-- `propagation.Q_for_sampling(input_diameter, prop_dist, wavelength, output_dx)` -/
def qForSampling (D z lam dxo : K) : K := (lam * z) / D / dxo

/-- `propagation.pupil_sample_to_psf_sample(pupil_sample, samples, wavelength, efl)` -/
def pupilToPsf (dxp N lam efl : K) : K := (efl * lam) / (dxp * N)

/-- `propagation.psf_sample_to_pupil_sample(psf_sample, samples, wavelength, efl)` -/
def psfToPupil (dxs N lam efl : K) : K := (efl * lam) / (dxs * N)

/-- the `Q` that `focus_fixed_sampling` / `unfocus_fixed_sampling` hand to the transform for an axis that has `s`
input samples of spacing `dx` (each axis from ITS OWN sample count) -/
def axisQ (s dx z lam dxo : K) : K := qForSampling (s * dx) z lam dxo

/-- the constant `1/(s·Q)` that multiplies `coordinate_in · coordinate_out` inside the transform kernels -/
def axisAlpha (s dx z lam dxo : K) : K := Num.ofInt 1 / (s * axisQ s dx z lam dxo)

/-- shift handed to the transform: the requested shift in output samples -/
def shiftSamples (shift dxo : K) : K := shift / dxo

/-- the shift argument `to_fpm_and_back` passes to `unfocus_fixed_sampling` for the return leg -/
def fpmBackShiftArg (shift dx fpmDx : K) : K := shift * dx / fpmDx

/-- … which `unfocus_fixed_sampling` then divides by ITS output spacing (the pupil `dx`) -/
def fpmBackShift (shift dx fpmDx : K) : K := shiftSamples (fpmBackShiftArg shift dx fpmDx) dx

/-- the spacing `Wavefront.focus` reports: from the sample count of axis 1 of the padded array -/
def focusDx (dxp N1 lam efl : K) : K := pupilToPsf dxp N1 lam efl
end scalar

section fourier
variable {R V : Type} [Num R] [Num V]

/-- FFT-aligned coordinate of sample `i` on an axis of `n` samples: `i - n//2` -/
def coord (n i : Nat) : R := Num.ofInt ((i : Int) - (n : Int) / 2)

/-- one axis of the matrix DFT exactly as `MatrixDFTExecutor._setup_bases` builds it: the shift `s` (in output
samples) is subtracted from BOTH coordinate vectors; `α = 1/(n·Q)` -/
def mdft1 (e : R → V) (n N : Nat) (α s : R) (f : Nat → V) (l : Nat) : V :=
  Num.sumTo n fun i => f i * e ((coord n i - s) * (coord N l - s) * α)

/-- the 2-D transform is the separable composition `Eout @ (ary @ Ein)`, times the norm -/
def mdft2 (e : R → V) (m n M N : Nat) (αy αx sy sx : R) (norm : V) (f : Nat → Nat → V) (k l : Nat) : V :=
  norm * mdft1 e m M αy sy (fun j => mdft1 e n N αx sx (f j) l) k

/-- the physical focusing integral on one axis, evaluated at a CONTINUOUS output coordinate `ξ`:
`F(ξ) = Σ_i f[i] · e(x_i ξ κ)` with `x_i = (i - n//2)·dx` and `κ = 1/(λ z)` -/
def F1 (e : R → V) (n : Nat) (dx κ : R) (f : Nat → V) (ξ : R) : V :=
  Num.sumTo n fun i => f i * e (coord n i * dx * ξ * κ)

/-- the 2-D physical focusing integral at continuous output coordinates `(η, ξ)` (separable) -/
def F2 (e : R → V) (m n : Nat) (dx κ : R) (f : Nat → Nat → V) (η ξ : R) : V :=
  F1 e m dx κ (fun j => F1 e n dx κ (f j) ξ) η

/-- `k` waves of tilt across the `n` samples of an axis: `tilt_k[i] = e(-k (i - n//2)/n)` -/
def tilt (e : R → V) (n : Nat) (k : R) (i : Nat) : V := e (-(k * coord n i / Num.ofInt (n : Int)))

/-- zero-pad embedding with the origin on the origin (offset `N//2 - n//2`, C04) -/
def padded (n N : Nat) (f : Nat → V) (i : Nat) : V :=
  if N / 2 - n / 2 ≤ i ∧ i < N / 2 - n / 2 + n then f (i - (N / 2 - n / 2)) else Num.ofInt 0

/-- plain DFT sum, the contract under which `scipy.fft.fft` is used -/
def rawDft1 (e : R → V) (N : Nat) (x : Nat → V) (k : Nat) : V :=
  Num.sumTo N fun i => x i * e (Num.ofInt (i : Int) * Num.ofInt (k : Int) / Num.ofInt (N : Int))

/-- `fftshift(fft(ifftshift(x)))` on one axis, index rotations as NumPy does them -/
def fftRoute1 (e : R → V) (N : Nat) (x : Nat → V) (l : Nat) : V :=
  rawDft1 e N (fun i => x ((i + N / 2) % N)) ((l + (N - N / 2)) % N)

/-- the kernel a transform named as in `scipy.fft` uses: `ifft2` the reflected one, anything else the forward one -/
def kernelOf (name : String) (e : R → V) : R → V := if name = "ifft2" then (fun t => e (-t)) else e

/-- source index of NumPy's index rotations: `ifftshift(x)[t] = x[(t + N//2) % N]`, `fftshift(x)[t] = x[(t + N - N//2) % N]` -/
def rotIdx (name : String) (N t : Nat) : Nat := if name = "ifftshift" then (t + N / 2) % N else (t + (N - N / 2)) % N

/-- `outer(transform(inner(x)))` on one axis with the three names as they appear in the source of `focus` / `unfocus` -/
def fftRouteNamed (transform outer inner : String) (e : R → V) (N : Nat) (x : Nat → V) (l : Nat) : V :=
  rawDft1 (kernelOf transform e) N (fun i => x (rotIdx inner N i)) (rotIdx outer N l)

/-- the centred DFT the FFT route is meant to be: `mdft1` with `n = N`, `α = 1/N`, no shift -/
def cdft1 (e : R → V) (N : Nat) (x : Nat → V) (l : Nat) : V :=
  Num.sumTo N fun i => x i * e (coord N i * coord N l / Num.ofInt (N : Int))

/-- model of `focus_fixed_sampling` (kernel `e`) / `unfocus_fixed_sampling` (kernel `fun t => e (-t)`):
per-axis `Q` from each axis's own sample count, shifts `(shx, shy)` in output units, `sqrt` a parameter -/
def fixedSampling (e : R → V) (ofR : R → V) (sqrt : R → R) (m n M N : Nat) (dx z lam dxo shx shy : R)
    (f : Nat → Nat → V) (k l : Nat) : V :=
  let αy : R := axisAlpha (Num.ofInt (m : Int)) dx z lam dxo
  let αx : R := axisAlpha (Num.ofInt (n : Int)) dx z lam dxo
  mdft2 e m n M N αy αx (shiftSamples shy dxo) (shiftSamples shx dxo) (ofR (sqrt αy * sqrt αx)) f k l
end fourier

/-- `math.ceil(s*Q)` as the source computes it (IEEE product, then ceiling) -/
def padLenF (s : Nat) (Q : Float) : Nat := (Float.ceil (s.toFloat * Q)).toUInt64.toNat

end Model.C03
