/-!
# Line protocol helpers for the model drivers (core Lean only)

One request per line, tokens separated by single blanks; one reply line per request.
Floats travel as the decimal value of their IEEE-754 bit pattern (`f:<u64>`), so both sides see
exactly the same doubles; rationals as `p/q`; integers in decimal.
-/

namespace Wire

def parseInt? (s : String) : Option Int := s.toInt?

def parseNat? (s : String) : Option Nat := s.toNat?

/-- `"<u64>"` ↦ the double with that bit pattern -/
def parseFloatBits? (s : String) : Option Float :=
  s.toNat?.map fun n => Float.ofBits (UInt64.ofNat n)

def fmtFloat (x : Float) : String := toString x.toBits.toNat

/-- `"p/q"` or `"p"` ↦ `Rat` -/
def parseRat? (s : String) : Option Rat :=
  match s.splitOn "/" with
  | [p] => p.toInt?.map fun i => (i : Rat)
  | [p, q] => do
      let pi ← p.toInt?
      let qi ← q.toNat?
      if qi = 0 then none else some (mkRat pi qi)
  | _ => none

def fmtRat (r : Rat) : String := s!"{r.num}/{r.den}"

def fmtList {α} (f : α → String) (l : List α) : String := " ".intercalate (l.map f)

def parseAll? {α} (f : String → Option α) (l : List String) : Option (List α) := l.mapM f

def tokens (line : String) : List String :=
  (line.trimAscii.toString.splitOn " ").filter (· ≠ "")

/-- read stdin to the end, answer every line with `step` -/
partial def mainLoop (step : List String → String) : IO Unit := do
  let stdin ← IO.getStdin
  let stdout ← IO.getStdout
  let rec loop : IO Unit := do
    let line ← stdin.getLine
    if line.isEmpty then return ()
    stdout.putStrLn (step (tokens line))
    loop
  loop
  stdout.flush

end Wire
