/-!
# Python arithmetic helpers used by translator output (core Lean only)
-/

/-- Python `math.ceil(a / b)` on integers (`b > 0`): `-((-a) // b)`. -/
def pyCeilDiv (a b : Int) : Int := -((-a) / b)

/-- Python `int(x)` on a rational: truncation toward zero. -/
def pyTruncRat (x : Rat) : Rat := if x < 0 then ((Rat.ceil x : Int) : Rat) else ((Rat.floor x : Int) : Rat)

/-- Python `round(x)` (banker's rounding, half to even) on a rational. -/
def pyRoundRat (x : Rat) : Int :=
  let f := Rat.floor x
  let d := x - (f : Rat)
  if d < (1 : Rat) / 2 then f
  else if (1 : Rat) / 2 < d then f + 1
  else if f % 2 = 0 then f else f + 1
