import PrysmVerif.Generated.C17
import PrysmVerif.Lemmas.C17Film
import PrysmVerif.Lemmas.C17Passive
import PrysmVerif.Lemmas.C17Absorb
import Mathlib.Analysis.SpecialFunctions.Trigonometric.Basic
/-!
# C17 — thin-film and Fresnel coefficients conserve energy and agree with each other

Definitions under `Generated.C17` are regenerated from `prysm/thinfilm.py` on every run; theorems about them
are therefore statements about the current source.  `cos θ`, `sin β`, `cos β`, `-i` are parameters
(`c0 c1 cost`, `sinb`, `cosb`, `mI`); every theorem holds for all values satisfying the stated algebraic law.
-/
set_option linter.unusedTactic false
set_option linter.unreachableTactic false
set_option linter.unusedVariables false
set_option linter.unusedSimpArgs false
set_option linter.unusedSectionVars false

namespace C17
open Generated.C17 C17Num C17Film
open Model.C17 (M22 prod)

/-- unfold every generated definition AND its hand-model counterpart (so the proofs survive the translator's fallback form
`gen := Model.gen`), and read the numeric literals of the source (`Num.ofInt`, `Num.ofFrac`) as field elements -/
macro "c17_unfold" : tactic => `(tactic| simp only [fresnelRs, fresnelTs, fresnelRp, fresnelTp, snellSin, brewsterY, brewsterX,
  criticalSin, betaP, betaS, charP, charS, amatP, amatPTerm1, amatPTerm2, amatPTerm4, amatS, amatSTerm1, amatSTerm2, amatSTerm4,
  rtot, ttot, Model.C17.fresnelRs, Model.C17.fresnelTs, Model.C17.fresnelRp, Model.C17.fresnelTp, Model.C17.snellSin,
  Model.C17.beta, Model.C17.layerP, Model.C17.layerS, Model.C17.amatP, Model.C17.amatS, Model.C17.rtot, Model.C17.ttot,
  M22.mul, M22.smul, M22.one, ofInt_eq, ofFrac_eq])

/-! ## translated obligations: the generated formulas equal the hand model, for all inputs -/
section gen
variable {K : Type} [Field K]

theorem gen_fresnel_rs (n0 n1 c0 c1 : K) : fresnelRs n0 n1 c0 c1 = Model.C17.fresnelRs n0 n1 c0 c1 := by
  c17_unfold <;> push_cast <;> ring

theorem gen_fresnel_ts (n0 n1 c0 c1 : K) : fresnelTs n0 n1 c0 c1 = Model.C17.fresnelTs n0 n1 c0 c1 := by
  c17_unfold <;> push_cast <;> ring

theorem gen_fresnel_rp (n0 n1 c0 c1 : K) : fresnelRp n0 n1 c0 c1 = Model.C17.fresnelRp n0 n1 c0 c1 := by
  c17_unfold <;> push_cast <;> ring

theorem gen_fresnel_tp (n0 n1 c0 c1 : K) : fresnelTp n0 n1 c0 c1 = Model.C17.fresnelTp n0 n1 c0 c1 := by
  c17_unfold <;> push_cast <;> ring

/-- Snell's law, Brewster's `tan θ_B = n₁/n₀`, critical `sin θ_c = n₀/n₁` as the source writes them -/
theorem gen_angles (n0 n1 s0 : K) :
    snellSin n0 n1 s0 = Model.C17.snellSin n0 n1 s0 ∧ brewsterY n0 n1 = n1 ∧ brewsterX n0 n1 = n0 ∧
    criticalSin n0 n1 = n0 / n1 := by
  refine ⟨?_, ?_, ?_, ?_⟩ <;> c17_unfold <;> ring

theorem gen_beta (pi lam d n cost : K) :
    betaP pi lam d n cost = Model.C17.beta pi lam d n cost ∧ betaS pi lam d n cost = Model.C17.beta pi lam d n cost := by
  constructor <;> c17_unfold <;> push_cast <;> ring

theorem gen_charP (mI sinb cosb cost n : K) : charP mI sinb cosb cost n = Model.C17.layerP mI sinb cosb cost n := by
  apply M22.ext' <;> c17_unfold <;> push_cast <;> ring

theorem gen_charS (mI sinb cosb cost n : K) : charS mI sinb cosb cost n = Model.C17.layerS mI sinb cosb cost n := by
  apply M22.ext' <;> c17_unfold <;> push_cast <;> ring

theorem gen_amatP (n0 cost0 : K) (M : M22 K) (ne coste : K) :
    amatP n0 cost0 M ne coste = Model.C17.amatP n0 cost0 M ne coste := by
  apply M22.ext' <;> c17_unfold <;> push_cast <;> ring

theorem gen_amatS (n0 cost0 : K) (M : M22 K) (ne coste : K) :
    amatS n0 cost0 M ne coste = Model.C17.amatS n0 cost0 M ne coste := by
  apply M22.ext' <;> c17_unfold <;> push_cast <;> ring

theorem gen_rtot_ttot (A : M22 K) : rtot A = Model.C17.rtot A ∧ ttot A = Model.C17.ttot A := by
  constructor <;> c17_unfold <;> push_cast <;> ring

end gen

/-! ## the wiring of `multilayer_stack_rt`, translated call site by call site

Each definition `stack*` places its arguments exactly as the source places them at the corresponding call
(`snell_aor(ambient_index, indices[i], aoi, degrees=False)`, `fn1(wavelength, thicknesses[i], indices[i], angles[i])`,
`fn2(ambient_index, aoi, Mjs, indices[-1], angles[-1])`, `r = rtot(A)`, `t = ttot(A)`), for the scalar and the batched
branch alike (they must agree to be translated at all). -/
section wiring
variable {K : Type} [Field K]

/-- angles: Snell's law from the AMBIENT medium into layer `j`, and the incidence angle is converted from degrees once -/
theorem gen_stack_snell (n0 s0 nj : K) :
    stackSnellSin n0 s0 nj = Model.C17.snellSin n0 nj s0 ∧ stackAoiConvertedOnce = true := by
  refine ⟨?_, by decide⟩
  simp only [stackSnellSin]; c17_unfold

/-- layer `j`: phase thickness from (wavelength, its thickness, its index, its angle), matrix of the right polarisation -/
theorem gen_stack_layer (mI sinb cosb pi lam d n cost : K) :
    (stackBetaS pi lam d n cost = Model.C17.beta pi lam d n cost ∧
     stackLayerS mI sinb cosb cost d n = Model.C17.layerS mI sinb cosb cost n) ∧
    (stackBetaP pi lam d n cost = Model.C17.beta pi lam d n cost ∧
     stackLayerP mI sinb cosb cost d n = Model.C17.layerP mI sinb cosb cost n) := by
  refine ⟨⟨?_, ?_⟩, ⟨?_, ?_⟩⟩ <;> simp only [stackBetaS, stackBetaP, stackLayerS, stackLayerP]
  · exact (gen_beta pi lam d n cost).2
  · exact gen_charS mI sinb cosb cost n
  · exact (gen_beta pi lam d n cost).1
  · exact gen_charP mI sinb cosb cost n

/-- `A` is built from the ambient medium and the LAST layer (index and angle) as exit medium -/
theorem gen_stack_amat (n0 c0 : K) (M : M22 K) (nFirst cFirst nLast cLast : K) :
    stackAmatS n0 c0 M nFirst cFirst nLast cLast = Model.C17.amatS n0 c0 M nLast cLast ∧
    stackAmatP n0 c0 M nFirst cFirst nLast cLast = Model.C17.amatP n0 c0 M nLast cLast := by
  constructor <;> simp only [stackAmatS, stackAmatP]
  · exact gen_amatS n0 c0 M nLast cLast
  · exact gen_amatP n0 c0 M nLast cLast

/-- the function returns `(rtot A, ttot A)`; index / thickness are columns 0 / 1 of the stack -/
theorem gen_stack_totals (A : M22 K) :
    stackReturn A = (Model.C17.rtot A, Model.C17.ttot A) ∧ stackIndexColumn = 0 ∧ stackThicknessColumn = 1 := by
  refine ⟨?_, by decide, by decide⟩
  simp only [stackReturn, (gen_rtot_ttot A).1, (gen_rtot_ttot A).2]

/-- default arguments: normal incidence from vacuum; degrees are the default unit of every angle argument / result -/
theorem gen_defaults :
    (stackDefaultAoi : K) = 0 ∧ (stackDefaultAmbient : K) = 1 ∧
    snellDegreesDefault = true ∧ brewsterDegDefault = true ∧ criticalDegDefault = true := by
  refine ⟨?_, ?_, by decide, by decide, by decide⟩ <;> simp [stackDefaultAoi, stackDefaultAmbient]

/-- unit conversions of the `degrees` / `deg` flags: `θ·π/180` going in, `·180/π` coming out -/
theorem gen_units (pi x : K) :
    snellAngleFromDegrees pi x = x * pi / 180 ∧ brewsterToDegrees pi x = x * 180 / pi ∧
    criticalToDegrees pi x = x * 180 / pi := by
  refine ⟨?_, ?_, ?_⟩ <;> simp only [snellAngleFromDegrees, brewsterToDegrees, criticalToDegrees, ofInt_eq, ofFrac_eq] <;>
    push_cast <;> ring

end wiring

/-- three-valued recognisers (`false` = recognised and wrong; an unrecognised shape makes the item `untranslatable`): the
polarisation string is lower-cased before the dispatch; the Snell-angle buffer is complex (it must not inherit the dtype of the
caller's stack: integer stacks, evanescent gaps); no in-place operator or element store touches the arguments or the views
`indices` / `thicknesses` of the caller's array; and, for EVERY function of thinfilm.py, no in-place operator, element / slice store,
mutating method or `out=` on a parameter or on a local that may alias one (views, asarray, reshape, moveaxis, plain aliases) -/
theorem gen_structure :
    stackPolarizationLowercased = true ∧ stackAngleBufferIsComplex = true ∧ stackNoInPlaceOnCallerData = true ∧
    thinfilmNoInPlaceOnParameters = true := by decide

/-! ## Fresnel coefficients (over the generated formulas) -/
section fresnel
variable {K : Type} [Field K]

/-- s-polarisation: `r_s² + (n₁ cos θ₁ / n₀ cos θ₀) t_s² = 1` at every interface (any field, so complex indices too) -/
theorem fresnel_energy_s (n0 n1 c0 c1 : K) (h0 : n0 * c0 ≠ 0) (hd : n0 * c0 + n1 * c1 ≠ 0) :
    fresnelRs n0 n1 c0 c1 ^ 2 + (n1 * c1) / (n0 * c0) * fresnelTs n0 n1 c0 c1 ^ 2 = 1 := by
  have hn : n0 ≠ 0 := left_ne_zero_of_mul h0
  have hc : c0 ≠ 0 := right_ne_zero_of_mul h0
  c17_unfold
  push_cast
  field_simp
  ring

/-- p-polarisation: `r_p² + (n₁ cos θ₁ / n₀ cos θ₀) t_p² = 1` at every interface -/
theorem fresnel_energy_p (n0 n1 c0 c1 : K) (h0 : n0 * c0 ≠ 0) (hd : n0 * c1 + n1 * c0 ≠ 0) :
    fresnelRp n0 n1 c0 c1 ^ 2 + (n1 * c1) / (n0 * c0) * fresnelTp n0 n1 c0 c1 ^ 2 = 1 := by
  have hn : n0 ≠ 0 := left_ne_zero_of_mul h0
  have hc : c0 ≠ 0 := right_ne_zero_of_mul h0
  c17_unfold
  push_cast
  field_simp
  ring

/-- continuity of the tangential field: `1 + r_s = t_s`, `(1 + r_p) cos θ₀ = t_p cos θ₁` (library sign convention) -/
theorem fresnel_continuity (n0 n1 c0 c1 : K) (hs : n0 * c0 + n1 * c1 ≠ 0) (hp : n0 * c1 + n1 * c0 ≠ 0) :
    1 + fresnelRs n0 n1 c0 c1 = fresnelTs n0 n1 c0 c1 ∧
    (1 + fresnelRp n0 n1 c0 c1) * c0 = fresnelTp n0 n1 c0 c1 * c1 := by
  constructor <;> c17_unfold <;>
    push_cast <;> field_simp <;> ring

/-- at normal incidence the two polarisations coincide -/
theorem fresnel_normal_incidence (n0 n1 : K) :
    fresnelRs n0 n1 1 1 = fresnelRp n0 n1 1 1 ∧ fresnelTs n0 n1 1 1 = fresnelTp n0 n1 1 1 := by
  constructor <;> c17_unfold <;> simp only [mul_one] <;> ring

end fresnel

/-- real media below total internal reflection: all hypotheses of the energy theorems hold -/
theorem fresnel_energy_real (n0 n1 c0 c1 : ℝ) (hn0 : 0 < n0) (hn1 : 0 < n1) (hc0 : 0 < c0) (hc1 : 0 < c1) :
    fresnelRs n0 n1 c0 c1 ^ 2 + (n1 * c1) / (n0 * c0) * fresnelTs n0 n1 c0 c1 ^ 2 = 1 ∧
    fresnelRp n0 n1 c0 c1 ^ 2 + (n1 * c1) / (n0 * c0) * fresnelTp n0 n1 c0 c1 ^ 2 = 1 :=
  ⟨fresnel_energy_s n0 n1 c0 c1 (by positivity) (by positivity),
   fresnel_energy_p n0 n1 c0 c1 (by positivity) (by positivity)⟩

/-- Brewster: if `tan θ₀ = n₁/n₀` (written `sin θ₀ · X = cos θ₀ · Y` with the generated `arctan2(Y, X)` arguments)
and `θ₁` follows from Snell's law, then `r_p = 0` -/
theorem brewster_zero (n0 n1 c0 s0 c1 s1 : ℝ) (hn1 : n1 ≠ 0)
    (h0 : c0 ^ 2 + s0 ^ 2 = 1) (h1 : c1 ^ 2 + s1 ^ 2 = 1) (hs0 : 0 ≤ s0) (hc1 : 0 ≤ c1)
    (snell : s1 = snellSin n0 n1 s0) (brewster : s0 * brewsterX n0 n1 = c0 * brewsterY n0 n1) :
    fresnelRp n0 n1 c0 c1 = 0 := by
  simp only [snellSin, brewsterX, brewsterY, Model.C17.snellSin] at snell brewster
  have e1 : s1 = c0 := by rw [snell]; field_simp; linarith
  have e2 : c1 ^ 2 = s0 ^ 2 := by rw [e1] at h1; linarith
  have e3 : c1 = s0 := (sq_eq_sq₀ hc1 hs0).mp e2
  c17_unfold; simp only [e3]
  rw [div_eq_zero_iff]; left; linarith

/-! ## a single interface as a stack -/
section single
variable {K : Type} [Field K] [CharZero K]

/-- zero-thickness single layer (identity characteristic matrix): the stack gives exactly the Fresnel functions -/
theorem single_interface_eq_fresnel_s (n0 n1 c0 c1 : K) (h0 : n0 * c0 ≠ 0) (hd : n0 * c0 + n1 * c1 ≠ 0) :
    rtot (amatS n0 c0 (M22.one) n1 c1) = fresnelRs n0 n1 c0 c1 ∧
    ttot (amatS n0 c0 (M22.one) n1 c1) = fresnelTs n0 n1 c0 c1 := by
  have hn : n0 ≠ 0 := left_ne_zero_of_mul h0
  have hc : c0 ≠ 0 := right_ne_zero_of_mul h0
  have ea : (amatS n0 c0 (M22.one) n1 c1).a = (n0 * c0 + n1 * c1) / (2 * n0 * c0) := by
    rw [gen_amatS]; simp only [Model.C17.amatS, M22.mul, M22.smul, M22.one, ofInt_eq]; push_cast; field_simp; ring
  have ec : (amatS n0 c0 (M22.one) n1 c1).c = (n0 * c0 - n1 * c1) / (2 * n0 * c0) := by
    rw [gen_amatS]; simp only [Model.C17.amatS, M22.mul, M22.smul, M22.one, ofInt_eq]; push_cast; field_simp; ring
  constructor <;> simp only [rtot, ttot, Model.C17.rtot, Model.C17.ttot, ea, ec] <;> c17_unfold <;> push_cast <;> field_simp

theorem single_interface_eq_fresnel_p (n0 n1 c0 c1 : K) (h0 : n0 * c0 ≠ 0) (hd : n0 * c1 + n1 * c0 ≠ 0) :
    rtot (amatP n0 c0 (M22.one) n1 c1) = fresnelRp n0 n1 c0 c1 ∧
    ttot (amatP n0 c0 (M22.one) n1 c1) = fresnelTp n0 n1 c0 c1 := by
  have hn : n0 ≠ 0 := left_ne_zero_of_mul h0
  have hc : c0 ≠ 0 := right_ne_zero_of_mul h0
  have ea : (amatP n0 c0 (M22.one) n1 c1).a = (n0 * c1 + n1 * c0) / (2 * n0 * c0) := by
    rw [gen_amatP]; simp only [Model.C17.amatP, M22.mul, M22.smul, M22.one, ofInt_eq]; push_cast; field_simp; ring
  have ec : (amatP n0 c0 (M22.one) n1 c1).c = (n0 * c1 - n1 * c0) / (2 * n0 * c0) := by
    rw [gen_amatP]; simp only [Model.C17.amatP, M22.mul, M22.smul, M22.one, ofInt_eq]; push_cast; field_simp; ring
  constructor <;> simp only [rtot, ttot, Model.C17.rtot, Model.C17.ttot, ea, ec] <;> c17_unfold <;> push_cast <;> field_simp

/-- the code always uses the last layer as the exit medium: that layer's own characteristic matrix only multiplies
`A` by the phase `cos β - i sin β`, whatever precedes it -/
theorem exit_layer_phase_s (mI sb cb n0 c0 ne ce : K) (M : M22 K) (hne : ne ≠ 0) (hce : ce ≠ 0) :
    amatS n0 c0 (M.mul (charS mI sb cb ce ne)) ne ce = M22.smul (cb + mI * sb) (amatS n0 c0 M ne ce) := by
  rw [gen_amatS, gen_amatS, gen_charS]
  apply M22.ext' <;> simp only [Model.C17.amatS, Model.C17.layerS, M22.mul, M22.smul, ofInt_eq] <;>
    push_cast <;> field_simp <;> ring

theorem exit_layer_phase_p (mI sb cb n0 c0 ne ce : K) (M : M22 K) (hne : ne ≠ 0) (hce : ce ≠ 0) :
    amatP n0 c0 (M.mul (charP mI sb cb ce ne)) ne ce = M22.smul (cb + mI * sb) (amatP n0 c0 M ne ce) := by
  rw [gen_amatP, gen_amatP, gen_charP]
  apply M22.ext' <;> simp only [Model.C17.amatP, Model.C17.layerP, M22.mul, M22.smul, ofInt_eq] <;>
    push_cast <;> field_simp <;> ring

/-- a scalar factor on `A` leaves `r` unchanged and divides `t` -/
theorem rtot_ttot_smul (k : K) (hk : k ≠ 0) (A : M22 K) :
    rtot (M22.smul k A) = rtot A ∧ ttot (M22.smul k A) * k = ttot A := by
  rw [(gen_rtot_ttot _).1, (gen_rtot_ttot _).2, (gen_rtot_ttot _).1, (gen_rtot_ttot _).2]
  simp only [Model.C17.rtot, Model.C17.ttot, M22.smul, ofInt_eq]
  constructor
  · rw [mul_div_mul_left _ _ hk]
  · by_cases ha : A.a = 0
    · simp [ha]
    · field_simp

/-- one layer of ANY thickness on a substrate of the same index (how a single interface is written as a stack):
`r` is the Fresnel `r`, `t` is the Fresnel `t` times the phase `cos β + i sin β`, which has unit modulus (third conjunct:
its product with `cos β - i sin β` is 1) -/
theorem single_layer_eq_fresnel_s (mI sb cb n0 n1 c0 c1 : K) (hI : mI ^ 2 = -1) (hb : sb ^ 2 + cb ^ 2 = 1)
    (h0 : n0 * c0 ≠ 0) (h1 : n1 ≠ 0) (hc1 : c1 ≠ 0) (hd : n0 * c0 + n1 * c1 ≠ 0) :
    rtot (amatS n0 c0 (prod [charS mI sb cb c1 n1]) n1 c1) = fresnelRs n0 n1 c0 c1 ∧
    ttot (amatS n0 c0 (prod [charS mI sb cb c1 n1]) n1 c1) * (cb + mI * sb) = fresnelTs n0 n1 c0 c1 ∧
    (cb + mI * sb) * (cb - mI * sb) = 1 := by
  have hunit : (cb + mI * sb) * (cb - mI * sb) = 1 := by linear_combination hb - sb ^ 2 * hI
  have hk : cb + mI * sb ≠ 0 := by
    intro h
    have := hunit
    rw [h, zero_mul] at this; exact zero_ne_one this
  have e : prod [charS mI sb cb c1 n1] = (M22.one : M22 K).mul (charS mI sb cb c1 n1) := by
    rw [prod_singleton, m_one_mul]
  obtain ⟨hr, ht⟩ := single_interface_eq_fresnel_s n0 n1 c0 c1 h0 hd
  obtain ⟨kr, kt⟩ := rtot_ttot_smul (cb + mI * sb) hk (amatS n0 c0 M22.one n1 c1)
  rw [e, exit_layer_phase_s mI sb cb n0 c0 n1 c1 _ h1 hc1, kr, kt]
  exact ⟨hr, ht, hunit⟩

theorem single_layer_eq_fresnel_p (mI sb cb n0 n1 c0 c1 : K) (hI : mI ^ 2 = -1) (hb : sb ^ 2 + cb ^ 2 = 1)
    (h0 : n0 * c0 ≠ 0) (h1 : n1 ≠ 0) (hc1 : c1 ≠ 0) (hd : n0 * c1 + n1 * c0 ≠ 0) :
    rtot (amatP n0 c0 (prod [charP mI sb cb c1 n1]) n1 c1) = fresnelRp n0 n1 c0 c1 ∧
    ttot (amatP n0 c0 (prod [charP mI sb cb c1 n1]) n1 c1) * (cb + mI * sb) = fresnelTp n0 n1 c0 c1 ∧
    (cb + mI * sb) * (cb - mI * sb) = 1 := by
  have hunit : (cb + mI * sb) * (cb - mI * sb) = 1 := by linear_combination hb - sb ^ 2 * hI
  have hk : cb + mI * sb ≠ 0 := by
    intro h
    have := hunit
    rw [h, zero_mul] at this; exact zero_ne_one this
  have e : prod [charP mI sb cb c1 n1] = (M22.one : M22 K).mul (charP mI sb cb c1 n1) := by
    rw [prod_singleton, m_one_mul]
  obtain ⟨hr, ht⟩ := single_interface_eq_fresnel_p n0 n1 c0 c1 h0 hd
  obtain ⟨kr, kt⟩ := rtot_ttot_smul (cb + mI * sb) hk (amatP n0 c0 M22.one n1 c1)
  rw [e, exit_layer_phase_p mI sb cb n0 c0 n1 c1 _ h1 hc1, kr, kt]
  exact ⟨hr, ht, hunit⟩

/-! ## zero-thickness and half-wave layers -/

/-- `d = 0` gives `β = 0` -/
theorem beta_zero_thickness (pi lam n cost : K) : betaP pi lam 0 n cost = 0 ∧ betaS pi lam 0 n cost = 0 := by
  constructor <;> c17_unfold <;> push_cast <;> ring

/-- `β = 0` (`sin β = 0`, `cos β = 1`): the characteristic matrix is the identity, so a zero-thickness layer anywhere in the
PRODUCT of a stack of any depth changes nothing.  (The exit medium `(n_e, cos θ_e)` of `A` is held fixed: in
`multilayer_stack_rt` the exit medium is the last layer, so a layer appended AFTER the last one changes the exit medium — that
case is not an instance of this theorem, and the harness inserts at interior positions only.) -/
theorem zero_thickness_identity (mI cost n : K) (xs ys : List (M22 K)) :
    prod (xs ++ charS mI 0 1 cost n :: ys) = prod (xs ++ ys) ∧
    prod (xs ++ charP mI 0 1 cost n :: ys) = prod (xs ++ ys) := by
  have es : charS mI 0 1 cost n = (M22.one : M22 K) := by
    apply M22.ext' <;> simp [charS, Model.C17.layerS, M22.one]
  have ep : charP mI 0 1 cost n = (M22.one : M22 K) := by
    apply M22.ext' <;> simp [charP, Model.C17.layerP, M22.one]
  rw [es, ep]
  simp only [prod_append, prod_cons, m_one_mul, and_self]

/-- optical thickness `n d cos θ = λ/2` gives `β = π` -/
theorem beta_half_wave (pi lam d n cost : K) (hl : lam ≠ 0) (h : 2 * (n * d * cost) = lam) :
    betaP pi lam d n cost = pi ∧ betaS pi lam d n cost = pi := by
  constructor <;> c17_unfold <;> push_cast <;> field_simp <;> linear_combination pi * h

/-- `β = π` (`sin β = 0`, `cos β = -1`): the layer is `-1`, so an absentee layer anywhere in a stack of any depth
leaves `r` unchanged and flips the sign of `t`; reflectance and transmittance are unchanged -/
theorem halfwave_absentee (mI cost n n0 c0 ne ce : K) (xs ys : List (M22 K)) :
    (rtot (amatS n0 c0 (prod (xs ++ charS mI 0 (-1) cost n :: ys)) ne ce) = rtot (amatS n0 c0 (prod (xs ++ ys)) ne ce) ∧
     ttot (amatS n0 c0 (prod (xs ++ charS mI 0 (-1) cost n :: ys)) ne ce) = -ttot (amatS n0 c0 (prod (xs ++ ys)) ne ce)) ∧
    (rtot (amatP n0 c0 (prod (xs ++ charP mI 0 (-1) cost n :: ys)) ne ce) = rtot (amatP n0 c0 (prod (xs ++ ys)) ne ce) ∧
     ttot (amatP n0 c0 (prod (xs ++ charP mI 0 (-1) cost n :: ys)) ne ce) = -ttot (amatP n0 c0 (prod (xs ++ ys)) ne ce)) := by
  have es : charS mI 0 (-1) cost n = M22.smul (-1) (M22.one : M22 K) := by
    apply M22.ext' <;> simp [charS, Model.C17.layerS, M22.one, M22.smul]
  have ep : charP mI 0 (-1) cost n = M22.smul (-1) (M22.one : M22 K) := by
    apply M22.ext' <;> simp [charP, Model.C17.layerP, M22.one, M22.smul]
  have key : ∀ H : M22 K, H = M22.smul (-1) (M22.one : M22 K) →
      prod (xs ++ H :: ys) = M22.smul (-1) (prod (xs ++ ys)) := by
    intro H hH
    rw [hH, prod_append, prod_cons, m_smul_mul, m_one_mul, m_mul_smul, prod_append]
  have aS : ∀ M : M22 K, amatS n0 c0 (M22.smul (-1) M) ne ce = M22.smul (-1) (amatS n0 c0 M ne ce) := by
    intro M
    rw [gen_amatS, gen_amatS]
    apply M22.ext' <;> simp only [Model.C17.amatS, M22.mul, M22.smul, ofInt_eq] <;> ring
  have aP : ∀ M : M22 K, amatP n0 c0 (M22.smul (-1) M) ne ce = M22.smul (-1) (amatP n0 c0 M ne ce) := by
    intro M
    rw [gen_amatP, gen_amatP]
    apply M22.ext' <;> simp only [Model.C17.amatP, M22.mul, M22.smul, ofInt_eq] <;> ring
  have tot : ∀ A : M22 K, rtot (M22.smul (-1) A) = rtot A ∧ ttot (M22.smul (-1) A) = -ttot A := by
    intro A
    obtain ⟨h1, h2⟩ := rtot_ttot_smul (-1 : K) (by norm_num) A
    exact ⟨h1, by linear_combination -h2⟩
  rw [key _ es, key _ ep, aS, aP]
  exact ⟨tot _, tot _⟩

end single

/-! ## energy conservation for lossless stacks of any depth -/
open Complex

/-- the characteristic matrices the code builds for real layers (`mI = -i`) -/
noncomputable def layersS (ls : List Layer) : List (M22 ℂ) := ls.map fun l => charS (-I) (l.sb : ℂ) l.cb l.ct l.n
noncomputable def layersP (ls : List Layer) : List (M22 ℂ) := ls.map fun l => charP (-I) (l.sb : ℂ) l.cb l.ct l.n

/-- every lossless layer, and every product of lossless layers, has the form `[[p, i q], [i r, s]]` with real
`p q r s` and `p s + q r = 1` — any number of layers, both polarisations -/
theorem lossless_closed (ls : List Layer) (h : ∀ l ∈ ls, l.ok) :
    (∃ m : LM, m.det = 1 ∧ prod (layersS ls) = m.toC) ∧ (∃ m : LM, m.det = 1 ∧ prod (layersP ls) = m.toC) := by
  constructor
  · have e : layersS ls = (ls.map fun l => layerLM l.cb l.sb (l.n * l.ct)).map LM.toC := by
      simp only [layersS, List.map_map]; apply List.map_congr_left; intro l _
      simp only [Function.comp, gen_charS, layerS_toC]
    rw [e]; apply prod_lossless
    intro m hm; obtain ⟨l, hl, rfl⟩ := List.mem_map.mp hm
    obtain ⟨h1, h2, h3⟩ := h l hl
    exact layerLM_det _ _ _ h1 (mul_ne_zero h3 h2)
  · have e : layersP ls = (ls.map fun l => layerLM l.cb l.sb (l.n / l.ct)).map LM.toC := by
      simp only [layersP, List.map_map]; apply List.map_congr_left; intro l _
      simp only [Function.comp, gen_charP, layerP_toC]
    rw [e]; apply prod_lossless
    intro m hm; obtain ⟨l, hl, rfl⟩ := List.mem_map.mp hm
    obtain ⟨h1, h2, h3⟩ := h l hl
    exact layerLM_det _ _ _ h1 (div_ne_zero h3 h2)

/-- s-polarisation: for every stack of lossless layers (any depth), every real ambient and exit medium below total
internal reflection, `|r|² + (n_e cos θ_e / n₀ cos θ₀) |t|² = 1` -/
theorem energy_conservation_s (ls : List Layer) (h : ∀ l ∈ ls, l.ok) (n0 c0 ne ce : ℝ)
    (hn0 : 0 < n0) (hc0 : 0 < c0) (hne : 0 < ne) (hce : 0 < ce) :
    normSq (rtot (amatS (n0 : ℂ) c0 (prod (layersS ls)) ne ce)) +
      (ne * ce) / (n0 * c0) * normSq (ttot (amatS (n0 : ℂ) c0 (prod (layersS ls)) ne ce)) = 1 := by
  obtain ⟨m, hm, e⟩ := (lossless_closed ls h).1
  rw [e, gen_amatS, (gen_rtot_ttot _).1, (gen_rtot_ttot _).2]
  simp only [Model.C17.rtot, Model.C17.ttot, ofInt_eq, Int.cast_one]
  exact rt_of_energy _ _ _ (by positivity) (amatS_energy m hm n0 c0 ne ce (by positivity))

/-- p-polarisation: same statement with the p characteristic matrices and `A^p` -/
theorem energy_conservation_p (ls : List Layer) (h : ∀ l ∈ ls, l.ok) (n0 c0 ne ce : ℝ)
    (hn0 : 0 < n0) (hc0 : 0 < c0) (hne : 0 < ne) (hce : 0 < ce) :
    normSq (rtot (amatP (n0 : ℂ) c0 (prod (layersP ls)) ne ce)) +
      (ne * ce) / (n0 * c0) * normSq (ttot (amatP (n0 : ℂ) c0 (prod (layersP ls)) ne ce)) = 1 := by
  obtain ⟨m, hm, e⟩ := (lossless_closed ls h).2
  rw [e, gen_amatP, (gen_rtot_ttot _).1, (gen_rtot_ttot _).2]
  simp only [Model.C17.rtot, Model.C17.ttot, ofInt_eq, Int.cast_one]
  exact rt_of_energy _ _ _ (by positivity) (amatP_energy m hm n0 c0 ne ce (by positivity))

/-! ## the pipeline of `multilayer_stack_rt`, assembled from the translated call sites -/

/-- a layer as the pipeline sees it: index, thickness, `cos θ_j`, `sin β_j`, `cos β_j` -/
structure PLayer where
  n : ℝ
  d : ℝ
  ct : ℝ
  sb : ℝ
  cb : ℝ

def PLayer.toLayer (l : PLayer) : Layer := ⟨l.sb, l.cb, l.ct, l.n⟩

/-- `(r, t)` as the source computes them: layer matrices by `stackLayerS`, their ordered product, `A` from the ambient medium
and the first / last layer as the `fn2(...)` call site wires them, then `stackReturn` -/
noncomputable def pipelineS (n0 c0 : ℝ) (ls : List PLayer) (h : ls ≠ []) : ℂ × ℂ :=
  stackReturn (stackAmatS (n0 : ℂ) c0 (prod (ls.map fun l => stackLayerS (-I) (l.sb : ℂ) l.cb l.ct l.d l.n))
    (ls.head h).n (ls.head h).ct (ls.getLast h).n (ls.getLast h).ct)

noncomputable def pipelineP (n0 c0 : ℝ) (ls : List PLayer) (h : ls ≠ []) : ℂ × ℂ :=
  stackReturn (stackAmatP (n0 : ℂ) c0 (prod (ls.map fun l => stackLayerP (-I) (l.sb : ℂ) l.cb l.ct l.d l.n))
    (ls.head h).n (ls.head h).ct (ls.getLast h).n (ls.getLast h).ct)

theorem pipelineS_eq (n0 c0 : ℝ) (ls : List PLayer) (h : ls ≠ []) :
    pipelineS n0 c0 ls h =
      (rtot (amatS (n0 : ℂ) c0 (prod (layersS (ls.map PLayer.toLayer))) (ls.getLast h).n (ls.getLast h).ct),
       ttot (amatS (n0 : ℂ) c0 (prod (layersS (ls.map PLayer.toLayer))) (ls.getLast h).n (ls.getLast h).ct)) := by
  have e : (ls.map fun l => stackLayerS (-I) (l.sb : ℂ) l.cb l.ct l.d l.n) = layersS (ls.map PLayer.toLayer) := by
    simp only [layersS, List.map_map]; apply List.map_congr_left; intro l _
    simp only [Function.comp, PLayer.toLayer, (gen_stack_layer _ _ _ (0 : ℂ) 0 _ _ _).1.2, gen_charS]
  rw [pipelineS, e, (gen_stack_totals _).1, (gen_stack_amat _ _ _ _ _ _ _).1, ← gen_amatS,
    ← (gen_rtot_ttot _).1, ← (gen_rtot_ttot _).2]

theorem pipelineP_eq (n0 c0 : ℝ) (ls : List PLayer) (h : ls ≠ []) :
    pipelineP n0 c0 ls h =
      (rtot (amatP (n0 : ℂ) c0 (prod (layersP (ls.map PLayer.toLayer))) (ls.getLast h).n (ls.getLast h).ct),
       ttot (amatP (n0 : ℂ) c0 (prod (layersP (ls.map PLayer.toLayer))) (ls.getLast h).n (ls.getLast h).ct)) := by
  have e : (ls.map fun l => stackLayerP (-I) (l.sb : ℂ) l.cb l.ct l.d l.n) = layersP (ls.map PLayer.toLayer) := by
    simp only [layersP, List.map_map]; apply List.map_congr_left; intro l _
    simp only [Function.comp, PLayer.toLayer, (gen_stack_layer _ _ _ (0 : ℂ) 0 _ _ _).2.2, gen_charP]
  rw [pipelineP, e, (gen_stack_totals _).1, (gen_stack_amat _ _ _ _ _ _ _).2, ← gen_amatP,
    ← (gen_rtot_ttot _).1, ← (gen_rtot_ttot _).2]

/-- energy conservation of the assembled pipeline: the exit medium IS the last layer, so the admittance factor is
`n_last cos θ_last / (n₀ cos θ₀)`; any number of lossless layers, both polarisations -/
theorem pipeline_energy (n0 c0 : ℝ) (ls : List PLayer) (h : ls ≠ []) (hok : ∀ l ∈ ls, l.toLayer.ok)
    (hn0 : 0 < n0) (hc0 : 0 < c0) (hnl : 0 < (ls.getLast h).n) (hcl : 0 < (ls.getLast h).ct) :
    (normSq (pipelineS n0 c0 ls h).1 +
      ((ls.getLast h).n * (ls.getLast h).ct) / (n0 * c0) * normSq (pipelineS n0 c0 ls h).2 = 1) ∧
    (normSq (pipelineP n0 c0 ls h).1 +
      ((ls.getLast h).n * (ls.getLast h).ct) / (n0 * c0) * normSq (pipelineP n0 c0 ls h).2 = 1) := by
  have hok' : ∀ l ∈ ls.map PLayer.toLayer, l.ok := by
    intro l hl; obtain ⟨x, hx, rfl⟩ := List.mem_map.mp hl; exact hok x hx
  rw [pipelineS_eq, pipelineP_eq]
  exact ⟨energy_conservation_s _ hok' n0 c0 _ _ hn0 hc0 hnl hcl, energy_conservation_p _ hok' n0 c0 _ _ hn0 hc0 hnl hcl⟩

/-- the phase thickness and the layer matrix are chained: with ANY functions `sinF`, `cosF` such that `sinF π = 0`,
`cosF π = -1`, a layer of optical thickness `n d cos θ = λ/2` enters the pipeline as `-1`, and one of thickness `0`
(`sinF 0 = 0`, `cosF 0 = 1`) as the identity -/
theorem absentee_chain {K : Type} [Field K] [CharZero K] (sinF cosF : K → K) (mI pi lam d n cost : K) (hl : lam ≠ 0) :
    (sinF pi = 0 → cosF pi = -1 → 2 * (n * d * cost) = lam →
      stackLayerS mI (sinF (stackBetaS pi lam d n cost)) (cosF (stackBetaS pi lam d n cost)) cost d n
        = M22.smul (-1) M22.one ∧
      stackLayerP mI (sinF (stackBetaP pi lam d n cost)) (cosF (stackBetaP pi lam d n cost)) cost d n
        = M22.smul (-1) M22.one) ∧
    (sinF 0 = 0 → cosF 0 = 1 →
      stackLayerS mI (sinF (stackBetaS pi lam 0 n cost)) (cosF (stackBetaS pi lam 0 n cost)) cost 0 n = M22.one ∧
      stackLayerP mI (sinF (stackBetaP pi lam 0 n cost)) (cosF (stackBetaP pi lam 0 n cost)) cost 0 n = M22.one) := by
  constructor
  · intro hs hc h
    have hb := beta_half_wave pi lam d n cost hl h
    have eS : stackBetaS pi lam d n cost = pi := by
      rw [(gen_stack_layer mI 0 0 pi lam d n cost).1.1, ← (gen_beta pi lam d n cost).2]; exact hb.2
    have eP : stackBetaP pi lam d n cost = pi := by
      rw [(gen_stack_layer mI 0 0 pi lam d n cost).2.1, ← (gen_beta pi lam d n cost).1]; exact hb.1
    rw [eS, eP, hs, hc, (gen_stack_layer mI 0 (-1) pi lam d n cost).1.2, (gen_stack_layer mI 0 (-1) pi lam d n cost).2.2]
    constructor <;> apply M22.ext' <;> simp [Model.C17.layerS, Model.C17.layerP, M22.one, M22.smul]
  · intro hs hc
    have hb := beta_zero_thickness pi lam n cost
    have eS : stackBetaS pi lam 0 n cost = 0 := by
      rw [(gen_stack_layer mI 0 0 pi lam 0 n cost).1.1, ← (gen_beta pi lam 0 n cost).2]; exact hb.2
    have eP : stackBetaP pi lam 0 n cost = 0 := by
      rw [(gen_stack_layer mI 0 0 pi lam 0 n cost).2.1, ← (gen_beta pi lam 0 n cost).1]; exact hb.1
    rw [eS, eP, hs, hc, (gen_stack_layer mI 0 1 pi lam 0 n cost).1.2, (gen_stack_layer mI 0 1 pi lam 0 n cost).2.2]
    constructor <;> apply M22.ext' <;> simp [Model.C17.layerS, Model.C17.layerP, M22.one]

/-- Brewster's angle for the STACK: a one-layer p-polarised stack (any thickness) on a substrate of the same index has
`r = 0` when `tan θ₀ = n₁/n₀` and `θ₁` follows from the Snell relation the pipeline uses -/
theorem brewster_zero_stack (n0 n1 c0 s0 c1 s1 d sb cb : ℝ) (hn0 : 0 < n0) (hn1 : 0 < n1) (hc0 : 0 < c0)
    (h0 : c0 ^ 2 + s0 ^ 2 = 1) (h1 : c1 ^ 2 + s1 ^ 2 = 1) (hs0 : 0 ≤ s0) (hc1 : 0 < c1) (hb : sb ^ 2 + cb ^ 2 = 1)
    (snell : s1 = stackSnellSin n0 s0 n1) (brewster : s0 * brewsterX n0 n1 = c0 * brewsterY n0 n1) :
    (pipelineP n0 c0 [⟨n1, d, c1, sb, cb⟩] (by simp)).1 = 0 := by
  have sn : s1 = snellSin n0 n1 s0 := by
    rw [snell, (gen_stack_snell n0 s0 n1).1, (gen_angles n0 n1 s0).1]
  have hz := brewster_zero n0 n1 c0 s0 c1 s1 (ne_of_gt hn1) h0 h1 hs0 (le_of_lt hc1) sn brewster
  have hd : (n0 : ℂ) * c1 + n1 * c0 ≠ 0 := by
    have : (0 : ℝ) < n0 * c1 + n1 * c0 := by positivity
    exact_mod_cast ne_of_gt this
  have h00 : (n0 : ℂ) * c0 ≠ 0 := by
    have : (0 : ℝ) < n0 * c0 := by positivity
    exact_mod_cast ne_of_gt this
  have hbC : (sb : ℂ) ^ 2 + (cb : ℂ) ^ 2 = 1 := by exact_mod_cast hb
  have key := (single_layer_eq_fresnel_p (-I) (sb : ℂ) cb n0 n1 c0 c1 (by simp) hbC h00
    (by exact_mod_cast ne_of_gt hn1) (by exact_mod_cast ne_of_gt hc1) hd).1
  rw [pipelineP_eq]
  simp only [List.map, layersP, PLayer.toLayer, List.getLast_singleton] at key ⊢
  rw [key]
  have cast : fresnelRp (n0 : ℂ) n1 c0 c1 = ((fresnelRp n0 n1 c0 c1 : ℝ) : ℂ) := by
    c17_unfold; push_cast; ring
  rw [cast, hz]; simp

/-! ## absorbing layers: `R + T ≤ 1`  (the [stretch] item of the design — proved in full) -/

/-- an absorbing (or lossless) layer: complex index `n`, complex `cos θ`, scaled thickness `κ = 2π d / λ` -/
structure AbsLayer where
  n : ℂ
  ct : ℂ
  κ : ℝ

/-- thickness `≥ 0`, `Im n² ≥ 0` (absorbing, not amplifying), `cos θ` from Snell's law with the real invariant
`σ = n₀ sin θ₀` -/
def AbsLayer.ok (l : AbsLayer) (σ : ℝ) : Prop :=
  0 ≤ l.κ ∧ l.n ≠ 0 ∧ l.ct ≠ 0 ∧ 0 ≤ (l.n ^ 2).im ∧ l.ct ^ 2 = 1 - ((σ : ℂ) / l.n) ^ 2

/-- the phase thickness the code computes is `κ · (n cos θ)` with `κ = 2π d / λ` -/
theorem beta_eq_kappa {K : Type} [Field K] (pi lam d n cost : K) :
    betaS pi lam d n cost = (2 * pi * d / lam) * (n * cost) ∧ betaP pi lam d n cost = (2 * pi * d / lam) * (n * cost) := by
  constructor <;> c17_unfold <;> push_cast <;> ring

/-- the characteristic matrices the code builds for such layers (`sin`, `cos` are the complex functions) -/
noncomputable def absLayersS (ls : List AbsLayer) : List (M22 ℂ) :=
  ls.map fun l => charS (-I) (Complex.sin (l.κ * (l.n * l.ct))) (Complex.cos (l.κ * (l.n * l.ct))) l.ct l.n
noncomputable def absLayersP (ls : List AbsLayer) : List (M22 ℂ) :=
  ls.map fun l => charP (-I) (Complex.sin (l.κ * (l.n * l.ct))) (Complex.cos (l.κ * (l.n * l.ct))) l.ct l.n

/-- every product of characteristic matrices of absorbing layers is passive: the power flow `Re (E H̄)` entering the
front is at least the flow leaving the back — any number of layers, both polarisations -/
theorem absorbing_passive (ls : List AbsLayer) (σ : ℝ) (h : ∀ l ∈ ls, l.ok σ) :
    Passive (prod (absLayersS ls)) ∧ Passive (prod (absLayersP ls)) := by
  constructor <;> apply passive_prod <;> intro m hm
  · obtain ⟨l, hl, rfl⟩ := List.mem_map.mp hm
    obtain ⟨h1, h2, h3, h4, h5⟩ := h l hl
    rw [gen_charS]
    exact layerS_passive l.n l.ct l.κ h1 h2 h3 (snell_absorbing l.n l.ct σ h2 h4 h5).1
  · obtain ⟨l, hl, rfl⟩ := List.mem_map.mp hm
    obtain ⟨h1, h2, h3, h4, h5⟩ := h l hl
    rw [gen_charP]
    exact layerP_passive l.n l.ct l.κ h1 h2 h3 (snell_absorbing l.n l.ct σ h2 h4 h5).2 h4

/-- `R + T ≤ 1` for every stack of absorbing layers between real media (s-polarisation) -/
theorem absorbing_R_plus_T_le_one_s (ls : List AbsLayer) (σ : ℝ) (h : ∀ l ∈ ls, l.ok σ) (n0 c0 ne ce : ℝ)
    (hn0 : 0 < n0) (hc0 : 0 < c0) (hne : 0 < ne) (hce : 0 < ce) :
    normSq (rtot (amatS (n0 : ℂ) c0 (prod (absLayersS ls)) ne ce)) +
      (ne * ce) / (n0 * c0) * normSq (ttot (amatS (n0 : ℂ) c0 (prod (absLayersS ls)) ne ce)) ≤ 1 := by
  have hp := (absorbing_passive ls σ h).1 1 ((ne * ce : ℝ) : ℂ)
  have hf : flux 1 ((ne * ce : ℝ) : ℂ) = ne * ce := by simp [flux_eq]
  rw [gen_amatS, (gen_rtot_ttot _).1, (gen_rtot_ttot _).2]
  simp only [Model.C17.rtot, Model.C17.ttot, ofInt_eq, Int.cast_one]
  apply rt_le_of_energy _ _ _ (by positivity)
  rw [amatS_flux _ n0 c0 ne ce (by positivity)]
  rw [hf] at hp
  exact div_le_div_of_nonneg_right hp (by positivity)

/-- `R + T ≤ 1` for every stack of absorbing layers between real media (p-polarisation) -/
theorem absorbing_R_plus_T_le_one_p (ls : List AbsLayer) (σ : ℝ) (h : ∀ l ∈ ls, l.ok σ) (n0 c0 ne ce : ℝ)
    (hn0 : 0 < n0) (hc0 : 0 < c0) (hne : 0 < ne) (hce : 0 < ce) :
    normSq (rtot (amatP (n0 : ℂ) c0 (prod (absLayersP ls)) ne ce)) +
      (ne * ce) / (n0 * c0) * normSq (ttot (amatP (n0 : ℂ) c0 (prod (absLayersP ls)) ne ce)) ≤ 1 := by
  have hp := (absorbing_passive ls σ h).2 (ce : ℂ) (ne : ℂ)
  have hf : flux (ce : ℂ) (ne : ℂ) = ne * ce := by simp [flux_eq]; ring
  rw [gen_amatP, (gen_rtot_ttot _).1, (gen_rtot_ttot _).2]
  simp only [Model.C17.rtot, Model.C17.ttot, ofInt_eq, Int.cast_one]
  apply rt_le_of_energy _ _ _ (by positivity)
  rw [amatP_flux _ n0 c0 ne ce (by positivity)]
  rw [hf] at hp
  exact div_le_div_of_nonneg_right hp (by positivity)

/-! ## batched stacks = per-element loop: the reshape / moveaxis plumbing (Session 3) -/
section batch
open Model.C17 (bsize ravel unravel batchIn batchOut)

/-- `idx` is a valid multi-index of an array of shape `shape` -/
def ValidIdx (shape idx : List Nat) : Prop := List.Forall₂ (fun s i => i < s) shape idx

/-- a valid multi-index ravels to a flat position inside the array -/
theorem ravel_lt {shape idx : List Nat} (h : ValidIdx shape idx) : ravel shape idx < bsize shape := by
  induction h with
  | nil => simp [ravel, bsize]
  | @cons s i ss is hi _ ih =>
    simp only [ravel, bsize]
    calc i * bsize ss + ravel ss is < i * bsize ss + bsize ss := by omega
      _ = (i + 1) * bsize ss := by ring
      _ ≤ s * bsize ss := Nat.mul_le_mul_right _ hi

/-- flatten then un-flatten is the identity on valid multi-indices, for every shape of every rank -/
theorem unravel_ravel {shape idx : List Nat} (h : ValidIdx shape idx) : unravel shape (ravel shape idx) = idx := by
  induction h with
  | nil => simp [unravel]
  | @cons s i ss is hi hv ih =>
    have hr := ravel_lt hv
    have hpos : 0 < bsize ss := by omega
    simp only [ravel, unravel]
    have e1 : (i * bsize ss + ravel ss is) / bsize ss = i := by
      rw [Nat.add_comm, Nat.add_mul_div_right _ _ hpos, Nat.div_eq_of_lt hr, Nat.zero_add]
    have e2 : (i * bsize ss + ravel ss is) % bsize ss = ravel ss is := by
      rw [Nat.add_comm, Nat.add_mul_mod_self_right, Nat.mod_eq_of_lt hr]
    rw [e1, e2, ih]

/-- translated obligation: the flatten step is `moveaxis(a.reshape((k, -1)), 1, 0)` (layer axis kept, trailing axes flattened in C
order, batch axis first), layer `i` of batch element `b` is `[b, i]`, the exit medium is `[b, k-1]`, the layer matrices get their
batch axis moved to the front, and the result is reshaped to the trailing axes `stack.shape[2:]` of the `(k, 2, *bs)` input -/
theorem gen_stack_batch {α ρ : Type} (k : Nat) (bs : List Nat) (a : Nat → List Nat → α) (x : Nat → Nat → α) (rflat : Nat → ρ)
    (b i : Nat) (idx : List Nat) :
    stackBatchIn k bs a b i = batchIn bs a b i ∧ stackBatchCol x i b = x b i ∧ stackBatchLast x k b = x b (k - 1) ∧
    stackBatchMatrixAxisToFront = true ∧ stackBatchOutShape (k :: 2 :: bs) = bs ∧
    stackBatchOut (k :: 2 :: bs) rflat idx = batchOut bs rflat idx := by
  refine ⟨?_, ?_, ?_, by decide, ?_, ?_⟩ <;>
    simp [stackBatchIn, stackBatchCol, stackBatchLast, stackBatchOutShape, stackBatchOut, batchIn, batchOut]

/-- batched = per-element loop, for every batch shape of every rank, every number of layers and every valid multi-index: whatever
the per-element computation `F` makes of the `k` indices and `k` thicknesses of ONE stack (the scalar pipeline), running it on the
flattened columns as the source wires them and reshaping the flat result gives, at `idx`, `F` of the stack found at `idx` -/
theorem batched_eq_loop {α ρ : Type} (F : (Nat → α) → (Nat → α) → ρ) (k : Nat) (bs : List Nat)
    (n d : Nat → List Nat → α) (idx : List Nat) (h : ValidIdx bs idx) :
    stackBatchOut (k :: 2 :: bs)
        (fun b => F (fun j => stackBatchCol (stackBatchIn k bs n) j b) (fun j => stackBatchCol (stackBatchIn k bs d) j b)) idx
      = F (fun j => n j idx) (fun j => d j idx) := by
  have e : ∀ (a : Nat → List Nat → α) (j : Nat),
      stackBatchCol (stackBatchIn k bs a) j (ravel bs idx) = a j idx := by
    intro a j
    rw [(gen_stack_batch k bs a (stackBatchIn k bs a) (fun _ => a 0 []) (ravel bs idx) j idx).2.1,
      (gen_stack_batch k bs a (fun _ _ => a 0 []) (fun _ => a 0 []) (ravel bs idx) j idx).1, batchIn, unravel_ravel h]
  rw [(gen_stack_batch k bs n (fun _ _ => n 0 []) _ 0 0 idx).2.2.2.2.2, batchOut]
  simp only [e]

/-- the exit medium of batch element `idx` is its own last layer -/
theorem batched_exit_medium {α : Type} (k : Nat) (bs : List Nat) (n : Nat → List Nat → α) (idx : List Nat) (h : ValidIdx bs idx) :
    stackBatchLast (stackBatchIn k bs n) k (ravel bs idx) = n (k - 1) idx := by
  rw [(gen_stack_batch k bs n (stackBatchIn k bs n) (fun _ => n 0 []) (ravel bs idx) 0 idx).2.2.1,
    (gen_stack_batch k bs n (fun _ _ => n 0 []) (fun _ => n 0 []) (ravel bs idx) (k - 1) idx).1, batchIn, unravel_ravel h]

/-- non-vacuity: `(2, 1)` is a valid index of a `(3, 4)` batch, at flat position 9 -/
example : ValidIdx [3, 4] [2, 1] ∧ ravel [3, 4] [2, 1] = 9 ∧ unravel [3, 4] 9 = [2, 1] := by
  refine ⟨?_, by decide, by decide⟩
  exact List.Forall₂.cons (by decide) (List.Forall₂.cons (by decide) List.Forall₂.nil)

end batch

/-! ## frustrated total internal reflection: evanescent interior layers (Session 3) -/

/-- a lossless layer as the pipeline meets it below OR beyond its critical angle -/
inductive GLayer where
  | prop (sb cb ct n : ℝ)
  | evan (sh ch κ n : ℝ)

/-- `sin² β + cos² β = 1` resp. `cosh² b - sinh² b = 1`; non-zero `cos θ` resp. `κ`; non-zero index -/
def GLayer.ok : GLayer → Prop
  | .prop sb cb ct n => sb ^ 2 + cb ^ 2 = 1 ∧ ct ≠ 0 ∧ n ≠ 0
  | .evan sh ch κ n => ch ^ 2 - sh ^ 2 = 1 ∧ κ ≠ 0 ∧ n ≠ 0

/-- the characteristic matrix the generated `charS` gives for the layer (evanescent: `sin β = i·sh`, `cos β = ch`, `cos θ = iκ`) -/
noncomputable def GLayer.matS : GLayer → M22 ℂ
  | .prop sb cb ct n => charS (-I) (sb : ℂ) cb ct n
  | .evan sh ch κ n => charS (-I) (I * sh) ch (I * κ) n

/-- same with the generated `charP` -/
noncomputable def GLayer.matP : GLayer → M22 ℂ
  | .prop sb cb ct n => charP (-I) (sb : ℂ) cb ct n
  | .evan sh ch κ n => charP (-I) (I * sh) ch (I * κ) n

/-- its real representation `[[p, i q], [i r, s]]` (s-polarisation) -/
noncomputable def GLayer.lmS : GLayer → LM
  | .prop sb cb ct n => layerLM cb sb (n * ct)
  | .evan sh ch κ n => ⟨ch, -sh / (κ * n), n * κ * sh, ch⟩

/-- its real representation (p-polarisation) -/
noncomputable def GLayer.lmP : GLayer → LM
  | .prop sb cb ct n => layerLM cb sb (n / ct)
  | .evan sh ch κ n => ⟨ch, sh * κ / n, -(n * sh / κ), ch⟩

/-- the s-matrix the code builds for a propagating or an evanescent lossless layer is `[[p, i q], [i r, s]]` with real entries and `p s + q r = 1` -/
theorem GLayer.matS_eq (l : GLayer) (h : l.ok) : l.matS = l.lmS.toC ∧ l.lmS.det = 1 := by
  cases l with
  | prop sb cb ct n =>
    obtain ⟨h1, h2, h3⟩ := h
    exact ⟨by simp only [GLayer.matS, GLayer.lmS, gen_charS]; exact layerS_toC ⟨sb, cb, ct, n⟩,
      layerLM_det _ _ _ h1 (mul_ne_zero h3 h2)⟩
  | evan sh ch κ n =>
    obtain ⟨h1, h2, h3⟩ := h
    have hk : (κ : ℂ) ≠ 0 := by exact_mod_cast h2
    have hn : (n : ℂ) ≠ 0 := by exact_mod_cast h3
    refine ⟨?_, ?_⟩
    · simp only [GLayer.matS, GLayer.lmS, gen_charS]
      have hI := I_ne_zero
      apply M22.ext' <;> simp only [Model.C17.layerS, LM.toC] <;> push_cast
      · rw [div_eq_iff (by simp [hk, hn, hI])]; field_simp
      · linear_combination (-(n : ℂ) * sh * κ * I) * I_sq
    · simp only [GLayer.lmS, LM.det]; field_simp; linear_combination h1

/-- same for the p-matrix -/
theorem GLayer.matP_eq (l : GLayer) (h : l.ok) : l.matP = l.lmP.toC ∧ l.lmP.det = 1 := by
  cases l with
  | prop sb cb ct n =>
    obtain ⟨h1, h2, h3⟩ := h
    exact ⟨by simp only [GLayer.matP, GLayer.lmP, gen_charP]; exact layerP_toC ⟨sb, cb, ct, n⟩,
      layerLM_det _ _ _ h1 (div_ne_zero h3 h2)⟩
  | evan sh ch κ n =>
    obtain ⟨h1, h2, h3⟩ := h
    have hk : (κ : ℂ) ≠ 0 := by exact_mod_cast h2
    have hn : (n : ℂ) ≠ 0 := by exact_mod_cast h3
    refine ⟨?_, ?_⟩
    · simp only [GLayer.matP, GLayer.lmP, gen_charP]
      have hI := I_ne_zero
      apply M22.ext' <;> simp only [Model.C17.layerP, LM.toC] <;> push_cast
      · rw [show -I * (I * (sh : ℂ)) * (I * κ) / n = -(I * I) * (I * (sh * κ / n)) by ring, I_mul_I]; ring
      · rw [div_eq_iff (by simp [hk, hn, hI])]; field_simp
    · simp only [GLayer.lmP, LM.det]; field_simp; linear_combination h1

/-- closure with evanescent layers: every product of propagating and evanescent lossless layers (any number, any order) is lossless of determinant one -/
theorem lossless_closed_ftir (ls : List GLayer) (h : ∀ l ∈ ls, l.ok) :
    (∃ m : LM, m.det = 1 ∧ prod (ls.map GLayer.matS) = m.toC) ∧ (∃ m : LM, m.det = 1 ∧ prod (ls.map GLayer.matP) = m.toC) := by
  constructor
  · have e : ls.map GLayer.matS = (ls.map GLayer.lmS).map LM.toC := by
      rw [List.map_map]; apply List.map_congr_left; intro l hl; exact (GLayer.matS_eq l (h l hl)).1
    rw [e]; apply prod_lossless
    intro m hm; obtain ⟨l, hl, rfl⟩ := List.mem_map.mp hm; exact (GLayer.matS_eq l (h l hl)).2
  · have e : ls.map GLayer.matP = (ls.map GLayer.lmP).map LM.toC := by
      rw [List.map_map]; apply List.map_congr_left; intro l hl; exact (GLayer.matP_eq l (h l hl)).1
    rw [e]; apply prod_lossless
    intro m hm; obtain ⟨l, hl, rfl⟩ := List.mem_map.mp hm; exact (GLayer.matP_eq l (h l hl)).2

/-- frustrated total internal reflection conserves energy: a stack of lossless layers of which ANY subset is beyond its critical angle
(`cos θ_j = iκ`, `sin β = i sinh b`, `cos β = cosh b`), between propagating real ambient and exit media, has
`|r|² + (n_e cos θ_e / n₀ cos θ₀)|t|² = 1` — any depth, both polarisations -/
theorem energy_conservation_ftir (ls : List GLayer) (h : ∀ l ∈ ls, l.ok) (n0 c0 ne ce : ℝ)
    (hn0 : 0 < n0) (hc0 : 0 < c0) (hne : 0 < ne) (hce : 0 < ce) :
    (normSq (rtot (amatS (n0 : ℂ) c0 (prod (ls.map GLayer.matS)) ne ce)) +
      (ne * ce) / (n0 * c0) * normSq (ttot (amatS (n0 : ℂ) c0 (prod (ls.map GLayer.matS)) ne ce)) = 1) ∧
    (normSq (rtot (amatP (n0 : ℂ) c0 (prod (ls.map GLayer.matP)) ne ce)) +
      (ne * ce) / (n0 * c0) * normSq (ttot (amatP (n0 : ℂ) c0 (prod (ls.map GLayer.matP)) ne ce)) = 1) := by
  obtain ⟨⟨m, hm, e⟩, ⟨m', hm', e'⟩⟩ := lossless_closed_ftir ls h
  constructor
  · rw [e, gen_amatS, (gen_rtot_ttot _).1, (gen_rtot_ttot _).2]
    simp only [Model.C17.rtot, Model.C17.ttot, ofInt_eq, Int.cast_one]
    exact rt_of_energy _ _ _ (by positivity) (amatS_energy m hm n0 c0 ne ce (by positivity))
  · rw [e', gen_amatP, (gen_rtot_ttot _).1, (gen_rtot_ttot _).2]
    simp only [Model.C17.rtot, Model.C17.ttot, ofInt_eq, Int.cast_one]
    exact rt_of_energy _ _ _ (by positivity) (amatP_energy m' hm' n0 c0 ne ce (by positivity))

/-- the evanescent parameters are the complex sine / cosine of the purely imaginary phase thickness -/
theorem evanescent_params (b : ℝ) :
    Complex.sin ((b : ℂ) * I) = I * (Real.sinh b : ℝ) ∧ Complex.cos ((b : ℂ) * I) = (Real.cosh b : ℝ) ∧
    Real.cosh b ^ 2 - Real.sinh b ^ 2 = 1 := by
  refine ⟨?_, ?_, ?_⟩
  · rw [Complex.sin_mul_I]; push_cast; ring
  · rw [Complex.cos_mul_I]; push_cast; rfl
  · have := Real.cosh_sq b; linarith

/-- non-vacuity: an evanescent layer with the real `sinh`, `cosh` -/
example (b : ℝ) : (GLayer.evan (Real.sinh b) (Real.cosh b) 2 (3/2)).ok :=
  ⟨(evanescent_params b).2.2, by norm_num, by norm_num⟩

/-! ## reversibility: Stokes relations, reversed stacks, ambient-matched layers (Session 3, second pass) -/

section stokes
variable {K : Type} [Field K]

/-- Stokes relations at a bare interface, over the generated Fresnel formulas: seen from the other side `r' = -r` and
`t t' - r r' = 1`, both polarisations (any field: complex indices included) -/
theorem fresnel_stokes_relations (n0 n1 c0 c1 : K) (hs : n0 * c0 + n1 * c1 ≠ 0) (hp : n0 * c1 + n1 * c0 ≠ 0) :
    (fresnelRs n1 n0 c1 c0 = -fresnelRs n0 n1 c0 c1 ∧
      fresnelTs n0 n1 c0 c1 * fresnelTs n1 n0 c1 c0 - fresnelRs n0 n1 c0 c1 * fresnelRs n1 n0 c1 c0 = 1) ∧
    (fresnelRp n1 n0 c1 c0 = -fresnelRp n0 n1 c0 c1 ∧
      fresnelTp n0 n1 c0 c1 * fresnelTp n1 n0 c1 c0 - fresnelRp n0 n1 c0 c1 * fresnelRp n1 n0 c1 c0 = 1) := by
  have hs' : n1 * c1 + n0 * c0 ≠ 0 := by rwa [add_comm]
  have hp' : n1 * c0 + n0 * c1 ≠ 0 := by rwa [add_comm]
  have es : n1 * c1 + n0 * c0 = n0 * c0 + n1 * c1 := add_comm _ _
  have ep : n1 * c0 + n0 * c1 = n0 * c1 + n1 * c0 := add_comm _ _
  refine ⟨⟨?_, ?_⟩, ⟨?_, ?_⟩⟩ <;> c17_unfold <;> push_cast <;> simp only [es, ep]
  · field_simp; ring
  · rw [div_mul_div_comm, div_mul_div_comm, div_sub_div_same, div_eq_one_iff_eq (mul_ne_zero hs hs)]; ring
  · field_simp; ring
  · rw [div_mul_div_comm, div_mul_div_comm, div_sub_div_same, div_eq_one_iff_eq (mul_ne_zero hp hp)]; ring

/-- a layer index-matched to the AMBIENT medium (`n = n₀`, `cos θ = cos θ₀`) in front of any stack only multiplies `A₀₀` by
`cos β + mI sin β` and `A₁₀` by `cos β - mI sin β` (unit-modulus phases for a lossless layer): `|r|`, `|t|` are unchanged -/
theorem ambient_matched_layer (mI sb cb n0 c0 ne ce : K) (M : M22 K) (hn : n0 ≠ 0) (hc : c0 ≠ 0) :
    ((amatS n0 c0 ((charS mI sb cb c0 n0).mul M) ne ce).a = (cb + mI * sb) * (amatS n0 c0 M ne ce).a ∧
     (amatS n0 c0 ((charS mI sb cb c0 n0).mul M) ne ce).c = (cb - mI * sb) * (amatS n0 c0 M ne ce).c) ∧
    ((amatP n0 c0 ((charP mI sb cb c0 n0).mul M) ne ce).a = (cb + mI * sb) * (amatP n0 c0 M ne ce).a ∧
     (amatP n0 c0 ((charP mI sb cb c0 n0).mul M) ne ce).c = (cb - mI * sb) * (amatP n0 c0 M ne ce).c) := by
  rw [gen_amatS, gen_amatS, gen_amatP, gen_amatP, gen_charS, gen_charP]
  refine ⟨⟨?_, ?_⟩, ⟨?_, ?_⟩⟩ <;>
    simp only [Model.C17.amatS, Model.C17.amatP, Model.C17.layerS, Model.C17.layerP, M22.mul, M22.smul, ofInt_eq] <;>
    push_cast <;> field_simp <;> ring

/-- swap of the diagonal entries -/
def dflip (m : M22 K) : M22 K := ⟨m.d, m.b, m.c, m.a⟩

omit [Field K] in
/-- swapping twice is the identity -/
theorem flip_flip (m : M22 K) : dflip (dflip m) = m := rfl

/-- the swap reverses products -/
theorem flip_mul (x y : M22 K) : dflip (x.mul y) = (dflip y).mul (dflip x) := by
  apply M22.ext' <;> simp only [dflip, M22.mul] <;> ring

/-- the identity is fixed -/
theorem flip_one : dflip (M22.one : M22 K) = M22.one := by
  apply M22.ext' <;> simp [dflip, M22.one]

/-- reversing the order of a stack whose layer matrices have equal diagonal entries (every characteristic matrix does) swaps the
diagonal entries of the product — any number of layers -/
theorem prod_reverse (ms : List (M22 K)) (h : ∀ m ∈ ms, m.a = m.d) : prod ms.reverse = dflip (prod ms) := by
  induction ms with
  | nil => simp [prod, flip_one]
  | cons m ms ih =>
    have hm : dflip m = m := by
      have := h m (by simp); apply M22.ext' <;> simp [dflip, this]
    rw [List.reverse_cons, prod_append, prod_singleton, prod_cons, flip_mul, hm, ih (fun x hx => h x (by simp [hx]))]

/-- the characteristic matrices the code builds have equal diagonal entries -/
theorem char_diag (mI sb cb ct n : K) : (charS mI sb cb ct n).a = (charS mI sb cb ct n).d ∧ (charP mI sb cb ct n).a = (charP mI sb cb ct n).d := by
  rw [gen_charS, gen_charP]; exact ⟨rfl, rfl⟩
end stokes

/-- diagonal swap on the real representation -/
def LM.flip (m : LM) : LM := ⟨m.s, m.q, m.r, m.p⟩
/-- compatible with the complex matrix -/
theorem LM.flip_toC (m : LM) : (LM.flip m).toC = dflip m.toC := rfl
/-- the swap keeps `p s + q r` -/
theorem LM.flip_det (m : LM) : (LM.flip m).det = m.det := by simp only [LM.flip, LM.det]; ring

/-- reversibility of a lossless stack (s-polarisation): light incident from the exit side on the reversed stack sees
`t' = (η_e/η₀) t` (reciprocity), `r' A₀₀ = -conj A₁₀` hence `|r'| = |r|`, and the generalised Stokes relation
`t t' - r r' = conj A₀₀ / A₀₀` (a unit-modulus phase; `= 1` when `A₀₀` is real, e.g. a bare interface) -/
theorem stack_reversibility_s (m : LM) (hm : m.det = 1) (n0 c0 ne ce : ℝ) (hn0 : 0 < n0) (hc0 : 0 < c0) (hne : 0 < ne) (hce : 0 < ce) :
    let A := amatS (n0 : ℂ) c0 m.toC ne ce
    let A' := amatS (ne : ℂ) ce (LM.flip m).toC n0 c0
    ttot A' = ((ne * ce) / (n0 * c0) : ℝ) * ttot A ∧ rtot A' * A.a = -(starRingEnd ℂ) A.c ∧
    normSq (rtot A') = normSq (rtot A) ∧
    ttot A * ttot A' - rtot A * rtot A' = (starRingEnd ℂ) A.a / A.a := by
  intro A A'
  obtain ⟨ea, ec⟩ := amatS_entries m n0 c0 ne ce
  obtain ⟨ea', ec'⟩ := amatS_entries (LM.flip m) ne ce n0 c0
  have hE := amatS_energy m hm n0 c0 ne ce (by positivity)
  have h1 : (n0 : ℂ) ≠ 0 := by exact_mod_cast ne_of_gt hn0
  have h2 : (c0 : ℂ) ≠ 0 := by exact_mod_cast ne_of_gt hc0
  have h3 : (ne : ℂ) ≠ 0 := by exact_mod_cast ne_of_gt hne
  have h4 : (ce : ℂ) ≠ 0 := by exact_mod_cast ne_of_gt hce
  have k1 : A'.a = ((n0 * c0) / (ne * ce) : ℝ) * A.a := by
    simp only [A, A', gen_amatS]; rw [ea', ea]; simp only [LM.flip]; push_cast; field_simp; ring
  have k2 : A'.c = -(((n0 * c0) / (ne * ce) : ℝ) : ℂ) * (starRingEnd ℂ) A.c := by
    simp only [A, A', gen_amatS]; rw [ec', ec]; simp only [LM.flip, map_add, map_mul, conj_ofReal, conj_I]; push_cast; field_simp; ring
  have ha : A.a ≠ 0 := by
    intro h0
    have : normSq A.a = 0 := by rw [h0]; simp
    have hc := normSq_nonneg A.c
    have hτ : 0 < (ne * ce) / (n0 * c0) := by positivity
    simp only [A, gen_amatS] at this hc; linarith
  have hEc : A.a * (starRingEnd ℂ) A.a - A.c * (starRingEnd ℂ) A.c = (((ne * ce) / (n0 * c0) : ℝ) : ℂ) := by
    rw [mul_conj, mul_conj, ← ofReal_sub]; simp only [A, gen_amatS]; rw [hE]
  have ha' : A'.a ≠ 0 := by
    rw [k1]; apply mul_ne_zero _ ha; push_cast; exact div_ne_zero (mul_ne_zero h1 h2) (mul_ne_zero h3 h4)
  simp only [(gen_rtot_ttot _).1, (gen_rtot_ttot _).2, Model.C17.rtot, Model.C17.ttot, ofInt_eq, Int.cast_one]
  refine ⟨?_, ?_, ?_, ?_⟩
  · rw [k1]; push_cast; field_simp
  · rw [k2, k1]; push_cast; field_simp
  · rw [normSq_div, normSq_div, k2, k1, normSq_mul, normSq_mul, normSq_neg, normSq_conj, normSq_ofReal]
    have : ((n0 * c0) / (ne * ce) : ℝ) ≠ 0 := by positivity
    have hna : normSq A.a ≠ 0 := by simpa using ha
    field_simp
  · rw [k2, k1]; push_cast at hEc ⊢; field_simp at hEc ⊢
    linear_combination -hEc
/-- reversibility of a lossless stack (p-polarisation; same relations with `A^p`): light incident from the exit side on the reversed stack sees
`t' = (η_e/η₀) t` (reciprocity), `r' A₀₀ = -conj A₁₀` hence `|r'| = |r|`, and the generalised Stokes relation
`t t' - r r' = conj A₀₀ / A₀₀` (a unit-modulus phase; `= 1` when `A₀₀` is real, e.g. a bare interface) -/
theorem stack_reversibility_p (m : LM) (hm : m.det = 1) (n0 c0 ne ce : ℝ) (hn0 : 0 < n0) (hc0 : 0 < c0) (hne : 0 < ne) (hce : 0 < ce) :
    let A := amatP (n0 : ℂ) c0 m.toC ne ce
    let A' := amatP (ne : ℂ) ce (LM.flip m).toC n0 c0
    ttot A' = ((ne * ce) / (n0 * c0) : ℝ) * ttot A ∧ rtot A' * A.a = -(starRingEnd ℂ) A.c ∧
    normSq (rtot A') = normSq (rtot A) ∧
    ttot A * ttot A' - rtot A * rtot A' = (starRingEnd ℂ) A.a / A.a := by
  intro A A'
  obtain ⟨ea, ec⟩ := amatP_entries m n0 c0 ne ce
  obtain ⟨ea', ec'⟩ := amatP_entries (LM.flip m) ne ce n0 c0
  have hE := amatP_energy m hm n0 c0 ne ce (by positivity)
  have h1 : (n0 : ℂ) ≠ 0 := by exact_mod_cast ne_of_gt hn0
  have h2 : (c0 : ℂ) ≠ 0 := by exact_mod_cast ne_of_gt hc0
  have h3 : (ne : ℂ) ≠ 0 := by exact_mod_cast ne_of_gt hne
  have h4 : (ce : ℂ) ≠ 0 := by exact_mod_cast ne_of_gt hce
  have k1 : A'.a = ((n0 * c0) / (ne * ce) : ℝ) * A.a := by
    simp only [A, A', gen_amatP]; rw [ea', ea]; simp only [LM.flip]; push_cast; field_simp; ring
  have k2 : A'.c = -(((n0 * c0) / (ne * ce) : ℝ) : ℂ) * (starRingEnd ℂ) A.c := by
    simp only [A, A', gen_amatP]; rw [ec', ec]; simp only [LM.flip, map_add, map_mul, conj_ofReal, conj_I]; push_cast; field_simp; ring
  have ha : A.a ≠ 0 := by
    intro h0
    have : normSq A.a = 0 := by rw [h0]; simp
    have hc := normSq_nonneg A.c
    have hτ : 0 < (ne * ce) / (n0 * c0) := by positivity
    simp only [A, gen_amatP] at this hc; linarith
  have hEc : A.a * (starRingEnd ℂ) A.a - A.c * (starRingEnd ℂ) A.c = (((ne * ce) / (n0 * c0) : ℝ) : ℂ) := by
    rw [mul_conj, mul_conj, ← ofReal_sub]; simp only [A, gen_amatP]; rw [hE]
  have ha' : A'.a ≠ 0 := by
    rw [k1]; apply mul_ne_zero _ ha; push_cast; exact div_ne_zero (mul_ne_zero h1 h2) (mul_ne_zero h3 h4)
  simp only [(gen_rtot_ttot _).1, (gen_rtot_ttot _).2, Model.C17.rtot, Model.C17.ttot, ofInt_eq, Int.cast_one]
  refine ⟨?_, ?_, ?_, ?_⟩
  · rw [k1]; push_cast; field_simp
  · rw [k2, k1]; push_cast; field_simp
  · rw [normSq_div, normSq_div, k2, k1, normSq_mul, normSq_mul, normSq_neg, normSq_conj, normSq_ofReal]
    have : ((n0 * c0) / (ne * ce) : ℝ) ≠ 0 := by positivity
    have hna : normSq A.a ≠ 0 := by simpa using ha
    field_simp
  · rw [k2, k1]; push_cast at hEc ⊢; field_simp at hEc ⊢
    linear_combination -hEc

/-- the reversed stack, layer by layer: if the ordered product of the lossless layers is `m`, the product of the SAME layers in
reverse order is `m` with its diagonal entries swapped — any depth, both polarisations (so `stack_reversibility_s/p` speak about the
physically reversed stack) -/
theorem reversed_stack_lossless (ls : List Layer) (h : ∀ l ∈ ls, l.ok) :
    (∃ m : LM, m.det = 1 ∧ prod (layersS ls) = m.toC ∧ prod (layersS ls.reverse) = (LM.flip m).toC) ∧
    (∃ m : LM, m.det = 1 ∧ prod (layersP ls) = m.toC ∧ prod (layersP ls.reverse) = (LM.flip m).toC) := by
  obtain ⟨⟨m, hm, e⟩, ⟨m', hm', e'⟩⟩ := lossless_closed ls h
  refine ⟨⟨m, hm, e, ?_⟩, ⟨m', hm', e', ?_⟩⟩
  · have : layersS ls.reverse = (layersS ls).reverse := by simp [layersS, List.map_reverse]
    rw [this, prod_reverse _ (by
      intro x hx; simp only [layersS, List.mem_map] at hx; obtain ⟨l, _, rfl⟩ := hx; exact (char_diag _ _ _ _ _).1), e, LM.flip_toC]
  · have : layersP ls.reverse = (layersP ls).reverse := by simp [layersP, List.map_reverse]
    rw [this, prod_reverse _ (by
      intro x hx; simp only [layersP, List.mem_map] at hx; obtain ⟨l, _, rfl⟩ := hx; exact (char_diag _ _ _ _ _).2), e', LM.flip_toC]

/-- non-vacuity: the bare interface (`m = 1`) has real `A₀₀`, so the generalised relation reduces to `t t' - r r' = 1` -/
example : (LM.flip LM.one) = LM.one ∧ LM.one.det = 1 := ⟨rfl, LM.det_one⟩

/-! ## non-vacuity -/
/-- the layer hypotheses are met by real angles and indices -/
example (β θ n : ℝ) (hθ : Real.cos θ ≠ 0) (hn : n ≠ 0) : (Layer.mk (Real.sin β) (Real.cos β) (Real.cos θ) n).ok :=
  ⟨Real.sin_sq_add_cos_sq β, hθ, hn⟩
example : (Layer.mk (3 / 5) (4 / 5) (12 / 13) (3 / 2)).ok := by
  refine ⟨by norm_num, by norm_num, by norm_num⟩
example : ((-I : ℂ)) ^ 2 = -1 := by simp
/-- an absorbing layer at normal incidence (`σ = 0`): `n = 2 + i`, `cos θ = 1`, `κ = 3` -/
example : (AbsLayer.mk (2 + I) 1 3).ok 0 := by
  refine ⟨by norm_num, ?_, by norm_num, ?_, by simp⟩
  · intro h; have := congrArg Complex.re h; simp at this
  · have : ((2 + I : ℂ) ^ 2).im = 4 := by simp [pow_two, Complex.add_im, Complex.mul_im]; norm_num
    rw [this]; norm_num
/-- Brewster hypotheses at `n₀ = 1`, `n₁ = 4/3`: `tan θ₀ = 4/3` (`cos θ₀ = 3/5`), refraction at `cos θ₁ = 4/5` -/
example : fresnelRp (1 : ℝ) (4 / 3) (3 / 5) (4 / 5) = 0 :=
  brewster_zero 1 (4 / 3) (3 / 5) (4 / 5) (4 / 5) (3 / 5) (by norm_num) (by norm_num) (by norm_num) (by norm_num)
    (by norm_num) (by simp only [snellSin, Model.C17.snellSin]; norm_num) (by simp only [brewsterX, brewsterY]; norm_num)

end C17
