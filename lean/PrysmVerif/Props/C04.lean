import PrysmVerif.Generated.C04
import Mathlib.Tactic.Ring
import Mathlib.Algebra.Order.Floor.Ring
import PrysmVerif.Lemmas.PyArith
/-!
# C04 — one origin convention: sample `n // 2` is zero for every grid, pad, crop and metric

Every theorem quantifies over **all** axis lengths / target lengths (no bound).  Theorems whose
subject lives in `Generated.C04` are re-checked against the current source on every run.
-/
set_option linter.unusedTactic false
set_option linter.unreachableTactic false

namespace C04
open Generated.C04

/-! ## translated obligations: the generated glue equals the hand model (∀ inputs) -/

theorem gen_fftrange (n : Int) :
    fftrangeLo n = Model.C04.fftrangeLo n ∧ fftrangeHi n = Model.C04.fftrangeHi n := by
  simp [fftrangeLo, fftrangeHi, Model.C04.fftrangeLo, Model.C04.fftrangeHi]

theorem gen_pad (n N : Int) :
    padBefore n N = Model.C04.padBefore n N ∧ padAfter n N = Model.C04.padAfter n N := by
  constructor <;> simp only [padBefore, padAfter, Model.C04.padAfter, Model.C04.padBefore] <;> omega

/-- the constant-mode slice and the `np.pad` branch place the data at the same offset -/
theorem gen_pad_slice (n N : Int) :
    padSliceLo n N = padBefore n N ∧ padSliceHi n N = padBefore n N + n := by
  constructor <;> simp only [padSliceLo, padSliceHi, padBefore] <;> omega

theorem gen_crop (n N : Int) :
    cropLo n N = Model.C04.cropLeft n N ∧ cropHi n N = Model.C04.cropLeft n N + N := by
  constructor <;> simp only [cropLo, cropHi, Model.C04.cropLeft] <;> omega

theorem gen_centroid (n : Int) : centroidRef n = Model.C04.centroidRef n := by
  simp only [centroidRef, Model.C04.centroidRef]

theorem gen_padOutLen (n Q : Rat) : padOutLen n Q = Model.C04.padOutLen n Q := by
  simp only [padOutLen, Model.C04.padOutLen]

/-- structural facts read off the AST of the current source -/
theorem gen_structure :
    xyGridIsFftrangeTimesDxInYXOrder = true ∧ ftUnitIsFftshiftOfFftfreq = true ∧
    slicesCentreIsArgminAbs = true ∧ wavefrontPadDelegates = true ∧ wavefrontCropDelegates = true := by
  decide

/-! ## the property, stated over the generated definitions -/

/-- `fftrange n` has `n` samples and an exact zero at index `n // 2` -/
theorem fftrange_zero (n : Int) :
    fftrangeLo n + n / 2 = 0 ∧ fftrangeHi n - fftrangeLo n = n := by
  simp only [fftrangeLo, fftrangeHi]; omega

/-- the grid is strictly increasing with unit step, so `n // 2` is the unique zero / unique argmin of `|x|` -/
theorem fftrange_unique_zero (n i : Int) (h : fftrangeLo n + i = 0) : i = n / 2 := by
  simp only [fftrangeLo] at h; omega

theorem argmin_abs_is_origin (n i : Int) (hi : i ≠ n / 2) :
    |fftrangeLo n + n / 2| < |fftrangeLo n + i| := by
  have h0 : fftrangeLo n + n / 2 = 0 := (fftrange_zero n).1
  rw [h0]
  have : fftrangeLo n + i ≠ 0 := fun h => hi (fftrange_unique_zero n i h)
  simpa using this

/-- padding moves the origin sample onto the origin of the new array (every parity) -/
theorem pad_origin (n N : Int) (_h0 : 0 ≤ n) (_h : n ≤ N) : padBefore n N + n / 2 = N / 2 := by
  simp only [padBefore]; omega

/-- padding only adds samples: the two pad widths are non-negative and add up -/
theorem pad_widths (n N : Int) (_h0 : 0 ≤ n) (h : n ≤ N) :
    0 ≤ padBefore n N ∧ 0 ≤ padAfter n N ∧ padBefore n N + n + padAfter n N = N := by
  simp only [padBefore, padAfter]; omega

/-- cropping moves the origin sample onto the origin of the new array and stays in bounds -/
theorem crop_origin (n N : Int) (_h0 : 0 ≤ N) (h : N ≤ n) :
    n / 2 - cropLo n N = N / 2 ∧ 0 ≤ cropLo n N ∧ cropHi n N ≤ n ∧ cropHi n N - cropLo n N = N := by
  simp only [cropLo, cropHi]; omega

/-- crop undoes pad exactly: same offset, so `crop (pad x) = x` sample for sample, any fill, any mode -/
theorem crop_pad_id (n N : Int) : cropLo N n = padBefore n N := by
  simp only [cropLo, padBefore]

theorem crop_pad_roundtrip (n N i : Int) (h0 : 0 ≤ i) (hi : i < n) :
    Model.C04.padSrc n N (Model.C04.cropSrc N n i) = some i := by
  unfold Model.C04.padSrc Model.C04.cropSrc Model.C04.cropLeft Model.C04.padBefore
  split
  · congr 1; omega
  · omega

/-- the centroid reference is the origin sample, so a point source `k` samples from it reads `k·dx` -/
theorem centroid_ref (n : Int) : centroidRef n = n / 2 := by simp only [centroidRef]

theorem centroid_of_delta (n k : Int) (dx : Rat) :
    dx * (((n / 2 + k : Int) : Rat) - ((centroidRef n : Int) : Rat)) = k * dx := by
  rw [centroid_ref]; push_cast; ring

/-- `fftshift(fftfreq(n))` has its zero at `n // 2` and unit step (in units of `1/(n·dx)`) -/
theorem ftunit_zero_at_origin (n i : Int) (h0 : 0 ≤ i) (hi : i < n) :
    Model.C04.ftUnitNum n i = i - n / 2 := by
  unfold Model.C04.ftUnitNum Model.C04.fftfreqNum Model.C04.fftshiftSrc
  by_cases hc : i < n / 2
  · have e : (i - n / 2) % n = i - n / 2 + n := by
      rw [← Int.add_emod_right]
      exact Int.emod_eq_of_lt (by omega) (by omega)
    simp only [e]; split <;> omega
  · have e : (i - n / 2) % n = i - n / 2 := Int.emod_eq_of_lt (by omega) (by omega)
    simp only [e]; split <;> omega

/-- default padded length is `⌈n·Q⌉`, and `Q = 1` changes nothing -/
theorem padOutLen_ceil (n : Int) (Q : Rat) : padOutLen n Q = ((⌈(n : Rat) * Q⌉ : Int) : Rat) := by
  simp only [padOutLen, Rat.ceil_eq_intCeil]

theorem padOutLen_one (n : Int) : padOutLen n 1 = n := by
  rw [padOutLen_ceil]; simp

/-! ## non-vacuity: the hypotheses are met by concrete, parity-mixed instances -/
example : padBefore 4 7 + 4 / 2 = 7 / 2 := by decide
example : (7 : Int) / 2 - cropLo 7 4 = 4 / 2 := by decide
example : Model.C04.ftUnitNum 7 3 = 0 ∧ Model.C04.ftUnitNum 8 4 = 0 := by decide

end C04
