import PrysmVerif.Generated.C04
import PrysmVerif.Lemmas.C04Defs
import PrysmVerif.Lemmas.C04Rat
import Mathlib.Tactic.Ring
import Mathlib.Tactic.FieldSimp
import Mathlib.Tactic.Linarith
import Mathlib.Algebra.Order.Floor.Ring
import PrysmVerif.Lemmas.PyArith
/-!
# C04 — one origin convention: sample `n // 2` is zero for every grid, pad, crop and metric

Every theorem quantifies over **all** axis lengths / target lengths / spacings (no bound).  The subjects
(`fftrangeLo`, `padBefore`, `gridX`, `ftUnitNum`, `slicesCentreY`, `centroidSpatialElem`, …) live in
`Generated.C04`: they are re-translated from the current prysm (and NumPy helper) source on every run.
Statements are *semantic* (what the translated term must compute); proofs end in `omega` / `ring`, so an
equivalent rewrite of the source still checks and a different offset does not.
-/
set_option linter.unusedTactic false
set_option linter.unreachableTactic false
set_option linter.unusedSimpArgs false
set_option linter.unusedVariables false

namespace C04
open Generated.C04

/-! ## bridges: the generated glue computes what the driver-executed hand model computes (∀ inputs) -/

/-- translated `fftrange` bounds = the model run by the driver -/
theorem gen_fftrange (n : Int) :
    fftrangeLo n = Model.C04.fftrangeLo n ∧ fftrangeHi n = Model.C04.fftrangeHi n := by
  constructor <;> (try simp only [fftrangeLo, fftrangeHi, Model.C04.fftrangeLo, Model.C04.fftrangeHi]) <;> omega

/-- translated `np.pad` widths of `pad2d` = the model run by the driver -/
theorem gen_pad (n N : Int) :
    padBefore n N = Model.C04.padBefore n N ∧ padAfter n N = Model.C04.padAfter n N := by
  constructor <;> (try simp only [padBefore, padAfter, Model.C04.padAfter, Model.C04.padBefore]) <;> omega

/-- the constant-mode slice and the `np.pad` branch place the data at the same offset -/
theorem gen_pad_slice (n N : Int) :
    padSliceLo n N = padBefore n N ∧ padSliceHi n N = padBefore n N + n := by
  constructor <;> (try simp only [padSliceLo, padSliceHi, padBefore, Model.C04.padBefore]) <;> omega

/-- translated `crop_center` slice = the model run by the driver -/
theorem gen_crop (n N : Int) :
    cropLo n N = Model.C04.cropLeft n N ∧ cropHi n N = Model.C04.cropLeft n N + N := by
  constructor <;> (try simp only [cropLo, cropHi, Model.C04.cropLeft]) <;> omega

/-- translated centroid reference index = the model run by the driver -/
theorem gen_centroid (n : Int) : centroidRef n = Model.C04.centroidRef n := by
  (try simp only [centroidRef, Model.C04.centroidRef]) <;> omega

/-- translated default padded length = the model run by the driver -/
theorem gen_padOutLen (n Q : Rat) : padOutLen n Q = Model.C04.padOutLen n Q := by
  first | rfl | simp only [padOutLen, Model.C04.padOutLen, mul_comm]

/-- an integer `out_shape` means that length on every axis (pad2d and crop_center) -/
theorem int_out_shape (N : Int) :
    padIntShape0 N = N ∧ padIntShape1 N = N ∧ cropIntShape0 N = N ∧ cropIntShape1 N = N := by
  refine ⟨?_, ?_, ?_, ?_⟩ <;> (try simp only [padIntShape0, padIntShape1, cropIntShape0, cropIntShape1]) <;> omega

/-- `Wavefront.pad2d` / `Wavefront.crop` hand every argument to `fttools.pad2d` / `crop_center` under its own name
and store / return the result (read off the call's argument binding, keyword or positional) -/
theorem gen_structure : wavefrontPadDelegates = true ∧ wavefrontCropDelegates = true := by
  decide

/-! ## coordinate vectors and grids -/

/-- `fftrange n` has `n` samples, index `n // 2` lies inside it and holds an exact zero -/
theorem fftrange_zero (n : Int) (hn : 1 ≤ n) :
    0 ≤ n / 2 ∧ n / 2 < n ∧ fftrangeLo n + n / 2 = 0 ∧ fftrangeHi n - fftrangeLo n = n := by
  refine ⟨?_, ?_, ?_, ?_⟩ <;> (try simp only [fftrangeLo, fftrangeHi, Model.C04.fftrangeLo, Model.C04.fftrangeHi]) <;> omega

/-- sample `i` of `fftrange n` is `i - n // 2`: unit step, so `n // 2` is the only zero -/
theorem fftrange_sample (n i : Int) : fftrangeLo n + i = i - n / 2 := by
  (try simp only [fftrangeLo, Model.C04.fftrangeLo]) <;> omega

/-- the zero of `fftrange n` is unique -/
theorem fftrange_unique_zero (n i : Int) (h : fftrangeLo n + i = 0) : i = n / 2 := by
  rw [fftrange_sample] at h; omega

/-- `n // 2` is the unique argmin of `|fftrange n|` -/
theorem argmin_abs_is_origin (n i : Int) (hi : i ≠ n / 2) :
    |fftrangeLo n + n / 2| < |fftrangeLo n + i| := by
  have h0 : fftrangeLo n + n / 2 = 0 := by rw [fftrange_sample]; omega
  rw [h0]
  have : fftrangeLo n + i ≠ 0 := fun h => hi (fftrange_unique_zero n i h)
  simpa using this

/-- helper: the same for the hand model's `fftrangeLo` (used when an item fell back to the model) -/
theorem fftrange_sampleM (n i : Int) : Model.C04.fftrangeLo n + i = i - n / 2 := by
  simp only [Model.C04.fftrangeLo]; omega

/-- sample `i` of `fftrange(s) * dx` (the generator element of `make_xy_grid`) is `(i - s // 2) * dx` -/
theorem xyGridElem_eq (s i : Int) (dx : Rat) : xyGridElem s i dx = ((i - s / 2 : Int) : Rat) * dx := by
  (try simp only [xyGridElem, Model.C04.gridElem, fftrange_sample, fftrange_sampleM]) <;> ring

/-- `make_xy_grid((m, n), dx)`: `x[i, j] = (j - n//2)·dx` whatever `i`, `m`; `y[i, j] = (i - m//2)·dx` whatever `j`, `n`
— (row, column) = (y, x) order, the two axes independent; the same for the 1-D vectors of `grid=False` -/
theorem grid_values (m n : Int) (dx : Rat) (i j : Int) :
    gridX m n dx i j = ((j - n / 2 : Int) : Rat) * dx ∧ gridY m n dx i j = ((i - m / 2 : Int) : Rat) * dx ∧
    vecX m n dx j = ((j - n / 2 : Int) : Rat) * dx ∧ vecY m n dx i = ((i - m / 2 : Int) : Rat) * dx := by
  refine ⟨?_, ?_, ?_, ?_⟩ <;>
    simp only [gridX, gridY, vecX, vecY, Model.C04.gridX, Model.C04.gridY, Model.C04.vecX, Model.C04.vecY,
      xyGridElem_eq, Model.C04.gridElem, fftrange_sampleM]

/-- the 2-D grids hold an exact zero on row `m // 2` / column `n // 2`, which is inside the array, and only there
when `dx ≠ 0` -/
theorem grid_origin (m n : Int) (hm : 1 ≤ m) (hn : 1 ≤ n) (dx : Rat) (i j : Int) :
    0 ≤ m / 2 ∧ m / 2 < m ∧ 0 ≤ n / 2 ∧ n / 2 < n ∧
    gridX m n dx i (n / 2) = 0 ∧ gridY m n dx (m / 2) j = 0 ∧
    (dx ≠ 0 → gridX m n dx i j = 0 → j = n / 2) ∧ (dx ≠ 0 → gridY m n dx i j = 0 → i = m / 2) := by
  obtain ⟨hx, hy, _, _⟩ := grid_values m n dx i j
  obtain ⟨hx0, _, _, _⟩ := grid_values m n dx i (n / 2)
  obtain ⟨_, hy0, _, _⟩ := grid_values m n dx (m / 2) j
  refine ⟨by omega, by omega, by omega, by omega, ?_, ?_, ?_, ?_⟩
  · rw [hx0]; simp
  · rw [hy0]; simp
  · intro hdx h
    rw [hx] at h
    rcases mul_eq_zero.1 h with h | h
    · have : j - n / 2 = 0 := by exact_mod_cast h
      omega
    · exact absurd h hdx
  · intro hdx h
    rw [hy] at h
    rcases mul_eq_zero.1 h with h | h
    · have : i - m / 2 = 0 := by exact_mod_cast h
      omega
    · exact absurd h hdx

/-- a scalar `shape` means a square grid; `diameter=` makes the longer axis span the diameter -/
theorem grid_scalar_and_diameter (s : Int) (d : Rat) (m n : Int) (hm : 1 ≤ m) (hn : 1 ≤ n) :
    xyScalarShape0 s = s ∧ xyScalarShape1 s = s ∧ xyDxOfDiameter d m n * ((max m n : Int) : Rat) = d := by
  refine ⟨?_, ?_, ?_⟩
  · (try simp only [xyScalarShape0]) <;> omega
  · (try simp only [xyScalarShape1]) <;> omega
  · have h : ((max m n : Int) : Rat) ≠ 0 := by
      have : (1 : Int) ≤ max m n := le_trans hm (le_max_left m n)
      have : (0 : Int) < max m n := by omega
      exact_mod_cast this.ne'
    simp only [xyDxOfDiameter, Model.C04.dxOfDiameter]
    field_simp

/-- translated grid samples = the model run by the driver -/
theorem gen_grid (m n : Int) (dx : Rat) (i j : Int) :
    gridX m n dx i j = Model.C04.gridX m n dx i j ∧ gridY m n dx i j = Model.C04.gridY m n dx i j := by
  obtain ⟨hx, hy, _, _⟩ := grid_values m n dx i j
  constructor
  · rw [hx]; simp only [Model.C04.gridX, Model.C04.gridElem, fftrange_sampleM]
  · rw [hy]; simp only [Model.C04.gridY, Model.C04.gridElem, fftrange_sampleM]

/-! ## frequency axis (`forward_ft_unit`, composed of NumPy's own `fftfreq` / `fftshift` constants) -/

/-- NumPy's translated `fftfreq` split point / segment starts and `fftshift` roll amount, in closed form -/
theorem np_consts (n : Int) :
    npFftfreqSplit n = (n + 1) / 2 ∧ npFftfreqP1Lo n = 0 ∧ npFftfreqP2Lo n = -(n / 2) ∧ npFftshiftBy n = n / 2 := by
  refine ⟨?_, ?_, ?_, ?_⟩ <;>
    (try simp only [npFftfreqSplit, npFftfreqP1Lo, npFftfreqP2Lo, npFftshiftBy, Model.C04.npFftfreqSplit,
      Model.C04.npFftfreqP1Lo, Model.C04.npFftfreqP2Lo, Model.C04.npFftshiftBy]) <;> omega

/-- `fftshift(fftfreq(n, dx))` (in units of `1/(n·dx)`): sample `i` is `i - n // 2` — zero at `n // 2`, unit step -/
theorem ftunit_zero_at_origin (n i : Int) (h0 : 0 ≤ i) (hi : i < n) : ftUnitNum true n i = i - n / 2 := by
  obtain ⟨hs, h1, h2, hb⟩ := np_consts n
  simp only [ftUnitNum, if_true, Model.C04.ftUnitNumS, Model.C04.ftUnitNum, Model.C04.fftfreqNum,
    Model.C04.fftshiftSrc, Model.C04.fftfreqOf, Model.C04.rollSrc, hs, h1, h2, hb]
  by_cases hc : i < n / 2
  · have e : (i - n / 2) % n = i - n / 2 + n := by
      rw [← Int.add_emod_right]
      exact Int.emod_eq_of_lt (by omega) (by omega)
    simp only [e]; split <;> omega
  · have e : (i - n / 2) % n = i - n / 2 := Int.emod_eq_of_lt (by omega) (by omega)
    simp only [e]; split <;> omega

example : ftUnitNum true 7 3 = 0 ∧ ftUnitNum true 8 4 = 0 := by decide

/-- `forward_ft_unit(shift=False)`: zero frequency at index 0, non-negative half first, then the negative half
(the un-shifted layout of the same axis: sample `i` of the shifted axis sits at `(i - n//2) mod n`) -/
theorem ftunit_unshifted (n i : Int) (h0 : 0 ≤ i) (hi : i < n) :
    ftUnitNum false n 0 = 0 ∧ ftUnitNum false n i = (if i < (n + 1) / 2 then i else i - n) := by
  obtain ⟨hs, h1, h2, hb⟩ := np_consts n
  constructor <;>
    (try simp only [ftUnitNum, Bool.false_eq_true, if_false, Model.C04.ftUnitNumS, Model.C04.fftfreqNum,
      Model.C04.fftfreqOf, hs, h1, h2]) <;> split <;> omega

example : ftUnitNum false 7 0 = 0 ∧ ftUnitNum false 7 4 = -3 := by decide

/-- the translated frequency axis = the model run by the driver (both layouts) -/
theorem gen_ftunit (n i : Int) (h0 : 0 ≤ i) (hi : i < n) (shift : Bool) :
    ftUnitNum shift n i = Model.C04.ftUnitNumS shift n i := by
  have hm : Model.C04.ftUnitNum n i = i - n / 2 := by
    unfold Model.C04.ftUnitNum Model.C04.fftfreqNum Model.C04.fftshiftSrc
    by_cases hc : i < n / 2
    · have e : (i - n / 2) % n = i - n / 2 + n := by
        rw [← Int.add_emod_right]
        exact Int.emod_eq_of_lt (by omega) (by omega)
      simp only [e]; split <;> omega
    · have e : (i - n / 2) % n = i - n / 2 := Int.emod_eq_of_lt (by omega) (by omega)
      simp only [e]; split <;> omega
  cases shift
  · rw [(ftunit_unshifted n i h0 hi).2]; simp only [Model.C04.ftUnitNumS, Model.C04.fftfreqNum]; rfl
  · rw [ftunit_zero_at_origin n i h0 hi]; simp only [Model.C04.ftUnitNumS, if_true, hm]

/-- FFT-route propagation (`focus`, `unfocus`): the roll applied before the FFT brings the origin sample `n // 2` to FFT
index 0, and the roll applied after it puts the zero-frequency bin on index `n // 2` — for odd and even `n` -/
theorem fft_route_origin (n : Int) (hn : 1 ≤ n) :
    Model.C04.rollSrc n (focusPre n) 0 = n / 2 ∧ Model.C04.rollSrc n (focusPost n) (n / 2) = 0 ∧
    Model.C04.rollSrc n (unfocusPre n) 0 = n / 2 ∧ Model.C04.rollSrc n (unfocusPost n) (n / 2) = 0 := by
  have hb : npFftshiftBy n = n / 2 := (np_consts n).2.2.2
  have hi : npIfftshiftBy n = -(n / 2) := by
    (try simp only [npIfftshiftBy, Model.C04.npIfftshiftBy]) <;> omega
  have hbM : Model.C04.npFftshiftBy n = n / 2 := rfl
  have hiM : Model.C04.npIfftshiftBy n = -(n / 2) := rfl
  have e1 : (0 - -(n / 2)) % n = n / 2 := by
    rw [zero_sub, neg_neg]; exact Int.emod_eq_of_lt (by omega) (by omega)
  have e2 : (n / 2 - n / 2) % n = 0 := by simp
  refine ⟨?_, ?_, ?_, ?_⟩ <;>
    simp only [focusPre, focusPost, unfocusPre, unfocusPost, Model.C04.rollSrc, hb, hi, hbM, hiM, e1, e2]

example : Model.C04.rollSrc 7 (focusPre 7) 0 = 3 ∧ Model.C04.rollSrc 7 (focusPost 7) 3 = 0 := by decide

/-! ## pad and crop -/

/-- padding moves the origin sample onto the origin of the new array (every parity) -/
theorem pad_origin (n N : Int) (_h0 : 0 ≤ n) (_h : n ≤ N) : padBefore n N + n / 2 = N / 2 := by
  (try simp only [padBefore, Model.C04.padBefore]) <;> omega

example : padBefore 4 7 + 4 / 2 = 7 / 2 := by decide

/-- padding only adds samples: the two pad widths are non-negative and add up -/
theorem pad_widths (n N : Int) (_h0 : 0 ≤ n) (h : n ≤ N) :
    0 ≤ padBefore n N ∧ 0 ≤ padAfter n N ∧ padBefore n N + n + padAfter n N = N := by
  refine ⟨?_, ?_, ?_⟩ <;> (try simp only [padBefore, padAfter, Model.C04.padBefore, Model.C04.padAfter]) <;> omega

/-- the constant-mode block `[lo, hi)` lies inside the new array, has the input's length and carries the origin
sample to index `N // 2` -/
theorem pad_slice_in_bounds (n N : Int) (_h0 : 0 ≤ n) (h : n ≤ N) :
    0 ≤ padSliceLo n N ∧ padSliceHi n N ≤ N ∧ padSliceHi n N - padSliceLo n N = n ∧
    padSliceLo n N + n / 2 = N / 2 := by
  refine ⟨?_, ?_, ?_, ?_⟩ <;> (try simp only [padSliceLo, padSliceHi, Model.C04.padBefore]) <;> omega

/-- cropping moves the origin sample onto the origin of the new array and stays in bounds -/
theorem crop_origin (n N : Int) (_h0 : 0 ≤ N) (h : N ≤ n) :
    n / 2 - cropLo n N = N / 2 ∧ 0 ≤ cropLo n N ∧ cropHi n N ≤ n ∧ cropHi n N - cropLo n N = N := by
  refine ⟨?_, ?_, ?_, ?_⟩ <;> (try simp only [cropLo, cropHi, Model.C04.cropLeft]) <;> omega

example : (7 : Int) / 2 - cropLo 7 4 = 4 / 2 := by decide

/-- crop undoes pad exactly: same offset in both branches of pad2d, any fill, any mode -/
theorem crop_pad_id (n N : Int) : cropLo N n = padBefore n N ∧ cropLo N n = padSliceLo n N := by
  constructor <;> (try simp only [cropLo, padBefore, padSliceLo, Model.C04.cropLeft, Model.C04.padBefore]) <;> omega

/-- 2-D, per-axis different lengths `(n₀→N₀, n₁→N₁)`: the origin sample `(n₀//2, n₁//2)` of the input is what the
padded array holds at its origin `(N₀//2, N₁//2)` -/
theorem pad2_origin (n0 n1 N0 N1 : Int) (h0 : 1 ≤ n0) (h1 : 1 ≤ n1) (g0 : n0 ≤ N0) (g1 : n1 ≤ N1) :
    pad2Src n0 n1 N0 N1 (N0 / 2) (N1 / 2) = some (n0 / 2, n1 / 2) := by
  obtain ⟨a0, a1, a2, a3⟩ := pad_slice_in_bounds n0 N0 (by omega) g0
  obtain ⟨b0, b1, b2, b3⟩ := pad_slice_in_bounds n1 N1 (by omega) g1
  unfold pad2Src
  rw [if_pos (by omega)]
  congr 2 <;> omega

example : pad2Src 4 3 7 8 (7 / 2) (8 / 2) = some (4 / 2, 3 / 2) := by decide

/-- 2-D crop: the output origin `(N₀//2, N₁//2)` is the input origin `(n₀//2, n₁//2)`; each axis uses its own pair -/
theorem crop2_origin (n0 n1 N0 N1 : Int) (h0 : 0 ≤ N0) (h1 : 0 ≤ N1) (g0 : N0 ≤ n0) (g1 : N1 ≤ n1) :
    crop2Src n0 n1 N0 N1 (N0 / 2) (N1 / 2) = (n0 / 2, n1 / 2) := by
  obtain ⟨a, _, _, _⟩ := crop_origin n0 N0 h0 g0
  obtain ⟨b, _, _, _⟩ := crop_origin n1 N1 h1 g1
  unfold crop2Src
  congr 1 <;> omega

/-- 2-D `crop_center(pad2d(x)) = x` sample for sample, per-axis different targets, every parity -/
theorem crop2_pad2_roundtrip (n0 n1 N0 N1 i j : Int) (hi0 : 0 ≤ i) (hi : i < n0) (hj0 : 0 ≤ j) (hj : j < n1)
    (g0 : n0 ≤ N0) (g1 : n1 ≤ N1) :
    pad2Src n0 n1 N0 N1 (crop2Src N0 N1 n0 n1 i j).1 (crop2Src N0 N1 n0 n1 i j).2 = some (i, j) := by
  obtain ⟨a0, a1, a2, a3⟩ := pad_slice_in_bounds n0 N0 (by omega) g0
  obtain ⟨b0, b1, b2, b3⟩ := pad_slice_in_bounds n1 N1 (by omega) g1
  obtain ⟨_, c0⟩ := crop_pad_id n0 N0
  obtain ⟨_, c1⟩ := crop_pad_id n1 N1
  unfold pad2Src crop2Src
  simp only []
  rw [if_pos (by omega)]
  congr 2 <;> omega

/-- 1-D index-map form of the round trip over the driver-executed hand model -/
theorem crop_pad_roundtrip (n N i : Int) (h0 : 0 ≤ i) (hi : i < n) :
    Model.C04.padSrc n N (Model.C04.cropSrc N n i) = some i := by
  unfold Model.C04.padSrc Model.C04.cropSrc Model.C04.cropLeft Model.C04.padBefore
  split
  · congr 1; omega
  · omega

/-- a shrinking request handed to `pad2d` cannot be served: any block cut out of an axis of length `N < n` is
shorter than the `n` input samples (NumPy then refuses the assignment; the harness checks the `ValueError`) -/
theorem pad_shrink_impossible (n N lo hi : Int) (h : N < n) (h0 : 0 ≤ lo) (h1 : hi ≤ N) : hi - lo ≠ n := by
  omega

/-- default padded length is `⌈n·Q⌉`, and `Q = 1` changes nothing -/
theorem padOutLen_ceil (n : Int) (Q : Rat) : padOutLen n Q = ((⌈(n : Rat) * Q⌉ : Int) : Rat) := by
  rw [gen_padOutLen]; simp only [Model.C04.padOutLen, Rat.ceil_eq_intCeil]

/-- `Q = 1` keeps the length -/
theorem padOutLen_one (n : Int) : padOutLen n 1 = n := by
  rw [padOutLen_ceil]; simp

/-! ## slices of a data set -/

/-- `RichData.x` is the first, `.y` the second array of `make_xy_grid(data.shape, dx=dx)`, and `slices()` hands
row 0 of `x` / column 0 of `y` to `Slices` -/
theorem rich_vectors (m n : Int) (dx : Rat) (k : Int) :
    slicesXVec (richX m n dx) (richY m n dx) k = ((k - n / 2 : Int) : Rat) * dx ∧
    slicesYVec (richX m n dx) (richY m n dx) k = ((k - m / 2 : Int) : Rat) * dx := by
  constructor <;>
    simp only [slicesXVec, slicesYVec, Model.C04.slicesXVec, Model.C04.slicesYVec, richX, richY,
      (grid_values m n dx _ _).1, (grid_values m n dx _ _).2.1]

/-- any argmin of `|(k − len//2)·dx|` with `dx ≠ 0` is `len//2` (floating-point scaling by `dx` cannot move it) -/
theorem argmin_scaled (am : (Int → Rat) → Int → Int) (ham : IsArgminAbs am) (len : Int) (hl : 1 ≤ len)
    (dx : Rat) (hdx : dx ≠ 0) (v : Int → Rat) (hv : ∀ k, v k = ((k - len / 2 : Int) : Rat) * dx) :
    am v len = len / 2 := by
  obtain ⟨a0, a1, hmin⟩ := ham v len hl
  have h := hmin (len / 2) (by omega) (by omega)
  rw [hv (len / 2), hv (am v len)] at h
  simp only [sub_self, Int.cast_zero, zero_mul, abs_zero] at h
  have hz : ((am v len - len / 2 : Int) : Rat) * dx = 0 := abs_nonpos_iff.1 h
  rcases mul_eq_zero.1 hz with h | h
  · have : am v len - len / 2 = 0 := by exact_mod_cast h
    omega
  · exact absurd h hdx

/-- the slices of a data set pass through the origin sample: for every `np.argmin(abs(·))` meeting its
specification, every shape `m, n ≥ 1` and every spacing `dx ≠ 0`, the centre found by `Slices` is `(m//2, n//2)`;
the two-sided slices are row `m//2` / column `n//2` of the data, the one-sided ones start at the origin sample, and
the coordinate attached to the origin sample is exactly zero -/
theorem slices_through_origin {α : Type} (am : (Int → Rat) → Int → Int) (ham : IsArgminAbs am)
    (m n : Int) (hm : 1 ≤ m) (hn : 1 ≤ n) (dx : Rat) (hdx : dx ≠ 0) (src : Int → Int → α) :
    let xv := slicesXVec (richX m n dx) (richY m n dx)
    let yv := slicesYVec (richX m n dx) (richY m n dx)
    let cy := slicesCentreY am m n xv yv
    let cx := slicesCentreX am m n xv yv
    cy = m / 2 ∧ cx = n / 2 ∧
    (∀ k, sliceXTwo src cy cx k = src (m / 2) k) ∧ (∀ k, sliceYTwo src cy cx k = src k (n / 2)) ∧
    (∀ k, sliceXOne src cy cx k = src (m / 2) (n / 2 + k)) ∧ (∀ k, sliceYOne src cy cx k = src (m / 2 + k) (n / 2)) ∧
    sliceXTwoCoord xv yv cy cx (n / 2) = 0 ∧ sliceYTwoCoord xv yv cy cx (m / 2) = 0 ∧
    sliceXOneCoord xv yv cy cx 0 = 0 ∧ sliceYOneCoord xv yv cy cx 0 = 0 := by
  intro xv yv cy cx
  have hxv : ∀ k, xv k = ((k - n / 2 : Int) : Rat) * dx := fun k => (rich_vectors m n dx k).1
  have hyv : ∀ k, yv k = ((k - m / 2 : Int) : Rat) * dx := fun k => (rich_vectors m n dx k).2
  have hcy : cy = m / 2 := by
    simp only [cy, slicesCentreY, Model.C04.slicesCentreY]
    first
      | exact argmin_scaled am ham m hm dx hdx yv hyv
      | omega
  have hcx : cx = n / 2 := by
    simp only [cx, slicesCentreX, Model.C04.slicesCentreX]
    first
      | exact argmin_scaled am ham n hn dx hdx xv hxv
      | omega
  refine ⟨hcy, hcx, ?_, ?_, ?_, ?_, ?_, ?_, ?_, ?_⟩ <;>
    simp only [hcy, hcx, sliceXTwo, sliceYTwo, sliceXOne, sliceYOne, sliceXTwoCoord, sliceYTwoCoord, sliceXOneCoord,
      sliceYOneCoord, Model.C04.sliceXTwo, Model.C04.sliceYTwo, Model.C04.sliceXOne, Model.C04.sliceYOne,
      Model.C04.sliceXOneCoord, Model.C04.sliceYOneCoord, hxv, hyv, add_zero, sub_self, Int.cast_zero, zero_mul,
      implies_true]

/-- the argmin specification assumed by `slices_through_origin` is satisfiable -/
example : ∃ am, IsArgminAbs am := isArgminAbs_exists

/-! ## centroid -/

/-- the centroid reference is the origin sample -/
theorem centroid_ref (n : Int) : centroidRef n = n / 2 := by
  (try simp only [centroidRef, Model.C04.centroidRef]) <;> omega

/-- what `centroid` returns per axis: `dx·(com − n//2)` for `unit='spatial'`, the centre of mass itself otherwise -/
theorem centroid_return (dx com : Rat) (n : Int) :
    centroidSpatialElem dx com n = dx * (com - ((n / 2 : Int) : Rat)) ∧ centroidPixelsElem com n = com := by
  constructor <;>
    (try simp only [centroidSpatialElem, centroidPixelsElem, Model.C04.centroidSpatial, centroid_ref,
      ← gen_centroid]) <;> ring

/-- translated spatial centroid component = the model run by the driver -/
theorem gen_centroid_return (dx com : Rat) (n : Int) :
    centroidSpatialElem dx com n = Model.C04.centroidSpatial dx com n := by
  rw [(centroid_return dx com n).1]; simp only [Model.C04.centroidSpatial, Model.C04.centroidRef]

/-- a point source at row `p`, column `q` of an `m × n` array (`k = p − m//2`, `l = q − n//2` samples from the origin)
is reported at `(k·dx, l·dx)`, in (row, column) order, and at `(p, q)` in pixel units; the centre of mass is the
first moment over the total (SciPy's `center_of_mass`, trusted to compute exactly that) -/
theorem centroid_of_point_source (m n p q : ℕ) (hp : p < m) (hq : q < n) (c : ℚ) (hc : c ≠ 0) (dx : ℚ) :
    centroidSpatialElem dx (comY (delta p q c) m n) m = (((p : Int) - (m : Int) / 2 : Int) : ℚ) * dx ∧
    centroidSpatialElem dx (comX (delta p q c) m n) n = (((q : Int) - (n : Int) / 2 : Int) : ℚ) * dx ∧
    centroidPixelsElem (comY (delta p q c) m n) m = p ∧ centroidPixelsElem (comX (delta p q c) m n) n = q := by
  obtain ⟨hy, hx⟩ := com_delta m n p q hp hq c hc
  refine ⟨?_, ?_, ?_, ?_⟩
  · rw [(centroid_return _ _ _).1, hy]; push_cast; ring
  · rw [(centroid_return _ _ _).1, hx]; push_cast; ring
  · rw [(centroid_return dx _ _).2, hy]
  · rw [(centroid_return dx _ _).2, hx]

/-- the centre-of-mass hypothesis is met by a concrete point source -/
example : comY (delta 1 2 3) 3 4 = 1 ∧ comX (delta 1 2 3) 3 4 = 2 :=
  com_delta 3 4 1 2 (by decide) (by decide) 3 (by norm_num)

/-! ## compositions: one convention means pads compose with pads, crops with crops, and the two shifts invert each other -/

/-- padding `n → N` and then `N → P` places the data exactly where the single pad `n → P` does (any parities) -/
theorem pad_pad_compose (n N P : Int) :
    padBefore n N + padBefore N P = padBefore n P ∧ padSliceLo n N + padSliceLo N P = padSliceLo n P := by
  constructor <;> (try simp only [padBefore, padSliceLo, Model.C04.padBefore]) <;> omega

/-- cropping `n → N` and then `N → P` keeps exactly the block the single crop `n → P` keeps -/
theorem crop_crop_compose (n N P : Int) : cropLo n N + cropLo N P = cropLo n P := by
  (try simp only [cropLo, Model.C04.cropLeft]) <;> omega

/-- `pad2d(crop_center(x))` agrees with `x` on the block: a padded sample that comes from input sample `(a, b)` is
in range, and the crop of the same pair of shapes reads it back from where the pad wrote it -/
theorem pad2_src_in_range (n0 n1 N0 N1 i j a b : Int) (h : pad2Src n0 n1 N0 N1 i j = some (a, b)) :
    0 ≤ a ∧ a < n0 ∧ 0 ≤ b ∧ b < n1 ∧ crop2Src N0 N1 n0 n1 a b = (i, j) := by
  obtain ⟨_, c0⟩ := crop_pad_id n0 N0
  obtain ⟨_, c1⟩ := crop_pad_id n1 N1
  obtain ⟨_, e0⟩ := gen_pad_slice n0 N0
  obtain ⟨_, e1⟩ := gen_pad_slice n1 N1
  obtain ⟨f0, _⟩ := gen_pad_slice n0 N0
  obtain ⟨f1, _⟩ := gen_pad_slice n1 N1
  unfold pad2Src at h
  split at h
  · rename_i hc
    simp only [Option.some.injEq, Prod.mk.injEq] at h
    obtain ⟨ha, hb⟩ := h
    refine ⟨by omega, by omega, by omega, by omega, ?_⟩
    unfold crop2Src
    congr 1 <;> omega
  · exact absurd h (by simp)

example : pad2Src 4 3 7 8 2 3 = some (1, 0) := by decide

/-- outside the written block a constant-mode pad holds the fill value: no input sample is mapped there -/
theorem pad2_src_none (n0 n1 N0 N1 i j : Int)
    (h : i < padSliceLo n0 N0 ∨ padSliceHi n0 N0 ≤ i ∨ j < padSliceLo n1 N1 ∨ padSliceHi n1 N1 ≤ j) :
    pad2Src n0 n1 N0 N1 i j = none := by
  unfold pad2Src
  rw [if_neg (by omega)]

example : pad2Src 4 3 7 8 0 0 = none := by decide

/-- the frequency axis and the coordinate axis share one index convention: numerator `i` of
`forward_ft_unit(dx, n)` is sample `i` of `fftrange(n)` -/
theorem ftunit_eq_fftrange (n i : Int) (h0 : 0 ≤ i) (hi : i < n) : ftUnitNum true n i = fftrangeLo n + i := by
  rw [ftunit_zero_at_origin n i h0 hi, fftrange_sample]

example : ftUnitNum true 7 0 = fftrangeLo 7 + 0 := by decide

/-- `ifftshift` undoes `fftshift` and vice versa on every axis length (odd lengths included, where the two differ) -/
theorem shift_roundtrip (n i : Int) (h0 : 0 ≤ i) (hi : i < n) :
    Model.C04.rollSrc n (npFftshiftBy n) (Model.C04.rollSrc n (npIfftshiftBy n) i) = i ∧
    Model.C04.rollSrc n (npIfftshiftBy n) (Model.C04.rollSrc n (npFftshiftBy n) i) = i := by
  have hb : npFftshiftBy n = n / 2 := (np_consts n).2.2.2
  have hi' : npIfftshiftBy n = -(n / 2) := by
    (try simp only [npIfftshiftBy, Model.C04.npIfftshiftBy]) <;> omega
  have e : i % n = i := Int.emod_eq_of_lt h0 hi
  constructor
  · simp only [Model.C04.rollSrc, hb, hi']
    rw [Int.emod_sub_emod]
    have : i - -(n / 2) - n / 2 = i := by omega
    rw [this, e]
  · simp only [Model.C04.rollSrc, hb, hi']
    rw [Int.emod_sub_emod]
    have : i - n / 2 - -(n / 2) = i := by omega
    rw [this, e]

example : Model.C04.rollSrc 5 (npFftshiftBy 5) (Model.C04.rollSrc 5 (npIfftshiftBy 5) 4) = 4 := by decide

/-! ## windows and lengths derived from the convention elsewhere: `autocrop`, `estimate_size`, `support`, `fourier_resample` -/

/-- `psf.autocrop(data, px)`: the window has the requested full width `px` on both axes and the centroid sample lands
on the origin sample `px // 2` of the window; axis 0 follows the row centroid, axis 1 the column centroid -/
theorem autocrop_window (c0 c1 px : Int) :
    autocropHi0 c0 c1 px - autocropLo0 c0 c1 px = px ∧ c0 - autocropLo0 c0 c1 px = px / 2 ∧
    autocropHi1 c0 c1 px - autocropLo1 c0 c1 px = px ∧ c1 - autocropLo1 c0 c1 px = px / 2 := by
  refine ⟨?_, ?_, ?_, ?_⟩ <;>
    (try simp only [autocropLo0, autocropHi0, autocropLo1, autocropHi1, Model.C04.autocropLo, Model.C04.autocropHi]) <;> omega

/-- translated `autocrop` window = the model run by the driver -/
theorem gen_autocrop (c0 c1 px : Int) :
    autocropLo0 c0 c1 px = Model.C04.autocropLo c0 px ∧ autocropHi0 c0 c1 px = Model.C04.autocropHi c0 px ∧
    autocropLo1 c0 c1 px = Model.C04.autocropLo c1 px ∧ autocropHi1 c0 c1 px = Model.C04.autocropHi c1 px := by
  obtain ⟨a, b, c, d⟩ := autocrop_window c0 c1 px
  refine ⟨?_, ?_, ?_, ?_⟩ <;> simp only [Model.C04.autocropLo, Model.C04.autocropHi] <;> omega

/-- an `autocrop` window is the `crop_center` window when the centroid sits on the origin sample -/
theorem autocrop_is_crop_at_origin (n px : Int) : autocropLo0 (n / 2) (n / 2) px = cropLo n px := by
  rw [(gen_autocrop _ _ _).1, (gen_crop n px).1]; simp only [Model.C04.autocropLo, Model.C04.cropLeft]

/-- `estimate_size(data, dx=dx)` (fwhm, 1/e, 1/e²) measures radii on the vectors of `make_xy_grid(data.shape, dx, grid=False)`:
x from the column count, y from the row count, zero on sample `n // 2` (semantic: holds for `fftrange(s)*dx`,
`(arange(s) - s//2)*dx`, `arange(-(s//2), s - s//2)*dx` and other equivalent spellings alike) -/
theorem estimate_size_grid (m n : Int) (dx : Rat) (k : Int) :
    estSizeX m n dx k = vecX m n dx k ∧ estSizeY m n dx k = vecY m n dx k ∧
    estSizeX m n dx (n / 2) = 0 ∧ estSizeY m n dx (m / 2) = 0 := by
  obtain ⟨_, _, hx, hy⟩ := grid_values m n dx k k
  have ex : ∀ k, estSizeX m n dx k = ((k - n / 2 : Int) : Rat) * dx := by
    intro k
    simp only [estSizeX, Model.C04.vecX, Model.C04.gridElem, fftrange_sample, fftrange_sampleM, rat_floor_half] <;>
      (try push_cast) <;> (try ring)
  have ey : ∀ k, estSizeY m n dx k = ((k - m / 2 : Int) : Rat) * dx := by
    intro k
    simp only [estSizeY, Model.C04.vecY, Model.C04.gridElem, fftrange_sample, fftrange_sampleM, rat_floor_half] <;>
      (try push_cast) <;> (try ring)
  refine ⟨by rw [ex, hx], by rw [ey, hy], ?_, ?_⟩
  · rw [ex]; simp
  · rw [ey]; simp

/-- `RichData.support_x` is the column count times `dx`, `support_y` the row count times `dx`; it is the extent of
the coordinate vector plus one sample -/
theorem support_axes (m n : Int) (dx : Rat) :
    supportX m n dx = (n : Rat) * dx ∧ supportY m n dx = (m : Rat) * dx ∧
    vecX m n dx (n - 1) - vecX m n dx 0 + dx = supportX m n dx ∧
    vecY m n dx (m - 1) - vecY m n dx 0 + dx = supportY m n dx := by
  have hx : supportX m n dx = (n : Rat) * dx := by
    (try simp only [supportX, Model.C04.supportX]) <;> ring
  have hy : supportY m n dx = (m : Rat) * dx := by
    (try simp only [supportY, Model.C04.supportY]) <;> ring
  refine ⟨hx, hy, ?_, ?_⟩
  · rw [hx, (grid_values m n dx 0 (n - 1)).2.2.1, (grid_values m n dx 0 0).2.2.1]; push_cast; ring
  · rw [hy, (grid_values m n dx (m - 1) 0).2.2.2, (grid_values m n dx 0 0).2.2.2]; push_cast; ring

/-- `fourier_resample`: the shift applied before the FFT brings the origin sample `n // 2` to FFT index 0, the one after
it puts the zero-frequency bin on `n // 2` (the spectrum handed to the matrix DFT is centred), and axis `k` of the
output has `⌊shape[k] · zoom[k]⌋` samples (`int(..)` / `math.floor(..)` of a non-negative product, either factor order) -/
theorem resample_origin (n : Int) (hn : 1 ≤ n) (m' n' : Int) (z0 z1 : Rat)
    (h0 : 0 ≤ (m' : Rat) * z0) (h1 : 0 ≤ (n' : Rat) * z1) :
    Model.C04.rollSrc n (resamplePre n) 0 = n / 2 ∧ Model.C04.rollSrc n (resamplePost n) (n / 2) = 0 ∧
    resampleOut0 m' n' z0 z1 = ((⌊(m' : Rat) * z0⌋ : Int) : Rat) ∧ resampleOut1 m' n' z0 z1 = ((⌊(n' : Rat) * z1⌋ : Int) : Rat) ∧
    resampleOut0 m' n' z0 z1 = Model.C04.resampleOut m' z0 ∧ resampleOut1 m' n' z0 z1 = Model.C04.resampleOut n' z1 := by
  have hb : npFftshiftBy n = n / 2 := (np_consts n).2.2.2
  have hi : npIfftshiftBy n = -(n / 2) := by
    (try simp only [npIfftshiftBy, Model.C04.npIfftshiftBy]) <;> omega
  have hbM : Model.C04.npFftshiftBy n = n / 2 := rfl
  have hiM : Model.C04.npIfftshiftBy n = -(n / 2) := rfl
  have e1 : (0 - -(n / 2)) % n = n / 2 := by
    rw [zero_sub, neg_neg]; exact Int.emod_eq_of_lt (by omega) (by omega)
  have e2 : (n / 2 - n / 2) % n = 0 := by simp
  have h0' : 0 ≤ z0 * (m' : Rat) := by rw [mul_comm]; exact h0
  have h1' : 0 ≤ z1 * (n' : Rat) := by rw [mul_comm]; exact h1
  have o0 : resampleOut0 m' n' z0 z1 = ((⌊(m' : Rat) * z0⌋ : Int) : Rat) := by
    first
      | (simp only [resampleOut0, Model.C04.resampleOut]; rw [pyTruncRat_nonneg _ h0])
      | (simp only [resampleOut0]; rw [pyTruncRat_nonneg _ h0', mul_comm])
      | (simp only [resampleOut0, Rat.floor_eq_intFloor])
      | (simp only [resampleOut0, Rat.floor_eq_intFloor, mul_comm z0])
  have o1 : resampleOut1 m' n' z0 z1 = ((⌊(n' : Rat) * z1⌋ : Int) : Rat) := by
    first
      | (simp only [resampleOut1, Model.C04.resampleOut]; rw [pyTruncRat_nonneg _ h1])
      | (simp only [resampleOut1]; rw [pyTruncRat_nonneg _ h1', mul_comm])
      | (simp only [resampleOut1, Rat.floor_eq_intFloor])
      | (simp only [resampleOut1, Rat.floor_eq_intFloor, mul_comm z1])
  refine ⟨?_, ?_, o0, o1, ?_, ?_⟩
  · simp only [resamplePre, Model.C04.rollSrc, hb, hi, hbM, hiM, e1, e2]
  · simp only [resamplePost, Model.C04.rollSrc, hb, hi, hbM, hiM, e1, e2]
  · rw [o0]; simp only [Model.C04.resampleOut]; rw [pyTruncRat_nonneg _ h0]
  · rw [o1]; simp only [Model.C04.resampleOut]; rw [pyTruncRat_nonneg _ h1]

/-- the hypotheses of `resample_origin` hold for every positive zoom (here 9 × 3/2) -/
example : (0 : Rat) ≤ ((9 : Int) : Rat) * (3 / 2) := by norm_num

example : Model.C04.rollSrc 7 (resamplePre 7) 0 = 3 ∧ Model.C04.rollSrc 7 (resamplePost 7) 3 = 0 := by decide

/-- zero padding does not move the spatial centroid of ANY data with non-zero total (not only a point source): the
centre of mass moves by the pad offset, the reference index moves from `m // 2` to `M // 2`, and the two cancel for
every parity combination — `centroid(pad2d(d), dx) = centroid(d, dx)` -/
theorem centroid_pad_invariant (d : ℕ → ℕ → ℚ) (m n M N lo0 lo1 : ℕ) (hm : m ≤ M) (hn : n ≤ N)
    (hl0 : (lo0 : Int) = padSliceLo m M) (hl1 : (lo1 : Int) = padSliceLo n N)
    (ht : ∑ i ∈ Finset.range m, ∑ j ∈ Finset.range n, d i j ≠ 0) (dx : ℚ) :
    centroidSpatialElem dx (comY (padded d m n lo0 lo1) M N) M = centroidSpatialElem dx (comY d m n) m ∧
    centroidSpatialElem dx (comX (padded d m n lo0 lo1) M N) N = centroidSpatialElem dx (comX d m n) n := by
  obtain ⟨a0, a1, a2, a3⟩ := pad_slice_in_bounds (m : Int) (M : Int) (by omega) (by exact_mod_cast hm)
  obtain ⟨b0, b1, b2, b3⟩ := pad_slice_in_bounds (n : Int) (N : Int) (by omega) (by exact_mod_cast hn)
  have h0 : lo0 + m ≤ M := by
    have : (lo0 : Int) + m ≤ M := by omega
    exact_mod_cast this
  have h1 : lo1 + n ≤ N := by
    have : (lo1 : Int) + n ≤ N := by omega
    exact_mod_cast this
  obtain ⟨hy, hx⟩ := com_padded d m n M N lo0 lo1 h0 h1 ht
  have c0 : ((((M : Int) / 2 : Int)) : ℚ) = (lo0 : ℚ) + ((((m : Int) / 2 : Int)) : ℚ) := by
    have : (M : Int) / 2 = (lo0 : Int) + (m : Int) / 2 := by omega
    rw [this]; push_cast; ring
  have c1 : ((((N : Int) / 2 : Int)) : ℚ) = (lo1 : ℚ) + ((((n : Int) / 2 : Int)) : ℚ) := by
    have : (N : Int) / 2 = (lo1 : Int) + (n : Int) / 2 := by omega
    rw [this]; push_cast; ring
  constructor
  · rw [(centroid_return _ _ _).1, (centroid_return _ _ _).1, hy, c0]; ring
  · rw [(centroid_return _ _ _).1, (centroid_return _ _ _).1, hx, c1]; ring

/-- the hypotheses of `centroid_pad_invariant` are met by a concrete pad (3×3 → 6×7, even and odd targets) -/
example : ((2 : ℕ) : Int) = padSliceLo (3 : ℕ) (6 : ℕ) ∧ ((2 : ℕ) : Int) = padSliceLo (3 : ℕ) (7 : ℕ) ∧
    ∑ i ∈ Finset.range 3, ∑ j ∈ Finset.range 3, delta 1 1 3 i j ≠ 0 := by
  refine ⟨by decide, by decide, ?_⟩
  rw [show (∑ i ∈ Finset.range 3, ∑ j ∈ Finset.range 3, delta 1 1 3 i j) = 3 from by
    simpa using sum_delta (fun _ _ => 1) 3 3 1 1 (by decide) (by decide) 3]
  norm_num

/-! ## members derived from the coordinates -/

/-- `RichData.r` / `.t` are the first / second result of `cart_to_polar(x = self.x, y = self.y)`; the polar cache of `Slices`
(azimuthal statistics) is `uniform_cart_to_polar(x = self._x, y = self._y, data = self._source)`; `exact_x` / `exact_y`
interpolate the (coordinates, values) pair of the x / y slice; `exact_xy` builds and queries its interpolator in
(y, x) = (row, column) order (argument bindings read off the calls, keyword or positional) -/
theorem gen_structure_derived :
    richPolarBinds = true ∧ slicesPolarBinds = true ∧ exact1dBinds = true ∧ exact2dBinds = true := by
  decide

/-- `propagation.focus` / `unfocus` pad with `fttools.pad2d(array = wavefunction, Q = Q)` before the centred FFT, so the
padded route inherits `pad_origin` and `fft_route_origin` -/
theorem gen_structure_focus_pad : focusPadBinds = true := by
  decide

/-- user-assigned coordinates: when the coordinate vector is `(k − c0)·dx` for ANY in-range `c0` (not only `len // 2`) and
`dx ≠ 0`, every argmin meeting its specification is `c0` — `Slices` follows the zero of the coordinates it is given -/
theorem slices_follow_user_origin (am : (Int → Rat) → Int → Int) (ham : IsArgminAbs am) (len c0 : Int)
    (h0 : 0 ≤ c0) (h1 : c0 < len) (dx : Rat) (hdx : dx ≠ 0) (v : Int → Rat)
    (hv : ∀ k, v k = ((k - c0 : Int) : Rat) * dx) : am v len = c0 := by
  obtain ⟨a0, a1, hmin⟩ := ham v len (by omega)
  have h := hmin c0 h0 h1
  rw [hv c0, hv (am v len)] at h
  simp only [sub_self, Int.cast_zero, zero_mul, abs_zero] at h
  have hz : ((am v len - c0 : Int) : Rat) * dx = 0 := abs_nonpos_iff.1 h
  rcases mul_eq_zero.1 hz with h | h
  · have : am v len - c0 = 0 := by exact_mod_cast h
    omega
  · exact absurd h hdx

/-- the hypotheses of `slices_follow_user_origin` are satisfiable (an argmin exists; `c0 = 2`, `len = 5`, `dx = 1/2`) -/
example : ∃ am, IsArgminAbs am ∧ (0 : Int) ≤ 2 ∧ (2 : Int) < 5 ∧ ((1 : Rat) / 2) ≠ 0 := by
  obtain ⟨am, h⟩ := isArgminAbs_exists
  exact ⟨am, h, by decide, by decide, by norm_num⟩

/-! ## polar resampling: which array axis is rho -/

/-- the polar array of `uniform_cart_to_polar` has phi along one axis and rho along the other (as laid out by its
`meshgrid`), rho has `len(x)` and phi `len(y)` samples; every azimuthal statistic of `Slices` (`azavg`, `azmedian`,
`azmin`, `azmax`, `azpv`, `azvar`, `azstd`) reduces over the phi axis, so its result pairs with the rho coordinates; and
`estimate_size` searches (argmax, length, reversal) along the rho axis -/
theorem polar_axes_consistent (m n : Int) :
    polarRhoAxis ≠ polarPhiAxis ∧ (polarRhoAxis = 0 ∨ polarRhoAxis = 1) ∧ (polarPhiAxis = 0 ∨ polarPhiAxis = 1) ∧
    polarRhoLen m n = n ∧ polarPhiLen m n = m ∧
    azReduceAxes = List.replicate 7 polarPhiAxis ∧ estSizeAxes = List.replicate 3 polarRhoAxis ∧
    polarRhoAxis = Model.C04.polarRhoAxis ∧ polarPhiAxis = Model.C04.polarPhiAxis := by
  refine ⟨by decide, by decide, by decide, ?_, ?_, by decide, by decide, by decide, by decide⟩ <;>
    (try simp only [polarRhoLen, polarPhiLen, Model.C04.polarRhoLen, Model.C04.polarPhiLen]) <;> omega

end C04
