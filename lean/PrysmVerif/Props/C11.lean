import PrysmVerif.Generated.C11
import PrysmVerif.Lemmas.C11Maps
import PrysmVerif.Lemmas.C11Py
import PrysmVerif.Lemmas.C11Real
import PrysmVerif.Lemmas.C11Sem
import PrysmVerif.Lemmas.C11Names
import Mathlib.Data.List.Nodup
import Mathlib.Data.List.Perm.Subperm
import Mathlib.Tactic.LinearCombination
import Mathlib.Data.Set.Function
/-!
# C11 — Zernike (Noll, Fringe, ANSI) and XY single-index conventions are bijections onto the valid orders

Every theorem quantifies over **every** index / every valid pair (no bound).  The subjects
`Generated.C11.*` are re-translated from the current prysm source on every run (whole function bodies,
including the list building of `noll_to_nm` and the `while` loops of `xy_j_to_mn`); the floating-point
`ceil(sqrt(.))` idioms are read as the exact integers they denote.  Section 3 proves that reading exact over the
reals, and — for a correctly rounded binary64 square root, arguments below 2^52 — exact for the rounded value as well;
what remains validated-only (correspondence run, harness/c11.py) is that NumPy's `sqrt` is correctly rounded and that
the integer-valued double arithmetic around it is exact.  Above 2^52 the real functions leave the convention
(first at Fringe j = 2^52+1), so "every index" below means: of the exact-arithmetic reading.

When a translator item is `untranslatable` its generated definition defers to `Model.C11`, the corresponding `gen_*`
obligation is closed by `rfl` and says nothing about the source (the run prints TIE-DEGRADED); the harness then
replaces the missing tie by a much wider execution sweep.

Section 1 (translated obligations): each generated definition equals the closed form of the convention
(`Model.C11.*`, written independently of the source) on the whole index set.
Section 2: the property, stated over the generated definitions.
-/
set_option linter.unusedTactic false
set_option linter.unreachableTactic false
set_option linter.unusedSimpArgs false

namespace C11
open Model.C11

/-! ## 1. translated obligations: generated definition = closed form, for all inputs in scope -/

/-- (pin, no content beyond the generated text) `mathops.sign` is `-1` below zero and `+1` otherwise; fails when the helper is edited -/
theorem gen_sign (x : Int) : Generated.C11.sign x = if x < 0 then -1 else 1 := by
  simp only [Generated.C11.sign]

/-- (pin, no content beyond the generated text) `mathops.is_odd` is the parity bit; fails when the helper is edited -/
theorem gen_isOdd (x : Int) : Generated.C11.isOdd x = x % 2 := by
  simp only [Generated.C11.isOdd]

/-- `ansi_j_to_nm` (exact square root) is the closed form, every `j ≥ 0` -/
theorem gen_ansiJToNm (j : Int) (hj : 0 ≤ j) : Generated.C11.ansiJToNm j = Model.C11.ansiJToNm j := by
  first
  | exact rfl
  | skip
    unfold Generated.C11.ansiJToNm Model.C11.ansiJToNm
    (try simp only [])
    rw [ansi_row_gen j hj] <;> first | ring1 | skip
    all_goals (refine Prod.ext ?_ ?_ <;> (try simp only []) <;> ring1)


/-- `nm_to_ansi_j` is `(n(n+2)+m)/2` with exact division on every valid pair -/
theorem gen_nmToAnsiJ (n m : Int) (h : Valid n m) : Generated.C11.nmToAnsiJ n m = Model.C11.nmToAnsiJ n m := by
  first
  | exact rfl
  | skip
    have e := ansi_formula n m h
    have eq : (2 : Rat) * (Model.C11.nmToAnsiJ n m : Rat) = (n : Rat) * (n + 2) + m := by exact_mod_cast e
    unfold Generated.C11.nmToAnsiJ
    (try simp only [])
    first
    | (apply Py.int_shift0; push_cast; linear_combination (-(1 : Rat) / 2) * eq)
    | (apply Py.int_shift; push_cast; linear_combination (-(1 : Rat) / 2) * eq)


/-- `fringe_to_nm` (exact square root, exact rational arithmetic) is the closed form, every `j` -/
theorem gen_fringeToNm (j : Int) : Generated.C11.fringeToNm j = Model.C11.fringeToNm j := by
  first
  | exact rfl
  | skip
    unfold Generated.C11.fringeToNm Model.C11.fringeToNm
    (try simp only [])
    generalize pyCeilSqrt j = c
    -- the position inside the block, `r = j - k² - 1` with `k = c - 1`
    rw [floor_eq_of _ (j - (c - 1) * (c - 1) - 1), modQ_eq_of _ _ (j - (c - 1) * (c - 1) - 1)]
    · first
      | (refine Prod.ext ?_ ?_ <;> (try simp only []) <;> (apply Py.int_shift0; push_cast; ring1))
      | -- `n` converted by `int()` before it is used for `m`: resolve the inner `int(..)` first
        (rw [Py.int_shift0 _ ((c - 1) + (j - (c - 1) * (c - 1) - 1) / 2) (by push_cast; ring1)]
         refine Prod.ext ?_ ?_ <;> (try simp only []) <;> first | rfl | ring1 | (apply Py.int_shift0; push_cast; ring1))
    all_goals first | (push_cast; ring1) | norm_num


/-- `nm_to_fringe` (exact rational arithmetic) is the closed form on every valid pair -/
theorem gen_nmToFringe (n m : Int) (h : Valid n m) : Generated.C11.nmToFringe n m = Model.C11.nmToFringe n m := by
  first
  | exact rfl
  | skip
    rcases valid_block n m h with ⟨hm, k, rfl⟩ | ⟨hm, k, rfl⟩
    · -- sine terms, m < 0
      rw [nmToFringe_neg k m hm]
      have f1 : ¬ (0 ≤ m) := by omega
      have f2 : ¬ (0 < m) := by omega
      have f3 : m ≤ 0 := by omega
      have f4 : ¬ (m = 0) := by omega
      have f5 : m ≠ 0 := f4
      unfold Generated.C11.nmToFringe
      simp only [Generated.C11.sign, hm, f1, f2, f3, f4, f5, ge_iff_le, gt_iff_lt, if_true, if_false, ne_eq,
        not_true_eq_false, not_false_eq_true]
      -- `int(X)` wherever it stands in the integer expression: X is the cast of the value that makes the goal true
      generalize hv : Py.int _ = v
      first
      | (have hz : v = (k + 1) * (k + 1) + 2 * m + 1 - 1 := by
           rw [← hv]; apply Py.int_shift0; push_cast; ring1
         rw [hz]; first | done | ring1)
      | (have hz : v = (k + 1) * (k + 1) + 2 * m + 1 := by
           rw [← hv]; apply Py.int_shift0; push_cast; ring1
         rw [hz]; first | done | ring1)
    · -- cosine terms and m = 0
      rw [nmToFringe_nonneg k m hm]
      have f1 : ¬ (m < 0) := by omega
      have f3 : ¬ (m ≤ -1) := by omega
      unfold Generated.C11.nmToFringe
      simp only [Generated.C11.sign, hm, f1, f3, ge_iff_le, if_true, if_false]
      generalize hv : Py.int _ = v
      first
      | (have hz : v = (k + 1) * (k + 1) - 2 * m - 1 := by
           rw [← hv]; apply Py.int_shift0; push_cast; ring1
         rw [hz]; first | done | ring1)
      | (have hz : v = (k + 1) * (k + 1) - 2 * m := by
           rw [← hv]; apply Py.int_shift0; push_cast; ring1
         rw [hz]; first | done | ring1)


/-- `noll_to_nm`: the list it builds is long enough (no IndexError, negative index in range) and the result is the closed form, every `j ≥ 1` -/
theorem gen_nollToNm (j : Int) (hj : 1 ≤ j) : Generated.C11.nollToNm j = some (Model.C11.nollToNm j) := by
  first
  | exact rfl
  | skip
    obtain ⟨n, p, hp0, hp1, hjp, hn, e⟩ := noll_decomp j hj
    rw [e]
    unfold Generated.C11.nollToNm
    have hoj : Generated.C11.isOdd j = j % 2 := rfl
    have hon : Generated.C11.isOdd n = n % 2 := rfl
    simp only []
    -- the row: ⌈(-1 + √(1 + 8j))/2⌉ - 1 = n, however the summands are written
    rw [noll_row_gen j hj] <;> first | ring1 | skip
    have hrow : ((triRoot (j - 1).toNat : Nat) : Int) + 1 - 1 = n := by omega
    simp only [hrow, hoj, hon]
    by_cases h0 : n = 0
    · subst h0
      have : p = 0 := by omega
      subst this
      simp
    · rw [if_neg h0]
      have hn0 : 0 ≤ n := by omega
      -- nseries = T(n+1), as `int(.../2)` or as `...//2`
      have hser2 : (n + 1) * (n + 2) / 2 = tri (n + 1) := by
        have : (n + 1) * (n + 1 + 1) = (n + 1) * (n + 2) := by ring
        unfold tri; rw [this]
      try (rw [int_tri_succ _ n (by push_cast; ring1)])
      try simp only [hser2]
      have hT := tri_succ n
      -- sign from the parity of j
      have hsign : (if ¬ (j % 2 = 0) then some (-1 : Int) else some 1) = some (if j % 2 = 1 then -1 else 1) := by
        rcases Int.emod_two_eq_zero_or_one j with h | h <;> simp [h]
      rcases Int.emod_two_eq_zero_or_one n with hpar | hpar
      · -- even row: [0, 2, 2, 4, 4, …]
        have h1 : ([0] : List Int) = tab gE 1 := by decide
        simp only [hpar, ne_eq, not_true_eq_false, if_false, if_true, Option.bind_some, hsign, h1]
        rw [forRange_traj' _ (fun i => tab gE (2 * i + 1)) _ (n / 2).toNat _ rfl rfl (fun i _ => by
          simp only [idx_tab_last, idx_append_last, Option.bind_some]
          congr 1
          apply tab_append2 <;> first | omega | (unfold gE; push_cast; omega))]
        simp only [Option.bind_some]
        rw [idx_tab_neg' gE _ _ p.toNat (by push_cast; omega) (by omega) (by push_cast; omega)]
        have hg : gE p.toNat = 2 * ((p + 1) / 2) := by unfold gE; rw [Int.toNat_of_nonneg hp0]
        simp only [Option.bind_some, hg]
        rcases Int.emod_two_eq_zero_or_one j with hj2 | hj2 <;> simp [hj2] <;> ring1
      · -- odd row: [1, 1, 3, 3, …]
        have h1 : ([1, 1] : List Int) = tab gO 2 := by decide
        have hne0 : ¬ (n % 2 = 0) := by omega
        simp only [hpar, ne_eq, one_ne_zero, not_false_eq_true, if_true, Option.bind_some, hsign, h1, hne0, if_false]
        rw [forRange_traj' _ (fun i => tab gO (2 * i + 2)) _ (n / 2).toNat _ rfl rfl (fun i _ => by
          simp only [idx_tab_last, idx_append_last, Option.bind_some]
          congr 1
          apply tab_append2 <;> first | omega | (unfold gO; push_cast; omega))]
        simp only [Option.bind_some]
        rw [idx_tab_neg' gO _ _ p.toNat (by push_cast; omega) (by omega) (by push_cast; omega)]
        have hg : gO p.toNat = 2 * (p / 2) + 1 := by unfold gO; rw [Int.toNat_of_nonneg hp0]
        simp only [Option.bind_some, hg]
        rcases Int.emod_two_eq_zero_or_one j with hj2 | hj2 <;> simp [hj2] <;> ring1


/-- `xy_j_to_mn`: both `while` loops terminate within `j` iterations (the fuel never runs out) and the result is the closed form `(d - p, p)`, every `j ≥ 1` -/
theorem gen_xyJToMn (j : Int) (hj : 1 ≤ j) : Generated.C11.xyJToMn j = some (Model.C11.xyJToMn j) := by
  first
  | (unfold Generated.C11.xyJToMn; rw [if_neg (by omega)]; done)
  | skip
    unfold Generated.C11.xyJToMn
    rw [if_neg (by omega)]
    by_cases h1 : j = 1
    · subst h1; rw [if_pos rfl, xy_small.1]
    rw [if_neg h1]
    by_cases h2 : j = 2
    · subst h2; rw [if_pos rfl, xy_small.2.1]
    rw [if_neg h2]
    by_cases h3 : j = 3
    · subst h3; rw [if_pos rfl, xy_small.2.2]
    rw [if_neg h3]
    obtain ⟨d, p, hp0, hp1, hjp, hd, e⟩ := xy_decomp j hj
    rw [e]
    have hd0 : 0 ≤ d := by omega
    have hd2 : 2 ≤ d := by
      by_contra hlt
      have : tri d ≤ tri 1 := tri_mono d 1 hd0 (by omega)
      have : tri 1 = 1 := by decide
      omega
    have htd := le_tri d hd0
    have hT : tri (d + 1) = tri d + d + 1 := tri_succ d
    simp only []
    -- first loop: k climbs to d + 2, max_j to tri (d + 1)
    rw [whileFuel_traj' _ _ (fun i => (((i : Int) + 2), if i = 0 then 3 else tri ((i : Int) + 1))) d.toNat _ _
      (by simp only [Nat.cast_zero, zero_add, if_true, Prod.mk.injEq]; first | done | (constructor <;> first | trivial | omega | decide)) (by omega)
      (fun i hi => by
        simp only [decide_eq_true_eq]
        split
        · omega
        · have := tri_mono ((i : Int) + 1) d (by omega) (by omega); omega)
      (fun i hi => by
        simp only [Option.some.injEq, Prod.mk.injEq]
        refine ⟨by push_cast; ring1, ?_⟩
        rw [if_neg (by omega)]
        unfold tri; push_cast
        congr 1 <;> ring1)
      (by
        simp only [decide_eq_false_iff_not, not_lt]
        rw [if_neg (by omega), Int.toNat_of_nonneg hd0]; omega)]
    simp only [Option.bind_some]
    rw [if_neg (show ¬ (d.toNat = 0) by omega), Int.toNat_of_nonneg hd0]
    -- both walks (from the pure-y end, from the pure-x end) arrive at the same cell, whichever the code picks
    have loop2 : ∀ (c : Int × Int × Int → Bool) (b : Int × Int × Int → Option (Int × Int × Int)) (s0 : Int × Int × Int),
        (∀ s, c s = decide (s.1 ≠ j)) → (∀ s, b s = some (s.1 - 1, s.2.1 + 1, s.2.2 - 1)) →
        s0 = (tri (d + 1), (0 : Int), d) → Py.whileFuel c b j.toNat s0 = some (j, d - p, p) := by
      intro c b s0 hc hb hs
      rw [whileFuel_traj' c b (fun i => (tri (d + 1) - (i : Int), (i : Int), d - (i : Int))) (d - p).toNat _ _
        (by rw [hs]; simp) (by omega)
        (fun i hi => by rw [hc]; simp only [decide_eq_true_eq]; omega)
        (fun i hi => by rw [hb]; simp only [Option.some.injEq, Prod.mk.injEq]; push_cast; refine ⟨by ring1, by ring1, by ring1⟩)
        (by rw [hc]; simp only [decide_eq_false_iff_not, not_not]; omega)]
      rw [Int.toNat_of_nonneg (by omega)]
      simp only [Option.some.injEq, Prod.mk.injEq]
      refine ⟨by omega, trivial, by ring1⟩
    have loop3 : ∀ (c : Int × Int × Int → Bool) (b : Int × Int × Int → Option (Int × Int × Int)) (s0 : Int × Int × Int),
        (∀ s, c s = decide (s.1 ≠ j)) → (∀ s, b s = some (s.1 + 1, s.2.1 - 1, s.2.2 + 1)) →
        s0 = (tri d + 1, d, (0 : Int)) → Py.whileFuel c b j.toNat s0 = some (j, d - p, p) := by
      intro c b s0 hc hb hs
      rw [whileFuel_traj' c b (fun i => (tri d + 1 + (i : Int), d - (i : Int), (i : Int))) p.toNat _ _
        (by rw [hs]; simp) (by omega)
        (fun i hi => by rw [hc]; simp only [decide_eq_true_eq]; omega)
        (fun i hi => by rw [hb]; simp only [Option.some.injEq, Prod.mk.injEq]; push_cast; refine ⟨by ring1, by ring1, rfl⟩)
        (by rw [hc]; simp only [decide_eq_false_iff_not, not_not]; omega)]
      rw [Int.toNat_of_nonneg hp0]
      simp only [Option.some.injEq, Prod.mk.injEq]
      exact ⟨by omega, trivial⟩
    -- every conditional on the way (|j - y_end|, |j - x_end|, which walk) is split; each leaf is one of the two walks
    repeat' split
    -- a walk whose start / step were chosen by a (tuple) assignment before one merged loop: substitute the chosen values
    all_goals (try simp only [Option.bind_some])
    all_goals first
      | (rw [loop2] <;> first
          | (simp only [Option.bind_some]; done)
          | (intro s; first | rfl | (congr 1; refine Prod.ext ?_ (Prod.ext ?_ ?_) <;> (try dsimp only) <;> ring1) | (simp [eq_comm]; done))
          | (refine Prod.ext ?_ (Prod.ext ?_ ?_) <;> (try dsimp only) <;> omega))
      | (rw [loop3] <;> first
          | (simp only [Option.bind_some]; done)
          | (intro s; first | rfl | (congr 1; refine Prod.ext ?_ (Prod.ext ?_ ?_) <;> (try dsimp only) <;> ring1) | (simp [eq_comm]; done))
          | (refine Prod.ext ?_ (Prod.ext ?_ ?_) <;> (try dsimp only) <;> omega))

/-- `xy_j_to_mn` raises for `j < 1` -/
theorem gen_xyJToMn_raises (j : Int) (hj : j < 1) : Generated.C11.xyJToMn j = none := by
  unfold Generated.C11.xyJToMn; rw [if_pos hj]

/-! ## 2. the property, over the generated definitions -/

/-- (definition bridge) the executable `Valid n m` used in every statement below is the property's wording `|m| ≤ n`, `n - |m|` even -/
theorem valid_iff (n m : Int) : Valid n m ↔ (|m| ≤ n ∧ 2 ∣ n - |m|) := by
  have : iabs m = |m| := by
    unfold iabs; split
    · rw [abs_of_neg (by assumption)]
    · rw [abs_of_nonneg (by omega)]
  simp only [Valid, this]
  constructor
  · rintro ⟨a, b⟩; exact ⟨a, by omega⟩
  · rintro ⟨a, b⟩; exact ⟨a, by omega⟩

/-! ### ANSI -/

/-- every ANSI index `j ≥ 0` maps to a valid `(n, m)` -/
theorem ansi_valid (j : Int) (hj : 0 ≤ j) :
    Valid (Generated.C11.ansiJToNm j).1 (Generated.C11.ansiJToNm j).2 := by
  rw [gen_ansiJToNm j hj]; exact Model.C11.ansi_valid j hj

/-- `nm_to_ansi_j` undoes `ansi_j_to_nm` for every index -/
theorem ansi_roundtrip (j : Int) (hj : 0 ≤ j) :
    Generated.C11.nmToAnsiJ (Generated.C11.ansiJToNm j).1 (Generated.C11.ansiJToNm j).2 = j := by
  rw [gen_nmToAnsiJ _ _ (ansi_valid j hj), gen_ansiJToNm j hj]; exact ansi_left_inv j

/-- `ansi_j_to_nm` undoes `nm_to_ansi_j` on every valid pair (so every valid pair is reached) -/
theorem ansi_roundtrip_inv (n m : Int) (h : Valid n m) :
    0 ≤ Generated.C11.nmToAnsiJ n m ∧ Generated.C11.ansiJToNm (Generated.C11.nmToAnsiJ n m) = (n, m) := by
  rw [gen_nmToAnsiJ n m h]
  obtain ⟨a, b⟩ := ansi_right_inv n m h
  exact ⟨a, by rw [gen_ansiJToNm _ a]; exact b⟩

/-- the published ANSI rule `j = (n(n+2)+m)/2`, the division being exact -/
theorem ansi_rule (n m : Int) (h : Valid n m) : 2 * Generated.C11.nmToAnsiJ n m = n * (n + 2) + m := by
  rw [gen_nmToAnsiJ n m h]; exact ansi_formula n m h

/-- ANSI: `ansi_j_to_nm` is a bijection from the indices `j ≥ 0` onto exactly the valid orders -/
theorem ansi_bij :
    Set.BijOn Generated.C11.ansiJToNm {j | 0 ≤ j} {q | Valid q.1 q.2} := by
  refine Set.InvOn.bijOn (f' := fun q => Generated.C11.nmToAnsiJ q.1 q.2) ⟨?_, ?_⟩ ?_ ?_
  · intro j hj; exact ansi_roundtrip j hj
  · intro q hq; exact (ansi_roundtrip_inv q.1 q.2 hq).2
  · intro j hj; exact ansi_valid j hj
  · intro q hq; exact (ansi_roundtrip_inv q.1 q.2 hq).1

/-! ### Fringe -/

/-- every Fringe index `j ≥ 1` maps to a valid `(n, m)` -/
theorem fringe_valid (j : Int) (hj : 1 ≤ j) :
    Valid (Generated.C11.fringeToNm j).1 (Generated.C11.fringeToNm j).2 := by
  rw [gen_fringeToNm j]; exact Model.C11.fringe_valid j hj

/-- `nm_to_fringe` undoes `fringe_to_nm` for every index -/
theorem fringe_roundtrip (j : Int) (hj : 1 ≤ j) :
    Generated.C11.nmToFringe (Generated.C11.fringeToNm j).1 (Generated.C11.fringeToNm j).2 = j := by
  rw [gen_nmToFringe _ _ (fringe_valid j hj), gen_fringeToNm j]; exact fringe_left_inv j hj

/-- `fringe_to_nm` undoes `nm_to_fringe` on every valid pair -/
theorem fringe_roundtrip_inv (n m : Int) (h : Valid n m) :
    1 ≤ Generated.C11.nmToFringe n m ∧ Generated.C11.fringeToNm (Generated.C11.nmToFringe n m) = (n, m) := by
  rw [gen_nmToFringe n m h, gen_fringeToNm]
  exact fringe_right_inv n m h

/-- Fringe: `fringe_to_nm` is a bijection from the indices `j ≥ 1` onto exactly the valid orders -/
theorem fringe_bij :
    Set.BijOn Generated.C11.fringeToNm {j | 1 ≤ j} {q | Valid q.1 q.2} := by
  refine Set.InvOn.bijOn (f' := fun q => Generated.C11.nmToFringe q.1 q.2) ⟨?_, ?_⟩ ?_ ?_
  · intro j hj; exact fringe_roundtrip j hj
  · intro q hq; exact (fringe_roundtrip_inv q.1 q.2 hq).2
  · intro j hj; exact fringe_valid j hj
  · intro q hq; exact (fringe_roundtrip_inv q.1 q.2 hq).1

/-! ### Noll -/

/-- `noll_to_nm` returns (never an IndexError) a valid `(n, m)` for every `j ≥ 1` -/
theorem noll_valid (j : Int) (hj : 1 ≤ j) :
    ∃ q, Generated.C11.nollToNm j = some q ∧ Valid q.1 q.2 :=
  ⟨_, gen_nollToNm j hj, Model.C11.noll_valid j hj⟩

/-- Noll is one-to-one: the explicit inverse `j = n(n+1)/2 + |m| + {0,1}` recovers every index -/
theorem noll_injective (j : Int) (hj : 1 ≤ j) (q : Int × Int) (h : Generated.C11.nollToNm j = some q) :
    nmToNoll q.1 q.2 = j := by
  rw [gen_nollToNm j hj] at h
  cases h; exact noll_left_inv j hj

/-- Noll is onto: every valid pair is the image of the index given by the explicit inverse -/
theorem noll_surjective (n m : Int) (h : Valid n m) :
    1 ≤ nmToNoll n m ∧ Generated.C11.nollToNm (nmToNoll n m) = some (n, m) := by
  obtain ⟨a, b⟩ := noll_right_inv n m h
  exact ⟨a, by rw [gen_nollToNm _ a, b]⟩

/-- Noll: `noll_to_nm` is a bijection from the indices `j ≥ 1` onto exactly the valid orders
    (as successful results `some (n, m)`) -/
theorem noll_bij :
    Set.BijOn Generated.C11.nollToNm {j | 1 ≤ j} (some '' {q | Valid q.1 q.2}) := by
  refine ⟨?_, ?_, ?_⟩
  · intro j hj
    obtain ⟨q, e, v⟩ := noll_valid j hj
    exact ⟨q, v, e.symm⟩
  · intro j hj j' hj' e
    have a := noll_injective j hj _ (gen_nollToNm j hj)
    have b := noll_injective j' hj' _ (e ▸ gen_nollToNm j hj)
    rw [← a, ← b]
  · rintro _ ⟨q, hq, rfl⟩
    obtain ⟨a, b⟩ := noll_surjective q.1 q.2 hq
    exact ⟨_, a, b⟩

/-- Noll ordering rule 1: the radial order `n` never decreases as `j` grows -/
theorem noll_radial_order_monotone (j j' : Int) (hj : 1 ≤ j) (hjj : j ≤ j') (q q' : Int × Int)
    (h : Generated.C11.nollToNm j = some q) (h' : Generated.C11.nollToNm j' = some q') : q.1 ≤ q'.1 := by
  rw [gen_nollToNm j hj] at h
  rw [gen_nollToNm j' (by omega)] at h'
  cases h; cases h'
  exact noll_n_mono j j' hjj

/-- Noll ordering rule 2: for every term with `m ≠ 0`, even index ↔ cosine term (`m > 0`) -/
theorem noll_even_iff_cosine (j : Int) (hj : 1 ≤ j) (q : Int × Int) (h : Generated.C11.nollToNm j = some q)
    (hm : q.2 ≠ 0) : (j % 2 = 0 ↔ 0 < q.2) := by
  rw [gen_nollToNm j hj] at h
  cases h
  exact noll_parity j hj hm

/-! ### XY -/

/-- `xy_j_to_mn` terminates and returns non-negative exponents for every `j ≥ 1` -/
theorem xy_valid (j : Int) (hj : 1 ≤ j) :
    ∃ q, Generated.C11.xyJToMn j = some q ∧ 0 ≤ q.1 ∧ 0 ≤ q.2 :=
  ⟨_, gen_xyJToMn j hj, Model.C11.xy_valid j hj⟩

/-- the fuel bound of the translated `while` loops is never reached on the index set -/
theorem xy_fuel_never_runs_out (j : Int) (hj : 1 ≤ j) : (Generated.C11.xyJToMn j).isSome = true := by
  rw [gen_xyJToMn j hj]; rfl

/-- closed form: with `d` the triangular root of `j - 1` and `p = j - 1 - d(d+1)/2`, the result is `(d - p, p)` -/
theorem xy_closed_form (j : Int) (hj : 1 ≤ j) :
    ∃ d p : Int, 0 ≤ p ∧ p ≤ d ∧ j = d * (d + 1) / 2 + p + 1 ∧ Generated.C11.xyJToMn j = some (d - p, p) := by
  obtain ⟨d, p, h0, h1, h2, _, e⟩ := xy_decomp j hj
  exact ⟨d, p, h0, h1, h2, by rw [gen_xyJToMn j hj, e]⟩

/-- XY is one-to-one: `j = (a+b)(a+b+1)/2 + b + 1` recovers every index -/
theorem xy_injective (j : Int) (hj : 1 ≤ j) (q : Int × Int) (h : Generated.C11.xyJToMn j = some q) :
    mnToXyJ q.1 q.2 = j := by
  rw [gen_xyJToMn j hj] at h
  cases h; exact xy_left_inv j hj

/-- XY is onto: every pair of non-negative exponents is reached -/
theorem xy_surjective (a b : Int) (ha : 0 ≤ a) (hb : 0 ≤ b) :
    1 ≤ mnToXyJ a b ∧ Generated.C11.xyJToMn (mnToXyJ a b) = some (a, b) := by
  obtain ⟨h1, h2⟩ := xy_right_inv a b ha hb
  exact ⟨h1, by rw [gen_xyJToMn _ h1, h2]⟩

/-- XY: `xy_j_to_mn` is a bijection from the indices `j ≥ 1` onto exactly the non-negative exponent pairs -/
theorem xy_bij :
    Set.BijOn Generated.C11.xyJToMn {j | 1 ≤ j} (some '' {q | 0 ≤ q.1 ∧ 0 ≤ q.2}) := by
  refine ⟨?_, ?_, ?_⟩
  · intro j hj
    obtain ⟨q, e, v⟩ := xy_valid j hj
    exact ⟨q, v, e.symm⟩
  · intro j hj j' hj' e
    have a := xy_injective j hj _ (gen_xyJToMn j hj)
    have b := xy_injective j' hj' _ (e ▸ gen_xyJToMn j hj)
    rw [← a, ← b]
  · rintro _ ⟨q, hq, rfl⟩
    obtain ⟨a, b⟩ := xy_surjective q.1 q.2 hq.1 hq.2
    exact ⟨_, a, b⟩

/-! ## 3. the floating-point idioms: what the exact-integer reading means over the reals -/

/-- the translator's reading of `np.ceil(np.sqrt(D))` is the ceiling of the real square root, every `D` -/
theorem ceil_sqrt_exact (D : Nat) : ⌈Real.sqrt (D : ℝ)⌉ = pyCeilSqrt (D : Int) := by
  unfold pyCeilSqrt; rw [ceilSqrt_eq_ceil_real]; simp

/-- the translator's reading of `np.ceil((b + np.sqrt(D)) / c)` is the ceiling of the real quotient, every `b, D, c > 0` -/
theorem ceil_half_sqrt_exact (b : Int) (D c : Nat) (hc : 0 < c) :
    ⌈((b : ℝ) + Real.sqrt (D : ℝ)) / (c : ℝ)⌉ = pyCeilDiv (b + pyCeilSqrt (D : Int)) (c : Int) :=
  ceil_div_sqrt_real b D c hc

/-- the radial order computed by (the translation of) `ansi_j_to_nm` is the source formula `⌈(-3 + √(9 + 8j))/2⌉` over the reals -/
theorem ansi_n_is_source_formula (j : Nat) :
    (Generated.C11.ansiJToNm (j : Int)).1 = ⌈((-3 : ℝ) + Real.sqrt (9 + 8 * (j : ℝ))) / 2⌉ := by
  have h := ceil_div_sqrt_real (-3) (9 + 8 * j) 2 (by decide)
  push_cast at h
  rw [h, gen_ansiJToNm _ (Int.natCast_nonneg j)]
  unfold Model.C11.ansiJToNm
  simp only
  exact (ansi_row _ (Int.natCast_nonneg j)).symm

/-- the group computed by (the translation of) `fringe_to_nm` is the source formula `n + |m| = 2(⌈√j⌉ - 1)` over the reals -/
theorem fringe_group_is_source_formula (j : Nat) (hj : 1 ≤ j) :
    (Generated.C11.fringeToNm (j : Int)).1 + |(Generated.C11.fringeToNm (j : Int)).2|
      = 2 * (⌈Real.sqrt (j : ℝ)⌉ - 1) := by
  rw [ceil_sqrt_exact, gen_fringeToNm]
  exact fringe_group (j : Int) (by exact_mod_cast hj)

/-- the radial order computed by (the translation of) `noll_to_nm` is the source formula `⌈(-1 + √(1 + 8j))/2⌉ - 1` over the reals -/
theorem noll_n_is_source_formula (j : Nat) (hj : 1 ≤ j) (q : Int × Int)
    (h : Generated.C11.nollToNm (j : Int) = some q) :
    q.1 = ⌈((-1 : ℝ) + Real.sqrt (1 + 8 * (j : ℝ))) / 2⌉ - 1 := by
  have hr := ceil_div_sqrt_real (-1) (1 + 8 * j) 2 (by decide)
  push_cast at hr
  have hj' : (1 : Int) ≤ j := by exact_mod_cast hj
  rw [gen_nollToNm _ hj'] at h
  cases h
  rw [hr]
  unfold Model.C11.nollToNm
  simp only
  exact (noll_row _ hj').symm

/-! ### the floating-point step itself, over an abstract correctly rounded square root

`fl` stands for rounding to binary64: relative error at most `2^-53`, monotone, exact on the integers up to `2^26`
(all three hold for IEEE-754 round-to-nearest; they are the hypotheses, `fl = id` shows they are consistent).
`np.sqrt` is `fl ∘ √` (IEEE requires a correctly rounded square root), `np.ceil` is exact.  Not formalised: that the
`-3 + y`, `-1 + y`, `/ 2` and the arithmetic on the resulting integer-valued doubles are exact in binary64
(they are, for these magnitudes, by Sterbenz-type arguments); those steps are taken as real-number operations here. -/

/-- float `ceil(sqrt(D))` is the exact `⌈√D⌉` for every `D < 2^52` (sharp: false for IEEE binary64 at `D = 2^52 + 1`) -/
theorem float_ceil_sqrt_exact (fl : ℝ → ℝ) (hrel : ∀ x : ℝ, 0 ≤ x → |fl x - x| ≤ x / 2 ^ 53)
    (hmono : Monotone fl) (hint : ∀ z : ℕ, z ≤ 2 ^ 26 → fl (z : ℝ) = z) (D : ℕ) (hD : D < 2 ^ 52) :
    ⌈fl (Real.sqrt (D : ℝ))⌉ = pyCeilSqrt (D : Int) := by
  unfold pyCeilSqrt; rw [float_ceil_sqrt fl hrel hmono hint D hD]; simp

/-- ANSI with the rounded square root: for `9 + 8j < 2^52` the radial order of (the translation of) `ansi_j_to_nm`
    is `⌈(-3 + fl√(9 + 8j))/2⌉` -/
theorem ansi_float_formula (fl : ℝ → ℝ) (hrel : ∀ x : ℝ, 0 ≤ x → |fl x - x| ≤ x / 2 ^ 53)
    (hmono : Monotone fl) (hint : ∀ z : ℕ, z ≤ 2 ^ 26 → fl (z : ℝ) = z) (j : ℕ) (hj : 9 + 8 * j < 2 ^ 52) :
    (Generated.C11.ansiJToNm (j : Int)).1 = ⌈((-3 : ℝ) + fl (Real.sqrt ((9 + 8 * j : ℕ) : ℝ))) / 2⌉ := by
  have h := ceil_div_add_real (-3) (fl (Real.sqrt ((9 + 8 * j : ℕ) : ℝ))) 2 (by decide)
  rw [float_ceil_sqrt_exact fl hrel hmono hint _ hj] at h
  push_cast at h ⊢
  rw [h, gen_ansiJToNm _ (Int.natCast_nonneg j)]
  unfold Model.C11.ansiJToNm
  simp only
  exact (ansi_row _ (Int.natCast_nonneg j)).symm

/-- Noll with the rounded square root: for `1 + 8j < 2^52` the radial order of (the translation of) `noll_to_nm`
    is `⌈(-1 + fl√(1 + 8j))/2⌉ - 1` -/
theorem noll_float_formula (fl : ℝ → ℝ) (hrel : ∀ x : ℝ, 0 ≤ x → |fl x - x| ≤ x / 2 ^ 53)
    (hmono : Monotone fl) (hint : ∀ z : ℕ, z ≤ 2 ^ 26 → fl (z : ℝ) = z) (j : ℕ) (hj1 : 1 ≤ j) (hj : 1 + 8 * j < 2 ^ 52)
    (q : Int × Int) (hq : Generated.C11.nollToNm (j : Int) = some q) :
    q.1 = ⌈((-1 : ℝ) + fl (Real.sqrt ((1 + 8 * j : ℕ) : ℝ))) / 2⌉ - 1 := by
  have h := ceil_div_add_real (-1) (fl (Real.sqrt ((1 + 8 * j : ℕ) : ℝ))) 2 (by decide)
  rw [float_ceil_sqrt_exact fl hrel hmono hint _ hj] at h
  push_cast at h
  have hj' : (1 : Int) ≤ j := by exact_mod_cast hj1
  rw [gen_nollToNm _ hj'] at hq
  cases hq
  push_cast
  rw [h]
  unfold Model.C11.nollToNm
  simp only
  exact (noll_row _ hj').symm

/-- Fringe with the rounded square root: for `1 ≤ j < 2^52` the group of (the translation of) `fringe_to_nm` is
    `n + |m| = 2 (⌈fl√j⌉ - 1)` -/
theorem fringe_float_formula (fl : ℝ → ℝ) (hrel : ∀ x : ℝ, 0 ≤ x → |fl x - x| ≤ x / 2 ^ 53)
    (hmono : Monotone fl) (hint : ∀ z : ℕ, z ≤ 2 ^ 26 → fl (z : ℝ) = z) (j : ℕ) (hj1 : 1 ≤ j) (hj : j < 2 ^ 52) :
    (Generated.C11.fringeToNm (j : Int)).1 + |(Generated.C11.fringeToNm (j : Int)).2|
      = 2 * (⌈fl (Real.sqrt (j : ℝ))⌉ - 1) := by
  rw [float_ceil_sqrt_exact fl hrel hmono hint j hj, gen_fringeToNm]
  exact fringe_group (j : Int) (by exact_mod_cast hj1)

/-- the hypotheses on `fl` are consistent (exact arithmetic satisfies them) -/
example : ∃ fl : ℝ → ℝ, (∀ x : ℝ, 0 ≤ x → |fl x - x| ≤ x / 2 ^ 53) ∧ Monotone fl ∧ ∀ z : ℕ, z ≤ 2 ^ 26 → fl (z : ℝ) = z :=
  ⟨id, fun x hx => by simp; positivity, monotone_id, fun _ _ => rfl⟩

/-! ## non-vacuity: concrete instances -/
example : Valid 4 (-2) ∧ ¬ Valid 4 3 ∧ ¬ Valid 2 4 := by decide
example : Generated.C11.nmToAnsiJ 4 (-2) = 11 ∧ Generated.C11.nmToFringe 4 (-2) = 13 := by
  rw [gen_nmToAnsiJ _ _ (by decide), gen_nmToFringe _ _ (by decide)]; decide
example : nmToNoll 4 (-2) = 13 ∧ mnToXyJ 2 1 = 8 := by decide


/-! ## 4. (session 3) the other index-convention helpers: names of the orders, pairing of the ±m terms -/

/-- `_name_accessor` (whole body, exact rational arithmetic) is the ordinal of the model on every valid order with `m ≠ 0`, `n ≥ 2`
    (the orders `nm_to_name` passes to it): position of `n` in its column, odd columns counted from `n = 3` -/
theorem gen_nameAccessor (n m : Int) (h : Valid n m) (hm : m ≠ 0) (hn : 2 ≤ n) :
    Generated.C11.nameAccessor n m = some (Model.C11.nameAccessor n m) := by
  first
  | exact rfl
  | skip
    obtain ⟨h1, h2⟩ := h
    unfold Generated.C11.nameAccessor Model.C11.nameAccessor
    simp only [Generated.C11.isOdd, iabs] at *
    by_cases ho : m % 2 = 1
    · -- odd column: n is odd, n ≥ 3
      obtain ⟨k, rfl⟩ : ∃ k, n = 2 * k + 1 := ⟨(n - 1) / 2, by split at h2 <;> omega⟩
      have hk : 1 ≤ k := by omega
      have e1 : (2 * k + 1 - 1) / 2 = k := by omega
      simp only [hm, ho, false_and, if_false, if_true, ne_eq, one_ne_zero, not_false_eq_true, true_and, ge_iff_le,
        show (3 : Int) ≤ 2 * k + 1 by omega, e1]
      first
      | (generalize hv : Py.int _ = v
         have hz : v = k := by rw [← hv]; apply Py.int_shift0; push_cast; ring1
         subst hz
         simp only [show ¬ (v < 0) by omega, if_false])
      | (congr 1; (try split_ifs) <;> omega)      -- the ordinal written with integer division
    · -- even column
      have ho' : m % 2 = 0 := by omega
      simp only [hm, ho, ho', false_and, if_false, ne_eq, not_true_eq_false, zero_ne_one]
      first
      | done      -- identical to the model after unfolding
      | skip
        by_cases hneg : m < 0
        · obtain ⟨k, rfl⟩ : ∃ k, n = 2 * k + -m := ⟨(n + m) / 2, by rw [if_pos hneg] at h2; omega⟩
          simp only [hneg, if_true]
          have e1 : (2 * k + -m - -m) / 2 = k := by omega
          first
          | (rw [e1]; first | done | (congr 1; first | omega | (apply Py.int_shift0; push_cast; ring1)))
          | (congr 1; first | omega | (apply Py.int_shift0; push_cast; ring1))
        · obtain ⟨k, rfl⟩ : ∃ k, n = 2 * k + m := ⟨(n - m) / 2, by rw [if_neg hneg] at h2; omega⟩
          simp only [hneg, if_false]
          have e1 : (2 * k + m - m) / 2 = k := by omega
          first
          | (rw [e1]; first | done | (congr 1; first | omega | (apply Py.int_shift0; push_cast; ring1)))
          | (congr 1; first | omega | (apply Py.int_shift0; push_cast; ring1))

/-- the ordinal `nm_to_name` gives a spherical term `(n, 0)` is `n/2 - 1`, every even `n` -/
theorem gen_sphericalAccessor (n m : Int) (hn : n % 2 = 0) :
    Generated.C11.sphericalAccessor n m = Model.C11.sphericalAccessor n := by
  first
  | exact rfl
  | skip
    obtain ⟨k, rfl⟩ : ∃ k, n = 2 * k := ⟨n / 2, by omega⟩
    unfold Generated.C11.sphericalAccessor Model.C11.sphericalAccessor
    have e1 : (2 * k) / 2 = k := by omega
    rw [e1]
    generalize hv : Py.int _ = v
    first
    | (have hz : v = k - 1 := by rw [← hv]; apply Py.int_shift0; push_cast; ring1
       rw [hz])
    | (have hz : v = k := by rw [← hv]; apply Py.int_shift0; push_cast; ring1
       rw [hz])

/-- the key under which `zernikes_to_magnitude_angle_nmkey` collects coefficients is `(n, |m|)`, all `n, m` -/
theorem gen_magangKey (n m : Int) : Generated.C11.magangKey n m = Model.C11.magangKey n m := by
  first
  | exact rfl
  | (unfold Generated.C11.magangKey Model.C11.magangKey iabs
     refine Prod.ext ?_ ?_ <;> simp only [] <;> (try split) <;> omega)

/-- the ordinal-name and column-name tables `_names`, `_names_m` have pairwise different keys and pairwise different words -/
theorem names_tables_distinct :
    (Generated.C11.namesTable.map Prod.fst).Nodup ∧ (Generated.C11.namesTable.map Prod.snd).Nodup ∧
    (Generated.C11.namesMTable.map Prod.fst).Nodup ∧ (Generated.C11.namesMTable.map Prod.snd).Nodup := by
  decide

/-- `nm_to_name` is one-to-one on the valid orders at the level of its structure (kind, ordinal, column name, suffix): two valid
    orders with the same ordinal, the same `|m|` entry of the name table and the same suffix are the same order — so no two
    coefficients of an expansion share a name, and `zernikes_to_magnitude_angle` (a dict keyed by names) loses none.  The ordinals
    are tied to the source by `gen_nameAccessor` / `gen_sphericalAccessor`, the tables by `names_tables_distinct`; that the real
    strings have this structure is compared on every valid order up to the tier bound (harness item `name`). -/
theorem name_key_injective (n m n' m' : Int) (h : Valid n m) (h' : Valid n' m')
    (e : nameKey n m = nameKey n' m') : n = n' ∧ m = m' :=
  nameKey_injective n m n' m' h h' e

/-- the same over the generated ordinal: inside a column `m ≠ 0` the ordinal `_name_accessor` returns determines `n` -/
theorem name_accessor_injective_in_column (n n' m : Int) (h : Valid n m) (h' : Valid n' m) (hm : m ≠ 0) (hn : 2 ≤ n) (hn' : 2 ≤ n')
    (e : Generated.C11.nameAccessor n m = Generated.C11.nameAccessor n' m) : n = n' := by
  rw [gen_nameAccessor n m h hm hn, gen_nameAccessor n' m h' hm hn'] at e
  have e' := Option.some.inj e
  obtain ⟨h1, h2⟩ := h
  obtain ⟨h1', h2'⟩ := h'
  unfold Model.C11.nameAccessor at e'
  rcases iabs_cases m with ⟨s, a⟩ | ⟨s, a⟩ <;> rw [a] at h1 h2 h1' h2' e' <;> split_ifs at e' <;> omega

example : Valid 6 4 ∧ Valid 4 4 ∧ Generated.C11.nameAccessor 6 4 = some 2 ∧ Generated.C11.nameAccessor 4 4 = some 1 := by
  refine ⟨by decide, by decide, ?_, ?_⟩ <;> (rw [gen_nameAccessor _ _ (by decide) (by decide) (by decide)]; rfl)

/-- two coefficients land in the same magnitude/angle group exactly when they are the `+m` and `-m` terms of one `(n, |m|)` -/
theorem magang_pairs_exactly_pm (n m n' m' : Int) :
    Generated.C11.magangKey n m = Generated.C11.magangKey n' m' ↔ n = n' ∧ (m = m' ∨ m = -m') := by
  rw [gen_magangKey, gen_magangKey]
  unfold Model.C11.magangKey iabs
  simp only [Prod.mk.injEq]
  constructor
  · rintro ⟨a, b⟩; refine ⟨a, ?_⟩; split_ifs at b <;> omega
  · rintro ⟨a, b⟩; refine ⟨a, ?_⟩; split_ifs <;> omega

/-- in a coefficient list that names each order at most once every group has at most two members — `arctan2(*value)` is never
    called with three arguments (no TypeError) -/
theorem magang_group_size_le_two (l : List (Int × Int)) (hl : l.Nodup) (k : Int × Int) :
    (l.filter (fun p => Generated.C11.magangKey p.1 p.2 = k)).length ≤ 2 := by
  have hnd : (l.filter (fun p => Generated.C11.magangKey p.1 p.2 = k)).Nodup := hl.filter _
  have hsub : (l.filter (fun p => decide (Generated.C11.magangKey p.1 p.2 = k))) ⊆ [(k.1, k.2), (k.1, -k.2)] := by
    intro p hp
    have hp2 := (List.mem_filter.mp hp).2
    simp only [decide_eq_true_eq] at hp2
    rw [gen_magangKey] at hp2
    unfold Model.C11.magangKey iabs at hp2
    have a : p.1 = k.1 := by rw [← hp2]
    have b : p.2 = k.2 ∨ p.2 = -k.2 := by
      rw [← hp2]; simp only []; split_ifs <;> omega
    rcases b with b | b
    · exact List.mem_cons.mpr (Or.inl (Prod.ext a b))
    · exact List.mem_cons.mpr (Or.inr (List.mem_singleton.mpr (Prod.ext a b)))
  exact (List.Nodup.subperm hnd hsub).length_le

example : ∃ l : List (Int × Int), l.Nodup ∧ (l.filter (fun p => Generated.C11.magangKey p.1 p.2 = (2, 2))).length = 2 :=
  ⟨[(2, 2), (3, 1), (2, -2)], by decide, by decide⟩


/-- `nm_to_name` together with `_name_helper` (whole bodies; every string replaced by its structure code: constant names, ordinal
    word `_names.get(k, f'{k}th')` ↦ k, column word `_names_m.get(k, f'{k}-foil')` ↦ k, suffix ↦ 0..3) returns — never raises — the
    structure of the model on every valid order: the order of the special cases (piston, tilt, defocus, spherical), which ordinal
    goes with which branch, and the X/Y/00°/45° rule -/
theorem gen_nameKey (n m : Int) (h : Valid n m) : Generated.C11.nameKey n m = some (Model.C11.nameKey n m) := by
  first
  | exact rfl
  | skip
    have hv := h
    obtain ⟨h1, h2⟩ := hv
    rcases nameKey_cases n m h with ⟨a, b, k⟩ | ⟨a, b, k⟩ | ⟨a, b, k⟩ | ⟨a, b, k⟩ | ⟨a, b, k⟩ | ⟨a, b, c, k⟩ | ⟨a, b, c, k⟩ | ⟨a, b, c, k⟩ | ⟨a, b, c, k⟩
    · subst a; subst b; rw [k]; simp [Generated.C11.nameKey]
    · subst a; subst b; rw [k]; simp [Generated.C11.nameKey, Generated.C11.sign]
    · subst a; subst b; rw [k]; simp [Generated.C11.nameKey, Generated.C11.sign]
    · subst a; subst b; rw [k]; simp [Generated.C11.nameKey]
    · subst b
      have hn : n % 2 = 0 := by simp only [iabs] at h2; omega
      have e := gen_sphericalAccessor n 0 hn
      unfold Generated.C11.sphericalAccessor Model.C11.sphericalAccessor at e
      rw [k]
      simp only [Generated.C11.nameKey, show ¬ (n = 0) by omega, show ¬ (n = 1) by omega, show ¬ (n = 2) by omega,
        if_false, if_true, false_and, e]
    all_goals
      have hm : m ≠ 0 := by omega
      have e := gen_nameAccessor n m h hm a
      have hs : Generated.C11.sign m = if m < 0 then -1 else 1 := gen_sign m
      rw [k]
      rcases iabs_cases m with ⟨s, ia⟩ | ⟨s, ia⟩
      · have s' : ¬ (m < 0) := by omega
        rw [if_neg s'] at hs
        simp only [Generated.C11.nameKey, e, Model.C11.nameAccessor, Generated.C11.isOdd, hs, ia, Option.bind_some,
          show ¬ (n = 0) by omega, show ¬ (n = 1) by omega, hm, c, s, s', if_false, if_true, and_false, false_and]
        first | omega | (simp <;> omega)
      · have s' : ¬ (0 ≤ m) := by omega
        rw [if_pos s] at hs
        simp only [Generated.C11.nameKey, e, Model.C11.nameAccessor, Generated.C11.isOdd, hs, ia, Option.bind_some,
          show ¬ (n = 0) by omega, show ¬ (n = 1) by omega, hm, c, s, s', if_false, if_true, and_false, false_and]
        first | omega | (simp <;> omega)

/-- `nm_to_name` is one-to-one on the valid orders, stated over the translated function: two valid orders whose names have the same
    structure (kind, ordinal, column word, suffix) are the same order.  (That different structures print as different strings rests on
    `names_tables_distinct` and the f-string layout; compared on every valid order up to the tier bound.) -/
theorem name_injective (n m n' m' : Int) (h : Valid n m) (h' : Valid n' m')
    (e : Generated.C11.nameKey n m = Generated.C11.nameKey n' m') : n = n' ∧ m = m' := by
  rw [gen_nameKey n m h, gen_nameKey n' m' h'] at e
  exact nameKey_injective n m n' m' h h' (Option.some.inj e)

/-- `nm_to_name` returns a name for every valid order (the division by `|m|` / the table look-ups never raise) -/
theorem name_total (n m : Int) (h : Valid n m) : (Generated.C11.nameKey n m).isSome = true := by
  rw [gen_nameKey n m h]; rfl

example : Generated.C11.nameKey 6 (-4) = some (4, 2, 4, 3) ∧ Generated.C11.nameKey 4 (-4) = some (4, 1, 4, 3) := by
  constructor <;> (rw [gen_nameKey _ _ (by decide)]; rfl)


/-- the dict keys of `zernikes_to_magnitude_angle` — the name of `(n, |m|)` without its suffix — are one-to-one on the classes:
    two valid `(n, a)`, `(n', a')` with `a, a' ≥ 0` whose names agree in (kind, ordinal, column word) are the same class, so no
    class overwrites another (structure level; ordinals and branch order are those of the translated `nm_to_name`) -/
theorem magang_name_keys_injective (n a n' a' : Int) (h : Valid n a) (h' : Valid n' a') (ha : 0 ≤ a) (ha' : 0 ≤ a')
    (k k' : Int × Int × Int × Int) (hk : Generated.C11.nameKey n a = some k) (hk' : Generated.C11.nameKey n' a' = some k')
    (e : (k.1, k.2.1, k.2.2.1) = (k'.1, k'.2.1, k'.2.2.1)) : n = n' ∧ a = a' := by
  rw [gen_nameKey n a h] at hk
  rw [gen_nameKey n' a' h'] at hk'
  have e1 := Option.some.inj hk
  have e2 := Option.some.inj hk'
  subst e1; subst e2
  simp only [Prod.mk.injEq] at e
  obtain ⟨h1, h2⟩ := h
  obtain ⟨h1', h2'⟩ := h'
  rcases iabs_cases a with ⟨s, ia⟩ | ⟨s, ia⟩ <;> rw [ia] at h1 h2 <;>
  rcases iabs_cases a' with ⟨s', ia'⟩ | ⟨s', ia'⟩ <;> rw [ia'] at h1' h2' <;>
  rcases nameKey_cases n a ⟨by rw [ia]; exact h1, by rw [ia]; exact h2⟩ with ⟨_, _, k⟩ | ⟨_, _, k⟩ | ⟨_, _, k⟩ | ⟨_, _, k⟩ | ⟨_, _, k⟩ | ⟨_, _, _, k⟩ | ⟨_, _, _, k⟩ | ⟨_, _, _, k⟩ | ⟨_, _, _, k⟩ <;>
  rcases nameKey_cases n' a' ⟨by rw [ia']; exact h1', by rw [ia']; exact h2'⟩ with ⟨_, _, k'⟩ | ⟨_, _, k'⟩ | ⟨_, _, k'⟩ | ⟨_, _, k'⟩ | ⟨_, _, k'⟩ | ⟨_, _, _, k'⟩ | ⟨_, _, _, k'⟩ | ⟨_, _, _, k'⟩ | ⟨_, _, _, k'⟩ <;>
  (rw [k, k'] at e; simp only at e; omega)

example : Valid 6 4 ∧ Generated.C11.nameKey 6 4 = some (4, 2, 4, 2) := by
  refine ⟨by decide, ?_⟩; rw [gen_nameKey _ _ (by decide)]; rfl


/-- the groups of `zernikes_to_magnitude_angle_nmkey` (specification `groupByKey`, which the real dict is compared with on every generated
    list) partition the coefficient list: keys pairwise different, every group non-empty with ascending positions, a position is in a
    group exactly when its term has the group's `(n, |m|)`, and every position is in some group — no coefficient is dropped or counted twice -/
theorem magang_grouping_partition (l : List (Int × Int)) :
    ((groupByKey l).map Prod.fst).Nodup ∧
    (∀ g ∈ groupByKey l, g.2 ≠ [] ∧ g.2.Pairwise (· < ·) ∧
      ∀ i, i ∈ g.2 ↔ ∃ h : i < l.length, Generated.C11.magangKey (l[i]).1 (l[i]).2 = g.1) ∧
    (∀ i (h : i < l.length), ∃ g ∈ groupByKey l, g.1 = Generated.C11.magangKey (l[i]).1 (l[i]).2) := by
  simp only [gen_magangKey]
  refine ⟨?_, ?_, ?_⟩
  · unfold groupByKey
    rw [List.map_map]
    have : (Prod.fst ∘ fun k => (k, positionsOf l k)) = id := by funext k; rfl
    rw [this, List.map_id]
    exact firstKeys_nodup l
  · intro g hg
    unfold groupByKey at hg
    obtain ⟨k, hk, rfl⟩ := List.mem_map.mp hg
    refine ⟨?_, positionsOf_sorted l k, fun i => mem_positionsOf l k i⟩
    obtain ⟨p, hp, e⟩ := (mem_firstKeys l k).mp hk
    obtain ⟨i, hi, rfl⟩ := List.getElem_of_mem hp
    intro hnil
    have : i ∈ positionsOf l k := (mem_positionsOf l k i).mpr ⟨hi, e⟩
    simp only [] at hnil
    rw [hnil] at this
    exact absurd this (List.not_mem_nil)
  · intro i h
    refine ⟨(magangKey (l[i]).1 (l[i]).2, positionsOf l (magangKey (l[i]).1 (l[i]).2)), ?_, rfl⟩
    unfold groupByKey
    exact List.mem_map.mpr ⟨_, (mem_firstKeys l _).mpr ⟨l[i], List.getElem_mem h, rfl⟩, rfl⟩

/-- in a coefficient list that names each order at most once, every group of the specification has one or two members: the
    `len(value) == 1` branch or `arctan2(first, second)`, never a TypeError -/
theorem magang_groups_le_two (l : List (Int × Int)) (hl : l.Nodup) : ∀ g ∈ groupByKey l, g.2.length ≤ 2 := by
  intro g hg
  unfold groupByKey at hg
  obtain ⟨k, _, rfl⟩ := List.mem_map.mp hg
  simp only []
  have hnd : (positionsOf l k).Nodup := (positionsOf_sorted l k).imp (fun h => Nat.ne_of_lt h)
  have hnd2 : ((positionsOf l k).map (fun i => l.getD i (0, 0))).Nodup := by
    apply List.Nodup.map_on _ hnd
    intro i hi j hj e
    obtain ⟨h1, _⟩ := (mem_positionsOf l k i).mp hi
    obtain ⟨h2, _⟩ := (mem_positionsOf l k j).mp hj
    simp only [List.getD_eq_getElem?_getD, List.getElem?_eq_getElem h1, List.getElem?_eq_getElem h2, Option.getD_some] at e
    exact (List.Nodup.getElem_inj_iff hl).mp e
  have hsub : ((positionsOf l k).map (fun i => l.getD i (0, 0))) ⊆ [(k.1, k.2), (k.1, -k.2)] := by
    intro p hp
    obtain ⟨i, hi, rfl⟩ := List.mem_map.mp hp
    obtain ⟨h1, e⟩ := (mem_positionsOf l k i).mp hi
    simp only [List.getD_eq_getElem?_getD, List.getElem?_eq_getElem h1, Option.getD_some]
    unfold Model.C11.magangKey iabs at e
    have a : (l[i]).1 = k.1 := by rw [← e]
    have b : (l[i]).2 = k.2 ∨ (l[i]).2 = -k.2 := by
      rw [← e]; simp only []; split_ifs <;> omega
    rcases b with b | b
    · exact List.mem_cons.mpr (Or.inl (Prod.ext a b))
    · exact List.mem_cons.mpr (Or.inr (List.mem_singleton.mpr (Prod.ext a b)))
  have := (List.Nodup.subperm hnd2 hsub).length_le
  simpa using this

example : groupByKey [(2, 2), (3, 1), (2, -2), (0, 0)] = [((2, 2), [0, 2]), ((3, 1), [1]), ((0, 0), [3])] := by decide


/-- the name suffix of an order says whether it is a cosine or a sine term: for a valid `(n, m)`, `n ≥ 2`, the translated
    `nm_to_name` ends in `X` / `00°` exactly when `m > 0` and in `Y` / `45°` exactly when `m < 0` (`X`,`Y` for odd `m`) -/
theorem name_suffix_iff_cosine (n m : Int) (h : Valid n m) (hn : 2 ≤ n) (k : Int × Int × Int × Int)
    (hk : Generated.C11.nameKey n m = some k) :
    (0 < m ↔ (k.2.2.2 = 0 ∨ k.2.2.2 = 2)) ∧ (m % 2 = 1 ↔ (k.2.2.2 = 0 ∨ k.2.2.2 = 1)) := by
  rw [gen_nameKey n m h] at hk
  have e := Option.some.inj hk
  subst e
  rcases nameKey_cases n m h with ⟨_, _, k⟩ | ⟨_, _, k⟩ | ⟨_, _, k⟩ | ⟨_, _, k⟩ | ⟨_, _, k⟩ | ⟨_, _, _, k⟩ | ⟨_, _, _, k⟩ | ⟨_, _, _, k⟩ | ⟨_, _, _, k⟩ <;>
  (rw [k]; simp <;> omega)

/-- Noll's rule in terms of the names: for every Noll index `j ≥ 1` whose order has `m ≠ 0` and `n ≥ 2`, `j` is even exactly when the
    name `nm_to_name(*noll_to_nm(j))` is a cosine term (suffix `X` or `00°`) — the two translated functions agree on the convention -/
theorem noll_even_iff_cosine_name (j : Int) (hj : 1 ≤ j) (q : Int × Int) (h : Generated.C11.nollToNm j = some q)
    (hm : q.2 ≠ 0) (hn : 2 ≤ q.1) (k : Int × Int × Int × Int) (hk : Generated.C11.nameKey q.1 q.2 = some k) :
    (j % 2 = 0 ↔ (k.2.2.2 = 0 ∨ k.2.2.2 = 2)) := by
  obtain ⟨q', hq', hv⟩ := noll_valid j hj
  rw [h] at hq'
  have := Option.some.inj hq'
  subst this
  rw [noll_even_iff_cosine j hj q h hm]
  exact (name_suffix_iff_cosine q.1 q.2 hv hn k hk).1

example : ∃ j q k, 1 ≤ j ∧ Generated.C11.nollToNm j = some q ∧ q.2 ≠ 0 ∧ 2 ≤ q.1 ∧ Generated.C11.nameKey q.1 q.2 = some k :=
  ⟨nmToNoll 3 1, (3, 1), (4, 1, 1, 0), (noll_surjective 3 1 (by decide)).1, (noll_surjective 3 1 (by decide)).2, by decide, by decide,
   by rw [gen_nameKey _ _ (by decide)]; rfl⟩


/-- the key rule of `zernikes_to_magnitude_angle` (`len(split) < 3 and 'Tilt' not in name`, translated): the names of piston, defocus and the
    spherical terms are kept whole; `Tilt X/Y` and the three-word names lose their last word (the suffix) — so the dict key of a class is its
    name structure without the suffix, which `magang_name_keys_injective` shows one-to-one on the classes -/
theorem gen_keepsWholeName (kind : Int) (h0 : 0 ≤ kind) (h4 : kind ≤ 4) :
    Generated.C11.keepsWholeName (nameWords kind) (decide (kind = 1)) = decide (kind = 0 ∨ kind = 2 ∨ kind = 3) := by
  have : kind = 0 ∨ kind = 1 ∨ kind = 2 ∨ kind = 3 ∨ kind = 4 := by omega
  rcases this with rfl | rfl | rfl | rfl | rfl <;> decide

/-- no word of the two name tables contains a blank or is empty (so the word count of a name is the one of its kind) -/
theorem names_words_have_no_blank :
    (Generated.C11.namesTable.all fun e => e.2.toList.all (· ≠ ' ') && e.2.toList ≠ []) = true ∧
    (Generated.C11.namesMTable.all fun e => e.2.toList.all (· ≠ ' ') && e.2.toList ≠ []) = true := by
  constructor <;> decide

end C11
