import PrysmVerif.Generated.C02
import PrysmVerif.Lemmas.C02Asp
import PrysmVerif.Lemmas.C01Exp
import PrysmVerif.Lemmas.PyArith
/-!
# C02 — propagators conserve energy and invert each other

Setting as in `Props/C01.lean`: `R`, `K` fields of characteristic zero, `e : R → K` with the character laws `IsChar`
and faithfulness `IsFaithful`, `cj : K →+* K` with the laws of complex conjugation `IsConj cj e nrm`
(`cj (e t) = e (−t)`, `cj (nrm a) = nrm a`, involutive), `nrm` with `nrm(1/N)² = 1/N` where needed (`NrmSq`).
Energy is `Σ x · cj x`.  Every statement is for ALL shapes (square or not, any parities), all padded / output sizes,
all shifts, all inputs; the last section instantiates every hypothesis with `exp(−2πi t)`, `√·`, `conj`.
-/
set_option linter.unusedTactic false
set_option linter.unreachableTactic false
set_option linter.unusedSectionVars false
set_option linter.unusedVariables false

namespace C02
open C01 Model.C01 Model.C02 Generated.C02

variable {R K : Type} [Field R] [CharZero R] [Field K] [CharZero K]
variable {e : R → K} (nrm : R → K)

/-- `nrm` is a square root on the reciprocals of sample counts: `nrm(1/N)² = 1/N` (all the energy theorems need) -/
def NrmSq (nrm : R → K) : Prop := ∀ N : Nat, 0 < N → nrm (1 / (N : R)) * nrm (1 / (N : R)) = 1 / (N : K)

/-! ## translated obligations (definitions regenerated from the current source into `Generated.C02`) -/

/-- `pad2d` writes the data at `[N//2 − n//2, N//2 − n//2 + n)` -/
theorem gen_pad_offset (n N : Nat) :
    padLo (n : Int) (N : Int) = padOffset n N ∧ padHi (n : Int) (N : Int) = padOffset n N + n := by
  constructor <;> simp only [padLo, padHi, padOffset, cen] <;> omega

/-- default padded length is `⌈n·Q⌉` -/
theorem gen_pad_outlen (n Q : Rat) : padOutLen n Q = ((Rat.ceil (n * Q) : Int) : Rat) := by
  simp only [padOutLen]

/-- for `Q ≥ 1` the default padded length is at least the input length, so the hypotheses `m ≤ M'`, `n ≤ N'` of the
energy theorems are met by every `pad2d(x, Q)` / `focus(x, Q)` call with `Q ≥ 1` -/
theorem gen_pad_outlen_ge (n : Nat) (Q : Rat) (hQ : 1 ≤ Q) : (n : Rat) ≤ padOutLen n Q := by
  rw [gen_pad_outlen, Rat.ceil_eq_intCeil]
  have h1 : (n : Rat) ≤ (n : Rat) * Q := by
    have : (0 : Rat) ≤ n := Nat.cast_nonneg n
    nlinarith
  exact le_trans h1 (Int.le_ceil _)

/-- `focus = fftshift(fft2(ifftshift(pad2d(x,Q)), norm='ortho'))`, `unfocus` the same with `ifft2`: `norm='ortho'` on both,
`ifftshift` inside, `fftshift` outside -/
theorem gen_fft_route_shape :
    focusOuterIsFftshift = true ∧ focusInnerIsIfftshift = true ∧ focusUsesOrtho = true ∧ focusTransform = "fft2" ∧
    focusPadsWithPad2dQ = true ∧
    unfocusOuterIsFftshift = true ∧ unfocusInnerIsIfftshift = true ∧ unfocusUsesOrtho = true ∧
    unfocusTransform = "ifft2" ∧ unfocusPadsWithPad2dQ = true := by decide

/-- matrix DFT: wiring of the two bases, kernel signs, `dft2` forward / `idft2` inverse -/
theorem gen_mdft_wiring :
    mdftEoutWiring = wiringAxis0 ∧ mdftEinWiring = wiringAxis1 ∧ mdftFwdSign = -1 ∧ mdftFwdSignEin = -1 ∧
    mdftDft2IsFwd = true ∧ mdftIdft2IsFwd = false := by decide

/-- matrix DFT: exponent scalars `1/(m·Q[0])`, `1/(n·Q[1])`; the norm factors are `√alphay`, `√alphax`, so they
multiply to `(m·Qy·n·Qx)^(−1/2)` -/
theorem gen_mdft_scale (m n : Nat) (Q0 Q1 : R) :
    mdftEoutScale (m : R) (n : R) Q0 Q1 = alphaOf m Q0 ∧ mdftEinScale (m : R) (n : R) Q0 Q1 = alphaOf n Q1 ∧
    mdftEinNormSq (m : R) (n : R) Q0 Q1 = alphaOf m Q0 ∧ mdftEoutNormSq (m : R) (n : R) Q0 Q1 = alphaOf n Q1 := by
  refine ⟨?_, ?_, ?_, ?_⟩ <;>
    simp [mdftEoutScale, mdftEinScale, mdftEinNormSq, mdftEoutNormSq, alphaOf] <;> ring

/-- chirp-Z: index glue, wiring, per-axis constants (as in C01) -/
theorem gen_czt_glue (n M L : Nat) : cztGlueGen n M L = cztGlue n M L := by
  have ext : ∀ a b : CztGlue, a.start = b.start → a.j1Lo = b.j1Lo → a.h1Lo = b.h1Lo → a.h1Hi = b.h1Hi →
      a.j2Lo = b.j2Lo → a.h2Lo = b.h2Lo → a.h2Hi = b.h2Hi → a.zLo = b.zLo → a.zHi = b.zHi → a = b := by
    intro a b; cases a; cases b; simp only [CztGlue.mk.injEq]; intros; simp_all
  apply ext <;> simp only [cztGlueGen, cztGlue, cztStart, cen] <;> omega

/-- the chirp-Z cache key contains every quantity the bases depend on (sizes, FFT lengths, both chirp constants, both
shifts, dtype) and nothing else is read while building -/
theorem gen_czt_key :
    (∀ r ∈ ["m", "n", "M", "N", "K", "L", "alphay", "alphax", "shift[0]", "shift[1]", "dtype"], r ∈ cztKeyFields) ∧
    (∀ r ∈ cztBuildReads, r ∈ cztKeyFields) ∧ (∀ r ∈ mdftBuildReads, r ∈ mdftKeyFields) := by decide

theorem gen_czt_wiring :
    cztRowWiring = wiringAxis0 ∧ cztColWiring = wiringAxis1 ∧ cztFft2SizeIsRowCol = true ∧
    cztShiftSignOut = -1 ∧ cztShiftSignIn = -1 ∧ cztPipelineIsBluestein = true ∧ icztIsConjCztConj = true := by decide

theorem gen_czt_alpha (m n : Nat) (Q0 Q1 : R) :
    cztRowAlpha (m : R) (n : R) Q0 Q1 = alphaOf m Q0 ∧ cztColAlpha (m : R) (n : R) Q0 Q1 = alphaOf n Q1 := by
  constructor <;> simp [cztRowAlpha, cztColAlpha, alphaOf] <;> ring

/-- `angular_spectrum_transfer_function`: the exponent is `−iπ·(λ/1000)·z·k²` — linear in `z` — on both axes -/
theorem gen_asp_coef (wvl z kk : R) :
    (aspCoef wvl z * kk) / 2 = aspArg wvl z kk ∧ aspSignRows = -1 ∧ aspSignCols = -1 := by
  refine ⟨?_, by decide, by decide⟩
  simp [aspCoef, aspArg]

theorem gen_asp_coef_linear (wvl z1 z2 : R) : aspCoef wvl (z1 + z2) = aspCoef wvl z1 + aspCoef wvl z2 := by
  simp [aspCoef]; ring

/-- rows of the transfer function use `fftfreq(samples[0], dx)`, columns `fftfreq(samples[1], dx)` (`(ky, kx)` order);
`angular_spectrum` is `ifft2(fft2(field)·tf)`; `Wavefront.free_space` delegates to it -/
theorem gen_asp_structure :
    aspRowsSamplesIdx = 0 ∧ aspColsSamplesIdx = 1 ∧ aspIsIfft2OfFft2TimesTf = true ∧ freeSpaceDelegates = true := by
  decide

/-- the returned transfer function is the outer product of the two exponentials at EVERY frequency sample: no element is
overwritten, masked, clipped or selected after the exponential (so `asp_unit_modulus` speaks about every sample of the
array the code returns, including the part of the band beyond `1/λ` at sub-wavelength sampling) -/
theorem gen_asp_every_sample : aspTfAppliedToEverySample = true := by decide

/-! ## orthogonality -/

/-- root-of-unity orthogonality `Σ_{k<L} e(k·d/L) = L·[L ∣ d]`, derived from the character laws + faithfulness
(geometric sum) -/
theorem char_orthogonality (he : IsChar e) (hf : IsFaithful e) (L : Nat) (hL : 0 < L) (d : ℤ) :
    ∑ k ∈ Finset.range L, e ((k : R) * ((d : R) / (L : R))) = if (L : ℤ) ∣ d then (L : K) else 0 :=
  he.ortho hf L hL d

/-- `E Eᴴ = 1`: the Gram matrix of the normalised (shifted, centred) DFT kernel over one full period is the identity —
the hypothesis of the abstract Parseval theorem, proved from the orthogonality law -/
theorem kernel_gram_from_orthogonality (he : IsChar e) (hf : IsFaithful e) (cj : K →+* K) (hc : IsConj cj e nrm)
    (n M : Nat) (hn : n ≤ M) (hM : 0 < M) (s : R) (hN : NrmSq nrm) :
    IsGram (Finset.range n) (Finset.range M) (fun k j => nrm (1 / (M : R)) * basisEl e n M (1 / (M : R)) s k j) cj :=
  basis_gram nrm he hf cj hc n M hn hM _ s rfl (hN M hM)

/-- abstract Parseval: any kernel with `E Eᴴ = 1` preserves `Σ x · conj x` -/
theorem parseval_of_gram {ι κ : Type} [DecidableEq ι] (s : Finset ι) (t : Finset κ) (U : κ → ι → K) (cj : K →+* K)
    (hG : IsGram s t U cj) (x : ι → K) :
    ∑ k ∈ t, (∑ j ∈ s, U k j * x j) * cj (∑ j ∈ s, U k j * x j) = ∑ j ∈ s, x j * cj (x j) :=
  gram_parseval s t U cj hG x

/-! ## FFT propagation: unitary, mutually inverse, padding keeps the energy -/

/-- `focus` (kernel `e`) and `unfocus` (kernel `e(−·)`, see `he.reflect`) conserve energy, zero padding included: for
every input shape `(m,n)` and every padded shape `(M',N') ≥ (m,n)` of any parity, with the pad offset of the current
`pad2d` -/
theorem centered_dft_parseval (he : IsChar e) (hf : IsFaithful e) (cj : K →+* K) (hc : IsConj cj e nrm) (hN : NrmSq nrm)
    (m n M' N' : Nat) (hm : m ≤ M') (hn : n ≤ N') (hM : 0 < M') (hN' : 0 < N') (f : Array (Array K)) :
    energy2 cj M' N' (rd2 (fftRoute2 e nrm (m, n) (M', N') (padLo (m : Int) (M' : Int), padLo (n : Int) (N' : Int)) f))
      = energy2 cj m n (rd2 f) := by
  rw [(gen_pad_offset m M').1, (gen_pad_offset n N').1]
  exact fftRoute2_parseval nrm he hf cj hc m n M' N' hm hn hM hN' (hN M' hM) (hN N' hN') f

/-- zero padding by itself leaves the total energy unchanged (every shape, every target shape `≥` it) -/
theorem pad_energy (cj : K →+* K) (m n M' N' : Nat) (hm : m ≤ M') (hn : n ≤ N') (f : Array (Array K)) :
    energy2 cj M' N' (rd2 (pad2 (m, n) (M', N') (padLo (m : Int) (M' : Int), padLo (n : Int) (N' : Int)) f))
      = energy2 cj m n (rd2 f) := by
  rw [(gen_pad_offset m M').1, (gen_pad_offset n N').1]
  apply pad2_energy cj m n M' N' <;> simp only [padOffset, cen] <;> omega

/-- `unfocus(focus(f)) = f` for every shape (square or not, odd or even) -/
theorem centered_idft_dft (he : IsChar e) (hf : IsFaithful e) (cj : K →+* K) (hc : IsConj cj e nrm) (hN : NrmSq nrm)
    (m n : Nat) (hm : 0 < m) (hn : 0 < n) (f : Array (Array K)) (j i : Nat) (hj : j < m) (hi : i < n) :
    rd2 (focusUnfocus e nrm (m, n) f) j i = rd2 f j i :=
  focusUnfocus_id nrm he hf cj hc m n hm hn (hN m hm) (hN n hn) f j i hj hi

/-- `focus(unfocus(F)) = F`: the same theorem for the reflected kernel -/
theorem centered_dft_idft (he : IsChar e) (hf : IsFaithful e) (cj : K →+* K) (hc : IsConj cj e nrm) (hN : NrmSq nrm)
    (m n : Nat) (hm : 0 < m) (hn : 0 < n) (F : Array (Array K)) (j i : Nat) (hj : j < m) (hi : i < n) :
    rd2 (fftRoute2 e nrm (m, n) (m, n) (0, 0) (fftRoute2 (fun t => e (-t)) nrm (m, n) (m, n) (0, 0) F)) j i = rd2 F j i := by
  have := focusUnfocus_id (e := fun t => e (-t)) nrm he.reflect (isFaithful_reflect hf) cj (isConj_reflect nrm cj hc)
    m n hm hn (hN m hm) (hN n hn) F j i hj hi
  simpa [focusUnfocus] using this

/-! ## matrix DFT / chirp-Z onto the full band, and back -/

/-- `dft2` / `idft2` onto the full Nyquist band (`M = m·Qy`, `N = n·Qx` integers, `Q ≥ 1`) conserve energy for every
shift; the wiring, exponent scalars and norms are those of the current source -/
theorem band_complete_energy (he : IsChar e) (hf : IsFaithful e) (cj : K →+* K) (hc : IsConj cj e nrm) (hN : NrmSq nrm)
    (m n M N : Nat) (Qy Qx s0 s1 : R) (hQy : (m : R) * Qy = M) (hQx : (n : R) * Qx = N)
    (hm : m ≤ M) (hn : n ≤ N) (hM : 0 < M) (hN' : 0 < N) (f : Nat → Nat → K) :
    energy2 cj M N (mdft2 e nrm mdftEoutWiring mdftEinWiring (m, n) (M, N)
        (mdftEoutScale (m : R) (n : R) Qy Qx) (mdftEinScale (m : R) (n : R) Qy Qx)
        (mdftEinNormSq (m : R) (n : R) Qy Qx) (mdftEoutNormSq (m : R) (n : R) Qy Qx) (s0, s1) f)
      = energy2 cj m n f := by
  obtain ⟨h1, h2, h3, h4⟩ := gen_mdft_scale (R := R) m n Qy Qx
  have hay : alphaOf m Qy = 1 / (M : R) := by rw [alphaOf_eq, hQy]
  have hax : alphaOf n Qx = 1 / (N : R) := by rw [alphaOf_eq, hQx]
  rw [gen_mdft_wiring.1, gen_mdft_wiring.2.1, h1, h2, h3, h4]
  exact mdft2_parseval nrm he hf cj hc m n M N hm hn hM hN' _ _ s0 s1 hay hax
    (by rw [hay]; exact hN M hM) (by rw [hax]; exact hN N hN') f

/-- band-complete round trip, matrix DFT: `idft2(dft2(f, Q, (M,N), shift), 1, (m,n), shift) = f` whenever
`M = m·Qy ≥ m`, `N = n·Qx ≥ n`, for every shift: both legs subtract the same sample shift from the same coordinate
vectors, so the unit phases cancel -/
theorem band_complete_roundtrip (he : IsChar e) (hf : IsFaithful e) (cj : K →+* K) (hc : IsConj cj e nrm) (hN : NrmSq nrm)
    (m n M N : Nat) (Qy Qx s0 s1 : R) (hQy : (m : R) * Qy = M) (hQx : (n : R) * Qx = N)
    (hm : m ≤ M) (hn : n ≤ N) (hM : 0 < M) (hN' : 0 < N) (f : Nat → Nat → K) (j i : Nat) (hj : j < m) (hi : i < n) :
    mdftRoundTrip e nrm (m, n) (M, N) (mdftEoutScale (m : R) (n : R) Qy Qx) (mdftEinScale (m : R) (n : R) Qy Qx)
        (mdftEoutScale (M : R) (N : R) 1 1) (mdftEinScale (M : R) (N : R) 1 1) (s0, s1) f j i = f j i := by
  obtain ⟨h1, h2, _, _⟩ := gen_mdft_scale (R := R) m n Qy Qx
  obtain ⟨g1, g2, _, _⟩ := gen_mdft_scale (R := R) M N 1 1
  have hay : alphaOf m Qy = 1 / (M : R) := by rw [alphaOf_eq, hQy]
  have hax : alphaOf n Qx = 1 / (N : R) := by rw [alphaOf_eq, hQx]
  have hby : alphaOf M (1 : R) = 1 / (M : R) := by rw [alphaOf_eq, mul_one]
  have hbx : alphaOf N (1 : R) = 1 / (N : R) := by rw [alphaOf_eq, mul_one]
  rw [h1, h2, g1, g2, hay, hax, hby, hbx]
  exact mdft2_roundtrip nrm he hf cj hc m n M N hm hn hM hN' _ _ s0 s1 rfl rfl (hN M hM) (hN N hN') f j i hj hi

theorem mdft2_congr (w0 w1 : AxisWiring) (shp samples : Nat × Nat) (sc0 sc1 a0 a1 : R) (shift : R × R)
    {f g : Nat → Nat → K} (h : ∀ j i, j < shp.1 → i < shp.2 → f j i = g j i) (k l : Nat) :
    mdft2 e nrm w0 w1 shp samples sc0 sc1 a0 a1 shift f k l = mdft2 e nrm w0 w1 shp samples sc0 sc1 a0 a1 shift g k l := by
  simp only [mdft2, sumTo_eq]
  exact Finset.sum_congr rfl fun j hj => Finset.sum_congr rfl fun i hi => by
    rw [h j i (Finset.mem_range.1 hj) (Finset.mem_range.1 hi)]

/-- band-complete round trip, chirp-Z: `iczt2(czt2(f, Q, (M,N), shift), 1, (m,n), shift) = f`, both legs exactly as the
source computes them (Bluestein through `fft2`/`ifft2` of any admissible lengths) -/
theorem band_complete_roundtrip_czt (he : IsChar e) (hf : IsFaithful e) (cj : K →+* K) (hc : IsConj cj e nrm)
    (hN : NrmSq nrm) (m n M N K1 L1 K2 L2 : Nat) (Qy Qx s0 s1 : R) (hQy : (m : R) * Qy = M) (hQx : (n : R) * Qx = N)
    (hm0 : 0 < m) (hn0 : 0 < n) (hm : m ≤ M) (hn : n ≤ N)
    (hK1 : m + M ≤ K1 + 1) (hL1 : n + N ≤ L1 + 1) (hK2 : M + m ≤ K2 + 1) (hL2 : N + n ≤ L2 + 1)
    (f : Array (Array K)) (j i : Nat) (hj : j < m) (hi : i < n) :
    rd2 (iczt2 cj e nrm cztRowWiring cztColWiring (cztGlueGen M m K2) (cztGlueGen N n L2) (M, N) (m, n) (K2, L2)
          (cztRowAlpha (M : R) (N : R) 1 1) (cztColAlpha (M : R) (N : R) 1 1) (s0, s1)
          (czt2 e nrm cztRowWiring cztColWiring (cztGlueGen m M K1) (cztGlueGen n N L1) (m, n) (M, N) (K1, L1)
            (cztRowAlpha (m : R) (n : R) Qy Qx) (cztColAlpha (m : R) (n : R) Qy Qx) (s0, s1) f)) j i
      = rd2 f j i := by
  have hM : 0 < M := by omega
  have hN' : 0 < N := by omega
  obtain ⟨a1, a2⟩ := gen_czt_alpha (R := R) m n Qy Qx
  obtain ⟨b1, b2⟩ := gen_czt_alpha (R := R) M N 1 1
  have hay : alphaOf m Qy = 1 / (M : R) := by rw [alphaOf_eq, hQy]
  have hax : alphaOf n Qx = 1 / (N : R) := by rw [alphaOf_eq, hQx]
  have hby : alphaOf M (1 : R) = 1 / (M : R) := by rw [alphaOf_eq, mul_one]
  have hbx : alphaOf N (1 : R) = 1 / (N : R) := by rw [alphaOf_eq, mul_one]
  rw [gen_czt_wiring.1, gen_czt_wiring.2.1, a1, a2, b1, b2, gen_czt_glue, gen_czt_glue, gen_czt_glue, gen_czt_glue,
    hay, hax, hby, hbx]
  rw [iczt2_eq_inverse_mdft2 nrm he hf cj hc M N m n K2 L2 _ _ s0 s1 _ j i hM hN' hj hi hK2 hL2]
  rw [mdft2_congr nrm _ _ (M, N) (m, n) _ _ _ _ _ (fun k l hk hl =>
    czt2_eq_mdft2 nrm he hf m n M N K1 L1 _ _ s0 s1 f k l hm0 hn0 hk hl hK1 hL1)]
  exact mdft2_roundtrip nrm he hf cj hc m n M N hm hn hM hN' _ _ s0 s1 rfl rfl (hN M hM) (hN N hN') (rd2 f) j i hj hi

/-- `czt2` onto the full band conserves energy as well (the transform exactly as computed, any admissible FFT lengths) -/
theorem band_complete_energy_czt (he : IsChar e) (hf : IsFaithful e) (cj : K →+* K) (hc : IsConj cj e nrm) (hN : NrmSq nrm)
    (m n M N K1 L1 : Nat) (Qy Qx s0 s1 : R) (hQy : (m : R) * Qy = M) (hQx : (n : R) * Qx = N)
    (hm0 : 0 < m) (hn0 : 0 < n) (hm : m ≤ M) (hn : n ≤ N) (hK1 : m + M ≤ K1 + 1) (hL1 : n + N ≤ L1 + 1)
    (f : Array (Array K)) :
    energy2 cj M N (rd2 (czt2 e nrm cztRowWiring cztColWiring (cztGlueGen m M K1) (cztGlueGen n N L1) (m, n) (M, N) (K1, L1)
        (cztRowAlpha (m : R) (n : R) Qy Qx) (cztColAlpha (m : R) (n : R) Qy Qx) (s0, s1) f))
      = energy2 cj m n (rd2 f) := by
  have hM : 0 < M := by omega
  have hN' : 0 < N := by omega
  obtain ⟨a1, a2⟩ := gen_czt_alpha (R := R) m n Qy Qx
  have hay : alphaOf m Qy = 1 / (M : R) := by rw [alphaOf_eq, hQy]
  have hax : alphaOf n Qx = 1 / (N : R) := by rw [alphaOf_eq, hQx]
  rw [gen_czt_wiring.1, gen_czt_wiring.2.1, a1, a2, gen_czt_glue, gen_czt_glue]
  rw [energy2_congr cj M N (fun k l hk hl =>
    czt2_eq_mdft2 nrm he hf m n M N K1 L1 _ _ s0 s1 f k l hm0 hn0 hk hl hK1 hL1)]
  exact mdft2_parseval nrm he hf cj hc m n M N hm hn hM hN' _ _ s0 s1 hay hax
    (by rw [hay]; exact hN M hM) (by rw [hax]; exact hN N hN') (rd2 f)

/-! ## angular spectrum (free space) -/

/-- the transfer function has unit modulus for every wavelength, spacing, distance (any sign), shape and sample -/
theorem asp_unit_modulus (he : IsChar e) (cj : K →+* K) (hc : IsConj cj e nrm) (shape : Nat × Nat) (wvl dx z : R) (p q : Nat) :
    cj (aspTf2 e shape wvl dx z p q) * aspTf2 e shape wvl dx z p q = 1 :=
  aspTf2_unit nrm he cj hc shape wvl dx z p q

/-- at zero distance the transfer function is identically 1 -/
theorem asp_zero (he : IsChar e) (shape : Nat × Nat) (wvl dx : R) (p q : Nat) : aspTf2 e shape wvl dx 0 p q = 1 :=
  aspTf2_zero he shape wvl dx p q

/-- transfer functions multiply when distances add -/
theorem asp_add (he : IsChar e) (shape : Nat × Nat) (wvl dx z1 z2 : R) (p q : Nat) :
    aspTf2 e shape wvl dx (z1 + z2) p q = aspTf2 e shape wvl dx z1 p q * aspTf2 e shape wvl dx z2 p q :=
  aspTf2_add he shape wvl dx z1 z2 p q

/-- the transfer function at `−z` is the inverse of the one at `z` -/
theorem asp_neg (he : IsChar e) (shape : Nat × Nat) (wvl dx z : R) (p q : Nat) :
    aspTf2 e shape wvl dx (-z) p q * aspTf2 e shape wvl dx z p q = 1 :=
  aspTf2_neg he shape wvl dx z p q

/-- free-space propagation `ifft2(fft2(f)·tf(z))` conserves energy: every shape, wavelength, spacing, distance -/
theorem asp_energy (he : IsChar e) (hf : IsFaithful e) (cj : K →+* K) (hc : IsConj cj e nrm) (m n : Nat)
    (hm : 0 < m) (hn : 0 < n) (wvl dx z : R) (f : Array (Array K)) :
    energy2 cj m n (rd2 (asp e (m, n) wvl dx z f)) = energy2 cj m n (rd2 f) :=
  aspApply_energy nrm he hf cj hc m n hm hn _ (fun p q _ _ => aspTf2_unit nrm he cj hc (m, n) wvl dx z p q) f

/-- with `Q > 1` the field is zero-padded first: the output (on the padded grid) still has the energy of the input -/
theorem asp_energy_padded (he : IsChar e) (hf : IsFaithful e) (cj : K →+* K) (hc : IsConj cj e nrm) (m n M' N' : Nat)
    (hm : m ≤ M') (hn : n ≤ N') (hM : 0 < M') (hN' : 0 < N') (wvl dx z : R) (f : Array (Array K)) :
    energy2 cj M' N' (rd2 (aspPadded e (m, n) (M', N') (padLo (m : Int) (M' : Int), padLo (n : Int) (N' : Int)) wvl dx z f))
      = energy2 cj m n (rd2 f) := by
  unfold aspPadded
  rw [asp_energy nrm he hf cj hc M' N' hM hN' wvl dx z, pad_energy cj m n M' N' hm hn f]

/-- it is the identity at zero distance -/
theorem asp_identity_at_zero (he : IsChar e) (hf : IsFaithful e) (cj : K →+* K) (hc : IsConj cj e nrm) (m n : Nat)
    (wvl dx : R) (f : Array (Array K)) (j i : Nat) (hj : j < m) (hi : i < n) :
    rd2 (asp e (m, n) wvl dx 0 f) j i = rd2 f j i :=
  aspApply_one nrm he hf cj hc m n _ (fun p q _ _ => aspTf2_zero he (m, n) wvl dx p q) f j i hj hi

/-- it composes additively in distance: `A_{z1}(A_{z2} f) = A_{z1+z2} f` -/
theorem asp_additive (he : IsChar e) (hf : IsFaithful e) (cj : K →+* K) (hc : IsConj cj e nrm) (m n : Nat)
    (wvl dx z1 z2 : R) (f : Array (Array K)) (j i : Nat) (hj : j < m) (hi : i < n) :
    rd2 (asp e (m, n) wvl dx z1 (asp e (m, n) wvl dx z2 f)) j i = rd2 (asp e (m, n) wvl dx (z1 + z2) f) j i := by
  unfold asp
  rw [aspApply_comp nrm he hf cj hc m n _ _ f j i hj hi]
  have : (fun p q => aspTf2 e (m, n) wvl dx z2 p q * aspTf2 e (m, n) wvl dx z1 p q) = aspTf2 e (m, n) wvl dx (z1 + z2) := by
    funext p q; rw [aspTf2_add he]; ring
  rw [this]

/-- it undoes itself at the negated distance: `A_{−z}(A_z f) = f` -/
theorem asp_inverse (he : IsChar e) (hf : IsFaithful e) (cj : K →+* K) (hc : IsConj cj e nrm) (m n : Nat)
    (wvl dx z : R) (f : Array (Array K)) (j i : Nat) (hj : j < m) (hi : i < n) :
    rd2 (asp e (m, n) wvl dx (-z) (asp e (m, n) wvl dx z f)) j i = rd2 f j i := by
  rw [asp_additive nrm he hf cj hc m n wvl dx (-z) z f j i hj hi, neg_add_cancel]
  exact asp_identity_at_zero nrm he hf cj hc m n wvl dx f j i hj hi

/-! ## non-vacuity -/

/-- `√·` is a square root on reciprocals of sample counts -/
theorem sqrtNrm_nrmSq : NrmSq sqrtNrm := by
  intro N hN
  rw [sqrtNrm_sq _ (by positivity)]
  push_cast; rfl

example : IsChar expKernel ∧ IsFaithful expKernel ∧ IsConj (starRingEnd ℂ) expKernel sqrtNrm ∧ NrmSq sqrtNrm :=
  ⟨expKernel_isChar, expKernel_isFaithful, expKernel_isConj, sqrtNrm_nrmSq⟩

/-- the round-trip theorem instantiated: `6×4`, `Q = (1.5, 2)` → `9×8` and back, shift `(1.5, −2.25)` -/
example (f : Nat → Nat → ℂ) (j i : Nat) (hj : j < 6) (hi : i < 4) :
    mdftRoundTrip expKernel sqrtNrm (6, 4) (9, 8) (mdftEoutScale ((6 : ℕ) : ℝ) ((4 : ℕ) : ℝ) 1.5 2)
        (mdftEinScale ((6 : ℕ) : ℝ) ((4 : ℕ) : ℝ) 1.5 2)
        (mdftEoutScale ((9 : ℕ) : ℝ) ((8 : ℕ) : ℝ) 1 1) (mdftEinScale ((9 : ℕ) : ℝ) ((8 : ℕ) : ℝ) 1 1) (1.5, -2.25) f j i = f j i :=
  band_complete_roundtrip sqrtNrm expKernel_isChar expKernel_isFaithful _ expKernel_isConj sqrtNrm_nrmSq
    6 4 9 8 1.5 2 1.5 (-2.25) (by norm_num) (by norm_num) (by omega) (by omega) (by omega) (by omega) f j i hj hi

end C02
