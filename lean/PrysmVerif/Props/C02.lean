import PrysmVerif.Generated.C02
import PrysmVerif.Lemmas.C02Asp
import PrysmVerif.Lemmas.C02Param
import PrysmVerif.Lemmas.C02Pad
import PrysmVerif.Lemmas.C01Exp
import PrysmVerif.Lemmas.PyArith
/-!
# C02 — propagators conserve energy and invert each other

Setting as in `Props/C01.lean`: `R`, `K` fields of characteristic zero, `e : R → K` with the character laws `IsChar`
and faithfulness `IsFaithful`, `cj : K →+* K` with the laws of complex conjugation `IsConj cj e nrm`
(`cj (e t) = e (−t)`, `cj (nrm a) = nrm a`, involutive), `nrm` with `nrm(1/N)² = 1/N` where needed (`NrmSq`).
Energy is `Σ x · cj x`.  Every statement is for ALL shapes (square or not, any parities), all padded / output sizes,
all shifts, all inputs; the last section instantiates every hypothesis with `exp(−2πi t)`, `√·`, `conj`.

The property theorems are stated over the parameterised routes of the model (`fftRoute2G`, `mdft2G`, `czt2G`, `iczt2G`,
`aspTf2G`, `aspApplyG`) applied to the values regenerated from the source into `Generated.C02` (flags of `focus`/`unfocus`,
pad offset, wiring / signs / stage order / constants of both engines, the coefficient, signs and axis order of the
transfer function, the `norm=` flags of both branches of `angular_spectrum`).  The free-space laws need ONE fact about the
source — the generated coefficient is additive in `z` (`gen_asp_coef_linear`) — and hold for any frequency table.
-/
set_option linter.unusedTactic false
set_option linter.unreachableTactic false
set_option linter.unusedSectionVars false
set_option linter.unusedVariables false

namespace C02
open C01 Model.C01 Model.C02 Generated.C02

variable {R K : Type} [Field R] [CharZero R] [Field K] [CharZero K]
variable {e : R → K} (nrm : R → K)

/-- `nrm` is a square root on the reciprocals of sample counts: `nrm(1/N)² = 1/N` (all the energy theorems need) -/
def NrmSq (nrm : R → K) : Prop := ∀ N : Nat, 0 < N → nrm (1 / (N : R)) * nrm (1 / (N : R)) = 1 / (N : K)

/-! ## translated obligations (definitions regenerated from the current source into `Generated.C02`) -/

/-- `pad2d` writes the data at `[N//2 − n//2, N//2 − n//2 + n)` -/
theorem gen_pad_offset (n N : Nat) :
    padLo (n : Int) (N : Int) = padOffset n N ∧ padHi (n : Int) (N : Int) = padOffset n N + n := by
  constructor <;> simp only [padLo, padHi, padOffset, cen] <;> omega

/-- for `Q ≥ 1` the default padded length `⌈n·Q⌉` is at least the input length, so the hypotheses `m ≤ M'`, `n ≤ N'` of the
energy theorems are met by every `pad2d(x, Q)` / `focus(x, Q)` call with `Q ≥ 1` -/
theorem gen_pad_outlen_ge (n : Nat) (Q : Rat) (hQ : 1 ≤ Q) : (n : Rat) ≤ padOutLen n Q := by
  have h0 : padOutLen n Q = ((⌈(n : Rat) * Q⌉ : Int) : Rat) := by simp only [padOutLen, Rat.ceil_eq_intCeil]
  rw [h0]
  have h1 : (n : Rat) ≤ (n : Rat) * Q := by
    have : (0 : Rat) ≤ n := Nat.cast_nonneg n
    nlinarith
  exact le_trans h1 (Int.le_ceil _)

/-- `focus = fftshift(fft2(ifftshift(·), norm='ortho'))`, `unfocus` the same with `ifft2` (consumed by the energy / inverse
theorems, whose subject is the route with these flags) -/
theorem gen_route_flags : focusFlagsGen = focusFlagsRef ∧ unfocusFlagsGen = unfocusFlagsRef := by decide

/-- matrix DFT: wiring of the two bases, kernel sign, `dft2` forward / `idft2` inverse -/
theorem gen_mdft_wiring :
    mdftEoutWiring = wiringAxis0 ∧ mdftEinWiring = wiringAxis1 ∧ mdftFwdSign = -1 ∧ mdftFwdSignEin = mdftFwdSign ∧
    mdftDft2IsFwd = true ∧ mdftIdft2IsFwd = false := by decide

/-- matrix DFT: exponent scalars `1/(m·Q[0])`, `1/(n·Q[1])`; the norm factors are `√alphay`, `√alphax`, so they
multiply to `(m·Qy·n·Qx)^(−1/2)` -/
theorem gen_mdft_scale (m n : Nat) (Q0 Q1 : R) :
    mdftEoutScale (m : R) (n : R) Q0 Q1 = alphaOf m Q0 ∧ mdftEinScale (m : R) (n : R) Q0 Q1 = alphaOf n Q1 ∧
    mdftEinNormSq (m : R) (n : R) Q0 Q1 = alphaOf m Q0 ∧ mdftEoutNormSq (m : R) (n : R) Q0 Q1 = alphaOf n Q1 := by
  refine ⟨?_, ?_, ?_, ?_⟩ <;>
    simp [mdftEoutScale, mdftEinScale, mdftEinNormSq, mdftEoutNormSq, alphaOf] <;> ring

/-- chirp-Z: index glue, signs, order of the statements, wiring, per-axis constants (all consumed by the chirp-Z round trip) -/
theorem gen_czt_glue (n M L : Nat) : cztGlueGen n M L = cztGlue n M L := by
  have ext : ∀ a b : CztGlue, a.start = b.start → a.j1Lo = b.j1Lo → a.h1Lo = b.h1Lo → a.h1Hi = b.h1Hi →
      a.j2Lo = b.j2Lo → a.h2Lo = b.h2Lo → a.h2Hi = b.h2Hi → a.zLo = b.zLo → a.zHi = b.zHi → a = b := by
    intro a b; cases a; cases b; simp only [CztGlue.mk.injEq]; intros; simp_all
  apply ext <;> simp only [cztGlueGen, cztGlue, cztStart, cen] <;> omega

theorem gen_czt_params :
    cztSignsGen = cztSignsRef ∧ cztStagesGen = cztStagesRef ∧ cztRowWiring = wiringAxis0 ∧ cztColWiring = wiringAxis1 := by
  decide

theorem gen_czt_alpha (m n : Nat) (Q0 Q1 : R) :
    cztRowAlpha (m : R) (n : R) Q0 Q1 = alphaOf m Q0 ∧ cztColAlpha (m : R) (n : R) Q0 Q1 = alphaOf n Q1 := by
  constructor <;> simp [cztRowAlpha, cztColAlpha, alphaOf] <;> ring

theorem gen_czt_fftlen (m n M N : Int) :
    cztRowFftLenArg m n M N = m + M - 1 ∧ cztColFftLenArg m n M N = n + N - 1 := by
  constructor <;> simp only [cztRowFftLenArg, cztColFftLenArg] <;> omega

/-- `angular_spectrum_transfer_function`: the coefficient of `π k²` in the exponent is ADDITIVE in `z` (the one fact about
the source that the free-space laws consume) … -/
theorem gen_asp_coef_linear : CoefAdditive (aspCoef (K := R)) := by
  intro wvl z1 z2
  simp only [aspCoef, ofInt_eq, Num.ofFrac] <;> push_cast <;> ring

/-- … and it is `(λ/1000)·z` (wavelength µm → mm), with the minus sign on both axes, rows from `samples[0]`, columns from
`samples[1]`: the generated transfer function IS the model's `aspTf2` (what the driver runs) -/
theorem gen_asp_tf (e : R → K) (shape : Nat × Nat) (wvl dx z : R) (p q : Nat) :
    aspTf2G aspCoef aspSignRows aspSignCols aspRowsSamplesIdx aspColsSamplesIdx e shape wvl dx z p q
      = aspTf2 e shape wvl dx z p q := by
  have hs : aspSignRows = -1 ∧ aspSignCols = -1 ∧ aspRowsSamplesIdx = 0 ∧ aspColsSamplesIdx = 1 := by decide
  obtain ⟨h1, h2, h3, h4⟩ := hs
  rw [h1, h2, h3, h4]
  simp only [aspTf2G, aspTf2, aspTf1G, aspTf1, kernS_neg_one, sel, if_true, one_ne_zero, if_false]
  have harg : ∀ kk : R, (aspCoef wvl z * kk) / Num.ofInt 2 = aspArg wvl z kk := by
    intro kk
    simp only [aspCoef, aspArg, ofInt_eq, Num.ofFrac] <;> push_cast <;> ring
  rw [harg, harg]

/-- both branches of `angular_spectrum` (precomputed `tf=` and computed from `z`) are `ifft2(fft2(field)·tf)` with the default
normalisation; `Wavefront.free_space` hands `self.data, wavelength, dx, dz, Q, tf` to it -/
theorem gen_asp_operator : aspOpFlagsTf = aspOpFlagsRef ∧ aspOpFlagsZ = aspOpFlagsRef ∧ freeSpaceDelegates = true := by decide

/-- the returned transfer function is the outer product of the two exponentials at EVERY frequency sample: no element is
overwritten, masked, clipped or selected after the exponential (so `asp_unit_modulus` speaks about every sample of the
array the code returns, including the part of the band beyond `1/λ` at sub-wavelength sampling) -/
theorem gen_asp_every_sample : aspTfAppliedToEverySample = true := by decide

/-- purity (structural): no entry point of the three routes / of free space writes to its array argument — no augmented
assignment or subscript store on the parameter while it still names the caller's array, no `out=<param>`, no
`overwrite_x=True` handed to the FFT library (the model routes are pure functions of their input) -/
theorem gen_inputs_not_written :
    fttoolsEntryPointsDoNotWriteInputs = true ∧ propagationEntryPointsDoNotWriteInputs = true := by decide

/-! ## orthogonality -/

/-- (re-export of `C01.IsChar.ortho`) root-of-unity orthogonality `Σ_{k<L} e(k·d/L) = L·[L ∣ d]`, derived from the character laws + faithfulness
(geometric sum) -/
theorem char_orthogonality (he : IsChar e) (hf : IsFaithful e) (L : Nat) (hL : 0 < L) (d : ℤ) :
    ∑ k ∈ Finset.range L, e ((k : R) * ((d : R) / (L : R))) = if (L : ℤ) ∣ d then (L : K) else 0 :=
  he.ortho hf L hL d

/-- `E Eᴴ = 1`: the Gram matrix of the normalised (shifted, centred) DFT kernel over one full period is the identity —
the hypothesis of the abstract Parseval theorem, proved from the orthogonality law -/
theorem kernel_gram_from_orthogonality (he : IsChar e) (hf : IsFaithful e) (cj : K →+* K) (hc : IsConj cj e nrm)
    (n M : Nat) (hn : n ≤ M) (hM : 0 < M) (s : R) (hN : NrmSq nrm) :
    IsGram (Finset.range n) (Finset.range M) (fun k j => nrm (1 / (M : R)) * basisEl e n M (1 / (M : R)) s k j) cj :=
  basis_gram nrm he hf cj hc n M hn hM _ s rfl (hN M hM)

/-- (re-export of `C01.gram_parseval`) abstract Parseval: any kernel with `E Eᴴ = 1` preserves `Σ x · conj x` -/
theorem parseval_of_gram {ι κ : Type} [DecidableEq ι] (s : Finset ι) (t : Finset κ) (U : κ → ι → K) (cj : K →+* K)
    (hG : IsGram s t U cj) (x : ι → K) :
    ∑ k ∈ t, (∑ j ∈ s, U k j * x j) * cj (∑ j ∈ s, U k j * x j) = ∑ j ∈ s, x j * cj (x j) :=
  gram_parseval s t U cj hG x

/-! ## FFT propagation: unitary, mutually inverse, padding keeps the energy -/

/-- `focus` conserves energy, zero padding included: for every input shape `(m,n)` and every padded shape `(M',N') ≥ (m,n)`
of any parity, with the flags and the pad offset of the current source -/
theorem centered_dft_parseval (he : IsChar e) (hf : IsFaithful e) (cj : K →+* K) (hc : IsConj cj e nrm) (hN : NrmSq nrm)
    (m n M' N' : Nat) (hm : m ≤ M') (hn : n ≤ N') (hM : 0 < M') (hN' : 0 < N') (f : Array (Array K)) :
    energy2 cj M' N' (rd2 (fftRoute2G focusFlagsGen e nrm (m, n) (M', N') (padLo (m : Int) (M' : Int), padLo (n : Int) (N' : Int)) f))
      = energy2 cj m n (rd2 f) := by
  rw [(gen_pad_offset m M').1, (gen_pad_offset n N').1, gen_route_flags.1, fftRoute2G_focus_ref]
  exact fftRoute2_parseval nrm he hf cj hc m n M' N' hm hn hM hN' (hN M' hM) (hN N' hN') f

/-- `unfocus` conserves energy likewise -/
theorem centered_idft_parseval (he : IsChar e) (hf : IsFaithful e) (cj : K →+* K) (hc : IsConj cj e nrm) (hN : NrmSq nrm)
    (m n M' N' : Nat) (hm : m ≤ M') (hn : n ≤ N') (hM : 0 < M') (hN' : 0 < N') (f : Array (Array K)) :
    energy2 cj M' N' (rd2 (fftRoute2G unfocusFlagsGen e nrm (m, n) (M', N') (padLo (m : Int) (M' : Int), padLo (n : Int) (N' : Int)) f))
      = energy2 cj m n (rd2 f) := by
  rw [(gen_pad_offset m M').1, (gen_pad_offset n N').1, gen_route_flags.2, fftRoute2G_unfocus_ref]
  exact fftRoute2_parseval (e := fun t => e (-t)) nrm he.reflect (isFaithful_reflect hf) cj (isConj_reflect nrm cj hc)
    m n M' N' hm hn hM hN' (hN M' hM) (hN N' hN') f

/-- zero padding by itself leaves the total energy unchanged (every shape, every target shape `≥` it) -/
theorem pad_energy (cj : K →+* K) (m n M' N' : Nat) (hm : m ≤ M') (hn : n ≤ N') (f : Array (Array K)) :
    energy2 cj M' N' (rd2 (pad2 (m, n) (M', N') (padLo (m : Int) (M' : Int), padLo (n : Int) (N' : Int)) f))
      = energy2 cj m n (rd2 f) := by
  rw [(gen_pad_offset m M').1, (gen_pad_offset n N').1]
  apply pad2_energy cj m n M' N' <;> simp only [padOffset, cen] <;> omega

/-- `unfocus(focus(f, Q=1), Q=1) = f` for every shape (square or not, odd or even); routes with the generated flags -/
theorem centered_idft_dft (he : IsChar e) (hf : IsFaithful e) (cj : K →+* K) (hc : IsConj cj e nrm) (hN : NrmSq nrm)
    (m n : Nat) (hm : 0 < m) (hn : 0 < n) (f : Array (Array K)) (j i : Nat) (hj : j < m) (hi : i < n) :
    rd2 (fftRoute2G unfocusFlagsGen e nrm (m, n) (m, n) (0, 0) (fftRoute2G focusFlagsGen e nrm (m, n) (m, n) (0, 0) f)) j i
      = rd2 f j i := by
  rw [gen_route_flags.1, gen_route_flags.2, fftRoute2G_focus_ref, fftRoute2G_unfocus_ref]
  exact focusUnfocus_id nrm he hf cj hc m n hm hn (hN m hm) (hN n hn) f j i hj hi

/-- `focus(unfocus(F, 1), 1) = F` -/
theorem centered_dft_idft (he : IsChar e) (hf : IsFaithful e) (cj : K →+* K) (hc : IsConj cj e nrm) (hN : NrmSq nrm)
    (m n : Nat) (hm : 0 < m) (hn : 0 < n) (F : Array (Array K)) (j i : Nat) (hj : j < m) (hi : i < n) :
    rd2 (fftRoute2G focusFlagsGen e nrm (m, n) (m, n) (0, 0) (fftRoute2G unfocusFlagsGen e nrm (m, n) (m, n) (0, 0) F)) j i
      = rd2 F j i := by
  rw [gen_route_flags.1, gen_route_flags.2, fftRoute2G_focus_ref, fftRoute2G_unfocus_ref]
  have := focusUnfocus_id (e := fun t => e (-t)) nrm he.reflect (isFaithful_reflect hf) cj (isConj_reflect nrm cj hc)
    m n hm hn (hN m hm) (hN n hn) F j i hj hi
  simpa [focusUnfocus] using this

/-- `focus(f, Q)` is `focus(pad2d(f, Q), 1)` (and likewise `unfocus`): with the flags and the pad offset of the current
source the padded route equals the unpadded route applied to the padded array, as arrays, for every shape and padded shape -/
theorem focus_is_focus_of_pad (m n M' N' : Nat) (f : Array (Array K)) :
    fftRoute2G focusFlagsGen e nrm (m, n) (M', N') (padLo (m : Int) (M' : Int), padLo (n : Int) (N' : Int)) f
        = fftRoute2G focusFlagsGen e nrm (M', N') (M', N') (0, 0)
            (pad2 (m, n) (M', N') (padLo (m : Int) (M' : Int), padLo (n : Int) (N' : Int)) f) ∧
    fftRoute2G unfocusFlagsGen e nrm (m, n) (M', N') (padLo (m : Int) (M' : Int), padLo (n : Int) (N' : Int)) f
        = fftRoute2G unfocusFlagsGen e nrm (M', N') (M', N') (0, 0)
            (pad2 (m, n) (M', N') (padLo (m : Int) (M' : Int), padLo (n : Int) (N' : Int)) f) := by
  rw [gen_route_flags.1, gen_route_flags.2, fftRoute2G_focus_ref, fftRoute2G_focus_ref, fftRoute2G_unfocus_ref,
    fftRoute2G_unfocus_ref]
  exact ⟨fftRoute2_pad_first nrm _ _ _ f, fftRoute2_pad_first nrm _ _ _ f⟩

/-- `unfocus(focus(f, Q), 1) = pad2d(f, Q)`: propagating a padded focus back returns the zero-padded field, sample for
sample, for every input shape and every padded shape `(M', N')` of any parity (so for every `Q ≥ 1`, integer or not) -/
theorem unfocus_focus_padded (he : IsChar e) (hf : IsFaithful e) (cj : K →+* K) (hc : IsConj cj e nrm) (hN : NrmSq nrm)
    (m n M' N' : Nat) (hM : 0 < M') (hN' : 0 < N') (f : Array (Array K)) (j i : Nat) (hj : j < M') (hi : i < N') :
    rd2 (fftRoute2G unfocusFlagsGen e nrm (M', N') (M', N') (0, 0)
          (fftRoute2G focusFlagsGen e nrm (m, n) (M', N') (padLo (m : Int) (M' : Int), padLo (n : Int) (N' : Int)) f)) j i
      = rd2 (pad2 (m, n) (M', N') (padLo (m : Int) (M' : Int), padLo (n : Int) (N' : Int)) f) j i := by
  rw [(focus_is_focus_of_pad nrm m n M' N' f).1]
  exact centered_idft_dft nrm he hf cj hc hN M' N' hM hN' _ j i hj hi

/-- `focus(unfocus(F, Q), 1) = pad2d(F, Q)` likewise -/
theorem focus_unfocus_padded (he : IsChar e) (hf : IsFaithful e) (cj : K →+* K) (hc : IsConj cj e nrm) (hN : NrmSq nrm)
    (m n M' N' : Nat) (hM : 0 < M') (hN' : 0 < N') (F : Array (Array K)) (j i : Nat) (hj : j < M') (hi : i < N') :
    rd2 (fftRoute2G focusFlagsGen e nrm (M', N') (M', N') (0, 0)
          (fftRoute2G unfocusFlagsGen e nrm (m, n) (M', N') (padLo (m : Int) (M' : Int), padLo (n : Int) (N' : Int)) F)) j i
      = rd2 (pad2 (m, n) (M', N') (padLo (m : Int) (M' : Int), padLo (n : Int) (N' : Int)) F) j i := by
  rw [(focus_is_focus_of_pad nrm m n M' N' F).2]
  exact centered_dft_idft nrm he hf cj hc hN M' N' hM hN' _ j i hj hi

/-! ## matrix DFT / chirp-Z onto the full band, and back -/

/-- `dft2` onto the full Nyquist band (`M = m·Qy`, `N = n·Qx` integers, `Q ≥ 1`) conserves energy for every shift; kernel
sign, `fwd` flag, wiring, exponent scalars and norms are those of the current source -/
theorem band_complete_energy (he : IsChar e) (hf : IsFaithful e) (cj : K →+* K) (hc : IsConj cj e nrm) (hN : NrmSq nrm)
    (m n M N : Nat) (Qy Qx s0 s1 : R) (hQy : (m : R) * Qy = M) (hQx : (n : R) * Qx = N)
    (hm : m ≤ M) (hn : n ≤ N) (hM : 0 < M) (hN' : 0 < N) (f : Nat → Nat → K) :
    energy2 cj M N (mdft2G mdftFwdSign mdftDft2IsFwd e nrm mdftEoutWiring mdftEinWiring (m, n) (M, N)
        (mdftEoutScale (m : R) (n : R) Qy Qx) (mdftEinScale (m : R) (n : R) Qy Qx)
        (mdftEinNormSq (m : R) (n : R) Qy Qx) (mdftEoutNormSq (m : R) (n : R) Qy Qx) (s0, s1) f)
      = energy2 cj m n f := by
  obtain ⟨h1, h2, h3, h4⟩ := gen_mdft_scale (R := R) m n Qy Qx
  obtain ⟨w0, w1, sg, _, fw, _⟩ := gen_mdft_wiring
  have hay : alphaOf m Qy = 1 / (M : R) := by rw [alphaOf_eq, hQy]
  have hax : alphaOf n Qx = 1 / (N : R) := by rw [alphaOf_eq, hQx]
  rw [w0, w1, sg, fw, h1, h2, h3, h4]
  have : mdft2G (-1) true e nrm wiringAxis0 wiringAxis1 (m, n) (M, N) (alphaOf m Qy) (alphaOf n Qx) (alphaOf m Qy)
      (alphaOf n Qx) (s0, s1) f = mdft2 e nrm wiringAxis0 wiringAxis1 (m, n) (M, N) (alphaOf m Qy) (alphaOf n Qx)
      (alphaOf m Qy) (alphaOf n Qx) (s0, s1) f := by
    funext k l; simp only [mdft2G, if_true, kernS_neg_one]
  rw [this]
  exact mdft2_parseval nrm he hf cj hc m n M N hm hn hM hN' _ _ s0 s1 hay hax
    (by rw [hay]; exact hN M hM) (by rw [hax]; exact hN N hN') f

/-- band-complete round trip, matrix DFT: `idft2(dft2(f, Q, (M,N), shift), 1, (m,n), shift) = f` whenever
`M = m·Qy ≥ m`, `N = n·Qx ≥ n`, for every shift: both legs subtract the same sample shift from the same coordinate
vectors, so the unit phases cancel.  All parameters of both legs (kernel sign, flags, wiring, scalars, norms) generated -/
theorem band_complete_roundtrip (he : IsChar e) (hf : IsFaithful e) (cj : K →+* K) (hc : IsConj cj e nrm) (hN : NrmSq nrm)
    (m n M N : Nat) (Qy Qx s0 s1 : R) (hQy : (m : R) * Qy = M) (hQx : (n : R) * Qx = N)
    (hm : m ≤ M) (hn : n ≤ N) (hM : 0 < M) (hN' : 0 < N) (f : Nat → Nat → K) (j i : Nat) (hj : j < m) (hi : i < n) :
    mdftRoundTripG mdftFwdSign mdftDft2IsFwd mdftIdft2IsFwd mdftEoutWiring mdftEinWiring e nrm (m, n) (M, N)
        (mdftEoutScale (m : R) (n : R) Qy Qx) (mdftEinScale (m : R) (n : R) Qy Qx)
        (mdftEoutScale (M : R) (N : R) 1 1) (mdftEinScale (M : R) (N : R) 1 1) (s0, s1) f j i = f j i := by
  obtain ⟨h1, h2, n1, n2⟩ := gen_mdft_scale (R := R) m n Qy Qx
  obtain ⟨g1, g2, _, _⟩ := gen_mdft_scale (R := R) M N 1 1
  obtain ⟨w0, w1, sg, _, fw, iv⟩ := gen_mdft_wiring
  have hay : alphaOf m Qy = 1 / (M : R) := by rw [alphaOf_eq, hQy]
  have hax : alphaOf n Qx = 1 / (N : R) := by rw [alphaOf_eq, hQx]
  have hby : alphaOf M (1 : R) = 1 / (M : R) := by rw [alphaOf_eq, mul_one]
  have hbx : alphaOf N (1 : R) = 1 / (N : R) := by rw [alphaOf_eq, mul_one]
  rw [w0, w1, sg, fw, iv, h1, h2, g1, g2, hay, hax, hby, hbx]
  have := mdft2_roundtrip nrm he hf cj hc m n M N hm hn hM hN' _ _ s0 s1 rfl rfl (hN M hM) (hN N hN') f j i hj hi
  simpa only [mdftRoundTripG, mdftRoundTrip, mdft2G, if_true, Bool.false_eq_true, if_false, neg_neg, kernS_neg_one, kernS_one]
    using this

/-- the other order: `dft2(idft2(f, Q, (M,N), shift), 1, (m,n), shift) = f` — the inverse transform applied FIRST, to the
caller's own (possibly real-valued) array, is undone by the forward transform, on the same band-complete grid -/
theorem band_complete_roundtrip_inverse_first (he : IsChar e) (hf : IsFaithful e) (cj : K →+* K) (hc : IsConj cj e nrm)
    (hN : NrmSq nrm) (m n M N : Nat) (Qy Qx s0 s1 : R) (hQy : (m : R) * Qy = M) (hQx : (n : R) * Qx = N)
    (hm : m ≤ M) (hn : n ≤ N) (hM : 0 < M) (hN' : 0 < N) (f : Nat → Nat → K) (j i : Nat) (hj : j < m) (hi : i < n) :
    mdftRoundTripG mdftFwdSign mdftIdft2IsFwd mdftDft2IsFwd mdftEoutWiring mdftEinWiring e nrm (m, n) (M, N)
        (mdftEoutScale (m : R) (n : R) Qy Qx) (mdftEinScale (m : R) (n : R) Qy Qx)
        (mdftEoutScale (M : R) (N : R) 1 1) (mdftEinScale (M : R) (N : R) 1 1) (s0, s1) f j i = f j i := by
  obtain ⟨h1, h2, n1, n2⟩ := gen_mdft_scale (R := R) m n Qy Qx
  obtain ⟨g1, g2, _, _⟩ := gen_mdft_scale (R := R) M N 1 1
  obtain ⟨w0, w1, sg, _, fw, iv⟩ := gen_mdft_wiring
  have hay : alphaOf m Qy = 1 / (M : R) := by rw [alphaOf_eq, hQy]
  have hax : alphaOf n Qx = 1 / (N : R) := by rw [alphaOf_eq, hQx]
  have hby : alphaOf M (1 : R) = 1 / (M : R) := by rw [alphaOf_eq, mul_one]
  have hbx : alphaOf N (1 : R) = 1 / (N : R) := by rw [alphaOf_eq, mul_one]
  rw [w0, w1, sg, fw, iv, h1, h2, g1, g2, hay, hax, hby, hbx]
  have := mdft2_roundtrip (e := fun t => e (-t)) nrm he.reflect (isFaithful_reflect hf) cj (isConj_reflect nrm cj hc)
    m n M N hm hn hM hN' _ _ s0 s1 rfl rfl (hN M hM) (hN N hN') f j i hj hi
  have hee : (fun t => e (- -t)) = e := by funext t; rw [neg_neg]
  simpa only [mdftRoundTripG, mdftRoundTrip, mdft2G, if_true, Bool.false_eq_true, if_false, neg_neg, kernS_neg_one, kernS_one, hee]
    using this

/-- `czt2` onto the full band conserves energy as well (the transform exactly as computed, any admissible FFT lengths) -/
theorem band_complete_energy_czt (he : IsChar e) (hf : IsFaithful e) (cj : K →+* K) (hc : IsConj cj e nrm) (hN : NrmSq nrm)
    (m n M N K1 L1 : Nat) (Qy Qx s0 s1 : R) (hQy : (m : R) * Qy = M) (hQx : (n : R) * Qx = N)
    (hm0 : 0 < m) (hn0 : 0 < n) (hm : m ≤ M) (hn : n ≤ N)
    (hK1 : cztRowFftLenArg m n M N ≤ K1) (hL1 : cztColFftLenArg m n M N ≤ L1) (f : Array (Array K)) :
    energy2 cj M N (rd2 (czt2G cztSignsGen cztStagesGen e nrm cztRowWiring cztColWiring (cztGlueGen m M K1) (cztGlueGen n N L1)
        (m, n) (M, N) (K1, L1) (cztRowAlpha (m : R) (n : R) Qy Qx) (cztColAlpha (m : R) (n : R) Qy Qx) (s0, s1) f))
      = energy2 cj m n (rd2 f) := by
  have hM : 0 < M := by omega
  have hN' : 0 < N := by omega
  obtain ⟨a1, a2⟩ := gen_czt_alpha (R := R) m n Qy Qx
  obtain ⟨p1, p2, p3, p4⟩ := gen_czt_params
  obtain ⟨f1, f2⟩ := gen_czt_fftlen m n M N
  rw [f1] at hK1
  rw [f2] at hL1
  have hay : alphaOf m Qy = 1 / (M : R) := by rw [alphaOf_eq, hQy]
  have hax : alphaOf n Qx = 1 / (N : R) := by rw [alphaOf_eq, hQx]
  rw [p1, p2, p3, p4, a1, a2, gen_czt_glue, gen_czt_glue]
  rw [energy2_congr cj M N (fun k l hk hl =>
    (czt2G_ref_rd nrm _ _ m n M N K1 L1 _ _ s0 s1 f k l hk hl (by omega) (by omega)).trans
      (czt2_eq_mdft2 nrm he hf m n M N K1 L1 _ _ s0 s1 f k l hm0 hn0 hk hl (by omega) (by omega)))]
  exact mdft2_parseval nrm he hf cj hc m n M N hm hn hM hN' _ _ s0 s1 hay hax
    (by rw [hay]; exact hN M hM) (by rw [hax]; exact hN N hN') (rd2 f)

/-- band-complete round trip, chirp-Z: `iczt2(czt2(f, Q, (M,N), shift), 1, (m,n), shift) = f`, both legs exactly as the
source computes them (signs, statement order, wiring, constants, Bluestein through `fft2`/`ifft2` of any admissible lengths) -/
theorem band_complete_roundtrip_czt (he : IsChar e) (hf : IsFaithful e) (cj : K →+* K) (hc : IsConj cj e nrm)
    (hN : NrmSq nrm) (m n M N K1 L1 K2 L2 : Nat) (Qy Qx s0 s1 : R) (hQy : (m : R) * Qy = M) (hQx : (n : R) * Qx = N)
    (hm0 : 0 < m) (hn0 : 0 < n) (hm : m ≤ M) (hn : n ≤ N)
    (hK1 : cztRowFftLenArg m n M N ≤ K1) (hL1 : cztColFftLenArg m n M N ≤ L1)
    (hK2 : cztRowFftLenArg M N m n ≤ K2) (hL2 : cztColFftLenArg M N m n ≤ L2)
    (f : Array (Array K)) (j i : Nat) (hj : j < m) (hi : i < n) :
    rd2 (iczt2G cj cztSignsGen cztStagesGen e nrm cztRowWiring cztColWiring (cztGlueGen M m K2) (cztGlueGen N n L2)
          (M, N) (m, n) (K2, L2) (cztRowAlpha (M : R) (N : R) 1 1) (cztColAlpha (M : R) (N : R) 1 1) (s0, s1)
          (czt2G cztSignsGen cztStagesGen e nrm cztRowWiring cztColWiring (cztGlueGen m M K1) (cztGlueGen n N L1)
            (m, n) (M, N) (K1, L1) (cztRowAlpha (m : R) (n : R) Qy Qx) (cztColAlpha (m : R) (n : R) Qy Qx) (s0, s1) f)) j i
      = rd2 f j i := by
  have hM : 0 < M := by omega
  have hN' : 0 < N := by omega
  obtain ⟨a1, a2⟩ := gen_czt_alpha (R := R) m n Qy Qx
  obtain ⟨b1, b2⟩ := gen_czt_alpha (R := R) M N 1 1
  obtain ⟨p1, p2, p3, p4⟩ := gen_czt_params
  obtain ⟨f1, f2⟩ := gen_czt_fftlen m n M N
  obtain ⟨f3, f4⟩ := gen_czt_fftlen M N m n
  rw [f1] at hK1
  rw [f2] at hL1
  rw [f3] at hK2
  rw [f4] at hL2
  have hay : alphaOf m Qy = 1 / (M : R) := by rw [alphaOf_eq, hQy]
  have hax : alphaOf n Qx = 1 / (N : R) := by rw [alphaOf_eq, hQx]
  have hby : alphaOf M (1 : R) = 1 / (M : R) := by rw [alphaOf_eq, mul_one]
  have hbx : alphaOf N (1 : R) = 1 / (N : R) := by rw [alphaOf_eq, mul_one]
  rw [p1, p2, p3, p4, a1, a2, b1, b2, gen_czt_glue, gen_czt_glue, gen_czt_glue, gen_czt_glue, hay, hax, hby, hbx]
  unfold iczt2G
  rw [rd2_mapArr2, czt2G_ref_rd nrm _ _ M N m n K2 L2 _ _ s0 s1 _ j i hj hi (by omega) (by omega),
    czt2_eq_mdft2 nrm he hf M N m n K2 L2 _ _ s0 s1 _ j i hM hN' hj hi (by omega) (by omega)]
  have hmap : ∀ (g : Array (Array K)), rd2 (mapArr2 (⇑cj) g) = fun j i => cj (rd2 g j i) := by
    intro g; funext j i; exact rd2_mapArr2 cj g j i
  rw [hmap, conj_mdft2 nrm cj hc]
  rw [mdft2_congr nrm _ _ (M, N) (m, n) _ _ _ _ _ (fun k l hk hl =>
    (czt2G_ref_rd nrm _ _ m n M N K1 L1 _ _ s0 s1 f k l hk hl (by omega) (by omega)).trans
      (czt2_eq_mdft2 nrm he hf m n M N K1 L1 _ _ s0 s1 f k l hm0 hn0 hk hl (by omega) (by omega)))]
  exact mdft2_roundtrip nrm he hf cj hc m n M N hm hn hM hN' _ _ s0 s1 rfl rfl (hN M hM) (hN N hN') (rd2 f) j i hj hi

/-! ## angular spectrum (free space)

`tfGen` below is the transfer function with the coefficient, signs and axis order regenerated from the source; by
`gen_asp_tf` it is the model's `aspTf2`.  The four laws of the transfer function use nothing but `gen_asp_coef_linear`. -/

/-- the transfer function has unit modulus for every wavelength, spacing, distance (any sign), shape and sample -/
theorem asp_unit_modulus (he : IsChar e) (cj : K →+* K) (hc : IsConj cj e nrm) (shape : Nat × Nat) (wvl dx z : R) (p q : Nat) :
    cj (aspTf2G aspCoef aspSignRows aspSignCols aspRowsSamplesIdx aspColsSamplesIdx e shape wvl dx z p q)
      * aspTf2G aspCoef aspSignRows aspSignCols aspRowsSamplesIdx aspColsSamplesIdx e shape wvl dx z p q = 1 :=
  aspTf2G_unit nrm he cj hc gen_asp_coef_linear _ _ _ _ shape wvl dx z p q

/-- at zero distance the transfer function is identically 1 -/
theorem asp_zero (he : IsChar e) (shape : Nat × Nat) (wvl dx : R) (p q : Nat) :
    aspTf2G aspCoef aspSignRows aspSignCols aspRowsSamplesIdx aspColsSamplesIdx e shape wvl dx 0 p q = 1 :=
  aspTf2G_zero he gen_asp_coef_linear _ _ _ _ shape wvl dx p q

/-- transfer functions multiply when distances add -/
theorem asp_add (he : IsChar e) (shape : Nat × Nat) (wvl dx z1 z2 : R) (p q : Nat) :
    aspTf2G aspCoef aspSignRows aspSignCols aspRowsSamplesIdx aspColsSamplesIdx e shape wvl dx (z1 + z2) p q
      = aspTf2G aspCoef aspSignRows aspSignCols aspRowsSamplesIdx aspColsSamplesIdx e shape wvl dx z1 p q
        * aspTf2G aspCoef aspSignRows aspSignCols aspRowsSamplesIdx aspColsSamplesIdx e shape wvl dx z2 p q :=
  aspTf2G_add he gen_asp_coef_linear _ _ _ _ shape wvl dx z1 z2 p q

/-- the transfer function at `−z` is the inverse of the one at `z` -/
theorem asp_neg (he : IsChar e) (shape : Nat × Nat) (wvl dx z : R) (p q : Nat) :
    aspTf2G aspCoef aspSignRows aspSignCols aspRowsSamplesIdx aspColsSamplesIdx e shape wvl dx (-z) p q
      * aspTf2G aspCoef aspSignRows aspSignCols aspRowsSamplesIdx aspColsSamplesIdx e shape wvl dx z p q = 1 :=
  aspTf2G_neg he gen_asp_coef_linear _ _ _ _ shape wvl dx z p q

/-- the operator of the `z` branch with the generated `norm=` flags and transfer function -/
abbrev aspGen (e : R → K) (nrm : R → K) (shape : Nat × Nat) (wvl dx z : R) (f : Array (Array K)) : Array (Array K) :=
  aspApplyG aspOpFlagsZ e nrm shape (aspTf2G aspCoef aspSignRows aspSignCols aspRowsSamplesIdx aspColsSamplesIdx e shape wvl dx z) f

/-- free-space propagation `ifft2(fft2(f)·tf(z))` (grid of the input, i.e. `Q = 1`) conserves energy: every shape,
wavelength, spacing, distance -/
theorem asp_energy (he : IsChar e) (hf : IsFaithful e) (cj : K →+* K) (hc : IsConj cj e nrm) (m n : Nat)
    (hm : 0 < m) (hn : 0 < n) (wvl dx z : R) (f : Array (Array K)) :
    energy2 cj m n (rd2 (aspGen e nrm (m, n) wvl dx z f)) = energy2 cj m n (rd2 f) := by
  unfold aspGen
  rw [gen_asp_operator.2.1, aspApplyG_ref]
  exact aspApply_energy nrm he hf cj hc m n hm hn _ (fun p q _ _ => asp_unit_modulus nrm he cj hc (m, n) wvl dx z p q) f

/-- the precomputed-`tf=` branch conserves energy for every unit-modulus `tf` handed to it (in particular the one
`angular_spectrum_transfer_function` returns), and then equals the `z` branch -/
theorem asp_tf_branch (he : IsChar e) (hf : IsFaithful e) (cj : K →+* K) (hc : IsConj cj e nrm) (m n : Nat)
    (hm : 0 < m) (hn : 0 < n) (tf : Nat → Nat → K) (htf : ∀ p q, p < m → q < n → cj (tf p q) * tf p q = 1)
    (f : Array (Array K)) :
    energy2 cj m n (rd2 (aspApplyG aspOpFlagsTf e nrm (m, n) tf f)) = energy2 cj m n (rd2 f) ∧
    aspApplyG aspOpFlagsTf e nrm (m, n) tf f = aspApplyG aspOpFlagsZ e nrm (m, n) tf f := by
  rw [gen_asp_operator.1, gen_asp_operator.2.1, aspApplyG_ref]
  exact ⟨aspApply_energy nrm he hf cj hc m n hm hn tf htf f, rfl⟩

/-- with `Q ≠ 1` (the DEFAULT is `Q = 2`) the field is zero-padded first and never cropped back: the output lives on the
padded grid and still has the energy of the input … -/
theorem asp_energy_padded (he : IsChar e) (hf : IsFaithful e) (cj : K →+* K) (hc : IsConj cj e nrm) (m n M' N' : Nat)
    (hm : m ≤ M') (hn : n ≤ N') (hM : 0 < M') (hN' : 0 < N') (wvl dx z : R) (f : Array (Array K)) :
    energy2 cj M' N' (rd2 (aspGen e nrm (M', N') wvl dx z
        (pad2 (m, n) (M', N') (padLo (m : Int) (M' : Int), padLo (n : Int) (N' : Int)) f)))
      = energy2 cj m n (rd2 f) := by
  rw [asp_energy nrm he hf cj hc M' N' hM hN' wvl dx z, pad_energy cj m n M' N' hm hn f]

/-- it is the identity at zero distance (on the grid it works on) -/
theorem asp_identity_at_zero (he : IsChar e) (hf : IsFaithful e) (cj : K →+* K) (hc : IsConj cj e nrm) (m n : Nat)
    (wvl dx : R) (f : Array (Array K)) (j i : Nat) (hj : j < m) (hi : i < n) :
    rd2 (aspGen e nrm (m, n) wvl dx 0 f) j i = rd2 f j i := by
  unfold aspGen
  rw [gen_asp_operator.2.1, aspApplyG_ref]
  exact aspApply_one nrm he hf cj hc m n _ (fun p q _ _ => asp_zero he (m, n) wvl dx p q) f j i hj hi

/-- … so at `z = 0` and `Q ≠ 1` the result is `pad2d(f, Q)`, NOT `f`: the exact content of the known finding
`asp-pads-never-crops` (identity / inverse / additivity hold on the padded grid only) -/
theorem asp_padded_at_zero_is_pad (he : IsChar e) (hf : IsFaithful e) (cj : K →+* K) (hc : IsConj cj e nrm) (m n M' N' : Nat)
    (wvl dx : R) (f : Array (Array K)) (j i : Nat) (hj : j < M') (hi : i < N') :
    rd2 (aspGen e nrm (M', N') wvl dx 0 (pad2 (m, n) (M', N') (padLo (m : Int) (M' : Int), padLo (n : Int) (N' : Int)) f)) j i
      = rd2 (pad2 (m, n) (M', N') (padLo (m : Int) (M' : Int), padLo (n : Int) (N' : Int)) f) j i :=
  asp_identity_at_zero nrm he hf cj hc M' N' wvl dx _ j i hj hi

/-- it composes additively in distance: `A_{z1}(A_{z2} f) = A_{z1+z2} f` -/
theorem asp_additive (he : IsChar e) (hf : IsFaithful e) (cj : K →+* K) (hc : IsConj cj e nrm) (m n : Nat)
    (wvl dx z1 z2 : R) (f : Array (Array K)) (j i : Nat) (hj : j < m) (hi : i < n) :
    rd2 (aspGen e nrm (m, n) wvl dx z1 (aspGen e nrm (m, n) wvl dx z2 f)) j i = rd2 (aspGen e nrm (m, n) wvl dx (z1 + z2) f) j i := by
  unfold aspGen
  rw [gen_asp_operator.2.1, aspApplyG_ref, aspApplyG_ref, aspApplyG_ref, aspApply_comp nrm he hf cj hc m n _ _ f j i hj hi]
  have : (fun p q => aspTf2G aspCoef aspSignRows aspSignCols aspRowsSamplesIdx aspColsSamplesIdx e (m, n) wvl dx z2 p q
        * aspTf2G aspCoef aspSignRows aspSignCols aspRowsSamplesIdx aspColsSamplesIdx e (m, n) wvl dx z1 p q)
      = aspTf2G aspCoef aspSignRows aspSignCols aspRowsSamplesIdx aspColsSamplesIdx e (m, n) wvl dx (z1 + z2) := by
    funext p q; rw [asp_add he]; ring
  rw [this]

/-- it undoes itself at the negated distance: `A_{−z}(A_z f) = f` -/
theorem asp_inverse (he : IsChar e) (hf : IsFaithful e) (cj : K →+* K) (hc : IsConj cj e nrm) (m n : Nat)
    (wvl dx z : R) (f : Array (Array K)) (j i : Nat) (hj : j < m) (hi : i < n) :
    rd2 (aspGen e nrm (m, n) wvl dx (-z) (aspGen e nrm (m, n) wvl dx z f)) j i = rd2 f j i := by
  rw [asp_additive nrm he hf cj hc m n wvl dx (-z) z f j i hj hi, neg_add_cancel]
  exact asp_identity_at_zero nrm he hf cj hc m n wvl dx f j i hj hi

/-! ## non-vacuity -/

/-- `√·` is a square root on reciprocals of sample counts -/
theorem sqrtNrm_nrmSq : NrmSq sqrtNrm := by
  intro N hN
  rw [sqrtNrm_sq _ (by positivity)]
  push_cast; rfl

example : IsChar expKernel ∧ IsFaithful expKernel ∧ IsConj (starRingEnd ℂ) expKernel sqrtNrm ∧ NrmSq sqrtNrm :=
  ⟨expKernel_isChar, expKernel_isFaithful, expKernel_isConj, sqrtNrm_nrmSq⟩

/-- the round-trip theorem instantiated: `6×4`, `Q = (1.5, 2)` → `9×8` and back, shift `(1.5, −2.25)` -/
example (f : Nat → Nat → ℂ) (j i : Nat) (hj : j < 6) (hi : i < 4) :
    mdftRoundTripG mdftFwdSign mdftDft2IsFwd mdftIdft2IsFwd mdftEoutWiring mdftEinWiring expKernel sqrtNrm (6, 4) (9, 8)
        (mdftEoutScale ((6 : ℕ) : ℝ) ((4 : ℕ) : ℝ) 1.5 2) (mdftEinScale ((6 : ℕ) : ℝ) ((4 : ℕ) : ℝ) 1.5 2)
        (mdftEoutScale ((9 : ℕ) : ℝ) ((8 : ℕ) : ℝ) 1 1) (mdftEinScale ((9 : ℕ) : ℝ) ((8 : ℕ) : ℝ) 1 1) (1.5, -2.25) f j i = f j i :=
  band_complete_roundtrip sqrtNrm expKernel_isChar expKernel_isFaithful _ expKernel_isConj sqrtNrm_nrmSq
    6 4 9 8 1.5 2 1.5 (-2.25) (by norm_num) (by norm_num) (by omega) (by omega) (by omega) (by omega) f j i hj hi

/-- the padded round trip instantiated: a `3×4` field focused with `Q = 2` onto `6×8` (and an odd `7×5` target), back at `Q = 1` -/
example (f : Array (Array ℂ)) (j i : Nat) (hj : j < 6) (hi : i < 8) :
    rd2 (fftRoute2G unfocusFlagsGen expKernel sqrtNrm (6, 8) (6, 8) (0, 0)
          (fftRoute2G focusFlagsGen expKernel sqrtNrm (3, 4) (6, 8) (padLo (3 : Int) (6 : Int), padLo (4 : Int) (8 : Int)) f)) j i
      = rd2 (pad2 (3, 4) (6, 8) (padLo (3 : Int) (6 : Int), padLo (4 : Int) (8 : Int)) f) j i :=
  unfocus_focus_padded sqrtNrm expKernel_isChar expKernel_isFaithful _ expKernel_isConj sqrtNrm_nrmSq 3 4 6 8
    (by omega) (by omega) f j i hj hi

end C02
