import PrysmVerif.Generated.C10
import PrysmVerif.Lemmas.C10Sums
import PrysmVerif.Lemmas.C10Pack
import PrysmVerif.Lemmas.C10Normal
/-!
# C10 — fast modal sums equal explicit sums; least-squares fit inverts synthesis

Theorems whose subject lives in `Generated.C10` are re-checked against the current prysm source on every
run (the translator regenerates those definitions).  All statements quantify over every coefficient list
(any length, empty and one-term lists included), every point, every parameter; `F` is an arbitrary field
(of characteristic zero where the 2D-Q coefficient formulas divide by integers).
-/
set_option linter.unusedTactic false
set_option linter.unreachableTactic false
set_option linter.unusedVariables false
set_option linter.unusedSectionVars false

namespace C10
open Model.C10 C10L

/-! ## translated obligations: the glue read from the source equals the hand model (∀ inputs) -/
section Gen
open Generated.C10
variable {K : Type} [Num K]

/-- `recurrence_abc` (both branches, and the branch condition) is the model's `jacABC` -/
theorem gen_recurrence_abc [BEq K] (n : Nat) (al be : K) :
    (if n == 0 && (al + be == Num.ofInt 0 || al + be == Num.ofInt (-1))
      then recABCSpecial (Num.ofInt n) al be else recABCGeneral (Num.ofInt n) al be) = jacABC n al be
    ∧ recABCBranchIsAtZeroWithSumZeroOrMinusOne = true := by
  refine ⟨?_, by decide⟩
  by_cases hc : (n == 0 && (al + be == Num.ofInt 0 || al + be == Num.ofInt (-1))) = true
  · rw [if_pos hc]; unfold jacABC; simp only []; rw [if_pos hc]; rfl
  · rw [if_neg hc]; unfold jacABC; simp only []; rw [if_neg hc]; rfl

/-- the sweep step of `jacobi_sum_clenshaw` is the model's Clenshaw step, reading and writing the entries the
model reads and writes, with `a, b` from order `n` and `c` from order `n+1` -/
theorem gen_jsum_step (G : Fam K) (x s : K) (k : Nat) (rest : List K) :
    alphas G x k (s :: rest) =
      jsumStep s (G.a k) (G.b k) (G.c (k+1)) x (hd (alphas G x (k+1) rest)) (hd (alphas G x (k+1) rest).tail)
        :: alphas G x (k+1) rest := rfl

theorem gen_jsum_indices (n M : Int) :
    jsumABIdx n M = n ∧ jsumBIdx n M = n ∧ jsumCIdx n M = n + 1 ∧ jsumABCPositions = (0, 1, 2) ∧
    jsumWriteIdx n M = n ∧ jsumReadIdx n M = [n + 1, n + 2] ∧ jsumSrcIdx n M = [n] ∧
    jsumLoop M = (M - 2, -1, -1) ∧ jsumTopIdx M = M ∧ jsumSeed2Idx M = M - 1 ∧ jsumSeed2ABCIdx M = M - 1 := by
  simp only [jsumABIdx, jsumBIdx, jsumCIdx, jsumABCPositions, jsumWriteIdx, jsumReadIdx, jsumSrcIdx, jsumLoop,
    jsumTopIdx, jsumSeed2Idx, jsumSeed2ABCIdx]
  refine ⟨?_, ?_, ?_, ?_, ?_, ?_, ?_, ?_, ?_, ?_, ?_⟩ <;> first | rfl | omega | simp

/-- the table is seeded with the last coefficient, a one-term input returns before order `M-1` is touched,
and the routine returns row 0 -/
theorem gen_jsum_structure :
    jsumTopIsLastCoefficient = true ∧ jsumSingleTermReturnsBeforeSecondSeed = true ∧ jsumReturnsRowZero = true := by
  decide

/-- `change_basis_Qbfs_to_Pn`: back-substitution step, seeds and loop are the model's `cobQbfs` -/
theorem gen_cob_qbfs_step (f g h : Nat → K) (c : K) (k : Nat) (rest : List K) :
    cobQbfs f g h k (c :: rest) =
      cobQbfsStep c (g k) (h k) (f k) (hd (cobQbfs f g h (k+1) rest)) (hd (cobQbfs f g h (k+1) rest).tail)
        :: cobQbfs f g h (k+1) rest := rfl

theorem gen_cob_qbfs_indices (i M : Int) :
    cobQbfsIdx i M = (i, i, i) ∧ cobQbfsWriteIdx i M = i ∧ cobQbfsReadIdx i M = [i + 1, i + 2] ∧
    cobQbfsSrcIdx i M = [i] ∧ cobQbfsLoop M = (M - 2, -1, -1) ∧
    cobQbfsSeedsUseOwnOrder = true ∧ cobQbfsSingleTermReturnsBeforeSecondSeed = true := by
  simp only [cobQbfsIdx, cobQbfsWriteIdx, cobQbfsReadIdx, cobQbfsSrcIdx, cobQbfsLoop]
  refine ⟨?_, ?_, ?_, ?_, ?_, by decide, by decide⟩ <;> first | rfl | omega | simp

/-- `clenshaw_qbfs`: prefix `2 - 4x`, step, read-out `x(1-x)·2(α₀+α₁)`, one-term read-out `x(1-x)·2α₀` -/
theorem gen_qbfs_step (x s : K) (k : Nat) (rest : List K) :
    alphas qbfsFam x k (s :: rest) =
      (s + (Num.ofInt (-4) * x + Num.ofInt 2) * hd (alphas qbfsFam x (k+1) rest)
          - Num.ofInt 1 * hd (alphas qbfsFam x (k+1) rest).tail) :: alphas qbfsFam x (k+1) rest := rfl

theorem gen_qbfs_indices (i M : Int) :
    qbfsWriteIdx i M = i ∧ qbfsReadIdx i M = [i + 1, i + 2] ∧ qbfsSrcIdx i M = [i] ∧ qbfsLoop M = (M - 2, -1, -1) ∧
    qbfsSeedsAreTopTwo = true ∧ qbfsSingleTermReturnsBeforeSecondSeed = true := by
  simp only [qbfsWriteIdx, qbfsReadIdx, qbfsSrcIdx, qbfsLoop]
  refine ⟨?_, ?_, ?_, ?_, by decide, by decide⟩ <;> first | rfl | omega | simp

/-- `abc_q2d`: numerators and common denominator are the model's -/
theorem gen_abc_q2d (n m : Int) :
    abcQ2d (K := K) n m =
      (Num.ofInt (abcQ2dANum n m) / Num.ofInt (abcQ2dD n m), Num.ofInt (abcQ2dBNum n m) / Num.ofInt (abcQ2dD n m),
       Num.ofInt (abcQ2dCNum n m) / Num.ofInt (abcQ2dD n m)) ∧ abcQ2dIsNumOverD = true := by
  refine ⟨?_, by decide⟩
  have hD : abcQ2dD n m = (4 * n ^ 2 - 1) * (m + n - 2) * (m + 2 * n - 3) := by unfold abcQ2dD; ring
  have hA : abcQ2dANum n m = (2 * n - 1) * (m + 2 * n - 2) * (4 * n * (m + n - 2) + (m - 3) * (2 * m - 1)) := by
    unfold abcQ2dANum; ring
  have hB : abcQ2dBNum n m = -2 * (2 * n - 1) * (m + 2 * n - 3) * (m + 2 * n - 2) * (m + 2 * n - 1) := by
    unfold abcQ2dBNum; ring
  have hC : abcQ2dCNum n m = n * (2 * n - 3) * (m + 2 * n - 1) * (2 * m + 2 * n - 3) := by
    unfold abcQ2dCNum; ring
  rw [hD, hA, hB, hC]; rfl

/-- `abc_q2d_clenshaw`: exactly the five patched entries of the model, `abc_q2d` everywhere else -/
theorem gen_abc_q2d_patches : abcQ2dPatches = q2dPatchTable := by decide

/-- `change_of_basis_Q2d_to_Pnm`: step, seed and loop are the model's `cobQ2d` -/
theorem gen_cob_q2d_step (f g : Nat → K) (c : K) (k : Nat) (rest : List K) :
    cobQ2d f g k (c :: rest) = cobQ2dStep c (g k) (f k) (hd (cobQ2d f g (k+1) rest)) :: cobQ2d f g (k+1) rest := rfl

theorem gen_cob_q2d_indices (n N : Int) :
    cobQ2dWriteIdx n N = n ∧ cobQ2dLoop N = (N - 1, -1, -1) ∧ cobQ2dTopIsLastCoefficient = true := by
  simp only [cobQ2dWriteIdx, cobQ2dLoop]
  refine ⟨?_, ?_, by decide⟩ <;> first | rfl | omega | simp

/-- `clenshaw_q2d`: the step is `d_n + (A + B x) α_{n+1} - C α_{n+2}` with `A, B` of order `n`, `C` of order `n+1` -/
theorem gen_q2d_step (m : Nat) (x s : K) (k : Nat) (rest : List K) :
    alphas (q2dFam m) x k (s :: rest) =
      (s + ((q2dFam (K := K) m).a k * x + (q2dFam (K := K) m).b k) * hd (alphas (q2dFam m) x (k+1) rest)
          - (q2dFam (K := K) m).c (k+1) * hd (alphas (q2dFam m) x (k+1) rest).tail) :: alphas (q2dFam m) x (k+1) rest := rfl

theorem gen_q2d_indices (n N : Int) :
    q2dABIdx n N = (n, n) ∧ q2dCIdx n N = n + 1 ∧ q2dABCPositions = (0, 1, 2) ∧ q2dWriteIdx n N = n ∧
    q2dReadIdx n N = [n + 1, n + 2] ∧ q2dLoop N = (N - 2, -1, -1) ∧ q2dSeed2ABCIdx N = N - 1 ∧
    q2dSeedsAreTopTwo = true ∧ q2dSingleTermReturnsBeforeSecondSeed = true := by
  simp only [q2dABIdx, q2dCIdx, q2dABCPositions, q2dWriteIdx, q2dReadIdx, q2dLoop, q2dSeed2ABCIdx]
  refine ⟨?_, ?_, ?_, ?_, ?_, ?_, ?_, by decide, by decide⟩ <;> first | rfl | omega | simp

/-- `compute_z_zprime_Q2d` reads `0.5 α₀ - [m = 1 ∧ N > 2] (2/5) α₃` from either sweep (the model's `q2dRead`) -/
theorem gen_q2d_read (m : Nat) (al : List K) :
    q2dRead m al =
      if al.length == 0 then Num.ofInt 0
      else if m == 1 && al.length > 3 then q2dReadBase (nth al 0) - q2dReadCorr (nth al 3)
      else q2dReadBase (nth al 0) := rfl

/-- the accumulation adds `u^m (cos(mt) S_a + sin(mt) S_b)` for `m = 1, 2, …`; each side is evaluated iff its own
list is non-empty, an order is skipped only when both are empty, and orders present in only one of the two
outer lists are still visited -/
theorem gen_q2d_accumulation (c s Sa Sb um k : K) :
    q2dKernel c s Sa Sb = c * Sa + s * Sb ∧ q2dTerm um k = um * k ∧
    q2dReadsAreUniform = true ∧ q2dCorrectionOnlyForMOneAndNGreaterTwo = true ∧
    q2dEachSideEvaluatedIffItsListNonEmpty = true ∧ q2dSkipsOnlyWhenBothEmpty = true ∧
    q2dPairsEveryOrderOfEitherList = true ∧ q2dAzimuthalOrderCountsFromOne = true ∧
    q2dRotationallySymmetricPartOnlyWhenPresent = true := by
  refine ⟨rfl, rfl, ?_, ?_, ?_, ?_, ?_, ?_, ?_⟩ <;> decide

/-- `Q2d_nm_c_to_a_b` takes its maxima with a default, `sum_of_2d_modes` contracts axis 0 with the weights,
`lstsq` removes exactly the non-finite samples from the data and from every mode before the solve -/
theorem gen_structure :
    packMaxOverKeysHasDefaultZero = true ∧ sumOfModesContractsAxisZeroWithWeights = true ∧
    lstsqDropsExactlyNonFiniteSamplesFromDataAndModes = true := by decide

/-- every argument documented as an iterable (coefficients, orders, modes) is either turned into a sequence before anything else
reads it, or is read exactly once front to back: a generator / iterator / zip object is never traversed twice, measured or indexed
(Boolean computed by the translator from the syntax trees; opaque to Lean) -/
theorem gen_iterable_arguments : iterableArgumentsAreReadOnceOrMaterialisedFirst = true := by decide
end Gen

section GenField
open Generated.C10
variable {F : Type} [Field F]

/-- second seeds are the general step with the entry above the top equal to zero -/
theorem gen_seeds_are_steps (sm1 sM a b c x g f h A B C : F) :
    jsumSeed2 sm1 sM a b x = jsumStep sm1 a b c x sM 0 ∧
    cobQbfsSeed2 sm1 g f sM = cobQbfsStep sm1 g h f sM 0 ∧ cobQbfsTop sM f = cobQbfsStep sM g h f 0 0 ∧
    qbfsSeed2 sm1 (qbfsPrefix x) sM = qbfsStep sm1 (qbfsPrefix x) sM 0 ∧ qbfsPrefix x = -4 * x + 2 ∧
    cobQ2dTop sM f = cobQ2dStep sM g f 0 ∧
    q2dSeed2 sm1 sM A B x = q2dStep sm1 A B C x sM 0 ∧ q2dStep sm1 A B C x sM 0 = sm1 + (B * x + A) * sM := by
  simp only [jsumSeed2, jsumStep, cobQbfsSeed2, cobQbfsStep, cobQbfsTop, qbfsSeed2, qbfsStep, qbfsPrefix,
    cobQ2dTop, cobQ2dStep, q2dSeed2, q2dStep, ofInt_eq]
  refine ⟨?_, ?_, ?_, ?_, ?_, ?_, ?_, ?_⟩ <;> (push_cast; ring)

/-- the read-out of `clenshaw_qbfs` is the model's, for one-term input too (`α₁ = 0`) -/
theorem gen_qbfs_readout (f g h : Nat → F) (cs : List F) (x : F) :
    clenshawQbfs f g h cs x =
      qbfsOut x (qbfsS (nth (alphas qbfsFam x 0 (cobQbfs f g h 0 cs)) 0) (nth (alphas qbfsFam x 0 (cobQbfs f g h 0 cs)) 1))
    ∧ ∀ a0 : F, qbfsSingle x a0 = qbfsOut x (qbfsS a0 0) := by
  refine ⟨rfl, ?_⟩
  intro a0
  simp only [qbfsSingle, qbfsOut, qbfsS, ofInt_eq]; push_cast; ring

/-- the model's `abc_q2d_clenshaw` is the table look-up over the generated patch list -/
theorem gen_abc_q2d_clenshaw (n m : Int) :
    abcOfTable (K := F) abcQ2dPatches n m = abcQ2dClenshaw n m := by
  rw [gen_abc_q2d_patches]
  unfold abcOfTable abcQ2dClenshaw q2dPatchTable
  simp only [lookupNM, Bool.and_eq_true, beq_iff_eq]
  split_ifs <;> first
    | (exfalso; omega)
    | (simp [Num.ofFrac])
end GenField

/-! ## the property, over the hand model -/
section Main
variable {F : Type} [Field F]

/-- **Clenshaw, every family**: for every three-term family `p_{n+1} = (a_n x + b_n) p_n - c_n p_{n-1} + e_n`
(any `p_0`), every point and every coefficient list — empty and one-term lists included —
the sweep's read-out `α_0 p_0 + Σ e_n α_{n+1}` is `Σ s_n p_n(x)` -/
theorem clenshaw_sum (G : Fam F) (x : F) (s : List F) :
    clenshawVal G (alphas G x 0 s) = wsum (G.p x) 0 s := clenshaw_general G x s

/-- **`jacobi_sum_clenshaw` = `Σ s_n jacobi(n, α, β, x)`** with the polynomials of the value routine
(explicit `P_0, P_1`, then the recurrence), all `α, β` (both branches of `recurrence_abc`), all lists -/
theorem jacobi_sum_clenshaw_eq_explicit [DecidableEq F] (h2 : (2 : F) ≠ 0) (s : List F) (al be x : F) :
    jacobiSumClenshaw s al be x = jacobiSumExplicit s al be x := jacobi_clenshaw s al be x h2

/-- **change of basis, Qbfs**: for all `f` (non-vanishing), `g`, `h`, all `P`: if `Q_n = (P_n - g_{n-1}Q_{n-1} -
h_{n-2}Q_{n-2}) / f_n` then the back-substituted `b` satisfy `Σ b_n P_n = Σ c_n Q_n` -/
theorem change_of_basis_qbfs (f g h P : Nat → F) (hf : ∀ n, f n ≠ 0) (cs : List F) :
    wsum P 0 (cobQbfs f g h 0 cs) = wsum (qbfsQ f g h P) 0 cs := by
  obtain ⟨r0, r1, r2⟩ := qbfsQ_rel f g h P hf
  exact cob3 f g h P _ hf r0 r1 r2 cs

/-- **change of basis, 2D-Q**: `Q_n = (P_n - g_{n-1} Q_{n-1}) / f_n` ⇒ `Σ d_n P_n = Σ c_n Q_n` -/
theorem change_of_basis_q2d (f g P : Nat → F) (hf : ∀ n, f n ≠ 0) (cs : List F) :
    wsum P 0 (cobQ2d f g 0 cs) = wsum (q2dQ f g P) 0 cs := by
  obtain ⟨r0, r1⟩ := q2dQ_rel f g P hf
  exact cob2 f g P _ hf r0 r1 cs

/-- **`clenshaw_qbfs` = `u²(1-u²) Σ c_n Q_n(u²)`**, `Q_n` as the value routine `Qbfs` builds them; every list -/
theorem clenshaw_qbfs_eq_explicit [DecidableEq F] (f g h : Nat → F) (hf : ∀ n, f n ≠ 0) (cs : List F) (x : F) :
    clenshawQbfs f g h cs x = qbfsSumExplicit f g h cs x := qbfs_clenshaw f g h hf cs x

/-- the Clenshaw coefficients of 2D-Q (`abc_q2d_clenshaw`, with the constant `-2/5` entering at `P_3` for `m = 1`)
generate exactly the auxiliary polynomials the value routine `Q2d` uses — every `m ≥ 1`, every `n` -/
theorem q2d_aux_family [DecidableEq F] [CharZero F] (m : Nat) (hm : 1 ≤ m) (x : F) (n : Nat) :
    (q2dFam m).p x n = q2dP m x n := q2dFam_p m hm x n

/-- **2D-Q radial sum by Clenshaw = `Σ c_n Q_n^m(x)`**, every `m ≥ 1`, every list (the `m = 1` correction included) -/
theorem clenshaw_q2d_eq_explicit [DecidableEq F] [CharZero F] (f g : Nat → F) (hf : ∀ n, f n ≠ 0)
    (m : Nat) (hm : 1 ≤ m) (cs : List F) (x : F) :
    q2dRadial f g m cs x = q2dRadialExplicit f g m cs x := q2d_radial f g hf m hm cs x

/-- **2D-Q total**: the per-`m` accumulation equals `Σ_{(n,m)} c_{nm} Q_n^m(u, t)` for every combination of
present / absent / empty cosine and sine lists, unequal numbers of azimuthal orders, unequal radial lengths -/
theorem q2d_total [DecidableEq F] [CharZero F] (f g h : Nat → F) (hf0 : ∀ n, f n ≠ 0) (fq gq : Nat → Nat → F)
    (hf : ∀ m n, fq m n ≠ 0) (cosm sinm : Nat → F) (cm0 : List F) (ams bms : List (List F)) (u : F) :
    q2dSag f g h fq gq cosm sinm cm0 ams bms u = q2dSagExplicit f g h fq gq cosm sinm cm0 ams bms u :=
  C10L.q2d_total f g h hf0 fq gq hf cosm sinm cm0 ams bms u

/-- **pack round trip**: reading mode `(n, m)` out of the three packed lists returns the coefficient the sparse
input assigns to it (last assignment wins), `0` for modes it does not mention; for every input, in particular
those without `m = 0`, without `m > 0` or without `m < 0` entries -/
theorem pack_roundtrip (inp : List ((Nat × Int) × F)) (n : Nat) (m : Int) :
    unpack (pack inp) n m = coefOf inp n m := C10L.pack_roundtrip inp n m

/-- the packed lists have the minimal dense shape (nothing is allocated for an absent family) -/
theorem pack_shape (inp : List ((Nat × Int) × F)) :
    (pack inp).1.length = radLen inp 0 ∧ (pack inp).2.1.length = maxAbsM inp ∧ (pack inp).2.2.length = maxAbsM inp :=
  C10L.pack_shape inp

/-- **tensordot over the mode axis = `Σ_k w_k M_k`** sample by sample -/
theorem tensordot_sum (size : Nat) (modes : List (List F)) (w : List F) (hlen : modes.length = w.length)
    (hshape : ∀ mo ∈ modes, mo.length = size) : tensordot modes w size = sumLoop size modes w :=
  (C10L.tensordot_sum size modes w hlen hshape).symm
end Main

section Lsq
variable {F : Type} [Field F] [LinearOrder F] [IsStrictOrderedRing F] {ι κ : Type} [Fintype κ]

/-- **least squares inverts synthesis**: data synthesised from the modes on the valid samples, modes independent
there ⇒ the synthesising coefficients are the unique minimiser of the masked cost -/
theorem lstsq_recovers (V : Finset ι) (M : κ → ι → F) (d : ι → F) (c : κ → F)
    (hsyn : ∀ i ∈ V, d i = ∑ k, c k * M k i)
    (hindep : ∀ v : κ → F, (∀ i ∈ V, ∑ k, v k * M k i = 0) → v = 0) :
    lsqCost V M d c = 0 ∧ ∀ w, lsqCost V M d w ≤ lsqCost V M d c → w = c := C10L.lstsq_recovers V M d c hsyn hindep

/-- **bridge to the executed oracle**: whatever satisfies the normal equations `Aᵀ(A w - d) = 0` on the valid samples minimises
the masked cost.  The driver's exact rational solver `lstsqNormal` is not proved correct; instead every vector it returns is
re-checked, exactly, against the normal equations (`Model.C10.normalResidual`, reported per request), and prysm's `lstsq` is
compared with that vector. -/
theorem normal_equations_minimise (V : Finset ι) (M : κ → ι → F) (d : ι → F) (w : κ → F)
    (hN : ∀ k, ∑ i ∈ V, M k i * (∑ j, w j * M j i - d i) = 0) (v : κ → F) :
    lsqCost V M d w ≤ lsqCost V M d v := C10L.normal_eq_minimises V M d w hN v

/-- **least squares ⇒ normal equations** (converse of `normal_equations_minimise`, no independence needed): a minimiser of the
masked cost satisfies `Aᵀ(A w - d) = 0`; so "minimiser" and "solution of the normal equations" are the same thing -/
theorem minimiser_iff_normal_equations [DecidableEq κ] (V : Finset ι) (M : κ → ι → F) (d : ι → F) (w : κ → F) :
    (∀ v, lsqCost V M d w ≤ lsqCost V M d v) ↔ ∀ k, ∑ i ∈ V, M k i * (∑ j, w j * M j i - d i) = 0 :=
  C10L.minimiser_iff_normal_eq V M d w

/-- **fit ∘ synthesis = id through the normal equations**: data synthesised from the modes on the valid samples, modes independent
there ⇒ EVERY solution of the normal equations is the synthesising coefficient vector (what the exact oracle `lstsqNormal` returns,
and what any correct least-squares solver must return) -/
theorem normal_equations_recover (V : Finset ι) (M : κ → ι → F) (d : ι → F) (c : κ → F)
    (hsyn : ∀ i ∈ V, d i = ∑ k, c k * M k i)
    (hindep : ∀ v : κ → F, (∀ i ∈ V, ∑ k, v k * M k i = 0) → v = 0) (w : κ → F)
    (hN : ∀ k, ∑ i ∈ V, M k i * (∑ j, w j * M j i - d i) = 0) : w = c := C10L.normal_eq_recovers V M d c hsyn hindep w hN

/-- the normal equations have at most one solution when the modes are independent on the valid samples — for ANY data, synthesised
or not (the Gram matrix `AᵀA` has a trivial kernel) -/
theorem normal_equations_unique (V : Finset ι) (M : κ → ι → F) (d : ι → F)
    (hindep : ∀ v : κ → F, (∀ i ∈ V, ∑ k, v k * M k i = 0) → v = 0) (w w' : κ → F)
    (hN : ∀ k, ∑ i ∈ V, M k i * (∑ j, w j * M j i - d i) = 0)
    (hN' : ∀ k, ∑ i ∈ V, M k i * (∑ j, w' j * M j i - d i) = 0) : w = w' := C10L.normal_eq_unique V M d hindep w w' hN hN'

/-- **the fit is well defined**: modes independent on the valid samples ⇒ for ANY data the masked cost has exactly one minimiser
(the Gram matrix is invertible over the field; existence AND uniqueness), so "the coefficients `lstsq` returns" is a function of the
valid samples alone -/
theorem lstsq_exists_unique [DecidableEq κ] (V : Finset ι) (M : κ → ι → F) (d : ι → F)
    (hindep : ∀ v : κ → F, (∀ i ∈ V, ∑ k, v k * M k i = 0) → v = 0) :
    ∃! w : κ → F, ∀ v, lsqCost V M d w ≤ lsqCost V M d v := C10L.lstsq_exists_unique V M d hindep

/-- **the run-time re-check of the exact oracle is enough**: if the list program `Model.C10.normalResidual` returns zeros for a reply
`w` (this is what the driver tests, in exact rational arithmetic, before it attaches the flag `normal-equations-hold`; the harness
refuses replies without it), the kept data are synthesised from the kept modes with coefficients `c`, and the kept modes are
independent, then `w` IS `c`, entry by entry.  Closes the gap left by the unproved Gauss–Jordan solver `lstsqNormal`. -/
theorem flagged_reply_is_synthesis (modes : List (List F)) (data : List F) (mask : List Bool) (w : List F) (c : Nat → F)
    (hshape : ∀ col ∈ modes.map (maskSel mask), col.length = (maskSel mask data).length)
    (hz : ∀ k, k < (modes.map (maskSel mask)).length → nth (normalResidual modes data mask w) k = 0)
    (hsyn : ∀ i, i < (maskSel mask data).length →
      nth (maskSel mask data) i = ∑ j ∈ Finset.range (modes.map (maskSel mask)).length, c j * nth ((modes.map (maskSel mask)).getD j []) i)
    (hindep : ∀ v : Nat → F, (∀ i, i < (maskSel mask data).length →
      ∑ j ∈ Finset.range (modes.map (maskSel mask)).length, v j * nth ((modes.map (maskSel mask)).getD j []) i = 0) →
      ∀ j, j < (modes.map (maskSel mask)).length → v j = 0) :
    ∀ j, j < (modes.map (maskSel mask)).length → nth w j = c j :=
  C10L.flagged_reply_is_synthesis modes data mask w c hshape hz hsyn hindep

/-- samples outside the valid set (and whatever the modes are there) cannot influence the fit -/
theorem lstsq_ignores_invalid (V : Finset ι) (M M' : κ → ι → F) (d d' : ι → F)
    (hM : ∀ k, ∀ i ∈ V, M k i = M' k i) (hd : ∀ i ∈ V, d i = d' i) (w : κ → F) :
    lsqCost V M d w = lsqCost V M' d' w := C10L.lstsq_ignores_invalid V M M' d d' hM hd w
end Lsq

/-! ## non-vacuity -/
example : ∃ f : Nat → ℚ, ∀ n, f n ≠ 0 := ⟨fun _ => 1, by simp⟩
example : (2 : ℚ) ≠ 0 := by norm_num
example : ∃ (V : Finset (Fin 2)) (M : Fin 2 → Fin 2 → ℚ),
    ∀ v : Fin 2 → ℚ, (∀ i ∈ V, ∑ k, v k * M k i = 0) → v = 0 :=
  ⟨Finset.univ, fun k i => if k = i then 1 else 0, by
    intro v h; funext k
    have := h k (Finset.mem_univ k)
    simpa [Finset.sum_ite_eq'] using this⟩

end C10
