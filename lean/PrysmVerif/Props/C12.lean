import PrysmVerif.Generated.C12
import PrysmVerif.Lemmas.C12Sound
import PrysmVerif.Lemmas.C12Stats
import PrysmVerif.Lemmas.C12Crop
import PrysmVerif.Lemmas.C12LS
/-!
# C12 — Interferogram data, mask and coordinates stay coherent over any history

* `Generated.C12.table` is regenerated from the current prysm source on every run: one effect list per
  method (path) of `RichData` / `Interferogram` that touches `data`, `dx` or a coordinate cache.
* `table_wellBehaved` (`decide` over that table) + `wellBehaved_preserves_inv` (general soundness of the analyser,
  all states / arguments / slices) give `inv_reachable`: coherence after EVERY sequence of method calls.
* statistics, piston, least-squares removal and crop theorems are over the executable value-level model
  (`Model.C12`, lists of valid samples / validity matrices), for all inputs.
-/
set_option linter.unusedTactic false
set_option linter.unreachableTactic false
set_option linter.unusedVariables false
set_option linter.unusedSectionVars false
set_option linter.unusedSimpArgs false

namespace C12
open Model.C12

/-! ## translated obligations (re-checked against the source on every run) -/

/-- every method (path) of the current source passes the table-level coherence check -/
theorem table_wellBehaved : (Generated.C12.table.all fun m => WellBehaved m.2) = true := by decide

/-- every method outside {mask, fill, spike_clip, crop, pad, filter} writes `data` only by elementwise arithmetic -/
theorem keepers_keepValidity : (Generated.C12.keepers.all fun m => KeepsValidity m.2) = true := by decide

/-- the `x / y / r / t` setters only store their argument (so `self.x = v` is `self._x = v`) -/
theorem setters_trivial : Generated.C12.settersTrivial = true := by decide

/-- every branch of the slice arithmetic of `crop` in the current source keeps exactly the rows `[left, rows - right)` and
    the columns `[top, cols - bottom)` — the window `Model.C12.cropBox` computes — for EVERY shape and every number of
    leading / trailing all-invalid rows and columns that leaves at least one valid row and column -/
theorem crop_slices_are_box (left right top bottom rows cols : Int)
    (hl : 0 ≤ left) (hr : 0 ≤ right) (hrows : left + right < rows)
    (ht : 0 ≤ top) (hb : 0 ≤ bottom) (hcols : top + bottom < cols) :
    Generated.C12.cropRowLo left right top bottom rows cols = Model.C12.cropRowLo left right top bottom rows cols ∧
    Generated.C12.cropRowHi left right top bottom rows cols = Model.C12.cropRowHi left right top bottom rows cols ∧
    Generated.C12.cropColLo left right top bottom rows cols = Model.C12.cropColLo left right top bottom rows cols ∧
    Generated.C12.cropColHi left right top bottom rows cols = Model.C12.cropColHi left right top bottom rows cols := by
  refine ⟨?_, ?_, ?_, ?_⟩ <;>
    simp only [Generated.C12.cropRowLo, Generated.C12.cropRowHi, Generated.C12.cropColLo, Generated.C12.cropColHi,
      Model.C12.cropRowLo, Model.C12.cropRowHi, Model.C12.cropColLo, Model.C12.cropColHi, normIdx] <;>
    (repeat' split) <;> omega

/-- the window of the model's `cropBox` is `[left, rows - right) × [top, cols - bottom)` with `left / right / top / bottom`
    the `argmax` of the row / column "has a valid sample" vectors and of their reversals (what `crop` computes) -/
theorem cropBox_window (v : Nat → Nat → Bool) (rows cols r0 r1 c0 c1 : Nat)
    (hb : cropBox v rows cols = some (r0, r1, c0, c1)) :
    r0 = argmaxB (rowAny v rows cols) ∧ r1 = rows - argmaxB (rowAny v rows cols).reverse ∧
    c0 = argmaxB (colAny v rows cols) ∧ c1 = cols - argmaxB (colAny v rows cols).reverse := by
  simp only [cropBox] at hb
  split at hb
  · cases hb
  · simp only [Option.some.injEq, Prod.mk.injEq] at hb
    obtain ⟨rfl, rfl, rfl, rfl⟩ := hb
    exact ⟨rfl, rfl, rfl, rfl⟩

/-- (TRANSLATED) `crop` measures its margins on the FINITE samples (the validity notion of the statistics) -/
theorem gen_crop_validity_is_finite : Generated.C12.cropValidityIsFinite = true := by decide

/-- `Interferogram.crop` assembled ONLY from translated pieces: the four margins (which axis `any` reduces, forward / reversed
    `argmax`), the early-return test and the two slices of every branch (NumPy bound normalisation included) -/
def cropSource (v : Nat → Nat → Bool) (rows cols : Nat) : Option (Nat × Nat × Nat × Nat) :=
  let l : Int := Generated.C12.cropLeft v rows cols
  let r : Int := Generated.C12.cropRight v rows cols
  let t : Int := Generated.C12.cropTop v rows cols
  let b : Int := Generated.C12.cropBottom v rows cols
  if Generated.C12.cropReturnsEarly l r t b = true then none
  else some ((Generated.C12.cropRowLo l r t b rows cols).toNat, (Generated.C12.cropRowHi l r t b rows cols).toNat,
             (Generated.C12.cropColLo l r t b rows cols).toNat, (Generated.C12.cropColHi l r t b rows cols).toNat)

/-- the translated early-return test and slices, for ANY four margins that either leave a valid row / column or are both 0
    (no valid sample), give the model's window `[l, rows - r) x [t, cols - b)` resp. the early return -/
theorem crop_core (l r t b rows cols : Nat) (hR : l + r < rows ∨ (l = 0 ∧ r = 0)) (hC : t + b < cols ∨ (t = 0 ∧ b = 0)) :
    (if Generated.C12.cropReturnsEarly (l : Int) r t b = true then none
     else some ((Generated.C12.cropRowLo l r t b rows cols).toNat, (Generated.C12.cropRowHi l r t b rows cols).toNat,
             (Generated.C12.cropColLo l r t b rows cols).toNat, (Generated.C12.cropColHi l r t b rows cols).toNat)) =
    (if l = 0 ∧ r = 0 ∧ t = 0 ∧ b = 0 then none else some (l, rows - r, t, cols - b)) := by
  simp only [Generated.C12.cropReturnsEarly, Generated.C12.cropRowLo, Generated.C12.cropRowHi,
    Generated.C12.cropColLo, Generated.C12.cropColHi, normIdx, decide_eq_true_eq]
  by_cases h : l = 0 ∧ r = 0 ∧ t = 0 ∧ b = 0
  · obtain ⟨rfl, rfl, rfl, rfl⟩ := h
    simp
  · rw [if_neg (by omega), if_neg h]
    congr 1
    refine Prod.ext ?_ (Prod.ext ?_ (Prod.ext ?_ ?_)) <;> simp only [] <;> (repeat' split) <;> omega

/-- (TRANSLATED, end to end) the `crop` of the current source — margins, early return and slices as translated — computes the
    model's `cropBox` for EVERY validity matrix of EVERY shape (all-invalid, already tight, 0-sized included); so
    `crop_keeps_valid`, `crop_window`, `crop_idempotent` are statements about the source's crop -/
theorem crop_source_is_cropBox (v : Nat → Nat → Bool) (rows cols : Nat) :
    cropSource v rows cols = cropBox v rows cols := by
  have hR : argmaxB (rowAny v rows cols) + argmaxB (rowAny v rows cols).reverse < rows ∨
      (argmaxB (rowAny v rows cols) = 0 ∧ argmaxB (rowAny v rows cols).reverse = 0) := by
    cases h : (rowAny v rows cols).any id
    · exact Or.inr (margins_zero _ h)
    · left; have := margins_lt _ h; rwa [rowAny_length] at this
  have hC : argmaxB (colAny v rows cols) + argmaxB (colAny v rows cols).reverse < cols ∨
      (argmaxB (colAny v rows cols) = 0 ∧ argmaxB (colAny v rows cols).reverse = 0) := by
    cases h : (colAny v rows cols).any id
    · exact Or.inr (margins_zero _ h)
    · left; have := margins_lt _ h; rwa [colAny_length] at this
  simp only [cropSource, cropBox, Generated.C12.cropLeft, Generated.C12.cropRight, Generated.C12.cropTop,
    Generated.C12.cropBottom]
  exact crop_core _ _ _ _ rows cols hR hC

/-- cropping twice, through the TRANSLATED crop: the second call returns early -/
theorem crop_source_idempotent (v : Nat → Nat → Bool) (rows cols r0 r1 c0 c1 : Nat)
    (hb : cropSource v rows cols = some (r0, r1, c0, c1)) :
    cropSource (fun i j => v (i + r0) (j + c0)) (r1 - r0) (c1 - c0) = none := by
  rw [crop_source_is_cropBox] at hb ⊢
  exact cropBox_idempotent v rows cols r0 r1 c0 c1 hb

example : cropSource (fun i j => decide (1 ≤ i ∧ i ≤ 2 ∧ 2 ≤ j ∧ j ≤ 3)) 4 5 = some (1, 3, 2, 4) := by decide

/-- (TRANSLATED) the polar transform behind `RichData.r / .t` (`coordinates.cart_to_polar`, read from the current source) is
    `rho = hypot(x, y)`, `phi = arctan2(y, x)` — for every pair of functions `hyp` (symmetric) and `at2`, every `x, y`: the
    argument ORDER of `arctan2` is what the obligation pins (a generic `at2` is not symmetric) -/
theorem gen_polar_transform {F : Type} (hyp at2 : F → F → F) (hsym : ∀ a b, hyp a b = hyp b a) (x y : F) :
    Generated.C12.polarRho hyp at2 x y = hyp x y ∧ Generated.C12.polarPhi hyp at2 x y = at2 y x := by
  exact ⟨by first | rfl | exact hsym _ _, rfl⟩

/-- non-vacuity: `max` is a symmetric `hyp` -/
example : ∀ a b : Nat, max a b = max b a := Nat.max_comm

/-- (TRANSLATED) the statistics the object reports are the util statistics of the same name applied to `self.data`:
    `Interferogram.pv / rms / Sa / std` hand `self.data` to `util.pv / rms / Sa / std` (codes 1, 2, 3, 4), so `gen_util_stats` and
    `util_stats_identities` are statements about what the properties return -/
theorem gen_stats_delegation : Generated.C12.ifgStatCallee = [1, 2, 3, 4] := by decide

/-- (TRANSLATED) `pad(samples=...)` asks `pad2d` for the shape `(rows + s0, cols + s1)` — each count added to its own axis, for
    every shape and every pair of counts —, an integer `samples` pads both axes, and `self.data`, `value` and that shape are
    what `pad2d` receives -/
theorem gen_pad_shape (rows cols s0 s1 : Int) :
    Generated.C12.padShape0 rows cols s0 s1 = rows + s0 ∧ Generated.C12.padShape1 rows cols s0 s1 = cols + s1 ∧
    Generated.C12.padIntSamplesBothAxes = true ∧ Generated.C12.padHandsDataValueShapeToPad2d = true := by
  refine ⟨?_, ?_, by decide, by decide⟩ <;> simp only [Generated.C12.padShape0, Generated.C12.padShape1] <;> omega

/-- (TRANSLATED) the five statistics of `prysm.util`, read as list expressions over the valid samples, ARE the model's:
    `mean`, `pv = max - min`, `rms = sqrt (mean square)`, `Sa = sum |v - mean| / n`, `std = sqrt (variance)` -/
theorem gen_util_stats {K : Type} [Num K] [LT K] [DecidableLT K] (absf sqrtf : K → K) (v : List K) :
    Generated.C12.util_mean absf sqrtf v = mean v ∧ Generated.C12.util_pv absf sqrtf v = pv v ∧
    Generated.C12.util_rms absf sqrtf v = sqrtf (meanSq v) ∧ Generated.C12.util_Sa absf sqrtf v = saWith absf v ∧
    Generated.C12.util_std absf sqrtf v = sqrtf (var v) := by
  refine ⟨?_, ?_, ?_, ?_, ?_⟩ <;>
    simp only [Generated.C12.util_mean, Generated.C12.util_pv, Generated.C12.util_rms, Generated.C12.util_Sa,
      Generated.C12.util_std, mean, pv, meanSq, saWith, var, lenK, List.length_map, List.map_map, Function.comp_def]

/-- (TRANSLATED) the statistics select their samples with `isfinite`: NaN, +inf and -inf are all invalid -/
theorem gen_util_valid_is_finite : Generated.C12.utilValidIsFinite = true := by decide

/-- (TRANSLATED: the returned surfaces of `fit_plane` / `fit_sphere` evaluated symbolically as polynomials in the design columns
    and the fitted coefficients) tilt removal fits the columns `(x, y)` without a constant and subtracts exactly
    `c0*x + c1*y`; power removal fits `(rho^2, 1)` and subtracts exactly `c0*rho^2` — the two cases `tilt_removal_idempotent` / `power_removal_idempotent` are about -/
theorem gen_removal_columns :
    Generated.C12.tiltRemovedColumns = [0, 1] ∧ Generated.C12.powerRemovedColumns = [0] ∧
    Generated.C12.tiltDesignHasConstant = false ∧ Generated.C12.powerDesignHasConstant = true ∧
    Generated.C12.removedSurfacesAreFittedColumns = true := by decide

/-- (TRANSLATED) the least-squares fits behind tilt / power removal and pvr pick the valid samples of the data and of the fitted
    columns in the same logical (row-major) order: no flattening by memory order, so the memory layout of the data cannot matter -/
theorem gen_fits_flatten_in_logical_order : Generated.C12.fitsFlattenInLogicalOrder = true := by decide

/-! ## coherence for every history -/

section coherence
variable {K : Type} [Field K]

/-- soundness of the table-level check: a well-behaved effect list maps coherent states to coherent states,
    for every state, every argument value, every slice / pad shape -/
theorem wellBehaved_preserves_inv (effs : List Eff) (hwb : WellBehaved effs = true) (env : Env K) (s : State K)
    (h : Inv s) : Inv (run env s effs) :=
  wellBehaved_sound effs hwb env s h

/-- a freshly constructed object (no cache populated) is coherent -/
theorem inv_init (rows cols : Nat) (dx : K) (lc : Bool) (sv : Nat → K) :
    Inv (⟨rows, cols, dx, lc, none, none, none, none, sv⟩ : State K) :=
  ⟨by simp, by simp, by simp, by simp, rfl, rfl⟩

/-- (TRANSLATED) every path of the constructors of the current source establishes coherence from scratch: analysed from NO
    knowledge about the caches, the effect list of `RichData.__init__` / `Interferogram.__init__` is accepted -/
theorem inits_wellBehaved : (Generated.C12.inits.all WellBehavedInit) = true := by decide

/-- a freshly constructed object is coherent, whatever the arguments (ties `inv_init` to the source of `__init__`) -/
theorem constructed_coherent (effs : List Eff) (h : effs ∈ Generated.C12.inits) (env : Env K) (s : State K) :
    Inv (run env s effs) :=
  wellBehavedInit_sound effs (List.all_eq_true.mp inits_wellBehaved effs h) env s

/-- **coherence over any history**: after any sequence (any length, any interleaving, any arguments) of calls of
    methods of the current source — including bare reads of `x / y / r / t` — the state is coherent -/
theorem inv_reachable (ops : List (List Eff × Env K))
    (hops : ∀ o ∈ ops, o.1 ∈ Generated.C12.table.map Prod.snd) (s0 : State K) (h0 : Inv s0) :
    Inv (ops.foldl (fun s o => run o.2 s o.1) s0) := by
  induction ops generalizing s0 with
  | nil => exact h0
  | cons o rest ih =>
    have hmem := hops o (List.mem_cons_self)
    obtain ⟨m, hm, hme⟩ := List.mem_map.mp hmem
    have hwb : WellBehaved o.1 = true := by
      have := List.all_eq_true.mp table_wellBehaved m hm
      rw [← hme]; exact this
    exact ih (fun o' ho' => hops o' (List.mem_cons_of_mem _ ho')) _ (wellBehaved_preserves_inv o.1 hwb o.2 s0 h0)

/-- what coherence means for the user, Cartesian part: after reading `x` the array exists, has the shape of the
    data and its spacing is the current `dx` (same for `y`) -/
theorem read_xy_coherent (env : Env K) (s : State K) (h : Inv s) (c : XY) :
    ∃ a, getXY (run env s [.fillXY c]) c = some a ∧ a.rows = (run env s [.fillXY c]).rows ∧
      a.cols = (run env s [.fillXY c]).cols ∧ a.sp = (run env s [.fillXY c]).dx := by
  have hinv : Inv (run env s [.fillXY c]) := wellBehaved_preserves_inv _ (by cases c <;> decide) env s h
  have hsome : (getXY (run env s [.fillXY c]) c).isSome = true := by
    cases c <;> simp only [run, List.foldl, step, fillXY, getXY] <;> split <;> simp_all
  obtain ⟨a, ha⟩ := Option.isSome_iff_exists.mp hsome
  refine ⟨a, ha, ?_⟩
  cases c
  · exact hinv.x a ha
  · exact hinv.y a ha

/-- (about the model's affine-grid abstraction, not translated) neighbouring samples along the axis differ by exactly `sp` -/
theorem axis_spacing (a : Axis K) (j : Nat) :
    (a.o + ((j + 1 : Nat) : K) * a.sp) - (a.o + (j : K) * a.sp) = a.sp := by
  push_cast; ring

/-- cropping re-labels nothing: sample `(i, j)` of a resliced coordinate array carries the coordinate that sample
    `(i + first row, j + first column)` carried before (so data and coordinates are cut by the same window) -/
theorem reslice_keeps_labels (env : Env K) (k : Nat) (a : Axis K) (i j : Nat) :
    (resliceAxis env .x k a).o + (j : K) * (resliceAxis env .x k a).sp = a.o + ((j + (env.off k).2 : Nat) : K) * a.sp ∧
    (resliceAxis env .y k a).o + (i : K) * (resliceAxis env .y k a).sp = a.o + ((i + (env.off k).1 : Nat) : K) * a.sp := by
  constructor <;> simp only [resliceAxis] <;>
    (show a.o + ((_ : Int) : K) * a.sp + _ = _) <;> simp only [Int.cast_natCast] <;> push_cast <;> ring

/-- `recenter` does what it says: after `c -= c[shape // 2]` the sample at the centre index is exactly zero
    (`x`: column `cols // 2`; `y`: row `rows // 2`), and the spacing is untouched -/
theorem recenter_zero_at_centre (s : State K) (a : Axis K) :
    (centerAxis s .x a).o + ((s.cols / 2 : Nat) : K) * (centerAxis s .x a).sp = 0 ∧
    (centerAxis s .y a).o + ((s.rows / 2 : Nat) : K) * (centerAxis s .y a).sp = 0 ∧
    (centerAxis s .x a).sp = a.sp ∧ (centerAxis s .y a).sp = a.sp := by
  refine ⟨?_, ?_, rfl, rfl⟩ <;> simp only [centerAxis] <;>
    (show a.o - (a.o + ((_ : Int) : K) * a.sp) + _ = 0) <;> simp only [Int.cast_natCast] <;> ring

/-- a freshly generated grid (`make_xy_grid`) has its exact zero at the centre index and spacing `dx` -/
theorem fresh_zero_at_centre (s : State K) :
    (freshAxis s .x).o + ((s.cols / 2 : Nat) : K) * (freshAxis s .x).sp = 0 ∧
    (freshAxis s .y).o + ((s.rows / 2 : Nat) : K) * (freshAxis s .y).sp = 0 ∧
    (freshAxis s .x).sp = s.dx ∧ (freshAxis s .y).sp = s.dx := by
  refine ⟨?_, ?_, rfl, rfl⟩ <;> simp only [freshAxis] <;>
    (show ((_ : Int) : K) * s.dx + _ = 0) <;> simp only [Int.cast_neg, Int.cast_natCast] <;> ring

/-- polar part: after reading `r` (or `t`) the polar array exists and is the polar transform of exactly the
    Cartesian arrays the object currently holds -/
theorem read_rt_coherent (env : Env K) (s : State K) (h : Inv s) (c : RT) :
    ∃ p, getRT (run env s [.fillRT c]) c = some p ∧
      (run env s [.fillRT c]).x = some p.sx ∧ (run env s [.fillRT c]).y = some p.sy := by
  have hinv : Inv (run env s [.fillRT c]) := wellBehaved_preserves_inv _ (by cases c <;> decide) env s h
  have hsome : (getRT (run env s [.fillRT c]) c).isSome = true := by
    obtain ⟨a, b, ha, hb⟩ := fill_both s
    cases c <;> simp only [run, List.foldl, step, getRT] <;> split <;>
      simp_all [storePolar, getRT]
  obtain ⟨p, hp⟩ := Option.isSome_iff_exists.mp hsome
  refine ⟨p, hp, ?_⟩
  cases c
  · exact hinv.r p hp
  · exact hinv.t p hp

/-- the table-level check is not vacuous: it REJECTS the effect lists of the defects it is meant to catch
    (lateral calibration stripped / data padded with the polar caches left alone; a crop that forgets `y`) -/
theorem wellBehaved_rejects :
    WellBehaved [.setDx .one, .freshXY, .setLatcaled false] = false ∧
    WellBehaved [.dataReshape 0, .guardXY .x (.reslice .x 0)] = false ∧
    WellBehaved [.fillXY .x, .scale .x (.arg 0), .fillXY .y, .scale .y (.arg 0), .setDx (.arg 0)] = false ∧
    WellBehaved [.fillXY .x, .fillXY .x, .center .x, .clearRT .r] = false := by decide

/-- ... and the rejected list really breaks coherence: `read r; strip_latcal` without invalidation leaves a polar
    cache that is not the polar transform of the current Cartesian arrays (concrete state over ℚ) -/
theorem stale_polar_witness :
    let env : Env ℚ := ⟨fun _ => 2, fun _ => (8, 8), fun _ => (0, 0), ⟨0, 0, 0, 0⟩, ⟨⟨0, 0, 0, 0⟩, ⟨0, 0, 0, 0⟩⟩⟩
    let s0 : State ℚ := ⟨8, 8, 2, true, none, none, none, none, fun _ => 0⟩
    let s := run env (run env s0 [.fillRT .r]) [.setDx .one, .freshXY, .setLatcaled false]
    ¬ Inv s := by
  intro env s0 s hinv
  have h := hinv.r
  simp only [s, s0, env, run, List.foldl, step, getRT, storePolar, fillXY, getXY, freshAxis, evalV] at h
  have := (h _ rfl).1
  simp only [Option.some.injEq, Axis.mk.injEq] at this
  have h4 := this.2.2.2
  norm_num [Num.ofInt] at h4

end coherence

/-! ## validity -/

section validity
variable {K : Type} [Field K]

/-- an elementwise arithmetic write keeps a sample valid iff it was valid (NaN in, NaN out; finite in, finite out) -/
theorem arith_keeps_valid (sel : Bool) (f : K → K) (v : Option K) (d : Option K) :
    (writeSample .arith sel f v d).isSome = d.isSome := by
  cases sel <;> cases d <;> simp [writeSample]

/-- a method whose effect list writes `data` only by elementwise arithmetic leaves every sample's validity as it was,
    whatever the selected samples are — PROVIDED the subtracted values are finite (`f : K → K` is total; a NaN / inf in the
    fitted term, e.g. from a singular fit, is outside this statement and is covered by the history correspondence only) -/
theorem validity_preserved (l : List (Eff × Bool × (K → K) × Option K))
    (h : KeepsValidity (l.map Prod.fst) = true) (d : Option K) :
    (l.foldl sampleStep d).isSome = d.isSome := by
  induction l generalizing d with
  | nil => rfl
  | cons e rest ih =>
    simp only [List.map_cons, KeepsValidity, List.all_cons, Bool.and_eq_true] at h
    rw [List.foldl_cons, ih h.2]
    simp only [sampleStep]
    have h1 := h.1
    cases hde : dataEffect e.1 with
    | none => rfl
    | some w =>
      cases w with
      | none => simp [hde] at h1
      | some w => cases w <;> simp [hde] at h1; exact arith_keeps_valid _ _ _ _

end validity

/-! ## the whole state over any history -/

section history
variable {K : Type} [Field K]

/-- one call of a method that does not claim to change validity (an entry of the TRANSLATED `keepers` table) leaves the validity
    of every stored sample as it was, whatever samples it addresses and whatever finite values it subtracts -/
theorem keeper_call_keeps_validity (m : List (Eff × Bool × (K → K) × Option K))
    (hm : m.map Prod.fst ∈ Generated.C12.keepers.map Prod.snd) (d : Option K) :
    (m.foldl sampleStep d).isSome = d.isSome := by
  obtain ⟨e, he, hee⟩ := List.mem_map.mp hm
  have hk : KeepsValidity (m.map Prod.fst) = true := by
    have := List.all_eq_true.mp keepers_keepValidity e he
    rw [← hee]; exact this
  exact validity_preserved m hk d

/-- **the whole state over any history**: after ANY sequence of calls of methods of the current source (any length, interleaving,
    arguments, addressed samples), (1) the coordinate state is coherent, and (2) the validity of every stored sample is what it
    was before the first call of the sequence, as long as no call of {mask, fill, spike_clip, crop, pad, filter} occurs in it — by
    induction over the history, from the two translated tables -/
theorem history_coherent_and_validity
    (ops : List (List (Eff × Bool × (K → K) × Option K) × Env K))
    (hops : ∀ o ∈ ops, o.1.map Prod.fst ∈ Generated.C12.table.map Prod.snd) (s0 : State K) (h0 : Inv s0) (d0 : Option K) :
    Inv (ops.foldl (fun s o => run o.2 s (o.1.map Prod.fst)) s0) ∧
    ((∀ o ∈ ops, o.1.map Prod.fst ∈ Generated.C12.keepers.map Prod.snd) →
      (ops.foldl (fun d o => o.1.foldl sampleStep d) d0).isSome = d0.isSome) := by
  constructor
  · have := inv_reachable (K := K) (ops.map fun o => (o.1.map Prod.fst, o.2))
      (by intro o ho; obtain ⟨o', ho', rfl⟩ := List.mem_map.mp ho; exact hops o' ho') s0 h0
    rwa [List.foldl_map] at this
  · intro hk
    induction ops generalizing d0 with
    | nil => rfl
    | cons o rest ih =>
      rw [List.foldl_cons]
      rw [ih (fun o' ho' => hops o' (List.mem_cons_of_mem _ ho')) _ (fun o' ho' => hk o' (List.mem_cons_of_mem _ ho'))]
      exact keeper_call_keeps_validity o.1 (hk o List.mem_cons_self) d0

/-- non-vacuity: `remove_piston` is a method of both translated tables, so histories satisfying both hypotheses exist -/
example : Generated.C12.eff_remove_piston ∈ Generated.C12.keepers.map Prod.snd ∧
    Generated.C12.eff_remove_piston ∈ Generated.C12.table.map Prod.snd := by
  constructor <;> simp [Generated.C12.keepers, Generated.C12.table]

end history

/-! ## statistics over the valid samples (any ordered field; `ℝ` for the square-root forms) -/

section stats
variable {K : Type} [Field K] [LinearOrder K] [IsStrictOrderedRing K]

/-- mean square = variance + mean², for every non-empty set of valid samples -/
theorem meanSq_eq_var_add_mean_sq (d : List (Option K)) (h : validOf d ≠ []) :
    meanSq (validOf d) = var (validOf d) + mean (validOf d) * mean (validOf d) :=
  meanSq_eq_var_add _ h

/-- `Sa² ≤ std²` -/
theorem sa_sq_le_std_sq (d : List (Option K)) (h : validOf d ≠ []) :
    saWith (fun v => |v|) (validOf d) * saWith (fun v => |v|) (validOf d) ≤ var (validOf d) :=
  sa_sq_le_var _ h

/-- `std² ≤ PV²` and `PV ≥ 0` -/
theorem std_sq_le_pv_sq (d : List (Option K)) (h : validOf d ≠ []) :
    var (validOf d) ≤ pv (validOf d) * pv (validOf d) ∧ 0 ≤ pv (validOf d) :=
  ⟨var_le_pv_sq _ h, pv_nonneg _ h⟩

/-- piston removal leaves exactly zero mean over the valid samples and does not touch validity -/
theorem piston_zero_mean (d : List (Option K)) (h : validOf d ≠ []) :
    mean (validOf (removePiston d)) = 0 ∧ (removePiston d).map Option.isSome = d.map Option.isSome :=
  ⟨mean_removePiston d h, removePiston_valid d⟩

/-- tilt removal (columns `x, y`, no constant, both removed) is idempotent: re-fitting finds nothing -/
theorem tilt_removal_idempotent (l : List (K × K × K))
    (hdet : (sums l).aa * (sums l).bb - (sums l).ab * (sums l).ab ≠ 0) : fit2 (removeBoth l) = (0, 0) :=
  fit2_removeBoth l hdet

/-- power removal (columns `ρ², 1`, only `ρ²` removed) is idempotent: re-fitting finds no `ρ²` term -/
theorem power_removal_idempotent (l : List (K × K × K))
    (hdet : (sums l).aa * (sums l).bb - (sums l).ab * (sums l).ab ≠ 0) : (fit2 (removeFirst l)).1 = 0 :=
  fit2_removeFirst l hdet

/-- least-squares removal, ANY number of design columns, ANY subset `S` of removed columns, NO rank assumption: if `c` solves
    the normal equations of the fit to `z`, then `c` with the removed coefficients set to 0 solves the normal equations of the
    fit to the data after removal — re-fitting CAN find nothing for the removed terms (tilt: 2 columns, all removed; power:
    columns `rho^2, 1`, the first removed) -/
theorem ls_removal_residual_solves {m k : Nat} (A : Fin m → Fin k → K) (z : Fin m → K) (c : Fin k → K) (S : Finset (Fin k))
    (h : C12L.NormalEq A z c) : C12L.NormalEq A (C12L.removeCols A z c S) (fun l => if l ∈ S then 0 else c l) :=
  C12L.removed_solves A z c S h

/-- ... and with independent columns (the Gram matrix has trivial kernel) EVERY re-fit finds exactly 0 for every removed
    column: removal is idempotent, for any number of columns and any removed subset -/
theorem ls_removal_idempotent {m k : Nat} (A : Fin m → Fin k → K) (z : Fin m → K) (c c' : Fin k → K) (S : Finset (Fin k))
    (hind : ∀ d : Fin k → K, (∀ j, ∑ i, A i j * ∑ l, A i l * d l = 0) → d = 0)
    (h : C12L.NormalEq A z c) (h' : C12L.NormalEq A (C12L.removeCols A z c S) c') : ∀ l ∈ S, c' l = 0 :=
  C12L.refit_zero A z c c' S hind h h'

/-- tilt removal is idempotent for EVERY rank of the design (single row / column, a single valid sample, collinear samples
    included): when ALL fitted columns are removed (tilt: `x` and `y`, no constant), the zero vector solves the normal equations of
    the re-fit, and zero is the unique minimum-norm vector — the solution `np.linalg.lstsq` returns — so re-fitting finds nothing.
    (For a removed SUBSET — power removal — this is false for rank-deficient designs; see `ls_removal_idempotent`.) -/
theorem tilt_removal_idempotent_any_rank {F : Type} [Field F] [LinearOrder F] [IsStrictOrderedRing F] {m k : Nat}
    (A : Fin m → Fin k → F) (z : Fin m → F) (c : Fin k → F) (h : C12L.NormalEq A z c) :
    C12L.NormalEq A (C12L.removeCols A z c Finset.univ) (fun _ => 0) ∧
    ∀ d : Fin k → F, C12L.NormalEq A (C12L.removeCols A z c Finset.univ) d →
      (∑ l : Fin k, ((fun _ => (0 : F)) l) ^ 2 ≤ ∑ l, d l ^ 2) ∧ (∑ l, d l ^ 2 = 0 → d = fun _ => 0) :=
  ⟨C12L.full_removal_zero_solves A z c h, fun d _ => C12L.zero_is_min_norm d⟩

/-- non-vacuity (rank-deficient): a zero design column — the `y` column of a single-row map — any coefficient solves the normal equations -/
example : C12L.NormalEq (fun (_ : Fin 2) (_ : Fin 1) => (0 : ℚ)) ![1, 3] (fun _ => 5) := by
  intro j; simp

/-- non-vacuity: a one-column design of ones has independent columns, and the mean solves its normal equations -/
example : (∀ d : Fin 1 → ℚ, (∀ j : Fin 1, ∑ i : Fin 2, (fun (_ : Fin 2) (_ : Fin 1) => (1 : ℚ)) i j *
      ∑ l : Fin 1, (fun (_ : Fin 2) (_ : Fin 1) => (1 : ℚ)) i l * d l = 0) → d = 0) ∧
    C12L.NormalEq (fun (_ : Fin 2) (_ : Fin 1) => (1 : ℚ)) ![1, 3] (fun _ => 2) := by
  constructor
  · intro d h
    have := h 0
    funext l
    fin_cases l
    simp at this
    simpa using this
  · intro j
    simp [Fin.sum_univ_two]
    norm_num

/-- the fitted coefficients are the least-squares ones: they solve the normal equations -/
theorem fit_solves_normal_equations (l : List (K × K × K))
    (hdet : (sums l).aa * (sums l).bb - (sums l).ab * (sums l).ab ≠ 0) :
    (fit2 l).1 * (sums l).aa + (fit2 l).2 * (sums l).ab = (sums l).az ∧
    (fit2 l).1 * (sums l).ab + (fit2 l).2 * (sums l).bb = (sums l).bz :=
  fit2_normal l hdet

end stats

/-- `rms² = std² + mean²` with `rms = √(mean square)`, `std = √variance` -/
theorem rms_sq_eq_std_sq_add_mean_sq (d : List (Option ℝ)) (h : validOf d ≠ []) :
    rmsR (validOf d) ^ 2 = stdR (validOf d) ^ 2 + mean (validOf d) ^ 2 := by
  rw [rmsR, stdR, Real.sq_sqrt (meanSq_nonneg _ h), Real.sq_sqrt (var_nonneg _ h), meanSq_eq_var_add _ h]; ring

/-- `Sa ≤ std ≤ PV` -/
theorem sa_le_std_le_pv (d : List (Option ℝ)) (h : validOf d ≠ []) :
    saR (validOf d) ≤ stdR (validOf d) ∧ stdR (validOf d) ≤ pv (validOf d) := by
  constructor
  · rw [stdR]
    apply Real.le_sqrt_of_sq_le
    rw [sq]; exact sa_sq_le_var _ h
  · rw [stdR]
    apply Real.sqrt_le_iff.mpr
    exact ⟨pv_nonneg _ h, by rw [sq]; exact var_le_pv_sq _ h⟩

/-- the identities of the property for the statistics AS TRANSLATED from `prysm.util` (real square root and absolute value):
    `rms² = std² + mean²` and `Sa ≤ std ≤ PV` over the valid samples of any map with at least one valid sample -/
theorem util_stats_identities (d : List (Option ℝ)) (h : validOf d ≠ []) :
    Generated.C12.util_rms (fun t => |t|) Real.sqrt (validOf d) ^ 2
      = Generated.C12.util_std (fun t => |t|) Real.sqrt (validOf d) ^ 2
        + Generated.C12.util_mean (fun t => |t|) Real.sqrt (validOf d) ^ 2 ∧
    Generated.C12.util_Sa (fun t => |t|) Real.sqrt (validOf d) ≤ Generated.C12.util_std (fun t => |t|) Real.sqrt (validOf d) ∧
    Generated.C12.util_std (fun t => |t|) Real.sqrt (validOf d) ≤ Generated.C12.util_pv (fun t => |t|) Real.sqrt (validOf d) := by
  obtain ⟨e1, e2, e3, e4, e5⟩ := gen_util_stats (fun t : ℝ => |t|) Real.sqrt (validOf d)
  rw [e1, e2, e3, e4, e5]
  exact ⟨rms_sq_eq_std_sq_add_mean_sq d h, sa_le_std_le_pv d h⟩

/-! ## bounding-box crop -/

/-- cropping keeps every valid sample: all of them lie inside the kept window -/
theorem crop_keeps_valid (v : Nat → Nat → Bool) (rows cols r0 r1 c0 c1 : Nat)
    (hb : cropBox v rows cols = some (r0, r1, c0, c1)) (i j : Nat) (hi : i < rows) (hj : j < cols)
    (hv : v i j = true) : r0 ≤ i ∧ i < r1 ∧ c0 ≤ j ∧ j < c1 :=
  cropBox_contains v rows cols r0 r1 c0 c1 hb i j hi hj hv

/-- the kept window is a non-empty sub-window of the array whose four border lines each hold a valid sample -/
theorem crop_window (v : Nat → Nat → Bool) (rows cols r0 r1 c0 c1 : Nat)
    (hb : cropBox v rows cols = some (r0, r1, c0, c1)) :
    r0 < r1 ∧ r1 ≤ rows ∧ c0 < c1 ∧ c1 ≤ cols :=
  let h := cropBox_bounds v rows cols r0 r1 c0 c1 hb
  ⟨h.1, h.2.1, h.2.2.1, h.2.2.2.1⟩

/-- cropping is idempotent: a second `crop` finds nothing to trim and returns the object unchanged -/
theorem crop_idempotent (v : Nat → Nat → Bool) (rows cols r0 r1 c0 c1 : Nat)
    (hb : cropBox v rows cols = some (r0, r1, c0, c1)) :
    cropBox (fun i j => v (i + r0) (j + c0)) (r1 - r0) (c1 - c0) = none :=
  cropBox_idempotent v rows cols r0 r1 c0 c1 hb

/-! ## non-vacuity -/
example : cropBox (fun i j => decide (1 ≤ i ∧ i ≤ 2 ∧ 2 ≤ j ∧ j ≤ 3)) 4 5 = some (1, 3, 2, 4) := by decide
example : validOf [some (1 : ℚ), none, some 3] = [1, 3] := by decide
example : (sums [((1 : ℚ), (0 : ℚ), (2 : ℚ)), (0, 1, 3), (1, 1, 4)]).aa * (sums [((1 : ℚ), (0 : ℚ), (2 : ℚ)), (0, 1, 3), (1, 1, 4)]).bb
    - (sums [((1 : ℚ), (0 : ℚ), (2 : ℚ)), (0, 1, 3), (1, 1, 4)]).ab * (sums [((1 : ℚ), (0 : ℚ), (2 : ℚ)), (0, 1, 3), (1, 1, 4)]).ab ≠ 0 := by
  norm_num [sums, lsum, Num.ofInt]
example : WellBehaved ((methodEffs "pad").getD []) = true ∧ WellBehaved ((methodEffs "crop").getD []) = true := by decide

end C12
